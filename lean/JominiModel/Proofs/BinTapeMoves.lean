import JominiModel.Proofs.BinTapeDropped
import JominiModel.Proofs.BinTapePairs
import JominiModel.Proofs.BinTapeEqTok
/-
C03, what the tape leaves out — with context.  Every iteration of the loop acts on the lexeme content
of the tape by exactly one of four `Move`s (Spec/BinTapeLex.lean): `keep`, `eqAfterKey`, `ghost`,
`rewrite`.  No other way of losing a lexeme exists; in particular a scalar / id lexeme is lost only
as the one `odd` token of an only_empties rewrite.
-/
namespace Jomini.BinTape
open Jomini


/-! ### balance of good sequences; the token-level shape of an only_empties run -/

def BTok.isStartB : BTok → Bool
  | .array _ | .object _ => true
  | _ => false
def BTok.isEndB : BTok → Bool
  | .end_ _ => true
  | _ => false

def starts (l : Tape) : Nat := (l.filter BTok.isStartB).length
def ends (l : Tape) : Nat := (l.filter BTok.isEndB).length

@[simp] theorem starts_append (a b : Tape) : starts (a ++ b) = starts a + starts b := by simp [starts]
@[simp] theorem ends_append (a b : Tape) : ends (a ++ b) = ends a + ends b := by simp [ends]

theorem plain_counts {x : BTok} (h : x.isPlain = true) : starts [x] = 0 ∧ ends [x] = 0 := by
  cases x <;> simp [BTok.isPlain] at h <;> simp [starts, ends, BTok.isStartB, BTok.isEndB]

mutual
theorem GSeq.bal : ∀ {l : Tape}, GSeq l → starts l = ends l
  | _, .nil => rfl
  | _, .plain h hx => by
    have := GSeq.bal h; have := plain_counts hx; simp; omega
  | _, .cont h hc => by
    have := GSeq.bal h; have := GCont.bal hc; simp; omega
theorem GCont.bal : ∀ {c : Tape}, GCont c → starts c = ends c
  | _, @GCont.arr inner e i h => by
    have := GSeq.bal h
    have e1 : BTok.array e :: (inner ++ [BTok.end_ i]) = [BTok.array e] ++ inner ++ [BTok.end_ i] := by simp
    rw [e1]
    have a1 : starts [BTok.array e] = 1 := rfl
    have a2 : ends [BTok.array e] = 0 := rfl
    have a3 : starts [BTok.end_ i] = 0 := rfl
    have a4 : ends [BTok.end_ i] = 1 := rfl
    simp only [starts_append, ends_append, a1, a2, a3, a4]; omega
  | _, @GCont.obj inner ph e i h _ => by
    have := Body.bal h
    have e1 : BTok.object e :: (inner ++ [BTok.end_ i]) = [BTok.object e] ++ inner ++ [BTok.end_ i] := by simp
    rw [e1]
    have a1 : starts [BTok.object e] = 1 := rfl
    have a2 : ends [BTok.object e] = 0 := rfl
    have a3 : starts [BTok.end_ i] = 0 := rfl
    have a4 : ends [BTok.end_ i] = 1 := rfl
    simp only [starts_append, ends_append, a1, a2, a3, a4]; omega
theorem Body.bal : ∀ {l : Tape} {ph : Phase}, Body l ph → starts l = ends l
  | _, _, .nil => rfl
  | _, _, .key h hk => by
    have := Body.bal h; have := plain_counts (BTok.isKey_plain hk); simp; omega
  | _, _, .valPlain h hv => by
    have := Body.bal h; have := plain_counts (BTok.isVal_plain hv); simp; omega
  | _, _, .valCont h hc => by
    have := Body.bal h; have := GCont.bal hc; simp; omega
  | _, _, .mixed h => by
    have := Body.bal h; simp [starts, ends, BTok.isStartB, BTok.isEndB] at *; omega
  | _, _, .afterPlain h hx => by
    have := Body.bal h; have := plain_counts hx; simp; omega
  | _, _, .afterCont h hc => by
    have := Body.bal h; have := GCont.bal hc; simp; omega
end

/-- what the only_empties test accepts, token-wise: balanced `{}` pairs, then at most one more token (which
then stands at the start or directly behind an `End`) -/
theorem allEmptyPairs_tok : ∀ (l : Tape), allEmptyPairs l = true →
    ∃ n, (flat l = pairsLex n ∧ l.length / 2 = n) ∨
      (∃ l0 y, l = l0 ++ [y] ∧ flat l0 = pairsLex n ∧ starts l0 = ends l0 ∧ l.length / 2 = n ∧
        (l0 = [] ∨ ∃ l1 j, l0 = l1 ++ [.end_ j]))
  | [], _ => ⟨0, Or.inl ⟨rfl, rfl⟩⟩
  | [y], _ => ⟨0, Or.inr ⟨[], y, rfl, rfl, rfl, by simp, Or.inl rfl⟩⟩
  | a :: b :: rest, h => by
    cases a <;> cases b <;> simp [allEmptyPairs] at h
    rename_i ea eb
    obtain ⟨n, hn⟩ := allEmptyPairs_tok rest h.2
    refine ⟨n + 1, ?_⟩
    rcases hn with ⟨h1, h2⟩ | ⟨l0, y, h1, h2, h3, h4, h5⟩
    · exact Or.inl ⟨by simp [h1, flatten, pairsLex], by simp; omega⟩
    · subst h1
      refine Or.inr ⟨BTok.array ea :: BTok.end_ eb :: l0, y, by simp, by simp [h2, flatten, pairsLex], ?_,
        by simp at h4 ⊢; omega, Or.inr ?_⟩
      · have e1 : BTok.array ea :: BTok.end_ eb :: l0 = [BTok.array ea] ++ [BTok.end_ eb] ++ l0 := by simp
        rw [e1]
        have a1 : starts [BTok.array ea] = 1 := rfl
        have a2 : ends [BTok.array ea] = 0 := rfl
        have a3 : starts [BTok.end_ eb] = 0 := rfl
        have a4 : ends [BTok.end_ eb] = 1 := rfl
        simp only [starts_append, ends_append, a1, a2, a3, a4]; omega
      · rcases h5 with rfl | ⟨l1, j, rfl⟩
        · exact ⟨[BTok.array ea], eb, rfl⟩
        · exact ⟨BTok.array ea :: BTok.end_ eb :: l1, j, by simp⟩

theorem plain_of_counts {y : BTok} (h : starts [y] = ends [y]) : y.isPlain = true := by
  cases y
  case array e => have h' : (1 : Nat) = 0 := h; omega
  case object e => have h' : (1 : Nat) = 0 := h; omega
  case end_ i => have h' : (0 : Nat) = 1 := h; omega
  all_goals rfl

/-- in `KeyValueSeparator` / `OpenSecond` the last tape token is a scalar standing for itself -/
def LastLex (tape : Tape) (state : PState) : Prop :=
  (state = .keyValueSeparator ∨ state = .openSecond) → ∃ t0 x, tape = t0 ++ [x] ∧ flatten x = [.tok x]

/-- a value is owed: the `=` behind a key has just been read (`ObjectValue`) -/
def owed : PState → Bool
  | .objectValue => true
  | _ => false

/-- one iteration as a `Move`, and the last-token fact for the next one -/
def StepMove (st st' : St) : Prop :=
  ∀ L, Lexes st.data L → ∃ L1 L2 o, L = L1 ++ L2 ∧ Lexes st'.data L2 ∧
    Move (owed st.state) (flat st.tape) L1 (flat st'.tape) o (owed st'.state) ∧ LastLex st'.tape st'.state

theorem move_keep {p q : Bool} {A N L1 : List Lx} (h : N = A ++ L1) (hne : L1 ≠ []) (hq : q = false) :
    Move p A L1 N none q := by
  subst h; subst hq; exact Move.keep p A L1 hne

/-- a token that stands for itself as a lexeme is a key token -/
theorem flatten_tok_isKey {x : BTok} (h : flatten x = [.tok x]) : x.isKey = true := by
  cases x with
  | rgb r g b a => cases a <;> simp [flatten] at h
  | _ => first | rfl | (simp [flatten] at h)

theorem nextState_not_owed {s s' : PState} (h : nextState s = some s') : owed s' = false := by
  cases s <;> simp at h <;> subst h <;> rfl

theorem lastLex_other {tape : Tape} {s : PState} (h1 : s ≠ .keyValueSeparator) (h2 : s ≠ .openSecond) : LastLex tape s := by
  intro h; rcases h with h | h
  · exact absurd h h1
  · exact absurd h h2

theorem scalarArm_move {r : Except Err (Tape × Bytes)} {tape : Tape} {parent : Nat} {state : PState} {st' : St}
    {dp : Bytes}
    (hr : ∀ T' d', r = .ok (T', d') → ∃ x, T' = tape ++ [x] ∧ flatten x = [.tok x] ∧ lexOne dp = some (.tok x, d'))
    (h : scalarArm r parent state = .ok st') : StepMove ⟨tape, parent, state, dp⟩ st' := by
  unfold scalarArm at h
  cases r with
  | error e => cases h
  | ok p =>
    obtain ⟨T', d'⟩ := p
    obtain ⟨x, rfl, hx, hl⟩ := hr T' d' rfl
    simp only at h
    cases hn : nextState state with
    | none => simp [hn] at h
    | some s' =>
      simp [hn] at h; subst h
      intro L hL
      obtain ⟨L', rfl, hL'⟩ := hL.uncons hl
      exact ⟨[.tok x], L', none, rfl, hL', move_keep (by simp [hx]) (by simp) (nextState_not_owed hn), fun _ => ⟨tape, x, rfl, hx⟩⟩

/-- what the only_empties test accepts, as lexemes: `n` empty containers, then at most one more token -/
theorem allEmptyPairs_lex : ∀ (l : Tape), allEmptyPairs l = true →
    ∃ n odd, flat l = pairsLex n ++ odd ∧ (odd = [] ∨ ∃ y : BTok, odd = flatten y) ∧ l.length / 2 = n
  | [], _ => ⟨0, [], rfl, Or.inl rfl, rfl⟩
  | [y], _ => ⟨0, flatten y, by simp [pairsLex], Or.inr ⟨y, rfl⟩, by simp⟩
  | a :: b :: rest, h => by
    cases a <;> cases b <;> simp [allEmptyPairs] at h
    obtain ⟨n, odd, h1, h2, h3⟩ := allEmptyPairs_lex rest h.2
    refine ⟨n + 1, odd, by simp [h1, flatten, pairsLex], h2, ?_⟩
    simp; omega

theorem equalArm_move {tape : Tape} {parent : Nat} {state : PState} {d dp : Bytes} {st' : St}
    (hr : readId dp = some (L.equal, d)) (h : equalArm tape parent state d = .ok st')
    (hll : LastLex tape state) (ht : TInv tape parent state) (hg : GInv tape parent state)
    (hei : EInv tape state) :
    StepMove ⟨tape, parent, state, dp⟩ st' := by
  intro L hL
  obtain ⟨L', rfl, hL'⟩ := hL.uncons (lexOne_equal hr)
  unfold equalArm at h
  split at h
  · -- KeyValueSeparator: the `=` behind the key
    simp at h; subst h
    obtain ⟨t0, x, rfl, hx⟩ := hll (Or.inl rfl)
    refine ⟨[.equal], L', none, rfl, hL', ?_, lastLex_other (by simp) (by simp)⟩
    simp only [flat_append, flat_cons, flat_nil, hx, List.append_nil]
    exact Move.eqAfterKey (flat t0) x (flatten_tok_isKey hx)
  · -- OpenSecond: the `=` behind the first token of the container
    cases hso : setParentToObject tape parent with
    | error e => simp [hso] at h
    | ok t2 =>
      simp [hso] at h; subst h
      obtain ⟨t0, x, rfl, hx⟩ := hll (Or.inr rfl)
      refine ⟨[.equal], L', none, rfl, hL', ?_, lastLex_other (by simp) (by simp)⟩
      simp only
      rw [setParentToObject_flat hso]
      simp only [flat_append, flat_cons, flat_nil, hx, List.append_nil]
      exact Move.eqAfterKey (flat t0) x (flatten_tok_isKey hx)
  · simp at h; subst h
    exact ⟨[.equal], L', none, rfl, hL', move_keep (by simp [flatten]) (by simp) rfl, lastLex_other (by simp) (by simp)⟩
  · cases hp : pop? tape with
    | none => simp [hp] at h
    | some p =>
      obtain ⟨t1, last⟩ := p
      have ht := pop?_length hp
      subst ht
      simp only [hp] at h
      split at h
      · cases h
      · cases h
      · split at h
        · rename_i hoe
          cases hso : setParentToObject t1 parent with
          | error e => simp [hso] at h
          | ok t2 =>
            simp [hso] at h; subst h
            simp only [onlyEmpties, Bool.and_eq_true, decide_eq_true_eq] at hoe
            -- the innermost open container is an array whose body ends with `last`
            have hp0 := tinv_parent_ne ht (Or.inl rfl)
            obtain ⟨top, hog, hc⟩ := hg
            generalize hm : t1 ++ [last] = tp at hog
            have hkey : last.isKey = true ∧ GSeq (t1.drop (parent + 1)) := by
              cases hog with
              | root _ => exact absurd rfl hp0
              | @obj g p pre seg ph below hb hcb hl' hp hbody => exact absurd (Or.inl rfl) hc.1
              | @arr g p pre seg below hb hcb hl' hp hseg =>
                rename_i hna hne
                rcases List.eq_nil_or_concat seg with hs | ⟨seg1, y, hs⟩
                · subst hs
                  have := List.append_inj_right' (show t1 ++ [last] = pre ++ [BTok.array g] from hm) (by simp)
                  simp at this; exact absurd this (hna g)
                rw [List.concat_eq_append] at hs; subst hs
                have e1 : t1 ++ [last] = (pre ++ BTok.array g :: seg1) ++ [y] := by simpa using hm
                have e2 := List.append_inj_left' e1 (by simp)
                have e3 := List.append_inj_right' e1 (by simp)
                simp at e3; subst e3; subst e2
                obtain ⟨hlp, hseg1⟩ := hseg.unsnoc' hne
                refine ⟨hc.2.2.2 rfl seg1 last rfl hlp, ?_⟩
                have : (pre ++ BTok.array g :: seg1).drop (parent + 1) = seg1 := by
                  rw [← hl', List.drop_append]; simp
                rw [this]; exact hseg1
            obtain ⟨hlk, hgs⟩ := hkey
            subst hm
            have hne1 := hei.1
            obtain ⟨n, hshape⟩ := allEmptyPairs_tok _ hoe.2
            obtain ⟨odd, hfl, hodd, hn⟩ : ∃ odd, flat (t1.drop (parent + 1)) = pairsLex n ++ odd ∧
                (odd = [] ∨ ∃ y : BTok, odd = flatten y ∧ y.isVal = true) ∧ (t1.drop (parent + 1)).length / 2 = n := by
              rcases hshape with ⟨h1, h2⟩ | ⟨l0, y, h1, h2, h3, h4, h5⟩
              · exact ⟨[], by simpa using h1, Or.inl rfl, h2⟩
              · have hyp : y.isPlain = true := by
                  have hb := hgs.bal
                  rw [h1] at hb
                  simp only [starts_append, ends_append] at hb
                  exact plain_of_counts (by omega)
                -- `y` stands directly behind an `End`, so it is not an `Equal`
                have hye : y ≠ .equal := by
                  rcases h5 with rfl | ⟨l1, j, rfl⟩
                  · have h6 := hoe.1; rw [h1] at h6; simp at h6
                  · have e : t1 ++ [last] = (t1.take (parent + 1) ++ l1) ++ BTok.end_ j :: y :: [last] := by
                      conv => lhs; rw [← List.take_append_drop (parent + 1) t1, h1]
                      simp
                    rw [e] at hne1
                    exact noEndEq_pair hne1 j rfl
                by_cases hym : y = .mixed
                · subst hym
                  exact ⟨[], by rw [h1]; simp [h2, flatten], Or.inl rfl, h4⟩
                · refine ⟨flatten y, by rw [h1]; simp [h2], Or.inr ⟨y, rfl, ?_⟩, h4⟩
                  simp [BTok.isVal, hyp, hym, hye]
            obtain ⟨e, he, rfl⟩ := setParentToObject_ok hso
            have hl := getElem?_lt_length he
            -- the part up to and including the parent slot: `A ++ [{]`
            have htake : flat ((t1.set parent (.object e)).take (parent + 1)) = flat (t1.take parent) ++ [.open_] := by
              rw [List.take_set, List.take_add_one, he]
              simp only [Option.toList_some]
              rw [List.set_append_right _ _ (by simp; omega)]
              simp [flatten, Nat.min_eq_left (Nat.le_of_lt hl)]
            have htake1 : flat (t1.take (parent + 1)) = flat (t1.take parent) ++ [.open_] := by
              rw [List.take_add_one, he]; simp [flatten]
            have hsplit : flat t1 = flat (t1.take parent) ++ [.open_] ++ pairsLex n ++ odd := by
              conv => lhs; rw [← List.take_append_drop (parent + 1) t1]
              rw [flat_append, htake1, hfl]; simp [List.append_assoc]
            refine ⟨[.equal], L', some odd, rfl, hL', ?_, lastLex_other (by simp) (by simp)⟩
            simp only [flat_append, flat_cons, flat_nil, List.append_nil]
            rw [htake, hsplit]
            exact Move.rewrite (flat (t1.take parent)) n odd last (by omega) hlk hodd
        · simp at h; subst h
          exact ⟨[.equal], L', none, rfl, hL', move_keep (by simp [flatten]) (by simp) rfl, lastLex_other (by simp) (by simp)⟩
  · cases h


/-- the state after `push_end!` is `ArrayValue` or `Key` -/
theorem closeTo_kind {tape : Tape} {p : Nat} {T' : Tape} {g : Nat} {s : PState} (h : pushEnd tape p = .ok (T', g, s)) :
    True ∧ True ∧ (s = .arrayValue ∨ s = .key) := by
  unfold pushEnd at h
  split at h
  · exact ⟨trivial, trivial, (closeTo_eq h).2.2.2⟩
  · exact ⟨trivial, trivial, (closeTo_eq h).2.2.2⟩
  · cases h

theorem tokenArm_move {tape : Tape} {parent : Nat} {state : PState} {d dp : Bytes} {tok : Nat} {st' : St}
    (hr : readId dp = some (tok, d)) (h : tokenArm false 0 tape parent state d tok = .ok st')
    (hll : LastLex tape state) (ht : TInv tape parent state) (hg : GInv tape parent state)
    (hei : EInv tape state) :
    StepMove ⟨tape, parent, state, dp⟩ st' := by
  unfold tokenArm at h
  by_cases c1 : tok = L.u32
  · subst c1; rw [if_pos rfl] at h
    refine scalarArm_move ?_ h
    intro T' d' hh; obtain ⟨hd, h1, h2⟩ := parseFixed_split hh
    exact ⟨_, h2, rfl, lexOne_fixed_u32 hr h1⟩
  rw [if_neg c1] at h
  by_cases c2 : tok = L.u64
  · subst c2; rw [if_pos rfl] at h
    refine scalarArm_move ?_ h
    intro T' d' hh; obtain ⟨hd, h1, h2⟩ := parseFixed_split hh
    exact ⟨_, h2, rfl, lexOne_fixed_u64 hr h1⟩
  rw [if_neg c2] at h
  by_cases c3 : tok = L.i32
  · subst c3; rw [if_pos rfl] at h
    cases hsa : scalarArm (parseI32 tape d) parent state with
    | error e => simp [hsa] at h
    | ok st =>
      simp [hsa] at h; subst h
      refine scalarArm_move ?_ hsa
      intro T' d' hh; obtain ⟨hd, h1, h2⟩ := parseFixed_split hh
      exact ⟨_, h2, rfl, lexOne_fixed_i32 hr h1⟩
  rw [if_neg c3] at h
  by_cases c4 : tok = L.bool
  · subst c4; rw [if_pos rfl] at h
    refine scalarArm_move ?_ h
    intro T' d' hh
    unfold parseBool at hh
    cases hb : readBool d with
    | none => simp [hb] at hh
    | some p => obtain ⟨b, r⟩ := p; simp [hb] at hh; obtain ⟨rfl, rfl⟩ := hh; exact ⟨_, rfl, rfl, lexOne_bool hr hb⟩
  rw [if_neg c4] at h
  by_cases c5 : tok = L.quoted
  · subst c5; rw [if_pos rfl] at h
    refine scalarArm_move ?_ h
    intro T' d' hh
    unfold parseQuoted at hh
    cases hb : readString d with
    | none => simp [hb] at hh
    | some p => obtain ⟨b, r⟩ := p; simp [hb] at hh; obtain ⟨rfl, rfl⟩ := hh; exact ⟨_, rfl, rfl, lexOne_quoted hr hb⟩
  rw [if_neg c5] at h
  by_cases c6 : tok = L.unquoted
  · subst c6; rw [if_pos rfl] at h
    refine scalarArm_move ?_ h
    intro T' d' hh
    unfold parseUnquoted at hh
    cases hb : readString d with
    | none => simp [hb] at hh
    | some p => obtain ⟨b, r⟩ := p; simp [hb] at hh; obtain ⟨rfl, rfl⟩ := hh; exact ⟨_, rfl, rfl, lexOne_unquoted hr hb⟩
  rw [if_neg c6] at h
  by_cases c7 : tok = L.f32
  · subst c7; rw [if_pos rfl] at h
    refine scalarArm_move ?_ h
    intro T' d' hh; obtain ⟨hd, h1, h2⟩ := parseFixed_split hh
    exact ⟨_, h2, rfl, lexOne_fixed_f32 hr h1⟩
  rw [if_neg c7] at h
  by_cases c8 : tok = L.f64
  · subst c8; rw [if_pos rfl] at h
    refine scalarArm_move ?_ h
    intro T' d' hh; obtain ⟨hd, h1, h2⟩ := parseFixed_split hh
    exact ⟨_, h2, rfl, lexOne_fixed_f64 hr h1⟩
  rw [if_neg c8] at h
  by_cases c9 : tok = L.open_
  · subst c9; rw [if_pos rfl] at h
    intro L hL
    obtain ⟨L', rfl, hL'⟩ := hL.uncons (lexOne_open hr)
    unfold openArm at h
    split at h
    · simp at h; subst h
      exact ⟨[.open_], L', none, rfl, hL', move_keep (by simp [flatten]) (by simp) rfl, lastLex_other (by simp) (by simp)⟩
    · split at h
      · cases h
      · cases hrd : readId d with
        | none => simp [hrd] at h
        | some p =>
          obtain ⟨x, nd⟩ := p
          simp only [hrd] at h
          split at h
          · rename_i hx; subst hx
            simp at h; subst h
            obtain ⟨L'', rfl, hL''⟩ := hL'.uncons (lexOne_close hrd)
            rename_i hk _
            have hkey : state = .key := by simpa using hk
            subst hkey
            exact ⟨[.open_, .close], L'', none, rfl, hL'', Move.ghost _, lastLex_other (by simp) (by simp)⟩
          · cases h
  rw [if_neg c9] at h
  by_cases c10 : tok = L.close
  · subst c10; rw [if_pos rfl] at h
    intro L hL
    obtain ⟨L', rfl, hL'⟩ := hL.uncons (lexOne_close hr)
    unfold closeArm at h
    simp only at h
    split at h
    · cases h
    · rename_i tape1 hpre
      have h1 : flat tape1 = flat tape := by
        cases state <;> simp at hpre
        all_goals first | (subst hpre; rfl) | exact mixedInsert1_flat hpre
      cases hp : pushEnd tape1 parent with
      | error e => simp [hp] at h
      | ok p =>
        obtain ⟨a, b, c⟩ := p
        simp [hp] at h; subst h
        obtain ⟨_, _, hkind⟩ := closeTo_kind hp
        refine ⟨[.close], L', none, rfl, hL', move_keep (by simp [pushEnd_flat hp, h1]) (by simp)
          (by rcases hkind with rfl | rfl <;> rfl), ?_⟩
        rcases hkind with rfl | rfl <;> exact lastLex_other (by simp) (by simp)
  rw [if_neg c10] at h
  by_cases c11 : tok = L.equal
  · subst c11; rw [if_pos rfl] at h; exact equalArm_move hr h hll ht hg hei
  rw [if_neg c11] at h
  by_cases c13 : tok = L.i64
  · subst c13
    have : ¬ (L.i64 = L.rgb ∧ state = .objectValue) := by intro hh; exact absurd hh.1 (by decide)
    rw [if_neg this, if_pos rfl] at h
    refine scalarArm_move ?_ h
    intro T' d' hh; obtain ⟨hd, h1, h2⟩ := parseFixed_split hh
    exact ⟨_, h2, rfl, lexOne_fixed_i64 hr h1⟩
  have hid : lexOne dp = some (.tok (.token tok), d) :=
    lexOne_id hr ⟨c9, c10, c11, c1, c2, c3, c13, c7, c8, c4, c5, c6⟩
  by_cases c12 : tok = L.rgb ∧ state = .objectValue
  · rw [if_pos c12] at h
    unfold parseRgb at h
    cases hrg : readRgb d with
    | error e => simp [hrg] at h
    | ok p =>
      obtain ⟨t, rest⟩ := p
      simp [hrg] at h; subst h
      obtain ⟨rfl, _⟩ := c12
      intro L hL
      obtain ⟨L', rfl, hL'⟩ := hL.uncons hid
      obtain ⟨L2, rfl, hL2⟩ := readRgb_lexes hrg L' hL'
      obtain ⟨a, b, c, al, rfl⟩ := readRgb_isRgb hrg
      refine ⟨flatten (.rgb a b c al), L2, none, ?_, hL2, move_keep (by simp) (by cases al <;> simp [flatten]) rfl, lastLex_other (by simp) (by simp)⟩
      cases al <;> simp [flatten]
  rw [if_neg c12, if_neg c13] at h
  refine scalarArm_move ?_ h
  intro T' d' hh; simp at hh; obtain ⟨rfl, rfl⟩ := hh
  exact ⟨_, rfl, rfl, hid⟩


theorem step_move {st st' : St} (h : step st = .next st') (hll : LastLex st.tape st.state)
    (ht : TInv st.tape st.parent st.state) (hg : GInv st.tape st.parent st.state)
    (hei : EInv st.tape st.state) : StepMove st st' := by
  cases hr : readId st.data with
  | none => rw [step_done hr] at h; cases h
  | some p =>
    obtain ⟨tok, d⟩ := p
    rw [step_eq hr] at h
    cases hd : dispatch false 0 st.tape st.parent st.state d tok with
    | error x => simp [hd, Iter.ofExcept] at h
    | ok s =>
      simp [hd, Iter.ofExcept] at h; subst h
      unfold dispatch at hd
      split at hd
      · rename_i hs
        rw [hs] at ht hg
        obtain ⟨⟨t0, x, y, htape, hx, hy, ho⟩, _, _⟩ := ht
        rw [htape] at hg
        have hm := mixedInsert2_snoc2 t0 x y
        rw [htape, hm] at hd
        simp only at hd
        obtain ⟨top, hog, hc⟩ := hg
        obtain ⟨top', hog', hc'⟩ := openG_mixedInsert2 hx hy hog hc
        have ht' : TInv (t0 ++ [BTok.mixed, x, y]) st.parent .arrayValueMixed := by
          refine ⟨?_, by simp, by simp⟩
          have : t0 ++ [BTok.mixed, x, y] = t0 ++ [BTok.mixed] ++ [x] ++ [y] := by simp
          simp only; rw [this]
          exact ((ho.snoc_plain rfl).snoc_plain hx).snoc_plain hy
        have hei' : EInv (t0 ++ [BTok.mixed, x, y]) .arrayValueMixed := by
          refine ⟨?_, fun _ => ?_⟩
          · have := hei.1; rw [htape] at this; exact noEndEq_insert2 this
          · have e : t0 ++ [BTok.mixed, x, y] = t0 ++ [BTok.mixed, x] ++ [y] := by simp
            rw [e]
            exact lastNotEnd_snoc (by intro j hh; subst hh; simp [BTok.isPlain] at hy)
        have := tokenArm_move (dp := st.data) hr hd (lastLex_other (by simp) (by simp)) ht' ⟨top', hog', hc'⟩ hei'
        intro L hL
        obtain ⟨L1, L2, o, h1, h2, h3, h4⟩ := this L hL
        refine ⟨L1, L2, o, h1, h2, ?_, h4⟩
        have hf : flat (t0 ++ [BTok.mixed, x, y]) = flat st.tape := by rw [htape]; simp [flatten]
        rw [hf] at h3; rw [hs]; exact h3
      · exact tokenArm_move (dp := st.data) hr hd hll ht hg hei

theorem reach_moves {a b : St} (h : Reach a b) (hll : LastLex a.tape a.state)
    (ht : TInv a.tape a.parent a.state) (hg : GInv a.tape a.parent a.state) (hei : EInv a.tape a.state) :
    ∀ L, Lexes a.data L → ∃ L1 L2 odds, L = L1 ++ L2 ∧ Lexes b.data L2 ∧ Moves (owed a.state) (flat a.tape) L1 (flat b.tape) odds := by
  obtain ⟨k, hk⟩ := h
  induction k generalizing a with
  | zero => simp [stepN] at hk; subst hk; intro L hL; exact ⟨[], L, [], rfl, hL, Moves.nil _ _⟩
  | succ k ih =>
    cases hst : step a with
    | next a' =>
      simp only [stepN, hst] at hk
      intro L hL
      obtain ⟨L1, L2, o, rfl, h2, h3, h4⟩ := step_move hst hll ht hg hei L hL
      obtain ⟨M1, M2, odds, rfl, g2, g3⟩ := ih h4 (step_inv hst ht) (step_ginv hst ht hg) (step_einv hst ht hei) hk L2 h2
      exact ⟨L1 ++ M1, M2, o.toList ++ odds, by simp, g2, Moves.step h3 g3⟩
    | done => simp [stepN, hst] at hk
    | err e => simp [stepN, hst] at hk

/-- **what happens to every lexeme of an accepted input**: the lexeme content of the tape is built from
the lexeme list by `keep` / `eqAfterKey` / `ghost` / `rewrite` moves only -/
theorem parse_moves (opt : Bool) (data : Bytes) (T : Tape) (h : parse opt data = .ok T) (L : List Lx)
    (hL : Lexes data L) : ∃ odds, Moves false [] L (flat T) odds := by
  have h' : parse false data = .ok T := by
    cases opt
    · exact h
    · rwa [parse_true_eq_false] at h
  obtain ⟨r, hr, hreach⟩ := run_false_ok_reach _ _ _ _ h'
  obtain ⟨L1, L2, odds, rfl, hL2, h3⟩ := reach_moves hreach (lastLex_other (by simp [init]) (by simp [init])) (init_inv data) (init_ginv data) (init_einv data) L hL
  have : L2 = [] := by
    cases hL2 with
    | done _ => rfl
    | cons hx _ =>
      have : readId r = none := by
        match r, hr with
        | [], _ => rfl
        | [_], _ => rfl
      simp [lexOne, this] at hx
  subst this
  exact ⟨odds, by simpa [init, owed] using h3⟩

/-! ### consequences -/

theorem pairsLex_toks : ∀ n, (pairsLex n).filter Lx.isTok = []
  | 0 => rfl
  | n + 1 => by simp [pairsLex, Lx.isTok, pairsLex_toks n]

/-- scalar / id lexemes are never lost except in the `odd` chunk of a rewrite: as multisets,
`toks A ++ toks L = toks C ++ toks (odd chunks)` -/
theorem Moves.toks_perm {p : Bool} {A L C : List Lx} {odds : List (List Lx)} (h : Moves p A L C odds) :
    (A.filter Lx.isTok ++ L.filter Lx.isTok).Perm (C.filter Lx.isTok ++ odds.flatten.filter Lx.isTok) := by
  induction h with
  | nil p A => simp
  | @step p q A B C L1 L2 o odds hm _ ih =>
    have hstep : (A.filter Lx.isTok ++ L1.filter Lx.isTok).Perm (B.filter Lx.isTok ++ (o.toList.flatten).filter Lx.isTok) := by
      cases hm with
      | keep => simp
      | eqAfterKey A k hk => simp [Lx.isTok]
      | ghost => simp [Lx.isTok]
      | rewrite A n odd last hn hlk hodd =>
        simp only [List.filter_append, pairsLex_toks, Option.toList_some, List.flatten_cons, List.flatten_nil,
          List.append_nil, List.nil_append]
        simp only [Lx.isTok, List.filter_cons, List.filter_nil, Bool.false_eq_true, if_false, List.append_nil]
        -- A ++ odd ++ last  ~  A ++ last ++ odd
        have := List.perm_append_comm (l₁ := odd.filter Lx.isTok) (l₂ := (flatten last).filter Lx.isTok)
        simpa [List.append_assoc] using List.Perm.append_left (A.filter Lx.isTok) this
    -- combine with the rest
    have e1 : (A.filter Lx.isTok ++ (L1 ++ L2).filter Lx.isTok).Perm
        ((B.filter Lx.isTok ++ (o.toList.flatten).filter Lx.isTok) ++ L2.filter Lx.isTok) := by
      simpa [List.filter_append, List.append_assoc] using List.Perm.append_right (L2.filter Lx.isTok) hstep
    have e2 : ((B.filter Lx.isTok ++ (o.toList.flatten).filter Lx.isTok) ++ L2.filter Lx.isTok).Perm
        ((B.filter Lx.isTok ++ L2.filter Lx.isTok) ++ (o.toList.flatten).filter Lx.isTok) := by
      simpa [List.append_assoc] using List.Perm.append_left (B.filter Lx.isTok)
        (List.perm_append_comm (l₁ := (o.toList.flatten).filter Lx.isTok) (l₂ := L2.filter Lx.isTok))
    have e3 : ((B.filter Lx.isTok ++ L2.filter Lx.isTok) ++ (o.toList.flatten).filter Lx.isTok).Perm
        ((C.filter Lx.isTok ++ odds.flatten.filter Lx.isTok) ++ (o.toList.flatten).filter Lx.isTok) :=
      List.Perm.append_right _ ih
    have e4 : ((C.filter Lx.isTok ++ odds.flatten.filter Lx.isTok) ++ (o.toList.flatten).filter Lx.isTok).Perm
        (C.filter Lx.isTok ++ ((o.toList ++ odds).flatten).filter Lx.isTok) := by
      simp only [List.flatten_append, List.filter_append, List.append_assoc]
      exact List.Perm.append_left _ List.perm_append_comm
    exact e1.trans (e2.trans (e3.trans e4))

theorem Moves.odds_shape {p : Bool} {A L C : List Lx} {odds : List (List Lx)} (h : Moves p A L C odds) :
    ∀ o ∈ odds, o = [] ∨ ∃ y : BTok, o = flatten y ∧ y.isVal = true := by
  induction h with
  | nil p A => simp
  | @step p q A B C L1 L2 o odds hm _ ih =>
    intro x hx
    simp at hx
    rcases hx with hx | hx
    · cases hm with
      | keep => simp at hx
      | eqAfterKey => simp at hx
      | ghost => simp at hx
      | rewrite A n odd last hn hlk hodd => simp at hx; subst hx; exact hodd
    · exact ih x hx


/-- without a `{` on the tape or in the input no rewrite can happen -/
theorem Moves.no_open {p : Bool} {A L C : List Lx} {odds : List (List Lx)} (h : Moves p A L C odds)
    (hA : Lx.open_ ∉ A) (hL : Lx.open_ ∉ L) : odds = [] ∧ Lx.open_ ∉ C := by
  induction h with
  | nil p A => exact ⟨rfl, hA⟩
  | @step p q A B C L1 L2 o odds hm _ ih =>
    simp only [List.mem_append, not_or] at hL
    cases hm with
    | keep =>
      obtain ⟨h1, h2⟩ := ih (by simp [hA, hL.1]) hL.2
      exact ⟨by simp [h1], h2⟩
    | eqAfterKey A k hk =>
      obtain ⟨h1, h2⟩ := ih hA hL.2
      exact ⟨by simp [h1], h2⟩
    | ghost => exact absurd (by simp) hL.1
    | rewrite A n odd last hn hlk hodd => exact absurd (by simp) hA

/-! ### what the flags and the side conditions exclude -/

theorem isKey_flatten {k : BTok} (h : k.isKey = true) : flatten k = [.tok k] := by
  cases k <;> first | rfl | (simp [BTok.isKey, BTok.isVal, BTok.isPlain] at h)

theorem Move.open_stays {p q : Bool} {A L1 B : List Lx} {o : Option (List Lx)} (h : Move p A L1 B o q)
    (hA : Lx.open_ ∈ A) : Lx.open_ ∈ B := by
  cases h with
  | keep => simp [hA]
  | eqAfterKey => exact hA
  | ghost => exact hA
  | rewrite => simp

/-- a `{` on the tape never disappears altogether (a rewrite keeps the `{` of the rewritten container) -/
theorem Moves.open_stays {p : Bool} {A L C : List Lx} {odds : List (List Lx)} (h : Moves p A L C odds)
    (hA : Lx.open_ ∈ A) : Lx.open_ ∈ C := by
  induction h with
  | nil p A => exact hA
  | step hm _ ih => exact ih (hm.open_stays hA)

/-- an `=` on the tape stays unless a rewrite happens (which leaves a `{`) -/
theorem Moves.equal_stays {p : Bool} {A L C : List Lx} {odds : List (List Lx)} (h : Moves p A L C odds)
    (hC : Lx.open_ ∉ C) (hA : Lx.equal ∈ A) : Lx.equal ∈ C := by
  induction h with
  | nil p A => exact hA
  | step hm hms ih =>
    cases hm with
    | keep => exact ih hC (by simp [hA])
    | eqAfterKey => exact ih hC hA
    | ghost => exact ih hC hA
    | rewrite => exact absurd (hms.open_stays (by simp)) hC

/-- **while a value is owed the next lexeme is recorded**: a `{` that follows a dropped `=` is on the tape -/
theorem Moves.owed_open {A L C : List Lx} {odds : List (List Lx)} (h : Moves true A (Lx.open_ :: L) C odds) :
    Lx.open_ ∈ C := by
  generalize hL : Lx.open_ :: L = L0 at h
  generalize hp : true = p at h
  cases h with
  | nil => cases hL
  | step hm hms =>
    subst hp
    rename_i L1 L2 o odds'
    cases hm with
    | keep _ _ _ hne =>
      cases L1 with
      | nil => exact absurd rfl hne
      | cons x L1' =>
        simp at hL; obtain ⟨rfl, _⟩ := hL
        exact hms.open_stays (by simp)

/-- **an empty (or any) container in value position is never dropped**: if neither `{` nor `=` is on the tape,
the input has no `= {` -/
theorem Moves.eq_open_kept {p : Bool} {A L C : List Lx} {odds : List (List Lx)} (h : Moves p A L C odds)
    (hC : Lx.open_ ∉ C) (hE : Lx.equal ∉ C) : ∀ L' L'', L ≠ L' ++ Lx.equal :: Lx.open_ :: L'' := by
  induction h with
  | nil p A => intro L' L'' h; simp at h
  | step hm hms ih =>
    intro L' L'' he
    rcases List.append_eq_append_iff.mp he with ⟨a', h1, h2⟩ | ⟨c', h1, h2⟩
    · exact ih hC hE a' L'' h2
    · cases c' with
      | nil => simp at h2; exact ih hC hE [] L'' (by simpa using h2.symm)
      | cons x c'' =>
        simp at h2; obtain ⟨hx, h2⟩ := h2
        subst hx
        cases hm with
        | keep p A L1 hne => subst h1; exact hE (hms.equal_stays hC (by simp))
        | eqAfterKey A0 k hk =>
          have hl := congrArg List.length h1
          simp at hl
          have hc : c'' = [] := List.eq_nil_of_length_eq_zero (by omega)
          subst hc
          simp at h2; subst h2
          exact hC hms.owed_open
        | ghost A0 =>
          cases L' with
          | nil => simp at h1
          | cons y L'1 =>
            simp at h1
            obtain ⟨_, h1⟩ := h1
            cases L'1 with
            | nil => simp at h1
            | cons z L'2 => simp at h1
        | rewrite => exact hC (hms.open_stays (by simp))

/-- reading lexemes other than `=` and `{` only appends -/
theorem Moves.only_keep {p : Bool} {A L C : List Lx} {odds : List (List Lx)} (h : Moves p A L C odds)
    (hE : Lx.equal ∉ L) (hO : Lx.open_ ∉ L) : C = A ++ L ∧ odds = [] := by
  induction h with
  | nil p A => simp
  | step hm _ ih =>
    simp only [List.mem_append, not_or] at hE hO
    cases hm with
    | keep p A L1 hne =>
      obtain ⟨h1, h2⟩ := ih hE.2 hO.2
      exact ⟨by simp [h1], by simp [h2]⟩
    | eqAfterKey => exact absurd (by simp) hE.1
    | ghost => exact absurd (by simp) hO.1
    | rewrite => exact absurd (by simp) hE.1

/-- **the last `=` of the input**, followed by lexemes `R` without `{`: it is on the tape, or the tape ends
with a key token and `R` -/
theorem Moves.last_equal {p : Bool} {A L C : List Lx} {odds : List (List Lx)} (h : Moves p A L C odds) :
    ∀ L' R, L = L' ++ Lx.equal :: R → Lx.equal ∉ R → Lx.open_ ∉ R →
      Lx.equal ∈ C ∨ ∃ C' k, BTok.isKey k = true ∧ C = C' ++ Lx.tok k :: R := by
  induction h with
  | nil p A => intro L' R h; simp at h
  | step hm hms ih =>
    intro L' R he hE hO
    rcases List.append_eq_append_iff.mp he with ⟨a', h1, h2⟩ | ⟨c', h1, h2⟩
    · exact ih a' R h2 hE hO
    · cases c' with
      | nil => simp at h2; exact ih [] R (by simpa using h2.symm) hE hO
      | cons x c'' =>
        simp at h2; obtain ⟨hx, h2⟩ := h2
        subst hx; subst h2
        simp only [List.mem_append, not_or] at hE hO
        obtain ⟨hC, _⟩ := hms.only_keep hE.2 hO.2
        cases hm with
        | keep p A L1 hne => subst h1; left; rw [hC]; simp
        | eqAfterKey A0 k hk =>
          have hl := congrArg List.length h1
          simp at hl
          have hc : c'' = [] := List.eq_nil_of_length_eq_zero (by omega)
          subst hc
          right; exact ⟨A0, k, hk, by rw [hC]; simp⟩
        | ghost A0 =>
          cases L' with
          | nil => simp at h1
          | cons y L'1 =>
            simp at h1
            obtain ⟨_, h1⟩ := h1
            cases L'1 with
            | nil => simp at h1
            | cons z L'2 => simp at h1
        | rewrite A0 n odd last hn hlk hodd =>
          have hl := congrArg List.length h1
          simp at hl
          have hc : c'' = [] := List.eq_nil_of_length_eq_zero (by omega)
          subst hc
          right; exact ⟨A0 ++ [.open_], last, hlk, by rw [hC, isKey_flatten hlk]; simp⟩

theorem pairsLex_no_equal : ∀ n, Lx.equal ∉ pairsLex n
  | 0 => by simp [pairsLex]
  | n + 1 => by simp [pairsLex, pairsLex_no_equal n]

theorem isVal_flatten_no_equal {y : BTok} (h : y.isVal = true) : Lx.equal ∉ flatten y := by
  cases y with
  | rgb r g b a => cases a <;> simp [flatten]
  | equal => simp [BTok.isVal] at h
  | _ => simp [flatten]

/-- **an `=` on the tape is never removed** (the `odd` chunk of a rewrite is never an `=`) -/
theorem Moves.equal_kept {p : Bool} {A L C : List Lx} {odds : List (List Lx)} (h : Moves p A L C odds)
    (hA : Lx.equal ∈ A) : Lx.equal ∈ C := by
  induction h with
  | nil p A => exact hA
  | step hm hms ih =>
    cases hm with
    | keep => exact ih (by simp [hA])
    | eqAfterKey => exact ih hA
    | ghost => exact ih hA
    | rewrite A0 n odd last hn hlk hodd =>
      refine ih ?_
      have hno : Lx.equal ∉ odd := by
        rcases hodd with rfl | ⟨y, rfl, hy⟩
        · simp
        · exact isVal_flatten_no_equal hy
      have hnp := pairsLex_no_equal n
      simp only [List.mem_append, List.mem_singleton] at hA ⊢
      rcases hA with (((hA | hA) | hA) | hA) | hA
      · exact Or.inl (Or.inl hA)
      · cases hA
      · exact absurd hA hnp
      · exact absurd hA hno
      · exact Or.inr hA

/-- an `=` read while no scalar / id lexeme is on the tape yet is recorded (it cannot be dropped behind a key,
and there is no key for a rewrite) -/
theorem Moves.first_equal {p : Bool} {A L C : List Lx} {odds : List (List Lx)} (h : Moves p A L C odds)
    (hA : ∀ x ∈ A, Lx.isTok x = false) :
    ∀ L' R, L = L' ++ Lx.equal :: R → (∀ x ∈ L', Lx.isTok x = false) → Lx.equal ∉ L' → Lx.equal ∈ C := by
  induction h with
  | nil p A => intro L' R h; simp at h
  | @step p q A B C L1 L2 o odds hm hms ih =>
    intro L' R he hT hE
    have key : ∀ a', L' = L1 ++ a' → L2 = a' ++ Lx.equal :: R → Lx.equal ∈ C := by
      intro a' h1 h2
      subst h1
      simp only [List.mem_append, not_or] at hE
      have hT1 : ∀ x ∈ L1, Lx.isTok x = false := fun x hx => hT x (by simp [hx])
      cases hm with
      | keep p A L1 hne =>
        exact ih (by intro x hx; simp at hx; rcases hx with hx | hx; exact hA x hx; exact hT1 x hx) a' R h2
          (fun x hx => hT x (by simp [hx])) hE.2
      | eqAfterKey => exact absurd (by simp) hE.1
      | ghost => exact ih hA a' R h2 (fun x hx => hT x (by simp [hx])) hE.2
      | rewrite => exact absurd (by simp) hE.1
    rcases List.append_eq_append_iff.mp he with ⟨a', h1, h2⟩ | ⟨c', h1, h2⟩
    · exact key a' h1 h2
    · cases c' with
      | nil => simp at h1 h2; exact key [] (by simp [h1]) (by simpa using h2.symm)
      | cons x c'' =>
        simp at h2; obtain ⟨hx, h2⟩ := h2
        subst hx
        cases hm with
        | keep p A L1 hne => subst h1; exact hms.equal_kept (by simp)
        | eqAfterKey A0 k hk => have := hA (.tok k) (by simp); simp [Lx.isTok] at this
        | ghost A0 =>
          cases L' with
          | nil => simp at h1
          | cons y L'1 =>
            simp at h1
            obtain ⟨_, h1⟩ := h1
            cases L'1 with
            | nil => simp at h1
            | cons z L'2 => simp at h1
        | rewrite A0 n odd last hn hlk hodd =>
          have := hA (.tok last) (by rw [isKey_flatten hlk]; simp)
          simp [Lx.isTok] at this

/-- NON-instance (reviewer's A): `a = {} b = c` with content `[a, b, c]` — an empty container in VALUE
position dropped as if it were a ghost — is not explained: while a value is owed only `keep` is possible -/
example : ¬ ∃ odds, Moves false [] [.tok (.token 1), .equal, .open_, .close, .tok (.token 2), .equal, .tok (.token 3)]
    [.tok (.token 1), .tok (.token 2), .tok (.token 3)] odds := by
  rintro ⟨odds, h⟩
  exact h.eq_open_kept (by simp) (by simp) [.tok (.token 1)] [.close, .tok (.token 2), .equal, .tok (.token 3)] rfl

/-- NON-instance (reviewer's B): `a = { {} } = b` with content `[a, {, }, b]` (a rewrite whose `last` would be
the `End` token) is not explained: `last` must be a key token -/
example : ¬ ∃ odds, Moves false [] [.tok (.token 1), .equal, .open_, .open_, .close, .close, .equal, .tok (.token 2)]
    [.tok (.token 1), .open_, .close, .tok (.token 2)] odds := by
  rintro ⟨odds, h⟩
  rcases h.last_equal [.tok (.token 1), .equal, .open_, .open_, .close, .close] [.tok (.token 2)] rfl (by simp) (by simp)
    with h1 | ⟨C', k, _, h1⟩
  · simp at h1
  · have : C' ++ [Lx.tok k] ++ [.tok (.token 2)] = [.tok (.token 1), .open_] ++ [.close] ++ [.tok (.token 2)] := by
      simpa using h1.symm
    have h2 := List.append_inj_left' this rfl
    have h3 := List.append_inj_right' h2 rfl
    simp at h3

/-- NON-instance (reviewer's C): `{ {} = b }` with content `[{, b, }]` (a rewrite whose `last` would be the
`MixedContainer` marker, which has no content) is not explained -/
example : ¬ ∃ odds, Moves false [] [.open_, .open_, .close, .equal, .tok (.token 2), .close]
    [.open_, .tok (.token 2), .close] odds := by
  rintro ⟨odds, h⟩
  rcases h.last_equal [.open_, .open_, .close] [.tok (.token 2), .close] rfl (by simp) (by simp)
    with h1 | ⟨C', k, _, h1⟩
  · simp at h1
  · have : C' ++ [Lx.tok k] ++ [.tok (.token 2), .close] = [] ++ [.open_] ++ [.tok (.token 2), .close] := by
      simpa using h1.symm
    have h2 := List.append_inj_left' this rfl
    have h3 := List.append_inj_right' h2 rfl
    simp at h3

/-- NON-instance (reviewer's D): `{ {} = a = b }` with content `[{, a, b, }]` (two `=` dropped by one rewrite,
`odd` being an `Equal` token) is not explained: `odd` is never an `=`, and the first `=` has no key before it -/
example : ¬ ∃ odds, Moves false [] [.open_, .open_, .close, .equal, .tok (.token 1), .equal, .tok (.token 2), .close]
    [.open_, .tok (.token 1), .tok (.token 2), .close] odds := by
  rintro ⟨odds, h⟩
  have := h.first_equal (by simp) [.open_, .open_, .close] [.tok (.token 1), .equal, .tok (.token 2), .close] rfl
    (by simp [Lx.isTok]) (by simp)
  simp at this

/-- NON-instance: a tape that silently drops an ordinary scalar — input `a = b`, tape content `[a]` — is not
explained by any run of moves -/
example : ¬ ∃ odds, Moves false [] [.tok (.token 1), .equal, .tok (.token 2)] [.tok (.token 1)] odds := by
  rintro ⟨odds, h⟩
  have h0 := h.no_open (by simp) (by simp)
  have hp := h.toks_perm
  rw [h0.1] at hp
  have := hp.length_eq
  simp [List.filter, Lx.isTok] at this

/-- an instance: `a = b` with the `=` dropped behind the key -/
example : Moves false [] [.tok (.token 1), .equal, .tok (.token 2)] [.tok (.token 1), .tok (.token 2)] [] := by
  have m1 : Move false [] [.tok (.token 1)] [.tok (.token 1)] none false := Move.keep _ [] _ (by simp)
  have m2 : Move false [.tok (.token 1)] [.equal] [.tok (.token 1)] none true := Move.eqAfterKey [] (.token 1) rfl
  have m3 : Move true [.tok (.token 1)] [.tok (.token 2)] [.tok (.token 1), .tok (.token 2)] none false := Move.keep _ _ _ (by simp)
  exact Moves.step m1 (Moves.step m2 (Moves.step m3 (Moves.nil _ _)))

end Jomini.BinTape
