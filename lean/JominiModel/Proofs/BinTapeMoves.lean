import JominiModel.Proofs.BinTapeDropped
import JominiModel.Proofs.BinTapePairs
/-
C03, what the tape leaves out — with context.  Every iteration of the loop acts on the lexeme content
of the tape by exactly one of four `Move`s (Spec/BinTapeLex.lean): `keep`, `eqAfterKey`, `ghost`,
`rewrite`.  No other way of losing a lexeme exists; in particular a scalar / id lexeme is lost only
as the one `odd` token of an only_empties rewrite.
-/
namespace Jomini.BinTape
open Jomini


/-! ### balance of good sequences; the token-level shape of an only_empties run -/

def BTok.isStartB : BTok → Bool
  | .array _ | .object _ => true
  | _ => false
def BTok.isEndB : BTok → Bool
  | .end_ _ => true
  | _ => false

def starts (l : Tape) : Nat := (l.filter BTok.isStartB).length
def ends (l : Tape) : Nat := (l.filter BTok.isEndB).length

@[simp] theorem starts_append (a b : Tape) : starts (a ++ b) = starts a + starts b := by simp [starts]
@[simp] theorem ends_append (a b : Tape) : ends (a ++ b) = ends a + ends b := by simp [ends]

theorem plain_counts {x : BTok} (h : x.isPlain = true) : starts [x] = 0 ∧ ends [x] = 0 := by
  cases x <;> simp [BTok.isPlain] at h <;> simp [starts, ends, BTok.isStartB, BTok.isEndB]

mutual
theorem GSeq.bal : ∀ {l : Tape}, GSeq l → starts l = ends l
  | _, .nil => rfl
  | _, .plain h hx => by
    have := GSeq.bal h; have := plain_counts hx; simp; omega
  | _, .cont h hc => by
    have := GSeq.bal h; have := GCont.bal hc; simp; omega
theorem GCont.bal : ∀ {c : Tape}, GCont c → starts c = ends c
  | _, @GCont.arr inner e i h => by
    have := GSeq.bal h
    have e1 : BTok.array e :: (inner ++ [BTok.end_ i]) = [BTok.array e] ++ inner ++ [BTok.end_ i] := by simp
    rw [e1]
    have a1 : starts [BTok.array e] = 1 := rfl
    have a2 : ends [BTok.array e] = 0 := rfl
    have a3 : starts [BTok.end_ i] = 0 := rfl
    have a4 : ends [BTok.end_ i] = 1 := rfl
    simp only [starts_append, ends_append, a1, a2, a3, a4]; omega
  | _, @GCont.obj inner ph e i h _ => by
    have := Body.bal h
    have e1 : BTok.object e :: (inner ++ [BTok.end_ i]) = [BTok.object e] ++ inner ++ [BTok.end_ i] := by simp
    rw [e1]
    have a1 : starts [BTok.object e] = 1 := rfl
    have a2 : ends [BTok.object e] = 0 := rfl
    have a3 : starts [BTok.end_ i] = 0 := rfl
    have a4 : ends [BTok.end_ i] = 1 := rfl
    simp only [starts_append, ends_append, a1, a2, a3, a4]; omega
theorem Body.bal : ∀ {l : Tape} {ph : Phase}, Body l ph → starts l = ends l
  | _, _, .nil => rfl
  | _, _, .key h hk => by
    have := Body.bal h; have := plain_counts (BTok.isKey_plain hk); simp; omega
  | _, _, .valPlain h hv => by
    have := Body.bal h; have := plain_counts (BTok.isVal_plain hv); simp; omega
  | _, _, .valCont h hc => by
    have := Body.bal h; have := GCont.bal hc; simp; omega
  | _, _, .mixed h => by
    have := Body.bal h; simp [starts, ends, BTok.isStartB, BTok.isEndB] at *; omega
  | _, _, .afterPlain h hx => by
    have := Body.bal h; have := plain_counts hx; simp; omega
  | _, _, .afterCont h hc => by
    have := Body.bal h; have := GCont.bal hc; simp; omega
end

/-- what the only_empties test accepts, token-wise: balanced `{}` pairs, then at most one more token -/
theorem allEmptyPairs_tok : ∀ (l : Tape), allEmptyPairs l = true →
    ∃ n, (flat l = pairsLex n ∧ l.length / 2 = n) ∨
      (∃ l0 y, l = l0 ++ [y] ∧ flat l0 = pairsLex n ∧ starts l0 = ends l0 ∧ l.length / 2 = n)
  | [], _ => ⟨0, Or.inl ⟨rfl, rfl⟩⟩
  | [y], _ => ⟨0, Or.inr ⟨[], y, rfl, rfl, rfl, by simp⟩⟩
  | a :: b :: rest, h => by
    cases a <;> cases b <;> simp [allEmptyPairs] at h
    rename_i ea eb
    obtain ⟨n, hn⟩ := allEmptyPairs_tok rest h.2
    refine ⟨n + 1, ?_⟩
    rcases hn with ⟨h1, h2⟩ | ⟨l0, y, h1, h2, h3, h4⟩
    · exact Or.inl ⟨by simp [h1, flatten, pairsLex], by simp; omega⟩
    · subst h1
      refine Or.inr ⟨BTok.array ea :: BTok.end_ eb :: l0, y, by simp, by simp [h2, flatten, pairsLex], ?_, by simp at h4 ⊢; omega⟩
      have e1 : BTok.array ea :: BTok.end_ eb :: l0 = [BTok.array ea] ++ [BTok.end_ eb] ++ l0 := by simp
      rw [e1]
      have a1 : starts [BTok.array ea] = 1 := rfl
      have a2 : ends [BTok.array ea] = 0 := rfl
      have a3 : starts [BTok.end_ eb] = 0 := rfl
      have a4 : ends [BTok.end_ eb] = 1 := rfl
      simp only [starts_append, ends_append, a1, a2, a3, a4]; omega

theorem plain_of_counts {y : BTok} (h : starts [y] = ends [y]) : y.isPlain = true := by
  cases y
  case array e => have h' : (1 : Nat) = 0 := h; omega
  case object e => have h' : (1 : Nat) = 0 := h; omega
  case end_ i => have h' : (0 : Nat) = 1 := h; omega
  all_goals rfl

/-- in `KeyValueSeparator` / `OpenSecond` the last tape token is a scalar standing for itself -/
def LastLex (tape : Tape) (state : PState) : Prop :=
  (state = .keyValueSeparator ∨ state = .openSecond) → ∃ t0 x, tape = t0 ++ [x] ∧ flatten x = [.tok x]

/-- one iteration as a `Move`, and the last-token fact for the next one -/
def StepMove (st st' : St) : Prop :=
  ∀ L, Lexes st.data L → ∃ L1 L2 o, L = L1 ++ L2 ∧ Lexes st'.data L2 ∧
    Move (flat st.tape) L1 (flat st'.tape) o ∧ LastLex st'.tape st'.state

theorem move_keep {A N L1 : List Lx} (h : N = A ++ L1) : Move A L1 N none := by
  subst h; exact Move.keep A L1

theorem lastLex_other {tape : Tape} {s : PState} (h1 : s ≠ .keyValueSeparator) (h2 : s ≠ .openSecond) : LastLex tape s := by
  intro h; rcases h with h | h
  · exact absurd h h1
  · exact absurd h h2

theorem scalarArm_move {r : Except Err (Tape × Bytes)} {tape : Tape} {parent : Nat} {state : PState} {st' : St}
    {dp : Bytes}
    (hr : ∀ T' d', r = .ok (T', d') → ∃ x, T' = tape ++ [x] ∧ flatten x = [.tok x] ∧ lexOne dp = some (.tok x, d'))
    (h : scalarArm r parent state = .ok st') : StepMove ⟨tape, parent, state, dp⟩ st' := by
  unfold scalarArm at h
  cases r with
  | error e => cases h
  | ok p =>
    obtain ⟨T', d'⟩ := p
    obtain ⟨x, rfl, hx, hl⟩ := hr T' d' rfl
    simp only at h
    cases hn : nextState state with
    | none => simp [hn] at h
    | some s' =>
      simp [hn] at h; subst h
      intro L hL
      obtain ⟨L', rfl, hL'⟩ := hL.uncons hl
      exact ⟨[.tok x], L', none, rfl, hL', move_keep (by simp [hx]), fun _ => ⟨tape, x, rfl, hx⟩⟩

/-- what the only_empties test accepts, as lexemes: `n` empty containers, then at most one more token -/
theorem allEmptyPairs_lex : ∀ (l : Tape), allEmptyPairs l = true →
    ∃ n odd, flat l = pairsLex n ++ odd ∧ (odd = [] ∨ ∃ y : BTok, odd = flatten y) ∧ l.length / 2 = n
  | [], _ => ⟨0, [], rfl, Or.inl rfl, rfl⟩
  | [y], _ => ⟨0, flatten y, by simp [pairsLex], Or.inr ⟨y, rfl⟩, by simp⟩
  | a :: b :: rest, h => by
    cases a <;> cases b <;> simp [allEmptyPairs] at h
    obtain ⟨n, odd, h1, h2, h3⟩ := allEmptyPairs_lex rest h.2
    refine ⟨n + 1, odd, by simp [h1, flatten, pairsLex], h2, ?_⟩
    simp; omega

theorem equalArm_move {tape : Tape} {parent : Nat} {state : PState} {d dp : Bytes} {st' : St}
    (hr : readId dp = some (L.equal, d)) (h : equalArm tape parent state d = .ok st')
    (hll : LastLex tape state) (ht : TInv tape parent state) (hg : GInv tape parent state) :
    StepMove ⟨tape, parent, state, dp⟩ st' := by
  intro L hL
  obtain ⟨L', rfl, hL'⟩ := hL.uncons (lexOne_equal hr)
  unfold equalArm at h
  split at h
  · -- KeyValueSeparator: the `=` behind the key
    simp at h; subst h
    obtain ⟨t0, x, rfl, hx⟩ := hll (Or.inl rfl)
    refine ⟨[.equal], L', none, rfl, hL', ?_, lastLex_other (by simp) (by simp)⟩
    simp only [flat_append, flat_cons, flat_nil, hx, List.append_nil]
    exact Move.eqAfterKey (flat t0) x
  · -- OpenSecond: the `=` behind the first token of the container
    cases hso : setParentToObject tape parent with
    | error e => simp [hso] at h
    | ok t2 =>
      simp [hso] at h; subst h
      obtain ⟨t0, x, rfl, hx⟩ := hll (Or.inr rfl)
      refine ⟨[.equal], L', none, rfl, hL', ?_, lastLex_other (by simp) (by simp)⟩
      simp only
      rw [setParentToObject_flat hso]
      simp only [flat_append, flat_cons, flat_nil, hx, List.append_nil]
      exact Move.eqAfterKey (flat t0) x
  · simp at h; subst h
    exact ⟨[.equal], L', none, rfl, hL', move_keep (by simp [flatten]), lastLex_other (by simp) (by simp)⟩
  · cases hp : pop? tape with
    | none => simp [hp] at h
    | some p =>
      obtain ⟨t1, last⟩ := p
      have ht := pop?_length hp
      subst ht
      simp only [hp] at h
      split at h
      · cases h
      · cases h
      · split at h
        · rename_i hoe
          cases hso : setParentToObject t1 parent with
          | error e => simp [hso] at h
          | ok t2 =>
            simp [hso] at h; subst h
            simp only [onlyEmpties, Bool.and_eq_true, decide_eq_true_eq] at hoe
            -- the innermost open container is an array whose body ends with `last`
            have hp0 := tinv_parent_ne ht (Or.inl rfl)
            obtain ⟨top, hog, hc⟩ := hg
            generalize hm : t1 ++ [last] = tp at hog
            have hkey : last.isKey = true ∧ GSeq (t1.drop (parent + 1)) := by
              cases hog with
              | root _ => exact absurd rfl hp0
              | @obj g p pre seg ph below hb hcb hl' hp hbody => exact absurd (Or.inl rfl) hc.1
              | @arr g p pre seg below hb hcb hl' hp hseg =>
                rename_i hna hne
                rcases List.eq_nil_or_concat seg with hs | ⟨seg1, y, hs⟩
                · subst hs
                  have := List.append_inj_right' (show t1 ++ [last] = pre ++ [BTok.array g] from hm) (by simp)
                  simp at this; exact absurd this (hna g)
                rw [List.concat_eq_append] at hs; subst hs
                have e1 : t1 ++ [last] = (pre ++ BTok.array g :: seg1) ++ [y] := by simpa using hm
                have e2 := List.append_inj_left' e1 (by simp)
                have e3 := List.append_inj_right' e1 (by simp)
                simp at e3; subst e3; subst e2
                obtain ⟨hlp, hseg1⟩ := hseg.unsnoc' hne
                refine ⟨hc.2.2.2 rfl seg1 last rfl hlp, ?_⟩
                have : (pre ++ BTok.array g :: seg1).drop (parent + 1) = seg1 := by
                  rw [← hl', List.drop_append]; simp
                rw [this]; exact hseg1
            obtain ⟨hlk, hgs⟩ := hkey
            subst hm
            obtain ⟨n, hshape⟩ := allEmptyPairs_tok _ hoe.2
            obtain ⟨odd, hfl, hodd, hn⟩ : ∃ odd, flat (t1.drop (parent + 1)) = pairsLex n ++ odd ∧
                (odd = [] ∨ ∃ y : BTok, odd = flatten y ∧ y.isPlain = true) ∧ (t1.drop (parent + 1)).length / 2 = n := by
              rcases hshape with ⟨h1, h2⟩ | ⟨l0, y, h1, h2, h3, h4⟩
              · exact ⟨[], by simpa using h1, Or.inl rfl, h2⟩
              · refine ⟨flatten y, by rw [h1]; simp [h2], Or.inr ⟨y, rfl, ?_⟩, h4⟩
                have hb := hgs.bal
                rw [h1] at hb
                simp only [starts_append, ends_append] at hb
                exact plain_of_counts (by omega)
            obtain ⟨e, he, rfl⟩ := setParentToObject_ok hso
            have hl := getElem?_lt_length he
            -- the part up to and including the parent slot: `A ++ [{]`
            have htake : flat ((t1.set parent (.object e)).take (parent + 1)) = flat (t1.take parent) ++ [.open_] := by
              rw [List.take_set, List.take_add_one, he]
              simp only [Option.toList_some]
              rw [List.set_append_right _ _ (by simp; omega)]
              simp [flatten, Nat.min_eq_left (Nat.le_of_lt hl)]
            have htake1 : flat (t1.take (parent + 1)) = flat (t1.take parent) ++ [.open_] := by
              rw [List.take_add_one, he]; simp [flatten]
            have hsplit : flat t1 = flat (t1.take parent) ++ [.open_] ++ pairsLex n ++ odd := by
              conv => lhs; rw [← List.take_append_drop (parent + 1) t1]
              rw [flat_append, htake1, hfl]; simp [List.append_assoc]
            refine ⟨[.equal], L', some odd, rfl, hL', ?_, lastLex_other (by simp) (by simp)⟩
            simp only [flat_append, flat_cons, flat_nil, List.append_nil]
            rw [htake, hsplit]
            exact Move.rewrite (flat (t1.take parent)) n odd last (by omega) hlk hodd
        · simp at h; subst h
          exact ⟨[.equal], L', none, rfl, hL', move_keep (by simp [flatten]), lastLex_other (by simp) (by simp)⟩
  · cases h


/-- the state after `push_end!` is `ArrayValue` or `Key` -/
theorem closeTo_kind {tape : Tape} {p : Nat} {T' : Tape} {g : Nat} {s : PState} (h : pushEnd tape p = .ok (T', g, s)) :
    True ∧ True ∧ (s = .arrayValue ∨ s = .key) := by
  unfold pushEnd at h
  split at h
  · exact ⟨trivial, trivial, (closeTo_eq h).2.2.2⟩
  · exact ⟨trivial, trivial, (closeTo_eq h).2.2.2⟩
  · cases h

theorem tokenArm_move {tape : Tape} {parent : Nat} {state : PState} {d dp : Bytes} {tok : Nat} {st' : St}
    (hr : readId dp = some (tok, d)) (h : tokenArm false 0 tape parent state d tok = .ok st')
    (hll : LastLex tape state) (ht : TInv tape parent state) (hg : GInv tape parent state) :
    StepMove ⟨tape, parent, state, dp⟩ st' := by
  unfold tokenArm at h
  by_cases c1 : tok = L.u32
  · subst c1; rw [if_pos rfl] at h
    refine scalarArm_move ?_ h
    intro T' d' hh; obtain ⟨hd, h1, h2⟩ := parseFixed_split hh
    exact ⟨_, h2, rfl, lexOne_fixed_u32 hr h1⟩
  rw [if_neg c1] at h
  by_cases c2 : tok = L.u64
  · subst c2; rw [if_pos rfl] at h
    refine scalarArm_move ?_ h
    intro T' d' hh; obtain ⟨hd, h1, h2⟩ := parseFixed_split hh
    exact ⟨_, h2, rfl, lexOne_fixed_u64 hr h1⟩
  rw [if_neg c2] at h
  by_cases c3 : tok = L.i32
  · subst c3; rw [if_pos rfl] at h
    cases hsa : scalarArm (parseI32 tape d) parent state with
    | error e => simp [hsa] at h
    | ok st =>
      simp [hsa] at h; subst h
      refine scalarArm_move ?_ hsa
      intro T' d' hh; obtain ⟨hd, h1, h2⟩ := parseFixed_split hh
      exact ⟨_, h2, rfl, lexOne_fixed_i32 hr h1⟩
  rw [if_neg c3] at h
  by_cases c4 : tok = L.bool
  · subst c4; rw [if_pos rfl] at h
    refine scalarArm_move ?_ h
    intro T' d' hh
    unfold parseBool at hh
    cases hb : readBool d with
    | none => simp [hb] at hh
    | some p => obtain ⟨b, r⟩ := p; simp [hb] at hh; obtain ⟨rfl, rfl⟩ := hh; exact ⟨_, rfl, rfl, lexOne_bool hr hb⟩
  rw [if_neg c4] at h
  by_cases c5 : tok = L.quoted
  · subst c5; rw [if_pos rfl] at h
    refine scalarArm_move ?_ h
    intro T' d' hh
    unfold parseQuoted at hh
    cases hb : readString d with
    | none => simp [hb] at hh
    | some p => obtain ⟨b, r⟩ := p; simp [hb] at hh; obtain ⟨rfl, rfl⟩ := hh; exact ⟨_, rfl, rfl, lexOne_quoted hr hb⟩
  rw [if_neg c5] at h
  by_cases c6 : tok = L.unquoted
  · subst c6; rw [if_pos rfl] at h
    refine scalarArm_move ?_ h
    intro T' d' hh
    unfold parseUnquoted at hh
    cases hb : readString d with
    | none => simp [hb] at hh
    | some p => obtain ⟨b, r⟩ := p; simp [hb] at hh; obtain ⟨rfl, rfl⟩ := hh; exact ⟨_, rfl, rfl, lexOne_unquoted hr hb⟩
  rw [if_neg c6] at h
  by_cases c7 : tok = L.f32
  · subst c7; rw [if_pos rfl] at h
    refine scalarArm_move ?_ h
    intro T' d' hh; obtain ⟨hd, h1, h2⟩ := parseFixed_split hh
    exact ⟨_, h2, rfl, lexOne_fixed_f32 hr h1⟩
  rw [if_neg c7] at h
  by_cases c8 : tok = L.f64
  · subst c8; rw [if_pos rfl] at h
    refine scalarArm_move ?_ h
    intro T' d' hh; obtain ⟨hd, h1, h2⟩ := parseFixed_split hh
    exact ⟨_, h2, rfl, lexOne_fixed_f64 hr h1⟩
  rw [if_neg c8] at h
  by_cases c9 : tok = L.open_
  · subst c9; rw [if_pos rfl] at h
    intro L hL
    obtain ⟨L', rfl, hL'⟩ := hL.uncons (lexOne_open hr)
    unfold openArm at h
    split at h
    · simp at h; subst h
      exact ⟨[.open_], L', none, rfl, hL', move_keep (by simp [flatten]), lastLex_other (by simp) (by simp)⟩
    · split at h
      · cases h
      · cases hrd : readId d with
        | none => simp [hrd] at h
        | some p =>
          obtain ⟨x, nd⟩ := p
          simp only [hrd] at h
          split at h
          · rename_i hx; subst hx
            simp at h; subst h
            obtain ⟨L'', rfl, hL''⟩ := hL'.uncons (lexOne_close hrd)
            rename_i hk _
            have hkey : state = .key := by simpa using hk
            subst hkey
            exact ⟨[.open_, .close], L'', none, rfl, hL'', Move.ghost _, lastLex_other (by simp) (by simp)⟩
          · cases h
  rw [if_neg c9] at h
  by_cases c10 : tok = L.close
  · subst c10; rw [if_pos rfl] at h
    intro L hL
    obtain ⟨L', rfl, hL'⟩ := hL.uncons (lexOne_close hr)
    unfold closeArm at h
    simp only at h
    split at h
    · cases h
    · rename_i tape1 hpre
      have h1 : flat tape1 = flat tape := by
        cases state <;> simp at hpre
        all_goals first | (subst hpre; rfl) | exact mixedInsert1_flat hpre
      cases hp : pushEnd tape1 parent with
      | error e => simp [hp] at h
      | ok p =>
        obtain ⟨a, b, c⟩ := p
        simp [hp] at h; subst h
        refine ⟨[.close], L', none, rfl, hL', move_keep (by simp [pushEnd_flat hp, h1]), ?_⟩
        obtain ⟨_, _, hkind⟩ := closeTo_kind hp
        rcases hkind with rfl | rfl <;> exact lastLex_other (by simp) (by simp)
  rw [if_neg c10] at h
  by_cases c11 : tok = L.equal
  · subst c11; rw [if_pos rfl] at h; exact equalArm_move hr h hll ht hg
  rw [if_neg c11] at h
  by_cases c13 : tok = L.i64
  · subst c13
    have : ¬ (L.i64 = L.rgb ∧ state = .objectValue) := by intro hh; exact absurd hh.1 (by decide)
    rw [if_neg this, if_pos rfl] at h
    refine scalarArm_move ?_ h
    intro T' d' hh; obtain ⟨hd, h1, h2⟩ := parseFixed_split hh
    exact ⟨_, h2, rfl, lexOne_fixed_i64 hr h1⟩
  have hid : lexOne dp = some (.tok (.token tok), d) :=
    lexOne_id hr ⟨c9, c10, c11, c1, c2, c3, c13, c7, c8, c4, c5, c6⟩
  by_cases c12 : tok = L.rgb ∧ state = .objectValue
  · rw [if_pos c12] at h
    unfold parseRgb at h
    cases hrg : readRgb d with
    | error e => simp [hrg] at h
    | ok p =>
      obtain ⟨t, rest⟩ := p
      simp [hrg] at h; subst h
      obtain ⟨rfl, _⟩ := c12
      intro L hL
      obtain ⟨L', rfl, hL'⟩ := hL.uncons hid
      obtain ⟨L2, rfl, hL2⟩ := readRgb_lexes hrg L' hL'
      obtain ⟨a, b, c, al, rfl⟩ := readRgb_isRgb hrg
      refine ⟨flatten (.rgb a b c al), L2, none, ?_, hL2, move_keep (by simp), lastLex_other (by simp) (by simp)⟩
      cases al <;> simp [flatten]
  rw [if_neg c12, if_neg c13] at h
  refine scalarArm_move ?_ h
  intro T' d' hh; simp at hh; obtain ⟨rfl, rfl⟩ := hh
  exact ⟨_, rfl, rfl, hid⟩


theorem step_move {st st' : St} (h : step st = .next st') (hll : LastLex st.tape st.state)
    (ht : TInv st.tape st.parent st.state) (hg : GInv st.tape st.parent st.state) : StepMove st st' := by
  cases hr : readId st.data with
  | none => rw [step_done hr] at h; cases h
  | some p =>
    obtain ⟨tok, d⟩ := p
    rw [step_eq hr] at h
    cases hd : dispatch false 0 st.tape st.parent st.state d tok with
    | error x => simp [hd, Iter.ofExcept] at h
    | ok s =>
      simp [hd, Iter.ofExcept] at h; subst h
      unfold dispatch at hd
      split at hd
      · rename_i hs
        rw [hs] at ht hg
        obtain ⟨⟨t0, x, y, htape, hx, hy, ho⟩, _, _⟩ := ht
        rw [htape] at hg
        have hm := mixedInsert2_snoc2 t0 x y
        rw [htape, hm] at hd
        simp only at hd
        obtain ⟨top, hog, hc⟩ := hg
        obtain ⟨top', hog', hc'⟩ := openG_mixedInsert2 hx hy hog hc
        have ht' : TInv (t0 ++ [BTok.mixed, x, y]) st.parent .arrayValueMixed := by
          refine ⟨?_, by simp, by simp⟩
          have : t0 ++ [BTok.mixed, x, y] = t0 ++ [BTok.mixed] ++ [x] ++ [y] := by simp
          simp only; rw [this]
          exact ((ho.snoc_plain rfl).snoc_plain hx).snoc_plain hy
        have := tokenArm_move (dp := st.data) hr hd (lastLex_other (by simp) (by simp)) ht' ⟨top', hog', hc'⟩
        intro L hL
        obtain ⟨L1, L2, o, h1, h2, h3, h4⟩ := this L hL
        refine ⟨L1, L2, o, h1, h2, ?_, h4⟩
        have hf : flat (t0 ++ [BTok.mixed, x, y]) = flat st.tape := by rw [htape]; simp [flatten]
        rw [hf] at h3; exact h3
      · exact tokenArm_move (dp := st.data) hr hd hll ht hg

theorem Moves.trans {A B C L1 L2 : List Lx} {o1 o2 : List (List Lx)} (h1 : Moves A L1 B o1) (h2 : Moves B L2 C o2) :
    Moves A (L1 ++ L2) C (o1 ++ o2) := by
  induction h1 with
  | nil A => simpa using h2
  | step hm _ ih =>
    have := Moves.step hm (ih h2)
    simpa [List.append_assoc] using this

theorem reach_moves {a b : St} (h : Reach a b) (hll : LastLex a.tape a.state)
    (ht : TInv a.tape a.parent a.state) (hg : GInv a.tape a.parent a.state) :
    ∀ L, Lexes a.data L → ∃ L1 L2 odds, L = L1 ++ L2 ∧ Lexes b.data L2 ∧ Moves (flat a.tape) L1 (flat b.tape) odds := by
  obtain ⟨k, hk⟩ := h
  induction k generalizing a with
  | zero => simp [stepN] at hk; subst hk; intro L hL; exact ⟨[], L, [], rfl, hL, Moves.nil _⟩
  | succ k ih =>
    cases hst : step a with
    | next a' =>
      simp only [stepN, hst] at hk
      intro L hL
      obtain ⟨L1, L2, o, rfl, h2, h3, h4⟩ := step_move hst hll ht hg L hL
      obtain ⟨M1, M2, odds, rfl, g2, g3⟩ := ih h4 (step_inv hst ht) (step_ginv hst ht hg) hk L2 h2
      exact ⟨L1 ++ M1, M2, o.toList ++ odds, by simp, g2, Moves.step h3 g3⟩
    | done => simp [stepN, hst] at hk
    | err e => simp [stepN, hst] at hk

/-- **what happens to every lexeme of an accepted input**: the lexeme content of the tape is built from
the lexeme list by `keep` / `eqAfterKey` / `ghost` / `rewrite` moves only -/
theorem parse_moves (opt : Bool) (data : Bytes) (T : Tape) (h : parse opt data = .ok T) (L : List Lx)
    (hL : Lexes data L) : ∃ odds, Moves [] L (flat T) odds := by
  have h' : parse false data = .ok T := by
    cases opt
    · exact h
    · rwa [parse_true_eq_false] at h
  obtain ⟨r, hr, hreach⟩ := run_false_ok_reach _ _ _ _ h'
  obtain ⟨L1, L2, odds, rfl, hL2, h3⟩ := reach_moves hreach (lastLex_other (by simp [init]) (by simp [init])) (init_inv data) (init_ginv data) L hL
  have : L2 = [] := by
    cases hL2 with
    | done _ => rfl
    | cons hx _ =>
      have : readId r = none := by
        match r, hr with
        | [], _ => rfl
        | [_], _ => rfl
      simp [lexOne, this] at hx
  subst this
  exact ⟨odds, by simpa [init] using h3⟩

/-! ### consequences -/

theorem pairsLex_toks : ∀ n, (pairsLex n).filter Lx.isTok = []
  | 0 => rfl
  | n + 1 => by simp [pairsLex, Lx.isTok, pairsLex_toks n]

/-- scalar / id lexemes are never lost except in the `odd` chunk of a rewrite: as multisets,
`toks A ++ toks L = toks C ++ toks (odd chunks)` -/
theorem Moves.toks_perm {A L C : List Lx} {odds : List (List Lx)} (h : Moves A L C odds) :
    (A.filter Lx.isTok ++ L.filter Lx.isTok).Perm (C.filter Lx.isTok ++ odds.flatten.filter Lx.isTok) := by
  induction h with
  | nil A => simp
  | @step A B C L1 L2 o odds hm _ ih =>
    have hstep : (A.filter Lx.isTok ++ L1.filter Lx.isTok).Perm (B.filter Lx.isTok ++ (o.toList.flatten).filter Lx.isTok) := by
      cases hm with
      | keep => simp
      | eqAfterKey A k => simp [Lx.isTok]
      | ghost => simp [Lx.isTok]
      | rewrite A n odd last hn hlk hodd =>
        simp only [List.filter_append, pairsLex_toks, Option.toList_some, List.flatten_cons, List.flatten_nil,
          List.append_nil, List.nil_append]
        simp only [Lx.isTok, List.filter_cons, List.filter_nil, Bool.false_eq_true, if_false, List.append_nil]
        -- A ++ odd ++ last  ~  A ++ last ++ odd
        have := List.perm_append_comm (l₁ := odd.filter Lx.isTok) (l₂ := (flatten last).filter Lx.isTok)
        simpa [List.append_assoc] using List.Perm.append_left (A.filter Lx.isTok) this
    -- combine with the rest
    have e1 : (A.filter Lx.isTok ++ (L1 ++ L2).filter Lx.isTok).Perm
        ((B.filter Lx.isTok ++ (o.toList.flatten).filter Lx.isTok) ++ L2.filter Lx.isTok) := by
      simpa [List.filter_append, List.append_assoc] using List.Perm.append_right (L2.filter Lx.isTok) hstep
    have e2 : ((B.filter Lx.isTok ++ (o.toList.flatten).filter Lx.isTok) ++ L2.filter Lx.isTok).Perm
        ((B.filter Lx.isTok ++ L2.filter Lx.isTok) ++ (o.toList.flatten).filter Lx.isTok) := by
      simpa [List.append_assoc] using List.Perm.append_left (B.filter Lx.isTok)
        (List.perm_append_comm (l₁ := (o.toList.flatten).filter Lx.isTok) (l₂ := L2.filter Lx.isTok))
    have e3 : ((B.filter Lx.isTok ++ L2.filter Lx.isTok) ++ (o.toList.flatten).filter Lx.isTok).Perm
        ((C.filter Lx.isTok ++ odds.flatten.filter Lx.isTok) ++ (o.toList.flatten).filter Lx.isTok) :=
      List.Perm.append_right _ ih
    have e4 : ((C.filter Lx.isTok ++ odds.flatten.filter Lx.isTok) ++ (o.toList.flatten).filter Lx.isTok).Perm
        (C.filter Lx.isTok ++ ((o.toList ++ odds).flatten).filter Lx.isTok) := by
      simp only [List.flatten_append, List.filter_append, List.append_assoc]
      exact List.Perm.append_left _ List.perm_append_comm
    exact e1.trans (e2.trans (e3.trans e4))

theorem Moves.odds_shape {A L C : List Lx} {odds : List (List Lx)} (h : Moves A L C odds) :
    ∀ o ∈ odds, o = [] ∨ ∃ y : BTok, o = flatten y ∧ y.isPlain = true := by
  induction h with
  | nil A => simp
  | @step A B C L1 L2 o odds hm _ ih =>
    intro x hx
    simp at hx
    rcases hx with hx | hx
    · cases hm with
      | keep => simp at hx
      | eqAfterKey => simp at hx
      | ghost => simp at hx
      | rewrite A n odd last hn hlk hodd => simp at hx; subst hx; exact hodd
    · exact ih x hx


/-- without a `{` on the tape or in the input no rewrite can happen -/
theorem Moves.no_open {A L C : List Lx} {odds : List (List Lx)} (h : Moves A L C odds)
    (hA : Lx.open_ ∉ A) (hL : Lx.open_ ∉ L) : odds = [] ∧ Lx.open_ ∉ C := by
  induction h with
  | nil A => exact ⟨rfl, hA⟩
  | @step A B C L1 L2 o odds hm _ ih =>
    simp only [List.mem_append, not_or] at hL
    cases hm with
    | keep =>
      obtain ⟨h1, h2⟩ := ih (by simp [hA, hL.1]) hL.2
      exact ⟨by simp [h1], h2⟩
    | eqAfterKey A k =>
      obtain ⟨h1, h2⟩ := ih hA hL.2
      exact ⟨by simp [h1], h2⟩
    | ghost => exact absurd (by simp) hL.1
    | rewrite A n odd last hn hlk hodd => exact absurd (by simp) hA

/-- NON-instance: a tape that silently drops an ordinary scalar — input `a = b`, tape content `[a]` — is not
explained by any run of moves -/
example : ¬ ∃ odds, Moves [] [.tok (.token 1), .equal, .tok (.token 2)] [.tok (.token 1)] odds := by
  rintro ⟨odds, h⟩
  have h0 := h.no_open (by simp) (by simp)
  have hp := h.toks_perm
  rw [h0.1] at hp
  have := hp.length_eq
  simp [List.filter, Lx.isTok] at this

/-- an instance: `a = b` with the `=` dropped behind the key -/
example : Moves [] [.tok (.token 1), .equal, .tok (.token 2)] [.tok (.token 1), .tok (.token 2)] [] := by
  have m1 : Move [] [.tok (.token 1)] [.tok (.token 1)] none := Move.keep [] _
  have m2 : Move [.tok (.token 1)] [.equal] [.tok (.token 1)] none := Move.eqAfterKey [] (.token 1)
  have m3 : Move [.tok (.token 1)] [.tok (.token 2)] [.tok (.token 1), .tok (.token 2)] none := Move.keep _ _
  exact Moves.step m1 (Moves.step m2 (Moves.step m3 (Moves.nil _)))

end Jomini.BinTape
