import JominiModel.Proofs.TextReaderStream
import JominiModel.Proofs.SwarReader
/-
The fast path of `next_opt` against the fallback scan of the same window.
-/
namespace Jomini.TextReader
open Jomini Jomini.TextReader.Spec Jomini.TextReader.Swar

theorem drop_of_getElem? {w : Bytes} {j : Nat} {c : UInt8} (h : w[j]? = some c) :
    w.drop j = c :: w.drop (j + 1) := by
  have hj : j < w.length := by
    rcases Nat.lt_or_ge j w.length with h1 | h1
    · exact h1
    · rw [List.getElem?_eq_none h1] at h; simp at h
  rw [List.getElem?_eq_getElem hj] at h
  simp only [Option.some.injEq] at h
  rw [List.drop_eq_getElem_cons hj, h]

/-! ### unquoted -/

/-- `pre` is the run of bytes the scan passed over: all of them satisfy `ok` -/
def Passed (ok : UInt8 → Bool) (w : Bytes) (j j' : Nat) : Prop :=
  ∃ pre : Bytes, pre.length + j = j' ∧ (∀ x ∈ pre, ok x = true) ∧ w.drop j = pre ++ w.drop j'

theorem Passed.refl (ok : UInt8 → Bool) (w : Bytes) (j : Nat) : Passed ok w j j := ⟨[], by simp, by simp, by simp⟩

theorem Passed.trans {ok : UInt8 → Bool} {w : Bytes} {a b c : Nat} (h1 : Passed ok w a b) (h2 : Passed ok w b c) :
    Passed ok w a c := by
  obtain ⟨p1, l1, o1, e1⟩ := h1
  obtain ⟨p2, l2, o2, e2⟩ := h2
  refine ⟨p1 ++ p2, by simp; omega, ?_, by rw [e1, e2]; simp⟩
  intro x hx; simp at hx; rcases hx with hx | hx
  · exact o1 x hx
  · exact o2 x hx

theorem Passed.step {ok : UInt8 → Bool} {w : Bytes} {j : Nat} {c : UInt8} (h : w[j]? = some c) (hc : ok c = true) :
    Passed ok w j (j + 1) :=
  ⟨[c], by simp; omega, by simp [hc], by rw [drop_of_getElem? h]; simp⟩

theorem findIdx_passed {p : UInt8 → Bool} {pre : Bytes} (hpre : ∀ x ∈ pre, (!p x) = true) (c : UInt8) (hc : p c = true)
    (rest : Bytes) (i : Nat) : findIdx p (pre ++ c :: rest) i = some (i + pre.length) := by
  induction pre generalizing i with
  | nil => simp [findIdx, hc]
  | cons x pre ih =>
    have hx : p x = false := by have := hpre x (by simp); simpa using this
    simp only [List.cons_append, findIdx, hx, Bool.false_eq_true, if_false]
    rw [ih (fun y hy => hpre y (by simp [hy]))]
    simp; omega

theorem fastUnqGroup_spec (w : Bytes) : ∀ (n j : Nat),
    (∀ j' c', fastUnqGroup w n j = .hit j' c' →
      Passed (fun x => !isBoundary x) w j j' ∧ w[j']? = some c' ∧ isBoundary c' = true) ∧
    (∀ j', fastUnqGroup w n j = .cont j' → Passed (fun x => !isBoundary x) w j j') := by
  intro n
  induction n with
  | zero =>
    intro j
    constructor
    · intro j' c' h; simp [fastUnqGroup] at h
    · intro j' h; simp [fastUnqGroup] at h; subst h; exact Passed.refl _ _ _
  | succ n ih =>
    intro j
    constructor
    · intro j' c' h
      rw [fastUnqGroup] at h
      cases hg : w[j]? with
      | none => rw [hg] at h; simp at h
      | some c =>
        rw [hg] at h
        simp only at h
        split at h
        · rename_i hb
          simp only [Group.hit.injEq] at h
          obtain ⟨rfl, rfl⟩ := h
          exact ⟨Passed.refl _ _ _, hg, hb⟩
        · rename_i hb
          obtain ⟨h1, h2, h3⟩ := (ih (j + 1)).1 j' c' h
          exact ⟨(Passed.step hg (by simpa using hb)).trans h1, h2, h3⟩
    · intro j' h
      rw [fastUnqGroup] at h
      cases hg : w[j]? with
      | none => rw [hg] at h; simp at h
      | some c =>
        rw [hg] at h
        simp only at h
        split at h
        · simp at h
        · rename_i hb
          exact (Passed.step hg (by simpa using hb)).trans ((ih (j + 1)).2 j' h)

theorem fastUnq_spec (w : Bytes) : ∀ (fuel j j' : Nat) (c' : UInt8), fastUnq w fuel j = .hit j' c' →
    Passed (fun x => !isBoundary x) w j j' ∧ w[j']? = some c' ∧ isBoundary c' = true := by
  intro fuel
  induction fuel with
  | zero => intro j j' c' h; simp [fastUnq] at h
  | succ f ih =>
    intro j j' c' h
    rw [fastUnq] at h
    split at h
    · cases hg : fastUnqGroup w 8 j with
      | hit a b =>
        rw [hg] at h; simp only [Fast.hit.injEq] at h
        obtain ⟨rfl, rfl⟩ := h
        exact (fastUnqGroup_spec w 8 j).1 _ _ hg
      | cont a =>
        rw [hg] at h; simp only at h
        obtain ⟨h1, h2, h3⟩ := ih a j' c' h
        exact ⟨((fastUnqGroup_spec w 8 j).2 _ hg).trans h1, h2, h3⟩
      | ub => rw [hg] at h; simp at h
    · simp at h

/-- the fast unquoted scan finds the boundary the fallback's `findIdx` finds -/
theorem fastUnq_findIdx {w : Bytes} {fuel j j' : Nat} {c' : UInt8} (h : fastUnq w fuel j = .hit j' c') :
    findIdx isBoundary (w.drop j) 0 = some (j' - j) ∧ j ≤ j' ∧ w[j']? = some c' := by
  obtain ⟨⟨pre, hl, hok, he⟩, h2, h3⟩ := fastUnq_spec w fuel j j' c' h
  refine ⟨?_, by omega, h2⟩
  rw [he, drop_of_getElem? h2, findIdx_passed hok c' h3]
  congr 1; omega

/-! ### quoted -/

theorem quoteScan_other {c : UInt8} {r : Bytes} {i : Nat} (hc : ¬(c == 92) = true) (hq : (c != 34) = true) :
    quoteScan (c :: r) i = quoteScan r (i + 1) := by
  rcases r with _ | ⟨x, r'⟩ <;> simp [quoteScan, hc, hq]

theorem quoteScan_quote {r : Bytes} {i : Nat} : quoteScan (34 :: r) i = .closed i := by
  rcases r with _ | ⟨x, r'⟩ <;> simp [quoteScan]

theorem takeWhile_mem_imp (p : UInt8 → Bool) (l : Bytes) : ∀ x ∈ l.takeWhile p, p x = true ∧ x ∈ l := by
  induction l with
  | nil => simp
  | cons y l ih =>
    intro x hx
    by_cases hy : p y = true
    · simp only [List.takeWhile, hy] at hx
      simp at hx
      rcases hx with rfl | hx
      · exact ⟨hy, by simp⟩
      · have := ih x hx; exact ⟨this.1, by simp [this.2]⟩
    · simp [List.takeWhile, hy] at hx

theorem quoteScan_passed {pre : Bytes} (hpre : ∀ x ∈ pre, (!(x == 34) && !(x == 92)) = true) (rest : Bytes) (i : Nat) :
    quoteScan (pre ++ 34 :: rest) i = .closed (i + pre.length) := by
  induction pre generalizing i with
  | nil => simp [quoteScan_quote]
  | cons x pre ih =>
    have hx := hpre x (by simp)
    simp only [Bool.and_eq_true, Bool.not_eq_true'] at hx
    have h92 : ¬ (x == 92) = true := by simp [hx.2]
    have h34 : (x != 34) = true := by simp [bne, hx.1]
    simp only [List.cons_append]
    rw [quoteScan_other h92 h34, ih (fun y hy => hpre y (by simp [hy]))]
    simp; omega

theorem read64_chunk {w : Bytes} {j : Nat} {data : BitVec 64} (h : read64 w j = some data) :
    ∃ b0 b1 b2 b3 b4 b5 b6 b7, data = le64 b0 b1 b2 b3 b4 b5 b6 b7 ∧
      w.drop j = [b0, b1, b2, b3, b4, b5, b6, b7] ++ w.drop (j + 8) := by
  unfold read64 at h
  obtain ⟨b0, b1, b2, b3, b4, b5, b6, b7, rest, hw, hd⟩ := word8_some h
  refine ⟨b0, b1, b2, b3, b4, b5, b6, b7, hd, ?_⟩
  have : w.drop (j + 8) = (w.drop j).drop 8 := by rw [List.drop_drop]
  rw [this, hw]; rfl

theorem takeWhile_split (p : UInt8 → Bool) (l : Bytes) (h : l.any (fun b => !p b) = true) :
    ∃ c post, l = l.takeWhile p ++ c :: post ∧ p c = false := by
  induction l with
  | nil => simp at h
  | cons x l ih =>
    by_cases hx : p x = true
    · have : l.any (fun b => !p b) = true := by simpa [hx] using h
      obtain ⟨c, post, e, hc⟩ := ih this
      refine ⟨c, post, ?_, hc⟩
      simp only [List.takeWhile, hx, List.cons_append]
      rw [← e]
    · refine ⟨x, l, ?_, by simpa using hx⟩
      simp [List.takeWhile, hx]

theorem fastQuote_spec (w : Bytes) : ∀ (fuel j : Nat) (esc : Bool) (j' : Nat) (c' : UInt8),
    fastQuote w fuel j esc = .hit j' c' →
    esc = false ∧ Passed (fun x => !(x == 34) && !(x == 92)) w j j' ∧ w[j']? = some 34 := by
  intro fuel
  induction fuel with
  | zero => intro j esc j' c' h; simp [fastQuote] at h
  | succ f ih =>
    intro j esc j' c' h
    rw [fastQuote] at h
    split at h
    · cases hr : read64 w j with
      | none => rw [hr] at h; simp at h
      | some data =>
        rw [hr] at h
        simp only at h
        obtain ⟨b0, b1, b2, b3, b4, b5, b6, b7, rfl, hw⟩ := read64_chunk hr
        generalize hl : [b0, b1, b2, b3, b4, b5, b6, b7] = l at hw
        have hq := quoteFinder_spec b0 b1 b2 b3 b4 b5 b6 b7
        have hb := containsByte_spec b0 b1 b2 b3 b4 b5 b6 b7 92
        rw [hl] at hq hb
        have hlen : l.length = 8 := by rw [← hl]; rfl
        split at h
        · rename_i hne
          -- a quote in this chunk
          split at h
          · rename_i hesc
            simp only [Fast.hit.injEq] at h
            obtain ⟨rfl, _⟩ := h
            simp only [Bool.not_eq_true', Bool.or_eq_false_iff] at hesc
            have hany : l.any (· == 34) = true := by rw [← hq.1]; simpa using hne
            obtain ⟨c, post, e, hc⟩ := takeWhile_split (fun b => !(b == 34)) l (by simpa using hany)
            have hc34 : c = 34 := by simpa using hc
            subst hc34
            have hno92 : ∀ x ∈ l, (x == 92) = false := by
              intro x hx
              cases hx92 : (x == 92) with
              | false => rfl
              | true =>
                have : l.any (· == 92) = true := List.any_eq_true.mpr ⟨x, hx, hx92⟩
                rw [← hb, hesc.2] at this; simp at this
            have hpre : ∀ x ∈ l.takeWhile (fun b => !(b == 34)), (!(x == 34) && !(x == 92)) = true := by
              intro x hx
              have h1 := takeWhile_mem_imp _ _ x hx
              have h2 := hno92 x h1.2
              simp only [h2, Bool.not_false, Bool.and_true]; exact h1.1
            have hqi := hq.2
            generalize l.takeWhile (fun b => !(b == 34)) = pre at e hpre hqi
            rw [hqi]
            have hk : pre.length + 1 + post.length = 8 := by
              have := congrArg List.length e; simp at this; omega
            rw [e] at hw
            have hdrop : w.drop (j + pre.length) = 34 :: (post ++ w.drop (j + 8)) := by
              have h1 : w.drop (j + pre.length) = (w.drop j).drop pre.length := by rw [List.drop_drop]
              rw [h1, hw]; simp
            refine ⟨hesc.1, ⟨pre, by omega, hpre, ?_⟩, ?_⟩
            · rw [hw, hdrop]; simp
            · have : (w.drop (j + pre.length))[0]? = some 34 := by rw [hdrop]; rfl
              rw [List.getElem?_drop] at this
              simpa using this
          · simp at h
        · rename_i hne
          -- no quote in this chunk
          obtain ⟨he, hp, hg⟩ := ih (j + 8) _ j' c' h
          simp only [Bool.or_eq_false_iff] at he
          have hnoq : l.any (· == 34) = false := by
            rw [← hq.1]; simpa using hne
          have hpre : ∀ x ∈ l, (!(x == 34) && !(x == 92)) = true := by
            intro x hx
            have h34 : (x == 34) = false := by
              cases h : (x == 34) with
              | false => rfl
              | true =>
                have : l.any (· == 34) = true := List.any_eq_true.mpr ⟨x, hx, h⟩
                rw [hnoq] at this; simp at this
            have h92 : (x == 92) = false := by
              cases h : (x == 92) with
              | false => rfl
              | true =>
                have : l.any (· == 92) = true := List.any_eq_true.mpr ⟨x, hx, h⟩
                rw [← hb, he.2] at this; simp at this
            simp [h34, h92]
          exact ⟨he.1, Passed.trans ⟨l, by omega, hpre, hw⟩ hp, hg⟩
    · simp at h

/-- the SWAR quote finder finds the closing quote the fallback's `quoteScan` finds -/
theorem fastQuote_quoteScan {w : Bytes} {fuel j j' : Nat} {c' : UInt8} (h : fastQuote w fuel j false = .hit j' c') :
    quoteScan (w.drop j) 0 = .closed (j' - j) ∧ j ≤ j' := by
  obtain ⟨_, ⟨pre, hl, hok, he⟩, hg⟩ := fastQuote_spec w fuel j false j' c' h
  refine ⟨?_, by omega⟩
  rw [he, drop_of_getElem? hg, quoteScan_passed hok]
  congr 1; omega

end Jomini.TextReader

namespace Jomini.TextReader
open Jomini Jomini.TextReader.Spec Jomini.TextReader.Swar

/-! ### no raw read leaves the window -/

theorem fastUnqGroup_no_ub (w : Bytes) : ∀ (n j : Nat), j + n ≤ w.length → fastUnqGroup w n j ≠ .ub := by
  intro n
  induction n with
  | zero => intro j _; simp [fastUnqGroup]
  | succ n ih =>
    intro j h
    rw [fastUnqGroup]
    have hj : j < w.length := by omega
    rw [List.getElem?_eq_getElem hj]
    simp only
    split
    · simp
    · exact ih (j + 1) (by omega)

theorem fastUnq_no_ub (w : Bytes) : ∀ (fuel j : Nat), fastUnq w fuel j ≠ .ub := by
  intro fuel
  induction fuel with
  | zero => intro j; simp [fastUnq]
  | succ f ih =>
    intro j
    rw [fastUnq]
    split
    · rename_i hgt
      have := fastUnqGroup_no_ub w 8 j (by omega)
      cases hg : fastUnqGroup w 8 j with
      | hit a b => simp
      | cont a => simp only; exact ih a
      | ub => exact absurd hg this
    · simp

theorem read64_isSome {w : Bytes} {j : Nat} (h : w.length - j > 8) : ∃ data, read64 w j = some data := by
  have : (read64 w j).isSome = true := by unfold read64; rw [word8_isSome_iff]; simp; omega
  cases hr : read64 w j with
  | none => rw [hr] at this; simp at this
  | some d => exact ⟨d, rfl⟩

theorem fastQuote_no_ub (w : Bytes) : ∀ (fuel j : Nat) (esc : Bool), fastQuote w fuel j esc ≠ .ub := by
  intro fuel
  induction fuel with
  | zero => intro j esc; simp [fastQuote]
  | succ f ih =>
    intro j esc
    rw [fastQuote]
    split
    · rename_i hgt
      obtain ⟨data, hr⟩ := read64_isSome hgt
      rw [hr]
      simp only
      split
      · split <;> simp
      · exact ih _ _
    · simp

/-! ### byte classes -/

theorem beq_false_of_toNat {c k : UInt8} (h : c.toNat ≠ k.toNat) : (c == k) = false := by
  cases hh : c == k with
  | false => rfl
  | true =>
    have : c = k := by simpa using hh
    subst this; exact absurd rfl h

theorem fastStart_nat (c : UInt8) (h : isFastStart c = true) :
    (97 ≤ c.toNat ∧ c.toNat ≤ 122) ∨ (48 ≤ c.toNat ∧ c.toNat ≤ 57) ∨ (65 ≤ c.toNat ∧ c.toNat ≤ 90) ∨ c.toNat = 45 := by
  unfold isFastStart at h
  simp only [Bool.or_eq_true, Bool.and_eq_true, decide_eq_true_eq, UInt8.le_iff_toNat_le, beq_iff_eq] at h
  rcases h with ((h | h) | h) | h
  · left; exact ⟨h.1, h.2⟩
  · right; left; exact ⟨h.1, h.2⟩
  · right; right; left; exact ⟨h.1, h.2⟩
  · right; right; right; rw [h]; rfl

theorem fastStart_class : ∀ c : UInt8, isFastStart c = true →
    isBlank c = false ∧ (c == 35) = false ∧ (c == 0xef) = false ∧ (c == 123) = false ∧ (c == 125) = false ∧
    (c == 34) = false ∧ (c == 64) = false ∧ (c == 61) = false ∧ (c == 60) = false ∧ (c == 33) = false ∧
    (c == 63) = false ∧ (c == 62) = false := by
  intro c h
  have hn := fastStart_nat c h
  have ne : ∀ k : UInt8, c.toNat ≠ k.toNat → (c == k) = false := fun k hk => beq_false_of_toNat hk
  have e32 := ne 32 (by show c.toNat ≠ 32; omega)
  have e9 := ne 9 (by show c.toNat ≠ 9; omega)
  have e10 := ne 10 (by show c.toNat ≠ 10; omega)
  have e13 := ne 13 (by show c.toNat ≠ 13; omega)
  have e59 := ne 59 (by show c.toNat ≠ 59; omega)
  refine ⟨by simp [isBlank, e32, e9, e10, e13, e59], ne 35 (by show c.toNat ≠ 35; omega), ne 0xef (by show c.toNat ≠ 239; omega),
    ne 123 (by show c.toNat ≠ 123; omega), ne 125 (by show c.toNat ≠ 125; omega), ne 34 (by show c.toNat ≠ 34; omega),
    ne 64 (by show c.toNat ≠ 64; omega), ne 61 (by show c.toNat ≠ 61; omega), ne 60 (by show c.toNat ≠ 60; omega),
    ne 33 (by show c.toNat ≠ 33; omega), ne 63 (by show c.toNat ≠ 63; omega), ne 62 (by show c.toNat ≠ 62; omega)⟩

theorem tokenAt_fastStart {c : UInt8} (h : isFastStart c = true) (rest : Bytes) (i : Nat) :
    tokenAt c rest i = unqTok c rest i := by
  obtain ⟨_, _, _, h1, h2, h3, h4, h5, h6, h7, h8, h9⟩ := fastStart_class c h
  simp [tokenAt, h1, h2, h3, h4, h5, h6, h7, h8, h9]

theorem tabNl_blank (x : UInt8) (h : isTabNl x = true) : isBlank x = true := by
  unfold isTabNl at h; unfold isBlank
  simp only [Bool.or_eq_true, beq_iff_eq] at h ⊢
  rcases h with h | h <;> simp [h]

theorem Skips_blanks (pos0 : Bool) (pre : Bytes) (h : ∀ x ∈ pre, isBlank x = true) (i : Nat) (bom : Bom) :
    Skips pos0 pre i bom bom := by
  induction pre generalizing i with
  | nil => exact .nil _ _
  | cons x pre ih => exact .blank (h x (by simp)) (ih (fun y hy => h y (by simp [hy])) _)

/-- the scan of a window that starts with `p` tabs/newlines followed by a byte `c` that starts a token -/
theorem fbLoop_after_ws {pos0 : Bool} {w : Bytes} {p : Nat} {c : UInt8} {bom : Bom}
    (hpre : ∀ x ∈ w.take p, isBlank x = true) (hc : w[p]? = some c)
    (hb : isBlank c = false) (h35 : (c == 35) = false) (hef : (c == 0xef) = false) :
    fbLoop pos0 w .top 0 bom = (bom, tokenAt c (w.drop (p + 1)) p) := by
  have hw : w = w.take p ++ (c :: w.drop (p + 1)) := by
    rw [← drop_of_getElem? hc]; simp
  have hlen : (w.take p).length = p := by
    have : p < w.length := by
      rcases Nat.lt_or_ge p w.length with h1 | h1
      · exact h1
      · rw [List.getElem?_eq_none h1] at hc; simp at hc
    simp; omega
  conv => lhs; rw [hw]
  rw [(Skips_blanks pos0 _ hpre 0 bom).fbLoop, hlen, Nat.zero_add]
  rw [fbLoop_token hb h35 (by simp [BomCheck, hef])]
  simp [bomAfter, hef]

end Jomini.TextReader

namespace Jomini.TextReader
open Jomini Jomini.TextReader.Spec Jomini.TextReader.Swar

/-- the body of `next_opt` once the word has been read, `p` blanks skipped and the byte `c = w[p]` fetched -/
def nextOptAt (fuel : Nat) (r : Reader) (p : Nat) (c : UInt8) : Res (Option Token) :=
  let w := r.win
  if c == 123 then
    match advance r (p + 1) with
    | some r' => .ok r' (some .open_)
    | none => .panic
  else if c == 125 then
    match advance r (p + 1) with
    | some r' => .ok r' (some .close)
    | none => .panic
  else if isFastStart c then
    match fastUnq w w.length (p + 1) with
    | .hit j c' =>
      match advance r (if c' == 32 then j + 1 else j) with
      | some r' => .ok r' (some (.unquoted ((w.drop p).take (j - p))))
      | none => .panic
    | .miss => nextOptFallback fuel r
    | .ub => .ub
  else if c == 34 then
    match fastQuote w w.length (p + 1) false with
    | .hit j _ =>
      match advance r (j + 1) with
      | some r' => .ok r' (some (.quoted ((w.drop (p + 1)).take (j - (p + 1)))))
      | none => .panic
    | .miss => nextOptFallback fuel r
    | .ub => .ub
  else nextOptFallback fuel r

theorem nextOpt_eq (fuel : Nat) (r : Reader) :
    nextOpt fuel r =
      if r.win.length < 9 then nextOptFallback fuel r
      else
        match read64 r.win 0 with
        | none => .ub
        | some data =>
          match r.win[leadingWhitespace data]? with
          | none => .ub
          | some c => nextOptAt fuel r (leadingWhitespace data) c := by
  unfold nextOpt nextOptAt
  rfl

/-- the conclusion of `nextOpt_vs_scan` for a result `res` -/
def FastOk (fuel : Nat) (r : Reader) (res : Res (Option Token)) : Prop :=
  res = nextOptFallback fuel r ∨
  ∃ adv t r', fbLoop (r.position == 0) r.win .top 0 r.bom = (r.bom, .tok adv t) ∧
    res = .ok r' (some t) ∧
    (advance r adv = some r' ∨ (r.win[adv]? = some 32 ∧ advance r (adv + 1) = some r' ∧ ∃ b, t = .unquoted b))

theorem advance_some (r : Reader) (k : Nat) (hk : k ≤ r.win.length) : ∃ r', advance r k = some r' :=
  ⟨{ r with win := r.win.drop k, consumed := r.consumed + k }, by simp [TextReader.advance, hk]⟩

theorem getElem?_lt {w : Bytes} {j : Nat} {c : UInt8} (h : w[j]? = some c) : j < w.length := by
  rcases Nat.lt_or_ge j w.length with h1 | h1
  · exact h1
  · rw [List.getElem?_eq_none h1] at h; simp at h

theorem fast_brace (fuel : Nat) (r : Reader) (p : Nat) (c : UInt8) (t : Token)
    (hpre : ∀ x ∈ r.win.take p, isBlank x = true) (hget : r.win[p]? = some c)
    (hc : (c = 123 ∧ t = .open_) ∨ (c = 125 ∧ t = .close)) :
    FastOk fuel r (match advance r (p + 1) with | some r' => .ok r' (some t) | none => .panic) := by
  have hpl := getElem?_lt hget
  obtain ⟨r', ha⟩ := advance_some r (p + 1) (by omega)
  right
  refine ⟨p + 1, t, r', ?_, by rw [ha], Or.inl ha⟩
  rcases hc with ⟨rfl, rfl⟩ | ⟨rfl, rfl⟩
  · rw [fbLoop_after_ws hpre hget (by decide) (by decide) (by decide)]; simp [tokenAt]
  · rw [fbLoop_after_ws hpre hget (by decide) (by decide) (by decide)]; simp [tokenAt]

theorem fast_unq (fuel : Nat) (r : Reader) (p : Nat) (c : UInt8)
    (hpre : ∀ x ∈ r.win.take p, isBlank x = true) (hget : r.win[p]? = some c) (hfs : isFastStart c = true) :
    FastOk fuel r
      (match fastUnq r.win r.win.length (p + 1) with
       | .hit j c' =>
         match advance r (if c' == 32 then j + 1 else j) with
         | some r' => .ok r' (some (.unquoted ((r.win.drop p).take (j - p))))
         | none => .panic
       | .miss => nextOptFallback fuel r
       | .ub => .ub) := by
  obtain ⟨hb, h35, hef, _⟩ := fastStart_class c hfs
  cases hfu : fastUnq r.win r.win.length (p + 1) with
  | miss => left; rfl
  | ub => exact absurd hfu (fastUnq_no_ub _ _ _)
  | hit j c' =>
    simp only
    obtain ⟨hfi, hjle, hgj⟩ := fastUnq_findIdx hfu
    have hjl := getElem?_lt hgj
    have hscan : fbLoop (r.position == 0) r.win .top 0 r.bom =
        (r.bom, .tok j (.unquoted ((r.win.drop p).take (j - p)))) := by
      rw [fbLoop_after_ws hpre hget hb h35 hef, tokenAt_fastStart hfs]
      unfold unqTok
      rw [hfi]
      simp only [Prod.mk.injEq, Scan.tok.injEq, Token.unquoted.injEq, true_and]
      refine ⟨by omega, ?_⟩
      rw [drop_of_getElem? hget]
      congr 1; omega
    right
    by_cases h32 : (c' == 32) = true
    · obtain ⟨r', ha⟩ := advance_some r (j + 1) (by omega)
      have hc32 : c' = 32 := by simpa using h32
      exact ⟨j, _, r', hscan, by simp only [h32, if_true, ha], Or.inr ⟨by rw [hgj, hc32], ha, _, rfl⟩⟩
    · obtain ⟨r', ha⟩ := advance_some r j (by omega)
      have h32' : (c' == 32) = false := by simpa using h32
      exact ⟨j, _, r', hscan, by simp only [h32', Bool.false_eq_true, if_false, ha], Or.inl ha⟩

theorem fast_quote (fuel : Nat) (r : Reader) (p : Nat)
    (hpre : ∀ x ∈ r.win.take p, isBlank x = true) (hget : r.win[p]? = some 34) :
    FastOk fuel r
      (match fastQuote r.win r.win.length (p + 1) false with
       | .hit j _ =>
         match advance r (j + 1) with
         | some r' => .ok r' (some (.quoted ((r.win.drop (p + 1)).take (j - (p + 1)))))
         | none => .panic
       | .miss => nextOptFallback fuel r
       | .ub => .ub) := by
  cases hfq : fastQuote r.win r.win.length (p + 1) false with
  | miss => left; rfl
  | ub => exact absurd hfq (fastQuote_no_ub _ _ _ _)
  | hit j c' =>
    simp only
    obtain ⟨_, _, hgj⟩ := fastQuote_spec _ _ _ _ _ _ hfq
    obtain ⟨hqs, hjle⟩ := fastQuote_quoteScan hfq
    have hjl := getElem?_lt hgj
    obtain ⟨r', ha⟩ := advance_some r (j + 1) (by omega)
    right
    refine ⟨j + 1, .quoted ((r.win.drop (p + 1)).take (j - (p + 1))), r', ?_, by simp only [ha], Or.inl ha⟩
    rw [fbLoop_after_ws hpre hget (by decide) (by decide) (by decide), tokenAt_quote]
    unfold quoteTok
    rw [hqs]
    simp only [Prod.mk.injEq, Scan.tok.injEq, true_and]
    constructor <;> first | omega | trivial | rfl

theorem nextOptAt_ok (fuel : Nat) (r : Reader) (p : Nat) (c : UInt8)
    (hpre : ∀ x ∈ r.win.take p, isBlank x = true) (hget : r.win[p]? = some c) :
    FastOk fuel r (nextOptAt fuel r p c) := by
  unfold nextOptAt
  simp only
  split
  · rename_i h; exact fast_brace fuel r p c .open_ hpre hget (Or.inl ⟨by simpa using h, rfl⟩)
  · split
    · rename_i _ h; exact fast_brace fuel r p c .close hpre hget (Or.inr ⟨by simpa using h, rfl⟩)
    · split
      · rename_i _ _ h; exact fast_unq fuel r p c hpre hget h
      · split
        · rename_i _ _ _ h
          have : c = 34 := by simpa using h
          subst this
          exact fast_quote fuel r p hpre hget
        · left; rfl

/-- **the fast path of `next_opt` is the fallback scan of the same window.**  Either `next_opt` defers to
`next_opt_fallback`, or it returns a token directly — and then the fallback's scan of the same window decides the very
same token with advance `adv`, the BOM state is untouched, and the fast path has advanced the buffer by `adv`, or by
`adv + 1` when the byte after an unquoted scalar is a space (the "advance one on space" quirk). -/
theorem nextOpt_vs_scan (fuel : Nat) (r : Reader) : FastOk fuel r (nextOpt fuel r) := by
  rw [nextOpt_eq]
  split
  · left; rfl
  · rename_i hlen
    have hlen : 9 ≤ r.win.length := by omega
    obtain ⟨data, hr⟩ := read64_isSome (w := r.win) (j := 0) (by omega)
    rw [hr]
    simp only
    obtain ⟨b0, b1, b2, b3, b4, b5, b6, b7, rfl, hw⟩ := read64_chunk hr
    simp only [List.drop_zero, Nat.zero_add] at hw
    generalize hp : leadingWhitespace (le64 b0 b1 b2 b3 b4 b5 b6 b7) = p
    have hp8 : p ≤ 8 := by rw [← hp]; exact leadingWhitespace_le _
    have hpl : p < r.win.length := by omega
    have hpre : ∀ x ∈ r.win.take p, isBlank x = true := by
      intro x hx
      have hspec := leadingWhitespace_spec b0 b1 b2 b3 b4 b5 b6 b7
      rw [hp] at hspec
      have htk : r.win.take p = ([b0, b1, b2, b3, b4, b5, b6, b7].takeWhile isTabNl) := by
        rw [hw, List.take_append_of_le_length (by simp; omega)]
        have := List.takeWhile_append_dropWhile (p := isTabNl) (l := [b0, b1, b2, b3, b4, b5, b6, b7])
        conv => lhs; rw [← this]
        rw [List.take_append_of_le_length (by omega), List.take_of_length_le (by omega)]
      rw [htk] at hx
      exact tabNl_blank x (takeWhile_mem_imp _ _ x hx).1
    cases hg : r.win[p]? with
    | none => rw [List.getElem?_eq_getElem hpl] at hg; simp at hg
    | some c => simp only; exact nextOptAt_ok fuel r p c hpre hg

end Jomini.TextReader

namespace Jomini.TextReader
open Jomini Jomini.TextReader.Spec Jomini.TextReader.Swar

/-! ### the whole reader (fast path in play) -/

/-- related to the remaining input `d`, or one further because the fast path swallowed the single space that
followed an unquoted scalar -/
def RelQ (r : Reader) (pos : Nat) (bom : Bom) (d : Bytes) : Prop :=
  Rel r pos bom d ∨ ∃ tl, d = 32 :: tl ∧ Rel r (pos + 1) bom tl

/-- `OutOk` with the quirk allowed in the reader that is left behind -/
def OutQOk (res : Res (Option Token)) (cap : Nat) (pos : Nat) (bom : Bom) (d : Bytes) : Prop :=
  match specStep (pos == 0) bom d with
  | some (.tok adv t b') => ∃ r', res = .ok r' (some t) ∧ RelQ r' (pos + adv) b' (d.drop adv) ∧ adv ≤ d.length ∧ r'.cap = cap
  | some (.end_ b') => ∃ r', res = .ok r' none ∧ Rel r' (pos + d.length) b' [] ∧ r'.cap = cap
  | some (.eof a _) => ∃ r', res = .err r' .eof ∧ r'.position = pos + a
  | none => True

def OutQ (res : Res (Option Token)) (cap : Nat) (pos : Nat) (bom : Bom) (d : Bytes) : Prop :=
  FullAlt (Carry (pos == 0) bom d) cap d res ∨ OutQOk res cap pos bom d

theorem Out.toQ {res : Res (Option Token)} {cap pos : Nat} {bom : Bom} {d : Bytes} (h : Out res cap pos bom d) :
    OutQ res cap pos bom d := by
  rcases h with h | h
  · left; exact h
  right
  unfold OutOk at h; unfold OutQOk
  cases hs : specStep (pos == 0) bom d with
  | none => simp
  | some st =>
    rw [hs] at h
    cases st with
    | tok adv t b' => obtain ⟨r', h1, h2, h3, h4⟩ := h; exact ⟨r', h1, Or.inl h2, h3, h4⟩
    | end_ b' => exact h
    | eof a b' => exact h

/-- one swallowed space in front does not matter -/
theorem OutQ_space {res : Res (Option Token)} {cap pos : Nat} {bom : Bom} {tl : Bytes}
    (h : OutQ res cap (pos + 1) bom tl) : OutQ res cap pos bom (32 :: tl) := by
  have hs : Skips (pos == 0) [32] 0 bom bom := .blank (by decide) (.nil _ _)
  rcases h with h | h
  · left
    refine h.mono (by simp) ?_
    intro k hk
    have := Carry_skip (pos := pos) (pre := [32]) (y := tl) hs k (by simpa using hk)
    simpa using this
  right
  have hp : (pos + 1 == 0) = false := by simp
  have hsp := spec_skip hs (by simp) tl
  unfold OutQOk at h ⊢
  rw [hp] at h
  simp only [List.singleton_append, List.length_singleton] at hsp
  rw [hsp]
  cases hst : specStep false bom tl with
  | none => simp
  | some st =>
    rw [hst] at h
    cases st with
    | tok adv t b' =>
      simp only [Option.map_some, shiftStep] at h ⊢
      obtain ⟨r', h1, h2, h3, h4⟩ := h
      refine ⟨r', h1, ?_, by simp; omega, h4⟩
      have e1 : pos + (adv + 1) = pos + 1 + adv := by omega
      have e2 : (32 :: tl).drop (adv + 1) = tl.drop adv := by simp
      rw [e1, e2]; exact h2
    | end_ b' =>
      simp only [Option.map_some, shiftStep] at h ⊢
      obtain ⟨r', h1, h2, h3⟩ := h
      refine ⟨r', h1, ?_, h3⟩
      have e1 : pos + (32 :: tl).length = pos + 1 + tl.length := by simp; omega
      rw [e1]; exact h2
    | eof a b' =>
      simp only [Option.map_some, shiftStep] at h ⊢
      obtain ⟨r', h1, h2⟩ := h
      exact ⟨r', h1, by rw [h2]; omega⟩

/-- **one call of `next`, fast path in play, every fault-free schedule, every capacity** -/
theorem nextOpt_spec (r : Reader) (pos : Nat) (bom : Bom) (d : Bytes) (fuel : Nat)
    (hrel : Rel r pos bom d) (hfuel : 2 * r.src.rest.length + 4 ≤ fuel) :
    OutQ (nextOpt fuel r) r.cap pos bom d := by
  rcases nextOpt_vs_scan fuel r with h | ⟨adv, t, r', hscan, hres, hadv⟩
  · rw [h]; exact (run_fallback_spec _ r pos bom d fuel rfl hrel hfuel).toQ
  · right
    rw [hrel.pos, hrel.bom] at hscan
    have hd : d = r.win ++ r.src.rest := hrel.data.symm
    have hstab := fbLoop_stable r.src.rest hscan
    rw [← hd] at hstab
    unfold OutQOk specStep
    rw [hstab]
    simp only [interp]
    rcases hadv with ha | ⟨h32, ha, _⟩
    · have hk : adv ≤ r.win.length := by
        unfold TextReader.advance at ha; split at ha
        · assumption
        · simp at ha
      obtain ⟨r'', ha', hrel', _, _, hcap'⟩ := hrel.advance adv hk
      rw [ha] at ha'; simp only [Option.some.injEq] at ha'; subst ha'
      exact ⟨r', hres, Or.inl hrel', by rw [hd]; simp; omega, hcap'⟩
    · have hk : adv + 1 ≤ r.win.length := by
        unfold TextReader.advance at ha; split at ha
        · assumption
        · simp at ha
      obtain ⟨r'', ha', hrel', _, _, hcap'⟩ := hrel.advance (adv + 1) hk
      rw [ha] at ha'; simp only [Option.some.injEq] at ha'; subst ha'
      refine ⟨r', hres, Or.inr ⟨d.drop (adv + 1), ?_, by
        have : pos + adv + 1 = pos + (adv + 1) := by omega
        rw [this]; exact hrel'⟩, by rw [hd]; simp; omega, hcap'⟩
      have h1 : d.drop adv = (r.win.drop adv) ++ r.src.rest := by
        rw [hd, List.drop_append_of_le_length (by omega)]
      rw [h1, drop_of_getElem? h32]
      simp only [List.cons_append, List.cons.injEq, true_and]
      rw [hd, List.drop_append_of_le_length hk]

theorem nextOpt_specQ (r : Reader) (pos : Nat) (bom : Bom) (d : Bytes) (fuel : Nat)
    (hrel : RelQ r pos bom d) (hfuel : 2 * d.length + 4 ≤ fuel) :
    OutQ (nextOpt fuel r) r.cap pos bom d := by
  rcases hrel with h | ⟨tl, rfl, h⟩
  · exact nextOpt_spec r pos bom d fuel h (by have := h.rest_le; omega)
  · exact OutQ_space (nextOpt_spec r (pos + 1) bom tl fuel h (by have := h.rest_le; simp at hfuel; omega))

theorem lexAll_toks_prefix (fuel : Nat) : ∀ (n : Nat) (r : Reader) (acc : List Token),
    acc.reverse <+: (lexAll fuel n r acc).toks := by
  intro n
  induction n with
  | zero => intro r acc; simp [lexAll]
  | succ n ih =>
    intro r acc
    rw [lexAll]
    split
    · rename_i r' t _
      have := ih r' (t :: acc)
      simp only [List.reverse_cons] at this
      exact List.IsPrefix.trans (List.prefix_append _ _) this
    all_goals simp

/-- the streaming reader `r1` (fast path in play) against a slice reader `r2` over the same remaining input -/
theorem lexAll_vs_slice (n : Nat) : ∀ (r1 r2 : Reader) (pos : Nat) (bom : Bom) (d : Bytes) (f1 f2 : Nat) (acc : List Token),
    RelQ r1 pos bom d → RelQ r2 pos bom d → r2.cap = 0 → 2 * d.length + 4 ≤ f1 → 2 * d.length + 4 ≤ f2 →
    (StopErr (lexAll f1 n r1 acc).out ∧ (lexAll f1 n r1 acc).toks <+: (lexAll f2 n r2 acc).toks ∧
      ((lexAll f1 n r1 acc).out = .err .full → r1.cap ≤ d.length)) ∨
    ((lexAll f1 n r1 acc).toks = (lexAll f2 n r2 acc).toks ∧ (lexAll f1 n r1 acc).out = (lexAll f2 n r2 acc).out ∧
     ((lexAll f1 n r1 acc).out = .end_ →
      (lexAll f1 n r1 acc).final.position = pos + d.length ∧ (lexAll f2 n r2 acc).final.position = pos + d.length)) := by
  induction n with
  | zero => intro r1 r2 pos bom d f1 f2 acc _ _ _ _ _; right; simp [lexAll]
  | succ n ih =>
    intro r1 r2 pos bom d f1 f2 acc h1 h2 hz hf1 hf2
    have o1 := nextOpt_specQ r1 pos bom d f1 h1 hf1
    have o2 := nextOpt_specQ r2 pos bom d f2 h2 hf2
    have o2 : OutQOk (nextOpt f2 r2) r2.cap pos bom d := by
      rcases o2 with ⟨hne, _⟩ | h
      · exact absurd hz hne
      · exact h
    rcases o1 with ⟨hne, r', ⟨hfull, hle, hwd⟩ | hio⟩ | o1
    · left
      have hl : (lexAll f1 (n + 1) r1 acc).toks = acc.reverse ∧ (lexAll f1 (n + 1) r1 acc).out = .err .full := by
        simp [lexAll, next, hfull]
      refine ⟨Or.inl hl.2, ?_, fun _ => by omega⟩
      rw [hl.1]; exact lexAll_toks_prefix _ _ _ _
    · left
      have hl : (lexAll f1 (n + 1) r1 acc).toks = acc.reverse ∧ (lexAll f1 (n + 1) r1 acc).out = .err .io := by
        simp [lexAll, next, hio]
      refine ⟨Or.inr hl.2, ?_, fun h => by rw [hl.2] at h; simp at h⟩
      rw [hl.1]; exact lexAll_toks_prefix _ _ _ _
    unfold OutQOk at o1 o2
    have hsome := specStep_isSome (pos == 0) bom d
    cases hsp : specStep (pos == 0) bom d with
    | none => rw [hsp] at hsome; simp at hsome
    | some st =>
      rw [hsp] at o1 o2
      cases st with
      | tok adv t b' =>
        obtain ⟨r1', e1, hr1, hle, hc1⟩ := o1
        obtain ⟨r2', e2, hr2, _, hc2⟩ := o2
        simp only [lexAll, next, e1, e2]
        have hl : (d.drop adv).length ≤ d.length := by simp
        have := ih r1' r2' (pos + adv) b' (d.drop adv) f1 f2 (t :: acc) hr1 hr2 (by rw [hc2]; exact hz) (by omega) (by omega)
        rcases this with ⟨ha, hb, hc⟩ | this
        · left; exact ⟨ha, hb, fun h => by have := hc h; rw [← hc1]; omega⟩
        · right
          refine ⟨this.1, this.2.1, ?_⟩
          intro he
          have h3 := this.2.2 he
          have e : pos + adv + (d.drop adv).length = pos + d.length := by simp; omega
          rw [← e]; exact h3
      | end_ b' =>
        obtain ⟨r1', e1, hr1, _⟩ := o1
        obtain ⟨r2', e2, hr2, _⟩ := o2
        right
        simp only [lexAll, next, e1, e2]
        exact ⟨by simp, by simp, fun _ => ⟨hr1.pos, hr2.pos⟩⟩
      | eof a b' =>
        obtain ⟨r1', e1, _⟩ := o1
        obtain ⟨r2', e2, _⟩ := o2
        right
        simp only [lexAll, next, e1, e2]
        exact ⟨by simp, by simp, fun h => by simp at h⟩

end Jomini.TextReader

namespace Jomini.TextReader
open Jomini Jomini.TextReader.Spec Jomini.TextReader.Swar

/-! ### BufferFull only when something does not fit -/

theorem le_maxOver (f : Nat → Nat) : ∀ (n j : Nat), j ≤ n → f j ≤ maxOver n f := by
  intro n
  induction n with
  | zero => intro j hj; have : j = 0 := by omega
            subst this; simp [maxOver]
  | succ n ih =>
    intro j hj
    simp only [maxOver]
    by_cases h : j = n + 1
    · subst h; exact Nat.le_max_left _ _
    · exact Nat.le_trans (ih j (by omega)) (Nat.le_max_right _ _)

/-- every carry of a call needs one byte less than `callNeed` -/
theorem Carry_lt_callNeed {pos0 : Bool} {bom : Bom} {d : Bytes} {k : Nat} (h : Carry pos0 bom d k) :
    k + 1 ≤ callNeed pos0 bom d := by
  unfold callNeed
  have key : ∀ (b0 : Bom), CarryB pos0 b0 d k →
      ∃ j, j ≤ d.length ∧ k + 1 ≤ carryNeed (d.take j) (fbLoop pos0 (d.take j) .top 0 b0) := by
    rintro b0 ⟨w, b, hd, hh⟩
    refine ⟨w.length, by rw [hd]; simp, ?_⟩
    have : d.take w.length = w := by rw [hd]; simp
    rw [this]
    rcases hh with ⟨bom', st, off, hf⟩ | ⟨bom', hf, hk⟩
    · rw [hf]; simp [carryNeed]
    · rw [hf, hk]; simp [carryNeed]
  let F : Nat → Nat := fun j =>
    max (carryNeed (d.take j) (fbLoop pos0 (d.take j) .top 0 bom))
        (if d.length < 3 then carryNeed (d.take j) (fbLoop pos0 (d.take j) .top 0 .notPresent) else 0)
  show k + 1 ≤ maxOver d.length F
  rcases h with h | ⟨h3, h⟩
  · obtain ⟨j, hj, hle⟩ := key bom h
    have h1 : carryNeed (d.take j) (fbLoop pos0 (d.take j) .top 0 bom) ≤ F j := Nat.le_max_left _ _
    exact Nat.le_trans hle (Nat.le_trans h1 (le_maxOver F d.length j hj))
  · obtain ⟨j, hj, hle⟩ := key .notPresent h
    have h1 : carryNeed (d.take j) (fbLoop pos0 (d.take j) .top 0 .notPresent) ≤ F j := by
      show _ ≤ max _ (if d.length < 3 then _ else 0)
      simp only [h3, if_true]
      exact Nat.le_max_right _ _
    exact Nat.le_trans hle (Nat.le_trans h1 (le_maxOver F d.length j hj))

/-- **no `BufferFull` when everything fits**, for the whole run of `next` calls (any schedule, faults included). -/
theorem lexAll_no_full (n : Nat) : ∀ (r : Reader) (pos : Nat) (bom : Bom) (d : Bytes) (f : Nat) (acc : List Token),
    RelQ r pos bom d → needFrom n pos bom d ≤ r.cap → 2 * d.length + 4 ≤ f →
    (lexAll f n r acc).out ≠ .err .full := by
  induction n with
  | zero => intro r pos bom d f acc _ _ _; simp [lexAll]
  | succ n ih =>
    intro r pos bom d f acc hrel hneed hf
    have o := nextOpt_specQ r pos bom d f hrel hf
    simp only [needFrom] at hneed
    have hcall : callNeed (pos == 0) bom d ≤ r.cap := Nat.le_trans (Nat.le_max_left _ _) hneed
    rcases o with ⟨hne, r', ⟨hfull, hle, _, hq⟩ | hio⟩ | o
    · exfalso
      have := Carry_lt_callNeed hq
      omega
    · simp [lexAll, next, hio]
    · unfold OutQOk at o
      cases hsp : specStep (pos == 0) bom d with
      | none => rw [hsp] at o; have := specStep_isSome (pos == 0) bom d; rw [hsp] at this; simp at this
      | some st =>
        rw [hsp] at o hneed
        cases st with
        | tok adv t b' =>
          obtain ⟨r1, e1, hr1, _, hc1⟩ := o
          simp only [lexAll, next, e1]
          have hl : (d.drop adv).length ≤ d.length := by simp
          refine ih r1 (pos + adv) b' (d.drop adv) f (t :: acc) hr1 ?_ (by omega)
          rw [hc1]; exact Nat.le_trans (Nat.le_max_right _ _) hneed
        | end_ b' =>
          obtain ⟨r1, e1, _⟩ := o
          simp [lexAll, next, e1]
        | eof a b' =>
          obtain ⟨r1, e1, _⟩ := o
          simp [lexAll, next, e1]

end Jomini.TextReader
