import JominiModel.Proofs.TextReaderStream
import JominiModel.Proofs.SwarReader
/-
The fast path of `next_opt` against the fallback scan of the same window.
-/
namespace Jomini.TextReader
open Jomini Jomini.TextReader.Spec Jomini.TextReader.Swar

theorem drop_of_getElem? {w : Bytes} {j : Nat} {c : UInt8} (h : w[j]? = some c) :
    w.drop j = c :: w.drop (j + 1) := by
  have hj : j < w.length := by
    rcases Nat.lt_or_ge j w.length with h1 | h1
    · exact h1
    · rw [List.getElem?_eq_none h1] at h; simp at h
  rw [List.getElem?_eq_getElem hj] at h
  simp only [Option.some.injEq] at h
  rw [List.drop_eq_getElem_cons hj, h]

/-! ### unquoted -/

/-- `pre` is the run of bytes the scan passed over: all of them satisfy `ok` -/
def Passed (ok : UInt8 → Bool) (w : Bytes) (j j' : Nat) : Prop :=
  ∃ pre : Bytes, pre.length + j = j' ∧ (∀ x ∈ pre, ok x = true) ∧ w.drop j = pre ++ w.drop j'

theorem Passed.refl (ok : UInt8 → Bool) (w : Bytes) (j : Nat) : Passed ok w j j := ⟨[], by simp, by simp, by simp⟩

theorem Passed.trans {ok : UInt8 → Bool} {w : Bytes} {a b c : Nat} (h1 : Passed ok w a b) (h2 : Passed ok w b c) :
    Passed ok w a c := by
  obtain ⟨p1, l1, o1, e1⟩ := h1
  obtain ⟨p2, l2, o2, e2⟩ := h2
  refine ⟨p1 ++ p2, by simp; omega, ?_, by rw [e1, e2]; simp⟩
  intro x hx; simp at hx; rcases hx with hx | hx
  · exact o1 x hx
  · exact o2 x hx

theorem Passed.step {ok : UInt8 → Bool} {w : Bytes} {j : Nat} {c : UInt8} (h : w[j]? = some c) (hc : ok c = true) :
    Passed ok w j (j + 1) :=
  ⟨[c], by simp; omega, by simp [hc], by rw [drop_of_getElem? h]; simp⟩

theorem findIdx_passed {p : UInt8 → Bool} {pre : Bytes} (hpre : ∀ x ∈ pre, (!p x) = true) (c : UInt8) (hc : p c = true)
    (rest : Bytes) (i : Nat) : findIdx p (pre ++ c :: rest) i = some (i + pre.length) := by
  induction pre generalizing i with
  | nil => simp [findIdx, hc]
  | cons x pre ih =>
    have hx : p x = false := by have := hpre x (by simp); simpa using this
    simp only [List.cons_append, findIdx, hx, Bool.false_eq_true, if_false]
    rw [ih (fun y hy => hpre y (by simp [hy]))]
    simp; omega

theorem fastUnqGroup_spec (w : Bytes) : ∀ (n j : Nat),
    (∀ j' c', fastUnqGroup w n j = .hit j' c' →
      Passed (fun x => !isBoundary x) w j j' ∧ w[j']? = some c' ∧ isBoundary c' = true) ∧
    (∀ j', fastUnqGroup w n j = .cont j' → Passed (fun x => !isBoundary x) w j j') := by
  intro n
  induction n with
  | zero =>
    intro j
    constructor
    · intro j' c' h; simp [fastUnqGroup] at h
    · intro j' h; simp [fastUnqGroup] at h; subst h; exact Passed.refl _ _ _
  | succ n ih =>
    intro j
    constructor
    · intro j' c' h
      rw [fastUnqGroup] at h
      cases hg : w[j]? with
      | none => rw [hg] at h; simp at h
      | some c =>
        rw [hg] at h
        simp only at h
        split at h
        · rename_i hb
          simp only [Group.hit.injEq] at h
          obtain ⟨rfl, rfl⟩ := h
          exact ⟨Passed.refl _ _ _, hg, hb⟩
        · rename_i hb
          obtain ⟨h1, h2, h3⟩ := (ih (j + 1)).1 j' c' h
          exact ⟨(Passed.step hg (by simpa using hb)).trans h1, h2, h3⟩
    · intro j' h
      rw [fastUnqGroup] at h
      cases hg : w[j]? with
      | none => rw [hg] at h; simp at h
      | some c =>
        rw [hg] at h
        simp only at h
        split at h
        · simp at h
        · rename_i hb
          exact (Passed.step hg (by simpa using hb)).trans ((ih (j + 1)).2 j' h)

theorem fastUnq_spec (w : Bytes) : ∀ (fuel j j' : Nat) (c' : UInt8), fastUnq w fuel j = .hit j' c' →
    Passed (fun x => !isBoundary x) w j j' ∧ w[j']? = some c' ∧ isBoundary c' = true := by
  intro fuel
  induction fuel with
  | zero => intro j j' c' h; simp [fastUnq] at h
  | succ f ih =>
    intro j j' c' h
    rw [fastUnq] at h
    split at h
    · cases hg : fastUnqGroup w 8 j with
      | hit a b =>
        rw [hg] at h; simp only [Fast.hit.injEq] at h
        obtain ⟨rfl, rfl⟩ := h
        exact (fastUnqGroup_spec w 8 j).1 _ _ hg
      | cont a =>
        rw [hg] at h; simp only at h
        obtain ⟨h1, h2, h3⟩ := ih a j' c' h
        exact ⟨((fastUnqGroup_spec w 8 j).2 _ hg).trans h1, h2, h3⟩
      | ub => rw [hg] at h; simp at h
    · simp at h

/-- the fast unquoted scan finds the boundary the fallback's `findIdx` finds -/
theorem fastUnq_findIdx {w : Bytes} {fuel j j' : Nat} {c' : UInt8} (h : fastUnq w fuel j = .hit j' c') :
    findIdx isBoundary (w.drop j) 0 = some (j' - j) ∧ j ≤ j' ∧ w[j']? = some c' := by
  obtain ⟨⟨pre, hl, hok, he⟩, h2, h3⟩ := fastUnq_spec w fuel j j' c' h
  refine ⟨?_, by omega, h2⟩
  rw [he, drop_of_getElem? h2, findIdx_passed hok c' h3]
  congr 1; omega

/-! ### quoted -/

theorem quoteScan_other {c : UInt8} {r : Bytes} {i : Nat} (hc : ¬(c == 92) = true) (hq : (c != 34) = true) :
    quoteScan (c :: r) i = quoteScan r (i + 1) := by
  rcases r with _ | ⟨x, r'⟩ <;> simp [quoteScan, hc, hq]

theorem quoteScan_quote {r : Bytes} {i : Nat} : quoteScan (34 :: r) i = .closed i := by
  rcases r with _ | ⟨x, r'⟩ <;> simp [quoteScan]

theorem takeWhile_mem_imp (p : UInt8 → Bool) (l : Bytes) : ∀ x ∈ l.takeWhile p, p x = true ∧ x ∈ l := by
  induction l with
  | nil => simp
  | cons y l ih =>
    intro x hx
    by_cases hy : p y = true
    · simp only [List.takeWhile, hy] at hx
      simp at hx
      rcases hx with rfl | hx
      · exact ⟨hy, by simp⟩
      · have := ih x hx; exact ⟨this.1, by simp [this.2]⟩
    · simp [List.takeWhile, hy] at hx

theorem quoteScan_passed {pre : Bytes} (hpre : ∀ x ∈ pre, (!(x == 34) && !(x == 92)) = true) (rest : Bytes) (i : Nat) :
    quoteScan (pre ++ 34 :: rest) i = .closed (i + pre.length) := by
  induction pre generalizing i with
  | nil => simp [quoteScan_quote]
  | cons x pre ih =>
    have hx := hpre x (by simp)
    simp only [Bool.and_eq_true, Bool.not_eq_true'] at hx
    have h92 : ¬ (x == 92) = true := by simp [hx.2]
    have h34 : (x != 34) = true := by simp [bne, hx.1]
    simp only [List.cons_append]
    rw [quoteScan_other h92 h34, ih (fun y hy => hpre y (by simp [hy]))]
    simp; omega

theorem read64_chunk {w : Bytes} {j : Nat} {data : BitVec 64} (h : read64 w j = some data) :
    ∃ b0 b1 b2 b3 b4 b5 b6 b7, data = le64 b0 b1 b2 b3 b4 b5 b6 b7 ∧
      w.drop j = [b0, b1, b2, b3, b4, b5, b6, b7] ++ w.drop (j + 8) := by
  unfold read64 at h
  obtain ⟨b0, b1, b2, b3, b4, b5, b6, b7, rest, hw, hd⟩ := word8_some h
  refine ⟨b0, b1, b2, b3, b4, b5, b6, b7, hd, ?_⟩
  have : w.drop (j + 8) = (w.drop j).drop 8 := by rw [List.drop_drop]
  rw [this, hw]; rfl

theorem takeWhile_split (p : UInt8 → Bool) (l : Bytes) (h : l.any (fun b => !p b) = true) :
    ∃ c post, l = l.takeWhile p ++ c :: post ∧ p c = false := by
  induction l with
  | nil => simp at h
  | cons x l ih =>
    by_cases hx : p x = true
    · have : l.any (fun b => !p b) = true := by simpa [hx] using h
      obtain ⟨c, post, e, hc⟩ := ih this
      refine ⟨c, post, ?_, hc⟩
      simp only [List.takeWhile, hx, List.cons_append]
      rw [← e]
    · refine ⟨x, l, ?_, by simpa using hx⟩
      simp [List.takeWhile, hx]

theorem fastQuote_spec (w : Bytes) : ∀ (fuel j : Nat) (esc : Bool) (j' : Nat) (c' : UInt8),
    fastQuote w fuel j esc = .hit j' c' →
    esc = false ∧ Passed (fun x => !(x == 34) && !(x == 92)) w j j' ∧ w[j']? = some 34 := by
  intro fuel
  induction fuel with
  | zero => intro j esc j' c' h; simp [fastQuote] at h
  | succ f ih =>
    intro j esc j' c' h
    rw [fastQuote] at h
    split at h
    · cases hr : read64 w j with
      | none => rw [hr] at h; simp at h
      | some data =>
        rw [hr] at h
        simp only at h
        obtain ⟨b0, b1, b2, b3, b4, b5, b6, b7, rfl, hw⟩ := read64_chunk hr
        generalize hl : [b0, b1, b2, b3, b4, b5, b6, b7] = l at hw
        have hq := quoteFinder_spec b0 b1 b2 b3 b4 b5 b6 b7
        have hb := containsByte_spec b0 b1 b2 b3 b4 b5 b6 b7 92
        rw [hl] at hq hb
        have hlen : l.length = 8 := by rw [← hl]; rfl
        split at h
        · rename_i hne
          -- a quote in this chunk
          split at h
          · rename_i hesc
            simp only [Fast.hit.injEq] at h
            obtain ⟨rfl, _⟩ := h
            simp only [Bool.not_eq_true', Bool.or_eq_false_iff] at hesc
            have hany : l.any (· == 34) = true := by rw [← hq.1]; simpa using hne
            obtain ⟨c, post, e, hc⟩ := takeWhile_split (fun b => !(b == 34)) l (by simpa using hany)
            have hc34 : c = 34 := by simpa using hc
            subst hc34
            have hno92 : ∀ x ∈ l, (x == 92) = false := by
              intro x hx
              cases hx92 : (x == 92) with
              | false => rfl
              | true =>
                have : l.any (· == 92) = true := List.any_eq_true.mpr ⟨x, hx, hx92⟩
                rw [← hb, hesc.2] at this; simp at this
            have hpre : ∀ x ∈ l.takeWhile (fun b => !(b == 34)), (!(x == 34) && !(x == 92)) = true := by
              intro x hx
              have h1 := takeWhile_mem_imp _ _ x hx
              have h2 := hno92 x h1.2
              simp only [h2, Bool.not_false, Bool.and_true]; exact h1.1
            have hqi := hq.2
            generalize l.takeWhile (fun b => !(b == 34)) = pre at e hpre hqi
            rw [hqi]
            have hk : pre.length + 1 + post.length = 8 := by
              have := congrArg List.length e; simp at this; omega
            rw [e] at hw
            have hdrop : w.drop (j + pre.length) = 34 :: (post ++ w.drop (j + 8)) := by
              have h1 : w.drop (j + pre.length) = (w.drop j).drop pre.length := by rw [List.drop_drop]
              rw [h1, hw]; simp
            refine ⟨hesc.1, ⟨pre, by omega, hpre, ?_⟩, ?_⟩
            · rw [hw, hdrop]; simp
            · have : (w.drop (j + pre.length))[0]? = some 34 := by rw [hdrop]; rfl
              rw [List.getElem?_drop] at this
              simpa using this
          · simp at h
        · rename_i hne
          -- no quote in this chunk
          obtain ⟨he, hp, hg⟩ := ih (j + 8) _ j' c' h
          simp only [Bool.or_eq_false_iff] at he
          have hnoq : l.any (· == 34) = false := by
            rw [← hq.1]; simpa using hne
          have hpre : ∀ x ∈ l, (!(x == 34) && !(x == 92)) = true := by
            intro x hx
            have h34 : (x == 34) = false := by
              cases h : (x == 34) with
              | false => rfl
              | true =>
                have : l.any (· == 34) = true := List.any_eq_true.mpr ⟨x, hx, h⟩
                rw [hnoq] at this; simp at this
            have h92 : (x == 92) = false := by
              cases h : (x == 92) with
              | false => rfl
              | true =>
                have : l.any (· == 92) = true := List.any_eq_true.mpr ⟨x, hx, h⟩
                rw [← hb, he.2] at this; simp at this
            simp [h34, h92]
          exact ⟨he.1, Passed.trans ⟨l, by omega, hpre, hw⟩ hp, hg⟩
    · simp at h

/-- the SWAR quote finder finds the closing quote the fallback's `quoteScan` finds -/
theorem fastQuote_quoteScan {w : Bytes} {fuel j j' : Nat} {c' : UInt8} (h : fastQuote w fuel j false = .hit j' c') :
    quoteScan (w.drop j) 0 = .closed (j' - j) ∧ j ≤ j' := by
  obtain ⟨_, ⟨pre, hl, hok, he⟩, hg⟩ := fastQuote_spec w fuel j false j' c' h
  refine ⟨?_, by omega⟩
  rw [he, drop_of_getElem? hg, quoteScan_passed hok]
  congr 1; omega

end Jomini.TextReader
