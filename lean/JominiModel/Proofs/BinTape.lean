import JominiModel.Model.BinTape
/-
Helper lemmas for C03 (binary tape parser): the plain loop, fuel, the invariant needed by the
fast paths, and the simulation of every fast path by iterations of the plain loop.
-/
namespace Jomini.BinTape
open Jomini

/-! ## the plain loop -/

/-- one iteration of the reference (plain) loop -/
def step (st : St) : Iter := iter false 0 st

theorem tokenArm_false (f : Nat) (tape : Tape) (parent : Nat) (state : PState) (d : Bytes) (tok : Nat) :
    tokenArm false f tape parent state d tok = tokenArm false 0 tape parent state d tok := by
  simp [tokenArm]

theorem dispatch_false (f : Nat) (tape : Tape) (parent : Nat) (state : PState) (d : Bytes) (tok : Nat) :
    dispatch false f tape parent state d tok = dispatch false 0 tape parent state d tok := by
  simp [dispatch, tokenArm_false f]

theorem iter_false (f : Nat) (st : St) : iter false f st = step st := by
  simp [step, iter, dispatch_false f]

/-- `k` successful plain iterations -/
def stepN : Nat → St → Option St
  | 0, st => some st
  | k + 1, st =>
    match step st with
    | .next st' => stepN k st'
    | _ => none

/-- the plain loop reaches `b` from `a` (reflexive, transitive) -/
def Reach (a b : St) : Prop := ∃ k, stepN k a = some b

/-- the plain loop reaches `b` from `a` in at least one iteration -/
def Reach1 (a b : St) : Prop := ∃ k, stepN (k + 1) a = some b

/-- the plain loop stops at `s` with error `e`: either the iteration fails, or the input is
exhausted and the acceptance test fails. -/
def Fails (s : St) (e : Err) : Prop :=
  step s = .err e ∨ (step s = .done ∧ finish s = .error e)

/-- the plain loop, started at `a`, rejects with `e` -/
def Rejects (a : St) (e : Err) : Prop := ∃ s, Reach a s ∧ Fails s e

theorem Reach.refl (a : St) : Reach a a := ⟨0, rfl⟩

theorem stepN_add (k m : Nat) (a b c : St) (h1 : stepN k a = some b) (h2 : stepN m b = some c) :
    stepN (k + m) a = some c := by
  induction k generalizing a with
  | zero => simp only [stepN, Option.some.injEq] at h1; subst h1; simpa using h2
  | succ k ih =>
    have : k + 1 + m = (k + m) + 1 := by omega
    rw [this]
    cases hs : step a with
    | next st' => simp only [stepN, hs] at h1 ⊢; exact ih _ h1
    | done => simp [stepN, hs] at h1
    | err e => simp [stepN, hs] at h1

theorem Reach.trans {a b c : St} (h1 : Reach a b) (h2 : Reach b c) : Reach a c := by
  obtain ⟨k, hk⟩ := h1; obtain ⟨m, hm⟩ := h2
  exact ⟨k + m, stepN_add k m a b c hk hm⟩

theorem Reach.head {a b c : St} (h : step a = .next b) (h2 : Reach b c) : Reach a c := by
  obtain ⟨m, hm⟩ := h2
  exact ⟨m + 1, by simp [stepN, h, hm]⟩

theorem Reach1.head {a b c : St} (h : step a = .next b) (h2 : Reach b c) : Reach1 a c := by
  obtain ⟨m, hm⟩ := h2
  exact ⟨m, by simp [stepN, h, hm]⟩

theorem Reach1.single {a b : St} (h : step a = .next b) : Reach1 a b :=
  Reach1.head h (Reach.refl b)

theorem Reach1.toReach {a b : St} (h : Reach1 a b) : Reach a b := by
  obtain ⟨k, hk⟩ := h; exact ⟨k + 1, hk⟩

theorem Reach1.trans_left {a b c : St} (h1 : Reach a b) (h2 : Reach1 b c) : Reach1 a c := by
  obtain ⟨k, hk⟩ := h1; obtain ⟨m, hm⟩ := h2
  exact ⟨k + m, by have := stepN_add k (m + 1) a b c hk hm; simpa [Nat.add_assoc] using this⟩

theorem Reach1.trans_right {a b c : St} (h1 : Reach1 a b) (h2 : Reach b c) : Reach1 a c := by
  obtain ⟨k, hk⟩ := h1; obtain ⟨m, hm⟩ := h2
  refine ⟨k + m, ?_⟩
  have := stepN_add (k + 1) m a b c hk hm
  have e : k + 1 + m = k + m + 1 := by omega
  rw [e] at this; exact this

theorem Rejects.of_reach {a b : St} {e : Err} (h1 : Reach a b) (h2 : Rejects b e) : Rejects a e := by
  obtain ⟨s, hs, hf⟩ := h2
  exact ⟨s, h1.trans hs, hf⟩

theorem Rejects.head {a b : St} {e : Err} (h : step a = .next b) (h2 : Rejects b e) : Rejects a e :=
  Rejects.of_reach (Reach.head h (Reach.refl b)) h2

theorem Rejects.now {a : St} {e : Err} (h : Fails a e) : Rejects a e := ⟨a, Reach.refl a, h⟩

/-! ## evaluating one plain iteration -/

theorem step_eq {st : St} {tok : Nat} {d : Bytes} (h : readId st.data = some (tok, d)) :
    step st = Iter.ofExcept (dispatch false 0 st.tape st.parent st.state d tok) := by
  simp [step, iter, h]

theorem step_done {st : St} (h : readId st.data = none) : step st = .done := by
  simp [step, iter, h]

/-- outcome of a fast path, relative to the plain loop started at `st` -/
def FPSimR (st : St) : FP → Prop
  | .cont st' => Reach st st'
  | .err e => e ≠ .fuel ∧ Rejects st e
  | .fall t p s d' tok' => ∃ dpre, readId dpre = some (tok', d') ∧ Reach st ⟨t, p, s, dpre⟩

/-- the same with at least one plain iteration behind a `continue` -/
def FPSim (st : St) : FP → Prop
  | .cont st' => Reach1 st st'
  | .err e => e ≠ .fuel ∧ Rejects st e
  | .fall t p s d' tok' => ∃ dpre, readId dpre = some (tok', d') ∧ Reach st ⟨t, p, s, dpre⟩

theorem FPSimR.head {a b : St} {r : FP} (h : step a = .next b) (h2 : FPSimR b r) : FPSimR a r := by
  cases r with
  | cont st' => exact Reach.head h h2
  | err e => exact ⟨h2.1, Rejects.head h h2.2⟩
  | fall t p s d' tok' =>
    obtain ⟨dpre, h3, h4⟩ := h2
    exact ⟨dpre, h3, Reach.head h h4⟩

theorem FPSim.head {a b : St} {r : FP} (h : step a = .next b) (h2 : FPSimR b r) : FPSim a r := by
  cases r with
  | cont st' => exact Reach1.head h h2
  | err e => exact ⟨h2.1, Rejects.head h h2.2⟩
  | fall t p s d' tok' =>
    obtain ⟨dpre, h3, h4⟩ := h2
    exact ⟨dpre, h3, Reach.head h h4⟩

theorem FPSim.toR {a : St} {r : FP} (h : FPSim a r) : FPSimR a r := by
  cases r with
  | cont st' => exact h.toReach
  | err e => exact h
  | fall t p s d' tok' => exact h

theorem FPSimR.withId {a : St} {d : Bytes} {k : Nat → Bytes → FP} (hd : a.data = d) (hk : a.state ≠ .key)
    (h : ∀ t rest, readId a.data = some (t, rest) → FPSimR a (k t rest)) : FPSimR a (FP.withId d k) := by
  subst hd
  unfold FP.withId
  cases hr : readId a.data with
  | none =>
    refine ⟨by decide, Rejects.now (Or.inr ⟨step_done hr, ?_⟩)⟩
    simp [finish, hk]
  | some p => obtain ⟨t, rest⟩ := p; exact h t rest hr

theorem FPSimR.fallHere {tape : Tape} {parent : Nat} {state : PState} {data rest : Bytes} {t : Nat}
    (h : readId data = some (t, rest)) :
    FPSimR ⟨tape, parent, state, data⟩ (.fall tape parent state rest t) :=
  ⟨data, h, Reach.refl _⟩

@[simp] theorem nextState_arrayValue : nextState .arrayValue = some .arrayValue := by decide
@[simp] theorem nextState_arrayValueMixed : nextState .arrayValueMixed = some .arrayValueMixed := by decide
@[simp] theorem nextState_objectValue : nextState .objectValue = some .key := by decide
@[simp] theorem nextState_key : nextState .key = some .keyValueSeparator := by decide
@[simp] theorem nextState_kvs : nextState .keyValueSeparator = some .objectToArray := by decide
@[simp] theorem nextState_objectToArray : nextState .objectToArray = some .openFirst := by decide
@[simp] theorem nextState_openFirst : nextState .openFirst = some .openSecond := by decide
@[simp] theorem nextState_openSecond : nextState .openSecond = some .arrayValue := by decide

theorem step_scalar_ok {tape : Tape} {parent : Nat} (state : PState) {s' : PState} {data d d' : Bytes} {tok : Nat}
    {r : Except Err (Tape × Bytes)} {t' : Tape}
    (h : readId data = some (tok, d)) (hs : state ≠ .objectToArray)
    (hP : tokenArm false 0 tape parent state d tok = scalarArm r parent state)
    (hr : r = .ok (t', d')) (hn : nextState state = some s') :
    step ⟨tape, parent, state, data⟩ = .next ⟨t', parent, s', d'⟩ := by
  rw [step_eq (st := ⟨tape, parent, state, data⟩) h]
  simp [dispatch, hs, hP, scalarArm, hr, hn, Iter.ofExcept]

theorem step_scalar_err {tape : Tape} {parent : Nat} (state : PState) {data d : Bytes} {tok : Nat}
    {r : Except Err (Tape × Bytes)} {e : Err}
    (h : readId data = some (tok, d)) (hs : state ≠ .objectToArray)
    (hP : tokenArm false 0 tape parent state d tok = scalarArm r parent state)
    (hr : r = .error e) :
    step ⟨tape, parent, state, data⟩ = .err e := by
  rw [step_eq (st := ⟨tape, parent, state, data⟩) h]
  simp [dispatch, hs, hP, scalarArm, hr, Iter.ofExcept]

theorem tokenArm_i32 (tape : Tape) (parent : Nat) (state : PState) (d : Bytes) :
    tokenArm false 0 tape parent state d L.i32 = scalarArm (parseI32 tape d) parent state := by
  simp [tokenArm, L.i32, L.u32, L.u64]
  cases scalarArm (parseI32 tape d) parent state <;> rfl

theorem tokenArm_quoted (tape : Tape) (parent : Nat) (state : PState) (d : Bytes) :
    tokenArm false 0 tape parent state d L.quoted = scalarArm (parseQuoted tape d) parent state := by
  simp [tokenArm, L.i32, L.u32, L.u64, L.bool, L.quoted]

theorem tokenArm_f32 (tape : Tape) (parent : Nat) (state : PState) (d : Bytes) :
    tokenArm false 0 tape parent state d L.f32 = scalarArm (parseF32 tape d) parent state := by
  simp [tokenArm, L.i32, L.u32, L.u64, L.bool, L.quoted, L.unquoted, L.f32]

theorem tokenArm_bool (tape : Tape) (parent : Nat) (state : PState) (d : Bytes) :
    tokenArm false 0 tape parent state d L.bool = scalarArm (parseBool tape d) parent state := by
  simp [tokenArm, L.i32, L.u32, L.u64, L.bool]

theorem tokenArm_elem (k : EKind) (tape : Tape) (parent : Nat) (state : PState) (d : Bytes) :
    tokenArm false 0 tape parent state d k.lex = scalarArm (parseElem k tape d) parent state := by
  cases k
  · exact tokenArm_i32 tape parent state d
  · exact tokenArm_quoted tape parent state d
  · exact tokenArm_f32 tape parent state d

theorem tokenArm_equal (tape : Tape) (parent : Nat) (state : PState) (d : Bytes) :
    tokenArm false 0 tape parent state d L.equal = equalArm tape parent state d := by
  simp [tokenArm, L.i32, L.u32, L.u64, L.equal, L.bool, L.quoted, L.unquoted, L.f32, L.f64, L.open_, L.close]

theorem tokenArm_open (tape : Tape) (parent : Nat) (state : PState) (d : Bytes) :
    tokenArm false 0 tape parent state d L.open_ = openArm tape parent state d := by
  simp [tokenArm, L.i32, L.u32, L.u64, L.bool, L.quoted, L.unquoted, L.f32, L.f64, L.open_]

theorem tokenArm_close (tape : Tape) (parent : Nat) (state : PState) (d : Bytes) :
    tokenArm false 0 tape parent state d L.close = closeArm tape parent state d := by
  simp [tokenArm, L.i32, L.u32, L.u64, L.bool, L.quoted, L.unquoted, L.f32, L.f64, L.open_, L.close]

theorem isPlainId_iff (t : Nat) : isPlainId t = true ↔ (t > 23 ∧ t ≠ 359 ∧ t ≠ 668 ∧ t ≠ 791) := by
  unfold isPlainId L.unquoted L.f64 L.u64 L.i64
  constructor
  · intro h; simp only [Bool.and_eq_true, decide_eq_true_eq] at h; omega
  · intro h; simp only [Bool.and_eq_true, decide_eq_true_eq]; omega

/-- the side condition of the fast paths: an id that is pushed as `Token` is not a typed lexeme
(`isPlainId`, or the id `0xb`), so the plain loop pushes it as `Token` too — except `RGB` in value
position, which the fast paths never meet (they push ids in `Key` / `OpenFirst` only). -/
theorem tokenArm_plainId (tape : Tape) (parent : Nat) (state : PState) (d : Bytes) (tok : Nat)
    (h : isPlainId tok = true ∨ tok = 0xb) (hs : state ≠ .objectValue) :
    tokenArm false 0 tape parent state d tok = scalarArm (.ok (tape ++ [.token tok], d)) parent state := by
  have h' : tok ≠ L.u32 ∧ tok ≠ L.u64 ∧ tok ≠ L.i32 ∧ tok ≠ L.bool ∧ tok ≠ L.quoted ∧ tok ≠ L.unquoted ∧
      tok ≠ L.f32 ∧ tok ≠ L.f64 ∧ tok ≠ L.open_ ∧ tok ≠ L.close ∧ tok ≠ L.equal ∧ tok ≠ L.i64 := by
    rw [isPlainId_iff] at h
    simp only [L.u32, L.u64, L.i32, L.bool, L.quoted, L.unquoted, L.f32, L.f64, L.open_, L.close, L.equal, L.i64]
    omega
  obtain ⟨a1, a2, a3, a4, a5, a6, a7, a8, a9, a10, a11, a12⟩ := h'
  simp [tokenArm, a1, a2, a3, a4, a5, a6, a7, a8, a9, a10, a11, a12, hs]

theorem step_equal_kvs {tape : Tape} {parent : Nat} {data d : Bytes} (h : readId data = some (L.equal, d)) :
    step ⟨tape, parent, .keyValueSeparator, data⟩ = .next ⟨tape, parent, .objectValue, d⟩ := by
  rw [step_eq (st := ⟨tape, parent, .keyValueSeparator, data⟩) h]
  simp [dispatch, tokenArm_equal, equalArm, Iter.ofExcept]

theorem step_equal_openSecond {tape : Tape} {parent : Nat} {data d : Bytes} (h : readId data = some (L.equal, d)) :
    step ⟨tape, parent, .openSecond, data⟩ =
      match setParentToObject tape parent with
      | .error e => .err e
      | .ok tape' => .next ⟨tape', parent, .objectValue, d⟩ := by
  rw [step_eq (st := ⟨tape, parent, .openSecond, data⟩) h]
  simp only [dispatch, tokenArm_equal, equalArm]
  cases setParentToObject tape parent <;> simp [Iter.ofExcept]

theorem step_open {tape : Tape} {parent : Nat} (state : PState) {data d : Bytes} (h : readId data = some (L.open_, d))
    (h1 : state ≠ .key) (h2 : state ≠ .objectToArray) :
    step ⟨tape, parent, state, data⟩ = .next ⟨tape ++ [.array parent], tape.length, .openFirst, d⟩ := by
  rw [step_eq (st := ⟨tape, parent, state, data⟩) h]
  simp [dispatch, tokenArm_open, openArm, h1, h2, Iter.ofExcept]

theorem step_close {tape : Tape} {parent : Nat} (state : PState) {data d : Bytes} (h : readId data = some (L.close, d))
    (h1 : state ≠ .keyValueSeparator) (h2 : state ≠ .objectToArray) (h3 : state ≠ .objectValue) :
    step ⟨tape, parent, state, data⟩ =
      match pushEnd tape parent with
      | .error e => .err e
      | .ok (tape', parent', state') => .next ⟨tape', parent', state', d⟩ := by
  rw [step_eq (st := ⟨tape, parent, state, data⟩) h]
  unfold dispatch
  simp only
  rw [if_neg h2, tokenArm_close]
  unfold closeArm
  have : (match state with
      | .keyValueSeparator => mixedInsert1 tape
      | .objectValue => .error .syntax
      | _ => .ok tape) = .ok tape := by
    cases state <;> simp_all
  simp only [this]
  cases pushEnd tape parent with
  | error e => simp [Iter.ofExcept]
  | ok p => obtain ⟨a, b, c⟩ := p; simp [Iter.ofExcept]

/-! ## the parse helpers -/

theorem readId_length {d rest : Bytes} {t : Nat} (h : readId d = some (t, rest)) : d.length = rest.length + 2 := by
  match d, h with
  | a :: b :: r, h => simp [readId] at h; obtain ⟨_, rfl⟩ := h; simp

theorem parseFixed_ok {n : Nat} {mk : Bytes → BTok} {tape t' : Tape} {d d' : Bytes}
    (h : parseFixed n mk tape d = .ok (t', d')) : t' = tape ++ [mk (d.take n)] ∧ d'.length ≤ d.length := by
  unfold parseFixed split? at h
  split at h
  · cases h
  · rename_i hh rest hs
    split at hs
    · simp at hs; obtain ⟨rfl, rfl⟩ := hs; simp at h; obtain ⟨rfl, rfl⟩ := h; simp
    · cases hs

theorem parseFixed_err {n : Nat} {mk : Bytes → BTok} {tape : Tape} {d : Bytes} {e : Err}
    (h : parseFixed n mk tape d = .error e) : e = .eof := by
  unfold parseFixed at h
  split at h
  · cases h; rfl
  · cases h

theorem readString_length {d s rest : Bytes} (h : readString d = some (s, rest)) : rest.length ≤ d.length := by
  unfold readString at h
  split at h
  · cases h
  · rename_i len r hr
    have := readId_length hr
    split at h
    · simp at h; obtain ⟨rfl, rfl⟩ := h; simp; omega
    · cases h

theorem parseQuoted_ok {tape t' : Tape} {d d' : Bytes} (h : parseQuoted tape d = .ok (t', d')) :
    (∃ s, t' = tape ++ [.quoted s]) ∧ d'.length ≤ d.length := by
  unfold parseQuoted at h
  split at h
  · cases h
  · rename_i s rest hs; simp at h; obtain ⟨rfl, rfl⟩ := h; exact ⟨⟨s, rfl⟩, readString_length hs⟩

theorem parseQuoted_err {tape : Tape} {d : Bytes} {e : Err} (h : parseQuoted tape d = .error e) : e = .eof := by
  unfold parseQuoted at h
  split at h
  · cases h; rfl
  · cases h

theorem parseBool_ok {tape t' : Tape} {d d' : Bytes} (h : parseBool tape d = .ok (t', d')) :
    (∃ b, t' = tape ++ [.bool b]) ∧ d'.length ≤ d.length := by
  unfold parseBool readBool at h
  cases d with
  | nil => simp at h
  | cons x r => simp at h; obtain ⟨rfl, rfl⟩ := h; exact ⟨⟨_, rfl⟩, by simp⟩

theorem parseBool_err {tape : Tape} {d : Bytes} {e : Err} (h : parseBool tape d = .error e) : e = .eof := by
  unfold parseBool at h
  split at h
  · cases h; rfl
  · cases h

/-- a token that is not a container start -/
def BTok.notArray : BTok → Prop
  | .array _ => False
  | _ => True

theorem parseElem_ok {k : EKind} {tape t' : Tape} {d d' : Bytes} (h : parseElem k tape d = .ok (t', d')) :
    (∃ x, t' = tape ++ [x] ∧ x.notArray) ∧ d'.length ≤ d.length := by
  cases k
  · have := parseFixed_ok h; exact ⟨⟨_, this.1, trivial⟩, this.2⟩
  · have := parseQuoted_ok h; obtain ⟨⟨s, hs⟩, h2⟩ := this; exact ⟨⟨_, hs, trivial⟩, h2⟩
  · have := parseFixed_ok h; exact ⟨⟨_, this.1, trivial⟩, this.2⟩

theorem parseElem_err {k : EKind} {tape : Tape} {d : Bytes} {e : Err} (h : parseElem k tape d = .error e) : e = .eof := by
  cases k
  · exact parseFixed_err h
  · exact parseQuoted_err h
  · exact parseFixed_err h

/-! ## simulation of the key fast paths by the plain loop -/

theorem pushEnd_array {tape : Tape} {parent grand : Nat} {x : BTok}
    (hp : tape[parent]? = some (.array grand)) (hlt : grand < parent)
    (hg : tape[grand]? = some x) (hx : x.notArray) :
    pushEnd tape parent = .ok (tape.set parent (.array tape.length) ++ [.end_ parent], grand, .key) := by
  have hpl : parent < tape.length := by
    rcases Nat.lt_or_ge parent tape.length with h | h
    · exact h
    · simp [List.getElem?_eq_none h] at hp
  have hgl : grand < tape.length := by omega
  have h1 : (tape.set parent (.array tape.length) ++ [.end_ parent])[grand]? = some x := by
    rw [List.getElem?_append_left (by simpa using hgl)]
    rw [List.getElem?_set_ne (by omega)]
    exact hg
  simp only [pushEnd, hp, closeTo, h1]
  cases x <;> simp_all [BTok.notArray]

theorem arrLoop_sim (k : EKind) : ∀ (F : Nat) (tape : Tape) (parent : Nat) (nd : Bytes) (grand : Nat) (x : BTok),
    nd.length + 1 ≤ F → tape[parent]? = some (.array grand) → grand < parent →
    tape[grand]? = some x → x.notArray →
    FPSimR ⟨tape, parent, .arrayValue, nd⟩ (arrLoop k F tape parent nd) := by
  intro F
  induction F with
  | zero => intro tape parent nd grand x hF; omega
  | succ F ih =>
    intro tape parent nd grand x hF hp hlt hg hx
    unfold arrLoop
    cases hr : readId nd with
    | none =>
      exact ⟨by decide, Rejects.now (Or.inr ⟨step_done hr, by simp [finish]⟩)⟩
    | some pr =>
      obtain ⟨t, nd2⟩ := pr
      have hlen := readId_length hr
      simp only
      split
      · rename_i ht; subst ht
        cases hpe : parseElem k tape nd2 with
        | error e =>
          have h1 := step_scalar_err (parent := parent) .arrayValue hr (by decide) (tokenArm_elem k _ _ _ _) hpe
          exact ⟨by rw [parseElem_err hpe]; decide, Rejects.now (Or.inl h1)⟩
        | ok pr2 =>
          obtain ⟨tape', nd'⟩ := pr2
          have h1 := step_scalar_ok (parent := parent) .arrayValue hr (by decide) (tokenArm_elem k _ _ _ _) hpe nextState_arrayValue
          obtain ⟨⟨y, rfl, hy⟩, hl⟩ := parseElem_ok hpe
          have hpl : parent < tape.length := by
            rcases Nat.lt_or_ge parent tape.length with h | h
            · exact h
            · simp [List.getElem?_eq_none h] at hp
          refine FPSimR.head h1 (ih _ parent nd' grand x (by omega) ?_ hlt ?_ hx)
          · rw [List.getElem?_append_left hpl]; exact hp
          · rw [List.getElem?_append_left (by omega)]; exact hg
      · split
        · rename_i ht; subst ht
          have h1 := step_close (tape := tape) (parent := parent) .arrayValue hr (by decide) (by decide) (by decide)
          rw [pushEnd_array hp hlt hg hx] at h1
          simp only [hp]
          exact Reach.head h1 (Reach.refl _)
        · exact FPSimR.fallHere hr


theorem getElem?_lt_length {α} {l : List α} {i : Nat} {x : α} (h : l[i]? = some x) : i < l.length := by
  rcases Nat.lt_or_ge i l.length with h' | h'
  · exact h'
  · simp [List.getElem?_eq_none h'] at h

theorem arrayField_sim (k : EKind) (F : Nat) (tape : Tape) (parent : Nat) (data d4 : Bytes) (grand : Nat) (x : BTok)
    (hr : readId data = some (k.lex, d4)) (hF : data.length ≤ F)
    (hp : tape[parent]? = some (.array grand)) (hlt : grand < parent)
    (hg : tape[grand]? = some x) (hx : x.notArray) :
    FPSimR ⟨tape, parent, .openFirst, data⟩ (arrayField k F tape parent d4) := by
  unfold arrayField FP.withParse
  have hpl := getElem?_lt_length hp
  have hlen := readId_length hr
  cases hpe : parseElem k tape d4 with
  | error e =>
    have h1 := step_scalar_err (parent := parent) .openFirst hr (by decide) (tokenArm_elem k _ _ _ _) hpe
    exact ⟨by rw [parseElem_err hpe]; decide, Rejects.now (Or.inl h1)⟩
  | ok pr =>
    obtain ⟨tape1, d4'⟩ := pr
    have h1 := step_scalar_ok (parent := parent) .openFirst hr (by decide) (tokenArm_elem k _ _ _ _) hpe nextState_openFirst
    obtain ⟨⟨y, rfl, hy⟩, hl⟩ := parseElem_ok hpe
    refine FPSimR.head h1 ?_
    refine FPSimR.withId rfl (by simp) ?_
    intro t5 d5 hr5
    simp only at hr5
    have hlen5 := readId_length hr5
    simp only
    split
    · rename_i ht; subst ht
      cases hpe2 : parseElem k (tape ++ [y]) d5 with
      | error e =>
        have h2 := step_scalar_err (parent := parent) .openSecond hr5 (by decide) (tokenArm_elem k _ _ _ _) hpe2
        exact ⟨by rw [parseElem_err hpe2]; decide, Rejects.now (Or.inl h2)⟩
      | ok pr2 =>
        obtain ⟨tape2, nd⟩ := pr2
        have h2 := step_scalar_ok (parent := parent) .openSecond hr5 (by decide) (tokenArm_elem k _ _ _ _) hpe2 nextState_openSecond
        obtain ⟨⟨z, rfl, hz⟩, hl2⟩ := parseElem_ok hpe2
        refine FPSimR.head h2 (arrLoop_sim k F _ parent nd grand x (by omega) ?_ hlt ?_ hx)
        · rw [List.getElem?_append_left (by simp; omega), List.getElem?_append_left hpl]; exact hp
        · rw [List.getElem?_append_left (by simp; omega), List.getElem?_append_left (by omega)]; exact hg
    · exact FPSimR.fallHere hr5


theorem setParentToObject_err {tape : Tape} {parent : Nat} {e : Err} (h : setParentToObject tape parent = .error e) : e = .ub := by
  unfold setParentToObject at h
  split at h
  · cases h
  · cases h; rfl

/-- a value that the fast path parses and `continue`s on: one plain iteration from `ObjectValue` -/
theorem value_cont_sim {P : Tape → Bytes → Except Err (Tape × Bytes)} {tok : Nat} {T : Tape} {parent : Nat} {data d : Bytes}
    (hr : readId data = some (tok, d))
    (hP : ∀ tape parent state d, tokenArm false 0 tape parent state d tok = scalarArm (P tape d) parent state)
    (herr : ∀ tape d e, P tape d = .error e → e = .eof) :
    FPSimR ⟨T, parent, .objectValue, data⟩
      (FP.withParse (P T d) fun tape' data' => .cont ⟨tape', parent, .key, data'⟩) := by
  unfold FP.withParse
  cases hpe : P T d with
  | error e =>
    have h1 := step_scalar_err (parent := parent) .objectValue hr (by decide) (hP _ _ _ _) hpe
    exact ⟨by rw [herr _ _ _ hpe]; decide, Rejects.now (Or.inl h1)⟩
  | ok pr =>
    obtain ⟨tape', data'⟩ := pr
    have h1 := step_scalar_ok (parent := parent) .objectValue hr (by decide) (hP _ _ _ _) hpe nextState_objectValue
    exact Reach.head h1 (Reach.refl _)

theorem tokenKeyFast_sim (F : Nat) (T : Tape) (parent : Nat) (d : Bytes) (x : BTok)
    (hF : d.length ≤ F) (hg : T[parent]? = some x) (hx : x.notArray) :
    FPSimR ⟨T, parent, .keyValueSeparator, d⟩ (tokenKeyFast F T parent d) := by
  unfold tokenKeyFast
  have hpl := getElem?_lt_length hg
  refine FPSimR.withId rfl (by simp) ?_
  intro t2 d2 hr2
  simp only at hr2
  have hl2 := readId_length hr2
  split
  · rename_i ht; subst ht
    refine FPSimR.head (step_equal_kvs hr2) ?_
    refine FPSimR.withId rfl (by simp) ?_
    intro t3 d3 hr3
    simp only at hr3
    have hl3 := readId_length hr3
    split
    · rename_i ht; subst ht
      exact value_cont_sim hr3 tokenArm_i32 (fun _ _ _ h => parseFixed_err h)
    split
    · rename_i ht; subst ht
      refine FPSimR.head (step_open .objectValue hr3 (by decide) (by decide)) ?_
      have hp1 : (T ++ [BTok.array parent])[T.length]? = some (.array parent) := by simp
      have hg1 : (T ++ [BTok.array parent])[parent]? = some x := by
        rw [List.getElem?_append_left hpl]; exact hg
      refine FPSimR.withId rfl (by simp) ?_
      intro t4 d4 hr4
      simp only at hr4
      have hl4 := readId_length hr4
      split
      · rename_i ht; subst ht
        exact arrayField_sim .i32 F _ _ d3 d4 parent x hr4 (by omega) hp1 hpl hg1 hx
      split
      · rename_i ht; subst ht
        exact arrayField_sim .quoted F _ _ d3 d4 parent x hr4 (by omega) hp1 hpl hg1 hx
      split
      · rename_i ht; subst ht
        exact arrayField_sim .f32 F _ _ d3 d4 parent x hr4 (by omega) hp1 hpl hg1 hx
      split
      · rename_i hid
        have h4 := step_scalar_ok (tape := T ++ [BTok.array parent]) (parent := T.length) .openFirst hr4 (by decide)
          (tokenArm_plainId _ _ _ _ t4 hid (by decide)) rfl nextState_openFirst
        refine FPSimR.head h4 ?_
        refine FPSimR.withId rfl (by simp) ?_
        intro t5 d5 hr5
        simp only at hr5
        split
        · rename_i ht; subst ht
          have h5 := step_equal_openSecond (tape := T ++ [BTok.array parent] ++ [BTok.token t4]) (parent := T.length) hr5
          cases hso : setParentToObject (T ++ [BTok.array parent] ++ [BTok.token t4]) T.length with
          | error e =>
            simp only [hso] at h5 ⊢
            exact ⟨by rw [setParentToObject_err hso]; decide, Rejects.now (Or.inl h5)⟩
          | ok tape3 =>
            simp only [hso] at h5 ⊢
            refine FPSimR.head h5 ?_
            refine FPSimR.withId rfl (by simp) ?_
            intro t6 d6 hr6
            exact FPSimR.fallHere hr6
        · exact FPSimR.fallHere hr5
      · exact FPSimR.fallHere hr4
    split
    · rename_i ht; subst ht
      exact value_cont_sim hr3 tokenArm_quoted (fun _ _ _ h => parseQuoted_err h)
    split
    · rename_i ht; subst ht
      exact value_cont_sim hr3 tokenArm_f32 (fun _ _ _ h => parseFixed_err h)
    · exact FPSimR.fallHere hr3
  · exact FPSimR.fallHere hr2


theorem quotedKeyFast_sim (tape : Tape) (parent : Nat) (data d : Bytes) (hr : readId data = some (L.quoted, d)) :
    FPSim ⟨tape, parent, .key, data⟩ (quotedKeyFast tape parent d) := by
  unfold quotedKeyFast
  unfold FP.withParse
  cases hpe : parseQuoted tape d with
  | error e =>
    have h1 := step_scalar_err (parent := parent) .key hr (by decide) (tokenArm_quoted _ _ _ _) hpe
    exact ⟨by rw [parseQuoted_err hpe]; decide, Rejects.now (Or.inl h1)⟩
  | ok pr =>
    obtain ⟨tape1, d2⟩ := pr
    have h1 := step_scalar_ok (parent := parent) .key hr (by decide) (tokenArm_quoted _ _ _ _) hpe nextState_key
    refine FPSim.head h1 ?_
    refine FPSimR.withId rfl (by simp) ?_
    intro t2 d3 hr2
    simp only at hr2
    split
    · rename_i ht; subst ht
      refine FPSimR.head (step_equal_kvs hr2) ?_
      refine FPSimR.withId rfl (by simp) ?_
      intro t3 d4 hr3
      simp only at hr3
      split
      · rename_i ht; subst ht
        refine FPSimR.head (step_open .objectValue hr3 (by decide) (by decide)) ?_
        refine FPSimR.withId rfl (by simp) ?_
        intro t d' hr4
        simp only at hr4
        split
        · rename_i hid
          have h4 := step_scalar_ok (tape := tape1 ++ [BTok.array parent]) (parent := tape1.length) .openFirst hr4 (by decide)
            (tokenArm_plainId _ _ _ _ t (Or.inl hid) (by decide)) rfl nextState_openFirst
          refine FPSimR.head h4 ?_
          refine FPSimR.withId rfl (by simp) ?_
          intro t' d'' hr5
          simp only at hr5
          split
          · rename_i ht; subst ht
            have h5 := step_equal_openSecond (tape := tape1 ++ [BTok.array parent] ++ [BTok.token t]) (parent := tape1.length) hr5
            cases hso : setParentToObject (tape1 ++ [BTok.array parent] ++ [BTok.token t]) tape1.length with
            | error e =>
              simp only [hso] at h5 ⊢
              exact ⟨by rw [setParentToObject_err hso]; decide, Rejects.now (Or.inl h5)⟩
            | ok tape4 =>
              simp only [hso] at h5 ⊢
              refine FPSimR.head h5 ?_
              refine FPSimR.withId rfl (by simp) ?_
              intro t'' d''' hr6
              simp only at hr6
              split
              · rename_i ht; subst ht
                exact value_cont_sim hr6 tokenArm_bool (fun _ _ _ h => parseBool_err h)
              split
              · rename_i ht; subst ht
                exact value_cont_sim hr6 tokenArm_quoted (fun _ _ _ h => parseQuoted_err h)
              · exact FPSimR.fallHere hr6
          · exact FPSimR.fallHere hr5
        · exact FPSimR.fallHere hr4
      · exact FPSimR.fallHere hr3
    · exact FPSimR.fallHere hr2

theorem i32KeyFast_sim (tape : Tape) (parent : Nat) (data d : Bytes) (hr : readId data = some (L.i32, d)) :
    FPSim ⟨tape, parent, .key, data⟩ (i32KeyFast tape parent d) := by
  unfold i32KeyFast
  unfold FP.withParse
  cases hpe : parseI32 tape d with
  | error e =>
    have h1 := step_scalar_err (parent := parent) .key hr (by decide) (tokenArm_i32 _ _ _ _) hpe
    exact ⟨by rw [parseFixed_err hpe]; decide, Rejects.now (Or.inl h1)⟩
  | ok pr =>
    obtain ⟨tape1, d2⟩ := pr
    have h1 := step_scalar_ok (parent := parent) .key hr (by decide) (tokenArm_i32 _ _ _ _) hpe nextState_key
    refine FPSim.head h1 ?_
    refine FPSimR.withId rfl (by simp) ?_
    intro t2 d3 hr2
    simp only at hr2
    split
    · rename_i ht; subst ht
      refine FPSimR.head (step_equal_kvs hr2) ?_
      refine FPSimR.withId rfl (by simp) ?_
      intro t3 d4 hr3
      simp only at hr3
      split
      · rename_i ht; subst ht
        exact value_cont_sim hr3 tokenArm_i32 (fun _ _ _ h => parseFixed_err h)
      · exact FPSimR.fallHere hr3
    · exact FPSimR.fallHere hr2

theorem pushEnd_err {tape : Tape} {parent : Nat} {e : Err} (h : pushEnd tape parent = .error e) : e ≠ .fuel := by
  unfold pushEnd closeTo at h
  repeat' split at h
  all_goals first | (cases h; done) | (cases h; decide)

/-- the invariant the fast paths rely on: in `Key` position the parent slot does not hold an
`Array` (it is an `Object`, or — at top level — the first key), and lies inside the tape. -/
structure KeyInv (tape : Tape) (parent : Nat) : Prop where
  le : parent ≤ tape.length
  notArr : ∀ x, tape[parent]? = some x → x.notArray

theorem keyFast_sim (F : Nat) (tape : Tape) (parent : Nat) (data d : Bytes) (tok : Nat)
    (hr : readId data = some (tok, d)) (hF : data.length ≤ F) (hinv : KeyInv tape parent) :
    FPSim ⟨tape, parent, .key, data⟩ (keyFast F tape parent d tok) := by
  unfold keyFast
  have hl := readId_length hr
  split
  · rename_i h1
    split
    · rename_i h2
      have hid : isPlainId tok = true ∨ tok = 0xb := by
        rw [isPlainId_iff]
        simp only [L.unquoted, L.f64, L.u64, L.i64] at h1 h2
        omega
      have hs := step_scalar_ok (tape := tape) (parent := parent) .key hr (by decide)
        (tokenArm_plainId _ _ _ _ tok hid (by decide)) rfl nextState_key
      refine FPSim.head hs ?_
      rcases Nat.lt_or_ge parent tape.length with hlt | hge
      · have : tape[parent]? = some tape[parent] := List.getElem?_eq_getElem hlt
        refine tokenKeyFast_sim F _ parent d tape[parent] (by omega) ?_ (hinv.notArr _ this)
        rw [List.getElem?_append_left hlt]; exact this
      · have : parent = tape.length := Nat.le_antisymm hinv.le hge
        subst this
        exact tokenKeyFast_sim F _ _ d (.token tok) (by omega) (by simp) trivial
    · exact (FPSimR.fallHere hr : FPSimR _ _)
  split
  · rename_i ht; subst ht
    have hs := step_close (tape := tape) (parent := parent) .key hr (by decide) (by decide) (by decide)
    cases hpe : pushEnd tape parent with
    | error e =>
      simp only [hpe] at hs ⊢
      exact ⟨pushEnd_err hpe, Rejects.now (Or.inl hs)⟩
    | ok pr =>
      obtain ⟨a, b, c⟩ := pr
      simp only [hpe] at hs ⊢
      exact Reach1.single hs
  split
  · rename_i ht; subst ht
    exact quotedKeyFast_sim tape parent data d hr
  split
  · rename_i ht; subst ht
    exact i32KeyFast_sim tape parent data d hr
  · exact (FPSimR.fallHere hr : FPSimR _ _)

end Jomini.BinTape
