import JominiModel.Proofs.BinTapeInv
/-
C05 (binary tape parser): totality.  Under the parser invariant `TInv` every unchecked access,
`transmute` and `mixed_insert` site of tape.rs is guarded, and the loops end within the fuel.
Theorems for `Props/C05.lean`: `C05_bintape_no_ub_panic`, `C05_bintape_fuel_enough`.
-/
namespace Jomini.BinTape
open Jomini


/-- the two error kinds the Rust code returns as `Err(..)` -/
def Err.benign (e : Err) : Prop := e = .eof ∨ e = .syntax

theorem nextState_some (s : PState) : ∃ s', nextState s = some s' := by
  cases s <;> simp

theorem scalarArm_safe {r : Except Err (Tape × Bytes)} {parent : Nat} {state : PState} {e : Err}
    (hr : ∀ e, r = .error e → e.benign) (h : scalarArm r parent state = .error e) : e.benign := by
  unfold scalarArm at h
  cases r with
  | error e' => simp at h; subst h; exact hr _ rfl
  | ok p =>
    obtain ⟨t', d'⟩ := p
    obtain ⟨s', hs'⟩ := nextState_some state
    simp [hs'] at h

theorem parseUnquoted_err {tape : Tape} {d : Bytes} {e : Err} (h : parseUnquoted tape d = .error e) : e = .eof := by
  unfold parseUnquoted at h
  split at h
  · cases h; rfl
  · cases h

theorem readRgb_err {d : Bytes} {e : Err} (h : readRgb d = .error e) : e.benign := by
  unfold readRgb at h
  repeat' split at h
  all_goals first | (cases h; done) | (cases h; exact Or.inl rfl) | (cases h; exact Or.inr rfl)

theorem openArm_safe {tape : Tape} {parent : Nat} {state : PState} {d : Bytes} {e : Err}
    (h : openArm tape parent state d = .error e) : e.benign := by
  unfold openArm at h
  repeat' split at h
  all_goals first | (cases h; done) | (cases h; exact Or.inl rfl) | (cases h; exact Or.inr rfl)

/-- the enclosing-container index stored in the innermost open container lies inside the tape -/
theorem OpenAt.parent_lt {p : Nat} {tape : Tape} (h : OpenAt p tape) (hp : p ≠ 0) : p < tape.length := by
  obtain ⟨g, pre, t, seg, rfl, hl, _, _, _⟩ := h.pos hp
  simp; omega

theorem pushEnd_safe {tape : Tape} {p : Nat} {e : Err} (h : pushEnd tape p = .error e) (ho : OpenAt p tape) :
    e.benign := by
  by_cases hp : p = 0
  · subst hp
    unfold pushEnd at h
    split at h
    · rename_i g hg; have := ho.zero_slot _ hg; simp [BTok.isPlain] at this
    · rename_i g hg; have := ho.zero_slot _ hg; simp [BTok.isPlain] at this
    · cases h; exact Or.inr rfl
  · obtain ⟨g, pre, t, seg, rfl, hl, ht, hg, hseg⟩ := ho.pos hp
    have hidx : (pre ++ t :: seg)[p]? = some t := by rw [← hl]; simp
    have hgl : g < pre.length ∨ g = 0 := by
      by_cases hg0 : g = 0
      · exact Or.inr hg0
      · exact Or.inl (hg.parent_lt hg0)
    have hsome : ∀ y z, ∃ w, ((pre ++ t :: seg).set p y ++ [z])[g]? = some w := by
      intro y z
      have : g < ((pre ++ t :: seg).set p y ++ [z]).length := by simp; omega
      exact ⟨_, List.getElem?_eq_getElem this⟩
    unfold pushEnd at h
    rw [hidx] at h
    rcases ht with rfl | rfl
    · simp only at h
      obtain ⟨w, hw⟩ := hsome (.array (pre ++ BTok.array g :: seg).length) (.end_ p)
      unfold closeTo at h
      rw [hw] at h
      cases w <;> simp at h
    · simp only at h
      obtain ⟨w, hw⟩ := hsome (.object (pre ++ BTok.object g :: seg).length) (.end_ p)
      unfold closeTo at h
      rw [hw] at h
      cases w <;> simp at h

theorem closeArm_safe {tape : Tape} {parent : Nat} {state : PState} {d : Bytes} {e : Err}
    (h : closeArm tape parent state d = .error e) (hs : state ≠ .objectToArray) (hi : TInv tape parent state) :
    e.benign := by
  unfold closeArm at h
  simp only at h
  have key : ∀ tape1, OpenAt parent tape1 →
      (match pushEnd tape1 parent with
        | .error e => (Except.error e : Except Err St)
        | .ok (tape', parent', state') => Except.ok ⟨tape', parent', state', d⟩) = Except.error e →
      e.benign := by
    intro tape1 ho hh
    cases hp : pushEnd tape1 parent with
    | error e' => simp [hp] at hh; subst hh; exact pushEnd_safe hp ho
    | ok p => obtain ⟨a, b, c⟩ := p; simp [hp] at hh
  cases state
  case keyValueSeparator =>
    obtain ⟨⟨t0, x, rfl, hx, ho⟩, _, _⟩ := hi
    have hm : mixedInsert1 (t0 ++ [x]) = .ok (t0 ++ [.mixed, x]) := by
      simp [mixedInsert1, pop?]
    simp only [hm] at h
    refine key _ ?_ h
    have : t0 ++ [BTok.mixed, x] = t0 ++ [BTok.mixed] ++ [x] := by simp
    rw [this]; exact (ho.snoc_plain rfl).snoc_plain hx
  case objectValue => simp at h; subst h; exact Or.inr rfl
  case objectToArray => exact absurd rfl hs
  all_goals exact key _ hi.openAt h

theorem equalArm_safe {tape : Tape} {parent : Nat} {state : PState} {d : Bytes} {e : Err}
    (h : equalArm tape parent state d = .error e) (hi : TInv tape parent state) : e.benign := by
  have ho := hi.openAt
  obtain ⟨h1, h2, h3⟩ := hi
  unfold equalArm at h
  split at h
  · cases h
  · obtain ⟨g, hg⟩ := h2 (Or.inr (Or.inr rfl))
    simp [setParentToObject, hg] at h
  · cases h
  · obtain ⟨g, hg⟩ := h2 (Or.inl rfl)
    cases hp : pop? tape with
    | none =>
      have : tape ≠ [] := by intro he; subst he; simp at hg
      unfold pop? at hp
      cases hl : tape.getLast? with
      | none => exact absurd (List.getLast?_eq_none_iff.mp hl) this
      | some x => simp [hl] at hp
    | some p =>
      obtain ⟨t1, last⟩ := p
      have ht := pop?_length hp
      subst ht
      simp only [hp] at h
      obtain ⟨hpne, pre, seg, hdec, hl, hgo, hseg⟩ := setParent_open ho hg
      split at h
      · cases h; exact Or.inr rfl
      · cases h; exact Or.inr rfl
      · rename_i hna hne
        split at h
        · -- only_empties: the parent slot of the popped tape is still the `Array`
          have hidx : t1[parent]? = some (.array g) := by
            rcases List.eq_nil_or_concat seg with hs | ⟨seg1, y, hs⟩
            · subst hs
              have := List.append_inj_right' (show t1 ++ [last] = pre ++ [BTok.array g] from hdec) (by simp)
              simp at this; exact absurd this (hna g)
            · rw [List.concat_eq_append] at hs; subst hs
              have e1 : t1 ++ [last] = (pre ++ BTok.array g :: seg1) ++ [y] := by simpa using hdec
              have e2 := List.append_inj_left' e1 (by simp)
              subst e2; rw [← hl]; simp
          simp [setParentToObject, hidx] at h
        · cases h
  · cases h; exact Or.inr rfl

theorem tokenArm_safe {tape : Tape} {parent : Nat} {state : PState} {d : Bytes} {tok : Nat} {e : Err}
    (h : tokenArm false 0 tape parent state d tok = .error e) (hs : state ≠ .objectToArray)
    (hi : TInv tape parent state) : e.benign := by
  have fx : ∀ n mk e, parseFixed n mk tape d = .error e → e.benign :=
    fun _ _ _ hh => Or.inl (parseFixed_err hh)
  unfold tokenArm at h
  by_cases c1 : tok = L.u32
  · rw [if_pos c1] at h; exact scalarArm_safe (fx _ _) h
  rw [if_neg c1] at h
  by_cases c2 : tok = L.u64
  · rw [if_pos c2] at h; exact scalarArm_safe (fx _ _) h
  rw [if_neg c2] at h
  by_cases c3 : tok = L.i32
  · rw [if_pos c3] at h
    cases hsa : scalarArm (parseI32 tape d) parent state with
    | error e' => simp [hsa] at h; subst h; exact scalarArm_safe (fx _ _) hsa
    | ok st => simp [hsa] at h
  rw [if_neg c3] at h
  by_cases c4 : tok = L.bool
  · rw [if_pos c4] at h; exact scalarArm_safe (fun _ hh => Or.inl (parseBool_err hh)) h
  rw [if_neg c4] at h
  by_cases c5 : tok = L.quoted
  · rw [if_pos c5] at h; exact scalarArm_safe (fun _ hh => Or.inl (parseQuoted_err hh)) h
  rw [if_neg c5] at h
  by_cases c6 : tok = L.unquoted
  · rw [if_pos c6] at h; exact scalarArm_safe (fun _ hh => Or.inl (parseUnquoted_err hh)) h
  rw [if_neg c6] at h
  by_cases c7 : tok = L.f32
  · rw [if_pos c7] at h; exact scalarArm_safe (fx _ _) h
  rw [if_neg c7] at h
  by_cases c8 : tok = L.f64
  · rw [if_pos c8] at h; exact scalarArm_safe (fx _ _) h
  rw [if_neg c8] at h
  by_cases c9 : tok = L.open_
  · rw [if_pos c9] at h; exact openArm_safe h
  rw [if_neg c9] at h
  by_cases c10 : tok = L.close
  · rw [if_pos c10] at h; exact closeArm_safe h hs hi
  rw [if_neg c10] at h
  by_cases c11 : tok = L.equal
  · rw [if_pos c11] at h; exact equalArm_safe h hi
  rw [if_neg c11] at h
  by_cases c12 : tok = L.rgb ∧ state = .objectValue
  · rw [if_pos c12] at h
    unfold parseRgb at h
    cases hr : readRgb d with
    | error e' => simp [hr] at h; subst h; exact readRgb_err hr
    | ok p => obtain ⟨t, rest⟩ := p; simp [hr] at h
  rw [if_neg c12] at h
  by_cases c13 : tok = L.i64
  · rw [if_pos c13] at h; exact scalarArm_safe (fx _ _) h
  rw [if_neg c13] at h
  exact scalarArm_safe (fun _ hh => by cases hh) h

theorem dispatch_safe {tape : Tape} {parent : Nat} {state : PState} {d : Bytes} {tok : Nat} {e : Err}
    (h : dispatch false 0 tape parent state d tok = .error e) (hi : TInv tape parent state) : e.benign := by
  unfold dispatch at h
  split at h
  · rename_i hs; subst hs
    obtain ⟨⟨t0, x, y, rfl, hx, hy, ho⟩, _, _⟩ := hi
    have hm : mixedInsert2 (t0 ++ [x, y]) = .ok (t0 ++ [.mixed, x, y]) := by
      have e1 : pop? (t0 ++ [x, y]) = some (t0 ++ [x], y) := by
        have : t0 ++ [x, y] = (t0 ++ [x]) ++ [y] := by simp
        rw [this]; simp [pop?]
      have e2 : pop? (t0 ++ [x]) = some (t0, x) := by simp [pop?]
      simp [mixedInsert2, e1, e2]
    simp only [hm] at h
    refine tokenArm_safe h (by decide) ⟨?_, by simp, by simp⟩
    have : t0 ++ [BTok.mixed, x, y] = t0 ++ [BTok.mixed] ++ [x] ++ [y] := by simp
    simp only; rw [this]
    exact ((ho.snoc_plain rfl).snoc_plain hx).snoc_plain hy
  · rename_i hs
    exact tokenArm_safe h hs hi

/-- under the parser invariant an iteration of the plain loop fails only with `eof` / `syntax`:
every `get_unchecked`, `unwrap_unchecked`, `unreachable_unchecked`, `transmute` and
`mixed_insert` site is guarded -/
theorem step_safe {st : St} {e : Err} (h : step st = .err e) (hi : TInv st.tape st.parent st.state) : e.benign := by
  cases hr : readId st.data with
  | none => rw [step_done hr] at h; cases h
  | some p =>
    obtain ⟨tok, d⟩ := p
    rw [step_eq hr] at h
    cases hd : dispatch false 0 st.tape st.parent st.state d tok with
    | error e' => simp [hd, Iter.ofExcept] at h; subst h; exact dispatch_safe hd hi
    | ok s => simp [hd, Iter.ofExcept] at h

theorem res_safe {st : St} {r : Except Err Tape} (h : Res st r) :
    TInv st.tape st.parent st.state → ∀ e, r = .error e → e.benign := by
  induction h with
  | done hd =>
    intro _ e he
    unfold finish at he
    split at he
    · cases he
    · cases he; exact Or.inl rfl
  | err hs => intro hi e he; cases he; exact step_safe hs hi
  | next hs _ ih => intro hi e he; exact ih (step_inv hs hi) e he

/-- with at least `|data| + 1` iterations and inner-loop fuel, every run computes the plain result -/
theorem run_res (opt : Bool) (data : Bytes) (F n : Nat) (hF : data.length + 1 ≤ F) (hn : data.length + 1 ≤ n) :
    Res (init data) (run opt F n (init data)) := by
  cases opt
  · exact run_false_res F n (init data) (by simpa [init] using hn) (init_good data)
  · exact run_true_res F n (init data) (by simpa [init] using hn) (by simp [init]; omega) (init_good data)

/-- **C05 (binary tape parser): no undefined behaviour, no panic.**  For every byte string and
both parsers the outcome is a tape, `eof` or `syntax`. -/
theorem C05_bintape_no_ub_panic (opt : Bool) (data : Bytes) :
    parse opt data ≠ .error .ub ∧ parse opt data ≠ .error .panic := by
  have hres : Res (init data) (parse opt data) := run_res opt data _ _ (Nat.le_refl _) (Nat.le_refl _)
  have hs := res_safe hres (init_inv data)
  constructor
  · intro h; rcases hs _ h with h' | h' <;> cases h'
  · intro h; rcases hs _ h with h' | h' <;> cases h'

/-- **C05 (binary tape parser): termination within the fuel.**  The driver supplies
`|data| + 1` outer iterations and `|data| + 1` inner-loop fuel; that is never exhausted, and any
larger amounts give the same result (the fuel is not observable). -/
theorem C05_bintape_fuel_enough (opt : Bool) (data : Bytes) :
    parse opt data ≠ .error .fuel ∧
    ∀ F n, data.length + 1 ≤ F → data.length + 1 ≤ n → run opt F n (init data) = parse opt data := by
  have hres : Res (init data) (parse opt data) := run_res opt data _ _ (Nat.le_refl _) (Nat.le_refl _)
  constructor
  · intro h; rcases res_safe hres (init_inv data) _ h with h' | h' <;> cases h'
  · intro F n hF hn
    exact Res.det (run_res opt data F n hF hn) hres

end Jomini.BinTape
