import JominiModel.Proofs.WriterBinary
import JominiModel.Proofs.WriterGenParse
import JominiModel.Proofs.TextDocFullEmbed
/-
Mixed mode, parser side (C15_mixed_parse_back): what a scalar-only mixed-mode call list writes
(`MixedDoc.text`, `lexemes_mixed`) is a valid layout of the text-tape slice's FULL document type
(`FFields`: an array that turns into key-value pairs, `FVal.arrSM`), so `faithful_full` gives the tape.
-/
namespace Jomini.WriterParse
open Jomini Jomini.Writer.Spec Jomini.TextTape

/-- the further elements of the array, one blank in front of each -/
def elemVals : List SCall → FVals
  | [] => .nil
  | e :: r => .cons (.scal [32] e.scal) (elemVals r)

/-- the pairs behind the first operator: ` key`, the operator glued, the value glued -/
def pairItems : List (SCall × Writer.Op × SCall) → FItems
  | [] => .nil
  | (a, o, b) :: r => .scal [32] a.scal (.op [] (opTT o) (.scal [] b.scal (pairItems r)))

/-- the writer's layout of a mixed-mode call list -/
def mixedLay (c : UInt8) (f : Nat) (d : MixedDoc) : FFields :=
  match d.pairs with
  | [] => .cons [] d.key.scal [] .eq (.arrS [] (nlInd c f 1) d.first.scal (elemVals d.rest) [10]) .nil
  | (a, o, b) :: ps =>
    .cons [] d.key.scal [] .eq
      (.arrSM [] (nlInd c f 1) d.first.scal (elemVals d.rest) [32] a.scal [] (opTT o)
        (.scal [] b.scal (pairItems ps)) [10]) .nil

theorem render_elemVals : ∀ r : List SCall, frenderVs (elemVals r) = elemsText r
  | [] => rfl
  | e :: r => by simp [elemVals, frenderVs, frenderV, elemsText, render_elemVals r]

theorem render_pairItems : ∀ ps : List (SCall × Writer.Op × SCall), frenderI (pairItems ps) = pairsText ps
  | [] => rfl
  | (a, o, b) :: r => by
    simp [pairItems, frenderI, pairsText, render_pairItems r, Writer.opTT_text]

theorem render_mixedLay (c : UInt8) (f : Nat) (d : MixedDoc) : frenderF (mixedLay c f d) = d.text c f := by
  obtain ⟨key, first, rest, pairs⟩ := d
  cases pairs with
  | nil => simp [mixedLay, frenderF, frenderV, render_elemVals, MixedDoc.text, pairsText, nlInd, Op.text]
  | cons p ps =>
    obtain ⟨a, o, b⟩ := p
    simp only [mixedLay, frenderF, frenderV, frenderI, render_elemVals, render_pairItems, MixedDoc.text, pairsText,
      nlInd, Writer.opTT_text]
    simp [Op.text, List.append_assoc]

/-! ### the described tape -/

theorem cnt_elemVals : ∀ r : List SCall, fcntVs (elemVals r) = r.length
  | [] => rfl
  | e :: r => by simp [elemVals, fcntVs, fcntV, cnt_elemVals r]; omega

theorem cnt_pairItems : ∀ ps : List (SCall × Writer.Op × SCall), fcntI (pairItems ps) = 3 * ps.length
  | [] => rfl
  | (a, o, b) :: r => by simp [pairItems, fcntI, cnt_pairItems r]; omega

theorem dtape_elemVals : ∀ (r : List SCall) (b : Nat), dtapeVs (elemVals r) b = elemToksS r
  | [], _ => rfl
  | e :: r, b => by simp [elemVals, dtapeVs, dtapeV, elemToksS, dtape_elemVals r]

theorem dtape_pairItems : ∀ (ps : List (SCall × Writer.Op × SCall)) (b : Nat), dtapeI (pairItems ps) b = pairToks ps
  | [], _ => rfl
  | (a, o, b) :: r, n => by simp [pairItems, dtapeI, pairToks, dtape_pairItems r]

theorem dtape_mixedLay (c : UInt8) (f : Nat) (d : MixedDoc) : dtapeF (mixedLay c f d) 0 = mixedTape d := by
  obtain ⟨key, first, rest, pairs⟩ := d
  cases pairs with
  | nil =>
    simp [mixedLay, mixedTape, dtapeF, dtapeV, Op.toks, cnt_elemVals, dtape_elemVals]
  | cons p ps =>
    obtain ⟨a, o, b⟩ := p
    simp [mixedLay, mixedTape, dtapeF, dtapeV, dtapeI, Op.toks, cnt_elemVals, dtape_elemVals, fcntI, cnt_pairItems,
      dtape_pairItems, pairToks]
    omega

/-! ### the layout is valid -/

/-- `peek_scalX` with the weaker side condition: only the bare `?` may not be followed by `=` -/
theorem peek_scalQ {s : Scal} (hs : s.ValidX) (X : Bytes) (hX : s.text = [63] → X.head? ≠ some 61) :
    firstFieldPeek (s.text ++ X) = false := by
  rcases hs with h | ⟨hq, r, hb, _⟩ | ⟨hq, body, hb, _⟩
  · unfold Scal.Valid at h
    unfold Scal.text at hX ⊢
    cases hq : s.quoted with
    | true => simp [firstFieldPeek]
    | false =>
      simp only [hq, Bool.false_eq_true, if_false] at h hX ⊢
      obtain ⟨hb, c, r, hbytes, _, _, _⟩ := h
      have hc : isBoundary c = false := hb c (by simp [hbytes])
      have h61 : c ≠ 61 := by rintro rfl; simp [bnd_eq] at hc
      have h62 : c ≠ 62 := by rintro rfl; simp [bnd_gt] at hc
      have h60 : c ≠ 60 := by rintro rfl; simp [bnd_lt] at hc
      have h33 : c ≠ 33 := by rintro rfl; simp [bnd_bang] at hc
      rw [hbytes] at hX ⊢
      simp only [List.cons_append, firstFieldPeek, h61, h62, h60, h33, false_or, or_self, decide_false,
        Bool.false_or]
      cases r with
      | nil =>
        by_cases h63 : c = 63
        · subst h63; simpa using hX rfl
        · simp [h63]
      | cons c2 r2 =>
        have hc2 : isBoundary c2 = false := hb c2 (by simp [hbytes])
        have : c2 ≠ 61 := by rintro rfl; simp [bnd_eq] at hc2
        simp [this]
  · simp [Scal.text, hq, hb, firstFieldPeek]
  · simp [Scal.text, hq, hb, firstFieldPeek]

theorem head_ne_eq {s : Scal} (hs : s.ValidX) (X : Bytes) : (s.text ++ X).head? ≠ some 61 := by
  obtain ⟨c, r, h, _, _, _, _, _, _, h61, _⟩ := hs.head
  rw [h]; simpa using h61

theorem sb_elemsText (r : List SCall) (X : Bytes) (hX : StartsBoundary X) : StartsBoundary (elemsText r ++ X) := by
  cases r with
  | nil => simpa [elemsText] using hX
  | cons e r' => exact sb_of_head (c := 32) (by simp [elemsText]) Writer.bnd_sp

theorem valid_elemVals : ∀ (r : List SCall) (X : Bytes), (∀ e ∈ r, e.ValidX) → StartsBoundary X →
    FValidVs (elemVals r) X
  | [], _, _, _ => trivial
  | e :: r, X, h, hX => by
    refine ⟨⟨Writer.blank_sp, Writer.scall_validX e (h e (by simp)), fun _ => ?_⟩,
      valid_elemVals r X (fun x hx => h x (by simp [hx])) hX⟩
    rw [render_elemVals]
    exact sb_elemsText r X hX

theorem sb_opText (o : Writer.Op) (ho : o ≠ .exists) (X : Bytes) : StartsBoundary ((opTT o).text ++ X) := by
  cases o
  · exact sb_of_head (c := 60) (by simp [opTT, Op.text]) bnd_lt
  · exact sb_of_head (c := 60) (by simp [opTT, Op.text]) bnd_lt
  · exact sb_of_head (c := 62) (by simp [opTT, Op.text]) bnd_gt
  · exact sb_of_head (c := 62) (by simp [opTT, Op.text]) bnd_gt
  · exact sb_of_head (c := 33) (by simp [opTT, Op.text]) bnd_bang
  · exact sb_of_head (c := 61) (by simp [opTT, Op.text]) bnd_eq
  · exact sb_of_head (c := 61) (by simp [opTT, Op.text]) bnd_eq
  · exact absurd rfl ho

theorem opTT_ne_exists (o : Writer.Op) (ho : o ≠ .exists) : opTT o ≠ .exists_ := by
  cases o <;> simp [opTT] at ho ⊢

theorem sb_pairsText (ps : List (SCall × Writer.Op × SCall)) (X : Bytes) (hX : StartsBoundary X) :
    StartsBoundary (pairsText ps ++ X) := by
  cases ps with
  | nil => simpa [pairsText] using hX
  | cons p r =>
    obtain ⟨a, o, b⟩ := p
    exact sb_of_head (c := 32) (by simp [pairsText]) Writer.bnd_sp

theorem valid_pairItems : ∀ (ps : List (SCall × Writer.Op × SCall)) (X : Bytes),
    (∀ p ∈ ps, p.1.ValidX ∧ p.2.1 ≠ .exists ∧ p.2.2.ValidX) → StartsBoundary X → FValidI (pairItems ps) X
  | [], _, _, _ => trivial
  | (a, o, b) :: r, X, h, hX => by
    obtain ⟨ha, ho, hb⟩ := h (a, o, b) (by simp)
    have hr := valid_pairItems r X (fun p hp => h p (by simp [hp])) hX
    simp only [pairItems, FValidI, frenderI, render_pairItems, List.nil_append]
    refine ⟨Writer.blank_sp, Writer.scall_validX a ha, fun _ => ?_, .nil, opTT_ne_exists o ho, fun _ => ?_,
      .nil, Writer.scall_validX b hb, fun _ => ?_, hr⟩
    · simpa [List.append_assoc] using sb_opText o ho (b.scal.text ++ (pairsText r ++ X))
    · simpa [List.append_assoc] using head_ne_eq (Writer.scall_validX b hb) (pairsText r ++ X)
    · exact sb_pairsText r X hX

/-- what follows the first scalar of the array is never taken for an operator -/
theorem peek_elemsText (rest : List SCall) (hr : ∀ e ∈ rest, e.ValidX) (Y : Bytes) (hYh : Y.head? ≠ some 61)
    (hY : rest = [] → ∀ d2, skipWs Y = some d2 → firstFieldPeek d2 = false) :
    ∀ d2, skipWs (elemsText rest ++ Y) = some d2 → firstFieldPeek d2 = false := by
  intro d2 hd2
  cases rest with
  | nil => exact hY rfl d2 (by simpa [elemsText] using hd2)
  | cons e r =>
    have he := Writer.scall_validX e (hr e (by simp))
    have h1 : elemsText (e :: r) ++ Y = [32] ++ (e.scal.text ++ (elemsText r ++ Y)) := by
      simp [elemsText, List.append_assoc]
    rw [h1, skipWs_blank Writer.blank_sp, skipWs_scalX he] at hd2
    cases hd2
    apply peek_scalX he
    cases r with
    | nil => simpa [elemsText] using hYh
    | cons e' r' => simp [elemsText]

theorem valid_mixedLay (c : UInt8) (f : Nat) (hc : isBlank c = true) (d : MixedDoc) (hd : d.Good) :
    FValidF (mixedLay c f d) [] := by
  obtain ⟨key, first, rest, pairs⟩ := d
  obtain ⟨hk, hf, hr, hp, hq⟩ := hd
  simp only at hk hf hr hp hq
  have hclose : StartsBoundary ([10] ++ 125 :: ([] : Bytes)) := sb_of_head (c := 10) (by simp) Writer.bnd_nl
  cases pairs with
  | nil =>
    simp only [mixedLay, FValidF, FValidV, frenderF, render_elemVals, List.append_nil]
    refine ⟨.nil, .nil, Writer.scall_validX key hk, fun _ => sb_of_head (c := 61) (by simp [Op.text]) bnd_eq,
      ⟨.nil, blank_nlInd c hc f 1, Writer.blank_nl, Writer.scall_validX first hf, fun _ => ?_, ?_, ?_⟩, trivial⟩
    · exact sb_elemsText rest _ hclose
    · apply peek_elemsText rest hr _ (by simp)
      intro _ d2 hd2
      rw [skipWs_blank Writer.blank_nl] at hd2
      simp [skipWs, skipWsAux, blank_close] at hd2
      rw [← hd2]; simp [firstFieldPeek]
    · exact valid_elemVals rest _ hr hclose
  | cons p ps =>
    obtain ⟨a, o, b⟩ := p
    obtain ⟨ha, ho, hb⟩ := hp (a, o, b) (by simp)
    have hps := valid_pairItems ps ([10] ++ 125 :: []) (fun p hp' => hp p (by simp [hp'])) hclose
    simp only [mixedLay, FValidF, FValidV, FValidI, frenderF, frenderI, render_elemVals, render_pairItems,
      List.append_nil, List.nil_append]
    refine ⟨.nil, .nil, Writer.scall_validX key hk, fun _ => sb_of_head (c := 61) (by simp [Op.text]) bnd_eq,
      ⟨.nil, blank_nlInd c hc f 1, Writer.blank_sp, .nil, Writer.blank_nl, Writer.scall_validX first hf, fun _ => ?_, ?_, ?_,
        Writer.scall_validX a ha, fun _ => ?_, opTT_ne_exists o ho, fun _ => ?_,
        .nil, Writer.scall_validX b hb, fun _ => ?_, hps⟩, trivial⟩
    · exact sb_elemsText rest _ (sb_of_head (c := 32) (by simp) Writer.bnd_sp)
    · apply peek_elemsText rest hr _ (by simp)
      intro hrest d2 hd2
      rw [skipWs_blank Writer.blank_sp, skipWs_scalX (Writer.scall_validX a ha)] at hd2
      cases hd2
      apply peek_scalQ (Writer.scall_validX a ha)
      intro h63
      exact absurd h63 (hq hrest (a, o, b) (by simp))
    · exact valid_elemVals rest _ hr (sb_of_head (c := 32) (by simp) Writer.bnd_sp)
    · exact sb_opText o ho _
    · rw [List.append_assoc]; exact head_ne_eq (Writer.scall_validX b hb) _
    · exact sb_pairsText ps _ hclose

/-- the text of a scalar-only mixed-mode call list parses to exactly what the calls describe -/
theorem parse_mixedText (c : UInt8) (f : Nat) (hc : isBlank c = true) (d : MixedDoc) (hd : d.Good)
    (hb : hasBom (d.text c f) = false) :
    ∃ T, parse (d.text c f) = .ok T false ∧ T.map Tok.erase = mixedTape d := by
  have hr := render_mixedLay c f d
  obtain ⟨T, hp, he⟩ := faithful_full (mixedLay c f d) [] .nil (valid_mixedLay c f hc d hd)
    (by rw [List.append_nil, hr]; exact hb)
  simp only [List.append_nil] at hp
  rw [hr] at hp
  rw [dtape_mixedLay] at he
  exact ⟨T, hp, he⟩

end Jomini.WriterParse
