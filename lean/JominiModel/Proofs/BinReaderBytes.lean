import JominiModel.Proofs.BinLexerTotal
/-
`TokenReader::read_bytes` (reader.rs:94): the refill loop, the raw slice it returns, and its
composition with `next()`.
-/
namespace Jomini.BinReader
open Jomini Jomini.BinLexer

/-- what a `read_bytes(n)` call may return, relative to the bytes still to be seen -/
def BytesPost (data : Bytes) (n : Nat) (rd : Reader) (res : Except ReaderError Bytes) (rd' : Reader) : Prop :=
  match res with
  | .ok b => b = (rd.remaining data).take n ∧ n ≤ (rd.remaining data).length ∧
      rd'.position = rd.position + n ∧ rd'.remaining data = (rd.remaining data).drop n ∧
      (rd.buf.cap = 0 ∨ n ≤ rd.buf.cap)
  | .error e =>
    e.position = rd'.position ∧ rd'.position = rd.position ∧
    (match e.kind with
     | .lexer .eof => (rd.remaining data).length < n ∧ rd'.src.rest = [] ∧
         (rd.buf.cap = 0 ∨ (rd.remaining data).length < rd.buf.cap)
     | .bufferFull => 0 < rd.buf.cap ∧ rd.buf.cap < n ∧ rd.buf.cap ≤ (rd.remaining data).length
     | .read => True
     | .lexer .invalidRgb => False
     | .ub => False
     | .fuel => False)

theorem window_le_cap {rd : Reader} {data : Bytes} (h : RInv rd data) (hc : 0 < rd.buf.cap) :
    rd.buf.windowLen ≤ rd.buf.cap := by
  have := h.buf.em
  rcases h.buf.mode with hm | hm
  · simp only [Buf.windowLen]; omega
  · omega

/-- one `read_bytes` call, any well-formed schedule (faults included) -/
theorem readBytes_spec (data : Bytes) (n fuel : Nat) (rd : Reader) (h : RInv rd data)
    (hfuel : rd.src.rest.length < fuel) :
    RInv (Reader.readBytesLoop fuel rd n).2 data ∧ (Reader.readBytesLoop fuel rd n).2.buf.cap = rd.buf.cap ∧
    BytesPost data n rd (Reader.readBytesLoop fuel rd n).1 (Reader.readBytesLoop fuel rd n).2 := by
  induction fuel generalizing rd with
  | zero => omega
  | succ fuel ih =>
    have hrem := remaining_eq h
    have hwl : rd.buf.window.length = rd.buf.windowLen := Buf.window_length h.buf.se h.buf.em
    have hlenrem := remaining_length h
    unfold Reader.readBytesLoop
    by_cases hlt : rd.buf.windowLen < n
    · rw [if_pos hlt]
      rcases Buf.fillBuf_cases rd.buf rd.src data h.buf h.wf with
        ⟨hc0, hfb⟩ | ⟨hcpos, hfull, hfb⟩ | ⟨hcpos, hlt2, k, b', src', hfb, hinv', hpos', hcap', hwin', hwl', hrest', hn, hdel', hwf', hz⟩ |
        ⟨hcpos, hlt2, b', src', hfb, hinv', hpos', hcap', hwin', hwl', hrest', hdel', hwf'⟩
      · -- slice mode: nothing more will come
        have hs := h.slice hc0
        rw [hfb]
        simp only [if_true]
        refine ⟨h, by simp, ?_⟩
        simp only [BytesPost, Reader.lexError]
        refine ⟨trivial, trivial, ?_, hs, Or.inl hc0⟩
        rw [hlenrem, hs]; simp; exact hlt
      · rw [hfb]
        refine ⟨h, rfl, ?_⟩
        simp only [BytesPost, Reader.bufferError]
        exact ⟨trivial, trivial, hcpos, by omega, by omega⟩
      · rw [hfb]
        simp only
        have hrd' := rinv_fill h hcpos hinv' hpos' hcap' hwl' hdel' hwf'
        by_cases hk0 : k = 0
        · rw [if_pos hk0]
          have hs := hz hk0
          have hs' : src'.rest = [] := by rw [hrest', hs]; simp
          refine ⟨hrd', hcap', ?_⟩
          simp only [BytesPost, Reader.lexError, Reader.position]
          refine ⟨trivial, hpos', ?_, hs', Or.inr ?_⟩
          · rw [hlenrem, hs]; simp; exact hlt
          · rw [hlenrem, hs]; simp; exact hlt2
        · rw [if_neg hk0]
          have hposeq : ({ src := src', buf := b' } : Reader).position = rd.position := hpos'
          have hremeq : ({ src := src', buf := b' } : Reader).remaining data = rd.remaining data := by
            simp only [Reader.remaining, hposeq]
          obtain ⟨i1, i2, i3⟩ := ih { src := src', buf := b' } hrd'
            (by simp only; rw [hrest', List.length_drop]; omega)
          refine ⟨i1, by rw [i2]; exact hcap', ?_⟩
          revert i3
          generalize (Reader.readBytesLoop fuel { src := src', buf := b' } n).1 = res
          generalize (Reader.readBytesLoop fuel { src := src', buf := b' } n).2 = rd2
          intro i3
          unfold BytesPost at *
          rw [hremeq, hposeq] at i3
          simp only [hcap'] at i3
          exact i3
      · rw [hfb]
        simp only
        have hrd' := rinv_fill (n := 0) h hcpos hinv' hpos' hcap' (by rw [hwl']; rfl) (by rw [hdel']; rfl) hwf'
        refine ⟨hrd', hcap', ?_⟩
        simp only [BytesPost, Reader.bufferError, Reader.position]
        exact ⟨trivial, hpos', trivial⟩
    · -- the window holds the n bytes: raw slice at `start`, then advance
      rw [if_neg hlt]
      have hle : n ≤ rd.buf.windowLen := by omega
      obtain ⟨b', hadv, hinv', hwin', hpos', hcap', hwl'⟩ :=
        Buf.advance_refines rd.buf rd.src data h.buf n hle
      simp only [hadv]
      have hraw : (rd.buf.mem.drop rd.buf.start).take n = rd.buf.window.take n := by
        simp only [Buf.window, List.take_take]
        congr 1
        omega
      have hl2 : (rd.remaining data).length = data.length - rd.position := by
        simp [Reader.remaining]
      have hple := h.ple
      have hpos2 : ({ rd with buf := b' } : Reader).position = rd.position + n := hpos'
      refine ⟨⟨hinv', h.wf, fun hc => h.slice (by rw [← hcap']; exact hc), fun hc => ?_, ?_⟩, hcap', ?_⟩
      · have := h.deliv (by rw [← hcap']; exact hc)
        simp only [Reader.position] at *
        rw [this, hpos', hwl']; omega
      · rw [hpos2]; omega
      · simp only [BytesPost]
        refine ⟨?_, by omega, hpos2, ?_, ?_⟩
        · rw [hraw, hrem, List.take_append_of_le_length (by rw [hwl]; exact hle)]
        · simp only [Reader.remaining]
          rw [hpos2, ← List.drop_drop]
        · by_cases hc0 : rd.buf.cap = 0
          · exact Or.inl hc0
          · have := window_le_cap h (by omega)
            exact Or.inr (by omega)

theorem readBytes_nofaults (fuel n : Nat) (rd : Reader) (h : Src.NoFaults rd.src.sched) :
    (∀ p, (Reader.readBytesLoop fuel rd n).1 ≠ .error ⟨p, .read⟩) ∧
    Src.NoFaults (Reader.readBytesLoop fuel rd n).2.src.sched := by
  induction fuel generalizing rd with
  | zero => simp [Reader.readBytesLoop, h]
  | succ fuel ih =>
    unfold Reader.readBytesLoop
    by_cases hlt : rd.buf.windowLen < n
    · rw [if_pos hlt]
      obtain ⟨f1, f2⟩ := fillBuf_nofaults rd.buf rd.src h
      revert f1 f2
      generalize rd.buf.fillBuf rd.src = out
      obtain ⟨r, b, s⟩ := out
      intro f1 f2
      simp only at f1 f2
      cases r with
      | ok k =>
        simp only
        by_cases hk : k = 0
        · rw [if_pos hk]; exact ⟨by simp [Reader.lexError], f2⟩
        · rw [if_neg hk]; exact ih { src := s, buf := b } f2
      | error e =>
        cases e with
        | io => exact absurd rfl f1
        | bufferFull => exact ⟨by simp [Reader.bufferError], f2⟩
    · rw [if_neg hlt]
      cases hadv : rd.buf.advance n with
      | none => simp [Reader.ubError, h]
      | some b => simp [h]

theorem err_eq {e : ReaderError} {p : Nat} {k : RErrKind} (h1 : e.position = p) (h2 : e.kind = k) :
    e = ⟨p, k⟩ := by
  cases e; simp_all

/-- **`read_bytes(n)`, fault-free schedules.**  From any reader state reached by `next` /
`read_bytes` / `skip_container` calls (`RInv`), with `rem` the input bytes not yet consumed:
* `n ≤ |rem|` and the buffer can hold `n` bytes (or slice mode): returns exactly the next `n`
  bytes of the input, `position` advances by `n`, and the bytes still to be seen are
  `rem.drop n` — in particular the slice is read at the window start *after* the refills;
* capacity `< n` (and at least `cap` bytes of input left): `BufferFull`, position unchanged;
* fewer than `n` bytes left (and fewer than the buffer holds): the `Eof` error, position
  unchanged — never a short or padded slice. -/
theorem readBytes_cases (data : Bytes) (n : Nat) (rd : Reader) (h : RInv rd data)
    (hnf : Src.NoFaults rd.src.sched) :
    RInv (rd.readBytes n).2 data ∧ (rd.readBytes n).2.buf.cap = rd.buf.cap ∧
    Src.NoFaults (rd.readBytes n).2.src.sched ∧
    (n ≤ (rd.remaining data).length → (rd.buf.cap = 0 ∨ n ≤ rd.buf.cap) →
      (rd.readBytes n).1 = .ok ((rd.remaining data).take n) ∧
      (rd.readBytes n).2.position = rd.position + n ∧
      (rd.readBytes n).2.remaining data = (rd.remaining data).drop n) ∧
    (0 < rd.buf.cap → rd.buf.cap < n → rd.buf.cap ≤ (rd.remaining data).length →
      (rd.readBytes n).1 = .error ⟨rd.position, .bufferFull⟩ ∧ (rd.readBytes n).2.position = rd.position) ∧
    ((rd.remaining data).length < n → (rd.buf.cap = 0 ∨ (rd.remaining data).length < rd.buf.cap) →
      (rd.readBytes n).1 = .error ⟨rd.position, .lexer .eof⟩ ∧ (rd.readBytes n).2.position = rd.position) := by
  unfold Reader.readBytes
  obtain ⟨i1, i2, i3⟩ := readBytes_spec data n rd.fuelFor rd h (by simp [Reader.fuelFor])
  obtain ⟨n1, n2⟩ := readBytes_nofaults rd.fuelFor n rd hnf
  revert i1 i2 i3 n1 n2
  generalize Reader.readBytesLoop rd.fuelFor rd n = out
  obtain ⟨res, rd'⟩ := out
  intro i1 i2 i3 n1 n2
  simp only at i1 i2 i3 n1 n2 ⊢
  refine ⟨i1, i2, n2, ?_, ?_, ?_⟩
  · intro hn hc
    cases res with
    | ok b =>
      simp only [BytesPost] at i3
      exact ⟨by rw [i3.1], i3.2.2.1, i3.2.2.2.1⟩
    | error e =>
      simp only [BytesPost] at i3
      obtain ⟨e1, e2, e3⟩ := i3
      obtain ⟨p, k⟩ := e
      cases k with
      | lexer le => cases le with
        | eof => simp only at e3; omega
        | invalidRgb => simp only at e3
      | bufferFull => simp only at e3; omega
      | read => exact absurd rfl (n1 p)
      | ub => simp only at e3
      | fuel => simp only at e3
  · intro hc1 hc2 hc3
    cases res with
    | ok b =>
      simp only [BytesPost] at i3
      have := i3.2.2.2.2
      omega
    | error e =>
      simp only [BytesPost] at i3
      obtain ⟨e1, e2, e3⟩ := i3
      obtain ⟨p, k⟩ := e
      cases k with
      | lexer le => cases le with
        | eof => simp only at e3; omega
        | invalidRgb => simp only at e3
      | bufferFull => exact ⟨by simp only at e1; rw [e1, e2], e2⟩
      | read => exact absurd rfl (n1 p)
      | ub => simp only at e3
      | fuel => simp only at e3
  · intro hc1 hc2
    cases res with
    | ok b =>
      simp only [BytesPost] at i3
      omega
    | error e =>
      simp only [BytesPost] at i3
      obtain ⟨e1, e2, e3⟩ := i3
      obtain ⟨p, k⟩ := e
      cases k with
      | lexer le => cases le with
        | eof => exact ⟨by simp only at e1; rw [e1, e2], e2⟩
        | invalidRgb => simp only at e3
      | bufferFull => simp only at e3; omega
      | read => exact absurd rfl (n1 p)
      | ub => simp only at e3
      | fuel => simp only at e3

/-- the fault-free whole-stream run from *any* state satisfying the invariant (e.g. after
`read_bytes`, between tokens): it is the slice lexer's run over the remaining bytes -/
theorem streamAll_from (data : Bytes) (rd : Reader) (h : RInv rd data)
    (hfit : rd.buf.cap = 0 ∨ Fits rd.buf.cap (rd.remaining data)) (hnf : Src.NoFaults rd.src.sched) :
    (Reader.streamAll rd).1 = (lexAll (rd.remaining data)).1 ∧
    (Reader.streamAll rd).2.1 = embed (lexAll (rd.remaining data)).2.1 ∧
    (Reader.streamAll rd).2.2.position = data.length - (lexAll (rd.remaining data)).2.2.length := by
  have hlen := remaining_length h
  obtain ⟨term, j1, j2, j3, _⟩ := stream_lexes data (Reader.streamFuel rd) rd h hfit hnf
    (by rw [hlen]; simp [Reader.streamFuel])
  obtain ⟨d1, d2, d3⟩ := Lexes.det j1 (lexAll_lexes (rd.remaining data))
  unfold Reader.streamAll
  refine ⟨d1, by rw [j2, d2], ?_⟩
  have hple := j3.ple
  have := congrArg List.length d3
  have e1 : ((Reader.streamLoop (Reader.streamFuel rd) rd).2.2.remaining data).length =
      data.length - (Reader.streamLoop (Reader.streamFuel rd) rd).2.2.position := by
    simp [Reader.remaining]
  rw [e1] at this
  omega

/-! ### a stray trailing byte; the zero-capacity builder buffer -/

theorem lexes_write_append (toks : List Token) (hwf : ∀ t ∈ toks, WfTok t) {s left : Bytes}
    {ts : List Token} {term : Terminal} (hs : Lexes s ts term left) :
    Lexes (toks.flatMap Token.write ++ s) (toks ++ ts) term left := by
  induction toks with
  | nil => simpa using hs
  | cons t rest ih =>
    have h1 := readToken_write t (rest.flatMap Token.write ++ s) (hwf t (by simp))
    simp only [List.flatMap_cons, List.append_assoc, List.cons_append]
    exact Lexes.tok h1 (ih (fun t ht => hwf t (by simp [ht])))

theorem readToken_single (b : UInt8) : readToken [b] = .error .eof := by
  simp [readToken, P.bind, readId, getSplit]

theorem lexAll_trailing (toks : List Token) (hwf : ∀ t ∈ toks, WfTok t) (b : UInt8) :
    lexAll (toks.flatMap Token.write ++ [b]) = (toks, .err .eof, [b]) := by
  have h := lexes_write_append toks hwf (Lexes.eof (readToken_single b) (by simp))
  obtain ⟨a, c, d⟩ := Lexes.det (lexAll_lexes _) h
  simp only [List.append_nil] at a
  exact Prod.ext a (Prod.ext c d)

theorem zero_cap_next (data : Bytes) (sched : List Step) (fuel : Nat) :
    Reader.next (fuel + 1) (Reader.ofLen 0 (Src.new data sched)) =
      (.ok none, Reader.ofLen 0 (Src.new data sched)) := by
  simp [Reader.next, Reader.ofLen, Buf.ofLen, Buf.build, Buf.window, Buf.windowLen, readToken_nil, Buf.fillBuf]

theorem zero_cap_stream (data : Bytes) (sched : List Step) :
    Reader.streamAll (Reader.ofLen 0 (Src.new data sched)) =
      ([], .done, Reader.ofLen 0 (Src.new data sched)) := by
  unfold Reader.streamAll
  have : Reader.streamFuel (Reader.ofLen 0 (Src.new data sched)) =
      (Reader.streamFuel (Reader.ofLen 0 (Src.new data sched)) - 1) + 1 := by
    simp [Reader.streamFuel]
  rw [this, Reader.streamLoop]
  have hf : (Reader.ofLen 0 (Src.new data sched)).fuelFor = ((Reader.ofLen 0 (Src.new data sched)).fuelFor - 1) + 1 := by
    simp [Reader.fuelFor]
  rw [hf, zero_cap_next]

end Jomini.BinReader
