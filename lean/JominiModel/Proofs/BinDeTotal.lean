import JominiModel.Model.BinDe
/-
C05 at the level of the three binary deserializer models (`Model/BinDe.lean`): totality.

  * `C05_binde_seq_no_panic`  for EVERY raw lexeme list, target type, resolver and strategy, the
      on-demand and the streaming model return a value or a proper error: never `panic`, and the
      driver's fuel `2·|lexemes| + size(type) + 8` is never exhausted.
      (`total_all`: inside the loops the bound is `2·|rest| + size(type) < fuel`; every reader
      primitive only shortens the input; `Proofs/BinDeCut.fuel_mono`: more fuel, same result.)
  * `C05_binde_tape_no_panic` for every tape satisfying the decidable `TapeOk` (container end
      indices inside the tape; every root key followed by its value slot), `deTape` never yields
      `panic`; the `example` at the end shows the hypothesis is needed.
      Not connected to `BinTape.wfBinTape` (a different token type, and `wfBinTape` does not speak
      about key/value pairing at the root; the parser's `finish` test gives it).  Fuel exhaustion
      of `deTape` is not excluded here (it would need `e > idx` for the end links, i.e. the
      "pointing forward" half of C06).
-/
set_option linter.unusedSimpArgs false
namespace Jomini.BinDe
open Jomini

/-! ### sizes -/

theorem tySize_pos : ∀ t : Ty, 1 ≤ tySize t := by
  intro t; cases t <;> simp [tySize]

theorem get?_size : ∀ (fs : Fields) (i : Nat) (n : String) (k : Nat) (t : Ty),
    fs.get? i = some (n, k, t) → tySize t < tySize.fieldsSize fs ∧ i < fs.length
  | .nil, _, _, _, _, h => by simp [Fields.get?] at h
  | .cons _ _ t' r, 0, n, k, t, h => by
    simp [Fields.get?] at h; obtain ⟨_, _, rfl⟩ := h; simp [tySize.fieldsSize, Fields.length]; omega
  | .cons _ _ t' r, i + 1, n, k, t, h => by
    simp [Fields.get?] at h
    have := get?_size r i n k t h
    simp [tySize.fieldsSize, Fields.length]; omega

theorem get?_lt : ∀ (fs : Fields) (i : Nat), i < fs.length → ∃ x, fs.get? i = some x
  | .nil, _, h => by simp [Fields.length] at h
  | .cons n k t r, 0, _ => ⟨_, rfl⟩
  | .cons n k t r, i + 1, h => by
    simp [Fields.length] at h
    exact get?_lt r i h

theorem posName_lt : ∀ (fs : Fields) (s : Bytes) (j i : Nat), fs.posName s j = some i → i < j + fs.length
  | .nil, _, _, _, h => by simp [Fields.posName] at h
  | .cons n k t r, s, j, i, h => by
    simp only [Fields.posName] at h
    split at h
    · simp at h; simp [Fields.length]; omega
    · have := posName_lt r s (j + 1) i h; simp [Fields.length]; omega

theorem posTok_lt : ∀ (fs : Fields) (id j i : Nat), fs.posTok id j = some i → i < j + fs.length
  | .nil, _, _, _, h => by simp [Fields.posTok] at h
  | .cons n k t r, id, j, i, h => by
    simp only [Fields.posTok] at h
    split at h
    · simp at h; simp [Fields.length]; omega
    · have := posTok_lt r id (j + 1) i h; simp [Fields.length]; omega

theorem fieldOfPrim_lt (fs : Fields) (bt : Bool) (p : Prim) (i : Nat) (h : fieldOfPrim fs bt p = .ok (some i)) :
    i < fs.length := by
  cases p <;> simp [fieldOfPrim] at h
  · cases bt <;> simp at h; omega
  · cases bt <;> simp at h; omega
  · have := posName_lt fs _ 0 i h; omega

theorem seqFieldKey_lt (c : Cfg) (fs : Fields) (bt : Bool) (t : Tok) (i : Nat)
    (h : seqFieldKey c fs bt t = .ok (some i)) : i < fs.length := by
  unfold seqFieldKey at h
  split at h
  · simp at h; have := posTok_lt fs _ 0 i h; omega
  · split at h
    · exact fieldOfPrim_lt _ _ _ _ h
    all_goals simp at h

/-! ### the reader primitives only ever shorten the input -/

theorem readRgb_len (l : List Tok) (col : Rgb) (r : List Tok) (h : readRgb l = some (col, r)) : r.length < l.length := by
  unfold readRgb at h
  split at h <;> simp at h <;> (obtain ⟨_, rfl⟩ := h; simp; omega)

theorem fetch_len (p : Path) (l : List Tok) (t : Tok) (r : List Tok) (h : fetch p l = .tok t r) : r.length < l.length := by
  cases l with
  | nil => simp [fetch] at h
  | cons x l =>
    cases p <;> cases x <;> simp [fetch] at h <;> try (obtain ⟨_, rfl⟩ := h; simp)
    split at h
    · split at h <;> simp at h
      rename_i hr; obtain ⟨_, rfl⟩ := h
      have := readRgb_len _ _ _ hr; simp; omega
    · simp at h; obtain ⟨_, rfl⟩ := h; simp

theorem fetchRead_len (p : Path) (l : List Tok) (t : Tok) (r : List Tok) (h : fetchRead p l = .ok (t, r)) :
    r.length < l.length := by
  unfold fetchRead at h
  split at h <;> simp at h
  rename_i hf; obtain ⟨rfl, rfl⟩ := h
  exact fetch_len _ _ _ _ hf

theorem nextValue_len (p : Path) (l : List Tok) (t : Tok) (r : List Tok) (h : nextValue p l = .ok (t, r)) :
    r.length < l.length := by
  unfold nextValue at h
  cases hf : fetchRead p l with
  | error e => simp [hf] at h
  | ok x =>
    obtain ⟨a, b⟩ := x
    have hb := fetchRead_len p l a b hf
    rw [hf] at h
    by_cases he : a = .equal
    · subst he; simp at h
      have := fetchRead_len p b t r h; omega
    · have : (a, b) = (t, r) := by cases a <;> simp_all
      obtain ⟨rfl, rfl⟩ := Prod.mk.inj this
      exact hb

theorem skipContainer_len : ∀ (l : List Tok) (d : Nat) (r : List Tok), skipContainer l d = .ok r → r.length < l.length
  | [], _, _, h => by simp [skipContainer] at h
  | x :: l, d, r, h => by
    cases x with
    | close =>
      simp only [skipContainer] at h
      split at h
      · simp at h; subst h; simp
      · have := skipContainer_len l _ r h; simp; omega
    | trunc => simp [skipContainer] at h
    | stray => simp [skipContainer] at h
    | _ => simp only [skipContainer] at h; have := skipContainer_len l _ r h; simp; omega

theorem skipTok_len (p : Path) (t : Tok) (rest r : List Tok) (h : skipTok p t rest = .ok r) : r.length ≤ rest.length := by
  cases p <;> cases t <;> simp [skipTok] at h <;>
    first
    | (subst h; exact Nat.le_refl _)
    | (have := skipContainer_len _ _ _ h; omega)
    | (split at h
       · split at h <;> simp at h
         rename_i hr; subst h; have := readRgb_len _ _ _ hr; omega
       · simp at h; subst h; exact Nat.le_refl _)

theorem normTok_len (p : Path) (ty : Ty) (t : Tok) (rest : List Tok) (t' : Tok) (r : List Tok)
    (h : normTok p ty t rest = .ok (t', r)) : r.length ≤ rest.length := by
  unfold normTok at h
  split at h
  · simp at h; obtain ⟨_, rfl⟩ := h; exact Nat.le_refl _
  · split at h
    · split at h <;> simp at h
      rename_i hr; obtain ⟨_, rfl⟩ := h; have := readRgb_len _ _ _ hr; omega
    · simp at h; obtain ⟨_, rfl⟩ := h; exact Nat.le_refl _
  · simp at h; obtain ⟨_, rfl⟩ := h; exact Nat.le_refl _

theorem nextKey_total (p : Path) (root : Bool) (f : Nat) : ∀ (l : List Tok),
    nextKey p root f l ≠ .error .panic ∧
    (l.length < 2 * f → nextKey p root f l ≠ .error .fuel) ∧
    (∀ t r, nextKey p root f l = .ok (some t, r) → r.length < l.length) ∧
    (∀ r, nextKey p root f l = .ok (none, r) → r.length ≤ l.length) := by
  induction f with
  | zero => intro l; simp [nextKey]
  | succ f ih =>
    intro l
    simp only [nextKey]
    cases hf : fetch p l with
    | eof => cases root <;> simp
    | err => simp
    | tok t rest =>
      have hl := fetch_len p l t rest hf
      cases t with
      | close => simp; omega
      | «open» =>
        dsimp only
        cases p with
        | stream =>
          dsimp only
          cases hr : fetchRead .stream rest with
          | error e =>
            simp
            unfold fetchRead at hr; split at hr <;> simp at hr <;> (subst hr; simp)
          | ok x =>
            obtain ⟨a, b⟩ := x
            have hb := fetchRead_len .stream rest a b hr
            obtain ⟨i1, i2, i3, i4⟩ := ih b
            dsimp only
            refine ⟨i1, fun hh => i2 (by omega), fun t r h => ?_, fun r h => ?_⟩
            · have := i3 t r h; omega
            · have := i4 r h; omega
        | ondemand =>
          dsimp only
          cases rest with
          | nil => simp
          | cons a b =>
            obtain ⟨i1, i2, i3, i4⟩ := ih b
            simp at hl
            have fin : nextKey .ondemand root f b ≠ .error .panic ∧
                (l.length < 2 * (f + 1) → nextKey .ondemand root f b ≠ .error .fuel) ∧
                (∀ t r, nextKey .ondemand root f b = .ok (some t, r) → r.length < l.length) ∧
                (∀ r, nextKey .ondemand root f b = .ok (none, r) → r.length ≤ l.length) := by
              refine ⟨i1, fun hh => i2 (by omega), fun t r h => ?_, fun r h => ?_⟩
              · have := i3 t r h; omega
              · have := i4 r h; omega
            cases a with
            | «open» => simpa [payloadFree] using fin
            | close => simpa [payloadFree] using fin
            | equal => simpa [payloadFree] using fin
            | id n => simpa [payloadFree] using fin
            | _ => simp [payloadFree]
      | _ => simp <;> omega

/-! ### the four loops: no `panic`, no fuel exhaustion, the input only gets shorter -/

def Good {α : Type} (r : Res (α × List Tok)) (n : Nat) : Prop :=
  r ≠ .error .fuel ∧ r ≠ .error .panic ∧ ∀ v r', r = .ok (v, r') → r'.length ≤ n

theorem Good.err {α : Type} (e : Err) (n : Nat) (h1 : e ≠ .fuel) (h2 : e ≠ .panic) :
    Good (.error e : Res (α × List Tok)) n := by
  refine ⟨?_, ?_, ?_⟩ <;> simp [h1, h2]

theorem Good.okk {α : Type} (v : α) (r : List Tok) (n : Nat) (h : r.length ≤ n) : Good (.ok (v, r)) n := by
  refine ⟨by simp, by simp, ?_⟩
  intro v' r' e; simp at e; obtain ⟨_, rfl⟩ := e; exact h

theorem Good.mono {α : Type} {r : Res (α × List Tok)} {n m : Nat} (h : Good r n) (hnm : n ≤ m) : Good r m :=
  ⟨h.1, h.2.1, fun v r' e => Nat.le_trans (h.2.2 v r' e) hnm⟩

/-- a result that hands the input back. -/
theorem Good.mapRest (X : Res String) (rest : List Tok) (n : Nat) (h : rest.length ≤ n)
    (hf : X ≠ .error .fuel) (hp : X ≠ .error .panic) : Good (X.map (fun v => (v, rest))) n := by
  cases X with
  | error e => exact Good.err e n (by simpa using hf) (by simpa using hp)
  | ok v => exact Good.okk _ _ _ h

def AT (p : Path) (c : Cfg) (f : Nat) : Prop :=
  ∀ ty t rest, 2 * rest.length + tySize ty < f → Good (deTok p c f ty t rest) rest.length
def AE (p : Path) (c : Cfg) (f : Nat) : Prop :=
  ∀ et toks acc, 2 * toks.length + tySize et ≤ f → Good (deElems p c f et toks acc) toks.length
def AM (p : Path) (c : Cfg) (f : Nat) : Prop :=
  ∀ vt root toks acc, 2 * toks.length + tySize vt ≤ f → Good (deMap p c f vt root toks acc) toks.length
def AS (p : Path) (c : Cfg) (f : Nat) : Prop :=
  ∀ fs bt root toks slots, slots.length = fs.length → 2 * toks.length + tySize.fieldsSize fs < f →
    Good (deStruct p c f fs bt root toks slots) toks.length

/-- neither fuel exhaustion nor a panic. -/
def NoFP {α : Type} (r : Res α) : Prop := r ≠ .error .fuel ∧ r ≠ .error .panic

theorem NoFP.ok {α : Type} (v : α) : NoFP (.ok v : Res α) := by simp [NoFP]
theorem NoFP.other {α : Type} : NoFP (.error .other : Res α) := by simp [NoFP]
theorem NoFP.type {α : Type} : NoFP (.error .type : Res α) := by simp [NoFP]

theorem visitPrim_ok (t : Ty) (p : Prim) : NoFP (visitPrim t p) := by
  unfold NoFP
  cases t <;> simp [visitPrim] <;> (try (cases p <;> simp)) <;>
    (try (split <;> (try split) <;> simp))

theorem idPrim_ok (c : Cfg) (n : Nat) : NoFP (idPrim c n) := by
  unfold idPrim NoFP
  split
  · simp
  · cases c.strat <;> simp

theorem deser_err (c : Cfg) (t : Tok) (e : Err) (h : deser c t = .err e) : e = .other := by
  cases t <;> simp [deser, Event.ofRes] at h <;> try (exact h.symm)
  rename_i n
  have := idPrim_ok c n
  cases hi : idPrim c n with
  | ok p => simp [hi] at h
  | error e' =>
    simp [hi] at h; subst h
    unfold idPrim at hi
    split at hi
    · simp at hi
    · cases hs : c.strat <;> simp [hs] at hi; exact hi.symm

theorem hinted_err (c : Cfg) (ty : Ty) (t : Tok) (e : Err) (h : hinted c ty t = .err e) : e = .other := by
  unfold hinted at h
  split at h <;> first | (simp at h; done) | exact deser_err c t e h

theorem leafOf_ok (ty : Ty) (ev : Event) (h : ∀ e, ev = .err e → e = .other) : NoFP (leafOf ty ev) := by
  cases ev with
  | prim p => exact visitPrim_ok ty p
  | seq => exact NoFP.type
  | color c => exact NoFP.type
  | err e => have := h e rfl; subst this; exact NoFP.other

theorem enumVal_ok (vs : List String) (p : Prim) : NoFP (enumVal vs p) := by
  unfold enumVal NoFP
  cases p <;> simp
  split <;> simp

theorem seqFrom_ok (t : Ty) : ∀ (es : List (Ty → Res String)) (acc : List String),
    (∀ e ∈ es, ∀ t, NoFP (e t)) → NoFP (seqFrom t es acc)
  | [], acc, _ => by simp [seqFrom, NoFP]
  | e :: es, acc, h => by
    simp only [seqFrom]
    have he := h e (List.mem_cons_self ..) t
    cases hx : e t with
    | ok v => exact seqFrom_ok t es _ (fun e' he' => h e' (List.mem_cons_of_mem _ he'))
    | error x => rw [hx] at he; exact he

theorem structFromSeq_ok : ∀ (fs : Fields) (es : List (Ty → Res String)) (acc : List String),
    (∀ e ∈ es, ∀ t, NoFP (e t)) → NoFP (structFromSeq fs es acc)
  | .nil, _, _, _ => by simp [structFromSeq, NoFP]
  | .cons _ _ _ _, [], _, _ => by simp [structFromSeq, NoFP]
  | .cons n k t rest, e :: es, acc, h => by
    simp only [structFromSeq]
    have he := h e (List.mem_cons_self ..) t
    cases hx : e t with
    | ok v => exact structFromSeq_ok rest es _ (fun e' he' => h e' (List.mem_cons_of_mem _ he'))
    | error x => rw [hx] at he; exact he

theorem outerElem2_ok (col : Rgb) (t : Ty) : NoFP (outerElem2 col t) := by
  have hin : ∀ e ∈ col.comps.map innerElem, ∀ t, NoFP (e t) := by
    intro e he t
    simp at he; obtain ⟨v, _, rfl⟩ := he
    exact visitPrim_ok t _
  cases t <;> simp only [outerElem2] <;>
    first
    | exact NoFP.ok _
    | exact NoFP.type
    | exact seqFrom_ok _ _ _ hin
    | exact structFromSeq_ok _ _ _ hin

theorem colorVisit_ok (t : Ty) (col : Rgb) : NoFP (colorVisit t col) := by
  have hin : ∀ e ∈ [outerElem1, outerElem2 col], ∀ t, NoFP (e t) := by
    intro e he t
    simp at he
    rcases he with rfl | rfl
    · exact visitPrim_ok t _
    · exact outerElem2_ok col t
  cases t <;> simp only [colorVisit] <;>
    first
    | exact NoFP.ok _
    | exact NoFP.type
    | exact seqFrom_ok _ _ _ hin
    | exact structFromSeq_ok _ _ _ hin

theorem structFinish_ok : ∀ (fs : Fields) (slots : List (Option String)) (acc : List String), NoFP (structFinish fs slots acc)
  | .nil, _, _ => by simp [structFinish, NoFP]
  | .cons n k t rest, slots, acc => by
    simp only [structFinish]
    split
    · exact structFinish_ok rest _ _
    · cases t <;> first | exact structFinish_ok rest _ _ | simp [NoFP]

theorem normTok_err (p : Path) (ty : Ty) (t : Tok) (rest : List Tok) (e : Err) (h : normTok p ty t rest = .error e) :
    e = .other := by
  unfold normTok at h
  split at h
  · simp at h
  · split at h
    · split at h <;> simp at h; exact h.symm
    · simp at h
  · simp at h

theorem skipContainer_err : ∀ (l : List Tok) (d : Nat) (e : Err), skipContainer l d = .error e → e = .other
  | [], _, _, h => by simp [skipContainer] at h; exact h.symm
  | x :: l, d, e, h => by
    cases x with
    | close =>
      simp only [skipContainer] at h
      split at h
      · simp at h
      · exact skipContainer_err l _ e h
    | trunc => simp [skipContainer] at h; exact h.symm
    | stray => simp [skipContainer] at h; exact h.symm
    | _ => simp only [skipContainer] at h; exact skipContainer_err l _ e h

theorem skipTok_err (p : Path) (t : Tok) (rest : List Tok) (e : Err) (h : skipTok p t rest = .error e) : e = .other := by
  cases p <;> cases t <;> simp [skipTok] at h <;>
    first
    | exact skipContainer_err _ _ _ h
    | exact h.symm
    | (split at h
       · split at h <;> simp at h; exact h.symm
       · simp at h)

theorem fetchRead_err (p : Path) (l : List Tok) (e : Err) (h : fetchRead p l = .error e) : e = .other := by
  unfold fetchRead at h; split at h <;> simp at h; exact h.symm

theorem nextValue_err (p : Path) (l : List Tok) (e : Err) (h : nextValue p l = .error e) : e = .other := by
  unfold nextValue at h
  cases hf : fetchRead p l with
  | error e' =>
    rw [hf] at h; simp at h; subst h; exact fetchRead_err _ _ _ hf
  | ok x =>
    obtain ⟨a, b⟩ := x
    rw [hf] at h
    by_cases he : a = .equal
    · subst he; simp at h; exact fetchRead_err _ _ _ h
    · cases a <;> simp_all

theorem atStep (p : Path) (c : Cfg) (g : Nat) (hT : AT p c g) (hE : AE p c g) (hM : AM p c g) (hS : AS p c g) :
    AT p c (g + 1) := by
  intro ty t0 rest0 hsz
  simp only [deTok]
  cases hn : normTok p ty t0 rest0 with
  | error e =>
    have := normTok_err _ _ _ _ _ hn; subst this
    exact Good.err _ _ (by simp) (by simp)
  | ok x =>
    obtain ⟨t, rest⟩ := x
    have hl := normTok_len _ _ _ _ _ _ hn
    dsimp only
    apply Good.mono _ hl
    have hsz' : 2 * rest.length + tySize ty ≤ g := by omega
    have back : ∀ X : Res String, NoFP X → Good (X.map (fun v => (v, rest))) rest.length :=
      fun X h => Good.mapRest X rest _ (Nat.le_refl _) h.1 h.2
    have deserE : ∀ e, deser c t = .err e → e = .other := fun e h => deser_err c t e h
    cases ty with
    | ign =>
      dsimp only
      cases hs : skipTok p t rest with
      | error e => have := skipTok_err _ _ _ _ hs; subst this; exact Good.err _ _ (by simp) (by simp)
      | ok r => exact Good.okk _ _ _ (skipTok_len _ _ _ _ hs)
    | opt inner =>
      dsimp only
      have := hT inner t rest (by simp [tySize] at hsz'; omega)
      cases hi : deTok p c g inner t rest with
      | error e => rw [hi] at this; exact Good.err _ _ (by simpa using this.1) (by simpa using this.2.1)
      | ok y => obtain ⟨v, r⟩ := y; rw [hi] at this; exact Good.okk _ _ _ (this.2.2 v r rfl)
    | any =>
      dsimp only
      cases hd : deser c t with
      | prim pr => exact Good.okk _ _ _ (Nat.le_refl _)
      | err e => have := deserE e hd; subst this; exact Good.err _ _ (by simp) (by simp)
      | color col => exact back _ (colorVisit_ok .any col)
      | seq =>
        dsimp only
        have := hE .any rest [] (by simp [tySize] at hsz' ⊢; omega)
        cases hi : deElems p c g .any rest [] with
        | error e => rw [hi] at this; exact Good.err _ _ (by simpa using this.1) (by simpa using this.2.1)
        | ok y => obtain ⟨v, r⟩ := y; rw [hi] at this; exact Good.okk _ _ _ (this.2.2 v r rfl)
    | seq et =>
      cases t with
      | «open» =>
        dsimp only
        have := hE et rest [] (by simp [tySize] at hsz'; omega)
        cases hi : deElems p c g et rest [] with
        | error e => rw [hi] at this; exact Good.err _ _ (by simpa using this.1) (by simpa using this.2.1)
        | ok y => obtain ⟨v, r⟩ := y; rw [hi] at this; exact Good.okk _ _ _ (this.2.2 v r rfl)
      | rgb col => exact back _ (colorVisit_ok _ col)
      | _ => exact back _ (leafOf_ok _ _ (fun e h => deser_err c _ e h))
    | map vt =>
      cases t with
      | «open» =>
        dsimp only
        have := hM vt false rest [] (by simp [tySize] at hsz'; omega)
        cases hi : deMap p c g vt false rest [] with
        | error e => rw [hi] at this; exact Good.err _ _ (by simpa using this.1) (by simpa using this.2.1)
        | ok y => obtain ⟨v, r⟩ := y; rw [hi] at this; exact Good.okk _ _ _ (this.2.2 v r rfl)
      | _ => exact back _ (leafOf_ok _ _ (fun e h => deser_err c _ e h))
    | struct fs =>
      cases t with
      | «open» =>
        dsimp only
        exact hS fs false false rest (slotsInit fs) (by simp [slotsInit]) (by simp [tySize] at hsz'; omega)
      | rgb col => exact back _ (colorVisit_ok _ col)
      | _ => exact back _ (leafOf_ok _ _ (fun e h => deser_err c _ e h))
    | prop _ => exact Good.err _ _ (by simp) (by simp)
    | enum vs =>
      dsimp only
      cases hh : hinted c .str t with
      | prim pr => exact back _ (enumVal_ok vs pr)
      | err e => have := hinted_err c _ t e hh; subst this; exact Good.err _ _ (by simp) (by simp)
      | seq => exact Good.err _ _ (by simp) (by simp)
      | color col => exact Good.err _ _ (by simp) (by simp)
    | _ => exact back _ (leafOf_ok _ _ (fun e h => hinted_err c _ t e h))

theorem aeStep (p : Path) (c : Cfg) (g : Nat) (hT : AT p c g) (hE : AE p c g) : AE p c (g + 1) := by
  intro et toks acc hsz
  simp only [deElems]
  cases hf : fetchRead p toks with
  | error e => have := fetchRead_err _ _ _ hf; subst this; exact Good.err _ _ (by simp) (by simp)
  | ok x =>
    obtain ⟨t, rest⟩ := x
    have hl := fetchRead_len _ _ _ _ hf
    have key : ∀ t : Tok, Good (match deTok p c g et t rest with
        | .ok (v, r) => deElems p c g et r (acc ++ [v])
        | .error e => .error e) toks.length := by
      intro t
      have h1 := hT et t rest (by omega)
      cases hx : deTok p c g et t rest with
      | error e => rw [hx] at h1; exact Good.err _ _ (by simpa using h1.1) (by simpa using h1.2.1)
      | ok y =>
        obtain ⟨v, r⟩ := y
        rw [hx] at h1
        have hr := h1.2.2 v r rfl
        exact (hE et r (acc ++ [v]) (by omega)).mono (by omega)
    cases t <;> first | exact Good.okk _ _ _ (by omega) | exact key _

theorem amStep (p : Path) (c : Cfg) (g : Nat) (hT : AT p c g) (hM : AM p c g) : AM p c (g + 1) := by
  intro vt root toks acc hsz
  simp only [deMap]
  obtain ⟨k1, k2, k3, k4⟩ := nextKey_total p root (g + 1) toks
  have hs := tySize_pos vt
  cases hk : nextKey p root (g + 1) toks with
  | error e =>
    rw [hk] at k1 k2
    exact Good.err _ _ (by simpa using k2 (by omega)) (by simpa using k1)
  | ok x =>
    obtain ⟨kopt, rest⟩ := x
    cases kopt with
    | none => exact Good.okk _ _ _ (k4 rest hk)
    | some kt =>
      have hl := k3 kt rest hk
      dsimp only
      have h1 := hT .str kt rest (by simp [tySize]; omega)
      cases hx : deTok p c g .str kt rest with
      | error e => rw [hx] at h1; exact Good.err _ _ (by simpa using h1.1) (by simpa using h1.2.1)
      | ok y1 =>
        obtain ⟨k, ra⟩ := y1
        rw [hx] at h1
        have hra := h1.2.2 k ra rfl
        dsimp only
        cases hv : nextValue p ra with
        | error e => have := nextValue_err _ _ _ hv; subst this; exact Good.err _ _ (by simp) (by simp)
        | ok y2 =>
          obtain ⟨vtok, rb⟩ := y2
          have hrb := nextValue_len _ _ _ _ hv
          dsimp only
          have h2 := hT vt vtok rb (by omega)
          cases hy : deTok p c g vt vtok rb with
          | error e => rw [hy] at h2; exact Good.err _ _ (by simpa using h2.1) (by simpa using h2.2.1)
          | ok y3 =>
            obtain ⟨v, rc⟩ := y3
            rw [hy] at h2
            have hrc := h2.2.2 v rc rfl
            exact (hM vt root rc _ (by omega)).mono (by omega)

theorem asStep (p : Path) (c : Cfg) (g : Nat) (hT : AT p c g) (hS : AS p c g) : AS p c (g + 1) := by
  intro fs bt root toks slots hslots hsz
  simp only [deStruct]
  obtain ⟨k1, k2, k3, k4⟩ := nextKey_total p root (g + 1) toks
  cases hk : nextKey p root (g + 1) toks with
  | error e =>
    rw [hk] at k1 k2
    exact Good.err _ _ (by simpa using k2 (by omega)) (by simpa using k1)
  | ok x =>
    obtain ⟨kopt, rest0⟩ := x
    cases kopt with
    | none =>
      dsimp only
      have := structFinish_ok fs slots []
      exact Good.mapRest _ _ _ (k4 rest0 hk) this.1 this.2
    | some kt0 =>
      have hl0 := k3 kt0 rest0 hk
      dsimp only
      cases hn : normTok p .any kt0 rest0 with
      | error e => have := normTok_err _ _ _ _ _ hn; subst this; exact Good.err _ _ (by simp) (by simp)
      | ok y =>
        obtain ⟨kt, rest⟩ := y
        have hl := normTok_len _ _ _ _ _ _ hn
        dsimp only
        have tail : ∀ (ty : Ty) (next : String → List (Option String)), tySize ty ≤ tySize.fieldsSize fs + 1 →
            (∀ v, (next v).length = fs.length) →
            Good (match nextValue p rest with
              | .error e => (Except.error e : Res (String × List Tok))
              | .ok (vtok, r2) =>
                match deTok p c g ty vtok r2 with
                | .error e => .error e
                | .ok (v, r3) => deStruct p c g fs bt root r3 (next v)) toks.length := by
          intro ty next hty hnext
          cases hv : nextValue p rest with
          | error e => have := nextValue_err _ _ _ hv; subst this; exact Good.err _ _ (by simp) (by simp)
          | ok y2 =>
            obtain ⟨vtok, rb⟩ := y2
            have hrb := nextValue_len _ _ _ _ hv
            dsimp only
            have h2 := hT ty vtok rb (by omega)
            cases hy : deTok p c g ty vtok rb with
            | error e => rw [hy] at h2; exact Good.err _ _ (by simpa using h2.1) (by simpa using h2.2.1)
            | ok y3 =>
              obtain ⟨v, rc⟩ := y3
              rw [hy] at h2
              have hrc := h2.2.2 v rc rfl
              exact (hS fs bt root rc _ (hnext v) (by omega)).mono (by omega)
        cases hsk : seqFieldKey c fs bt kt with
        | error e =>
          have : e ≠ .fuel ∧ e ≠ .panic := by
            unfold seqFieldKey at hsk
            split at hsk
            · simp at hsk
            · split at hsk
              · rename_i pr _
                cases pr <;> simp [fieldOfPrim] at hsk <;> (try (cases bt <;> simp at hsk)) <;> (try (subst hsk; simp))
              · rename_i e' he; simp at hsk; subst hsk; have := deser_err c kt _ he; subst this; simp
              · simp at hsk; subst hsk; simp
              · simp at hsk; subst hsk; simp
          exact Good.err _ _ this.1 this.2
        | ok w =>
          cases w with
          | none => exact tail .ign (fun _ => slots) (by simp [tySize]) (fun _ => hslots)
          | some i =>
            have hi := seqFieldKey_lt c fs bt kt i hsk
            obtain ⟨⟨name, tk, fty⟩, hget⟩ := get?_lt fs i hi
            have hsz2 := (get?_size fs i name tk fty hget).1
            dsimp only
            have hsl : ∃ a, slots[i]? = some a := by
              have : i < slots.length := by omega
              exact ⟨slots[i], by simp [this]⟩
            obtain ⟨a, ha⟩ := hsl
            cases a with
            | some sv => simp only [ha, hget]; exact Good.err _ _ (by simp) (by simp)
            | none =>
              simp only [ha, hget]
              exact tail fty (fun v => slots.set i (some v)) (by omega) (fun v => by simp [hslots])

/-- all four loops at every fuel. -/
theorem total_all (p : Path) (c : Cfg) : ∀ f, AT p c f ∧ AE p c f ∧ AM p c f ∧ AS p c f := by
  intro f
  induction f with
  | zero =>
    refine ⟨?_, ?_, ?_, ?_⟩
    · intro ty t rest h; omega
    · intro et toks acc h; have := tySize_pos et; omega
    · intro vt root toks acc h; have := tySize_pos vt; omega
    · intro fs bt root toks slots _ h; omega
  | succ g ih =>
    obtain ⟨hT, hE, hM, hS⟩ := ih
    exact ⟨atStep p c g hT hE hM hS, aeStep p c g hT hE, amStep p c g hT hM, asStep p c g hT hS⟩

/-- (C05, sequential binary deserializers) for EVERY raw lexeme list — truncated, unbalanced, with
stray markers, anything —, every target type (also one that does not fit), every resolver and
strategy, neither the on-demand nor the streaming deserializer model yields a `panic` outcome, and
the fuel the driver supplies, `2·|lexemes| + size(type) + 8`, is never exhausted: the run
terminates with a value or a proper error.  (`fuel_mono`: a larger fuel gives the same result.) -/
theorem C05_binde_seq_no_panic (p : Path) (c : Cfg) (ty : RootTy) (toks : List Tok) :
    deSeqRoot p c ty toks ≠ .error .panic ∧ deSeqRoot p c ty toks ≠ .error .fuel := by
  obtain ⟨_, _, hM, hS⟩ := total_all p c (2 * toks.length + rootSize ty + 8)
  unfold deSeqRoot
  cases ty with
  | tok fs =>
    dsimp only
    have := hS fs true true toks (slotsInit fs) (by simp [slotsInit]) (by simp [rootSize, tySize]; omega)
    cases hx : deStruct p c (2 * toks.length + rootSize (.tok fs) + 8) fs true true toks (slotsInit fs) with
    | error e => rw [hx] at this; simp [Except.map]; exact ⟨by simpa using this.2.1, by simpa using this.1⟩
    | ok y => simp [Except.map]
  | plain t =>
    cases t with
    | map vt =>
      dsimp only
      have := hM vt true toks [] (by simp [rootSize, tySize]; omega)
      cases hx : deMap p c (2 * toks.length + rootSize (.plain (.map vt)) + 8) vt true toks [] with
      | error e => rw [hx] at this; simp; exact ⟨by simpa using this.2.1, by simpa using this.1⟩
      | ok y => simp
    | struct fs =>
      dsimp only
      have := hS fs false true toks (slotsInit fs) (by simp [slotsInit]) (by simp [rootSize, tySize]; omega)
      cases hx : deStruct p c (2 * toks.length + rootSize (.plain (.struct fs)) + 8) fs false true toks (slotsInit fs) with
      | error e => rw [hx] at this; simp [Except.map]; exact ⟨by simpa using this.2.1, by simpa using this.1⟩
      | ok y => simp [Except.map]
    | _ => simp

/-! ### tape path -/

/-- every container token's end index lies inside the tape (C06: end links in range). -/
def endsInRange (tape : List TTok) : Bool :=
  tape.all (fun t => match t with
    | .array e => decide (e < tape.length)
    | .object e => decide (e < tape.length)
    | _ => true)

/-- walking the root level key by key, every key has its value inside the tape (the parser ends in
key position: `finish` demands `state = key`). -/
def rootPairs (tape : List TTok) : Nat → Nat → Bool
  | 0, _ => false
  | k + 1, i =>
    if i < tape.length then
      match tape[i + 1]? with
      | some v => rootPairs tape k (afterValue v (i + 1))
      | none => false
    else true

/-- the decidable structural-soundness hypothesis of the tape theorem. -/
def TapeOk (tape : List TTok) : Bool := endsInRange tape && rootPairs tape (tape.length + 1) 0

theorem endsInRange_get (tape : List TTok) (h : endsInRange tape = true) (i e : Nat)
    (hi : tape[i]? = some (.array e) ∨ tape[i]? = some (.object e)) : e < tape.length := by
  unfold endsInRange at h
  rw [List.all_eq_true] at h
  rcases hi with hi | hi
  · have := h _ (List.mem_of_getElem? hi); simpa using this
  · have := h _ (List.mem_of_getElem? hi); simpa using this

theorem tapeFieldKey_lt (c : Cfg) (fs : Fields) (bt : Bool) (t : TTok) (i : Nat)
    (h : tapeFieldKey c fs bt t = .ok (some i)) : i < fs.length := by
  unfold tapeFieldKey at h
  split at h
  · simp at h; have := posTok_lt fs _ 0 i h; omega
  · split at h
    · exact fieldOfPrim_lt _ _ _ _ h
    · simp at h

theorem visitKey_ok (c : Cfg) (t : TTok) : visitKey c t ≠ .error .panic := by
  cases t <;> simp [visitKey]
  exact (idPrim_ok c _).2

theorem tapeFieldKey_ok (c : Cfg) (fs : Fields) (bt : Bool) (t : TTok) : tapeFieldKey c fs bt t ≠ .error .panic := by
  unfold tapeFieldKey
  split
  · simp
  · split
    · rename_i pr _
      cases pr <;> simp [fieldOfPrim] <;> (cases bt <;> simp)
    · rename_i e he; have := visitKey_ok c t; rw [he] at this; simpa using this

section tape
variable (c : Cfg) (tape : List TTok) (hr : endsInRange tape = true)

def NPV (c : Cfg) (tape : List TTok) (f : Nat) : Prop :=
  ∀ ty idx, idx < tape.length → tVal c tape f ty idx ≠ .error .panic
def NPSeq (c : Cfg) (tape : List TTok) (f : Nat) : Prop :=
  ∀ et idx e acc, e ≤ tape.length → tSeq c tape f et idx e acc ≠ .error .panic
def NPMap (c : Cfg) (tape : List TTok) (f : Nat) : Prop :=
  ∀ vt i e acc, e < tape.length → tMap c tape f vt i e acc ≠ .error .panic
def NPAny (c : Cfg) (tape : List TTok) (f : Nat) : Prop :=
  ∀ i e acc, e < tape.length → tMapAny c tape f i e acc ≠ .error .panic
def NPStruct (c : Cfg) (tape : List TTok) (f : Nat) : Prop :=
  ∀ fs bt i e slots, slots.length = fs.length → e < tape.length → tStruct c tape f fs bt i e slots ≠ .error .panic

theorem getElem?_lt {α : Type} (l : List α) (i : Nat) (h : i < l.length) : ∃ x, l[i]? = some x :=
  ⟨l[i], by simp [h]⟩

include hr in
theorem npvStep (f : Nat) (hV : NPV c tape f) (hSeq : NPSeq c tape f) (hMap : NPMap c tape f) (hAny : NPAny c tape f)
    (hSt : NPStruct c tape f) : NPV c tape (f + 1) := by
  intro ty idx hidx
  obtain ⟨t, ht⟩ := getElem?_lt tape idx hidx
  have vp : ∀ ty', (match visitKey c t with | .ok p => visitPrim ty' p | .error x => .error x) ≠ .error .panic := by
    intro ty'
    cases hk : visitKey c t with
    | ok p => exact (visitPrim_ok ty' p).2
    | error x => have := visitKey_ok c t; rw [hk] at this; simpa using this
  have vm : (visitKey c t).map renderPrim ≠ .error .panic := by
    cases hk : visitKey c t with
    | ok p => simp [Except.map]
    | error x => have := visitKey_ok c t; rw [hk] at this; simpa [Except.map] using this
  have ve : ∀ vs, (match visitKey c t with | .ok p => enumVal vs p | .error x => .error x) ≠ .error .panic := by
    intro vs
    cases hk : visitKey c t with
    | ok p => exact (enumVal_ok vs p).2
    | error x => have := visitKey_ok c t; rw [hk] at this; simpa using this
  have erange : ∀ e, (t = .array e ∨ t = .object e) → e < tape.length := by
    intro e he
    exact endsInRange_get tape hr idx e (by rcases he with rfl | rfl <;> simp [ht])
  cases ty with
  | ign => simp [tVal]
  | prop _ => simp [tVal]
  | opt inner =>
    simp only [tVal]
    have := hV inner idx hidx
    cases hx : tVal c tape f inner idx with
    | ok v => simp [Except.map]
    | error e => rw [hx] at this; simpa [Except.map] using this
  | any =>
    simp only [tVal, ht]
    cases t with
    | array e =>
      dsimp only
      have := hSeq .any (idx + 1) e [] (Nat.le_of_lt (erange e (Or.inl rfl)))
      cases hx : tSeq c tape f .any (idx + 1) e [] with
      | ok v => simp
      | error x => rw [hx] at this; simpa using this
    | object e =>
      dsimp only
      have := hAny (idx + 1) e [] (erange e (Or.inr rfl))
      cases hx : tMapAny c tape f (idx + 1) e [] with
      | ok v => simp
      | error x => rw [hx] at this; simpa using this
    | rgb col => exact (colorVisit_ok .any col).2
    | end_ i => simp
    | _ => first | exact vm | simp [visitKey]
  | seq et =>
    simp only [tVal, ht]
    cases t with
    | array e =>
      dsimp only
      have := hSeq et (idx + 1) e [] (Nat.le_of_lt (erange e (Or.inl rfl)))
      cases hx : tSeq c tape f et (idx + 1) e [] with
      | ok v => simp
      | error x => rw [hx] at this; simpa using this
    | rgb col => exact (colorVisit_ok _ col).2
    | _ => first | exact vp _ | simp [visitKey]
  | map vt =>
    simp only [tVal, ht]
    cases t with
    | array e =>
      dsimp only
      have := hMap vt (idx + 1) e [] (erange e (Or.inl rfl))
      cases hx : tMap c tape f vt (idx + 1) e [] with
      | ok v => simp
      | error x => rw [hx] at this; simpa using this
    | object e =>
      dsimp only
      have := hMap vt (idx + 1) e [] (erange e (Or.inr rfl))
      cases hx : tMap c tape f vt (idx + 1) e [] with
      | ok v => simp
      | error x => rw [hx] at this; simpa using this
    | _ => first | exact vp _ | simp [visitKey]
  | struct fs =>
    simp only [tVal, ht]
    cases t with
    | array e => exact hSt fs false (idx + 1) e _ (by simp [slotsInit]) (erange e (Or.inl rfl))
    | object e => exact hSt fs false (idx + 1) e _ (by simp [slotsInit]) (erange e (Or.inr rfl))
    | _ => first | exact vp _ | simp [visitKey]
  | enum vs =>
    simp only [tVal, ht]
    cases t <;> first | (simp; done) | exact ve vs
  | _ =>
    simp only [tVal, ht]
    split
    · exact (visitPrim_ok .u16 _).2
    · cases t <;> first | (simp; done) | exact vp _ | simp [visitKey]
theorem npSeqStep (f : Nat) (hV : NPV c tape f) (hSeq : NPSeq c tape f) : NPSeq c tape (f + 1) := by
  intro et idx e acc he
  simp only [tSeq]
  split
  · simp
  · rename_i hlt
    obtain ⟨t, ht⟩ := getElem?_lt tape idx (by omega)
    simp only [ht]
    have := hV et idx (by omega)
    cases hx : tVal c tape f et idx with
    | ok v => exact hSeq et _ e _ he
    | error x => rw [hx] at this; simpa using this

/-- the shape shared by the three map-like loops: inside `[i, e)` with `e` inside the tape, key and
value slots exist. -/
theorem slots_exist (i e : Nat) (hi : i < e) (he : e < tape.length) :
    ∃ vt kt, tape[i + 1]? = some vt ∧ tape[i]? = some kt := by
  obtain ⟨vt, h1⟩ := getElem?_lt tape (i + 1) (by omega)
  obtain ⟨kt, h2⟩ := getElem?_lt tape i (by omega)
  exact ⟨vt, kt, h1, h2⟩

theorem npMapStep (f : Nat) (hV : NPV c tape f) (hMap : NPMap c tape f) : NPMap c tape (f + 1) := by
  intro vt i e acc he
  simp only [tMap]
  split
  · rename_i hlt
    obtain ⟨vtok, ktok, h1, h2⟩ := slots_exist tape i e hlt he
    simp only [h1, h2]
    cases hk : visitKey c ktok with
    | error x => have := visitKey_ok c ktok; rw [hk] at this; simpa using this
    | ok kp =>
      dsimp only
      cases hs : visitPrim .str kp with
      | error x => have := (visitPrim_ok .str kp).2; rw [hs] at this; simpa using this
      | ok k =>
        dsimp only
        have := hV vt (i + 1) (by omega)
        cases hx : tVal c tape f vt (i + 1) with
        | ok v => exact hMap vt _ e _ he
        | error x => rw [hx] at this; simpa using this
  · simp

theorem npAnyStep (f : Nat) (hV : NPV c tape f) (hAny : NPAny c tape f) : NPAny c tape (f + 1) := by
  intro i e acc he
  simp only [tMapAny]
  split
  · rename_i hlt
    obtain ⟨vtok, ktok, h1, h2⟩ := slots_exist tape i e hlt he
    simp only [h1, h2]
    cases hk : visitKey c ktok with
    | error x => have := visitKey_ok c ktok; rw [hk] at this; simpa using this
    | ok kp =>
      dsimp only
      have := hV .any (i + 1) (by omega)
      cases hx : tVal c tape f .any (i + 1) with
      | ok v => exact hAny _ e _ he
      | error x => rw [hx] at this; simpa using this
  · simp

/-- one iteration of the struct loop, given that key and value slots exist. -/
theorem structIter (f : Nat) (hV : NPV c tape f) (fs : Fields) (bt : Bool) (i e : Nat) (slots : List (Option String))
    (hsl : slots.length = fs.length) (vtok ktok : TTok) (h1 : tape[i + 1]? = some vtok) (h2 : tape[i]? = some ktok)
    (hlen : i + 1 < tape.length)
    (hrec : ∀ j sl, sl.length = fs.length → j = afterValue vtok (i + 1) → tStruct c tape f fs bt j e sl ≠ .error .panic) :
    (match tape[i + 1]?, tape[i]? with
      | some vtok, some ktok =>
        match tapeFieldKey c fs bt ktok with
        | .error x => (Except.error x : Res String)
        | .ok none => tStruct c tape f fs bt (afterValue vtok (i + 1)) e slots
        | .ok (some k) =>
          match slots[k]?, fs.get? k with
          | some (some _), some (name, _, _) => .error (.duplicate name)
          | some none, some (_, _, fty) =>
            match tVal c tape f fty (i + 1) with
            | .error x => .error x
            | .ok v => tStruct c tape f fs bt (afterValue vtok (i + 1)) e (slots.set k (some v))
          | _, _ => .error .panic
      | _, _ => .error .panic) ≠ .error .panic := by
  simp only [h1, h2]
  cases hk : tapeFieldKey c fs bt ktok with
  | error x => have := tapeFieldKey_ok c fs bt ktok; rw [hk] at this; simpa using this
  | ok w =>
    cases w with
    | none => exact hrec _ slots hsl rfl
    | some k =>
      have hklt := tapeFieldKey_lt c fs bt ktok k hk
      obtain ⟨⟨name, tk, fty⟩, hget⟩ := get?_lt fs k hklt
      obtain ⟨a, ha⟩ := getElem?_lt slots k (by omega)
      dsimp only
      cases a with
      | some sv => simp [ha, hget]
      | none =>
        simp only [ha, hget]
        have := hV fty (i + 1) hlen
        cases hx : tVal c tape f fty (i + 1) with
        | ok v => exact hrec _ _ (by simp [hsl]) rfl
        | error x => rw [hx] at this; simpa using this

theorem npStructStep (f : Nat) (hV : NPV c tape f) (hSt : NPStruct c tape f) : NPStruct c tape (f + 1) := by
  intro fs bt i e slots hsl he
  simp only [tStruct]
  split
  · rename_i hlt
    obtain ⟨vtok, ktok, h1, h2⟩ := slots_exist tape i e hlt he
    exact structIter c tape f hV fs bt i e slots hsl vtok ktok h1 h2 (by omega)
      (fun j sl hs _ => hSt fs bt j e sl hs he)
  · exact (structFinish_ok fs slots []).2

include hr in
theorem np_all (f : Nat) : NPV c tape f ∧ NPSeq c tape f ∧ NPMap c tape f ∧ NPAny c tape f ∧ NPStruct c tape f := by
  induction f with
  | zero =>
    refine ⟨?_, ?_, ?_, ?_, ?_⟩
    · intro ty idx _; simp [tVal]
    · intro et idx e acc _; simp [tSeq]
    · intro vt i e acc _; simp [tMap]
    · intro i e acc _; simp [tMapAny]
    · intro fs bt i e slots _ _; simp [tStruct]
  | succ f ih =>
    obtain ⟨hV, hSeq, hMap, hAny, hSt⟩ := ih
    exact ⟨npvStep c tape hr f hV hSeq hMap hAny hSt, npSeqStep c tape f hV hSeq, npMapStep c tape f hV hMap,
      npAnyStep c tape f hV hAny, npStructStep c tape f hV hSt⟩
end tape

theorem rootPairs_step (tape : List TTok) (k i : Nat) (h : rootPairs tape k i = true) (hi : i < tape.length) :
    ∃ k' vtok ktok, k = k' + 1 ∧ tape[i + 1]? = some vtok ∧ tape[i]? = some ktok ∧ i + 1 < tape.length ∧
      rootPairs tape k' (afterValue vtok (i + 1)) = true := by
  cases k with
  | zero => simp [rootPairs] at h
  | succ k' =>
    simp only [rootPairs, hi, if_true] at h
    cases hv : tape[i + 1]? with
    | none => simp [hv] at h
    | some vtok =>
      simp [hv] at h
      obtain ⟨ktok, hk⟩ := getElem?_lt tape i hi
      have : i + 1 < tape.length := by
        rcases Nat.lt_or_ge (i + 1) tape.length with h' | h'
        · exact h'
        · simp [List.getElem?_eq_none h'] at hv
      exact ⟨k', vtok, ktok, rfl, rfl, hk, this, h⟩

theorem root_map_np (c : Cfg) (tape : List TTok) (hr : endsInRange tape = true) (vt : Ty) (f : Nat) :
    ∀ k i acc, rootPairs tape k i = true → tMap c tape f vt i tape.length acc ≠ .error .panic := by
  induction f with
  | zero => intro k i acc _; simp [tMap]
  | succ f ih =>
    intro k i acc hp
    have hV := (np_all c tape hr f).1
    simp only [tMap]
    split
    · rename_i hlt
      obtain ⟨k', vtok, ktok, rfl, h1, h2, hlen, hp'⟩ := rootPairs_step tape k i hp hlt
      simp only [h1, h2]
      cases hk : visitKey c ktok with
      | error x => have := visitKey_ok c ktok; rw [hk] at this; simpa using this
      | ok kp =>
        dsimp only
        cases hs : visitPrim .str kp with
        | error x => have := (visitPrim_ok .str kp).2; rw [hs] at this; simpa using this
        | ok ks =>
          dsimp only
          have := hV vt (i + 1) hlen
          cases hx : tVal c tape f vt (i + 1) with
          | ok v => exact ih k' _ _ hp'
          | error x => rw [hx] at this; simpa using this
    · simp

theorem root_struct_np (c : Cfg) (tape : List TTok) (hr : endsInRange tape = true) (fs : Fields) (bt : Bool) (f : Nat) :
    ∀ k i slots, slots.length = fs.length → rootPairs tape k i = true →
      tStruct c tape f fs bt i tape.length slots ≠ .error .panic := by
  induction f with
  | zero => intro k i slots _ _; simp [tStruct]
  | succ f ih =>
    intro k i slots hsl hp
    have hV := (np_all c tape hr f).1
    simp only [tStruct]
    split
    · rename_i hlt
      obtain ⟨k', vtok, ktok, rfl, h1, h2, hlen, hp'⟩ := rootPairs_step tape k i hp hlt
      exact structIter c tape f hV fs bt i tape.length slots hsl vtok ktok h1 h2 hlen
        (fun j sl hs hj => ih k' j sl hs (hj ▸ hp'))
    · exact (structFinish_ok fs slots []).2

/-- (C05, tape deserializer) for every tape token list that is structurally sound in the decidable sense
`TapeOk` — every container's end index lies inside the tape, and at the root level every key is
followed by its value (what the parser guarantees: C06 end links, and `finish` accepts only in key
position) — every target type (fitting or not), resolver and strategy: `deTape` never yields `panic`.
Mismatching requests are `err:type` / `err:other`. -/
theorem C05_binde_tape_no_panic (c : Cfg) (ty : RootTy) (tape : List TTok) (h : TapeOk tape = true) :
    deTape c ty tape ≠ .error .panic := by
  simp only [TapeOk, Bool.and_eq_true] at h
  obtain ⟨hr, hp⟩ := h
  unfold deTape
  cases ty with
  | tok fs => exact root_struct_np c tape hr fs true _ _ 0 _ (by simp [slotsInit]) hp
  | plain t =>
    cases t with
    | map vt =>
      dsimp only
      have := root_map_np c tape hr vt (2 * tape.length + rootSize (.plain (.map vt)) + 8) _ 0 [] hp
      cases hx : tMap c tape (2 * tape.length + rootSize (.plain (.map vt)) + 8) vt 0 tape.length [] with
      | ok v => simp
      | error x => rw [hx] at this; simpa using this
    | struct fs => exact root_struct_np c tape hr fs false _ _ 0 _ (by simp [slotsInit]) hp
    | _ => simp

example : TapeOk [.token 8192, .object 4, .token 8199, .i32 1, .end_ 1, .token 8206, .array 8, .u32 7, .end_ 6] = true := by decide

/-- the hypothesis is needed: a root key without a value slot is the out-of-bounds index
`tokens[self.value_ind]` of `BinaryMap::next_key_seed` (the parser never produces such a tape). -/
example (c : Cfg) : deTape c (.plain (.map .any)) [.token 1] = .error .panic := by
  simp [deTape, tMap]

end Jomini.BinDe
