import JominiModel.Model.Json
import JominiModel.Proofs.Scalar
set_option linter.unusedSimpArgs false
/-
Helper lemmas for C16_narrowing: `serialize_scalar` (json/mod.rs:472) as a function of the
four scalar conversions, and its closed form on (signed) digit strings.
-/
namespace Jomini.Json
open Jomini Jomini.Scalar

theorem serializeScalar_bool (enc : Enc) (s : Bytes) (b : Bool) (h : Scalar.toBool s = .ok b) :
    serializeScalar enc s = .bool b := by
  simp [serializeScalar, h]

theorem serializeScalar_f64_refused (enc : Enc) (s : Bytes) (e1 e2 : Scalar.Err)
    (hb : Scalar.toBool s = .error e1) (hf : Scalar.toF64 s = .error e2) :
    serializeScalar enc s = .str (decode enc s) := by
  simp only [serializeScalar, hb, hf]
  split <;> simp_all

theorem serializeScalar_i64 (enc : Enc) (s : Bytes) (e1 : Scalar.Err) (x : Int) (f : Nat)
    (hb : Scalar.toBool s = .error e1) (hi : Scalar.toI64 s = .ok x) (hf : Scalar.toF64 s = .ok f) :
    serializeScalar enc s = .int x := by
  simp [serializeScalar, hb, hi, hf]

theorem serializeScalar_u64 (enc : Enc) (s : Bytes) (e1 e2 : Scalar.Err) (x : Nat) (f : Nat)
    (hb : Scalar.toBool s = .error e1) (hi : Scalar.toI64 s = .error e2) (hu : Scalar.toU64 s = .ok x)
    (hf : Scalar.toF64 s = .ok f) :
    serializeScalar enc s = .int (x : Int) := by
  simp [serializeScalar, hb, hi, hu, hf]

theorem serializeScalar_f64 (enc : Enc) (s : Bytes) (e1 e2 e3 : Scalar.Err) (f : Nat)
    (hb : Scalar.toBool s = .error e1) (hi : Scalar.toI64 s = .error e2) (hu : Scalar.toU64 s = .error e3)
    (hf : Scalar.toF64 s = .ok f) :
    serializeScalar enc s = (if f64Finite f then .float f else .null) := by
  simp [serializeScalar, hb, hi, hu, hf]

theorem toBool_digit (c : UInt8) (body : Bytes) (hc : isDigit c = true) :
    ∃ e, Scalar.toBool (c :: body) = .error e := by
  unfold Scalar.toBool
  split
  · rename_i h; simp at h; rw [h.1] at hc; simp [isDigit] at hc
  · rename_i h; simp at h; rw [h.1] at hc; simp [isDigit] at hc
  · exact ⟨_, rfl⟩

theorem digit_ne (c : UInt8) (hc : isDigit c = true) : (c == 45) = false ∧ (c == 43) = false ∧ (c == 46) = false := by
  simp only [isDigit, Bool.and_eq_true, decide_eq_true_eq] at hc
  refine ⟨?_, ?_, ?_⟩ <;> (simp; intro h; rw [h] at hc; simp at hc)

theorem digitVal_le (c : UInt8) : digitVal c ≤ U64_MAX := by
  have := c.toNat_lt
  simp only [digitVal, U64_MAX]; omega

/-- unsigned digit strings: the number is emitted iff it is at most 2^53 - 1 -/
theorem serializeScalar_digits (enc : Enc) (c : UInt8) (body : Bytes)
    (hc : isDigit c = true) (hb : allDigits body = true) :
    serializeScalar enc (c :: body) =
      if decVal (c :: body) ≤ F64_EXACT_MAX then .int (decVal (c :: body) : Int)
      else .str (decode enc (c :: body)) := by
  obtain ⟨e, he⟩ := toBool_digit c body hc
  have hV := toU64T2_allDigits body (digitVal c) hb (digitVal_le c)
  have hdv : decVal (c :: body) = decFrom body (digitVal c) := by simp [decVal, decFrom]
  obtain ⟨n45, n43, n46⟩ := digit_ne c hc
  rw [hdv]
  by_cases hfit : decFrom body (digitVal c) ≤ F64_EXACT_MAX
  · have h1 : decFrom body (digitVal c) ≤ U64_MAX := by simp only [F64_EXACT_MAX, U64_MAX] at *; omega
    have h2 : ¬ decFrom body (digitVal c) > I64_MAX := by simp only [F64_EXACT_MAX, I64_MAX] at *; omega
    have hi : Scalar.toI64 (c :: body) = .ok (decFrom body (digitVal c) : Int) := by
      simp [Scalar.toI64, Scalar.toI64T, requireEmpty, toI64Go, hc, hV, h1, h2]
    have hf : Scalar.toF64 (c :: body) = .ok (u64ToF64 (decFrom body (digitVal c))) := by
      simp [Scalar.toF64, f64Body, f64Head, f64Tail, f64Int, hc, hV, h1, n45, hfit]
    rw [serializeScalar_i64 enc _ e _ _ he hi hf]
    simp [hfit]
  · have hf : ∃ e2, Scalar.toF64 (c :: body) = .error e2 := by
      by_cases h1 : decFrom body (digitVal c) ≤ U64_MAX
      · exact ⟨.precisionLoss, by simp [Scalar.toF64, f64Body, f64Head, f64Tail, f64Int, hc, hV, h1, n45, hfit]⟩
      · exact ⟨.overflow, by simp [Scalar.toF64, f64Body, f64Head, f64Tail, f64Int, hc, hV, h1, n45]⟩
    obtain ⟨e2, hf⟩ := hf
    rw [serializeScalar_f64_refused enc _ e e2 he hf]
    simp [hfit]

theorem toBool_minus (rest : Bytes) : ∃ e, Scalar.toBool (45 :: rest) = .error e := by
  unfold Scalar.toBool
  split
  · rename_i h; simp at h
  · rename_i h; simp at h
  · exact ⟨_, rfl⟩

/-- negative digit strings: the number is emitted iff its magnitude is at most 2^53 - 1 -/
theorem serializeScalar_neg_digits (enc : Enc) (c : UInt8) (body : Bytes)
    (hc : isDigit c = true) (hb : allDigits body = true) :
    serializeScalar enc (45 :: c :: body) =
      if decVal (c :: body) ≤ F64_EXACT_MAX then .int (-(decVal (c :: body) : Int))
      else .str (decode enc (45 :: c :: body)) := by
  obtain ⟨e, he⟩ := toBool_minus (c :: body)
  have hV := toU64T2_allDigits body (digitVal c) hb (digitVal_le c)
  have hall : allDigits (c :: body) = true := by
    simp only [allDigits, List.all_cons, Bool.and_eq_true] at *; exact ⟨hc, hb⟩
  have hV0 := toU64T2_allDigits (c :: body) 0 hall (by simp [U64_MAX])
  have hdv : decVal (c :: body) = decFrom body (digitVal c) := by simp [decVal, decFrom]
  have hdv0 : decFrom (c :: body) 0 = decFrom body (digitVal c) := by simp [decFrom]
  obtain ⟨n45, n43, n46⟩ := digit_ne c hc
  rw [hdv]
  rw [hdv0] at hV0
  by_cases hfit : decFrom body (digitVal c) ≤ F64_EXACT_MAX
  · have h1 : decFrom body (digitVal c) ≤ U64_MAX := by simp only [F64_EXACT_MAX, U64_MAX] at *; omega
    have h2 : ¬ decFrom body (digitVal c) > I64_MAX := by simp only [F64_EXACT_MAX, I64_MAX] at *; omega
    have h2' : ¬ 9223372036854775808 < decFrom body (digitVal c) := by
      simp only [F64_EXACT_MAX] at hfit; omega
    have hi : Scalar.toI64 (45 :: c :: body) = .ok (-(decFrom body (digitVal c) : Int)) := by
      simp [Scalar.toI64, Scalar.toI64T, requireEmpty, toI64Go, I64_MIN_ABS, isDigit, hV0, h1, h2']
    have hf : Scalar.toF64 (45 :: c :: body) =
        .ok (if decFrom body (digitVal c) = 0 then 0 else signBit + u64ToF64 (decFrom body (digitVal c))) := by
      simp [Scalar.toF64, f64Body, f64Head, f64Tail, f64Int, hc, hV, h1, h2, hfit]
    rw [serializeScalar_i64 enc _ e _ _ he hi hf]
    simp [hfit]
  · have hf : ∃ e2, Scalar.toF64 (45 :: c :: body) = .error e2 := by
      by_cases h1 : decFrom body (digitVal c) ≤ U64_MAX
      · by_cases h2 : decFrom body (digitVal c) > I64_MAX
        · exact ⟨.overflow, by simp [Scalar.toF64, f64Body, f64Head, f64Tail, f64Int, hc, hV, h1, h2]⟩
        · exact ⟨.precisionLoss, by simp [Scalar.toF64, f64Body, f64Head, f64Tail, f64Int, hc, hV, h1, h2, hfit]⟩
      · exact ⟨.overflow, by simp [Scalar.toF64, f64Body, f64Head, f64Tail, f64Int, hc, hV, h1]⟩
    obtain ⟨e2, hf⟩ := hf
    rw [serializeScalar_f64_refused enc _ e e2 he hf]
    simp [hfit]

/-- (used by C16_narrowing) whether `JsonValueBuilder::serialize` sends a scalar token through `serialize_scalar` -/
def narrows (o : Opts) (quoted : Bool) : Bool :=
  match o.narrow with
  | .all => true
  | .unquoted => !quoted
  | .none => false

/-- whenever `to_u64` and `to_f64` both accept a scalar, so does `to_i64` (with the same value):
`to_f64` accepts a plain integer only up to 2^53 - 1, far below `i64::MAX`.  Hence the arm
`(_, Ok(x), Ok(_)) => s.serialize_u64(x)` of `serialize_scalar` (json/mod.rs:490) is unreachable:
its pattern is only tried after `(Ok(x), _, Ok(_))` has failed. -/
theorem u64_f64_imp_i64 (s : Bytes) (x f : Nat) (hu : Scalar.toU64 s = .ok x) (hf : Scalar.toF64 s = .ok f) :
    Scalar.toI64 s = .ok (x : Int) := by
  obtain ⟨c, data, rfl, h⟩ := (toU64_ok_iff s x).mp hu
  rcases h with ⟨hc, h2⟩ | ⟨rfl, h2⟩
  · have n45 : (c == 45) = false := (digit_ne c hc).1
    have hx : x ≤ F64_EXACT_MAX := by
      simp only [Scalar.toF64, n45, Bool.false_eq_true, if_false, f64Body, f64Head, hc, if_true, h2, f64Tail, f64Int] at hf
      by_cases hle : x > F64_EXACT_MAX
      · simp [hle] at hf
      · omega
    have h3 : ¬ x > I64_MAX := by simp only [F64_EXACT_MAX, I64_MAX] at *; omega
    simp [Scalar.toI64, Scalar.toI64T, requireEmpty, toI64Go, hc, h2, h3]
  · have hx : x ≤ F64_EXACT_MAX := by
      simp only [Scalar.toF64, f64Body, f64Head, f64Tail, f64Int] at hf
      simp [isDigit, h2] at hf
      by_cases hle : x > F64_EXACT_MAX
      · simp [hle] at hf
      · omega
    have h3 : ¬ x > I64_MAX := by simp only [F64_EXACT_MAX, I64_MAX] at *; omega
    simp [Scalar.toI64, Scalar.toI64T, requireEmpty, toI64Go, isDigit, h2, h3]


end Jomini.Json
