import JominiModel.Proofs.WriterGenParse
/-
`write_tape` over the tape of a general container document (objects, arrays of scalars and of
containers, empty containers, headers, any nesting): the walk of `write_object_core` /
`write_value` / the `values()` loop performs exactly the calls of the document (C14 growth).
-/
namespace Jomini.Writer
open Jomini Jomini.Writer.Spec
open Jomini.TextTape (Scal)

def opTok (o : Option Writer.Op) : List Tok := (opOf o).toks.map ofTT

mutual
/-- the writer's view of the tokens of a value whose first token has index `b` -/
def wgV : Nat → GVal → List Tok
  | _, .scal s => [scalTok s.scal]
  | b, .empty _ => [Tok.array (b + 1) false, Tok.end b]
  | b, .obj _ fs => Tok.object (b + 1 + (wgF (b + 1) fs).length) false :: (wgF (b + 1) fs ++ [Tok.end b])
  | b, .arrS _ first rest =>
    Tok.array (b + 1 + (1 + (wgVs (b + 1 + 1) rest).length)) false ::
      (scalTok first.scal :: (wgVs (b + 1 + 1) rest ++ [Tok.end b]))
  | b, .arrC _ first rest =>
    Tok.array (b + 1 + ((wgV (b + 1) first).length + (wgVs (b + 1 + (wgV (b + 1) first).length) rest).length)) false ::
      (wgV (b + 1) first ++ (wgVs (b + 1 + (wgV (b + 1) first).length) rest ++ [Tok.end b]))
def wgF : Nat → GFields → List Tok
  | _, .nil => []
  | b, .cons k o v r =>
    scalTok k.scal :: (opTok o ++ (wgV (b + 1 + (opTok o).length) v ++
      wgF (b + 1 + (opTok o).length + (wgV (b + 1 + (opTok o).length) v).length) r))
  | b, .hdr k o h body r =>
    scalTok k.scal :: (opTok o ++ (Tok.header h :: (wgV (b + 1 + (opTok o).length + 1) body ++
      wgF (b + 1 + (opTok o).length + 1 + (wgV (b + 1 + (opTok o).length + 1) body).length) r)))
def wgVs : Nat → GVals → List Tok
  | _, .nil => []
  | b, .cons v r => wgV b v ++ wgVs (b + (wgV b v).length) r
end

theorem opTok_len (o : Option Writer.Op) : (opTok o).length = (opOf o).toks.length := by simp [opTok]

mutual
theorem wgV_len : ∀ (v : GVal) (b : Nat), (wgV b v).length = TextTape.kcntV (gcontentV v)
  | .scal _, _ => by simp [wgV, gcontentV, TextTape.kcntV]
  | .empty _, _ => by simp [wgV, gcontentV, TextTape.kcntV]
  | .obj _ fs, b => by simp [wgV, gcontentV, TextTape.kcntV, wgF_len fs (b + 1)]; omega
  | .arrS _ first rest, b => by
    simp [wgV, gcontentV, TextTape.kcntV, TextTape.kcntVs, wgVs_len rest (b + 1 + 1)]; omega
  | .arrC _ first rest, b => by
    simp [wgV, gcontentV, TextTape.kcntV, TextTape.kcntVs, wgV_len first (b + 1), wgVs_len rest]; omega
theorem wgF_len : ∀ (fs : GFields) (b : Nat), (wgF b fs).length = TextTape.kcntF (gcontentF fs)
  | .nil, _ => by simp [wgF, gcontentF, TextTape.kcntF]
  | .cons k o v r, b => by
    simp [wgF, gcontentF, TextTape.kcntF, opTok_len, wgV_len v, wgF_len r]; omega
  | .hdr k o h body r, b => by
    simp [wgF, gcontentF, TextTape.kcntF, TextTape.kcntV, opTok_len, wgV_len body, wgF_len r]; omega
theorem wgVs_len : ∀ (vs : GVals) (b : Nat), (wgVs b vs).length = TextTape.kcntVs (gcontentVs vs)
  | .nil, _ => by simp [wgVs, gcontentVs, TextTape.kcntVs]
  | .cons v r, b => by simp [wgVs, gcontentVs, TextTape.kcntVs, wgV_len v, wgVs_len r]
end

theorem ofTT_array (e : Nat) (m : Bool) : ofTT (.array e m) = Tok.array e m := rfl
theorem ofTT_object (e : Nat) (m : Bool) : ofTT (.object e m) = Tok.object e m := rfl
theorem ofTT_end (i : Nat) : ofTT (.endTok i) = Tok.end i := rfl
theorem ofTT_header (h : Bytes) : ofTT (.header ⟨0, h⟩) = Tok.header h := rfl

mutual
theorem wgV_eq : ∀ (v : GVal) (b : Nat), (TextTape.ktapeV (gcontentV v) b).map ofTT = wgV b v
  | .scal _, _ => by simp [wgV, gcontentV, TextTape.ktapeV, ofTT_scal]
  | .empty _, _ => by simp [wgV, gcontentV, TextTape.ktapeV, ofTT_array, ofTT_end]
  | .obj _ fs, b => by
    simp [wgV, gcontentV, TextTape.ktapeV, ofTT_object, ofTT_end, wgF_eq fs (b + 1), wgF_len fs (b + 1)]
  | .arrS _ first rest, b => by
    simp [wgV, gcontentV, TextTape.ktapeV, TextTape.ktapeVs, TextTape.kcntVs, TextTape.kcntV, ofTT_array, ofTT_end,
      ofTT_scal, wgVs_eq rest, wgVs_len rest]
  | .arrC _ first rest, b => by
    simp [wgV, gcontentV, TextTape.ktapeV, TextTape.ktapeVs, TextTape.kcntVs, ofTT_array, ofTT_end,
      wgV_eq first (b + 1), wgV_len first, wgVs_eq rest, wgVs_len rest]
theorem wgF_eq : ∀ (fs : GFields) (b : Nat), (TextTape.ktapeF (gcontentF fs) b).map ofTT = wgF b fs
  | .nil, _ => rfl
  | .cons k o v r, b => by
    simp only [gcontentF, TextTape.ktapeF, wgF, List.map_append, List.map_cons, List.map_nil, ofTT_scal,
      wgV_eq v, wgF_eq r, opTok_len, wgV_len v, opTok]
    simp [List.append_assoc, Nat.add_assoc]
  | .hdr k o h body r, b => by
    simp only [gcontentF, TextTape.ktapeF, TextTape.ktapeV, TextTape.kcntV, wgF, List.map_append, List.map_cons,
      List.map_nil, ofTT_scal, wgV_eq body, wgF_eq r, opTok_len, wgV_len body, opTok, ofTT_header]
    simp [List.append_assoc, Nat.add_assoc, Nat.add_comm, Nat.add_left_comm]
theorem wgVs_eq : ∀ (vs : GVals) (b : Nat), (TextTape.ktapeVs (gcontentVs vs) b).map ofTT = wgVs b vs
  | .nil, _ => rfl
  | .cons v r, b => by simp [gcontentVs, TextTape.ktapeVs, wgVs, wgV_eq v, wgVs_eq r, wgV_len v]
end

/-! ### unfolding the tape walk -/

theorem writeValues_step (toks : List Tok) (f i e nx : Nat) (s : State) (hlt : i < e)
    (hn : nextIdxValues toks i = .ok nx) :
    writeValues toks (f + 1) i e s = bindE (writeValue toks f i s) (fun s' => writeValues toks f nx e s') := by
  conv => lhs; unfold writeValues
  simp only [hlt, if_true, hn]
  rfl

theorem writeValues_done (toks : List Tok) (f i e : Nat) (s : State) (h : ¬ i < e) :
    writeValues toks (f + 1) i e s = .ok s := by
  unfold writeValues; simp [h]

theorem nextIdx_header (toks : List Tok) (n i : Nat) (h : Bytes) (h0 : toks[i]? = some (.header h)) :
    nextIdx toks (n + 1) i = nextIdxHeader toks (i + 1) := by
  conv => lhs; unfold nextIdx
  simp [h0]

theorem writeValue_header (toks : List Tok) (f i nx y : Nat) (h : Bytes) (s : State)
    (h0 : toks[i]? = some (.header h)) (hn : nextIdx toks (toks.length + 1) (i + 1) = .ok nx)
    (hlt : i + 1 < nx) (hy : nextIdxValues toks (i + 1) = .ok y) :
    writeValue toks (f + 1) i s = writeValue toks f (i + 1) (writeHeader s h) := by
  conv => lhs; unfold writeValue
  have h1 : i < nx := by omega
  simp [h0, hn, hlt, h1, hy]

theorem nextIdxValues_array (toks : List Tok) (i e : Nat) (m : Bool) (h : toks[i]? = some (.array e m)) :
    nextIdxValues toks i = .ok (e + 1) := by unfold nextIdxValues; simp [h]
theorem nextIdxValues_object (toks : List Tok) (i e : Nat) (m : Bool) (h : toks[i]? = some (.object e m)) :
    nextIdxValues toks i = .ok (e + 1) := by unfold nextIdxValues; simp [h]
theorem nextIdxHeader_array (toks : List Tok) (i e : Nat) (m : Bool) (h : toks[i]? = some (.array e m)) :
    nextIdxHeader toks i = .ok (e + 1) := by unfold nextIdxHeader; simp [h]
theorem nextIdxHeader_object (toks : List Tok) (i e : Nat) (m : Bool) (h : toks[i]? = some (.object e m)) :
    nextIdxHeader toks i = .ok (e + 1) := by unfold nextIdxHeader; simp [h]
theorem nextIdxHeader_scal (toks : List Tok) (i : Nat) (v : Scal) (h : toks[i]? = some (scalTok v)) :
    nextIdxHeader toks i = .ok (i + 1) := by
  unfold nextIdxHeader
  unfold scalTok at h
  by_cases hq : v.quoted = true
  · simp [hq] at h; simp [h]
  · simp [hq] at h; simp [h]

/-- the first token of a value is no operator, and every `next_idx*` jumps over the whole value -/
theorem wgV_first (b : Nat) (v : GVal) : ∃ t tl, wgV b v = t :: tl ∧ (∀ x, t ≠ Tok.operator x) ∧
    (∀ (toks : List Tok), toks[b]? = some t →
      (∀ n, nextIdx toks (n + 1) b = .ok (b + (wgV b v).length)) ∧
      nextIdxValues toks b = .ok (b + (wgV b v).length) ∧
      nextIdxHeader toks b = .ok (b + (wgV b v).length)) := by
  cases v with
  | scal sc =>
    refine ⟨scalTok sc.scal, [], by simp [wgV], ?_, ?_⟩
    · intro x; unfold scalTok; split <;> simp
    · intro toks h
      exact ⟨fun n => by rw [nextIdx_scal toks n b sc.scal h]; simp [wgV],
        by rw [nextIdxValues_scal toks b sc.scal h]; simp [wgV],
        by rw [nextIdxHeader_scal toks b sc.scal h]; simp [wgV]⟩
  | empty fl =>
    refine ⟨_, _, by rw [wgV], by simp, ?_⟩
    intro toks h
    exact ⟨fun n => by rw [nextIdx_array toks n b _ _ h]; simp [wgV],
      by rw [nextIdxValues_array toks b _ _ h]; simp [wgV],
      by rw [nextIdxHeader_array toks b _ _ h]; simp [wgV]⟩
  | obj fl fs =>
    refine ⟨_, _, by rw [wgV], by simp, ?_⟩
    intro toks h
    exact ⟨fun n => by rw [nextIdx_object toks n b _ _ h, wgV]; simp; omega,
      by rw [nextIdxValues_object toks b _ _ h, wgV]; simp; omega,
      by rw [nextIdxHeader_object toks b _ _ h, wgV]; simp; omega⟩
  | arrS u a r =>
    refine ⟨_, _, by rw [wgV], by simp, ?_⟩
    intro toks h
    exact ⟨fun n => by rw [nextIdx_array toks n b _ _ h, wgV]; simp; omega,
      by rw [nextIdxValues_array toks b _ _ h, wgV]; simp; omega,
      by rw [nextIdxHeader_array toks b _ _ h, wgV]; simp; omega⟩
  | arrC u a r =>
    refine ⟨_, _, by rw [wgV], by simp, ?_⟩
    intro toks h
    exact ⟨fun n => by rw [nextIdx_array toks n b _ _ h, wgV]; simp; omega,
      by rw [nextIdxValues_array toks b _ _ h, wgV]; simp; omega,
      by rw [nextIdxHeader_array toks b _ _ h, wgV]; simp; omega⟩

theorem writeEnd_depth (s : State) (m : DepthMode) (rest : List DepthMode) (h : s.depth = m :: rest) :
    ∃ s', writeEnd s = .ok s' ∧ s'.depth = rest := by
  unfold writeEnd; rw [h]
  refine ⟨_, rfl, ?_⟩
  simp only [put]
  split <;> simp [writeIndent_eq, put]

theorem writeOperator_depth (s : State) (o : Writer.Op) : (writeOperator s o).depth = s.depth := by
  unfold writeOperator; split <;> (try split) <;> rfl

theorem writeHeader_depth (s : State) (h : Bytes) : (writeHeader s h).depth = s.depth := by
  simp [writeHeader, put, writePreamble_depth]

theorem writeArrayStart_depth (s : State) : (writeArrayStart s).depth = s.mode :: s.depth := by
  simp [writeArrayStart, writeStart, put, writePreamble_depth, writePreamble_mode]

theorem writeObjectStart_depth (s : State) : (writeObjectStart s).depth = s.mode :: s.depth := by
  simp [writeObjectStart, writeStart, put, writePreamble_depth, writePreamble_mode]

mutual
def needGV : GVal → Nat
  | .scal _ => 1
  | .empty _ => 3
  | .obj _ fs => 2 + needGF fs
  | .arrS _ _ rest => 4 + needGVs rest
  | .arrC _ first rest => 3 + needGV first + needGVs rest
def needGF : GFields → Nat
  | .nil => 1
  | .cons _ _ v r => 2 + needGV v + needGF r
  | .hdr _ _ _ body r => 3 + needGV body + needGF r
def needGVs : GVals → Nat
  | .nil => 1
  | .cons v r => 1 + needGV v + needGVs r
end

theorem opTok_canon (o : Option Writer.Op) (h : o ≠ some .eq) :
    opTok o = (match o with | none => [] | some x => [Tok.operator x]) := opToks_canon o h

mutual
theorem WV : ∀ (v : GVal) (toks pre post : List Tok) (i fuel : Nat) (s : State),
    i = pre.length → toks = pre ++ (wgV i v ++ post) → needGV v ≤ fuel → v.Canon →
    writeValue toks fuel i s = .ok (run (gcallsV v) s).1 ∧ (run (gcallsV v) s).1.depth = s.depth
  | .scal sc, toks, pre, post, i, fuel, s, hi, ht, hf, _ => by
    obtain ⟨f', rfl⟩ : ∃ f', fuel = f' + 1 := ⟨fuel - 1, by simp [needGV] at hf; omega⟩
    have h0 : toks[i]? = some (scalTok sc.scal) := by rw [ht, hi]; simp [wgV]
    rw [writeValue_scal toks f' i s sc.scal h0]
    obtain ⟨s', hs'⟩ := writeRaw_ok s sc.scal.text
    have hst := (step_scall s sc).trans hs'
    rw [hs', gcallsV, run_single_ok hst]
    exact ⟨rfl, step_scall_depth s s' sc hst⟩
  | .empty fl, toks, pre, post, i, fuel, s, hi, ht, hf, hc => by
    simp only [GVal.Canon] at hc
    subst hc
    obtain ⟨f', rfl⟩ : ∃ f', fuel = f' + 1 + 1 := ⟨fuel - 2, by simp [needGV] at hf; omega⟩
    have h0 : toks[i]? = some (Tok.array (i + 1) false) := by rw [ht, hi]; simp [wgV]
    rw [writeValue_array toks (f' + 1) i _ false s h0, writeValues_done toks f' (i + 1) (i + 1) _ (by omega)]
    simp only [bindE]
    obtain ⟨s3, h3, hd3⟩ := writeEnd_depth (writeArrayStart s) s.mode s.depth (writeArrayStart_depth s)
    rw [h3]
    simp only [gcallsV, Flavour.call]
    rw [run_cons_ok (s1 := writeArrayStart s) _ rfl, run_single_ok ((step_end _).trans h3)]
    exact ⟨rfl, hd3⟩
  | .obj fl fs, toks, pre, post, i, fuel, s, hi, ht, hf, hc => by
    simp only [GVal.Canon] at hc
    obtain ⟨hfl, hcf⟩ := hc
    subst hfl
    obtain ⟨f', rfl⟩ : ∃ f', fuel = f' + 1 := ⟨fuel - 1, by simp [needGV] at hf; omega⟩
    rw [wgV] at ht
    have h0 : toks[i]? = some (Tok.object (i + 1 + (wgF (i + 1) fs).length) false) := by rw [ht, hi]; simp
    rw [writeValue_object toks f' i _ false s h0]
    obtain ⟨hw, hd⟩ := WF fs toks (pre ++ [Tok.object (i + 1 + (wgF (i + 1) fs).length) false]) (Tok.end i :: post)
      (i + 1) (i + 1 + (wgF (i + 1) fs).length) f' (writeObjectStart s) (by simp [hi]) rfl (by rw [ht]; simp)
      (by simp only [needGV] at hf; omega) hcf
    rw [hw]
    simp only [bindE]
    obtain ⟨s3, h3, hd3⟩ := writeEnd_depth _ s.mode s.depth (hd.trans (writeObjectStart_depth s))
    rw [h3]
    simp only [gcallsV, Flavour.call]
    rw [run_cons_ok (s1 := writeObjectStart s) _ rfl, run_append, run_single_ok ((step_end _).trans h3)]
    exact ⟨rfl, hd3⟩
  | .arrS u first rest, toks, pre, post, i, fuel, s, hi, ht, hf, hc => by
    simp only [GVal.Canon] at hc
    obtain ⟨hu, hcr⟩ := hc
    subst hu
    obtain ⟨f', rfl⟩ : ∃ f', fuel = f' + 1 + 1 + 1 := ⟨fuel - 3, by simp [needGV] at hf; omega⟩
    rw [wgV] at ht
    have h0 : toks[i]? = some (Tok.array (i + 1 + (1 + (wgVs (i + 1 + 1) rest).length)) false) := by rw [ht, hi]; simp
    have h1 : toks[i + 1]? = some (scalTok first.scal) := by rw [ht, hi]; simp
    rw [writeValue_array toks (f' + 1 + 1) i _ false s h0]
    rw [writeValues_step toks (f' + 1) (i + 1) _ (i + 1 + 1) _ (by omega) (nextIdxValues_scal toks (i + 1) first.scal h1)]
    rw [writeValue_scal toks f' (i + 1) _ first.scal h1]
    obtain ⟨s2, hs2⟩ := writeRaw_ok (writeArrayStart s) first.scal.text
    have hst2 := (step_scall (writeArrayStart s) first).trans hs2
    rw [hs2]
    simp only [bindE]
    obtain ⟨hw, hd⟩ := WVs rest toks (pre ++ [Tok.array (i + 1 + (1 + (wgVs (i + 1 + 1) rest).length)) false, scalTok first.scal])
      (Tok.end i :: post) (i + 1 + 1) (i + 1 + (1 + (wgVs (i + 1 + 1) rest).length)) (f' + 1) s2 (by simp [hi])
      (by omega) (by rw [ht]; simp) (by simp only [needGV] at hf; omega) hcr
    rw [hw]
    simp only []
    have hd2 : (run (gcallsVs rest) s2).1.depth = s.mode :: s.depth := by
      rw [hd, step_scall_depth _ s2 first hst2, writeArrayStart_depth]
    obtain ⟨s3, h3, hd3⟩ := writeEnd_depth _ _ _ hd2
    rw [h3]
    simp only [gcallsV, arrFl, Bool.false_eq_true, if_false, Flavour.call]
    rw [run_cons_ok (s1 := writeArrayStart s) _ rfl, run_cons_ok _ hst2, run_append, run_single_ok ((step_end _).trans h3)]
    exact ⟨rfl, hd3⟩
  | .arrC u first rest, toks, pre, post, i, fuel, s, hi, ht, hf, hc => by
    simp only [GVal.Canon] at hc
    obtain ⟨hu, hcf, hcr⟩ := hc
    subst hu
    obtain ⟨f', rfl⟩ : ∃ f', fuel = f' + 1 + 1 := ⟨fuel - 2, by simp [needGV] at hf; omega⟩
    rw [wgV] at ht
    obtain ⟨t, tl, hwt, _, hnx⟩ := wgV_first (i + 1) first
    have h0 : toks[i]? = some (Tok.array (i + 1 + ((wgV (i + 1) first).length + (wgVs (i + 1 + (wgV (i + 1) first).length) rest).length)) false) := by
      rw [ht, hi]; simp
    have h1 : toks[i + 1]? = some t := by rw [ht, hwt, hi]; simp
    rw [writeValue_array toks (f' + 1) i _ false s h0]
    have hlen1 : 1 ≤ (wgV (i + 1) first).length := by rw [hwt]; simp
    rw [writeValues_step toks f' (i + 1) _ _ _ (by omega) (hnx toks h1).2.1]
    obtain ⟨hw1, hd1⟩ := WV first toks (pre ++ [Tok.array (i + 1 + ((wgV (i + 1) first).length + (wgVs (i + 1 + (wgV (i + 1) first).length) rest).length)) false])
      (wgVs (i + 1 + (wgV (i + 1) first).length) rest ++ Tok.end i :: post) (i + 1) f' (writeArrayStart s) (by simp [hi])
      (by rw [ht]; simp) (by simp only [needGV] at hf; omega) hcf
    rw [hw1]
    simp only [bindE]
    obtain ⟨hw, hd⟩ := WVs rest toks (pre ++ [Tok.array (i + 1 + ((wgV (i + 1) first).length + (wgVs (i + 1 + (wgV (i + 1) first).length) rest).length)) false] ++ wgV (i + 1) first)
      (Tok.end i :: post) (i + 1 + (wgV (i + 1) first).length) (i + 1 + ((wgV (i + 1) first).length + (wgVs (i + 1 + (wgV (i + 1) first).length) rest).length)) f'
      (run (gcallsV first) (writeArrayStart s)).1 (by simp [hi]; omega)
      (by omega) (by rw [ht]; simp) (by simp only [needGV] at hf; omega) hcr
    rw [hw]
    simp only []
    have hd2 : (run (gcallsVs rest) (run (gcallsV first) (writeArrayStart s)).1).1.depth = s.mode :: s.depth := by
      rw [hd, hd1, writeArrayStart_depth]
    obtain ⟨s3, h3, hd3⟩ := writeEnd_depth _ _ _ hd2
    rw [h3]
    simp only [gcallsV, arrFl, Bool.false_eq_true, if_false, Flavour.call]
    rw [run_cons_ok (s1 := writeArrayStart s) _ rfl, run_append, run_append, run_single_ok ((step_end _).trans h3)]
    exact ⟨rfl, hd3⟩
theorem WF : ∀ (fs : GFields) (toks pre post : List Tok) (i e fuel : Nat) (s : State),
    i = pre.length → e = i + (wgF i fs).length → toks = pre ++ (wgF i fs ++ post) → needGF fs ≤ fuel → fs.Canon →
    writeObjectCore toks fuel i e s = .ok (run (gcallsF fs) s).1 ∧ (run (gcallsF fs) s).1.depth = s.depth
  | .nil, toks, pre, post, i, e, fuel, s, hi, he, ht, hf, _ => by
    obtain ⟨f', rfl⟩ : ∃ f', fuel = f' + 1 := ⟨fuel - 1, by simp [needGF] at hf; omega⟩
    unfold writeObjectCore
    simp [he, wgF, gcallsF, run]
  | .cons k o v r, toks, pre, post, i, e, fuel, s, hi, he, ht, hf, hc => by
    obtain ⟨f', rfl⟩ : ∃ f', fuel = f' + 1 + 1 := ⟨fuel - 2, by simp [needGF] at hf; omega⟩
    simp only [GFields.Canon] at hc
    obtain ⟨hoc, hcv, hcr⟩ := hc
    have hfv : needGV v ≤ f' + 1 := by simp only [needGF] at hf; omega
    have hfr : needGF r ≤ f' + 1 := by simp only [needGF] at hf; omega
    simp only [wgF] at ht he
    rw [opTok_canon o hoc] at ht he
    have hie : i < e := by rw [he]; simp
    have h0 : toks[i]? = some (scalTok k.scal) := by rw [ht, hi]; simp
    obtain ⟨s1, hk⟩ := writeRaw_ok s k.scal.text
    have hst1 := (step_scall s k).trans hk
    have hd1 : s1.depth = s.depth := step_scall_depth s s1 k hst1
    have hrun1 : (run (gcallsF (.cons k o v r)) s).1 = (run (opCalls o ++ (gcallsV v ++ gcallsF r)) s1).1 := by
      simp only [gcallsF]
      exact run_cons_ok _ hst1
    cases o with
    | none =>
      simp only [List.length_nil, Nat.add_zero, List.nil_append] at ht he
      obtain ⟨t, tl, hwt, hno, hnx⟩ := wgV_first (i + 1) v
      have h1 : toks[i + 1]? = some t := by rw [ht, hwt, hi]; simp
      rw [core_unfold_gen toks f' i e _ s k.scal t hie h0 h1 hno ((hnx toks h1).1 _), hk]
      simp only [bindE]
      obtain ⟨hwv, hdv⟩ := WV v toks (pre ++ [scalTok k.scal]) (wgF (i + 1 + (wgV (i + 1) v).length) r ++ post)
        (i + 1) (f' + 1) s1 (by simp [hi]) (by rw [ht]; simp) hfv hcv
      rw [hwv]
      simp only []
      obtain ⟨hwf, hdf⟩ := WF r toks (pre ++ [scalTok k.scal] ++ wgV (i + 1) v) post
        (i + 1 + (wgV (i + 1) v).length) e (f' + 1) (run (gcallsV v) s1).1
        (by simp [hi]; omega) (by rw [he]; simp; omega) (by rw [ht]; simp) hfr hcr
      rw [hwf, hrun1]
      refine ⟨by simp [opCalls, run_append], ?_⟩
      simp only [opCalls, List.nil_append, run_append]
      rw [hdf, hdv, hd1]
    | some o' =>
      simp only [List.length_cons, List.length_nil, Nat.zero_add, List.cons_append, List.nil_append] at ht he
      obtain ⟨t, tl, hwt, hno, hnx⟩ := wgV_first (i + 1 + 1) v
      have h1 : toks[i + 1]? = some (Tok.operator o') := by rw [ht, hi]; simp
      have h2 : toks[i + 2]? = some t := by rw [ht, hwt, hi]; simp
      rw [core_unfold_gen_op toks f' i e _ s k.scal o' hie h0 h1 ((hnx toks h2).1 _), hk]
      simp only [bindE]
      obtain ⟨hwv, hdv⟩ := WV v toks (pre ++ [scalTok k.scal, Tok.operator o'])
        (wgF (i + 1 + 1 + (wgV (i + 1 + 1) v).length) r ++ post)
        (i + 1 + 1) (f' + 1) (writeOperator s1 o') (by simp [hi]) (by rw [ht]; simp) hfv hcv
      rw [hwv]
      simp only []
      obtain ⟨hwf, hdf⟩ := WF r toks (pre ++ [scalTok k.scal, Tok.operator o'] ++ wgV (i + 1 + 1) v) post
        (i + 1 + 1 + (wgV (i + 1 + 1) v).length) e (f' + 1) (run (gcallsV v) (writeOperator s1 o')).1
        (by simp [hi]; omega) (by rw [he]; simp; omega) (by rw [ht]; simp) hfr hcr
      rw [hwf, hrun1]
      refine ⟨by simp [opCalls, run_append, run, step_operator], ?_⟩
      simp only [opCalls, List.cons_append, List.nil_append, run_append, run_cons_ok _ (step_operator s1 o')]
      rw [hdf, hdv, writeOperator_depth, hd1]
  | .hdr k o h body r, toks, pre, post, i, e, fuel, s, hi, he, ht, hf, hc => by
    obtain ⟨f', rfl⟩ : ∃ f', fuel = f' + 1 + 1 + 1 := ⟨fuel - 3, by simp [needGF] at hf; omega⟩
    simp only [GFields.Canon] at hc
    obtain ⟨hoc, hcv, hcr⟩ := hc
    have hfv : needGV body ≤ f' + 1 := by simp only [needGF] at hf; omega
    have hfr : needGF r ≤ f' + 1 + 1 := by simp only [needGF] at hf; omega
    simp only [wgF] at ht he
    rw [opTok_canon o hoc] at ht he
    have hie : i < e := by rw [he]; simp
    have h0 : toks[i]? = some (scalTok k.scal) := by rw [ht, hi]; simp
    obtain ⟨s1, hk⟩ := writeRaw_ok s k.scal.text
    have hst1 := (step_scall s k).trans hk
    have hd1 : s1.depth = s.depth := step_scall_depth s s1 k hst1
    have hrun1 : (run (gcallsF (.hdr k o h body r)) s).1 =
        (run (opCalls o ++ (Call.header h :: (gcallsV body ++ gcallsF r))) s1).1 := by
      simp only [gcallsF]
      exact run_cons_ok _ hst1
    cases o with
    | none =>
      simp only [List.length_nil, Nat.add_zero, List.nil_append] at ht he
      obtain ⟨t, tl, hwt, _, hnx⟩ := wgV_first (i + 1 + 1) body
      have hlen1 : 1 ≤ (wgV (i + 1 + 1) body).length := by rw [hwt]; simp
      have h1 : toks[i + 1]? = some (Tok.header h) := by rw [ht, hi]; simp
      have h2 : toks[i + 1 + 1]? = some t := by
        show toks[i + 2]? = some t
        rw [ht, hwt, hi]; simp
      have hn : nextIdx toks (toks.length + 1) (i + 1) = .ok (i + 1 + 1 + (wgV (i + 1 + 1) body).length) := by
        rw [nextIdx_header toks _ (i + 1) h h1]; exact (hnx toks h2).2.2
      rw [core_unfold_gen toks (f' + 1) i e _ s k.scal (Tok.header h) hie h0 h1 (by simp) hn, hk]
      simp only [bindE]
      rw [writeValue_header toks (f' + 1) (i + 1) _ _ h s1 h1 ((hnx toks h2).1 _) (by omega) (hnx toks h2).2.1]
      obtain ⟨hwv, hdv⟩ := WV body toks (pre ++ [scalTok k.scal, Tok.header h])
        (wgF (i + 1 + 1 + (wgV (i + 1 + 1) body).length) r ++ post)
        (i + 1 + 1) (f' + 1) (writeHeader s1 h) (by simp [hi]) (by rw [ht]; simp) hfv hcv
      rw [hwv]
      simp only []
      obtain ⟨hwf, hdf⟩ := WF r toks (pre ++ [scalTok k.scal, Tok.header h] ++ wgV (i + 1 + 1) body) post
        (i + 1 + 1 + (wgV (i + 1 + 1) body).length) e (f' + 1 + 1) (run (gcallsV body) (writeHeader s1 h)).1
        (by simp [hi]; omega) (by rw [he]; simp; omega) (by rw [ht]; simp) hfr hcr
      rw [hwf, hrun1]
      refine ⟨by simp [opCalls, run_append, run_cons_ok _ (step_header s1 h)], ?_⟩
      simp only [opCalls, List.nil_append, run_cons_ok _ (step_header s1 h), run_append]
      rw [hdf, hdv, writeHeader_depth, hd1]
    | some o' =>
      simp only [List.length_cons, List.length_nil, Nat.zero_add, List.cons_append, List.nil_append] at ht he
      obtain ⟨t, tl, hwt, _, hnx⟩ := wgV_first (i + 1 + 1 + 1) body
      have hlen1 : 1 ≤ (wgV (i + 1 + 1 + 1) body).length := by rw [hwt]; simp
      have h1 : toks[i + 1]? = some (Tok.operator o') := by rw [ht, hi]; simp
      have h2 : toks[i + 2]? = some (Tok.header h) := by rw [ht, hi]; simp
      have h3 : toks[i + 2 + 1]? = some t := by
        show toks[i + 3]? = some t
        rw [ht, hwt, hi]; simp
      have hn : nextIdx toks (toks.length + 1) (i + 2) = .ok (i + 2 + 1 + (wgV (i + 1 + 1 + 1) body).length) := by
        rw [nextIdx_header toks _ (i + 2) h h2]; exact (hnx toks h3).2.2
      rw [core_unfold_gen_op toks (f' + 1) i e _ s k.scal o' hie h0 h1 hn, hk]
      simp only [bindE]
      rw [writeValue_header toks (f' + 1) (i + 2) _ _ h (writeOperator s1 o') h2 ((hnx toks h3).1 _) (by omega) (hnx toks h3).2.1]
      obtain ⟨hwv, hdv⟩ := WV body toks (pre ++ [scalTok k.scal, Tok.operator o', Tok.header h])
        (wgF (i + 1 + 1 + 1 + (wgV (i + 1 + 1 + 1) body).length) r ++ post)
        (i + 1 + 1 + 1) (f' + 1) (writeHeader (writeOperator s1 o') h) (by simp [hi]) (by rw [ht]; simp) hfv hcv
      rw [hwv]
      simp only []
      obtain ⟨hwf, hdf⟩ := WF r toks (pre ++ [scalTok k.scal, Tok.operator o', Tok.header h] ++ wgV (i + 1 + 1 + 1) body) post
        (i + 1 + 1 + 1 + (wgV (i + 1 + 1 + 1) body).length) e (f' + 1 + 1) (run (gcallsV body) (writeHeader (writeOperator s1 o') h)).1
        (by simp [hi]; omega) (by rw [he]; simp; omega) (by rw [ht]; simp) hfr hcr
      rw [hwf, hrun1]
      refine ⟨by simp [opCalls, run_append, run_cons_ok _ (step_operator s1 o'), run_cons_ok _ (step_header (writeOperator s1 o') h)], ?_⟩
      simp only [opCalls, List.cons_append, List.nil_append, run_cons_ok _ (step_operator s1 o'),
        run_cons_ok _ (step_header (writeOperator s1 o') h), run_append]
      rw [hdf, hdv, writeHeader_depth, writeOperator_depth, hd1]
theorem WVs : ∀ (vs : GVals) (toks pre post : List Tok) (i e fuel : Nat) (s : State),
    i = pre.length → e = i + (wgVs i vs).length → toks = pre ++ (wgVs i vs ++ post) → needGVs vs ≤ fuel → vs.Canon →
    writeValues toks fuel i e s = .ok (run (gcallsVs vs) s).1 ∧ (run (gcallsVs vs) s).1.depth = s.depth
  | .nil, toks, pre, post, i, e, fuel, s, hi, he, ht, hf, _ => by
    obtain ⟨f', rfl⟩ : ∃ f', fuel = f' + 1 := ⟨fuel - 1, by simp [needGVs] at hf; omega⟩
    rw [writeValues_done toks f' i e s (by rw [he]; simp [wgVs])]
    simp [gcallsVs, run]
  | .cons v r, toks, pre, post, i, e, fuel, s, hi, he, ht, hf, hc => by
    simp only [GVals.Canon] at hc
    obtain ⟨f', rfl⟩ : ∃ f', fuel = f' + 1 := ⟨fuel - 1, by simp [needGVs] at hf; omega⟩
    simp only [wgVs] at ht he
    obtain ⟨t, tl, hwt, _, hnx⟩ := wgV_first i v
    have h0 : toks[i]? = some t := by rw [ht, hwt, hi]; simp
    have hlen1 : 1 ≤ (wgV i v).length := by rw [hwt]; simp
    rw [writeValues_step toks f' i e _ s (by rw [he]; simp; omega) (hnx toks h0).2.1]
    obtain ⟨hw1, hd1⟩ := WV v toks pre (wgVs (i + (wgV i v).length) r ++ post) i f' s hi (by rw [ht]; simp)
      (by simp only [needGVs] at hf; omega) hc.1
    rw [hw1]
    simp only [bindE]
    obtain ⟨hw, hd⟩ := WVs r toks (pre ++ wgV i v) post (i + (wgV i v).length) e f' (run (gcallsV v) s).1
      (by simp [hi]) (by rw [he]; simp; omega) (by rw [ht]; simp) (by simp only [needGVs] at hf; omega) hc.2
    rw [hw]
    simp only [gcallsVs, run_append]
    exact ⟨trivial, by rw [hd, hd1]⟩
end

mutual
theorem needGV_le : ∀ (v : GVal) (b : Nat), needGV v + 1 ≤ 3 * (wgV b v).length
  | .scal _, _ => by simp [needGV, wgV]
  | .empty _, _ => by simp [needGV, wgV]
  | .obj _ fs, b => by
    have := needGF_le fs (b + 1)
    simp only [needGV, wgV, List.length_cons, List.length_append, List.length_nil]; omega
  | .arrS _ _ rest, b => by
    have := needGVs_le rest (b + 1 + 1)
    simp only [needGV, wgV, List.length_cons, List.length_append, List.length_nil]; omega
  | .arrC _ first rest, b => by
    have h1 := needGV_le first (b + 1)
    have h2 := needGVs_le rest (b + 1 + (wgV (b + 1) first).length)
    simp only [needGV, wgV, List.length_cons, List.length_append, List.length_nil]; omega
theorem needGF_le : ∀ (fs : GFields) (b : Nat), needGF fs ≤ 3 * (wgF b fs).length + 1
  | .nil, _ => by simp [needGF]
  | .cons k o v r, b => by
    have h1 := needGV_le v (b + 1 + (opTok o).length)
    have h2 := needGF_le r (b + 1 + (opTok o).length + (wgV (b + 1 + (opTok o).length) v).length)
    simp only [needGF, wgF, List.length_cons, List.length_append]; omega
  | .hdr k o h body r, b => by
    have h1 := needGV_le body (b + 1 + (opTok o).length + 1)
    have h2 := needGF_le r (b + 1 + (opTok o).length + 1 + (wgV (b + 1 + (opTok o).length + 1) body).length)
    simp only [needGF, wgF, List.length_cons, List.length_append]; omega
theorem needGVs_le : ∀ (vs : GVals) (b : Nat), needGVs vs ≤ 3 * (wgVs b vs).length + 1
  | .nil, _ => by simp [needGVs]
  | .cons v r, b => by
    have h1 := needGV_le v b
    have h2 := needGVs_le r (b + (wgV b v).length)
    simp only [needGVs, wgVs, List.length_append]; omega
end

/-- `write_tape` over the tape of a general container document performs exactly its calls -/
theorem writeTape_gen (fs : GFields) (hc : fs.Canon) (c : UInt8) (f : Nat) :
    writeTape (wgF 0 fs) (State.init c f) = .ok (run (gcallsF fs) (State.init c f)).1 := by
  have hb := needGF_le fs 0
  have := (WF fs (wgF 0 fs) [] [] 0 (0 + (wgF 0 fs).length) (4 * (wgF 0 fs).length + 8) (State.init c f)
    rfl rfl (by simp) (by omega) hc).1
  simpa [writeTape] using this

mutual
/-- the canonical form of a good document satisfies the state-machine side conditions -/
theorem opened_of_canonV : ∀ (v : GVal), v.Canon → v.Good → v.Opened
  | .scal _, _, _ => trivial
  | .empty _, _, _ => trivial
  | .obj fl (.cons k o v r), hc, hg => by
    simp only [GVal.Canon] at hc
    simp only [GVal.Good] at hg
    refine ⟨(by intro h; cases h), fun h => absurd hc.1 h, ?_⟩
    have := hc.2
    simp only [GFields.Canon] at this
    exact ⟨opened_of_canonV v this.2.1 hg.2.1, opened_of_canonF r this.2.2 hg.2.2⟩
  | .obj fl .nil, _, hg => by simp [GVal.Good] at hg
  | .obj fl (.hdr ..), _, hg => by simp [GVal.Good] at hg
  | .arrS _ _ rest, hc, hg => by
    simp only [GVal.Canon] at hc
    simp only [GVal.Good] at hg
    exact opened_of_canonVs rest hc.2 hg.2
  | .arrC _ first rest, hc, hg => by
    simp only [GVal.Canon] at hc
    simp only [GVal.Good] at hg
    refine ⟨?_, opened_of_canonV first hc.2.1 hg.2.1, opened_of_canonVs rest hc.2.2 hg.2.2⟩
    cases first <;> simp [GVal.isContainer, GVal.isBraced] at hg ⊢
theorem opened_of_canonF : ∀ (fs : GFields), fs.Canon → fs.Good → fs.Opened
  | .nil, _, _ => trivial
  | .cons k o v r, hc, hg => by
    simp only [GFields.Canon] at hc
    simp only [GFields.Good] at hg
    exact ⟨opened_of_canonV v hc.2.1 hg.2.1, opened_of_canonF r hc.2.2 hg.2.2⟩
  | .hdr k o h body r, hc, hg => by
    simp only [GFields.Canon] at hc
    simp only [GFields.Good] at hg
    exact ⟨opened_of_canonV body hc.2.1 hg.2.2.2.1, opened_of_canonF r hc.2.2 hg.2.2.2.2⟩
theorem opened_of_canonVs : ∀ (vs : GVals), vs.Canon → vs.Good → vs.Opened
  | .nil, _, _ => trivial
  | .cons v r, hc, hg => by
    simp only [GVals.Canon] at hc
    simp only [GVals.Good] at hg
    exact ⟨opened_of_canonV v hc.1 hg.1, opened_of_canonVs r hc.2 hg.2⟩
end

end Jomini.Writer
