import JominiModel.Proofs.TextSkipDoc
/-
C07: a sufficient condition for `need data ≤ cap` that does not go through the model's scanner `fbLoop`: over the layout
model, if every lexeme and every line of every gap (hence every comment) is shorter than the buffer, the input fits; and
the converse in the useful form: a scalar of length `L` forces `need ≥ L + 1`.
-/
namespace Jomini.TextReader
open Jomini Jomini.TextReader.Spec

/-! ### the longest line of a piece of layout -/

/-- length of the first line (bytes in front of the first LF) -/
def headLine : Bytes → Nat
  | [] => 0
  | c :: r => if c == 10 then 0 else headLine r + 1

/-- length of the longest run of bytes without LF — an upper bound for every comment `# …` (without its LF) and every run
of blanks on one line -/
def maxLine : Bytes → Nat
  | [] => 0
  | c :: r => max (headLine (c :: r)) (maxLine r)

theorem headLine_le_maxLine (l : Bytes) : headLine l ≤ maxLine l := by
  cases l with
  | nil => simp [headLine, maxLine]
  | cons c r => simp only [maxLine]; exact Nat.le_max_left _ _

theorem maxLine_cons_ge (c : UInt8) (r : Bytes) : maxLine r ≤ maxLine (c :: r) := by
  simp only [maxLine]; exact Nat.le_max_right _ _

theorem maxLine_append_ge (a b : Bytes) : maxLine b ≤ maxLine (a ++ b) := by
  induction a with
  | nil => simp
  | cons c a ih => exact Nat.le_trans ih (maxLine_cons_ge c (a ++ b))

theorem headLine_append_ge (a b : Bytes) : headLine a ≤ headLine (a ++ b) := by
  induction a with
  | nil => simp [headLine]
  | cons c a ih =>
    simp only [List.cons_append, headLine]
    split
    · exact Nat.le_refl _
    · omega

theorem maxLine_append_left (a b : Bytes) : maxLine a ≤ maxLine (a ++ b) := by
  induction a with
  | nil => simp [maxLine]
  | cons c a ih =>
    simp only [List.cons_append, maxLine]
    have := headLine_append_ge (c :: a) b
    simp only [List.cons_append] at this
    omega

theorem headLine_noLF (l : Bytes) (h : ∀ c ∈ l, (c == 10) = false) (w : Bytes) : headLine (l ++ 10 :: w) = l.length := by
  induction l with
  | nil => simp [headLine]
  | cons c l ih =>
    simp only [List.cons_append, headLine, h c (by simp), Bool.false_eq_true, if_false, List.length_cons]
    rw [ih (fun x hx => h x (by simp [hx]))]

theorem headLine_noLF' (l : Bytes) (h : ∀ c ∈ l, (c == 10) = false) : headLine l = l.length := by
  induction l with
  | nil => simp [headLine]
  | cons c l ih =>
    simp only [headLine, h c (by simp), Bool.false_eq_true, if_false, List.length_cons]
    rw [ih (fun x hx => h x (by simp [hx]))]

/-- **every window that ends inside a gap asks for at most its longest line + 1 bytes** -/
theorem gap_take_need {g : Bytes} (hg : Gap g) : ∀ (pos : Nat) (bom : Bom) (j : Nat),
    scanNeed (pos == 0) bom (g.take j) ≤ maxLine g + 1 := by
  induction hg with
  | nil => intro pos bom j; have := scanNeed_le (pos == 0) bom ([] : Bytes); simp [maxLine] at this ⊢; omega
  | ws c w hc _ ih =>
    intro pos bom j
    cases j with
    | zero => have := scanNeed_le (pos == 0) bom ([] : Bytes); simp at this ⊢; omega
    | succ j =>
      have hs : Skips (pos == 0) [c] 0 bom bom := .blank hc (.nil _ _)
      have := scanNeed_skip hs (w.take j)
      simp only [List.singleton_append, List.length_singleton] at this
      rw [List.take_succ_cons, this]
      exact Nat.le_trans (ih (pos + 1) bom j) (Nat.add_le_add_right (maxLine_cons_ge c w) 1)
  | comment body w hb _ ih =>
    intro pos bom j
    have hA : 35 :: (body ++ 10 :: w) = (35 :: (body ++ [10])) ++ w := by simp
    have hhead : headLine (35 :: (body ++ 10 :: w)) = body.length + 1 := by
      simp only [headLine, show ((35 : UInt8) == 10) = false by decide, Bool.false_eq_true, if_false]
      rw [headLine_noLF body hb]
    have hml := headLine_le_maxLine (35 :: (body ++ 10 :: w))
    by_cases hj : j < body.length + 2
    · have := scanNeed_le (pos == 0) bom ((35 :: (body ++ 10 :: w)).take j)
      simp only [List.length_take] at this
      omega
    · rw [hA, List.take_append, List.take_of_length_le (by simp; omega)]
      have hs : Skips (pos == 0) (35 :: (body ++ [10])) 0 bom bom := by
        have := Skips.comment (pos0 := (pos == 0)) (a := body) (pre := []) (i := 0) (bom := bom) (bom' := bom) hb (.nil _ _)
        simpa using this
      rw [scanNeed_skip hs]
      refine Nat.le_trans (ih _ bom _) (Nat.add_le_add_right ?_ 1)
      rw [← hA]; exact maxLine_append_ge (35 :: (body ++ [10])) w |> fun h => by simpa using h

/-- the same for the trailing filler, which may end in an unterminated comment -/
theorem endgap_take_need {gt : Bytes} (hg : EndGap gt) (pos : Nat) (bom : Bom) (j : Nat) :
    scanNeed (pos == 0) bom (gt.take j) ≤ maxLine gt + 1 := by
  cases hg with
  | gap g h => exact gap_take_need h pos bom j
  | comment g body h hb =>
    by_cases hj : j ≤ g.length
    · rw [List.take_append_of_le_length hj]
      exact Nat.le_trans (gap_take_need h pos bom j) (Nat.add_le_add_right (maxLine_append_left g _) 1)
    · rw [List.take_append, List.take_of_length_le (by omega)]
      rw [scanNeed_skip (h.skips (pos == 0) 0 bom)]
      have h1 := scanNeed_le (pos + g.length == 0) bom ((35 :: body).take (j - g.length))
      have h2 : headLine (35 :: body) = body.length + 1 := by
        have := headLine_noLF' (35 :: body) (by intro c hc; simp at hc; rcases hc with rfl | hc; decide; exact hb c hc)
        simpa using this
      have h3 := headLine_le_maxLine (35 :: body)
      have h4 := maxLine_append_ge g (35 :: body)
      simp only [List.length_take, List.length_cons] at h1
      omega

/-! ### windows that end inside or behind a lexeme -/

theorem StartsBoundary_take {after : Bytes} (h : StartsBoundary after) (m : Nat) : StartsBoundary (after.take (m + 1)) := by
  rcases h with rfl | ⟨c, r, rfl, hc⟩
  · left; rfl
  · right; exact ⟨c, r.take m, by simp, hc⟩

/-- validity only looks at the first byte behind the lexeme -/
theorem ValidX_take {lx : Lexeme} {after : Bytes} (h : lx.ValidX after) (m : Nat) : lx.ValidX (after.take (m + 1)) := by
  cases lx with
  | open_ => exact h
  | close => exact h
  | op o =>
    intro ho
    obtain ⟨c, r, rfl, hc⟩ := h ho
    exact ⟨c, r.take m, by simp, hc⟩
  | scalar q b =>
    cases q with
    | true => exact h
    | false =>
      rcases h with h | ⟨h1, h2⟩ | h
      · left
        simp only [Lexeme.Valid] at h ⊢
        exact ⟨h.1, h.2.1, StartsBoundary_take h.2.2 m⟩
      · right; left; exact ⟨h1, StartsBoundary_take h2 m⟩
      · right; right; exact h

theorem fbLoop_bomFill_short {pos0 : Bool} {w : Bytes} {bom b : Bom} (h : fbLoop pos0 w .top 0 bom = (b, .bomFill)) :
    w.length < 3 := by
  obtain ⟨pre, tail, bom_s, rfl, hs, ht⟩ := decompose pos0 w.length w 0 bom (Nat.le_refl _)
  rw [hs.fbLoop] at h
  simp only [Nat.zero_add] at ht h
  rcases fbLoop_tail ht with ⟨_, h1⟩ | ⟨a, _, h1⟩ | ⟨c, r, bomR, rfl, _, _, h1⟩ | ⟨r, rfl, hr, hbc, _⟩
  · rw [h1] at h; simp at h
  · rw [h1] at h; simp at h
  · have := h1 []; simp only [List.append_nil] at this
    rw [this] at h; simp only [Prod.mk.injEq] at h
    exact absurd h.2 (tokenAt_not_bomFill _ _ _)
  · have hpre : pre = [] := List.eq_nil_of_length_eq_zero hbc.2.2.1
    subst hpre; simp; omega

/-- a window in which the reference step has decided a token (it did not run to the window's end) asks for nothing more —
except the BOM arm's own request on a window of one or two bytes -/
theorem scanNeed_decided {pos0 : Bool} {bom b' : Bom} {w : Bytes} {adv : Nat} {t : Token}
    (h : specStep pos0 bom w = some (.tok adv t b')) (hadv : adv < w.length) : scanNeed pos0 bom w ≤ 3 := by
  unfold scanNeed
  unfold specStep at h
  generalize hres : fbLoop pos0 w .top 0 bom = res at h
  obtain ⟨b, sc⟩ := res
  cases sc with
  | tok a t' => simp [carryNeed]
  | bomFill => have := fbLoop_bomFill_short hres; simp only [carryNeed]; omega
  | refill st carry off =>
    exfalso
    cases st with
    | none =>
      simp only [interp] at h
      split at h
      · simp at h
      · split at h
        · simp at h
        · split at h <;> simp at h
    | quote => simp [interp] at h
    | unquoted =>
      simp only [interp, Option.some.injEq, Step1.tok.injEq] at h
      omega

/-- **one call in front of a lexeme**: every window — every prefix of `pre ++ g ++ text ++ after` — asks for at most `cap`
bytes when the gap's lines and the lexeme are shorter than `cap` -/
theorem call_item_need {pos : Nat} {pre g after : Bytes} {lx : Lexeme} {bom bom_s : Bom} {cap : Nat}
    (hs : Skips (pos == 0) pre 0 bom bom_s) (hg : Gap g) (hv : lx.ValidX after)
    (hclash : ¬(pos = 0 ∧ pre = [] ∧ g = [] ∧ bom_s = .unknown ∧ ∃ r', lx.text ++ after = 0xef :: 0xbb :: 0xbf :: r'))
    (hpre : ∀ j, j < pre.length → scanNeed (pos == 0) bom (pre.take j) ≤ cap)
    (h3 : 3 ≤ cap) (hgl : maxLine g + 1 ≤ cap) (hlx : lx.text.length + 1 ≤ cap) :
    callNeed (pos == 0) bom (pre ++ (g ++ (lx.text ++ after))) ≤ cap := by
  have key : ∀ j, scanNeed (pos == 0) bom ((pre ++ (g ++ (lx.text ++ after))).take j) ≤ cap := by
    intro j
    by_cases hj1 : j < pre.length
    · rw [List.take_append_of_le_length (by omega)]; exact hpre j hj1
    rw [List.take_append, List.take_of_length_le (by omega), scanNeed_skip hs]
    by_cases hj2 : j - pre.length ≤ g.length
    · rw [List.take_append_of_le_length hj2]
      exact Nat.le_trans (gap_take_need hg _ bom_s _) hgl
    rw [List.take_append, List.take_of_length_le (by omega)]
    rw [scanNeed_skip (hg.skips (pos + pre.length == 0) 0 bom_s)]
    by_cases hj3 : j - pre.length - g.length ≤ lx.text.length
    · rw [List.take_append_of_le_length hj3]
      have := scanNeed_le (pos + pre.length + g.length == 0) bom_s (lx.text.take (j - pre.length - g.length))
      simp only [List.length_take] at this
      omega
    · -- the window reaches behind the lexeme: the token is decided
      rw [List.take_append, List.take_of_length_le (by omega)]
      obtain ⟨m, hm⟩ : ∃ m, j - pre.length - g.length - lx.text.length = m + 1 :=
        ⟨j - pre.length - g.length - lx.text.length - 1, by omega⟩
      rw [hm]
      by_cases hafter : after = []
      · subst hafter
        simp only [List.take_nil, List.append_nil]
        have := scanNeed_le (pos + pre.length + g.length == 0) bom_s lx.text
        omega
      have htl : 0 < (after.take (m + 1)).length := by
        cases after with
        | nil => exact absurd rfl hafter
        | cons c r => simp
      obtain ⟨b', hsp⟩ := specStep_lexemeX (pos0 := (pos + pre.length + g.length == 0)) (pre := []) (bom := bom_s) (bom_s := bom_s)
        lx (.nil _ _) (ValidX_take hv m) (by
          rintro ⟨hp, _, hb, r', hr'⟩
          have hp' : pos + pre.length + g.length = 0 := by simpa using hp
          refine hclash ⟨by omega, List.eq_nil_of_length_eq_zero (by omega), List.eq_nil_of_length_eq_zero (by omega), hb, ?_⟩
          cases after with
          | nil => exact absurd rfl hafter
          | cons c r =>
            -- the first three bytes are those of the longer text
            have h1 : (lx.text ++ (c :: r).take (m + 1)) <+: (lx.text ++ c :: r) :=
              (List.prefix_append_right_inj _).mpr (List.take_prefix _ _)
            obtain ⟨z, hz⟩ := h1
            exact ⟨r' ++ z, by rw [← hz, hr']; simp⟩)
      simp only [List.nil_append, List.length_nil, Nat.zero_add] at hsp
      exact Nat.le_trans (scanNeed_decided hsp (by simp only [List.length_append]; omega)) h3
  unfold callNeed
  apply maxOver_le
  intro j _
  have h1 := key j
  unfold scanNeed at h1
  split
  · rename_i hl3
    have := scanNeed_notPresent_le (pos == 0) bom ((pre ++ (g ++ (lx.text ++ after))).take j) (by simp only [List.length_take]; omega)
    unfold scanNeed at this
    omega
  · omega

/-- **the last call**, in front of the trailing filler -/
theorem call_end_need {pos : Nat} {pre gt : Bytes} {bom bom_s : Bom} {cap : Nat}
    (hs : Skips (pos == 0) pre 0 bom bom_s) (hg : EndGap gt)
    (hpre : ∀ j, j < pre.length → scanNeed (pos == 0) bom (pre.take j) ≤ cap)
    (hgl : maxLine gt + 1 ≤ cap) :
    callNeed (pos == 0) bom (pre ++ gt) ≤ cap := by
  have key : ∀ j, scanNeed (pos == 0) bom ((pre ++ gt).take j) ≤ cap := by
    intro j
    by_cases hj1 : j < pre.length
    · rw [List.take_append_of_le_length (by omega)]; exact hpre j hj1
    rw [List.take_append, List.take_of_length_le (by omega), scanNeed_skip hs]
    exact Nat.le_trans (endgap_take_need hg _ bom_s _) hgl
  unfold callNeed
  apply maxOver_le
  intro j _
  have h1 := key j
  unfold scanNeed at h1
  split
  · have := scanNeed_notPresent_le (pos == 0) bom ((pre ++ gt).take j) (by simp only [List.length_take]; omega)
    unfold scanNeed at this
    omega
  · omega

/-! ### the whole input -/

theorem needFrom_layout_le (cap : Nat) (gt : Bytes) (h3 : 3 ≤ cap) (hgt : maxLine gt + 1 ≤ cap) :
    ∀ (items : List (Bytes × Lexeme)) (pre : Bytes) (pos : Nat) (bom bom_s : Bom) (n : Nat),
    Skips (pos == 0) pre 0 bom bom_s → ValidLexX items gt →
    (pos = 0 → pre = [] → bom_s = .unknown → ¬∃ r', renderLex items gt = 0xef :: 0xbb :: 0xbf :: r') →
    (∀ j, j < pre.length → scanNeed (pos == 0) bom (pre.take j) ≤ cap) →
    (∀ it ∈ items, maxLine it.1 + 1 ≤ cap ∧ it.2.text.length + 1 ≤ cap) →
    needFrom n pos bom (pre ++ renderLex items gt) ≤ cap := by
  intro items
  induction items with
  | nil =>
    intro pre pos bom bom_s n hs hv _ hpre _
    cases n with
    | zero => simp [needFrom]
    | succ n =>
      simp only [ValidLexX] at hv
      simp only [renderLex, needFrom]
      obtain ⟨b', hsp⟩ := specStep_end hs hv
      rw [hsp]
      simp only
      exact Nat.max_le.mpr ⟨call_end_need hs hv hpre hgt, Nat.zero_le _⟩
  | cons it rest ih =>
    obtain ⟨g, lx⟩ := it
    intro pre pos bom bom_s n hs hv hclash hpre hitems
    cases n with
    | zero => simp [needFrom]
    | succ n =>
      simp only [ValidLexX] at hv
      obtain ⟨hg, hlv, hrest⟩ := hv
      have hit := hitems (g, lx) (by simp)
      have hall := hs.append (hg.skips (pos == 0) (0 + pre.length) bom_s)
      have hd : pre ++ renderLex ((g, lx) :: rest) gt = (pre ++ g) ++ (lx.text ++ renderLex rest gt) := by simp [renderLex]
      obtain ⟨b', hsp⟩ := specStep_lexemeX lx hall hlv (by
        rintro ⟨hp, hpg, hb, r', hr'⟩
        have hpre0 : pre = [] := by cases pre with | nil => rfl | cons _ _ => simp at hpg
        have hg0 : g = [] := by subst hpre0; simpa using hpg
        refine hclash (by simpa using hp) hpre0 hb ⟨r', ?_⟩
        subst hg0; simpa [renderLex] using hr')
      rw [← hd] at hsp
      have hcall : callNeed (pos == 0) bom (pre ++ renderLex ((g, lx) :: rest) gt) ≤ cap := by
        have := call_item_need (after := renderLex rest gt) hs hg hlv (by
          rintro ⟨hp, hp0, hg0, hb, r', hr'⟩
          refine hclash hp hp0 hb ⟨r', ?_⟩
          subst hg0; simpa [renderLex] using hr') hpre h3 hit.1 hit.2
        simpa [renderLex] using this
      simp only [needFrom, hsp]
      refine Nat.max_le.mpr ⟨hcall, ?_⟩
      have hdrop : (pre ++ renderLex ((g, lx) :: rest) gt).drop ((pre ++ g).length + lx.text.length) = renderLex rest gt := by
        rw [hd, ← List.append_assoc]
        have : (pre ++ g).length + lx.text.length = (pre ++ g ++ lx.text).length := by simp; omega
        rw [this, List.drop_left]
      rw [hdrop]
      have htl := lexeme_text_posX hlv
      have := ih [] (pos + ((pre ++ g).length + lx.text.length)) b' b' n (.nil _ _) hrest
        (fun h => absurd h (by omega)) (by intro j hj; simp at hj) (fun it hit' => hitems it (by simp [hit']))
      simpa using this

/-- **`fits_if_longest_token`, lexeme level.**  Let the input be the rendering of a list of lexemes under a valid layout
(optional BOM, gaps of blanks and complete comments, trailing filler).  If

* every lexeme — its text in the file: a scalar's bytes, for a quoted scalar with its two quotes, an `@[ … ]` expression
  whole, an operator's one or two bytes — is at most `cap − 1` bytes long,
* every line of every gap and of the trailing filler — hence every comment `# …` (without its LF) and every run of blanks
  on one line — is at most `cap − 1` bytes long, and
* `cap ≥ 3`,

then `need data ≤ cap`: the buffer fits the input.  The conditions are byte lengths of the layout model; `fbLoop` does not
occur in them. -/
theorem fits_if_longest_token (items : List (Bytes × Lexeme)) (gt : Bytes) (b : Bool) (cap : Nat)
    (hv : ValidLexX items gt)
    (hclash : b = false → ¬∃ r', renderLex items gt = 0xef :: 0xbb :: 0xbf :: r')
    (h3 : 3 ≤ cap) (hitems : ∀ it ∈ items, maxLine it.1 + 1 ≤ cap ∧ it.2.text.length + 1 ≤ cap) (hgt : maxLine gt + 1 ≤ cap) :
    need (bomBytes b ++ renderLex items gt) ≤ cap := by
  unfold need
  refine Nat.max_le.mpr ⟨by omega, ?_⟩
  cases b with
  | true =>
    have hs : Skips ((0 : Nat) == 0) [0xef, 0xbb, 0xbf] 0 .unknown .present := .bom rfl (.nil _ _)
    refine needFrom_layout_le cap gt h3 hgt items [0xef, 0xbb, 0xbf] 0 .unknown .present _ hs hv (by intro _ h; simp at h) ?_ hitems
    intro j hj
    have := scanNeed_le ((0 : Nat) == 0) .unknown (([0xef, 0xbb, 0xbf] : Bytes).take j)
    simp only [List.length_take, List.length_cons, List.length_nil] at this hj
    omega
  | false =>
    have hs : Skips ((0 : Nat) == 0) [] 0 .unknown .unknown := .nil _ _
    exact needFrom_layout_le cap gt h3 hgt items [] 0 .unknown .unknown _ hs hv (fun _ _ _ => hclash rfl)
      (by intro j hj; simp at hj) hitems

/-! ### the converse: an unquoted scalar of length `L` needs `L + 1` bytes -/

/-- an unquoted scalar that is not an `@[ … ]` expression stays valid when a non-boundary byte is appended -/
theorem ValidX_snoc {b : Bytes} (hv : (Lexeme.scalar false b).ValidX [])
    (hni : ∀ body, b ≠ 64 :: 91 :: (body ++ [93])) : (Lexeme.scalar false (b ++ [120])).ValidX [] := by
  rcases hv with hv | ⟨⟨d, r, rfl, hnb⟩, _⟩ | ⟨body, rfl, _⟩
  · left
    simp only [Lexeme.Valid] at hv ⊢
    obtain ⟨h1, ⟨c, r, rfl, h2⟩, _⟩ := hv
    refine ⟨?_, ⟨c, r ++ [120], by simp, h2⟩, Or.inl rfl⟩
    intro x hx
    simp only [List.mem_append, List.mem_singleton] at hx
    rcases hx with hx | rfl
    · exact h1 x hx
    · decide
  · right; left
    refine ⟨⟨d, r ++ [120], by simp, ?_⟩, Or.inl rfl⟩
    intro x hx
    simp only [List.mem_cons, List.mem_append, List.mem_singleton, List.not_mem_nil, or_false] at hx
    rcases hx with rfl | hx | rfl
    · exact hnb x (by simp)
    · exact hnb x (by simp [hx])
    · decide
  · exact absurd rfl (hni body)

/-- the window that ends right behind an unquoted scalar (its boundary byte not yet seen) asks for the whole scalar and one
byte more -/
theorem scanNeed_unquoted_ge {pos : Nat} {P b : Bytes} {bom bom_s : Bom}
    (hs : Skips (pos == 0) P 0 bom bom_s) (hv : (Lexeme.scalar false b).ValidX [])
    (hni : ∀ body, b ≠ 64 :: 91 :: (body ++ [93]))
    (hclash : ¬(pos = 0 ∧ P = [] ∧ bom_s = .unknown ∧ ∃ r', b = 0xef :: 0xbb :: 0xbf :: r')) :
    b.length + 1 ≤ scanNeed (pos == 0) bom (P ++ b) := by
  obtain ⟨b1, hsp⟩ := specStep_lexemeX (Lexeme.scalar false b) hs hv (by
    rintro ⟨hp, hP, hb, r', hr'⟩
    exact hclash ⟨by simpa using hp, hP, hb, r', by simpa [Lexeme.text] using hr'⟩)
  simp only [Lexeme.text, List.append_nil, Lexeme.tok] at hsp
  unfold scanNeed
  unfold specStep at hsp
  generalize hres : fbLoop (pos == 0) (P ++ b) .top 0 bom = res at hsp
  obtain ⟨b0, sc⟩ := res
  cases sc with
  | bomFill => simp only [carryNeed, List.length_append]; omega
  | refill st carry off =>
    have hcl := fbLoop_refill_carry hres
    cases st with
    | none =>
      exfalso
      simp only [interp] at hsp
      split at hsp
      · simp at hsp
      · split at hsp
        · simp at hsp
        · split at hsp <;> simp at hsp
    | quote => simp [interp] at hsp
    | unquoted =>
      simp only [interp, Option.some.injEq, Step1.tok.injEq, Token.unquoted.injEq] at hsp
      have := congrArg List.length hsp.2.1
      simp only [List.length_drop, List.length_append] at this hcl
      simp only [carryNeed]
      omega
  | tok a t' =>
    -- a decided token would not change when a byte is appended; the scalar does
    exfalso
    simp only [interp, Option.some.injEq, Step1.tok.injEq] at hsp
    obtain ⟨ha, ht, _⟩ := hsp
    have hstab := fbLoop_stable [120] hres
    obtain ⟨b2, hsp2⟩ := specStep_lexemeX (Lexeme.scalar false (b ++ [120])) hs (ValidX_snoc hv hni) (by
      rintro ⟨hp, hP, hb, r', hr'⟩
      simp only [Lexeme.text, List.append_nil] at hr'
      refine hclash ⟨by simpa using hp, hP, hb, ?_⟩
      -- the BOM bytes would lie inside `b`
      rcases b with _ | ⟨x0, _ | ⟨x1, _ | ⟨x2, br⟩⟩⟩
      · simp at hr'
      · simp at hr'
      · simp at hr'
      · simp only [List.cons_append, List.cons.injEq] at hr'
        exact ⟨br, by rw [hr'.1, hr'.2.1, hr'.2.2.1]⟩)
    simp only [Lexeme.text, List.append_nil, Lexeme.tok] at hsp2
    unfold specStep at hsp2
    rw [← List.append_assoc, hstab] at hsp2
    simp only [interp, Option.some.injEq, Step1.tok.injEq] at hsp2
    have := hsp2.1
    simp only [List.length_append, List.length_singleton] at this ha
    omega

/-- what the later calls need is part of what all the calls need (valid prefix, extended validity) -/
theorem needFrom_itemsX (tail : Bytes) : ∀ (items : List (Bytes × Lexeme)) (pre : Bytes) (pos : Nat) (bom bom_s : Bom) (n : Nat),
    Skips (pos == 0) pre 0 bom bom_s → ValidPreX items tail →
    (pos = 0 → pre = [] → bom_s = .unknown → ¬∃ r', renderLex items tail = 0xef :: 0xbb :: 0xbf :: r') →
    ∃ pos' b' bs' pre', needFrom n pos' b' (pre' ++ tail) ≤ needFrom (items.length + n) pos bom (pre ++ renderLex items tail) ∧
      Skips (pos' == 0) pre' 0 b' bs' ∧
      (pos' = 0 → pre' = [] → bs' = .unknown → items = [] ∧ pos = 0 ∧ pre = [] ∧ bom_s = .unknown) := by
  intro items
  induction items with
  | nil =>
    intro pre pos bom bom_s n hs _ _
    exact ⟨pos, bom, bom_s, pre, by simp [renderLex], hs, fun h1 h2 h3 => ⟨rfl, h1, h2, h3⟩⟩
  | cons it rest ih =>
    obtain ⟨g, lx⟩ := it
    intro pre pos bom bom_s n hs hv hclash
    simp only [ValidPreX] at hv
    obtain ⟨hg, hlv, hrest⟩ := hv
    have hall := hs.append (hg.skips (pos == 0) (0 + pre.length) bom_s)
    have hd : pre ++ renderLex ((g, lx) :: rest) tail = (pre ++ g) ++ (lx.text ++ renderLex rest tail) := by simp [renderLex]
    obtain ⟨b', hsp⟩ := specStep_lexemeX lx hall hlv (by
      rintro ⟨hp, hpg, hb, r', hr'⟩
      have hpre0 : pre = [] := by cases pre with | nil => rfl | cons _ _ => simp at hpg
      have hg0 : g = [] := by subst hpre0; simpa using hpg
      refine hclash (by simpa using hp) hpre0 hb ⟨r', ?_⟩
      subst hg0; simpa [renderLex] using hr')
    rw [← hd] at hsp
    have hdrop : (pre ++ renderLex ((g, lx) :: rest) tail).drop ((pre ++ g).length + lx.text.length) = renderLex rest tail := by
      rw [hd, ← List.append_assoc]
      have : (pre ++ g).length + lx.text.length = (pre ++ g ++ lx.text).length := by simp; omega
      rw [this, List.drop_left]
    have htl := lexeme_text_posX hlv
    obtain ⟨pos', b2, bs', pre', h1, h2, h3⟩ := ih [] (pos + ((pre ++ g).length + lx.text.length)) b' b' n (.nil _ _) hrest
      (fun h => absurd h (by omega))
    refine ⟨pos', b2, bs', pre', ?_, h2, ?_⟩
    · have e : ((g, lx) :: rest).length + n = (rest.length + n) + 1 := by simp; omega
      rw [e]
      simp only [needFrom, hsp]
      rw [hdrop]
      simp only [List.nil_append] at h1
      exact Nat.le_trans h1 (Nat.le_max_right _ _)
    · intro a b c
      obtain ⟨_, hp, _⟩ := h3 a b c
      omega

/-- **`need_ge_unquoted`: an unquoted scalar of `L` bytes forces `need ≥ L + 1`** (the scalar and the boundary byte that ends
it must be in the buffer together), wherever it stands in a valid layout; `@name` variables included, `@[ … ]` expressions
need exactly their length (`C07_need_ge_token`). -/
theorem need_ge_unquoted (items1 rest : List (Bytes × Lexeme)) (g bs gt : Bytes) (b : Bool)
    (hv : ValidLexX (items1 ++ (g, Lexeme.scalar false bs) :: rest) gt)
    (hni : ∀ body, bs ≠ 64 :: 91 :: (body ++ [93]))
    (hclash : b = false → ¬∃ r', renderLex (items1 ++ (g, Lexeme.scalar false bs) :: rest) gt = 0xef :: 0xbb :: 0xbf :: r') :
    bs.length + 1 ≤ need (bomBytes b ++ renderLex (items1 ++ (g, Lexeme.scalar false bs) :: rest) gt) := by
  have hren : renderLex (items1 ++ (g, Lexeme.scalar false bs) :: rest) gt =
      renderLex items1 (g ++ (bs ++ renderLex rest gt)) := by
    rw [renderLex_append]; simp [renderLex, Lexeme.text]
  -- validity of the prefix and of the scalar
  have hsplit : ∀ (a : List (Bytes × Lexeme)), ValidLexX (a ++ (g, Lexeme.scalar false bs) :: rest) gt →
      ValidPreX a (g ++ (bs ++ renderLex rest gt)) ∧ Gap g ∧ (Lexeme.scalar false bs).ValidX (renderLex rest gt) := by
    intro a
    induction a with
    | nil => intro h; simp only [List.nil_append, ValidLexX] at h; exact ⟨trivial, h.1, h.2.1⟩
    | cons it a ih =>
      obtain ⟨g', lx'⟩ := it
      intro h
      simp only [List.cons_append, ValidLexX] at h
      obtain ⟨h1, h2, h3⟩ := ih h.2.2
      refine ⟨⟨h.1, ?_, h1⟩, h2, h3⟩
      have := h.2.1
      rw [renderLex_append] at this
      simpa [renderLex, Lexeme.text] using this
  obtain ⟨hpre, hg, hlv⟩ := hsplit items1 hv
  rw [hren] at hclash ⊢
  generalize htail : g ++ (bs ++ renderLex rest gt) = tail at hpre hclash
  have hs0 : ∃ bs0, Skips ((0 : Nat) == 0) (bomBytes b) 0 .unknown bs0 ∧ (b = false → bs0 = .unknown) := by
    cases b with
    | true => exact ⟨.present, .bom rfl (.nil _ _), fun h => by simp at h⟩
    | false => exact ⟨.unknown, .nil _ _, fun _ => rfl⟩
  obtain ⟨bs0, hs0, _⟩ := hs0
  obtain ⟨pos', b', bs', pre', hle, hs', hcl'⟩ := needFrom_itemsX tail items1 (bomBytes b) 0 .unknown bs0 1 hs0 hpre (by
    intro _ hb0 _
    cases b with
    | true => simp [bomBytes] at hb0
    | false => exact hclash rfl)
  -- the call in front of the scalar
  have hall := hs'.append (hg.skips (pos' == 0) (0 + pre'.length) bs')
  have hv0 : (Lexeme.scalar false bs).ValidX [] := by
    rcases hlv with h | ⟨h1, _⟩ | h
    · left; simp only [Lexeme.Valid] at h ⊢; exact ⟨h.1, h.2.1, Or.inl rfl⟩
    · right; left; exact ⟨h1, Or.inl rfl⟩
    · right; right; exact h
  have hscan := scanNeed_unquoted_ge hall hv0 hni (by
    rintro ⟨hp, hP, hb, r', hr'⟩
    have hpre0 : pre' = [] := by cases pre' with | nil => rfl | cons _ _ => simp at hP
    have hg0 : g = [] := by subst hpre0; simpa using hP
    obtain ⟨rfl, _, hb0, hbs0⟩ := hcl' hp hpre0 hb
    cases b with
    | true => simp [bomBytes] at hb0
    | false =>
      refine hclash rfl ⟨r' ++ renderLex rest gt, ?_⟩
      rw [← htail, hg0, hr']; simp [renderLex])
  have hcall : bs.length + 1 ≤ callNeed (pos' == 0) b' (pre' ++ tail) := by
    unfold callNeed
    have hj : (pre' ++ g ++ bs).length ≤ (pre' ++ tail).length := by rw [← htail]; simp
    have := le_maxOver (fun j =>
      max (carryNeed ((pre' ++ tail).take j) (fbLoop (pos' == 0) ((pre' ++ tail).take j) .top 0 b'))
          (if (pre' ++ tail).length < 3 then carryNeed ((pre' ++ tail).take j) (fbLoop (pos' == 0) ((pre' ++ tail).take j) .top 0 .notPresent) else 0))
      (pre' ++ tail).length (pre' ++ g ++ bs).length hj
    refine Nat.le_trans ?_ this
    refine Nat.le_trans ?_ (Nat.le_max_left _ _)
    have htake : (pre' ++ tail).take (pre' ++ g ++ bs).length = pre' ++ g ++ bs := by
      rw [← htail, show pre' ++ (g ++ (bs ++ renderLex rest gt)) = (pre' ++ g ++ bs) ++ renderLex rest gt by simp]
      exact List.take_left' rfl
    rw [htake]
    exact hscan
  have h1 : callNeed (pos' == 0) b' (pre' ++ tail) ≤ needFrom 1 pos' b' (pre' ++ tail) := by
    simp only [needFrom]; exact Nat.le_max_left _ _
  have hlen := ValidPreX_length items1 tail hpre
  have hmono := needFrom_mono (items1.length + 1) (fuelFor (bomBytes b ++ renderLex items1 tail)) 0 .unknown
    (bomBytes b ++ renderLex items1 tail) (by simp only [fuelFor, List.length_append]; omega)
  unfold need
  omega

end Jomini.TextReader
