/-
How tight is `fitsRoot`?  `C04_fits_or_misfit`: for every document and every root request, either the request fits
(`fitsRoot`, the hypothesis of `C04_tape_eq_ondemand` / `C04_paths_end_to_end`), or the traversal meets one of FIVE named
shape / type combinations (`Misfit`):

  * `rgbAsMap`     an rgb value under a map or struct request,
  * `arrayAsMap`   a non-empty array under a map or struct request,
  * `objectAsAny`  an object under `any`,
  * `objectAsSeq`  an object under a sequence request,
  * `rgbInArray`   an rgb block in array position (known finding rgb-in-array).

For each of them a witness (`C04_misfit_*`, the three path models and the reference evaluated on a small document; every
model equals the real code on these inputs: corpus/C04.txt) shows that a path differs from another path or from the
reference - so none of the five can simply be added to `fitsRoot`.  (Token-attribute and plain roots alike; a root request
that is neither a map nor a struct is refused by all paths and the reference: `fitsRoot` holds trivially there.)
-/
import JominiModel.Proofs.BinDeNestedSeq
set_option linter.unusedSimpArgs false
namespace Jomini.BinDe
open Jomini

/-- the five atomic combinations -/
inductive Misfit where
  | rgbAsMap | arrayAsMap | objectAsAny | objectAsSeq | rgbInArray
  deriving DecidableEq, Repr

mutual
/-- the traversal of node `n` under request `t` meets the combination `m` -/
inductive MeetsN (c : Cfg) (m : Misfit) : BNode → Ty → Prop
  | rgbMap {col t vt} : (stripOpt t).2 = .map vt → m = .rgbAsMap → MeetsN c m (.rgb col) t
  | rgbStruct {col t decl} : (stripOpt t).2 = .struct decl → m = .rgbAsMap → MeetsN c m (.rgb col) t
  | arrMap {vs t vt} : (stripOpt t).2 = .map vt → vs.isNil = false → m = .arrayAsMap → MeetsN c m (.arr vs) t
  | arrStruct {vs t decl} : (stripOpt t).2 = .struct decl → vs.isNil = false → m = .arrayAsMap → MeetsN c m (.arr vs) t
  | objAny {fs t} : (stripOpt t).2 = .any → m = .objectAsAny → MeetsN c m (.obj fs) t
  | objSeq {fs t et} : (stripOpt t).2 = .seq et → m = .objectAsSeq → MeetsN c m (.obj fs) t
  | inSeq {vs t et} : (stripOpt t).2 = .seq et → MeetsNs c m vs et → MeetsN c m (.arr vs) t
  | inAny {vs t} : (stripOpt t).2 = .any → MeetsNs c m vs .any → MeetsN c m (.arr vs) t
  | inMap {fs t vt} : (stripOpt t).2 = .map vt → MeetsMapF c m fs vt → MeetsN c m (.obj fs) t
  | inStruct {fs t decl} : (stripOpt t).2 = .struct decl → MeetsStructF c m fs decl → MeetsN c m (.obj fs) t
inductive MeetsNs (c : Cfg) (m : Misfit) : BNodes → Ty → Prop
  | rgbElem {col rest et} : m = .rgbInArray → MeetsNs c m (.cons (.rgb col) rest) et
  | here {v rest et} : MeetsN c m v et → MeetsNs c m (.cons v rest) et
  | there {v rest et} : MeetsNs c m rest et → MeetsNs c m (.cons v rest) et
inductive MeetsMapF (c : Cfg) (m : Misfit) : BFields → Ty → Prop
  | here {g k v rest vt} : MeetsN c m v vt → MeetsMapF c m (.cons g k v rest) vt
  | there {g k v rest vt} : MeetsMapF c m rest vt → MeetsMapF c m (.cons g k v rest) vt
inductive MeetsStructF (c : Cfg) (m : Misfit) : BFields → Fields → Prop
  | here {g k v rest decl i name tk fty} : whichOf (binSem c) decl k = .ok (some i) → decl.get? i = some (name, tk, fty) →
      MeetsN c m v fty → MeetsStructF c m (.cons g k v rest) decl
  | there {g k v rest decl} : MeetsStructF c m rest decl → MeetsStructF c m (.cons g k v rest) decl
end

/-- (token-attribute structs: the same with the key read by token) -/
inductive MeetsTokF (c : Cfg) (m : Misfit) : BFields → Fields → Prop
  | here {g k v rest decl i name tk fty} : whichTok (binSem c) decl k = .ok (some i) → decl.get? i = some (name, tk, fty) →
      MeetsN c m v fty → MeetsTokF c m (.cons g k v rest) decl
  | there {g k v rest decl} : MeetsTokF c m rest decl → MeetsTokF c m (.cons g k v rest) decl

mutual
theorem fitsN_or (c : Cfg) (n : BNode) (t : Ty) : fitsN c n t = true ∨ ∃ m, MeetsN c m n t := by
  cases n with
  | leaf l => exact .inl (by simp [fitsN])
  | rgb col =>
    simp only [fitsN]
    cases hc : (stripOpt t).2 with
    | map vt => exact .inr ⟨.rgbAsMap, .rgbMap hc rfl⟩
    | struct decl => exact .inr ⟨.rgbAsMap, .rgbStruct hc rfl⟩
    | _ => exact .inl rfl
  | arr vs =>
    simp only [fitsN]
    cases hc : (stripOpt t).2 with
    | seq et =>
      rcases fitsNs_or c vs et with h | ⟨m, h⟩
      · exact .inl h
      · exact .inr ⟨m, .inSeq hc h⟩
    | any =>
      rcases fitsNs_or c vs .any with h | ⟨m, h⟩
      · exact .inl h
      · exact .inr ⟨m, .inAny hc h⟩
    | map vt =>
      cases hn : vs.isNil with
      | true => exact .inl rfl
      | false => exact .inr ⟨.arrayAsMap, .arrMap hc hn rfl⟩
    | struct decl =>
      cases hn : vs.isNil with
      | true => exact .inl rfl
      | false => exact .inr ⟨.arrayAsMap, .arrStruct hc hn rfl⟩
    | _ => exact .inl rfl
  | obj fs =>
    simp only [fitsN]
    cases hc : (stripOpt t).2 with
    | map vt =>
      rcases fitsMapF_or c fs vt with h | ⟨m, h⟩
      · exact .inl h
      · exact .inr ⟨m, .inMap hc h⟩
    | struct decl =>
      rcases fitsStructF_or c fs decl with h | ⟨m, h⟩
      · exact .inl h
      · exact .inr ⟨m, .inStruct hc h⟩
    | any => exact .inr ⟨.objectAsAny, .objAny hc rfl⟩
    | seq et => exact .inr ⟨.objectAsSeq, .objSeq hc rfl⟩
    | _ => exact .inl rfl
theorem fitsNs_or (c : Cfg) (vs : BNodes) (et : Ty) : fitsNs c vs et = true ∨ ∃ m, MeetsNs c m vs et := by
  cases vs with
  | nil => exact .inl rfl
  | cons v rest =>
    cases v with
    | rgb col => exact .inr ⟨.rgbInArray, .rgbElem rfl⟩
    | leaf l =>
      rcases fitsNs_or c rest et with h | ⟨m, h⟩
      · exact .inl (by simp [fitsNs, fitsN, h])
      · exact .inr ⟨m, .there h⟩
    | arr ws =>
      rcases fitsN_or c (.arr ws) et with h1 | ⟨m, h1⟩
      · rcases fitsNs_or c rest et with h | ⟨m, h⟩
        · exact .inl (by simp only [fitsNs, h1, h, Bool.and_self])
        · exact .inr ⟨m, .there h⟩
      · exact .inr ⟨m, .here h1⟩
    | obj fs =>
      rcases fitsN_or c (.obj fs) et with h1 | ⟨m, h1⟩
      · rcases fitsNs_or c rest et with h | ⟨m, h⟩
        · exact .inl (by simp only [fitsNs, h1, h, Bool.and_self])
        · exact .inr ⟨m, .there h⟩
      · exact .inr ⟨m, .here h1⟩
theorem fitsMapF_or (c : Cfg) (fs : BFields) (vt : Ty) : fitsMapF c fs vt = true ∨ ∃ m, MeetsMapF c m fs vt := by
  cases fs with
  | nil => exact .inl rfl
  | cons g k v rest =>
    rcases fitsN_or c v vt with h1 | ⟨m, h1⟩
    · rcases fitsMapF_or c rest vt with h | ⟨m, h⟩
      · exact .inl (by simp only [fitsMapF, h1, h, Bool.and_self])
      · exact .inr ⟨m, .there h⟩
    · exact .inr ⟨m, .here h1⟩
theorem fitsStructF_or (c : Cfg) (fs : BFields) (decl : Fields) :
    fitsStructF c fs decl = true ∨ ∃ m, MeetsStructF c m fs decl := by
  cases fs with
  | nil => exact .inl rfl
  | cons g k v rest =>
    rcases fitsStructF_or c rest decl with h | ⟨m, h⟩
    · cases hwb : whichOf (binSem c) decl k with
      | error e =>
        unfold whichOf at hwb; simp only [binSem] at hwb
        exact .inl (by simp [fitsStructF, hwb, h])
      | ok w =>
        have hwb' := hwb
        unfold whichOf at hwb'; simp only [binSem] at hwb'
        cases w with
        | none => exact .inl (by simp [fitsStructF, hwb', h])
        | some i =>
          cases hg : decl.get? i with
          | none => exact .inl (by simp [fitsStructF, hwb', hg, h])
          | some y =>
            obtain ⟨name, tk, fty⟩ := y
            rcases fitsN_or c v fty with h1 | ⟨m, h1⟩
            · exact .inl (by simp [fitsStructF, hwb', hg, h1, h])
            · exact .inr ⟨m, .here hwb hg h1⟩
    · exact .inr ⟨m, .there h⟩
end

theorem fitsTokF_or (c : Cfg) : ∀ (n : Nat) (fs : BFields), fs.len = n → ∀ (decl : Fields),
    fitsTokF c fs decl = true ∨ ∃ m, MeetsTokF c m fs decl := by
  intro n
  induction n with
  | zero => intro fs hn decl; cases fs with
    | nil => exact .inl rfl
    | cons g k v rest => simp [BFields.len] at hn
  | succ n ih =>
    intro fs hn decl
    cases fs with
    | nil => exact .inl rfl
    | cons g k v rest =>
      rcases ih rest (by simp [BFields.len] at hn; exact hn) decl with h | ⟨m, h⟩
      · cases hwb : whichTok (binSem c) decl k with
        | error e => exact .inl (by simp [fitsTokF, hwb, h])
        | ok w =>
          cases w with
          | none => exact .inl (by simp [fitsTokF, hwb, h])
          | some i =>
            cases hg : decl.get? i with
            | none => exact .inl (by simp [fitsTokF, hwb, hg, h])
            | some y =>
              obtain ⟨name, tk, fty⟩ := y
              rcases fitsN_or c v fty with h1 | ⟨m, h1⟩
              · exact .inl (by simp [fitsTokF, hwb, hg, h1, h])
              · exact .inr ⟨m, .here hwb hg h1⟩
      · exact .inr ⟨m, .there h⟩

/-- the root request meets the combination `m` somewhere in the document -/
def MeetsRoot (c : Cfg) (m : Misfit) (ty : RootTy) (d : BDoc) : Prop :=
  match ty with
  | .plain (.map vt) => MeetsMapF c m d vt
  | .plain (.struct decl) => MeetsStructF c m d decl
  | .tok decl => MeetsTokF c m d decl
  | .plain _ => False

/-- (tightness of `fitsRoot`) every document and every root request: the request fits - and then all three paths and the
reference agree (`C04_tape_eq_ondemand`) -, or the traversal meets one of the five named combinations. -/
theorem C04_fits_or_misfit (c : Cfg) (ty : RootTy) (d : BDoc) :
    fitsRoot c ty d = true ∨ ∃ m, MeetsRoot c m ty d := by
  cases ty with
  | tok decl => exact fitsTokF_or c d.len d rfl decl
  | plain t =>
    cases t with
    | map vt => exact fitsMapF_or c d vt
    | struct decl => exact fitsStructF_or c d decl
    | _ => exact .inl rfl

/-! ### a witness for each of the five combinations -/

/-- outcome as a comparable pair: the value, or the error class -/
def outcome (r : Res String) : Option String × Option Err :=
  match r with
  | .ok v => (some v, none)
  | .error e => (none, some e)

/-- tape path, on-demand path, streaming path, reference, and whether the request fits -/
def fourOutcomes (c : Cfg) (ty : RootTy) (d : BDoc) :=
  (outcome (deTape c ty (tapeFields d 0)), outcome (deOndemand c ty (tokensOf d)), outcome (deStream c ty (tokensOf d)),
    outcome (valueOfBin c ty d), fitsRoot c ty d)

def mfKey : BLeaf := .unquoted [97]
def mfCol : Rgb := ⟨1, 2, 3, none⟩
def mfObj : BDoc := .cons 0 mfKey (.obj (.cons 0 (.unquoted [98]) (.leaf (.i32 1)) .nil)) .nil

/-- `rgbAsMap`: `a = rgb { 1 2 3 }` read as `struct { a: struct { n: String, c: Vec<u32> } }` - the sequential paths (and
the reference) build the struct from the colour sequence, the tape path refuses. -/
theorem C04_misfit_rgbAsMap :
    fourOutcomes ⟨.error, []⟩ (.plain (.struct (.cons "a" 0 (.struct (.cons "n" 0 .str (.cons "c" 0 (.seq .u32) .nil))) .nil)))
      (.cons 0 mfKey (.rgb mfCol) .nil) =
    ((none, some .other), (some "{a={n=s726762,c=[u1,u2,u3]}}", none), (some "{a={n=s726762,c=[u1,u2,u3]}}", none),
      (some "{a={n=s726762,c=[u1,u2,u3]}}", none), false) := by decide +kernel

/-- `arrayAsMap`: `a = { x 2 }` (an array of two scalars) read as `struct { a: Map<String, i32> }` - all three paths pair the
scalars and answer `{a={x=2}}`; the reference ("an array is not a map") says `invalid type`: the code is more liberal than
the property's reading, so the combination is left out of the claim. -/
theorem C04_misfit_arrayAsMap :
    fourOutcomes ⟨.error, []⟩ (.plain (.struct (.cons "a" 0 (.map .i32) .nil)))
      (.cons 0 mfKey (.arr (.cons (.leaf (.unquoted [120])) (.cons (.leaf (.i32 2)) .nil))) .nil) =
    ((some "{a={s78=i2}}", none), (some "{a={s78=i2}}", none), (some "{a={s78=i2}}", none), (none, some .type), false) := by
  decide +kernel

/-- `objectAsAny`: `a = { b = 1 }` read as `struct { a: any }` - the tape path knows it is an object and answers the map,
the sequential paths see `{` and start a sequence, which fails at `=`. -/
theorem C04_misfit_objectAsAny :
    fourOutcomes ⟨.error, []⟩ (.plain (.struct (.cons "a" 0 .any .nil))) mfObj =
    ((some "{a={s62=i1}}", none), (none, some .other), (none, some .other), (none, some .type), false) := by decide +kernel

/-- `objectAsSeq`: `a = { b = 1 }` read as `struct { a: Vec<i32> }` - every path refuses, the tape path with a different
error class (`visit_key` on the object token) than the sequential paths (the key string met by an integer visitor). -/
theorem C04_misfit_objectAsSeq :
    fourOutcomes ⟨.error, []⟩ (.plain (.struct (.cons "a" 0 (.seq .i32) .nil))) mfObj =
    ((none, some .other), (none, some .type), (none, some .type), (none, some .type), false) := by decide +kernel

/-- `rgbInArray`: `a = { rgb { 1 2 3 } }` read as `struct { a: Vec<any> }` (unknown ids stringified) - the tape parser does
not recognise the colour in array position (two elements: the marker as an id, then the component array), the sequential
paths see one colour (known finding rgb-in-array). -/
theorem C04_misfit_rgbInArray :
    fourOutcomes ⟨.stringify, []⟩ (.plain (.struct (.cons "a" 0 (.seq .any) .nil)))
      (.cons 0 mfKey (.arr (.cons (.rgb mfCol) .nil)) .nil) =
    ((some "{a=[s3078323433,[u1,u2,u3]]}", none), (some "{a=[[s726762,[u1,u2,u3]]]}", none),
      (some "{a=[[s726762,[u1,u2,u3]]]}", none), (some "{a=[[s726762,[u1,u2,u3]]]}", none), false) := by decide +kernel

end Jomini.BinDe
