import JominiModel.Model.Json
import JominiModel.Spec.Json
/-
Helper lemmas about the model's renderers (`renderCompact`, `renderPretty`) against the
reference definitions of `Spec/Json.lean` (C16_pretty_ws, C16_render_valid).
-/
namespace Jomini.Json
open Jomini Jomini.JsonSpec

set_option linter.unusedSectionVars false

/-! ### `strip` over concatenations -/

/-- neither whitespace nor a quotation mark -/
def PlainTok (tok : Bytes) : Prop := ∀ b ∈ tok, isWs b = false ∧ (b.toNat == 34) = false

theorem strip_plain (tok rest : Bytes) (h : PlainTok tok) :
    strip (tok ++ rest) .out = tok ++ strip rest .out := by
  induction tok with
  | nil => rfl
  | cons b bs ih =>
    have hb := h b (by simp)
    have hbs : PlainTok bs := fun x hx => h x (by simp [hx])
    simp [strip, hb.1, hb.2, ih hbs]

theorem isWs_not_quote (b : UInt8) (h : isWs b = true) : (b.toNat == 34) = false := by
  simp only [isWs, Bool.or_eq_true, beq_iff_eq] at h
  rcases h with ((h | h) | h) | h <;> simp [h]

theorem strip_ws (w rest : Bytes) (h : AllWs w) : strip (w ++ rest) .out = strip rest .out := by
  induction w with
  | nil => rfl
  | cons b bs ih =>
    have hb := h b (by simp)
    have hbs : AllWs bs := fun x hx => h x (by simp [hx])
    simp [strip, hb, isWs_not_quote b hb, ih hbs]

theorem allWs_indent (n : Nat) : AllWs (indentBytes n) := by
  intro b hb
  simp only [indentBytes, List.mem_replicate] at hb
  rw [hb.2]; rfl

theorem allWs_nl_indent (n : Nat) : AllWs ([10] ++ indentBytes n) := by
  intro b hb
  simp only [List.mem_append, List.mem_singleton] at hb
  rcases hb with hb | hb
  · rw [hb]; rfl
  · exact allWs_indent n b hb

theorem hexLower_facts : ∀ n, n < 16 →
    ((hexDigitLower n).toNat == 92) = false ∧ ((hexDigitLower n).toNat == 34) = false ∧
    isHexDig (hexDigitLower n) = true := by
  decide

theorem strip_escapeByte (b : UInt8) (tail : Bytes) :
    strip (escapeByte b ++ tail) .str = escapeByte b ++ strip tail .str := by
  unfold escapeByte
  split
  · simp [strip]
  split
  · simp [strip]
  split
  · simp [strip]
  split
  · simp [strip]
  split
  · simp [strip]
  split
  · simp [strip]
  split
  · simp [strip]
  split
  · rename_i h1 h2 h3 h4 h5 h6 h7 h8
    have hlt : b.toNat < 32 := h8
    have f1 := hexLower_facts (b.toNat / 16) (by omega)
    have f2 := hexLower_facts (b.toNat % 16) (by omega)
    simp [strip, f1.1, f1.2.1, f2.1, f2.2.1]
  · rename_i h1 h2 h3 h4 h5 h6 h7 h8
    have e1 : (b.toNat == 92) = false := by simpa using h2
    have e2 : (b.toNat == 34) = false := by simpa using h1
    simp [strip, e1, e2]

/-- inside a string the escaped rendering of `s` is copied verbatim and the closing
quotation mark is recognised -/
theorem strip_escaped (s rest : Bytes) :
    strip (s.flatMap escapeByte ++ 34 :: rest) .str = s.flatMap escapeByte ++ 34 :: strip rest .out := by
  induction s with
  | nil => simp [strip]
  | cons b bs ih =>
    simp only [List.flatMap_cons, List.append_assoc]
    rw [strip_escapeByte, ih]

theorem strip_renderStr (s rest : Bytes) :
    strip (renderStr s ++ rest) .out = renderStr s ++ strip rest .out := by
  simp [renderStr, strip, strip_escaped]

/-! ### numbers -/

theorem numStep_char (s s' : NumSt) (c : UInt8) (h : numStep s c = some s') :
    c.toNat = 43 ∨ c.toNat = 45 ∨ c.toNat = 46 ∨ c.toNat = 69 ∨ c.toNat = 101 ∨ (48 ≤ c.toNat ∧ c.toNat ≤ 57) := by
  cases s <;> grind [numStep, isDig, isDig19, isE]

theorem numStep_plain (s s' : NumSt) (c : UInt8) (h : numStep s c = some s') :
    isWs c = false ∧ (c.toNat == 34) = false := by
  have := numStep_char s s' c h
  simp only [isWs]
  grind

theorem numRun_plain (bs : Bytes) (s s' : NumSt) (h : numRun bs s = some s') : PlainTok bs := by
  induction bs generalizing s with
  | nil => intro b hb; simp at hb
  | cons c cs ih =>
    simp only [numRun] at h
    split at h
    · simp at h
    · rename_i s2 hs
      intro b hb
      simp only [List.mem_cons] at hb
      rcases hb with hb | hb
      · rw [hb]; exact numStep_plain s s2 c hs
      · exact ih s2 h b hb

theorem isNumber_plain (bs : Bytes) (h : isNumber bs = true) : PlainTok bs := by
  unfold isNumber at h
  split at h
  · rename_i s hs; exact numRun_plain bs _ s hs
  · simp at h

theorem numRun_digits (ds : Bytes) (h : ∀ d ∈ ds, isDig d = true) : numRun ds .int = some .int := by
  induction ds with
  | nil => rfl
  | cons d ds ih =>
    have hd := h d (by simp)
    simp [numRun, numStep, hd]
    exact ih (fun x hx => h x (by simp [hx]))

theorem digit_isDig (n : Nat) (h : n < 10) : isDig (UInt8.ofNat (48 + n)) = true := by
  have : ∀ n, n < 10 → isDig (UInt8.ofNat (48 + n)) = true := by decide
  exact this n h

theorem digit_isDig19 (n : Nat) (h : n < 10) (h0 : n ≠ 0) : isDig19 (UInt8.ofNat (48 + n)) = true := by
  have : ∀ n, n < 10 → n ≠ 0 → isDig19 (UInt8.ofNat (48 + n)) = true := by decide
  exact this n h h0

/-- shape of the digit loop: for `n ≠ 0` a leading digit 1-9 followed by digits -/
theorem natDigitsF_shape (fuel n : Nat) (acc : Bytes) (hf : n < fuel) (hn : n ≠ 0)
    (hacc : ∀ d ∈ acc, isDig d = true) :
    ∃ d ds, natDigitsF fuel n acc = d :: ds ∧ isDig19 d = true ∧ ∀ x ∈ ds, isDig x = true := by
  induction fuel generalizing n acc with
  | zero => omega
  | succ fuel ih =>
    simp only [natDigitsF]
    split
    · rename_i hlt
      exact ⟨_, acc, rfl, digit_isDig19 n hlt hn, hacc⟩
    · rename_i hge
      apply ih (n / 10) _ (by omega) (by omega)
      intro d hd
      simp only [List.mem_cons] at hd
      rcases hd with hd | hd
      · rw [hd]; exact digit_isDig (n % 10) (by omega)
      · exact hacc d hd

theorem isDig19_isDig (d : UInt8) (h : isDig19 d = true) : isDig d = true := by
  simp only [isDig19, isDig, Bool.and_eq_true, decide_eq_true_eq] at *
  omega

theorem isNumber_natDigits (n : Nat) : isNumber (natDigits n) = true := by
  by_cases hn : n = 0
  · subst hn; decide
  · obtain ⟨d, ds, he, hd, hds⟩ := natDigitsF_shape (n + 1) n [] (by omega) hn (by simp)
    simp only [natDigits, he, isNumber, numRun]
    have h45 : (d.toNat == 45) = false := by
      simp only [isDig19, Bool.and_eq_true, decide_eq_true_eq] at hd; simp; omega
    have h48 : (d.toNat == 48) = false := by
      simp only [isDig19, Bool.and_eq_true, decide_eq_true_eq] at hd; simp; omega
    simp [numStep, h45, h48, hd, numRun_digits ds hds, NumSt.accepting]

theorem isNumber_neg_natDigits (n : Nat) (hn : n ≠ 0) : isNumber (45 :: natDigits n) = true := by
  obtain ⟨d, ds, he, hd, hds⟩ := natDigitsF_shape (n + 1) n [] (by omega) hn (by simp)
  simp only [natDigits, he, isNumber, numRun]
  have h48 : (d.toNat == 48) = false := by
    simp only [isDig19, Bool.and_eq_true, decide_eq_true_eq] at hd; simp; omega
  simp [numStep, h48, hd, numRun_digits ds hds, NumSt.accepting]

theorem isNumber_intDigits (i : Int) : isNumber (intDigits i) = true := by
  cases i with
  | ofNat n => exact isNumber_natDigits n
  | negSucc n => exact isNumber_neg_natDigits (n + 1) (by omega)

theorem strip_punct (c : UInt8) (X : Bytes) (hc : isWs c = false) (hq : (c.toNat == 34) = false) :
    strip (c :: X) .out = c :: strip X .out := by
  simp [strip, hc, hq]

theorem plain_kNull : PlainTok kNull := by simp [PlainTok, kNull, isWs]
theorem plain_kTrue : PlainTok kTrue := by simp [PlainTok, kTrue, isWs]
theorem plain_kFalse : PlainTok kFalse := by simp [PlainTok, kFalse, isWs]

section
variable (ff : Nat → Bytes) (hff : ∀ b, isNumber (ff b) = true)
include hff

mutual
theorem strip_prettyAt : (v : JVal) → (ind : Nat) → (rest : Bytes) →
    strip (renderPrettyAt ff v ind ++ rest) .out = renderCompact ff v ++ strip rest .out
  | .null, _, rest => by simpa [renderPrettyAt, renderCompact] using strip_plain kNull rest plain_kNull
  | .bool true, _, rest => by simpa [renderPrettyAt, renderCompact] using strip_plain kTrue rest plain_kTrue
  | .bool false, _, rest => by simpa [renderPrettyAt, renderCompact] using strip_plain kFalse rest plain_kFalse
  | .int i, _, rest => by
    simpa [renderPrettyAt, renderCompact] using strip_plain (intDigits i) rest (isNumber_plain _ (isNumber_intDigits i))
  | .float b, _, rest => by
    simpa [renderPrettyAt, renderCompact] using strip_plain (ff b) rest (isNumber_plain _ (hff b))
  | .str s, _, rest => by simpa [renderPrettyAt, renderCompact] using strip_renderStr s rest
  | .arr [], _, rest => by simp [renderPrettyAt, renderCompact, renderCompactArr, strip, isWs]
  | .arr (x :: xs), ind, rest => by
    have h := strip_prettyArr (x :: xs) (ind + 1) ([10] ++ indentBytes ind ++ [93] ++ rest)
    have hw := strip_ws ([10] ++ indentBytes ind) ([93] ++ rest) (allWs_nl_indent ind)
    simp only [renderPrettyAt, renderCompact, List.append_assoc, List.cons_append, List.nil_append] at *
    rw [strip_punct 91 _ (by decide) (by decide), h, hw, strip_punct 93 _ (by decide) (by decide)]
  | .obj [], _, rest => by simp [renderPrettyAt, renderCompact, renderCompactObj, strip, isWs]
  | .obj (kv :: kvs), ind, rest => by
    have h := strip_prettyObj (kv :: kvs) (ind + 1) ([10] ++ indentBytes ind ++ [125] ++ rest)
    have hw := strip_ws ([10] ++ indentBytes ind) ([125] ++ rest) (allWs_nl_indent ind)
    simp only [renderPrettyAt, renderCompact, List.append_assoc, List.cons_append, List.nil_append] at *
    rw [strip_punct 123 _ (by decide) (by decide), h, hw, strip_punct 125 _ (by decide) (by decide)]
theorem strip_prettyArr : (xs : List JVal) → (ind : Nat) → (rest : Bytes) →
    strip (renderPrettyArr ff xs ind ++ rest) .out = renderCompactArr ff xs ++ strip rest .out
  | [], _, rest => by simp [renderPrettyArr, renderCompactArr]
  | [x], ind, rest => by
    have hw := strip_ws ([10] ++ indentBytes ind) (renderPrettyAt ff x ind ++ rest) (allWs_nl_indent ind)
    have h := strip_prettyAt x ind rest
    simp only [renderPrettyArr, renderCompactArr, List.append_assoc, List.cons_append, List.nil_append] at *
    rw [hw, h]
  | x :: y :: r, ind, rest => by
    have hw := strip_ws ([10] ++ indentBytes ind) (renderPrettyAt ff x ind ++ ([44] ++ renderPrettyArr ff (y :: r) ind ++ rest)) (allWs_nl_indent ind)
    have h := strip_prettyAt x ind ([44] ++ renderPrettyArr ff (y :: r) ind ++ rest)
    have h2 := strip_prettyArr (y :: r) ind rest
    simp only [renderPrettyArr, renderCompactArr, List.append_assoc, List.cons_append, List.nil_append] at *
    rw [hw, h, strip_punct 44 _ (by decide) (by decide), h2]
theorem strip_prettyObj : (kvs : List (Bytes × JVal)) → (ind : Nat) → (rest : Bytes) →
    strip (renderPrettyObj ff kvs ind ++ rest) .out = renderCompactObj ff kvs ++ strip rest .out
  | [], _, rest => by simp [renderPrettyObj, renderCompactObj]
  | [(k, v)], ind, rest => by
    have hw := strip_ws ([10] ++ indentBytes ind) (renderStr k ++ ([58, 32] ++ renderPrettyAt ff v ind ++ rest)) (allWs_nl_indent ind)
    have hk := strip_renderStr k ([58, 32] ++ renderPrettyAt ff v ind ++ rest)
    have h := strip_prettyAt v ind rest
    simp only [renderPrettyObj, renderCompactObj, List.append_assoc, List.cons_append, List.nil_append] at *
    rw [hw, hk, strip_punct 58 _ (by decide) (by decide)]
    simp only [strip, isWs]
    simp [h]
  | (k, v) :: kv :: r, ind, rest => by
    have hw := strip_ws ([10] ++ indentBytes ind) (renderStr k ++ ([58, 32] ++ renderPrettyAt ff v ind ++ ([44] ++ renderPrettyObj ff (kv :: r) ind ++ rest))) (allWs_nl_indent ind)
    have hk := strip_renderStr k ([58, 32] ++ renderPrettyAt ff v ind ++ ([44] ++ renderPrettyObj ff (kv :: r) ind ++ rest))
    have h := strip_prettyAt v ind ([44] ++ renderPrettyObj ff (kv :: r) ind ++ rest)
    have h2 := strip_prettyObj (kv :: r) ind rest
    simp only [renderPrettyObj, renderCompactObj, List.append_assoc, List.cons_append, List.nil_append] at *
    rw [hw, hk, strip_punct 58 _ (by decide) (by decide)]
    simp only [strip, isWs]
    simp [h, strip_punct 44 _ (by decide) (by decide), h2]
end
end

/-! ### validity -/

theorem strBody_escapeByte (b : UInt8) (tail : Bytes) (h : StrBody tail) : StrBody (escapeByte b ++ tail) := by
  unfold escapeByte
  split
  · exact StrBody.esc 34 tail (by decide) h
  split
  · exact StrBody.esc 92 tail (by decide) h
  split
  · exact StrBody.esc 98 tail (by decide) h
  split
  · exact StrBody.esc 116 tail (by decide) h
  split
  · exact StrBody.esc 110 tail (by decide) h
  split
  · exact StrBody.esc 102 tail (by decide) h
  split
  · exact StrBody.esc 114 tail (by decide) h
  split
  · rename_i h1 h2 h3 h4 h5 h6 h7 h8
    have hlt : b.toNat < 32 := h8
    have f1 := hexLower_facts (b.toNat / 16) (by omega)
    have f2 := hexLower_facts (b.toNat % 16) (by omega)
    exact StrBody.uni 48 48 _ _ tail (by decide) (by decide) f1.2.2 f2.2.2 h
  · rename_i h1 h2 h3 h4 h5 h6 h7 h8
    exact StrBody.plain b tail (by omega) (by simpa using h1) (by simpa using h2) h

theorem strBody_escaped (s : Bytes) : StrBody (s.flatMap escapeByte) := by
  induction s with
  | nil => exact StrBody.nil
  | cons b bs ih =>
    simp only [List.flatMap_cons]
    exact strBody_escapeByte b _ ih

theorem stringTok_renderStr (s : Bytes) : StringTok (renderStr s) :=
  ⟨s.flatMap escapeByte, strBody_escaped s, by simp [renderStr]⟩

theorem allWs_nil : AllWs [] := by intro b hb; simp at hb

section
variable (ff : Nat → Bytes) (hff : ∀ b, isNumber (ff b) = true)
include hff
set_option linter.unusedSectionVars false

mutual
theorem value_compact : (v : JVal) → Value (renderCompact ff v)
  | .null => Value.null
  | .bool true => Value.true_
  | .bool false => Value.false_
  | .int i => Value.num _ (isNumber_intDigits i)
  | .float b => Value.num _ (hff b)
  | .str s => Value.str _ (stringTok_renderStr s)
  | .arr [] => by simpa [renderCompact, renderCompactArr] using Value.arrEmpty [] allWs_nil
  | .arr (x :: xs) => by
    simpa [renderCompact] using Value.arr _ (elems_compact (x :: xs) (by simp))
  | .obj [] => by simpa [renderCompact, renderCompactObj] using Value.objEmpty [] allWs_nil
  | .obj (kv :: kvs) => by
    simpa [renderCompact] using Value.obj _ (members_compact (kv :: kvs) (by simp))
theorem elems_compact : (xs : List JVal) → xs ≠ [] → Elems (renderCompactArr ff xs)
  | [], h => absurd rfl h
  | [x], _ => by simpa [renderCompactArr] using Elems.one [] _ [] allWs_nil (value_compact x) allWs_nil
  | x :: y :: r, _ => by
    simpa [renderCompactArr] using Elems.cons [] _ [] _ allWs_nil (value_compact x) allWs_nil (elems_compact (y :: r) (by simp))
theorem members_compact : (kvs : List (Bytes × JVal)) → kvs ≠ [] → Members (renderCompactObj ff kvs)
  | [], h => absurd rfl h
  | [(k, v)], _ => by
    simpa [renderCompactObj] using Members.one [] _ [] [] _ [] allWs_nil (stringTok_renderStr k) allWs_nil allWs_nil (value_compact v) allWs_nil
  | (k, v) :: kv :: r, _ => by
    simpa [renderCompactObj] using Members.cons [] _ [] [] _ [] _ allWs_nil (stringTok_renderStr k) allWs_nil allWs_nil (value_compact v) allWs_nil (members_compact (kv :: r) (by simp))
end

theorem jsonText_compact (v : JVal) : JsonText (renderCompact ff v) :=
  ⟨[], _, [], allWs_nil, value_compact ff hff v, allWs_nil, by simp⟩
end

theorem allWs_sp : AllWs [32] := by intro b hb; simp at hb; rw [hb]; rfl

section
variable (ff : Nat → Bytes) (hff : ∀ b, isNumber (ff b) = true)
include hff
set_option linter.unusedSectionVars false

mutual
theorem value_pretty : (v : JVal) → (ind : Nat) → Value (renderPrettyAt ff v ind)
  | .null, _ => Value.null
  | .bool true, _ => Value.true_
  | .bool false, _ => Value.false_
  | .int i, _ => Value.num _ (isNumber_intDigits i)
  | .float b, _ => Value.num _ (hff b)
  | .str s, _ => Value.str _ (stringTok_renderStr s)
  | .arr [], _ => by simpa [renderPrettyAt] using Value.arrEmpty [] allWs_nil
  | .arr (x :: xs), ind => by
    simpa [renderPrettyAt] using Value.arr _ (elems_pretty (x :: xs) (ind + 1) ([10] ++ indentBytes ind) (allWs_nl_indent ind) (by simp))
  | .obj [], _ => by simpa [renderPrettyAt] using Value.objEmpty [] allWs_nil
  | .obj (kv :: kvs), ind => by
    simpa [renderPrettyAt] using Value.obj _ (members_pretty (kv :: kvs) (ind + 1) ([10] ++ indentBytes ind) (allWs_nl_indent ind) (by simp))
theorem elems_pretty : (xs : List JVal) → (ind : Nat) → (tail : Bytes) → AllWs tail → xs ≠ [] →
    Elems (renderPrettyArr ff xs ind ++ tail)
  | [], _, _, _, h => absurd rfl h
  | [x], ind, tail, ht, _ => by
    simpa [renderPrettyArr] using Elems.one ([10] ++ indentBytes ind) _ tail (allWs_nl_indent ind) (value_pretty x ind) ht
  | x :: y :: r, ind, tail, ht, _ => by
    simpa [renderPrettyArr] using Elems.cons ([10] ++ indentBytes ind) _ [] _ (allWs_nl_indent ind) (value_pretty x ind) allWs_nil
      (elems_pretty (y :: r) ind tail ht (by simp))
theorem members_pretty : (kvs : List (Bytes × JVal)) → (ind : Nat) → (tail : Bytes) → AllWs tail → kvs ≠ [] →
    Members (renderPrettyObj ff kvs ind ++ tail)
  | [], _, _, _, h => absurd rfl h
  | [(k, v)], ind, tail, ht, _ => by
    simpa [renderPrettyObj] using Members.one ([10] ++ indentBytes ind) _ [] [32] _ tail (allWs_nl_indent ind)
      (stringTok_renderStr k) allWs_nil allWs_sp (value_pretty v ind) ht
  | (k, v) :: kv :: r, ind, tail, ht, _ => by
    simpa [renderPrettyObj] using Members.cons ([10] ++ indentBytes ind) _ [] [32] _ [] _ (allWs_nl_indent ind)
      (stringTok_renderStr k) allWs_nil allWs_sp (value_pretty v ind) allWs_nil (members_pretty (kv :: r) ind tail ht (by simp))
end

theorem jsonText_pretty (v : JVal) : JsonText (renderPretty ff v) :=
  ⟨[], _, [], allWs_nil, value_pretty ff hff v 0, allWs_nil, by simp [renderPretty]⟩
end

end Jomini.Json
