import JominiModel.Proofs.BinTapeItems
import JominiModel.Proofs.BinTapeInv
/-
C06 (binary half) — the theorems to be re-exported by `Props/C06.lean`.
`WfBinTape` (Proofs/BinTapeItems.lean) is the declarative predicate, `wfBinTape` (Model/BinTape.lean)
the executable one-pass checker used by the `wfbin` op.
-/
namespace Jomini.BinTape
open Jomini

/-- **Checker soundness and completeness.**  The executable stack pass `wfBinTape` accepts exactly
the tapes satisfying the declarative predicate `WfBinTape` (the whole tape is a sequence of
complete items: plain tokens and containers `start(e) … End(i)` at indices `i ≠ 0`, `e`, nested). -/
theorem C06_bin_checker_sound (input : Bytes) (toks : Tape) :
    wfBinTape input toks = true ↔ WfBinTape toks :=
  wfBinTape_iff input toks

example : WfBinTape [.token 1, .object 4, .token 2, .i32 5, .end_ 1] :=
  (C06_bin_checker_sound [] _).mp (by decide)

example : ¬ WfBinTape [.token 1, .array 3, .end_ 1] := fun h =>
  absurd ((C06_bin_checker_sound [] _).mpr h) (by decide)

/-- **`WfBinTape` in the words of the property** (index form): every container-start token at `i`
indexes a later end token `e > i` inside the tape that indexes it back; every `End i` at `j` is
indexed by the container at `i < j`; no container or `End` carries (or sits at) index 0.  Proper
nesting is the grammar `Items` itself. -/
theorem C06_bin_links (toks : Tape) (h : WfBinTape toks) :
    (∀ i e, (toks[i]? = some (.array e) ∨ toks[i]? = some (.object e)) →
        i ≠ 0 ∧ e ≠ 0 ∧ i < e ∧ e < toks.length ∧ toks[e]? = some (.end_ i)) ∧
    (∀ j i, toks[j]? = some (.end_ i) →
        i ≠ 0 ∧ i < j ∧ (toks[i]? = some (.array j) ∨ toks[i]? = some (.object j))) :=
  ⟨fun i e hs => by
      obtain ⟨h1, h2, h3, h4⟩ := h.start_link i e hs
      exact ⟨h1, by omega, h2, h3, h4⟩,
   fun j i hs => h.end_link j i hs⟩

/-- **The parser's invariant implies `WfBinTape` at the accepting exit, for all inputs.**
`TInv` (Proofs/BinTapeInv.lean) holds for the initial variables (`init_inv`), is preserved by
every iteration of the plain loop (`step_inv`), and at the accepting exit gives `WfBinTape`
(`run_false_wf`); the optimised parser returns the same tape (`parse_true_eq_false`).  Hence
whenever either parser accepts, on any input whatsoever, the tape is structurally sound. -/
theorem C06_bin_inv (opt : Bool) (data : Bytes) (toks : Tape) (h : parse opt data = .ok toks) :
    WfBinTape toks :=
  parse_wf opt data toks h

/-- the three parts of the invariant argument, as separate facts -/
theorem C06_bin_inv_parts :
    (∀ data, TInv (init data).tape (init data).parent (init data).state) ∧
    (∀ st st' : St, step st = .next st' → TInv st.tape st.parent st.state → TInv st'.tape st'.parent st'.state) ∧
    (∀ st : St, TInv st.tape st.parent st.state → st.parent = 0 → WfBinTape st.tape) :=
  ⟨init_inv, fun _ _ h hi => step_inv h hi, fun st hi hp => by
    have ho := hi.openAt; rw [hp] at ho; exact ho.zero⟩

example : parse true [0x82, 0x2d, 0x01, 0x00, 0x03, 0x00, 0x0c, 0x00, 5, 0, 0, 0, 0x04, 0x00]
    = .ok [.token 0x2d82, .array 3, .i32 5, .end_ 1] := by rfl

end Jomini.BinTape
