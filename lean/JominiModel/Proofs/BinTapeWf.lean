import JominiModel.Proofs.BinTapeItems
import JominiModel.Proofs.BinTapeInv
import JominiModel.Proofs.BinTapePayload
import JominiModel.Proofs.BinTapePairs
/-
C06 (binary half) — the theorems to be re-exported by `Props/C06.lean`.
`WfBinTape` (Proofs/BinTapeItems.lean) is the declarative predicate, `wfBinTape` (Model/BinTape.lean)
the executable one-pass checker used by the `wfbin` op.
-/
namespace Jomini.BinTape
open Jomini

/-- **Checker soundness and completeness.**  The executable stack pass `wfBinTape` accepts exactly
the tapes satisfying the declarative predicate `WfBinTape` (the whole tape is a sequence of
complete items: plain tokens and containers `start(e) … End(i)` at indices `i ≠ 0`, `e`, nested). -/
theorem C06_bin_checker_sound (input : Bytes) (toks : Tape) :
    wfBinTape input toks = true ↔ WfBinTape toks :=
  wfBinTape_iff input toks

example : WfBinTape [.token 1, .object 4, .token 2, .i32 5, .end_ 1] :=
  (C06_bin_checker_sound [] _).mp (by decide)

example : ¬ WfBinTape [.token 1, .array 3, .end_ 1] := fun h =>
  absurd ((C06_bin_checker_sound [] _).mpr h) (by decide)

/-- **`WfBinTape` in the words of the property** (index form): every container-start token at `i`
indexes a later end token `e > i` inside the tape that indexes it back; every `End i` at `j` is
indexed by the container at `i < j`; no container or `End` carries (or sits at) index 0.  Proper
nesting is the grammar `Items` itself. -/
theorem C06_bin_links (toks : Tape) (h : WfBinTape toks) :
    (∀ i e, (toks[i]? = some (.array e) ∨ toks[i]? = some (.object e)) →
        i ≠ 0 ∧ e ≠ 0 ∧ i < e ∧ e < toks.length ∧ toks[e]? = some (.end_ i)) ∧
    (∀ j i, toks[j]? = some (.end_ i) →
        i ≠ 0 ∧ i < j ∧ (toks[i]? = some (.array j) ∨ toks[i]? = some (.object j))) :=
  ⟨fun i e hs => by
      obtain ⟨h1, h2, h3, h4⟩ := h.start_link i e hs
      exact ⟨h1, by omega, h2, h3, h4⟩,
   fun j i hs => h.end_link j i hs⟩

/-- **The parser's invariant implies `WfBinTape` at the accepting exit, for all inputs.**
`TInv` (Proofs/BinTapeInv.lean) holds for the initial variables (`init_inv`), is preserved by
every iteration of the plain loop (`step_inv`), and at the accepting exit gives `WfBinTape`
(`run_false_wf`); the optimised parser returns the same tape (`parse_true_eq_false`).  Hence
whenever either parser accepts, on any input whatsoever, the tape is structurally sound. -/
theorem C06_bin_inv (opt : Bool) (data : Bytes) (toks : Tape) (h : parse opt data = .ok toks) :
    WfBinTape toks :=
  parse_wf opt data toks h

/-- **Objects are what they say** (the theorem behind the L3 oracle `bin-tape-object-pairs`).  For every
accepted input and both parser variants the tape is a sequence of good items (`GSeq`, Proofs/BinTapePairs.lean):
plain tokens, arrays of good items, and objects whose body — up to its first `MixedContainer` marker, or
its end — is a sequence of `key value` pairs, every key a scalar / id token (`isKey`: not a container start,
an `End`, the marker, an `Equal` or an `Rgb`), every plain value not the marker and not an `Equal` (`isVal`;
the parser pushes `Equal` and the marker only behind a marker resp. in key position) (`Body … K`/`M` at the close; a body ending in a key without a value, phase `V`, is
excluded), values plain tokens or good containers, and behind a marker any good items.
Proved as an invariant of the loop (`GInv`: the chain of open containers, each open object with its body
phase, coupled to the parser state; `step_ginv`).  This is NOT implied by `WfBinTape` (which only speaks of
delimiters): `[T, O4, T, T, T, E1]` is `WfBinTape` but not `GSeq`. -/
theorem C06_bin_object_pairs (opt : Bool) (data : Bytes) (toks : Tape) (h : parse opt data = .ok toks) :
    GSeq toks :=
  parse_good opt data toks h

/-- the strengthened soundness predicate of the binary tape: delimiters (`WfBinTape`) and object
classification (`GSeq`) -/
def WfBinTapeP (toks : Tape) : Prop := WfBinTape toks ∧ GSeq toks

theorem C06_bin_inv_pairs (opt : Bool) (data : Bytes) (toks : Tape) (h : parse opt data = .ok toks) :
    WfBinTapeP toks :=
  ⟨C06_bin_inv opt data toks h, C06_bin_object_pairs opt data toks h⟩

/-- a marker-free, container-free body in phase `K` has an even number of tokens (pairs), in phase `V` an
odd number; it cannot be in phase `M` -/
theorem Body.parity : ∀ {l : Tape} {ph : Phase}, Body l ph → (∀ x ∈ l, x.isKey = true) →
    (ph = .K → l.length % 2 = 0) ∧ (ph = .V → l.length % 2 = 1) ∧ ph ≠ .M
  | _, _, .nil, _ => ⟨fun _ => rfl, (by intro h; cases h), (by decide)⟩
  | _, _, .key hb _, hk => by
    have := Body.parity hb (fun x hx => hk x (by simp [hx]))
    refine ⟨(by intro h; cases h), fun _ => ?_, (by decide)⟩
    have := this.1 rfl; simp; omega
  | _, _, .valPlain hb _, hk => by
    have := Body.parity hb (fun x hx => hk x (by simp [hx]))
    refine ⟨fun _ => ?_, (by intro h; cases h), (by decide)⟩
    have := this.2.1 rfl; simp; omega
  | _, _, .valCont _ hc, hk => by
    obtain ⟨l', i, rfl⟩ := hc.last_end
    have := hk (.end_ i) (by simp)
    simp [BTok.isKey, BTok.isVal, BTok.isPlain] at this
  | _, _, .mixed _, hk => by
    have := hk .mixed (by simp)
    simp [BTok.isKey, BTok.isVal] at this
  | _, _, .afterPlain hb _, hk => by
    have := Body.parity hb (fun x hx => hk x (by simp [hx]))
    exact absurd rfl this.2.2
  | _, _, .afterCont hb _, hk => by
    have := Body.parity hb (fun x hx => hk x (by simp [hx]))
    exact absurd rfl this.2.2

/-- the witness of the seeded defect C06_r7_2 is excluded: an `Object` with three body tokens is not good -/
example : ¬ GCont [.object 5, .token 1, .token 2, .token 3, .end_ 1] := by
  intro h
  generalize hm : [BTok.object 5, .token 1, .token 2, .token 3, .end_ 1] = c at h
  cases h with
  | arr e i _ => simp at hm
  | @obj inner ph e i hb hne =>
    simp at hm
    obtain ⟨_, hm⟩ := hm
    have hin : inner = [.token 1, .token 2, .token 3] := by
      have : [BTok.token 1, .token 2, .token 3] ++ [BTok.end_ 1] = inner ++ [BTok.end_ i] := by simpa using hm
      exact (List.append_inj_left' this (by simp)).symm
    subst hin
    have hp := hb.parity (by intro x hx; simp at hx; rcases hx with rfl | rfl | rfl <;> rfl)
    cases ph with
    | K => have := hp.1 rfl; simp at this
    | V => exact hne rfl
    | M => exact hp.2.2 rfl

/-- a good tape: `id = { id = I32 5 }` -/
example : GSeq [.token 1, .object 4, .token 2, .i32 5, .end_ 1] := by
  have hb : Body [.token 2, .i32 5] .K := by
    have := Body.valPlain (Body.key Body.nil (k := .token 2) rfl) (v := .i32 5) rfl
    simpa using this
  have hc : GCont (.object 4 :: ([.token 2, .i32 5] ++ [.end_ 1])) := GCont.obj 4 1 hb (by decide)
  have := GSeq.cont (GSeq.plain GSeq.nil (x := .token 1) rfl) hc
  simpa using this

/-- **Payload clause.**  Whenever either parser accepts, on any input whatsoever, every token of the
tape is structural (`Array` / `Object` / `End` / `MixedContainer`) or is the decoding of the lexeme
that stands at some offset `off` of the input (`LexTok (data.drop off) x`: the 16-bit id of the
token's binary type at `off`, then its payload): for `Quoted` / `Unquoted` the scalar *is* the slice
`data[off+4 .. off+4+len)`, for `U32/I32/U64/I64` the value is the little-endian reading of
`data[off+2 ..)`, for `F32/F64` the bytes themselves, `Bool` the byte `≠ 0`, `Token` the id itself,
`Rgb` the `{ U32 r U32 g U32 b [U32 a] }` block behind the marker, `Equal` an `=` lexeme
(byte-level readings: `LexTok.u32_bytes`, `LexTok.quoted_bytes`, … in Proofs/BinTapePayload.lean).
The list model carries no positions, so the offset is existential rather than recorded. -/
theorem C06_bin_payloads (opt : Bool) (data : Bytes) (toks : Tape) (h : parse opt data = .ok toks) :
    ∀ x ∈ toks, x.isPlain = false ∨ x = .mixed ∨ ∃ off, off ≤ data.length ∧ LexTok (data.drop off) x :=
  parse_sourced opt data toks h

/-- the clause spelt out for the two shapes of payload: strings are slices of the input, numbers
are the little-endian reading of the input bytes behind their id -/
theorem C06_bin_payload_bytes (opt : Bool) (data : Bytes) (toks : Tape) (h : parse opt data = .ok toks) :
    (∀ s, (BTok.quoted s ∈ toks ∨ BTok.unquoted s ∈ toks) →
      ∃ off, off ≤ data.length ∧ s = (data.drop (off + 4)).take s.length) ∧
    (∀ v, BTok.u32 v ∈ toks → ∃ off, off + 6 ≤ data.length ∧ v = leNat ((data.drop (off + 2)).take 4)) ∧
    (∀ v, BTok.i32 v ∈ toks → ∃ off, off + 6 ≤ data.length ∧ v = toSigned 32 (leNat ((data.drop (off + 2)).take 4))) ∧
    (∀ v, BTok.u64 v ∈ toks → ∃ off, off + 10 ≤ data.length ∧ v = leNat ((data.drop (off + 2)).take 8)) ∧
    (∀ v, BTok.i64 v ∈ toks → ∃ off, off + 10 ≤ data.length ∧ v = toSigned 64 (leNat ((data.drop (off + 2)).take 8))) ∧
    (∀ b, BTok.f32 b ∈ toks → ∃ off, off + 6 ≤ data.length ∧ b = (data.drop (off + 2)).take 4) ∧
    (∀ b, BTok.f64 b ∈ toks → ∃ off, off + 10 ≤ data.length ∧ b = (data.drop (off + 2)).take 8) := by
  have hs := parse_sourced opt data toks h
  have get : ∀ x ∈ toks, x.isPlain = true → x ≠ .mixed → ∃ off, off ≤ data.length ∧ LexTok (data.drop off) x := by
    intro x hx hp hm
    rcases hs x hx with h1 | h1 | h1
    · rw [hp] at h1; cases h1
    · exact absurd h1 hm
    · exact h1
  refine ⟨?_, ?_, ?_, ?_, ?_, ?_, ?_⟩
  · intro s hq
    rcases hq with hq | hq
    · obtain ⟨off, ho, hl⟩ := get _ hq rfl (by simp)
      exact ⟨off, ho, by have := hl.quoted_bytes; simpa [List.drop_drop, Nat.add_comm] using this⟩
    · obtain ⟨off, ho, hl⟩ := get _ hq rfl (by simp)
      exact ⟨off, ho, by have := hl.unquoted_bytes; simpa [List.drop_drop, Nat.add_comm] using this⟩
  · intro v hv
    obtain ⟨off, ho, hl⟩ := get _ hv rfl (by simp)
    obtain ⟨h1, h2⟩ := hl.u32_bytes
    exact ⟨off, by simp at h2; omega, by simpa [List.drop_drop, Nat.add_comm] using h1⟩
  · intro v hv
    obtain ⟨off, ho, hl⟩ := get _ hv rfl (by simp)
    obtain ⟨h1, h2⟩ := hl.i32_bytes
    exact ⟨off, by simp at h2; omega, by simpa [List.drop_drop, Nat.add_comm] using h1⟩
  · intro v hv
    obtain ⟨off, ho, hl⟩ := get _ hv rfl (by simp)
    obtain ⟨h1, h2⟩ := hl.u64_bytes
    exact ⟨off, by simp at h2; omega, by simpa [List.drop_drop, Nat.add_comm] using h1⟩
  · intro v hv
    obtain ⟨off, ho, hl⟩ := get _ hv rfl (by simp)
    obtain ⟨h1, h2⟩ := hl.i64_bytes
    exact ⟨off, by simp at h2; omega, by simpa [List.drop_drop, Nat.add_comm] using h1⟩
  · intro v hv
    obtain ⟨off, ho, hl⟩ := get _ hv rfl (by simp)
    obtain ⟨h1, h2⟩ := hl.f32_bytes
    exact ⟨off, by simp at h2; omega, by simpa [List.drop_drop, Nat.add_comm] using h1⟩
  · intro v hv
    obtain ⟨off, ho, hl⟩ := get _ hv rfl (by simp)
    obtain ⟨h1, h2⟩ := hl.f64_bytes
    exact ⟨off, by simp at h2; omega, by simpa [List.drop_drop, Nat.add_comm] using h1⟩

/-- the three parts of the invariant argument, as separate facts -/
theorem C06_bin_inv_parts :
    (∀ data, TInv (init data).tape (init data).parent (init data).state) ∧
    (∀ st st' : St, step st = .next st' → TInv st.tape st.parent st.state → TInv st'.tape st'.parent st'.state) ∧
    (∀ st : St, TInv st.tape st.parent st.state → st.parent = 0 → WfBinTape st.tape) :=
  ⟨init_inv, fun _ _ h hi => step_inv h hi, fun st hi hp => by
    have ho := hi.openAt; rw [hp] at ho; exact ho.zero⟩

example : parse true [0x82, 0x2d, 0x01, 0x00, 0x03, 0x00, 0x0c, 0x00, 5, 0, 0, 0, 0x04, 0x00]
    = .ok [.token 0x2d82, .array 3, .i32 5, .end_ 1] := by rfl

end Jomini.BinTape
