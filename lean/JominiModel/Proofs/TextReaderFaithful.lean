import JominiModel.Proofs.TextReaderFast
/-
Faithfulness of the text reader on rendered documents: the from-slice token sequence of a rendering under a valid
reader-safe layout is exactly the lexeme list of the document.
-/
namespace Jomini.TextReader
open Jomini Jomini.TextReader.Spec

/-! ### lexemes and layouts -/

/-- what a document is made of, as far as the token reader is concerned -/
inductive Lexeme
  | open_
  | close
  | op (o : Op)
  | scalar (quoted : Bool) (bytes : Bytes)
  deriving DecidableEq, Repr

def opText : Op → Bytes
  | .eq => [61] | .lt => [60] | .le => [60, 61] | .gt => [62] | .ge => [62, 61]
  | .ne => [33, 61] | .exact => [61, 61] | .exists_ => [63, 61]

/-- the bytes of a lexeme in the file -/
def Lexeme.text : Lexeme → Bytes
  | .open_ => [123]
  | .close => [125]
  | .op o => opText o
  | .scalar true b => 34 :: (b ++ [34])
  | .scalar false b => b

/-- the token the reader must produce for it -/
def Lexeme.tok : Lexeme → Token
  | .open_ => .open_
  | .close => .close
  | .op o => .op o
  | .scalar true b => .quoted b
  | .scalar false b => .unquoted b

/-- layout filler between lexemes: blank bytes (space, tab, LF, CR, `;`) and complete comments `# … \n` -/
inductive Gap : Bytes → Prop
  | nil : Gap []
  | ws (c : UInt8) (w : Bytes) : isBlank c = true → Gap w → Gap (c :: w)
  | comment (body w : Bytes) : (∀ c ∈ body, (c == 10) = false) → Gap w → Gap (35 :: (body ++ 10 :: w))

/-- a gap, or a gap that ends in an unterminated comment (allowed only at the very end of the input) -/
inductive EndGap : Bytes → Prop
  | gap (g : Bytes) : Gap g → EndGap g
  | comment (g body : Bytes) : Gap g → (∀ c ∈ body, (c == 10) = false) → EndGap (g ++ 35 :: body)

/-- `x` is empty or starts with a boundary byte: what must follow an unquoted scalar -/
def StartsBoundary (x : Bytes) : Prop := x = [] ∨ ∃ c r, x = c :: r ∧ isBoundary c = true

/-- a lexeme that lexes back to itself when followed by `after` -/
def Lexeme.Valid : Lexeme → Bytes → Prop
  | .open_, _ => True
  | .close, _ => True
  | .op o, after =>
    -- `=`, `<`, `>` need a following byte that is not `=`
    (o = .eq ∨ o = .lt ∨ o = .gt) → ∃ c r, after = c :: r ∧ (c == 61) = false
  | .scalar true b, _ => quoteEnd (b ++ [34]) 0 = some b.length
  | .scalar false b, after =>
    (∀ c ∈ b, isBoundary c = false) ∧
    (∃ c r, b = c :: r ∧ (c == 59) = false ∧ (c == 34) = false ∧ (c == 64) = false ∧ (c == 63) = false) ∧
    StartsBoundary after

/-- the rendering: each lexeme behind its gap, then the trailing filler -/
def renderLex : List (Bytes × Lexeme) → Bytes → Bytes
  | [], gt => gt
  | (g, lx) :: rest, gt => g ++ (lx.text ++ renderLex rest gt)

/-- layout validity (reader-safe): gaps are gaps, every lexeme is valid in front of what follows it -/
def ValidLex : List (Bytes × Lexeme) → Bytes → Prop
  | [], gt => EndGap gt
  | (g, lx) :: rest, gt => Gap g ∧ lx.Valid (renderLex rest gt) ∧ ValidLex rest gt

theorem Gap.skips {g : Bytes} (h : Gap g) (pos0 : Bool) (i : Nat) (bom : Bom) : Skips pos0 g i bom bom := by
  induction h generalizing i with
  | nil => exact .nil _ _
  | ws c w hc _ ih => exact .blank hc (ih _)
  | comment body w hb _ ih => exact .comment hb (ih _)

/-! ### one lexeme -/

/-- the reference step at a byte that starts a token -/
theorem specStep_at_token {pos0 : Bool} {pre r : Bytes} {c : UInt8} {bom bom_s : Bom}
    (hs : Skips pos0 pre 0 bom bom_s) (hb : isBlank c = false) (h35 : (c == 35) = false)
    (hbomc : ¬(BomCheck pos0 c pre.length bom_s ∧ ∃ r', r = 0xbb :: 0xbf :: r')) :
    ∃ bomX, specStep pos0 bom (pre ++ c :: r) = interp (pre ++ c :: r) (bomX, tokenAt c r pre.length) := by
  unfold specStep
  rw [hs.fbLoop, Nat.zero_add]
  have hnb := tokenAt_not_bomFill c r pre.length
  by_cases hbc : BomCheck pos0 c pre.length bom_s
  · have hc : c = 0xef := eq_of_beq hbc.1
    subst hc
    have hj := hbc.2.2.1
    have hpre : pre = [] := List.eq_nil_of_length_eq_zero hj
    subst hpre
    have hbs := hs.nil_eq; subst hbs
    rcases r with _ | ⟨d, _ | ⟨e, r'⟩⟩
    · rw [fbLoop_bomShort hbc (by simp)]
      simp only [List.nil_append]
      have hnbc : ¬BomCheck pos0 0xef 0 .notPresent := by simp [BomCheck]
      rw [fbLoop_token (by decide) (by decide) hnbc]
      exact ⟨_, rfl⟩
    · rw [fbLoop_bomShort hbc (by simp)]
      simp only [List.nil_append]
      have hnbc : ¬BomCheck pos0 0xef 0 .notPresent := by simp [BomCheck]
      rw [fbLoop_token (by decide) (by decide) hnbc]
      exact ⟨_, rfl⟩
    · have hn : (d == 0xbb && e == 0xbf) = false := by
        cases hde : (d == 0xbb && e == 0xbf) with
        | false => rfl
        | true =>
          exfalso
          simp only [Bool.and_eq_true, beq_iff_eq] at hde
          exact hbomc ⟨hbc, r', by rw [hde.1, hde.2]⟩
      rw [fbLoop_bomNo hbc hn]
      refine ⟨.notPresent, ?_⟩
      cases htk : tokenAt 0xef (d :: e :: r') ([] : Bytes).length with
      | bomFill => exact absurd htk (tokenAt_not_bomFill _ _ _)
      | tok _ _ => rfl
      | refill _ _ _ => rfl
  · rw [fbLoop_token hb h35 hbc]
    refine ⟨bomAfter c bom_s, ?_⟩
    cases htk : tokenAt c r pre.length with
    | bomFill => exact absurd htk hnb
    | tok _ _ => rfl
    | refill _ _ _ => rfl

theorem quoteScan_of_end {a : Bytes} {n : Nat} (h : quoteEnd a 0 = some n) : quoteScan a 0 = .closed n := by
  cases hq : quoteScan a 0 with
  | closed m => have := quoteScan_closed hq; rw [h] at this; simp at this; rw [this]
  | more c o => have := (quoteScan_more hq).1; rw [h] at this; simp at this

theorem findIdx_none_of_all {p : UInt8 → Bool} {l : Bytes} (h : ∀ c ∈ l, p c = false) (i : Nat) : findIdx p l i = none := by
  induction l generalizing i with
  | nil => rfl
  | cons c l ih => simp only [findIdx, h c (by simp), Bool.false_eq_true, if_false]; exact ih (fun x hx => h x (by simp [hx])) _

theorem findIdx_first {p : UInt8 → Bool} {l : Bytes} (h : ∀ c ∈ l, p c = false) (c : UInt8) (hc : p c = true) (x : Bytes) (i : Nat) :
    findIdx p (l ++ c :: x) i = some (i + l.length) := by
  induction l generalizing i with
  | nil => simp [findIdx, hc]
  | cons a l ih =>
    simp only [List.cons_append, findIdx, h a (by simp), Bool.false_eq_true, if_false]
    rw [ih (fun y hy => h y (by simp [hy]))]; simp; omega

/-- **one lexeme lexes back to itself**: behind a skipped prefix, a valid lexeme followed by `after` makes the reference
step return exactly its token and consume exactly the prefix and the lexeme. -/
theorem specStep_lexeme {pos0 : Bool} {pre after : Bytes} {bom bom_s : Bom} (lx : Lexeme)
    (hs : Skips pos0 pre 0 bom bom_s) (hv : lx.Valid after)
    (hbomc : ¬(pos0 = true ∧ pre = [] ∧ bom_s = .unknown ∧ ∃ r', lx.text ++ after = 0xef :: 0xbb :: 0xbf :: r')) :
    ∃ b', specStep pos0 bom (pre ++ (lx.text ++ after)) = some (.tok (pre.length + lx.text.length) lx.tok b') := by
  -- the BOM exclusion in the form `specStep_at_token` wants
  have hbc' : ∀ (c : UInt8) (r : Bytes), lx.text ++ after = c :: r →
      ¬(BomCheck pos0 c pre.length bom_s ∧ ∃ r', r = 0xbb :: 0xbf :: r') := by
    rintro c r he ⟨⟨hc, hb, hj, hp⟩, r', hr⟩
    refine hbomc ⟨hp, List.eq_nil_of_length_eq_zero hj, hb, r', ?_⟩
    rw [he, eq_of_beq hc, hr]
  have hlen : ∀ (c : UInt8) (r : Bytes), (pre ++ c :: r).length = pre.length + 1 + r.length := by intro c r; simp; omega
  cases lx with
  | open_ =>
    obtain ⟨bx, h⟩ := specStep_at_token (r := after) hs (c := 123) (by decide) (by decide) (hbc' 123 after rfl)
    refine ⟨bx, ?_⟩
    simp only [Lexeme.text, List.cons_append, List.nil_append, Lexeme.tok, List.length_singleton]
    rw [h]; simp [tokenAt, interp]
  | close =>
    obtain ⟨bx, h⟩ := specStep_at_token (r := after) hs (c := 125) (by decide) (by decide) (hbc' 125 after rfl)
    refine ⟨bx, ?_⟩
    simp only [Lexeme.text, List.cons_append, List.nil_append, Lexeme.tok, List.length_singleton]
    rw [h]; simp [tokenAt, interp]
  | op o =>
    simp only [Lexeme.Valid] at hv
    cases o with
    | eq =>
      obtain ⟨c, r, rfl, hc⟩ := hv (Or.inl rfl)
      obtain ⟨bx, h⟩ := specStep_at_token (r := c :: r) hs (c := 61) (by decide) (by decide) (hbc' 61 (c :: r) rfl)
      refine ⟨bx, ?_⟩
      simp only [Lexeme.text, opText, List.cons_append, List.nil_append, Lexeme.tok, List.length_singleton]
      have hc' : (c != 61) = true := by simp [bne, hc]
      rw [h]; simp [tokenAt, opTok2, interp, hc']
    | lt =>
      obtain ⟨c, r, rfl, hc⟩ := hv (Or.inr (Or.inl rfl))
      obtain ⟨bx, h⟩ := specStep_at_token (r := c :: r) hs (c := 60) (by decide) (by decide) (hbc' 60 (c :: r) rfl)
      refine ⟨bx, ?_⟩
      simp only [Lexeme.text, opText, List.cons_append, List.nil_append, Lexeme.tok, List.length_singleton]
      have hc' : (c != 61) = true := by simp [bne, hc]
      rw [h]; simp [tokenAt, opTok2, interp, hc']
    | gt =>
      obtain ⟨c, r, rfl, hc⟩ := hv (Or.inr (Or.inr rfl))
      obtain ⟨bx, h⟩ := specStep_at_token (r := c :: r) hs (c := 62) (by decide) (by decide) (hbc' 62 (c :: r) rfl)
      refine ⟨bx, ?_⟩
      simp only [Lexeme.text, opText, List.cons_append, List.nil_append, Lexeme.tok, List.length_singleton]
      have hc' : (c != 61) = true := by simp [bne, hc]
      rw [h]; simp [tokenAt, opTok2, interp, hc']
    | le =>
      obtain ⟨bx, h⟩ := specStep_at_token (r := 61 :: after) hs (c := 60) (by decide) (by decide) (hbc' 60 (61 :: after) rfl)
      refine ⟨bx, ?_⟩
      simp only [Lexeme.text, opText, List.cons_append, List.nil_append, Lexeme.tok, List.length_cons, List.length_nil]
      rw [h]; simp [tokenAt, opTok2, interp]
    | ge =>
      obtain ⟨bx, h⟩ := specStep_at_token (r := 61 :: after) hs (c := 62) (by decide) (by decide) (hbc' 62 (61 :: after) rfl)
      refine ⟨bx, ?_⟩
      simp only [Lexeme.text, opText, List.cons_append, List.nil_append, Lexeme.tok, List.length_cons, List.length_nil]
      rw [h]; simp [tokenAt, opTok2, interp]
    | exact =>
      obtain ⟨bx, h⟩ := specStep_at_token (r := 61 :: after) hs (c := 61) (by decide) (by decide) (hbc' 61 (61 :: after) rfl)
      refine ⟨bx, ?_⟩
      simp only [Lexeme.text, opText, List.cons_append, List.nil_append, Lexeme.tok, List.length_cons, List.length_nil]
      rw [h]; simp [tokenAt, opTok2, interp]
    | ne =>
      obtain ⟨bx, h⟩ := specStep_at_token (r := 61 :: after) hs (c := 33) (by decide) (by decide) (hbc' 33 (61 :: after) rfl)
      refine ⟨bx, ?_⟩
      simp only [Lexeme.text, opText, List.cons_append, List.nil_append, Lexeme.tok, List.length_cons, List.length_nil]
      rw [h]; simp [tokenAt, opTok1, interp]
    | exists_ =>
      obtain ⟨bx, h⟩ := specStep_at_token (r := 61 :: after) hs (c := 63) (by decide) (by decide) (hbc' 63 (61 :: after) rfl)
      refine ⟨bx, ?_⟩
      simp only [Lexeme.text, opText, List.cons_append, List.nil_append, Lexeme.tok, List.length_cons, List.length_nil]
      rw [h]; simp [tokenAt, opTok1, interp]
  | scalar q b =>
    cases q with
    | true =>
      simp only [Lexeme.Valid] at hv
      have htext : (Lexeme.scalar true b).text ++ after = 34 :: (b ++ 34 :: after) := by simp [Lexeme.text]
      obtain ⟨bx, h⟩ := specStep_at_token (r := b ++ 34 :: after) hs (c := 34) (by decide) (by decide)
        (hbc' 34 _ htext)
      refine ⟨bx, ?_⟩
      rw [htext, h, tokenAt_quote]
      unfold quoteTok
      have he : quoteEnd (b ++ 34 :: after) 0 = some b.length := by
        have := quoteEnd_append after hv
        simpa using this
      rw [quoteScan_of_end he]
      simp only [interp, Lexeme.tok, Lexeme.text]
      simp; omega
    | false =>
      simp only [Lexeme.Valid] at hv
      obtain ⟨hnb, ⟨c, b', rfl, h59, h34, h64, h63⟩, hafter⟩ := hv
      have hcb : isBoundary c = false := hnb c (by simp)
      have hb' : ∀ x ∈ b', isBoundary x = false := fun x hx => hnb x (by simp [hx])
      -- `c` is none of the bytes with an arm of their own
      have hne : ∀ k : UInt8, isBoundary k = true → (c == k) = false := by
        intro k hk
        cases hck : c == k with
        | false => rfl
        | true => rw [eq_of_beq hck, hk] at hcb; simp at hcb
      have hblank : isBlank c = false := by
        unfold isBlank
        simp [hne 32 (by decide), hne 9 (by decide), hne 10 (by decide), hne 13 (by decide), h59]
      have htext : (Lexeme.scalar false (c :: b')).text ++ after = c :: (b' ++ after) := by simp [Lexeme.text]
      obtain ⟨bx, h⟩ := specStep_at_token (r := b' ++ after) hs (c := c) hblank (hne 35 (by decide)) (hbc' c _ htext)
      refine ⟨bx, ?_⟩
      rw [htext, h]
      have htok : tokenAt c (b' ++ after) pre.length = unqTok c (b' ++ after) pre.length := by
        simp [tokenAt, hne 123 (by decide), hne 125 (by decide), h34, h64, hne 61 (by decide), hne 60 (by decide),
          hne 33 (by decide), h63, hne 62 (by decide)]
      rw [htok]
      unfold unqTok
      rcases hafter with rfl | ⟨a, x, rfl, ha⟩
      · simp only [List.append_nil]
        rw [findIdx_none_of_all hb']
        simp only [interp, Lexeme.tok, Lexeme.text]
        have hl := hlen c b'
        rw [hl]
        have : pre.length + 1 + b'.length - (b'.length + 1) = pre.length := by omega
        rw [this]; simp; omega
      · rw [findIdx_first hb' a ha]
        simp only [interp, Lexeme.tok, Lexeme.text, Nat.zero_add]
        have : (c :: (b' ++ a :: x)).take (1 + b'.length) = c :: b' := by
          rw [show 1 + b'.length = b'.length + 1 by omega]; simp
        rw [this]; simp; omega

end Jomini.TextReader

namespace Jomini.TextReader
open Jomini Jomini.TextReader.Spec

/-! ### the whole rendering -/

theorem Skips.append {pos0 : Bool} {a b : Bytes} {i : Nat} {b0 b1 b2 : Bom}
    (h1 : Skips pos0 a i b0 b1) (h2 : Skips pos0 b (i + a.length) b1 b2) : Skips pos0 (a ++ b) i b0 b2 := by
  induction h1 with
  | nil => simpa using h2
  | @blank c pre i bom bom' hc _ ih =>
    refine .blank hc (ih ?_)
    have : i + 1 + pre.length = i + (c :: pre).length := by simp; omega
    rw [this]; exact h2
  | @comment a' pre i bom bom' ha _ ih =>
    have e : 35 :: (a' ++ 10 :: pre) ++ b = 35 :: (a' ++ 10 :: (pre ++ b)) := by simp
    rw [e]
    refine .comment ha (ih ?_)
    have : i + a'.length + 2 + pre.length = i + (35 :: (a' ++ 10 :: pre)).length := by simp; omega
    rw [this]; exact h2
  | @bom pre bom' hp _ ih =>
    have e : 0xef :: 0xbb :: 0xbf :: pre ++ b = 0xef :: 0xbb :: 0xbf :: (pre ++ b) := by simp
    rw [e]
    refine .bom hp (ih ?_)
    have : 3 + pre.length = 0 + (0xef :: 0xbb :: 0xbf :: pre).length := by simp; omega
    rw [this]; exact h2

/-- at the end of the rendering (trailing filler, possibly an unterminated comment) the reference step reports a clean
end -/
theorem specStep_end {pos0 : Bool} {pre gt : Bytes} {bom bom_s : Bom} (hs : Skips pos0 pre 0 bom bom_s) (hg : EndGap gt) :
    ∃ b', specStep pos0 bom (pre ++ gt) = some (.end_ b') := by
  cases hg with
  | gap g hgap =>
    have hall := hs.append (hgap.skips pos0 (0 + pre.length) bom_s)
    unfold specStep
    have := hall.fbLoop []
    simp only [List.append_nil] at this
    rw [this]
    simp [fbLoop, interp]
  | comment g body hgap hbody =>
    have hall := hs.append (hgap.skips pos0 (0 + pre.length) bom_s)
    unfold specStep
    rw [show pre ++ (g ++ 35 :: body) = (pre ++ g) ++ 35 :: body by simp, hall.fbLoop]
    rw [fbLoop_top_cons]
    simp only [show isBlank 35 = false by decide, Bool.false_eq_true, if_false, beq_self_eq_true, if_true]
    rw [fbLoop_comment_open _ body hbody]
    simp only [interp]
    have hne : ((0 + (pre ++ g).length + 1 + body.length - (0 + (pre ++ g).length)) == 0) = false := by
      simp; omega
    simp only [hne, Bool.false_eq_true, if_false]
    have hd : ((pre ++ g) ++ 35 :: body).drop (((pre ++ g) ++ 35 :: body).length - (0 + (pre ++ g).length + 1 + body.length - (0 + (pre ++ g).length))) = 35 :: body := by
      have : ((pre ++ g) ++ 35 :: body).length - (0 + (pre ++ g).length + 1 + body.length - (0 + (pre ++ g).length)) = (pre ++ g).length := by
        simp; omega
      rw [this]; simp
    rw [hd]
    exact ⟨bom_s, by simp⟩

theorem renderLex_length_pos (items : List (Bytes × Lexeme)) (gt : Bytes) : True := trivial

/-- **the from-slice reader on a rendering**: started (possibly behind an already-skipped prefix `pre`, e.g. a BOM) on
`pre ++ renderLex items gt`, a slice reader returns exactly the tokens of `items`, then a clean end at the end of the
input. -/
theorem lexAll_faithful (gt : Bytes) : ∀ (items : List (Bytes × Lexeme)) (pre : Bytes) (r : Reader) (pos : Nat) (bom bom_s : Bom)
    (f n : Nat) (acc : List Token),
    RelQ r pos bom (pre ++ renderLex items gt) → r.cap = 0 → Skips (pos == 0) pre 0 bom bom_s → ValidLex items gt →
    (pos = 0 → pre = [] → bom_s = .unknown → ¬∃ r', renderLex items gt = 0xef :: 0xbb :: 0xbf :: r') →
    items.length + 1 ≤ n → 2 * (pre ++ renderLex items gt).length + 4 ≤ f →
    (lexAll f n r acc).toks = acc.reverse ++ items.map (fun x => x.2.tok) ∧ (lexAll f n r acc).out = .end_ ∧
    (lexAll f n r acc).final.position = pos + (pre ++ renderLex items gt).length := by
  intro items
  induction items with
  | nil =>
    intro pre r pos bom bom_s f n acc hrel hcap hs hv _ hn hf
    obtain ⟨m, rfl⟩ : ∃ m, n = m + 1 := ⟨n - 1, by simp at hn; omega⟩
    simp only [renderLex] at hrel hf ⊢
    simp only [ValidLex] at hv
    obtain ⟨b', hsp⟩ := specStep_end hs hv
    have o := nextOpt_specQ r pos bom _ f hrel hf
    rcases o with ⟨hne, _⟩ | o
    · exact absurd hcap hne
    · unfold OutQOk at o
      rw [hsp] at o
      obtain ⟨r', e1, hr1, _⟩ := o
      simp only [lexAll, next, e1, List.map_nil, List.append_nil]
      exact ⟨trivial, trivial, hr1.pos⟩
  | cons it rest ih =>
    obtain ⟨g, lx⟩ := it
    intro pre r pos bom bom_s f n acc hrel hcap hs hv hclash hn hf
    obtain ⟨m, rfl⟩ : ∃ m, n = m + 1 := ⟨n - 1, by simp at hn; omega⟩
    simp only [ValidLex] at hv
    obtain ⟨hg, hlv, hrest⟩ := hv
    have hall := hs.append (hg.skips (pos == 0) (0 + pre.length) bom_s)
    have hd : pre ++ renderLex ((g, lx) :: rest) gt = (pre ++ g) ++ (lx.text ++ renderLex rest gt) := by
      simp [renderLex]
    obtain ⟨b', hsp⟩ := specStep_lexeme lx hall hlv (by
      rintro ⟨hp, hpg, hb, r', hr'⟩
      have hpre : pre = [] := by cases pre with | nil => rfl | cons _ _ => simp at hpg
      have hg0 : g = [] := by subst hpre; simpa using hpg
      refine hclash (by simpa using hp) hpre hb ⟨r', ?_⟩
      subst hg0; simpa [renderLex] using hr')
    rw [← hd] at hsp
    have o := nextOpt_specQ r pos bom _ f hrel hf
    rcases o with ⟨hne, _⟩ | o
    · exact absurd hcap hne
    · unfold OutQOk at o
      rw [hsp] at o
      obtain ⟨r', e1, hr1, _, hc1⟩ := o
      simp only [lexAll, next, e1]
      have hdrop : (pre ++ renderLex ((g, lx) :: rest) gt).drop ((pre ++ g).length + lx.text.length) = renderLex rest gt := by
        rw [hd, ← List.append_assoc]
        have : (pre ++ g).length + lx.text.length = (pre ++ g ++ lx.text).length := by simp; omega
        rw [this, List.drop_left]
      rw [hdrop] at hr1
      have htl : 0 < lx.text.length := by
        cases lx with
        | open_ => simp [Lexeme.text]
        | close => simp [Lexeme.text]
        | op o => cases o <;> simp [Lexeme.text, opText]
        | scalar q b =>
          cases q with
          | true => simp [Lexeme.text]
          | false =>
            simp only [Lexeme.Valid] at hlv
            obtain ⟨_, ⟨c, r0, rfl, _⟩, _⟩ := hlv
            simp [Lexeme.text]
      have hposne : pos + ((pre ++ g).length + lx.text.length) ≠ 0 := by omega
      have := ih [] r' (pos + ((pre ++ g).length + lx.text.length)) b' b' f m (lx.tok :: acc)
        (by simpa using hr1) (by rw [hc1]; exact hcap) (.nil _ _) hrest (fun h => absurd h hposne)
        (by simp at hn ⊢; omega)
        (by
          have : (renderLex rest gt).length ≤ (pre ++ renderLex ((g, lx) :: rest) gt).length := by
            rw [hd]; simp; omega
          simp only [List.nil_append]; omega)
      obtain ⟨h1, h2, h3⟩ := this
      refine ⟨?_, h2, ?_⟩
      · rw [h1]; simp
      · rw [h3, hd]; simp; omega

end Jomini.TextReader

namespace Jomini.TextReader
open Jomini Jomini.TextReader.Spec

theorem lexeme_text_pos {lx : Lexeme} {after : Bytes} (h : lx.Valid after) : 0 < lx.text.length := by
  cases lx with
  | open_ => simp [Lexeme.text]
  | close => simp [Lexeme.text]
  | op o => cases o <;> simp [Lexeme.text, opText]
  | scalar q b =>
    cases q with
    | true => simp [Lexeme.text]
    | false =>
      simp only [Lexeme.Valid] at h
      obtain ⟨_, ⟨c, r0, rfl, _⟩, _⟩ := h
      simp [Lexeme.text]

theorem renderLex_length {items : List (Bytes × Lexeme)} {gt : Bytes} (h : ValidLex items gt) :
    items.length ≤ (renderLex items gt).length := by
  induction items with
  | nil => simp
  | cons it rest ih =>
    obtain ⟨g, lx⟩ := it
    simp only [ValidLex] at h
    have := ih h.2.2
    have hp := lexeme_text_pos h.2.1
    simp [renderLex]; omega

/-- an optional UTF-8 BOM in front of the rendering -/
def bomBytes (b : Bool) : Bytes := if b then [0xef, 0xbb, 0xbf] else []

/-- **`C07_slice_faithful`, lexeme level.**  For every list of lexemes with a valid reader-safe layout (gaps of blanks
and complete comments, an optional BOM in front, trailing filler that may end in an unterminated comment), the from-slice
reader returns exactly the lexemes' tokens — `Open` / `Close` / `Operator` / `Unquoted` / `Quoted` with the scalar
bytes —, ends cleanly, and its final position is the length of the input.  Without a BOM the rendering itself must not
begin with the three BOM bytes (an unquoted scalar `EF BB BF…` at offset 0 IS a BOM to the reader). -/
theorem slice_faithful_lexemes (items : List (Bytes × Lexeme)) (gt : Bytes) (bom : Bool)
    (hv : ValidLex items gt)
    (hclash : bom = false → ¬∃ r', renderLex items gt = 0xef :: 0xbb :: 0xbf :: r') :
    (sliceTokens (bomBytes bom ++ renderLex items gt)).toks = items.map (fun x => x.2.tok) ∧
    (sliceTokens (bomBytes bom ++ renderLex items gt)).out = .end_ ∧
    (sliceTokens (bomBytes bom ++ renderLex items gt)).final.position = (bomBytes bom ++ renderLex items gt).length := by
  have hrel : Rel (fromSlice (bomBytes bom ++ renderLex items gt)) 0 .unknown (bomBytes bom ++ renderLex items gt) :=
    ⟨rfl, rfl, by simp [fromSlice], by intro x hx; simp [fromSlice] at hx, fun _ => rfl⟩
  have hlen := renderLex_length hv
  cases bom with
  | true =>
    have hs : Skips ((0 : Nat) == 0) [0xef, 0xbb, 0xbf] 0 .unknown .present := .bom rfl (.nil _ _)
    have := lexAll_faithful gt items [0xef, 0xbb, 0xbf] _ 0 .unknown .present (fuelFor (bomBytes true ++ renderLex items gt))
      (fuelFor (bomBytes true ++ renderLex items gt)) [] (Or.inl hrel) rfl hs hv (by intro _ h; simp at h)
      (by simp [fuelFor, bomBytes]; omega) (by simp [fuelFor, bomBytes])
    simpa [sliceTokens, bomBytes] using this
  | false =>
    have hs : Skips ((0 : Nat) == 0) [] 0 .unknown .unknown := .nil _ _
    have := lexAll_faithful gt items [] _ 0 .unknown .unknown (fuelFor (bomBytes false ++ renderLex items gt))
      (fuelFor (bomBytes false ++ renderLex items gt)) [] (Or.inl hrel) rfl hs hv (fun _ _ _ => hclash rfl)
      (by simp [fuelFor, bomBytes]; omega) (by simp [fuelFor, bomBytes])
    simpa [sliceTokens, bomBytes] using this

/-! ### documents: nested objects and arrays with their layout -/

mutual
/-- a value with its layout: a scalar behind a gap, or a container `g { members gc }` -/
inductive DVal
  | scal (g : Bytes) (quoted : Bool) (b : Bytes)
  | cont (g : Bytes) (ms : DMembers) (gc : Bytes)
/-- the members of a container (or of the top level): fields `g0 key g1 op value` and plain values (array elements) -/
inductive DMembers
  | nil
  | field (g0 : Bytes) (kq : Bool) (key : Bytes) (g1 : Bytes) (o : Op) (v : DVal) (rest : DMembers)
  | elem (v : DVal) (rest : DMembers)
end

mutual
def renderV : DVal → Bytes
  | .scal g q b => g ++ (Lexeme.scalar q b).text
  | .cont g ms gc => g ++ (123 :: (renderM ms ++ (gc ++ [125])))
def renderM : DMembers → Bytes
  | .nil => []
  | .field g0 kq key g1 o v rest => g0 ++ ((Lexeme.scalar kq key).text ++ (g1 ++ (opText o ++ (renderV v ++ renderM rest))))
  | .elem v rest => renderV v ++ renderM rest
end

mutual
/-- the lexeme list of a document (with the gap in front of each lexeme) -/
def itemsV : DVal → List (Bytes × Lexeme)
  | .scal g q b => [(g, .scalar q b)]
  | .cont g ms gc => (g, .open_) :: (itemsM ms ++ [(gc, .close)])
def itemsM : DMembers → List (Bytes × Lexeme)
  | .nil => []
  | .field g0 kq key g1 o v rest => (g0, .scalar kq key) :: (g1, .op o) :: (itemsV v ++ itemsM rest)
  | .elem v rest => itemsV v ++ itemsM rest
end

mutual
/-- layout validity of a value followed by `after` (reader-safe: gaps are blanks and complete comments; a scalar is valid
in front of what follows it; `=`, `<`, `>` are not followed by `=`) -/
def ValidV : DVal → Bytes → Prop
  | .scal g q b, after => Gap g ∧ (Lexeme.scalar q b).Valid after
  | .cont g ms gc, after => Gap g ∧ Gap gc ∧ ValidM ms (gc ++ 125 :: after)
def ValidM : DMembers → Bytes → Prop
  | .nil, _ => True
  | .field g0 kq key g1 o v rest, after =>
    Gap g0 ∧ Gap g1 ∧ (Lexeme.scalar kq key).Valid (g1 ++ (opText o ++ (renderV v ++ (renderM rest ++ after)))) ∧
    (Lexeme.op o).Valid (renderV v ++ (renderM rest ++ after)) ∧
    ValidV v (renderM rest ++ after) ∧ ValidM rest after
  | .elem v rest, after => ValidV v (renderM rest ++ after) ∧ ValidM rest after
end

theorem renderLex_append (a b : List (Bytes × Lexeme)) (gt : Bytes) :
    renderLex (a ++ b) gt = renderLex a (renderLex b gt) := by
  induction a with
  | nil => rfl
  | cons it a ih => obtain ⟨g, lx⟩ := it; simp [renderLex, ih]

mutual
theorem renderLex_itemsV : ∀ (v : DVal) (x : Bytes), renderLex (itemsV v) x = renderV v ++ x
  | .scal g q b, x => by simp [itemsV, renderLex, renderV]
  | .cont g ms gc, x => by
    simp only [itemsV, renderLex, renderV, renderLex_append, renderLex_itemsM ms]
    simp [Lexeme.text, renderLex]
theorem renderLex_itemsM : ∀ (ms : DMembers) (x : Bytes), renderLex (itemsM ms) x = renderM ms ++ x
  | .nil, x => by simp [itemsM, renderLex, renderM]
  | .field g0 kq key g1 o v rest, x => by
    simp only [itemsM, renderLex, renderM, renderLex_append, renderLex_itemsV v, renderLex_itemsM rest]
    simp [Lexeme.text]
  | .elem v rest, x => by
    simp only [itemsM, renderM, renderLex_append, renderLex_itemsV v, renderLex_itemsM rest]
    simp
end

theorem ValidLex_append {a b : List (Bytes × Lexeme)} {gt : Bytes}
    (ha : ∀ x, ValidLex b gt → renderLex b gt = x → ValidLex (a ++ b) gt) : True := trivial

mutual
theorem validLex_itemsV : ∀ (v : DVal) (more : List (Bytes × Lexeme)) (gt : Bytes),
    ValidV v (renderLex more gt) → ValidLex more gt → ValidLex (itemsV v ++ more) gt
  | .scal g q b, more, gt, h, hm => by
    simp only [ValidV] at h
    simp only [itemsV, List.cons_append, List.nil_append, ValidLex]
    exact ⟨h.1, h.2, hm⟩
  | .cont g ms gc, more, gt, h, hm => by
    simp only [ValidV] at h
    obtain ⟨hg, hgc, hms⟩ := h
    simp only [itemsV, List.cons_append, List.append_assoc, List.nil_append, ValidLex, Lexeme.Valid, true_and]
    refine ⟨hg, ?_⟩
    have hmore' : ValidLex ((gc, Lexeme.close) :: more) gt := by
      simp only [ValidLex, Lexeme.Valid, true_and]; exact ⟨hgc, hm⟩
    refine validLex_itemsM ms ((gc, .close) :: more) gt ?_ hmore'
    simpa [renderLex, Lexeme.text] using hms
theorem validLex_itemsM : ∀ (ms : DMembers) (more : List (Bytes × Lexeme)) (gt : Bytes),
    ValidM ms (renderLex more gt) → ValidLex more gt → ValidLex (itemsM ms ++ more) gt
  | .nil, more, gt, _, hm => by simpa [itemsM] using hm
  | .field g0 kq key g1 o v rest, more, gt, h, hm => by
    simp only [ValidM] at h
    obtain ⟨h0, h1, hk, ho, hv, hr⟩ := h
    have hrest := validLex_itemsM rest more gt hr hm
    have hval := validLex_itemsV v (itemsM rest ++ more) gt (by rw [renderLex_append, renderLex_itemsM]; exact hv) hrest
    simp only [itemsM, List.cons_append, List.append_assoc, ValidLex]
    refine ⟨h0, ?_, h1, ?_, hval⟩
    · simpa [renderLex, renderLex_append, renderLex_itemsV, renderLex_itemsM, Lexeme.text] using hk
    · simpa [renderLex_append, renderLex_itemsV, renderLex_itemsM] using ho
  | .elem v rest, more, gt, h, hm => by
    simp only [ValidM] at h
    have hrest := validLex_itemsM rest more gt h.2 hm
    have hval := validLex_itemsV v (itemsM rest ++ more) gt (by rw [renderLex_append, renderLex_itemsM]; exact h.1) hrest
    simpa [itemsM] using hval
end

/-- **`C07_slice_faithful`.**  For every document `ms` (fields `key op value`, array elements, containers nested to any
depth, scalars quoted or unquoted) and every valid reader-safe layout — gaps made of blanks (space, tab, LF, CR) and
complete `#` comments, an optional BOM, trailing filler `gt` —, the from-slice reader over the rendering returns exactly
the lexeme list of the document (`Open` / `Close` / `Operator` / `Unquoted` / `Quoted` with the scalar bytes), ends cleanly,
and the final position equals the input length. -/
theorem slice_faithful (ms : DMembers) (gt : Bytes) (bom : Bool) (hv : ValidM ms gt) (hgt : EndGap gt)
    (hclash : bom = false → ¬∃ r', renderM ms ++ gt = 0xef :: 0xbb :: 0xbf :: r') :
    (sliceTokens (bomBytes bom ++ (renderM ms ++ gt))).toks = (itemsM ms).map (fun x => x.2.tok) ∧
    (sliceTokens (bomBytes bom ++ (renderM ms ++ gt))).out = .end_ ∧
    (sliceTokens (bomBytes bom ++ (renderM ms ++ gt))).final.position = (bomBytes bom ++ (renderM ms ++ gt)).length := by
  have hr : renderLex (itemsM ms) gt = renderM ms ++ gt := renderLex_itemsM ms gt
  have hvl : ValidLex (itemsM ms) gt := by
    have := validLex_itemsM ms [] gt (by simpa [renderLex] using hv) (by simpa [ValidLex] using hgt)
    simpa using this
  have := slice_faithful_lexemes (itemsM ms) gt bom hvl (by rw [hr]; exact hclash)
  rw [hr] at this
  exact this

end Jomini.TextReader
