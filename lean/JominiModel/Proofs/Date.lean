import JominiModel.Spec.Date
/-
Helper lemmas for the date model (C13): bit packing, constructors, binary codec.
-/
namespace Jomini.Date
open Jomini

/-! ### integer ranges -/

theorem inI16_iff (x : Int) : inI16 x = true ↔ -32768 ≤ x ∧ x ≤ 32767 := by
  unfold inI16 I16_MIN I16_MAX
  rw [Bool.and_eq_true, decide_eq_true_iff, decide_eq_true_iff]

theorem inI32_iff (x : Int) : inI32 x = true ↔ -2147483648 ≤ x ∧ x ≤ 2147483647 := by
  unfold inI32 I32_MIN I32_MAX
  rw [Bool.and_eq_true, decide_eq_true_iff, decide_eq_true_iff]

/-! ### bit packing -/

theorem pack_toNat (m d h : Nat) (hm : m < 16) (hd : d < 32) (hh : h < 32) :
    (pack m d h).toNat = m * 4096 + d * 128 + h * 4 := by
  unfold pack
  simp only [BitVec.toNat_add, BitVec.toNat_shiftLeft, BitVec.toNat_ofNat, Nat.shiftLeft_eq]
  omega

theorem month_mkRaw (y : Int) (m d h : Nat) (hm : m < 16) (hd : d < 32) (hh : h < 32) :
    (mkRaw y m d h).month = m := by
  simp only [mkRaw, RawDate.month, BitVec.toNat_ushiftRight, pack_toNat m d h hm hd hh, Nat.shiftRight_eq_div_pow]
  omega

theorem day_mkRaw (y : Int) (m d h : Nat) (hm : m < 16) (hd : d < 32) (hh : h < 32) :
    (mkRaw y m d h).day = d := by
  simp only [mkRaw, RawDate.day, BitVec.toNat_and, BitVec.toNat_ushiftRight, pack_toNat m d h hm hd hh, Nat.shiftRight_eq_div_pow]
  have : BitVec.toNat (31 : BitVec 16) = 2^5 - 1 := by decide
  rw [this, Nat.and_two_pow_sub_one_eq_mod]
  omega

theorem hour_mkRaw (y : Int) (m d h : Nat) (hm : m < 16) (hd : d < 32) (hh : h < 32) :
    (mkRaw y m d h).hour = h := by
  simp only [mkRaw, RawDate.hour, BitVec.toNat_and, BitVec.toNat_ushiftRight, pack_toNat m d h hm hd hh, Nat.shiftRight_eq_div_pow]
  have : BitVec.toNat (31 : BitVec 16) = 2^5 - 1 := by decide
  rw [this, Nat.and_two_pow_sub_one_eq_mod]
  omega

theorem year_mkRaw (y : Int) (m d h : Nat) : (mkRaw y m d h).year = y := rfl

theorem hasHour_mkRaw (y : Int) (m d h : Nat) (hm : m < 16) (hd : d < 32) (hh : h < 32) :
    (mkRaw y m d h).hasHour = (h != 0) := by
  have key : ((mkRaw y m d h).data &&& 0x7c).toNat = h * 4 := by
    simp only [mkRaw, BitVec.toNat_and, pack_toNat m d h hm hd hh]
    have e1 : BitVec.toNat (0x7c : BitVec 16) = (2^7 - 1) &&& 124 := by decide
    rw [e1, ← Nat.and_assoc, Nat.and_two_pow_sub_one_eq_mod]
    have e2 : (m * 4096 + d * 128 + h * 4) % 2 ^ 7 = h * 4 := by omega
    rw [e2]
    have : ∀ k, k < 32 → k * 4 &&& 124 = k * 4 := by decide
    exact this h hh
  have hx : ((mkRaw y m d h).data &&& 0x7c) = 0 ↔ h = 0 := by
    rw [← BitVec.toNat_inj, key]
    simp
    omega
  have e : (mkRaw y m d h).hasHour = !(decide (((mkRaw y m d h).data &&& 0x7c) = 0)) := rfl
  rw [e]
  by_cases h0 : h = 0
  · subst h0
    rw [decide_eq_true (hx.2 rfl)]
    rfl
  · have : ¬ ((mkRaw y m d h).data &&& 0x7c) = 0 := fun e => h0 (hx.1 e)
    rw [decide_eq_false this]
    have : (h != 0) = true := by simp [h0]
    rw [this]
    rfl

/-- `RawDate::cmp` on canonical values is the lexicographic order of the components. -/
theorem cmp_mkRaw (y1 y2 : Int) (m1 d1 h1 m2 d2 h2 : Nat)
    (hm1 : m1 < 16) (hd1 : d1 < 32) (hh1 : h1 < 32) (hm2 : m2 < 16) (hd2 : d2 < 32) (hh2 : h2 < 32) :
    (mkRaw y1 m1 d1 h1).cmp (mkRaw y2 m2 d2 h2) =
      (compare y1 y2).then ((compare m1 m2).then ((compare d1 d2).then (compare h1 h2))) := by
  simp only [RawDate.cmp, mkRaw, pack_toNat _ _ _ hm1 hd1 hh1, pack_toNat _ _ _ hm2 hd2 hh2]
  congr 1
  rcases Nat.lt_trichotomy m1 m2 with h | h | h
  · rw [Nat.compare_eq_lt.2 h, Nat.compare_eq_lt.2 (by omega)]; rfl
  · subst h
    rw [Nat.compare_eq_eq.2 rfl]
    rcases Nat.lt_trichotomy d1 d2 with h | h | h
    · rw [Nat.compare_eq_lt.2 h, Nat.compare_eq_lt.2 (by omega)]; rfl
    · subst h
      rw [Nat.compare_eq_eq.2 rfl]
      rcases Nat.lt_trichotomy h1 h2 with h | h | h
      · rw [Nat.compare_eq_lt.2 h, Nat.compare_eq_lt.2 (by omega)]; rfl
      · subst h; rw [Nat.compare_eq_eq.2 rfl, Nat.compare_eq_eq.2 rfl]; rfl
      · rw [Nat.compare_eq_gt.2 h, Nat.compare_eq_gt.2 (by omega)]; rfl
    · rw [Nat.compare_eq_gt.2 h, Nat.compare_eq_gt.2 (by omega)]; rfl
  · rw [Nat.compare_eq_gt.2 h, Nat.compare_eq_gt.2 (by omega)]; rfl

/-! ### constructors -/

theorem daysPerMonth_get : ∀ m, m < 13 → daysPerMonth[m]? = some (dpm m) := by decide

theorem dpm_le_31 : ∀ m, m < 13 → dpm m ≤ 31 := by decide

theorem RawDate.fromYmdhOpt_eq (y : Int) (m d h : Nat) :
    RawDate.fromYmdhOpt y m d h = if ValidRaw m d h then .ok (mkRaw y m d h) else .err := by
  unfold RawDate.fromYmdhOpt
  by_cases hv : ValidRaw m d h
  · rw [if_pos hv]
    unfold ValidRaw at hv
    have h1 : m ≠ 0 := by omega
    have h2 : d ≠ 0 := by omega
    have h3 : m < 13 := by omega
    have h4 : d < 32 := by omega
    have h5 : h < 25 := by omega
    simp [h1, h2, h3, h4, h5, mkRaw, pack]
  · rw [if_neg hv]
    have : ¬ ((m != 0 && decide (m < 13) && d != 0 && decide (d < 32) && decide (h < 25)) = true) := by
      simp only [Bool.and_eq_true, bne_iff_ne, decide_eq_true_eq]
      unfold ValidRaw at hv
      omega
    rw [if_neg this]

theorem Date.fromYmdOpt_eq (y : Int) (m d : Nat) :
    Date.fromYmdOpt y m d = if ValidMd m d then .ok (mkDate y m d) else .err := by
  unfold Date.fromYmdOpt
  rw [RawDate.fromYmdhOpt_eq]
  by_cases hr : ValidRaw m d 0
  · have hm : m < 13 := by unfold ValidRaw at hr; omega
    simp only [if_pos hr, Out.bind_ok, daysPerMonth_get m hm]
    by_cases hv : ValidMd m d
    · rw [if_pos hv, if_pos hv.2.2.2]; rfl
    · rw [if_neg hv, if_neg]
      unfold ValidMd at hv; unfold ValidRaw at hr; omega
  · have hv : ¬ ValidMd m d := by
      intro hv
      have := dpm_le_31 m (by unfold ValidMd at hv; omega)
      unfold ValidMd at hv; unfold ValidRaw at hr; omega
    simp [if_neg hr, if_neg hv]

theorem DateHour.fromYmdhOpt_eq (y : Int) (m d h : Nat) :
    DateHour.fromYmdhOpt y m d h =
      if ValidMd m d ∧ ValidHour h then .ok (mkDateHour y m d h) else .err := by
  unfold DateHour.fromYmdhOpt
  rw [RawDate.fromYmdhOpt_eq]
  by_cases hr : ValidRaw m d h
  · have hm : m < 13 := by unfold ValidRaw at hr; omega
    simp only [if_pos hr, Out.bind_ok, daysPerMonth_get m hm]
    by_cases hv : ValidMd m d ∧ ValidHour h
    · have h1 : (decide (h > 0) && decide (d ≤ dpm m)) = true := by
        simp only [Bool.and_eq_true, decide_eq_true_eq]
        unfold ValidMd ValidHour at hv; omega
      rw [if_pos hv, if_pos h1]; rfl
    · have h1 : ¬ (decide (h > 0) && decide (d ≤ dpm m)) = true := by
        simp only [Bool.and_eq_true, decide_eq_true_eq]
        unfold ValidMd ValidHour at hv; unfold ValidRaw at hr; omega
      rw [if_neg hv, if_neg h1]
  · have hv : ¬ (ValidMd m d ∧ ValidHour h) := by
      intro hv
      have := dpm_le_31 m (by unfold ValidMd at hv; omega)
      unfold ValidMd ValidHour at hv; unfold ValidRaw at hr; omega
    simp [if_neg hr, if_neg hv]

theorem UniformDate.fromYmdOpt_eq (y : Int) (m d : Nat) :
    UniformDate.fromYmdOpt y m d = if ValidUniformMd m d then .ok (mkUniform y m d) else .err := by
  unfold UniformDate.fromYmdOpt
  rw [RawDate.fromYmdhOpt_eq]
  by_cases h30 : d > 30
  · rw [if_pos h30, if_neg]
    unfold ValidUniformMd; omega
  · rw [if_neg h30]
    by_cases hv : ValidUniformMd m d
    · rw [if_pos hv, if_pos]
      · rfl
      · unfold ValidUniformMd at hv; unfold ValidRaw; omega
    · rw [if_neg hv, if_neg]
      · rfl
      · unfold ValidUniformMd at hv; unfold ValidRaw; omega

/-! ### calendar tables -/

theorem validMd_cases {m d : Nat} (h : ValidMd m d) :
    m = 1 ∨ m = 2 ∨ m = 3 ∨ m = 4 ∨ m = 5 ∨ m = 6 ∨ m = 7 ∨ m = 8 ∨ m = 9 ∨ m = 10 ∨ m = 11 ∨ m = 12 := by
  unfold ValidMd at h; omega

theorem asU8_small (x : Int) (h0 : 0 ≤ x) (h1 : x < 256) : asU8 x = x.toNat := by
  unfold asU8; congr 1; omega

theorem ordinal_range {m d : Nat} (h : ValidMd m d) : 0 ≤ ordinal m d ∧ ordinal m d ≤ 364 := by
  rcases validMd_cases h with rfl | rfl | rfl | rfl | rfl | rfl | rfl | rfl | rfl | rfl | rfl | rfl <;>
    (simp only [ValidMd, dpm, daysPerMonth, List.getD_cons_succ, List.getD_cons_zero] at h
     simp only [ordinal, julianOrdinalDay, Option.getD_some]
     omega)

theorem asU8_natCast (d : Nat) (h : d < 256) (x : Int) (hx : x = (d : Int)) : asU8 x = d := by
  subst hx; unfold asU8; omega

theorem monthDayFromJulian_ordinal {m d : Nat} (h : ValidMd m d) :
    monthDayFromJulian (ordinal m d) = some (m, d) := by
  rcases validMd_cases h with rfl | rfl | rfl | rfl | rfl | rfl | rfl | rfl | rfl | rfl | rfl | rfl <;>
    (simp only [ValidMd, dpm, daysPerMonth, List.getD_cons_succ, List.getD_cons_zero] at h
     simp only [ordinal, julianOrdinalDay, Option.getD_some]
     unfold monthDayFromJulian
     repeat (first | rw [if_pos (by omega)] | rw [if_neg (by omega)])
     rw [asU8_natCast d (by omega) _ (by omega)])

local macro "mdj_fin" : tactic => `(tactic|
  (refine ⟨_, _, rfl, ?_, ?_⟩
   · simp only [ValidMd, dpm, daysPerMonth, List.getD_cons_succ, List.getD_cons_zero, asU8]
     omega
   · simp only [ordinal, julianOrdinalDay, Option.getD_some, asU8]
     omega))

/-- every day number `0..=364` is month `m`, day `d` of the 365-day calendar, and
`julian_ordinal_day` inverts `month_day_from_julian`; in particular the `unreachable!()`
arm is not reached. -/
theorem monthDayFromJulian_spec (j : Int) (h0 : 0 ≤ j) (h1 : j ≤ 364) :
    ∃ m d, monthDayFromJulian j = some (m, d) ∧ ValidMd m d ∧ ordinal m d = j := by
  unfold monthDayFromJulian
  by_cases c0 : 0 ≤ j ∧ j ≤ 30
  · rw [if_pos c0]; mdj_fin
  rw [if_neg c0]
  by_cases c1 : 31 ≤ j ∧ j ≤ 58
  · rw [if_pos c1]; mdj_fin
  rw [if_neg c1]
  by_cases c2 : 59 ≤ j ∧ j ≤ 89
  · rw [if_pos c2]; mdj_fin
  rw [if_neg c2]
  by_cases c3 : 90 ≤ j ∧ j ≤ 119
  · rw [if_pos c3]; mdj_fin
  rw [if_neg c3]
  by_cases c4 : 120 ≤ j ∧ j ≤ 150
  · rw [if_pos c4]; mdj_fin
  rw [if_neg c4]
  by_cases c5 : 151 ≤ j ∧ j ≤ 180
  · rw [if_pos c5]; mdj_fin
  rw [if_neg c5]
  by_cases c6 : 181 ≤ j ∧ j ≤ 211
  · rw [if_pos c6]; mdj_fin
  rw [if_neg c6]
  by_cases c7 : 212 ≤ j ∧ j ≤ 242
  · rw [if_pos c7]; mdj_fin
  rw [if_neg c7]
  by_cases c8 : 243 ≤ j ∧ j ≤ 272
  · rw [if_pos c8]; mdj_fin
  rw [if_neg c8]
  by_cases c9 : 273 ≤ j ∧ j ≤ 303
  · rw [if_pos c9]; mdj_fin
  rw [if_neg c9]
  by_cases c10 : 304 ≤ j ∧ j ≤ 333
  · rw [if_pos c10]; mdj_fin
  rw [if_neg c10]
  by_cases c11 : 334 ≤ j ∧ j ≤ 364
  · rw [if_pos c11]; mdj_fin
  rw [if_neg c11]
  omega

/-! ### binary codec -/

theorem Expanded.fromBinary_binOf (y : Int) (m d h0 : Nat) (hy : inI16 y = true) (hy5 : -5000 ≤ y)
    (hv : ValidMd m d) (hh : h0 < 24) :
    Expanded.fromBinary (binOf y m d h0) = .ok ⟨y, m, d, h0⟩ := by
  have ⟨o0, o1⟩ := ordinal_range hv
  have hmd := monthDayFromJulian_ordinal hv
  unfold binOf
  generalize ordinal m d = o at *
  have hB0 : 0 ≤ ((y + 5000) * 365 + o) * 24 + (h0 : Int) := by omega
  have hB1 : (((y + 5000) * 365 + o) * 24 + (h0 : Int)).tmod 24 = h0 := by
    rw [Int.tmod_eq_emod_of_nonneg hB0]; omega
  have hB2 : (((y + 5000) * 365 + o) * 24 + (h0 : Int)).tdiv 24 = (y + 5000) * 365 + o := by
    rw [Int.tdiv_eq_ediv_of_nonneg hB0]; omega
  have hC0 : 0 ≤ (y + 5000) * 365 + o := by omega
  have hB3 : ((y + 5000) * 365 + o).tmod 365 = o := by
    rw [Int.tmod_eq_emod_of_nonneg hC0]; omega
  have hB4 : ((y + 5000) * 365 + o).tdiv 365 = y + 5000 := by
    rw [Int.tdiv_eq_ediv_of_nonneg hC0]; omega
  simp only [Expanded.fromBinary, hB1, hB2, hB3, hB4, hmd]
  rw [if_neg (by omega), if_neg (by simp only [I32_MIN]; omega)]
  have e : y + 5000 - 5000 = y := by omega
  simp only [e, hy, Bool.not_true, Bool.false_eq_true, if_false]
  congr 2
  exact asU8_natCast h0 (by omega) _ rfl

/-- `from_binary` never reaches `unreachable!()`, and what it accepts is exactly a calendar day
plus hour whose binary value is the input. -/
theorem Expanded.fromBinary_cases (s : Int) :
    Expanded.fromBinary s = .err ∨
    ∃ y m d h0, ValidMd m d ∧ h0 < 24 ∧ inI16 y = true ∧ binOf y m d h0 = s ∧ (h0 : Int) = s.tmod 24 ∧
      Expanded.fromBinary s = .ok ⟨y, m, d, h0⟩ := by
  unfold Expanded.fromBinary
  simp only []
  by_cases c1 : s.tmod 24 < 0 ∨ (s.tdiv 24).tmod 365 < 0
  · left; rw [if_pos c1]
  rw [if_neg c1]
  by_cases c2 : (s.tdiv 24).tdiv 365 - 5000 < I32_MIN
  · left; rw [if_pos c2]
  rw [if_neg c2]
  by_cases c3 : inI16 ((s.tdiv 24).tdiv 365 - 5000) = true
  · have hlt := Int.tmod_lt_of_pos (s.tdiv 24) (b := 365) (by omega)
    have hlt2 := Int.tmod_lt_of_pos s (b := 24) (by omega)
    obtain ⟨m, d, hmd, hv, ho⟩ := monthDayFromJulian_spec ((s.tdiv 24).tmod 365) (by omega) (by omega)
    right
    refine ⟨(s.tdiv 24).tdiv 365 - 5000, m, d, (s.tmod 24).toNat, hv, by omega, c3, ?_, by omega, ?_⟩
    · unfold binOf
      rw [ho]
      have e1 := Int.mul_tdiv_add_tmod s 24
      have e2 := Int.mul_tdiv_add_tmod (s.tdiv 24) 365
      omega
    · simp only [c3, hmd, Bool.not_true, Bool.false_eq_true, if_false]
      congr 2
      exact asU8_small _ (by omega) (by omega)
  · left
    simp only [c3, Bool.not_false, if_true]


theorem validMd_lt {m d : Nat} (h : ValidMd m d) : m < 16 ∧ d < 32 := by
  have := dpm_le_31 m (by unfold ValidMd at h; omega)
  unfold ValidMd at h; omega

theorem julian_ordinal {m d : Nat} (h : ValidMd m d) :
    ∃ j, julianOrdinalDay m = some j ∧ j + (d : Int) = ordinal m d := by
  rcases validMd_cases h with rfl | rfl | rfl | rfl | rfl | rfl | rfl | rfl | rfl | rfl | rfl | rfl <;>
    exact ⟨_, rfl, rfl⟩

theorem Date.month_mk (y : Int) {m d : Nat} (h : ValidMd m d) : (mkDate y m d).month = m :=
  month_mkRaw y m d 0 (validMd_lt h).1 (validMd_lt h).2 (by omega)
theorem Date.day_mk (y : Int) {m d : Nat} (h : ValidMd m d) : (mkDate y m d).day = d :=
  day_mkRaw y m d 0 (validMd_lt h).1 (validMd_lt h).2 (by omega)
theorem Date.year_mk (y : Int) (m d : Nat) : (mkDate y m d).year = y := rfl

theorem DateHour.month_mk (y : Int) {m d h : Nat} (hv : ValidMd m d) (hh : h < 32) : (mkDateHour y m d h).month = m :=
  month_mkRaw y m d h (validMd_lt hv).1 (validMd_lt hv).2 hh
theorem DateHour.day_mk (y : Int) {m d h : Nat} (hv : ValidMd m d) (hh : h < 32) : (mkDateHour y m d h).day = d :=
  day_mkRaw y m d h (validMd_lt hv).1 (validMd_lt hv).2 hh
theorem DateHour.hour_mk (y : Int) {m d h : Nat} (hv : ValidMd m d) (hh : h < 32) : (mkDateHour y m d h).hour = h :=
  hour_mkRaw y m d h (validMd_lt hv).1 (validMd_lt hv).2 hh
theorem DateHour.year_mk (y : Int) (m d h : Nat) : (mkDateHour y m d h).year = y := rfl

theorem Date.toBinary_mk (y : Int) {m d : Nat} (hv : ValidMd m d) :
    (mkDate y m d).toBinary = .ok (binOf y m d 0) := by
  obtain ⟨j, hj, ho⟩ := julian_ordinal hv
  unfold Date.toBinary
  rw [Date.month_mk y hv, Date.day_mk y hv, Date.year_mk, hj]
  simp only [toBinaryRaw, binOf, ho]

theorem DateHour.toBinary_mk (y : Int) {m d h : Nat} (hv : ValidMd m d) (hh : ValidHour h) :
    (mkDateHour y m d h).toBinary = .ok (binOf y m d (h - 1)) := by
  obtain ⟨j, hj, ho⟩ := julian_ordinal hv
  have h32 : h < 32 := by unfold ValidHour at hh; omega
  unfold DateHour.toBinary
  rw [DateHour.month_mk y hv h32, DateHour.day_mk y hv h32, DateHour.hour_mk y hv h32, DateHour.year_mk, hj]
  simp only [toBinaryRaw, binOf, ho]

theorem Date.fromBinary_of_expanded {s : Int} {y : Int} {m d h0 : Nat} (hv : ValidMd m d)
    (h : Expanded.fromBinary s = .ok ⟨y, m, d, h0⟩) : Date.fromBinary s = .ok (mkDate y m d) := by
  unfold Date.fromBinary
  rw [h]
  simp only [Out.map_ok, Out.bind_ok, Date.fromExpanded, bne_self_eq_false, Bool.false_eq_true, if_false,
    Date.fromYmdOpt_eq, if_pos hv]

theorem DateHour.fromBinary_of_expanded {s : Int} {y : Int} {m d h0 : Nat} (hv : ValidMd m d) (hh : h0 < 24)
    (h : Expanded.fromBinary s = .ok ⟨y, m, d, h0⟩) : DateHour.fromBinary s = .ok (mkDateHour y m d (h0 + 1)) := by
  unfold DateHour.fromBinary
  rw [h]
  have hvh : ValidMd m d ∧ ValidHour (h0 + 1) := ⟨hv, by unfold ValidHour; omega⟩
  simp only [Out.bind_ok, DateHour.fromExpanded, DateHour.fromYmdhOpt_eq, if_pos hvh]
  rw [if_neg (by omega)]

/-- no intermediate of `to_binary` leaves `i32` (date.rs:1143-1147). -/
theorem binOf_fits (y : Int) {m d : Nat} (h0 : Nat) (hy : inI16 y = true) (hv : ValidMd m d) (hh : h0 < 24) :
    inI32 ((y + 5000) * 365) = true ∧ inI32 ((y + 5000) * 365 + ordinal m d) = true ∧
    inI32 (((y + 5000) * 365 + ordinal m d) * 24) = true ∧ inI32 (binOf y m d h0) = true := by
  have ⟨o0, o1⟩ := ordinal_range hv
  rw [inI16_iff] at hy
  simp only [binOf, inI32_iff]
  omega

end Jomini.Date
