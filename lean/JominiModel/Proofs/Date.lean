import JominiModel.Spec.Date
/-
Helper lemmas for the date model (C13): bit packing, constructors, binary codec.
-/
namespace Jomini.Date
open Jomini

/-! ### bit packing -/

theorem pack_toNat (m d h : Nat) (hm : m < 16) (hd : d < 32) (hh : h < 32) :
    (pack m d h).toNat = m * 4096 + d * 128 + h * 4 := by
  unfold pack
  simp only [BitVec.toNat_add, BitVec.toNat_shiftLeft, BitVec.toNat_ofNat, Nat.shiftLeft_eq]
  omega

theorem month_mkRaw (y : Int) (m d h : Nat) (hm : m < 16) (hd : d < 32) (hh : h < 32) :
    (mkRaw y m d h).month = m := by
  simp only [mkRaw, RawDate.month, BitVec.toNat_ushiftRight, pack_toNat m d h hm hd hh, Nat.shiftRight_eq_div_pow]
  omega

theorem day_mkRaw (y : Int) (m d h : Nat) (hm : m < 16) (hd : d < 32) (hh : h < 32) :
    (mkRaw y m d h).day = d := by
  simp only [mkRaw, RawDate.day, BitVec.toNat_and, BitVec.toNat_ushiftRight, pack_toNat m d h hm hd hh, Nat.shiftRight_eq_div_pow]
  have : BitVec.toNat (31 : BitVec 16) = 2^5 - 1 := by decide
  rw [this, Nat.and_two_pow_sub_one_eq_mod]
  omega

theorem hour_mkRaw (y : Int) (m d h : Nat) (hm : m < 16) (hd : d < 32) (hh : h < 32) :
    (mkRaw y m d h).hour = h := by
  simp only [mkRaw, RawDate.hour, BitVec.toNat_and, BitVec.toNat_ushiftRight, pack_toNat m d h hm hd hh, Nat.shiftRight_eq_div_pow]
  have : BitVec.toNat (31 : BitVec 16) = 2^5 - 1 := by decide
  rw [this, Nat.and_two_pow_sub_one_eq_mod]
  omega

theorem year_mkRaw (y : Int) (m d h : Nat) : (mkRaw y m d h).year = y := rfl

theorem hasHour_mkRaw (y : Int) (m d h : Nat) (hm : m < 16) (hd : d < 32) (hh : h < 32) :
    (mkRaw y m d h).hasHour = (h != 0) := by
  have key : ((mkRaw y m d h).data &&& 0x7c).toNat = h * 4 := by
    simp only [mkRaw, BitVec.toNat_and, pack_toNat m d h hm hd hh]
    have e1 : BitVec.toNat (0x7c : BitVec 16) = (2^7 - 1) &&& 124 := by decide
    rw [e1, ← Nat.and_assoc, Nat.and_two_pow_sub_one_eq_mod]
    have e2 : (m * 4096 + d * 128 + h * 4) % 2 ^ 7 = h * 4 := by omega
    rw [e2]
    have : ∀ k, k < 32 → k * 4 &&& 124 = k * 4 := by decide
    exact this h hh
  have hx : ((mkRaw y m d h).data &&& 0x7c) = 0 ↔ h = 0 := by
    rw [← BitVec.toNat_inj, key]
    simp
    omega
  have e : (mkRaw y m d h).hasHour = !(decide (((mkRaw y m d h).data &&& 0x7c) = 0)) := rfl
  rw [e]
  by_cases h0 : h = 0
  · subst h0
    rw [decide_eq_true (hx.2 rfl)]
    rfl
  · have : ¬ ((mkRaw y m d h).data &&& 0x7c) = 0 := fun e => h0 (hx.1 e)
    rw [decide_eq_false this]
    have : (h != 0) = true := by simp [h0]
    rw [this]
    rfl

/-- `RawDate::cmp` on canonical values is the lexicographic order of the components. -/
theorem cmp_mkRaw (y1 y2 : Int) (m1 d1 h1 m2 d2 h2 : Nat)
    (hm1 : m1 < 16) (hd1 : d1 < 32) (hh1 : h1 < 32) (hm2 : m2 < 16) (hd2 : d2 < 32) (hh2 : h2 < 32) :
    (mkRaw y1 m1 d1 h1).cmp (mkRaw y2 m2 d2 h2) =
      (compare y1 y2).then ((compare m1 m2).then ((compare d1 d2).then (compare h1 h2))) := by
  simp only [RawDate.cmp, mkRaw, pack_toNat _ _ _ hm1 hd1 hh1, pack_toNat _ _ _ hm2 hd2 hh2]
  congr 1
  rcases Nat.lt_trichotomy m1 m2 with h | h | h
  · rw [Nat.compare_eq_lt.2 h, Nat.compare_eq_lt.2 (by omega)]; rfl
  · subst h
    rw [Nat.compare_eq_eq.2 rfl]
    rcases Nat.lt_trichotomy d1 d2 with h | h | h
    · rw [Nat.compare_eq_lt.2 h, Nat.compare_eq_lt.2 (by omega)]; rfl
    · subst h
      rw [Nat.compare_eq_eq.2 rfl]
      rcases Nat.lt_trichotomy h1 h2 with h | h | h
      · rw [Nat.compare_eq_lt.2 h, Nat.compare_eq_lt.2 (by omega)]; rfl
      · subst h; rw [Nat.compare_eq_eq.2 rfl, Nat.compare_eq_eq.2 rfl]; rfl
      · rw [Nat.compare_eq_gt.2 h, Nat.compare_eq_gt.2 (by omega)]; rfl
    · rw [Nat.compare_eq_gt.2 h, Nat.compare_eq_gt.2 (by omega)]; rfl
  · rw [Nat.compare_eq_gt.2 h, Nat.compare_eq_gt.2 (by omega)]; rfl

/-! ### constructors -/

theorem daysPerMonth_get : ∀ m, m < 13 → daysPerMonth[m]? = some (dpm m) := by decide

theorem dpm_le_31 : ∀ m, m < 13 → dpm m ≤ 31 := by decide

theorem RawDate.fromYmdhOpt_eq (y : Int) (m d h : Nat) :
    RawDate.fromYmdhOpt y m d h = if ValidRaw m d h then .ok (mkRaw y m d h) else .err := by
  unfold RawDate.fromYmdhOpt
  by_cases hv : ValidRaw m d h
  · rw [if_pos hv]
    unfold ValidRaw at hv
    have h1 : m ≠ 0 := by omega
    have h2 : d ≠ 0 := by omega
    have h3 : m < 13 := by omega
    have h4 : d < 32 := by omega
    have h5 : h < 25 := by omega
    simp [h1, h2, h3, h4, h5, mkRaw, pack]
  · rw [if_neg hv]
    have : ¬ ((m != 0 && decide (m < 13) && d != 0 && decide (d < 32) && decide (h < 25)) = true) := by
      simp only [Bool.and_eq_true, bne_iff_ne, decide_eq_true_eq]
      unfold ValidRaw at hv
      omega
    rw [if_neg this]

theorem Date.fromYmdOpt_eq (y : Int) (m d : Nat) :
    Date.fromYmdOpt y m d = if ValidMd m d then .ok (mkDate y m d) else .err := by
  unfold Date.fromYmdOpt
  rw [RawDate.fromYmdhOpt_eq]
  by_cases hr : ValidRaw m d 0
  · have hm : m < 13 := by unfold ValidRaw at hr; omega
    simp only [if_pos hr, Out.bind_ok, daysPerMonth_get m hm]
    by_cases hv : ValidMd m d
    · rw [if_pos hv, if_pos hv.2.2.2]; rfl
    · rw [if_neg hv, if_neg]
      unfold ValidMd at hv; unfold ValidRaw at hr; omega
  · have hv : ¬ ValidMd m d := by
      intro hv
      have := dpm_le_31 m (by unfold ValidMd at hv; omega)
      unfold ValidMd at hv; unfold ValidRaw at hr; omega
    simp [if_neg hr, if_neg hv]

theorem DateHour.fromYmdhOpt_eq (y : Int) (m d h : Nat) :
    DateHour.fromYmdhOpt y m d h =
      if ValidMd m d ∧ ValidHour h then .ok (mkDateHour y m d h) else .err := by
  unfold DateHour.fromYmdhOpt
  rw [RawDate.fromYmdhOpt_eq]
  by_cases hr : ValidRaw m d h
  · have hm : m < 13 := by unfold ValidRaw at hr; omega
    simp only [if_pos hr, Out.bind_ok, daysPerMonth_get m hm]
    by_cases hv : ValidMd m d ∧ ValidHour h
    · have h1 : (decide (h > 0) && decide (d ≤ dpm m)) = true := by
        simp only [Bool.and_eq_true, decide_eq_true_eq]
        unfold ValidMd ValidHour at hv; omega
      rw [if_pos hv, if_pos h1]; rfl
    · have h1 : ¬ (decide (h > 0) && decide (d ≤ dpm m)) = true := by
        simp only [Bool.and_eq_true, decide_eq_true_eq]
        unfold ValidMd ValidHour at hv; unfold ValidRaw at hr; omega
      rw [if_neg hv, if_neg h1]
  · have hv : ¬ (ValidMd m d ∧ ValidHour h) := by
      intro hv
      have := dpm_le_31 m (by unfold ValidMd at hv; omega)
      unfold ValidMd ValidHour at hv; unfold ValidRaw at hr; omega
    simp [if_neg hr, if_neg hv]

theorem UniformDate.fromYmdOpt_eq (y : Int) (m d : Nat) :
    UniformDate.fromYmdOpt y m d = if ValidUniformMd m d then .ok (mkUniform y m d) else .err := by
  unfold UniformDate.fromYmdOpt
  rw [RawDate.fromYmdhOpt_eq]
  by_cases h30 : d > 30
  · rw [if_pos h30, if_neg]
    unfold ValidUniformMd; omega
  · rw [if_neg h30]
    by_cases hv : ValidUniformMd m d
    · rw [if_pos hv, if_pos]
      · rfl
      · unfold ValidUniformMd at hv; unfold ValidRaw; omega
    · rw [if_neg hv, if_neg]
      · rfl
      · unfold ValidUniformMd at hv; unfold ValidRaw; omega

/-! ### calendar tables -/

theorem validMd_cases {m d : Nat} (h : ValidMd m d) :
    m = 1 ∨ m = 2 ∨ m = 3 ∨ m = 4 ∨ m = 5 ∨ m = 6 ∨ m = 7 ∨ m = 8 ∨ m = 9 ∨ m = 10 ∨ m = 11 ∨ m = 12 := by
  unfold ValidMd at h; omega

theorem asU8_small (x : Int) (h0 : 0 ≤ x) (h1 : x < 256) : asU8 x = x.toNat := by
  unfold asU8; congr 1; omega

theorem ordinal_range {m d : Nat} (h : ValidMd m d) : 0 ≤ ordinal m d ∧ ordinal m d ≤ 364 := by
  rcases validMd_cases h with rfl | rfl | rfl | rfl | rfl | rfl | rfl | rfl | rfl | rfl | rfl | rfl <;>
    (simp only [ValidMd, dpm, daysPerMonth, List.getD_cons_succ, List.getD_cons_zero] at h
     simp only [ordinal, julianOrdinalDay, Option.getD_some]
     omega)

theorem monthDayFromJulian_ordinal {m d : Nat} (h : ValidMd m d) :
    monthDayFromJulian (ordinal m d) = some (m, d) := by
  rcases validMd_cases h with rfl | rfl | rfl | rfl | rfl | rfl | rfl | rfl | rfl | rfl | rfl | rfl <;>
    (simp only [ValidMd, dpm, daysPerMonth, List.getD_cons_succ, List.getD_cons_zero] at h
     simp only [ordinal, julianOrdinalDay, Option.getD_some, monthDayFromJulian]
     repeat' split
     all_goals first
       | omega
       | (simp only [Option.some.injEq, Prod.mk.injEq, asU8]; omega))

end Jomini.Date
