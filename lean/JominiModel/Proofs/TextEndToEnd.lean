import JominiModel.Model.TextTape
import JominiModel.Spec.TextTape
import JominiModel.Proofs.TextTapeFaithful3
import JominiModel.Model.TextDe
import JominiModel.Spec.TextDoc
import JominiModel.Proofs.TextDeTapeNested
import JominiModel.Model.TextReader
import JominiModel.Spec.TextReader
import JominiModel.Proofs.TextReaderFaithful
import JominiModel.Props.C07
import JominiModel.Proofs.TextDeAgree
/-
C02 end to end at the model level, from BYTES to VALUE: the text tape parser model (`TextTape.parse`,
slice C01) composed with the tape deserializer model (`TextDe.deTape`, this slice).

The C01 document type `JFields` carries its layout (the blanks between the lexemes); `toFields`
forgets the layout and yields the C02 document.  For every valid layout the parser's tape, with the
positions dropped, is `tapeOf` of that document; hence the deserialized value is `valueOf` of the
document, whatever the layout.
Sub-fragment both sides express (`PlainF`): scalars, objects with unquoted keys and every operator,
the optional `=` before `{`, arrays, empty containers, header values, ghost `{}` (they leave no trace
on the tape); no mixed containers, no parameter blocks.
-/
namespace Jomini.TextE2E
open Jomini Jomini.TextTape Jomini.TextDoc

def tOp : TextTape.Op → TextDe.Op
  | .lt => .lt | .le => .le | .gt => .gt | .ge => .ge | .ne => .ne | .exact => .exact | .eq => .eq | .exists_ => .exst

/-- a tape token without its position -/
def toTTok : TextTape.Tok → TextDe.TTok
  | .array e m => .arr e m
  | .object e m => .obj e m
  | .mixedContainer => .mixedC
  | .unquoted s => .unq s.bytes
  | .quoted s => .quo s.bytes
  | .parameter s => .param s.bytes
  | .undefParameter s => .undef s.bytes
  | .operator o => .op (tOp o)
  | .endTok i => .end_ i
  | .header s => .hdr s.bytes

def toTextDeTape (T : List TextTape.Tok) : List TextDe.TTok := T.map toTTok

mutual
/-- forget the layout of a value -/
def toNode : JVal → Node
  | .scal _ s => .leaf ⟨s.bytes, s.quoted⟩
  | .empty _ _ => .arr []
  | .obj _ _ k _ o v rest _ => .obj (((k.bytes : Key), tOp o, toNode v) :: toFields rest)
  | .arrS _ _ s0 rest _ => .arr (.leaf ⟨s0.bytes, s0.quoted⟩ :: toNodes rest)
  | .arrC _ first rest _ => .arr (toNode first :: toNodes rest)
  | .ghostIn _ _ _ v => toNode v
  | .mixed .. => .arr []
def toFields : JFields → List (Key × TextDe.Op × Node)
  | .nil => []
  | .cons _ k _ o v rest => ((k.bytes : Key), tOp o, toNode v) :: toFields rest
  | .consImp _ k v rest => ((k.bytes : Key), .eq, toNode v) :: toFields rest
  | .ghost _ _ rest => toFields rest
  | .consHdr _ k _ o _ h body rest => ((k.bytes : Key), tOp o, .hdr h.bytes (toNode body)) :: toFields rest
  | .paramVal _ _ _ _ _ _ rest => toFields rest
  | .paramObj _ _ _ _ _ _ _ _ _ _ rest => toFields rest
def toNodes : JVals → List Node
  | .nil => []
  | .cons v rest => toNode v :: toNodes rest
end

/-- the C02 document of a C01 document -/
def toDoc (fs : JFields) : Doc := toFields fs

mutual
/-- the sub-fragment both document models express -/
def PlainV : JVal → Prop
  | .scal _ _ => True
  | .empty _ _ => True
  | .obj _ _ k _ _ v rest _ => k.quoted = false ∧ PlainV v ∧ PlainF rest
  | .arrS _ _ _ rest _ => PlainVs rest
  | .arrC _ first rest _ => PlainV first ∧ PlainVs rest
  | .ghostIn _ _ _ v => PlainV v
  | .mixed .. => False
def PlainF : JFields → Prop
  | .nil => True
  | .cons _ k _ _ v rest => k.quoted = false ∧ PlainV v ∧ PlainF rest
  | .consImp _ k v rest => k.quoted = false ∧ PlainV v ∧ PlainF rest
  | .ghost _ _ rest => PlainF rest
  | .consHdr _ k _ _ _ h body rest => k.quoted = false ∧ h.quoted = false ∧ PlainV body ∧ PlainF rest
  | .paramVal .. => False
  | .paramObj .. => False
def PlainVs : JVals → Prop
  | .nil => True
  | .cons v rest => PlainV v ∧ PlainVs rest
end

theorem opToks_agree (o : TextTape.Op) : o.toks.map toTTok = TextDe.opToks (tOp o) := by
  cases o <;> simp [TextTape.Op.toks, TextDe.opToks, tOp, toTTok]

theorem opToks_len (o : TextTape.Op) : (TextDe.opToks (tOp o)).length = o.toks.length := by
  rw [← opToks_agree]; simp

theorem scalTok_agree (s : Scal) (after : Bytes) : toTTok (s.tok after) = (Leaf.mk s.bytes s.quoted).ttok := by
  unfold Scal.tok Leaf.ttok
  cases s.quoted <;> simp [toTTok]

theorem keyTok_agree (k : Scal) (after : Bytes) (hk : k.quoted = false) : toTTok (k.tok after) = .unq k.bytes := by
  unfold Scal.tok; simp [hk, toTTok]

theorem toNode_notHdr : ∀ (v : JVal), (toNode v).isHdr = false
  | .scal _ _ => rfl
  | .empty _ _ => rfl
  | .obj .. => rfl
  | .arrS .. => rfl
  | .arrC .. => rfl
  | .ghostIn _ _ _ v => by simp only [toNode]; exact toNode_notHdr v
  | .mixed .. => rfl

mutual
theorem cntV_agree : ∀ (v : JVal), PlainV v → TextDe.tsize (toNode v) = jcntV v
  | .scal _ _, _ => by simp [toNode, TextDe.tsize, jcntV]
  | .empty _ _, _ => by simp [toNode, TextDe.tsize, TextDe.nodesTsize, jcntV]
  | .obj _ _ k _ o v rest _, h => by
      simp only [PlainV] at h
      simp only [toNode, TextDe.tsize, TextDe.fieldsTsize, jcntV, cntV_agree v h.2.1, cntF_agree rest h.2.2, opToks_len]
      omega
  | .arrS _ _ s0 rest _, h => by
      simp only [PlainV] at h
      simp only [toNode, TextDe.tsize, TextDe.nodesTsize, jcntV, cntVs_agree rest h]
      omega
  | .arrC _ first rest _, h => by
      simp only [PlainV] at h
      simp only [toNode, TextDe.tsize, TextDe.nodesTsize, jcntV, cntV_agree first h.1, cntVs_agree rest h.2]
      omega
  | .ghostIn _ _ _ v, h => by
      simp only [PlainV] at h
      simp only [toNode, jcntV, cntV_agree v h]
  | .mixed .., h => by simp [PlainV] at h
theorem cntF_agree : ∀ (fs : JFields), PlainF fs → TextDe.fieldsTsize (toFields fs) = jcntF fs
  | .nil, _ => by simp [toFields, TextDe.fieldsTsize, jcntF]
  | .cons _ k _ o v rest, h => by
      simp only [PlainF] at h
      simp only [toFields, TextDe.fieldsTsize, jcntF, cntV_agree v h.2.1, cntF_agree rest h.2.2, opToks_len]
  | .consImp _ k v rest, h => by
      simp only [PlainF] at h
      simp only [toFields, TextDe.fieldsTsize, jcntF, cntV_agree v h.2.1, cntF_agree rest h.2.2, TextDe.opToks]
      simp
  | .ghost _ _ rest, h => by
      simp only [PlainF] at h
      simp only [toFields, jcntF, cntF_agree rest h]
  | .consHdr _ k _ o _ hd body rest, h => by
      simp only [PlainF] at h
      simp only [toFields, TextDe.fieldsTsize, TextDe.tsize, jcntF, cntV_agree body h.2.2.1, cntF_agree rest h.2.2.2, opToks_len]
      omega
  | .paramVal .., h => by simp [PlainF] at h
  | .paramObj .., h => by simp [PlainF] at h
theorem cntVs_agree : ∀ (vs : JVals), PlainVs vs → TextDe.nodesTsize (toNodes vs) = jcntVs vs
  | .nil, _ => by simp [toNodes, TextDe.nodesTsize, jcntVs]
  | .cons v rest, h => by
      simp only [PlainVs] at h
      simp only [toNodes, TextDe.nodesTsize, jcntVs, cntV_agree v h.1, cntVs_agree rest h.2]
end

@[simp] theorem toTTok_object (e : Nat) (m : Bool) : toTTok (.object e m) = .obj e m := rfl
@[simp] theorem toTTok_array (e : Nat) (m : Bool) : toTTok (.array e m) = .arr e m := rfl
@[simp] theorem toTTok_end (i : Nat) : toTTok (.endTok i) = .end_ i := rfl
@[simp] theorem toTTok_header (s : Slice) : toTTok (.header s) = .hdr s.bytes := rfl

theorem tapeNode_obj (base : Nat) (f : Key × TextDe.Op × Node) (fs : List (Key × TextDe.Op × Node)) :
    tapeNode base (.obj (f :: fs)) =
      .obj (base + 1 + TextDe.fieldsTsize (f :: fs)) false :: (tapeFields (base + 1) (f :: fs) ++ [.end_ base]) := by
  simp only [tapeNode, TextDe.tapeFields_len, List.cons_append]

theorem tapeNode_arr (base : Nat) (vs : List Node) :
    tapeNode base (.arr vs) = .arr (base + 1 + TextDe.nodesTsize vs) false :: (tapeNodes (base + 1) vs ++ [.end_ base]) := by
  simp only [tapeNode, TextDe.tapeNodes_len, List.cons_append]

theorem tapeNodes_cons' (s : Nat) (v : JVal) (r : List Node) :
    tapeNodes s (toNode v :: r) = tapeNode s (toNode v) ++ tapeNodes (s + TextDe.tsize (toNode v)) r :=
  TextDe.tapeNodes_cons s (toNode v) r (toNode_notHdr v)

theorem tapeNodes_leaf (s : Nat) (l : Leaf) (r : List Node) :
    tapeNodes s (.leaf l :: r) = l.ttok :: tapeNodes (s + 1) r := by
  simp [tapeNodes, tapeNode]

mutual
/-- the two specs agree on values: the C01 tape of a value, positions dropped, is the C02 tape of the
value without its layout -/
theorem tapeV_agree : ∀ (v : JVal) (base : Nat) (after : Bytes), PlainV v →
    (jtapeV v base after).map toTTok = tapeNode base (toNode v)
  | .scal _ s, base, after, _ => by simp [jtapeV, toNode, tapeNode, scalTok_agree]
  | .empty _ _, base, after, _ => by simp [jtapeV, toNode, tapeNode_arr, tapeNodes, TextDe.nodesTsize]
  | .obj _ _ k g1 o v rest gc, base, after, h => by
      simp only [PlainV] at h
      have hv := tapeV_agree v (base + 1 + 1 + o.toks.length) (jrenderF rest ++ (gc ++ 125 :: after)) h.2.1
      have hr := tapeF_agree rest (base + 1 + (1 + o.toks.length + jcntV v)) (gc ++ 125 :: after) h.2.2
      have hcv := cntV_agree v h.2.1
      have hcf := cntF_agree rest h.2.2
      have hol := opToks_len o
      have e1 : base + 1 + TextDe.fieldsTsize (((k.bytes : Key), tOp o, toNode v) :: toFields rest)
          = base + 1 + (1 + o.toks.length + jcntV v) + jcntF rest := by
        simp only [TextDe.fieldsTsize, hcv, hcf, hol]; omega
      have e2 : base + 1 + 1 + (TextDe.opToks (tOp o)).length + TextDe.tsize (toNode v)
          = base + 1 + (1 + o.toks.length + jcntV v) := by rw [hcv, hol]; omega
      simp only [jtapeV, toNode, tapeNode_obj, TextDe.tapeFields_cons, e1, e2, hol,
        List.map_append, List.map_cons, List.map_nil, toTTok_object, toTTok_end, keyTok_agree _ _ h.1, TextDe.Key.plain_ttok, opToks_agree,
        hv, hr, List.cons_append, List.nil_append, List.append_assoc]
      rw [hcv, show base + 1 + 1 + o.toks.length + jcntV v = base + 1 + (1 + o.toks.length + jcntV v) by omega]
  | .arrS _ _ s0 rest gc, base, after, h => by
      simp only [PlainV] at h
      have hr := tapeVs_agree rest (base + 1 + 1) (gc ++ 125 :: after) h
      have hc := cntVs_agree rest h
      have e1 : base + 1 + TextDe.nodesTsize (Node.leaf ⟨s0.bytes, s0.quoted⟩ :: toNodes rest) = base + 1 + 1 + jcntVs rest := by
        simp only [TextDe.nodesTsize, TextDe.tsize, hc]; omega
      simp only [jtapeV, toNode, tapeNode_arr, tapeNodes_leaf, e1,
        List.map_append, List.map_cons, List.map_nil, toTTok_array, toTTok_end, scalTok_agree, hr,
        List.cons_append, List.nil_append, List.append_assoc]
  | .arrC _ first rest gc, base, after, h => by
      simp only [PlainV] at h
      have hf := tapeV_agree first (base + 1) (jrenderVs rest ++ (gc ++ 125 :: after)) h.1
      have hr := tapeVs_agree rest (base + 1 + jcntV first) (gc ++ 125 :: after) h.2
      have hcv := cntV_agree first h.1
      have hc := cntVs_agree rest h.2
      have e1 : base + 1 + TextDe.nodesTsize (toNode first :: toNodes rest) = base + 1 + jcntV first + jcntVs rest := by
        simp only [TextDe.nodesTsize, hcv, hc]; omega
      simp only [jtapeV, toNode, tapeNode_arr, tapeNodes_cons', e1, hcv,
        List.map_append, List.map_cons, List.map_nil, toTTok_array, toTTok_end, hf, hr,
        List.cons_append, List.nil_append, List.append_assoc]
  | .ghostIn _ _ _ v, base, after, h => by
      simp only [PlainV] at h
      simp only [jtapeV, toNode]
      exact tapeV_agree v base after h
  | .mixed .., _, _, h => by simp [PlainV] at h
/-- … on field lists -/
theorem tapeF_agree : ∀ (fs : JFields) (base : Nat) (after : Bytes), PlainF fs →
    (jtapeF fs base after).map toTTok = tapeFields base (toFields fs)
  | .nil, base, after, _ => by simp [jtapeF, toFields, tapeFields]
  | .cons _ k g1 o v rest, base, after, h => by
      simp only [PlainF] at h
      have hv := tapeV_agree v (base + 1 + o.toks.length) (jrenderF rest ++ after) h.2.1
      have hr := tapeF_agree rest (base + (1 + o.toks.length + jcntV v)) after h.2.2
      have hcv := cntV_agree v h.2.1
      have hol := opToks_len o
      have e2 : base + 1 + (TextDe.opToks (tOp o)).length + TextDe.tsize (toNode v)
          = base + (1 + o.toks.length + jcntV v) := by rw [hcv, hol]; omega
      simp only [jtapeF, toFields, TextDe.tapeFields_cons, e2, hol, List.map_append, List.map_cons, List.map_nil,
        keyTok_agree _ _ h.1, TextDe.Key.plain_ttok, opToks_agree, hv, hr, List.cons_append, List.nil_append, List.append_assoc]
      rw [hcv, show base + 1 + o.toks.length + jcntV v = base + (1 + o.toks.length + jcntV v) by omega]
  | .consImp _ k v rest, base, after, h => by
      simp only [PlainF] at h
      have hv := tapeV_agree v (base + 1) (jrenderF rest ++ after) h.2.1
      have hr := tapeF_agree rest (base + (1 + jcntV v)) after h.2.2
      have hcv := cntV_agree v h.2.1
      have e2 : base + 1 + (TextDe.opToks TextDe.Op.eq).length + TextDe.tsize (toNode v) = base + (1 + jcntV v) := by
        rw [hcv]; simp [TextDe.opToks]; omega
      have e3 : base + 1 + (TextDe.opToks TextDe.Op.eq).length = base + 1 := by simp [TextDe.opToks]
      simp only [jtapeF, toFields, TextDe.tapeFields_cons, e2, e3, List.map_append, List.map_cons, List.map_nil,
        keyTok_agree _ _ h.1, TextDe.Key.plain_ttok, hv, hr, List.cons_append, List.nil_append, List.append_assoc]
      simp only [TextDe.opToks, List.nil_append, List.length_nil, Nat.add_zero, List.cons.injEq, List.append_cancel_left_eq, true_and]
      rw [hcv, show base + 1 + jcntV v = base + (1 + jcntV v) by omega]
  | .ghost _ _ rest, base, after, h => by
      simp only [PlainF] at h
      simp only [jtapeF, toFields]
      exact tapeF_agree rest base after h
  | .consHdr _ k g1 o gh hd body rest, base, after, h => by
      simp only [PlainF] at h
      have hv := tapeV_agree body (base + 1 + o.toks.length + 1) (jrenderF rest ++ after) h.2.2.1
      have hr := tapeF_agree rest (base + (1 + o.toks.length + (1 + jcntV body))) after h.2.2.2
      have hcv := cntV_agree body h.2.2.1
      have hol := opToks_len o
      have e2 : base + 1 + (TextDe.opToks (tOp o)).length + TextDe.tsize (Node.hdr hd.bytes (toNode body))
          = base + (1 + o.toks.length + (1 + jcntV body)) := by
        simp only [TextDe.tsize, hcv, hol]; omega
      simp only [jtapeF, toFields, TextDe.tapeFields_cons, tapeNode, e2, hol, List.map_append, List.map_cons,
        List.map_nil, toTTok_header, keyTok_agree _ _ h.1, TextDe.Key.plain_ttok, opToks_agree, hv, hr, List.cons_append,
        List.nil_append, List.append_assoc]
      simp only [TextDe.tsize, hcv]
      rw [show base + 1 + o.toks.length + (jcntV body + 1) = base + (1 + o.toks.length + (1 + jcntV body)) by omega]
  | .paramVal .., _, _, h => by simp [PlainF] at h
  | .paramObj .., _, _, h => by simp [PlainF] at h
/-- … on value lists -/
theorem tapeVs_agree : ∀ (vs : JVals) (base : Nat) (after : Bytes), PlainVs vs →
    (jtapeVs vs base after).map toTTok = tapeNodes base (toNodes vs)
  | .nil, base, after, _ => by simp [jtapeVs, toNodes, tapeNodes]
  | .cons v rest, base, after, h => by
      simp only [PlainVs] at h
      have hv := tapeV_agree v base (jrenderVs rest ++ after) h.1
      have hr := tapeVs_agree rest (base + jcntV v) after h.2
      have hcv := cntV_agree v h.1
      simp only [jtapeVs, toNodes, tapeNodes_cons', List.map_append, hv, hr, hcv]
end

/-- (1) the two specs agree: the C01 tape of a document under any layout, positions dropped, is
`tapeOf` of the layout-free C02 document -/
theorem tape_agree (fs : JFields) (gt : Bytes) (h : PlainF fs) :
    toTextDeTape (jtapeF fs 0 gt) = tapeOf (toDoc fs) :=
  tapeF_agree fs 0 gt h

/-! ### well-formedness of the translated document -/

/-- an object or an array -/
def IsCont : Node → Prop
  | .obj _ | .arr _ => True
  | _ => False

theorem hdr_wf (h : Bytes) (n : Node) (hc : IsCont n) : (Node.hdr h n).wf = n.wf := by
  cases n <;> simp_all [IsCont, Node.wf]

/-- a braced value of the sub-fragment translates to a container -/
theorem braced_cont : ∀ (v : JVal) (after : Bytes), PlainV v → JValidV v after → v.isBraced → IsCont (toNode v)
  | .scal _ _, _, _, _, hb => by simp [JVal.isBraced] at hb
  | .empty _ _, _, _, _, _ => by simp [toNode, IsCont]
  | .obj .., _, _, _, _ => by simp [toNode, IsCont]
  | .arrS .., _, _, _, _ => by simp [toNode, IsCont]
  | .arrC .., _, _, _, _ => by simp [toNode, IsCont]
  | .ghostIn _ _ _ v, after, hp, hv, _ => by
      simp only [PlainV] at hp
      simp only [JValidV] at hv
      simp only [toNode]
      exact braced_cont v after hp hv.2.2.2.2.2 hv.2.2.2.1
  | .mixed .., _, hp, _, _ => by simp [PlainV] at hp

theorem cont_braced (v : JVal) (h : v.isContainer) : v.isBraced := by
  cases v <;> simp_all [JVal.isContainer, JVal.isBraced]

mutual
theorem wfV : ∀ (v : JVal) (after : Bytes), PlainV v → JValidV v after → (toNode v).wf = true
  | .scal _ _, _, _, _ => by simp [toNode, Node.wf]
  | .empty _ _, _, _, _ => by simp [toNode, Node.wf, wfNodes]
  | .obj _ _ k _ o v rest gc, after, hp, hv => by
      simp only [PlainV] at hp
      simp only [JValidV] at hv
      simp only [toNode, Node.wf, wfFields, Bool.and_eq_true]
      exact ⟨wfV v _ hp.2.1 hv.2.2.2.2.2.2.1, wfF rest _ hp.2.2 hv.2.2.2.2.2.2.2⟩
  | .arrS _ _ s0 rest gc, after, hp, hv => by
      simp only [PlainV] at hp
      simp only [JValidV] at hv
      simp only [toNode, Node.wf, wfNodes, Bool.and_eq_true]
      exact ⟨trivial, wfVs rest _ hp hv.2.2.2.2.2.2⟩
  | .arrC _ first rest gc, after, hp, hv => by
      simp only [PlainV] at hp
      simp only [JValidV] at hv
      simp only [toNode, Node.wf, wfNodes, Bool.and_eq_true]
      exact ⟨wfV first _ hp.1 hv.2.2.2.1, wfVs rest _ hp.2 hv.2.2.2.2⟩
  | .ghostIn _ _ _ v, after, hp, hv => by
      simp only [PlainV] at hp
      simp only [JValidV] at hv
      simp only [toNode]
      exact wfV v after hp hv.2.2.2.2.2
  | .mixed .., _, hp, _ => by simp [PlainV] at hp
theorem wfF : ∀ (fs : JFields) (after : Bytes), PlainF fs → JValidF fs after → wfFields (toFields fs) = true
  | .nil, _, _, _ => by simp [toFields, wfFields]
  | .cons _ k _ o v rest, after, hp, hv => by
      simp only [PlainF] at hp
      simp only [JValidF] at hv
      simp only [toFields, wfFields, Bool.and_eq_true]
      exact ⟨wfV v _ hp.2.1 hv.2.2.2.2.1, wfF rest _ hp.2.2 hv.2.2.2.2.2⟩
  | .consImp _ k v rest, after, hp, hv => by
      simp only [PlainF] at hp
      simp only [JValidF] at hv
      simp only [toFields, wfFields, Bool.and_eq_true]
      exact ⟨wfV v _ hp.2.1 hv.2.2.2.2.1, wfF rest _ hp.2.2 hv.2.2.2.2.2⟩
  | .ghost _ _ rest, after, hp, hv => by
      simp only [PlainF] at hp
      simp only [JValidF] at hv
      simp only [toFields]
      exact wfF rest after hp hv.2.2
  | .consHdr _ k _ o _ hd body rest, after, hp, hv => by
      simp only [PlainF] at hp
      simp only [JValidF] at hv
      have hb := hv.2.2.2.2.2.2.2.2
      have hc := braced_cont body _ hp.2.2.1 hb.2.1 (cont_braced body hb.1)
      simp only [toFields, wfFields, Bool.and_eq_true, hdr_wf _ _ hc]
      exact ⟨wfV body _ hp.2.2.1 hb.2.1, wfF rest _ hp.2.2.2 hb.2.2⟩
  | .paramVal .., _, hp, _ => by simp [PlainF] at hp
  | .paramObj .., _, hp, _ => by simp [PlainF] at hp
theorem wfVs : ∀ (vs : JVals) (after : Bytes), PlainVs vs → JValidVs vs after → wfNodes (toNodes vs) = true
  | .nil, _, _, _ => by simp [toNodes, wfNodes]
  | .cons v rest, after, hp, hv => by
      simp only [PlainVs] at hp
      simp only [JValidVs] at hv
      simp only [toNodes, wfNodes, Bool.and_eq_true]
      exact ⟨wfV v _ hp.1 hv.1, wfVs rest _ hp.2 hv.2⟩
end

/-! ### (2) from bytes to value on the tape path -/

/-- (FRAGMENT VERSION on the sub-fragment `PlainF` -- unquoted keys, no variables; kept because the C10 bridge
builds on it; superseded by `C02_tape_end_to_end_full`, Proofs/TextEndToEndFull.lean.)
C02 end to end, tape path: for every document of the sub-fragment, every valid layout of it
(`fs` carries the layout, `gt` the trailing blanks), both encodings and every root target type that
requests the document's shape, the tape the parser model produces from the BYTES deserializes to the
value of the layout-free document: the value does not depend on the layout and is the document's. -/
theorem C02_tape_end_to_end (enc : TextDe.Enc) (ty : TextDe.Ty) (fs : JFields) (gt : Bytes)
    (hgt : Blank gt) (hv : JValidF fs gt) (hb : hasBom (jrenderF fs ++ gt) = false) (hp : PlainF fs)
    (hroot : Ty.isRoot ty = true) (hfit : FitsT enc false ty (.obj (toDoc fs))) :
    ∃ T b, TextTape.parse (jrenderF fs ++ gt) = .ok T b ∧
      TextDe.deTape enc ty (toTextDeTape T) = valueOf enc ty (toDoc fs) := by
  refine ⟨jtapeF fs 0 gt, false, parse_tree fs gt hgt hv hb, ?_⟩
  rw [tape_agree fs gt hp]
  exact TextDe.deTape_eq_valueOf enc ty (toDoc fs) hroot (wfF fs gt hp hv) hfit

/-- the same with a UTF-8 byte order mark in front (fragment version on `PlainF`, see `C02_tape_end_to_end`) -/
theorem C02_tape_end_to_end_bom (enc : TextDe.Enc) (ty : TextDe.Ty) (fs : JFields) (gt : Bytes)
    (hgt : Blank gt) (hv : JValidF fs gt) (hb : hasBom (jrenderF fs ++ gt) = false) (hp : PlainF fs)
    (hroot : Ty.isRoot ty = true) (hfit : FitsT enc false ty (.obj (toDoc fs))) :
    ∃ T b, TextTape.parse (0xef :: 0xbb :: 0xbf :: (jrenderF fs ++ gt)) = .ok T b ∧
      TextDe.deTape enc ty (toTextDeTape T) = valueOf enc ty (toDoc fs) := by
  refine ⟨jtapeF fs 0 gt, true, parse_tree_bom fs gt hgt hv hb, ?_⟩
  rw [tape_agree fs gt hp]
  exact TextDe.deTape_eq_valueOf enc ty (toDoc fs) hroot (wfF fs gt hp hv) hfit

/-- the hypotheses are satisfiable: the bytes `a={1 {b=c} {}} d={{x}}` + newline (C01's `exampleTree`)
into `st(a:seq(ign); d:seq(seq(str)); z:opt(i64))` -/
example :
    let ty : TextDe.Ty := .st [([97], .seq .ign), ([100], .seq (.seq .str)), ([122], .opt .i64)]
    ∃ T b, TextTape.parse (jrenderF exampleTree ++ [10]) = .ok T b ∧
      TextDe.deTape .utf8 ty (toTextDeTape T) = valueOf .utf8 ty (toDoc exampleTree) ∧
      valueOf .utf8 ty (toDoc exampleTree) =
        .ok (.st [([97], .seq [.ign, .ign, .ign]), ([100], .seq [.seq [.str [120]]]), ([122], .none)]) := by
  intro ty
  obtain ⟨hv, hgt, hb⟩ := exampleTree_valid
  have hp : PlainF exampleTree := by simp [exampleTree, PlainF, PlainV, PlainVs]
  have hfit : FitsT .utf8 false ty (.obj (toDoc exampleTree)) := by
    apply FitsT.st
    intro k o v hm i t hl
    simp only [toDoc, exampleTree, toFields, toNode, toNodes, List.mem_cons, Prod.mk.injEq, List.not_mem_nil, or_false] at hm
    rcases hm with ⟨rfl, rfl, rfl⟩ | ⟨rfl, rfl, rfl⟩
    · have h : TextDe.lookupIdx (TextDe.decode .utf8 [97]) [([97], TextDe.Ty.seq .ign), ([100], .seq (.seq .str)), ([122], .opt .i64)] 0
          = some (0, .seq .ign) := by rfl
      rw [h] at hl; simp at hl; obtain ⟨_, rfl⟩ := hl
      exact FitsT.seq (fun v _ => FitsT.ign)
    · have h : TextDe.lookupIdx (TextDe.decode .utf8 [100]) [([97], TextDe.Ty.seq .ign), ([100], .seq (.seq .str)), ([122], .opt .i64)] 0
          = some (1, .seq (.seq .str)) := by rfl
      rw [h] at hl; simp at hl; obtain ⟨_, rfl⟩ := hl
      apply FitsT.seq
      intro v hv'
      simp only [expandNodes, List.mem_cons, List.not_mem_nil, or_false] at hv'
      subst hv'
      apply FitsT.seq
      intro v hv'
      simp only [expandNodes, List.mem_cons, List.not_mem_nil, or_false] at hv'
      subst hv'
      exact FitsT.scalar rfl
  obtain ⟨T, b, h1, h2⟩ := C02_tape_end_to_end .utf8 ty exampleTree [10] hgt hv hb hp rfl hfit
  exact ⟨T, b, h1, h2, by rfl⟩

/-! ### (3) from bytes to value on the stream path -/

def rOp : TextReader.Op → TextDe.Op
  | .lt => .lt | .le => .le | .gt => .gt | .ge => .ge | .ne => .ne | .exact => .exact | .eq => .eq | .exists_ => .exst

/-- a reader token of the reader model as the deserializer model sees it -/
def toRTok : TextReader.Token → TextDe.RTok
  | .open_ => .open_
  | .close => .close
  | .op o => .op (rOp o)
  | .unquoted b => .unq b
  | .quoted b => .quo b

/-- THE MISSING LEMMA (slice C07 has no faithfulness theorem for its lexer on rendered documents yet):
the zero-copy slice reader, run on the rendering of a document, ends cleanly and yields exactly the
document's reader tokens.  (It can only hold for documents without ghost `{}` and without the implicit
`=`, whose reader tokens `lexemes` does not describe.) -/
def SliceLexFaithful (fs : JFields) (gt : Bytes) : Prop :=
  (TextReader.sliceTokens (jrenderF fs ++ gt)).out = .end_ ∧
  (TextReader.sliceTokens (jrenderF fs ++ gt)).toks.map toRTok = lexemes (toDoc fs)

/-- C02 end to end, stream path, relative to the missing lexer lemma: if the slice reader model is
faithful on the rendering (`SliceLexFaithful`), then deserializing the reader's tokens yields the value of
the layout-free document, for every valid layout, both encodings and every fitting root type. -/
theorem C02_stream_end_to_end_partial (enc : TextDe.Enc) (ty : TextDe.Ty) (fs : JFields) (gt : Bytes)
    (hv : JValidF fs gt) (hp : PlainF fs) (hlex : SliceLexFaithful fs gt)
    (hroot : Ty.isRoot ty = true) (hfit : Fits enc ty (.obj (toDoc fs))) :
    TextDe.deStream enc ty ((TextReader.sliceTokens (jrenderF fs ++ gt)).toks.map toRTok) = valueOf enc ty (toDoc fs) := by
  rw [hlex.2]
  exact TextDe.deStream_eq_valueOf enc ty (toDoc fs) hroot (wfF fs gt hp hv) hfit

/-- both paths, from the same bytes, relative to the missing lexer lemma -/
theorem C02_paths_end_to_end_partial (enc : TextDe.Enc) (ty : TextDe.Ty) (fs : JFields) (gt : Bytes)
    (hgt : Blank gt) (hv : JValidF fs gt) (hb : hasBom (jrenderF fs ++ gt) = false) (hp : PlainF fs)
    (hlex : SliceLexFaithful fs gt)
    (hroot : Ty.isRoot ty = true) (hfit : FitsT enc false ty (.obj (toDoc fs))) :
    ∃ T b, TextTape.parse (jrenderF fs ++ gt) = .ok T b ∧
      TextDe.deTape enc ty (toTextDeTape T) =
        TextDe.deStream enc ty ((TextReader.sliceTokens (jrenderF fs ++ gt)).toks.map toRTok) := by
  obtain ⟨T, b, h1, h2⟩ := C02_tape_end_to_end enc ty fs gt hgt hv hb hp hroot hfit
  exact ⟨T, b, h1, by
    rw [h2, C02_stream_end_to_end_partial enc ty fs gt hv hp hlex hroot (TextDe.fitsT_fits enc hfit)]⟩

/-- the missing lemma holds on C01's example document `a={1 {b=c} {}} d={{x}}` + newline -/
example : SliceLexFaithful exampleTree [10] := by
  constructor <;> decide +kernel

/-! ### bridge to the reader slice's faithfulness theorem (C07) -/

theorem isBoundary_eq (b : UInt8) : TextTape.isBoundary b = TextReader.isBoundary b := by
  have h : ∀ n, n < 256 → TextTape.isBoundary (UInt8.ofNat n) = TextReader.isBoundary (UInt8.ofNat n) := by decide +kernel
  have := h b.toNat b.toNat_lt
  simpa using this

theorem isBlank_eq (b : UInt8) : TextTape.isBlank b = TextReader.isBlank b := by
  have h : ∀ n, n < 256 → TextTape.isBlank (UInt8.ofNat n) = TextReader.isBlank (UInt8.ofNat n) := by decide +kernel
  have := h b.toNat b.toNat_lt
  simpa using this

theorem quote_eq : ∀ (n : Nat) (x : Bytes) (i : Nat), x.length ≤ n →
    TextReader.Spec.quoteEnd x i = (TextTape.quoteClose x false).map (· + i)
  | _, [], i, _ => by simp [TextReader.Spec.quoteEnd, TextTape.quoteClose]
  | 0, _ :: _, i, h => by simp at h
  | n + 1, c :: rest, i, h => by
      by_cases hc : c = 92
      · subst hc
        cases rest with
        | nil => simp [TextReader.Spec.quoteEnd, TextTape.quoteClose]
        | cons d rest' =>
          have ih := quote_eq n rest' (i + 2) (by simp at h; omega)
          simp only [TextReader.Spec.quoteEnd, TextTape.quoteClose, beq_self_eq_true, ↓reduceIte, ih]
          cases TextTape.quoteClose rest' false <;> simp; omega
      · have hc' : (c == 92) = false := by simpa using hc
        by_cases hq : c = 34
        · subst hq; cases rest <;> simp [TextReader.Spec.quoteEnd, TextTape.quoteClose]
        · have hq' : (c != 34) = true := by simpa using hq
          have ih := quote_eq n rest (i + 1) (by simp at h; omega)
          cases rest with
          | nil => simp [TextReader.Spec.quoteEnd, TextTape.quoteClose, hc, hc', hq, hq']
          | cons d r2 =>
            simp only [TextReader.Spec.quoteEnd, TextTape.quoteClose, hc, hc', hq, hq', ↓reduceIte, Bool.false_eq_true] at ih ⊢
            rw [ih]
            cases (if d = 92 then Option.map (fun x => x + 1) (TextTape.quoteClose r2 true) else if d = 34 then some 0 else Option.map (fun x => x + 1) (TextTape.quoteClose r2 false)) <;> simp; omega

def trOp : TextTape.Op → TextReader.Op
  | .lt => .lt | .le => .le | .gt => .gt | .ge => .ge | .ne => .ne | .exact => .exact | .eq => .eq | .exists_ => .exists_

theorem rOp_trOp (o : TextTape.Op) : rOp (trOp o) = tOp o := by cases o <;> rfl
theorem opText_trOp (o : TextTape.Op) : TextReader.opText (trOp o) = o.text := by cases o <;> rfl

mutual
/-- the C01 layout document as a C07 layout document (a header value is the header scalar followed by its
body as the next member) -/
def toDV : JVal → TextReader.DVal
  | .scal g s => .scal g s.quoted s.bytes
  | .empty g gc => .cont g .nil gc
  | .obj g g0 k g1 o v rest gc => .cont g (.field g0 k.quoted k.bytes g1 (trOp o) (toDV v) (toDM rest)) gc
  | .arrS g g0 s0 rest gc => .cont g (.elem (.scal g0 s0.quoted s0.bytes) (toDMs rest)) gc
  | .arrC g first rest gc => .cont g (.elem (toDV first) (toDMs rest)) gc
  | .ghostIn g _ _ _ => .cont g .nil []
  | .mixed g .. => .cont g .nil []
def toDM : JFields → TextReader.DMembers
  | .nil => .nil
  | .cons g0 k g1 o v rest => .field g0 k.quoted k.bytes g1 (trOp o) (toDV v) (toDM rest)
  | .consHdr g0 k g1 o gh h body rest =>
    .field g0 k.quoted k.bytes g1 (trOp o) (.scal gh h.quoted h.bytes) (.elem (toDV body) (toDM rest))
  | .consImp _ _ _ rest => toDM rest
  | .ghost _ _ rest => toDM rest
  | .paramVal _ _ _ _ _ _ rest => toDM rest
  | .paramObj _ _ _ _ _ _ _ _ _ _ rest => toDM rest
def toDMs : JVals → TextReader.DMembers
  | .nil => .nil
  | .cons v rest => .elem (toDV v) (toDMs rest)
end

/-- reader-safe scalar: an ordinary scalar (no `@variable`) that, unquoted, does not begin with `?`
(the reader takes a leading `?` for the `?=` operator) -/
def SafeScal (s : Scal) : Prop := s.Valid ∧ (s.quoted = false → ∀ c r, s.bytes = c :: r → c ≠ 63)

mutual
/-- the sub-fragment the stream path expresses: as `PlainV`, without ghost `{}` and without the implicit
`=`, all scalars reader-safe -/
def SPlainV : JVal → Prop
  | .scal _ s => SafeScal s
  | .empty _ _ => True
  | .obj _ _ k _ _ v rest _ => k.quoted = false ∧ SafeScal k ∧ SPlainV v ∧ SPlainF rest
  | .arrS _ _ s0 rest _ => SafeScal s0 ∧ SPlainVs rest
  | .arrC _ first rest _ => SPlainV first ∧ SPlainVs rest
  | .ghostIn .. => False
  | .mixed .. => False
def SPlainF : JFields → Prop
  | .nil => True
  | .cons _ k _ _ v rest => k.quoted = false ∧ SafeScal k ∧ SPlainV v ∧ SPlainF rest
  | .consHdr _ k _ _ _ h body rest => k.quoted = false ∧ SafeScal k ∧ h.quoted = false ∧ SafeScal h ∧ SPlainV body ∧ SPlainF rest
  | .consImp .. => False
  | .ghost .. => False
  | .paramVal .. => False
  | .paramObj .. => False
def SPlainVs : JVals → Prop
  | .nil => True
  | .cons v rest => SPlainV v ∧ SPlainVs rest
end

mutual
theorem splain_plainV : ∀ (v : JVal), SPlainV v → PlainV v
  | .scal _ _, _ => trivial
  | .empty _ _, _ => trivial
  | .obj _ _ k _ _ v rest _, h => by
      simp only [SPlainV] at h; simp only [PlainV]
      exact ⟨h.1, splain_plainV v h.2.2.1, splain_plainF rest h.2.2.2⟩
  | .arrS _ _ _ rest _, h => by simp only [SPlainV] at h; simp only [PlainV]; exact splain_plainVs rest h.2
  | .arrC _ first rest _, h => by
      simp only [SPlainV] at h; simp only [PlainV]; exact ⟨splain_plainV first h.1, splain_plainVs rest h.2⟩
  | .ghostIn .., h => by simp [SPlainV] at h
  | .mixed .., h => by simp [SPlainV] at h
theorem splain_plainF : ∀ (fs : JFields), SPlainF fs → PlainF fs
  | .nil, _ => trivial
  | .cons _ k _ _ v rest, h => by
      simp only [SPlainF] at h; simp only [PlainF]
      exact ⟨h.1, splain_plainV v h.2.2.1, splain_plainF rest h.2.2.2⟩
  | .consHdr _ k _ _ _ hd body rest, h => by
      simp only [SPlainF] at h; simp only [PlainF]
      exact ⟨h.1, h.2.2.1, splain_plainV body h.2.2.2.2.1, splain_plainF rest h.2.2.2.2.2⟩
  | .consImp .., h => by simp [SPlainF] at h
  | .ghost .., h => by simp [SPlainF] at h
  | .paramVal .., h => by simp [SPlainF] at h
  | .paramObj .., h => by simp [SPlainF] at h
theorem splain_plainVs : ∀ (vs : JVals), SPlainVs vs → PlainVs vs
  | .nil, _ => trivial
  | .cons v rest, h => by
      simp only [SPlainVs] at h; simp only [PlainVs]; exact ⟨splain_plainV v h.1, splain_plainVs rest h.2⟩
end

theorem scalText (s : Scal) : (TextReader.Lexeme.scalar s.quoted s.bytes).text = s.text := by
  unfold Scal.text; cases s.quoted <;> simp [TextReader.Lexeme.text]

mutual
theorem renderV_agree : ∀ (v : JVal), SPlainV v → TextReader.renderV (toDV v) = jrenderV v
  | .scal g s, _ => by simp [toDV, TextReader.renderV, jrenderV, scalText]
  | .empty g gc, _ => by simp [toDV, TextReader.renderV, TextReader.renderM, jrenderV]
  | .obj g g0 k g1 o v rest gc, h => by
      simp only [SPlainV] at h
      simp [toDV, TextReader.renderV, TextReader.renderM, jrenderV, scalText, opText_trOp,
        renderV_agree v h.2.2.1, renderM_agree rest h.2.2.2]
  | .arrS g g0 s0 rest gc, h => by
      simp only [SPlainV] at h
      simp [toDV, TextReader.renderV, TextReader.renderM, jrenderV, scalText, renderMs_agree rest h.2]
  | .arrC g first rest gc, h => by
      simp only [SPlainV] at h
      simp [toDV, TextReader.renderV, TextReader.renderM, jrenderV, renderV_agree first h.1, renderMs_agree rest h.2]
  | .ghostIn .., h => by simp [SPlainV] at h
  | .mixed .., h => by simp [SPlainV] at h
theorem renderM_agree : ∀ (fs : JFields), SPlainF fs → TextReader.renderM (toDM fs) = jrenderF fs
  | .nil, _ => by simp [toDM, TextReader.renderM, jrenderF]
  | .cons g0 k g1 o v rest, h => by
      simp only [SPlainF] at h
      simp [toDM, TextReader.renderM, jrenderF, scalText, opText_trOp, renderV_agree v h.2.2.1, renderM_agree rest h.2.2.2]
  | .consHdr g0 k g1 o gh hd body rest, h => by
      simp only [SPlainF] at h
      simp [toDM, TextReader.renderM, TextReader.renderV, jrenderF, scalText, opText_trOp,
        renderV_agree body h.2.2.2.2.1, renderM_agree rest h.2.2.2.2.2]
  | .consImp .., h => by simp [SPlainF] at h
  | .ghost .., h => by simp [SPlainF] at h
  | .paramVal .., h => by simp [SPlainF] at h
  | .paramObj .., h => by simp [SPlainF] at h
theorem renderMs_agree : ∀ (vs : JVals), SPlainVs vs → TextReader.renderM (toDMs vs) = jrenderVs vs
  | .nil, _ => by simp [toDMs, TextReader.renderM, jrenderVs]
  | .cons v rest, h => by
      simp only [SPlainVs] at h
      simp [toDMs, TextReader.renderM, jrenderVs, renderV_agree v h.1, renderMs_agree rest h.2]
end

/-- the reader tokens of a C07 lexeme list as the deserializer sees them -/
def itemToks (items : List (Bytes × TextReader.Lexeme)) : List TextDe.RTok := items.map (fun x => toRTok x.2.tok)

theorem itemToks_append (a b : List (Bytes × TextReader.Lexeme)) : itemToks (a ++ b) = itemToks a ++ itemToks b := by
  simp [itemToks]

theorem itemToks_cons (g : Bytes) (lx : TextReader.Lexeme) (rest : List (Bytes × TextReader.Lexeme)) :
    itemToks ((g, lx) :: rest) = toRTok lx.tok :: itemToks rest := rfl
theorem itemToks_nil : itemToks [] = [] := rfl
theorem tokOpen : toRTok TextReader.Lexeme.open_.tok = .open_ := rfl
theorem tokClose : toRTok TextReader.Lexeme.close.tok = .close := rfl
theorem tokOp (o : TextTape.Op) : toRTok (TextReader.Lexeme.op (trOp o)).tok = .op (tOp o) := by
  simp [TextReader.Lexeme.tok, toRTok, rOp_trOp]
theorem scalTok' (s : Scal) : toRTok (TextReader.Lexeme.scalar s.quoted s.bytes).tok = (Leaf.mk s.bytes s.quoted).rtok := by
  unfold Leaf.rtok
  cases hq : s.quoted <;> simp [TextReader.Lexeme.tok, toRTok]
theorem keyTok' (k : Scal) (hk : k.quoted = false) :
    toRTok (TextReader.Lexeme.scalar k.quoted k.bytes).tok = TextDe.RTok.unq k.bytes := by
  simp [TextReader.Lexeme.tok, toRTok, hk]

mutual
theorem itemsV_agree : ∀ (v : JVal), SPlainV v → itemToks (TextReader.itemsV (toDV v)) = lexNode (toNode v)
  | .scal g s, _ => by
      simp only [toDV, TextReader.itemsV, toNode, lexNode, itemToks_cons, itemToks_nil, scalTok']
  | .empty g gc, _ => by
      simp only [toDV, TextReader.itemsV, TextReader.itemsM, toNode, lexNode, lexNodes, itemToks_cons, itemToks_nil,
        itemToks_append, tokOpen, tokClose, List.nil_append, List.cons_append]
  | .obj g g0 k g1 o v rest gc, h => by
      simp only [SPlainV] at h
      simp only [toDV, TextReader.itemsV, TextReader.itemsM, toNode, lexNode, TextDe.lexFields_plain, itemToks_cons, itemToks_nil,
        itemToks_append, tokOpen, tokClose, tokOp, keyTok' k h.1, itemsV_agree v h.2.2.1, itemsM_agree rest h.2.2.2,
        List.cons_append, List.append_assoc]
  | .arrS g g0 s0 rest gc, h => by
      simp only [SPlainV] at h
      simp only [toDV, TextReader.itemsV, TextReader.itemsM, toNode, lexNode, lexNodes, itemToks_cons, itemToks_nil,
        itemToks_append, tokOpen, tokClose, scalTok', itemsMs_agree rest h.2, List.cons_append, List.nil_append,
        List.append_assoc]
  | .arrC g first rest gc, h => by
      simp only [SPlainV] at h
      simp only [toDV, TextReader.itemsV, TextReader.itemsM, toNode, lexNode, lexNodes, itemToks_cons, itemToks_nil,
        itemToks_append, tokOpen, tokClose, itemsV_agree first h.1, itemsMs_agree rest h.2, List.cons_append,
        List.append_assoc]
  | .ghostIn .., h => by simp [SPlainV] at h
  | .mixed .., h => by simp [SPlainV] at h
theorem itemsM_agree : ∀ (fs : JFields), SPlainF fs → itemToks (TextReader.itemsM (toDM fs)) = lexFields (toFields fs)
  | .nil, _ => by simp only [toDM, TextReader.itemsM, toFields, lexFields, itemToks_nil]
  | .cons g0 k g1 o v rest, h => by
      simp only [SPlainF] at h
      simp only [toDM, TextReader.itemsM, toFields, TextDe.lexFields_plain, itemToks_cons, itemToks_append, tokOp, keyTok' k h.1,
        itemsV_agree v h.2.2.1, itemsM_agree rest h.2.2.2]
  | .consHdr g0 k g1 o gh hd body rest, h => by
      simp only [SPlainF] at h
      simp only [toDM, TextReader.itemsM, TextReader.itemsV, toFields, TextDe.lexFields_plain, lexNode, itemToks_cons, itemToks_nil,
        itemToks_append, tokOp, keyTok' k h.1, keyTok' hd h.2.2.1, itemsV_agree body h.2.2.2.2.1,
        itemsM_agree rest h.2.2.2.2.2, List.cons_append, List.nil_append, List.append_assoc]
  | .consImp .., h => by simp [SPlainF] at h
  | .ghost .., h => by simp [SPlainF] at h
  | .paramVal .., h => by simp [SPlainF] at h
  | .paramObj .., h => by simp [SPlainF] at h
theorem itemsMs_agree : ∀ (vs : JVals), SPlainVs vs → itemToks (TextReader.itemsM (toDMs vs)) = lexNodes (toNodes vs)
  | .nil, _ => by simp only [toDMs, TextReader.itemsM, toNodes, lexNodes, itemToks_nil]
  | .cons v rest, h => by
      simp only [SPlainVs] at h
      simp only [toDMs, TextReader.itemsM, toNodes, lexNodes, itemToks_append, itemsV_agree v h.1, itemsMs_agree rest h.2]
end

/-! ### a valid C01 layout of the sub-fragment is a valid reader-safe C07 layout -/

theorem gap_of_blank {g : Bytes} (h : Blank g) : TextReader.Gap g := by
  induction h with
  | nil => exact .nil
  | ws c w hc _ ih => exact .ws c w (by rw [← isBlank_eq]; exact hc) ih
  | comment body w hb _ ih => exact .comment body w (fun c hc => by simpa using hb c hc) ih

theorem blank_head {g : Bytes} (h : Blank g) : ∀ c r, g = c :: r → c ≠ 61 := by
  intro c r hg
  cases h with
  | nil => cases hg
  | ws c' w hc _ =>
    simp only [List.cons.injEq] at hg
    obtain ⟨rfl, _⟩ := hg
    intro h61; subst h61
    exact absurd hc (by decide +kernel)
  | comment body w _ _ =>
    simp only [List.cons.injEq] at hg
    obtain ⟨rfl, _⟩ := hg
    decide

theorem sb_of (x : Bytes) (h : TextTape.StartsBoundary x) : TextReader.StartsBoundary x := by
  rcases h with h | ⟨c, r, h1, h2⟩
  · exact Or.inl h
  · exact Or.inr ⟨c, r, h1, by rw [← isBoundary_eq]; exact h2⟩

theorem sb_append (a b : Bytes) (ha : a ≠ []) (h : TextTape.StartsBoundary a) : TextReader.StartsBoundary (a ++ b) := by
  rcases h with h | ⟨c, r, h1, h2⟩
  · exact absurd h ha
  · exact Or.inr ⟨c, r ++ b, by simp [h1], by rw [← isBoundary_eq]; exact h2⟩

theorem opText_ne (o : TextTape.Op) : o.text ≠ [] := by cases o <;> simp [TextTape.Op.text]

/-- a reader-safe scalar lexes back to itself in front of `after` -/
theorem scalValid (s : Scal) (after : Bytes) (hs : SafeScal s) (ha : s.quoted = false → TextReader.StartsBoundary after) :
    (TextReader.Lexeme.scalar s.quoted s.bytes).Valid after := by
  obtain ⟨hv, h63⟩ := hs
  unfold Scal.Valid at hv
  cases hq : s.quoted with
  | true =>
    simp only [hq, ↓reduceIte] at hv
    simp only [TextReader.Lexeme.Valid]
    rw [quote_eq _ _ 0 (Nat.le_refl _), hv]; simp
  | false =>
    simp only [hq, Bool.false_eq_true, ↓reduceIte] at hv
    obtain ⟨hall, c, r, hb, hbl, h34, h64⟩ := hv
    simp only [TextReader.Lexeme.Valid]
    refine ⟨fun c hc => by rw [← isBoundary_eq]; exact hall c hc, ⟨c, r, hb, ?_, by simpa using h34, by simpa using h64,
      by simpa using h63 hq c r hb⟩, ha hq⟩
    rw [isBlank_eq] at hbl
    simp only [TextReader.isBlank, Bool.or_eq_false_iff] at hbl
    exact hbl.2

theorem opValid (o : TextTape.Op) (after : Bytes) (h : ∃ c r, after = c :: r ∧ c ≠ 61) :
    (TextReader.Lexeme.op (trOp o)).Valid after := by
  obtain ⟨c, r, h1, h2⟩ := h
  simp only [TextReader.Lexeme.Valid]
  intro _
  exact ⟨c, r, h1, by simpa using h2⟩

/-- the text of a reader-safe scalar does not begin with `=` -/
theorem scal_head (s : Scal) (hs : SafeScal s) (x : Bytes) : ∃ c r, s.text ++ x = c :: r ∧ c ≠ 61 := by
  obtain ⟨hv, _⟩ := hs
  unfold Scal.Valid at hv
  unfold Scal.text
  cases hq : s.quoted with
  | true => exact ⟨34, _, by simp only [hq, ↓reduceIte, List.cons_append]; rfl, by decide⟩
  | false =>
    simp only [hq, Bool.false_eq_true, ↓reduceIte] at hv ⊢
    obtain ⟨hall, c, r, hb, _, _, _⟩ := hv
    refine ⟨c, r ++ x, by simp [hb], ?_⟩
    intro h61; subst h61
    have := hall 61 (by simp [hb])
    exact absurd this (by decide +kernel)

theorem gapped_head (g : Bytes) (hg : Blank g) (y : Bytes) (hy : ∃ c r, y = c :: r ∧ c ≠ 61) :
    ∃ c r, g ++ y = c :: r ∧ c ≠ 61 := by
  cases g with
  | nil => simpa using hy
  | cons c w => exact ⟨c, w ++ y, by simp, blank_head hg c w rfl⟩

/-- what a value renders to does not begin with `=` (so an operator in front of it is read whole) -/
theorem value_head (v : JVal) (after : Bytes) (hp : SPlainV v) (hv : JValidV v after) (x : Bytes) :
    ∃ c r, jrenderV v ++ x = c :: r ∧ c ≠ 61 := by
  cases v with
  | scal g s =>
    simp only [SPlainV] at hp; simp only [JValidV] at hv
    simp only [jrenderV, List.append_assoc]
    exact gapped_head g hv.1 _ (scal_head s hp x)
  | empty g gc =>
    simp only [JValidV] at hv
    simp only [jrenderV, List.append_assoc, List.cons_append]
    exact gapped_head g hv.1 _ ⟨123, _, rfl, by decide⟩
  | obj g g0 k g1 o v' rest gc =>
    simp only [JValidV] at hv
    simp only [jrenderV, List.append_assoc, List.cons_append]
    exact gapped_head g hv.1 _ ⟨123, _, rfl, by decide⟩
  | arrS g g0 s0 rest gc =>
    simp only [JValidV] at hv
    simp only [jrenderV, List.append_assoc, List.cons_append]
    exact gapped_head g hv.1 _ ⟨123, _, rfl, by decide⟩
  | arrC g first rest gc =>
    simp only [JValidV] at hv
    simp only [jrenderV, List.append_assoc, List.cons_append]
    exact gapped_head g hv.1 _ ⟨123, _, rfl, by decide⟩
  | ghostIn g b1 b2 v' => simp [SPlainV] at hp
  | mixed g g0 k g1 o v' rest gm m0 elems gc => simp [SPlainV] at hp

mutual
theorem validV_agree : ∀ (v : JVal) (after : Bytes), SPlainV v → JValidV v after → TextReader.ValidV (toDV v) after
  | .scal g s, after, hp, hv => by
      simp only [SPlainV] at hp; simp only [JValidV] at hv
      simp only [toDV, TextReader.ValidV]
      exact ⟨gap_of_blank hv.1, scalValid s after hp (fun hq => sb_of _ (hv.2.2 hq))⟩
  | .empty g gc, after, _, hv => by
      simp only [JValidV] at hv
      simp only [toDV, TextReader.ValidV, TextReader.ValidM]
      exact ⟨gap_of_blank hv.1, gap_of_blank hv.2, trivial⟩
  | .obj g g0 k g1 o v rest gc, after, hp, hv => by
      simp only [SPlainV] at hp; simp only [JValidV] at hv
      obtain ⟨hg, hg0, hg1, hgc, _, hkb, hvv, hvr⟩ := hv
      simp only [toDV, TextReader.ValidV, TextReader.ValidM, renderV_agree v hp.2.2.1, renderM_agree rest hp.2.2.2,
        opText_trOp]
      refine ⟨gap_of_blank hg, gap_of_blank hgc, gap_of_blank hg0, gap_of_blank hg1, ?_, ?_, ?_, ?_⟩
      · refine scalValid k _ hp.2.1 (fun hq => ?_)
        have := sb_append (g1 ++ o.text) (jrenderV v ++ (jrenderF rest ++ (gc ++ 125 :: after)))
          (by simp [opText_ne]) (hkb hq)
        simpa [List.append_assoc] using this
      · exact opValid o _ (value_head v _ hp.2.2.1 hvv _)
      · exact validV_agree v _ hp.2.2.1 hvv
      · exact validM_agree rest _ hp.2.2.2 hvr
  | .arrS g g0 s0 rest gc, after, hp, hv => by
      simp only [SPlainV] at hp; simp only [JValidV] at hv
      obtain ⟨hg, hg0, hgc, _, hsb, _, hvr⟩ := hv
      simp only [toDV, TextReader.ValidV, TextReader.ValidM, renderMs_agree rest hp.2]
      exact ⟨gap_of_blank hg, gap_of_blank hgc, ⟨gap_of_blank hg0, scalValid s0 _ hp.1 (fun hq => sb_of _ (hsb hq))⟩,
        validMs_agree rest _ hp.2 hvr⟩
  | .arrC g first rest gc, after, hp, hv => by
      simp only [SPlainV] at hp; simp only [JValidV] at hv
      obtain ⟨hg, hgc, _, hvf, hvr⟩ := hv
      simp only [toDV, TextReader.ValidV, TextReader.ValidM, renderMs_agree rest hp.2]
      exact ⟨gap_of_blank hg, gap_of_blank hgc, validV_agree first _ hp.1 hvf, validMs_agree rest _ hp.2 hvr⟩
  | .ghostIn .., _, hp, _ => by simp [SPlainV] at hp
  | .mixed .., _, hp, _ => by simp [SPlainV] at hp
theorem validM_agree : ∀ (fs : JFields) (after : Bytes), SPlainF fs → JValidF fs after → TextReader.ValidM (toDM fs) after
  | .nil, _, _, _ => by simp [toDM, TextReader.ValidM]
  | .cons g0 k g1 o v rest, after, hp, hv => by
      simp only [SPlainF] at hp; simp only [JValidF] at hv
      obtain ⟨hg0, hg1, _, hkb, hvv, hvr⟩ := hv
      simp only [toDM, TextReader.ValidM, renderV_agree v hp.2.2.1, renderM_agree rest hp.2.2.2, opText_trOp]
      refine ⟨gap_of_blank hg0, gap_of_blank hg1, ?_, ?_, ?_, ?_⟩
      · refine scalValid k _ hp.2.1 (fun hq => ?_)
        have := sb_append (g1 ++ o.text) (jrenderV v ++ (jrenderF rest ++ after)) (by simp [opText_ne]) (hkb hq)
        simpa [List.append_assoc] using this
      · exact opValid o _ (value_head v _ hp.2.2.1 hvv _)
      · exact validV_agree v _ hp.2.2.1 hvv
      · exact validM_agree rest _ hp.2.2.2 hvr
  | .consHdr g0 k g1 o gh hd body rest, after, hp, hv => by
      simp only [SPlainF] at hp; simp only [JValidF] at hv
      obtain ⟨hg0, hg1, hgh, _, hkb, _, _, hsb, _, hvb, hvr⟩ := hv
      simp only [toDM, TextReader.ValidM, TextReader.ValidV, TextReader.renderV, TextReader.renderM, scalText,
        renderV_agree body hp.2.2.2.2.1, renderM_agree rest hp.2.2.2.2.2, opText_trOp, List.append_assoc]
      refine ⟨gap_of_blank hg0, gap_of_blank hg1, ?_, ?_, ⟨gap_of_blank hgh, ?_⟩, ?_, ?_⟩
      · refine scalValid k _ hp.2.1 (fun hq => ?_)
        have := sb_append (g1 ++ o.text) (gh ++ (hd.text ++ (jrenderV body ++ (jrenderF rest ++ after))))
          (by simp [opText_ne]) (hkb hq)
        simpa [List.append_assoc] using this
      · exact opValid o _ (gapped_head gh hgh _ (scal_head hd hp.2.2.2.1 _))
      · exact scalValid hd _ hp.2.2.2.1 (fun _ => sb_of _ hsb)
      · exact validV_agree body _ hp.2.2.2.2.1 hvb
      · exact validM_agree rest _ hp.2.2.2.2.2 hvr
  | .consImp .., _, hp, _ => by simp [SPlainF] at hp
  | .ghost .., _, hp, _ => by simp [SPlainF] at hp
  | .paramVal .., _, hp, _ => by simp [SPlainF] at hp
  | .paramObj .., _, hp, _ => by simp [SPlainF] at hp
theorem validMs_agree : ∀ (vs : JVals) (after : Bytes), SPlainVs vs → JValidVs vs after → TextReader.ValidM (toDMs vs) after
  | .nil, _, _, _ => by simp [toDMs, TextReader.ValidM]
  | .cons v rest, after, hp, hv => by
      simp only [SPlainVs] at hp; simp only [JValidVs] at hv
      simp only [toDMs, TextReader.ValidM, renderMs_agree rest hp.2]
      exact ⟨validV_agree v _ hp.1 hv.1, validMs_agree rest _ hp.2 hv.2⟩
end

/-! ### (3) unconditional: from bytes to value on the stream path -/

theorem no_bom_clash (d : Bytes) (hb : hasBom d = false) : ¬∃ r', d = 0xef :: 0xbb :: 0xbf :: r' := by
  rintro ⟨r', rfl⟩
  simp [hasBom] at hb

/-- the slice reader model is faithful on every valid layout of the stream sub-fragment (C07_slice_faithful
through the structural map `toDM`) -/
theorem sliceLex_faithful (fs : JFields) (gt : Bytes) (hgt : Blank gt) (hv : JValidF fs gt)
    (hb : hasBom (jrenderF fs ++ gt) = false) (hp : SPlainF fs) : SliceLexFaithful fs gt := by
  have hr := renderM_agree fs hp
  obtain ⟨h1, h2, _⟩ := TextReader.slice_faithful (toDM fs) gt false (validM_agree fs gt hp hv)
    (.gap gt (gap_of_blank hgt)) (fun _ => by rw [hr]; exact no_bom_clash _ hb)
  simp only [TextReader.bomBytes, Bool.false_eq_true, ↓reduceIte, List.nil_append, hr] at h1 h2
  refine ⟨h2, ?_⟩
  rw [h1, List.map_map]
  exact itemsM_agree fs hp

/-- (FRAGMENT VERSION on the stream sub-fragment `SPlainF`; kept because the C10 bridge builds on it; superseded by
`C02_stream_end_to_end_full`.)
C02 end to end, stream path: for every document of the stream sub-fragment (`SPlainF`: scalars that are
reader-safe -- no `@variable`, no leading `?` --, objects with unquoted keys and every operator, arrays,
empty containers, header values; no ghost `{}`, no implicit `=`), every valid layout of it, both encodings
and every root target type that requests the document's shape, the tokens the slice reader model produces
from the BYTES deserialize to the value of the layout-free document. -/
theorem C02_stream_end_to_end (enc : TextDe.Enc) (ty : TextDe.Ty) (fs : JFields) (gt : Bytes)
    (hgt : Blank gt) (hv : JValidF fs gt) (hb : hasBom (jrenderF fs ++ gt) = false) (hp : SPlainF fs)
    (hroot : Ty.isRoot ty = true) (hfit : Fits enc ty (.obj (toDoc fs))) :
    (TextReader.sliceTokens (jrenderF fs ++ gt)).out = .end_ ∧
    TextDe.deStream enc ty ((TextReader.sliceTokens (jrenderF fs ++ gt)).toks.map toRTok) = valueOf enc ty (toDoc fs) :=
  ⟨(sliceLex_faithful fs gt hgt hv hb hp).1,
   C02_stream_end_to_end_partial enc ty fs gt hv (splain_plainF fs hp) (sliceLex_faithful fs gt hgt hv hb hp) hroot hfit⟩

/-- (FRAGMENT VERSION on `SPlainF`: unquoted keys, no ghost `{}`, no implicit `=`, no variables; kept because the C10
bridge builds on it; superseded by `C02_paths_end_to_end_full`.)
C02 end to end, both paths from the same BYTES: tape path = stream path = the document's value, for
every valid layout. -/
theorem C02_paths_end_to_end (enc : TextDe.Enc) (ty : TextDe.Ty) (fs : JFields) (gt : Bytes)
    (hgt : Blank gt) (hv : JValidF fs gt) (hb : hasBom (jrenderF fs ++ gt) = false) (hp : SPlainF fs)
    (hroot : Ty.isRoot ty = true) (hfit : FitsT enc false ty (.obj (toDoc fs))) :
    ∃ T b, TextTape.parse (jrenderF fs ++ gt) = .ok T b ∧
      TextDe.deTape enc ty (toTextDeTape T) = valueOf enc ty (toDoc fs) ∧
      TextDe.deStream enc ty ((TextReader.sliceTokens (jrenderF fs ++ gt)).toks.map toRTok) = valueOf enc ty (toDoc fs) := by
  obtain ⟨T, b, h1, h2⟩ := C02_tape_end_to_end enc ty fs gt hgt hv hb (splain_plainF fs hp) hroot hfit
  exact ⟨T, b, h1, h2, (C02_stream_end_to_end enc ty fs gt hgt hv hb hp hroot (TextDe.fitsT_fits enc hfit)).2⟩

/-- (FRAGMENT VERSION on `SPlainF`; superseded by `C02_error_agreement_end_to_end_full`.)
C02 end to end, EVERY root target type (errors included): from the same BYTES the tape path and
the stream path return the same result -- the same value or the same error class, namely
`valueOf` -- unless the (type, document) pair contains one of the combinations listed in `Bad`
(each of which has a concrete diverging witness: `C02_divergent_witnesses`). -/
theorem C02_error_agreement_end_to_end (enc : TextDe.Enc) (ty : TextDe.Ty) (fs : JFields) (gt : Bytes)
    (hgt : Blank gt) (hv : JValidF fs gt) (hb : hasBom (jrenderF fs ++ gt) = false) (hp : SPlainF fs)
    (hroot : Ty.isRoot ty = true) :
    (∃ T b, TextTape.parse (jrenderF fs ++ gt) = .ok T b ∧
      TextDe.deTape enc ty (toTextDeTape T) = valueOf enc ty (toDoc fs) ∧
      TextDe.deStream enc ty ((TextReader.sliceTokens (jrenderF fs ++ gt)).toks.map toRTok) = valueOf enc ty (toDoc fs)) ∨
    Bad enc false ty (.obj (toDoc fs)) := by
  rcases TextDe.fitsT_or_bad enc (ty.height + 1) ty false (.obj (toDoc fs)) (Nat.lt_succ_self _) with h | h
  · exact Or.inl (C02_paths_end_to_end enc ty fs gt hgt hv hb hp hroot h)
  · exact Or.inr h

/-- (FRAGMENT VERSION on `SPlainF`; superseded by `C02_stream_end_to_end_scheduled_full`.)
C02 end to end, streaming reader: the same for every fault-free read schedule and every buffer
capacity that fits (`need ≤ cap`), via C07_stream_faithful. -/
theorem C02_stream_end_to_end_scheduled (enc : TextDe.Enc) (ty : TextDe.Ty) (fs : JFields) (gt : Bytes)
    (cap : Nat) (sched : List TextReader.Step)
    (hgt : Blank gt) (hv : JValidF fs gt) (hb : hasBom (jrenderF fs ++ gt) = false) (hp : SPlainF fs)
    (hw : TextReader.WfSched sched) (hnf : TextReader.NoFaults sched)
    (hcap : TextReader.Spec.need (jrenderF fs ++ gt) ≤ cap)
    (hroot : Ty.isRoot ty = true) (hfit : Fits enc ty (.obj (toDoc fs))) :
    (TextReader.streamTokens cap sched (jrenderF fs ++ gt)).out = .end_ ∧
    TextDe.deStream enc ty ((TextReader.streamTokens cap sched (jrenderF fs ++ gt)).toks.map toRTok)
      = valueOf enc ty (toDoc fs) := by
  obtain ⟨e1, e2, _⟩ := Jomini.Props.C07.C07_stream_eq_slice_fits (jrenderF fs ++ gt) cap sched hw hnf hcap
  obtain ⟨s1, s2⟩ := C02_stream_end_to_end enc ty fs gt hgt hv hb hp hroot hfit
  exact ⟨e2.trans s1, by rw [e1]; exact s2⟩

/-- the stream sub-fragment is inhabited by C01's example document -/
example : SPlainF exampleTree := by
  have u : ∀ c : UInt8, TextTape.isBoundary c = false → TextTape.isBlank c = false → c ≠ 34 → c ≠ 64 → c ≠ 63 →
      SafeScal (Scal.mk false [c]) := by
    intro c h1 h2 h3 h4 h5
    refine ⟨unq_valid c h1 h2 h3 h4, ?_⟩
    intro _ c' r hc
    simp only [List.cons.injEq] at hc
    rw [← hc.1]; exact h5
  simp only [exampleTree, SPlainF, SPlainV, SPlainVs, and_true, true_and]
  exact ⟨u 97 (by decide +kernel) (by decide +kernel) (by decide) (by decide) (by decide),
    ⟨u 49 (by decide +kernel) (by decide +kernel) (by decide) (by decide) (by decide),
      ⟨u 98 (by decide +kernel) (by decide +kernel) (by decide) (by decide) (by decide),
        u 99 (by decide +kernel) (by decide +kernel) (by decide) (by decide) (by decide)⟩⟩,
    u 100 (by decide +kernel) (by decide +kernel) (by decide) (by decide) (by decide),
    u 120 (by decide +kernel) (by decide +kernel) (by decide) (by decide) (by decide)⟩

end Jomini.TextE2E
