import JominiModel.Model.TextTape
import JominiModel.Spec.TextTape
import JominiModel.Proofs.TextTapeFaithful3
import JominiModel.Model.TextDe
import JominiModel.Spec.TextDoc
import JominiModel.Proofs.TextDeTapeNested
import JominiModel.Model.TextReader
/-
C02 end to end at the model level, from BYTES to VALUE: the text tape parser model (`TextTape.parse`,
slice C01) composed with the tape deserializer model (`TextDe.deTape`, this slice).

The C01 document type `JFields` carries its layout (the blanks between the lexemes); `toFields`
forgets the layout and yields the C02 document.  For every valid layout the parser's tape, with the
positions dropped, is `tapeOf` of that document; hence the deserialized value is `valueOf` of the
document, whatever the layout.
Sub-fragment both sides express (`PlainF`): scalars, objects with unquoted keys and every operator,
the optional `=` before `{`, arrays, empty containers, header values, ghost `{}` (they leave no trace
on the tape); no mixed containers, no parameter blocks.
-/
namespace Jomini.TextE2E
open Jomini Jomini.TextTape Jomini.TextDoc

def tOp : TextTape.Op → TextDe.Op
  | .lt => .lt | .le => .le | .gt => .gt | .ge => .ge | .ne => .ne | .exact => .exact | .eq => .eq | .exists_ => .exst

/-- a tape token without its position -/
def toTTok : TextTape.Tok → TextDe.TTok
  | .array e m => .arr e m
  | .object e m => .obj e m
  | .mixedContainer => .mixedC
  | .unquoted s => .unq s.bytes
  | .quoted s => .quo s.bytes
  | .parameter s => .param s.bytes
  | .undefParameter s => .undef s.bytes
  | .operator o => .op (tOp o)
  | .endTok i => .end_ i
  | .header s => .hdr s.bytes

def toTextDeTape (T : List TextTape.Tok) : List TextDe.TTok := T.map toTTok

mutual
/-- forget the layout of a value -/
def toNode : JVal → Node
  | .scal _ s => .leaf ⟨s.bytes, s.quoted⟩
  | .empty _ _ => .arr []
  | .obj _ _ k _ o v rest _ => .obj ((k.bytes, tOp o, toNode v) :: toFields rest)
  | .arrS _ _ s0 rest _ => .arr (.leaf ⟨s0.bytes, s0.quoted⟩ :: toNodes rest)
  | .arrC _ first rest _ => .arr (toNode first :: toNodes rest)
  | .ghostIn _ _ _ v => toNode v
  | .mixed .. => .arr []
def toFields : JFields → List (Bytes × TextDe.Op × Node)
  | .nil => []
  | .cons _ k _ o v rest => (k.bytes, tOp o, toNode v) :: toFields rest
  | .consImp _ k v rest => (k.bytes, .eq, toNode v) :: toFields rest
  | .ghost _ _ rest => toFields rest
  | .consHdr _ k _ o _ h body rest => (k.bytes, tOp o, .hdr h.bytes (toNode body)) :: toFields rest
  | .paramVal _ _ _ _ _ _ rest => toFields rest
  | .paramObj _ _ _ _ _ _ _ _ _ _ rest => toFields rest
def toNodes : JVals → List Node
  | .nil => []
  | .cons v rest => toNode v :: toNodes rest
end

/-- the C02 document of a C01 document -/
def toDoc (fs : JFields) : Doc := toFields fs

mutual
/-- the sub-fragment both document models express -/
def PlainV : JVal → Prop
  | .scal _ _ => True
  | .empty _ _ => True
  | .obj _ _ k _ _ v rest _ => k.quoted = false ∧ PlainV v ∧ PlainF rest
  | .arrS _ _ _ rest _ => PlainVs rest
  | .arrC _ first rest _ => PlainV first ∧ PlainVs rest
  | .ghostIn _ _ _ v => PlainV v
  | .mixed .. => False
def PlainF : JFields → Prop
  | .nil => True
  | .cons _ k _ _ v rest => k.quoted = false ∧ PlainV v ∧ PlainF rest
  | .consImp _ k v rest => k.quoted = false ∧ PlainV v ∧ PlainF rest
  | .ghost _ _ rest => PlainF rest
  | .consHdr _ k _ _ _ h body rest => k.quoted = false ∧ h.quoted = false ∧ PlainV body ∧ PlainF rest
  | .paramVal .. => False
  | .paramObj .. => False
def PlainVs : JVals → Prop
  | .nil => True
  | .cons v rest => PlainV v ∧ PlainVs rest
end

theorem opToks_agree (o : TextTape.Op) : o.toks.map toTTok = TextDe.opToks (tOp o) := by
  cases o <;> simp [TextTape.Op.toks, TextDe.opToks, tOp, toTTok]

theorem opToks_len (o : TextTape.Op) : (TextDe.opToks (tOp o)).length = o.toks.length := by
  rw [← opToks_agree]; simp

theorem scalTok_agree (s : Scal) (after : Bytes) : toTTok (s.tok after) = (Leaf.mk s.bytes s.quoted).ttok := by
  unfold Scal.tok Leaf.ttok
  cases s.quoted <;> simp [toTTok]

theorem keyTok_agree (k : Scal) (after : Bytes) (hk : k.quoted = false) : toTTok (k.tok after) = .unq k.bytes := by
  unfold Scal.tok; simp [hk, toTTok]

theorem toNode_notHdr : ∀ (v : JVal), (toNode v).isHdr = false
  | .scal _ _ => rfl
  | .empty _ _ => rfl
  | .obj .. => rfl
  | .arrS .. => rfl
  | .arrC .. => rfl
  | .ghostIn _ _ _ v => by simp only [toNode]; exact toNode_notHdr v
  | .mixed .. => rfl

mutual
theorem cntV_agree : ∀ (v : JVal), PlainV v → TextDe.tsize (toNode v) = jcntV v
  | .scal _ _, _ => by simp [toNode, TextDe.tsize, jcntV]
  | .empty _ _, _ => by simp [toNode, TextDe.tsize, TextDe.nodesTsize, jcntV]
  | .obj _ _ k _ o v rest _, h => by
      simp only [PlainV] at h
      simp only [toNode, TextDe.tsize, TextDe.fieldsTsize, jcntV, cntV_agree v h.2.1, cntF_agree rest h.2.2, opToks_len]
      omega
  | .arrS _ _ s0 rest _, h => by
      simp only [PlainV] at h
      simp only [toNode, TextDe.tsize, TextDe.nodesTsize, jcntV, cntVs_agree rest h]
      omega
  | .arrC _ first rest _, h => by
      simp only [PlainV] at h
      simp only [toNode, TextDe.tsize, TextDe.nodesTsize, jcntV, cntV_agree first h.1, cntVs_agree rest h.2]
      omega
  | .ghostIn _ _ _ v, h => by
      simp only [PlainV] at h
      simp only [toNode, jcntV, cntV_agree v h]
  | .mixed .., h => by simp [PlainV] at h
theorem cntF_agree : ∀ (fs : JFields), PlainF fs → TextDe.fieldsTsize (toFields fs) = jcntF fs
  | .nil, _ => by simp [toFields, TextDe.fieldsTsize, jcntF]
  | .cons _ k _ o v rest, h => by
      simp only [PlainF] at h
      simp only [toFields, TextDe.fieldsTsize, jcntF, cntV_agree v h.2.1, cntF_agree rest h.2.2, opToks_len]
  | .consImp _ k v rest, h => by
      simp only [PlainF] at h
      simp only [toFields, TextDe.fieldsTsize, jcntF, cntV_agree v h.2.1, cntF_agree rest h.2.2, TextDe.opToks]
      simp
  | .ghost _ _ rest, h => by
      simp only [PlainF] at h
      simp only [toFields, jcntF, cntF_agree rest h]
  | .consHdr _ k _ o _ hd body rest, h => by
      simp only [PlainF] at h
      simp only [toFields, TextDe.fieldsTsize, TextDe.tsize, jcntF, cntV_agree body h.2.2.1, cntF_agree rest h.2.2.2, opToks_len]
      omega
  | .paramVal .., h => by simp [PlainF] at h
  | .paramObj .., h => by simp [PlainF] at h
theorem cntVs_agree : ∀ (vs : JVals), PlainVs vs → TextDe.nodesTsize (toNodes vs) = jcntVs vs
  | .nil, _ => by simp [toNodes, TextDe.nodesTsize, jcntVs]
  | .cons v rest, h => by
      simp only [PlainVs] at h
      simp only [toNodes, TextDe.nodesTsize, jcntVs, cntV_agree v h.1, cntVs_agree rest h.2]
end

@[simp] theorem toTTok_object (e : Nat) (m : Bool) : toTTok (.object e m) = .obj e m := rfl
@[simp] theorem toTTok_array (e : Nat) (m : Bool) : toTTok (.array e m) = .arr e m := rfl
@[simp] theorem toTTok_end (i : Nat) : toTTok (.endTok i) = .end_ i := rfl
@[simp] theorem toTTok_header (s : Slice) : toTTok (.header s) = .hdr s.bytes := rfl

theorem tapeNode_obj (base : Nat) (f : Bytes × TextDe.Op × Node) (fs : List (Bytes × TextDe.Op × Node)) :
    tapeNode base (.obj (f :: fs)) =
      .obj (base + 1 + TextDe.fieldsTsize (f :: fs)) false :: (tapeFields (base + 1) (f :: fs) ++ [.end_ base]) := by
  simp only [tapeNode, TextDe.tapeFields_len, List.cons_append]

theorem tapeNode_arr (base : Nat) (vs : List Node) :
    tapeNode base (.arr vs) = .arr (base + 1 + TextDe.nodesTsize vs) false :: (tapeNodes (base + 1) vs ++ [.end_ base]) := by
  simp only [tapeNode, TextDe.tapeNodes_len, List.cons_append]

theorem tapeNodes_cons' (s : Nat) (v : JVal) (r : List Node) :
    tapeNodes s (toNode v :: r) = tapeNode s (toNode v) ++ tapeNodes (s + TextDe.tsize (toNode v)) r :=
  TextDe.tapeNodes_cons s (toNode v) r (toNode_notHdr v)

theorem tapeNodes_leaf (s : Nat) (l : Leaf) (r : List Node) :
    tapeNodes s (.leaf l :: r) = l.ttok :: tapeNodes (s + 1) r := by
  simp [tapeNodes, tapeNode]

mutual
/-- the two specs agree on values: the C01 tape of a value, positions dropped, is the C02 tape of the
value without its layout -/
theorem tapeV_agree : ∀ (v : JVal) (base : Nat) (after : Bytes), PlainV v →
    (jtapeV v base after).map toTTok = tapeNode base (toNode v)
  | .scal _ s, base, after, _ => by simp [jtapeV, toNode, tapeNode, scalTok_agree]
  | .empty _ _, base, after, _ => by simp [jtapeV, toNode, tapeNode_arr, tapeNodes, TextDe.nodesTsize]
  | .obj _ _ k g1 o v rest gc, base, after, h => by
      simp only [PlainV] at h
      have hv := tapeV_agree v (base + 1 + 1 + o.toks.length) (jrenderF rest ++ (gc ++ 125 :: after)) h.2.1
      have hr := tapeF_agree rest (base + 1 + (1 + o.toks.length + jcntV v)) (gc ++ 125 :: after) h.2.2
      have hcv := cntV_agree v h.2.1
      have hcf := cntF_agree rest h.2.2
      have hol := opToks_len o
      have e1 : base + 1 + TextDe.fieldsTsize ((k.bytes, tOp o, toNode v) :: toFields rest)
          = base + 1 + (1 + o.toks.length + jcntV v) + jcntF rest := by
        simp only [TextDe.fieldsTsize, hcv, hcf, hol]; omega
      have e2 : base + 1 + 1 + (TextDe.opToks (tOp o)).length + TextDe.tsize (toNode v)
          = base + 1 + (1 + o.toks.length + jcntV v) := by rw [hcv, hol]; omega
      simp only [jtapeV, toNode, tapeNode_obj, TextDe.tapeFields_cons, e1, e2, hol,
        List.map_append, List.map_cons, List.map_nil, toTTok_object, toTTok_end, keyTok_agree _ _ h.1, opToks_agree,
        hv, hr, List.cons_append, List.nil_append, List.append_assoc]
      rw [hcv, show base + 1 + 1 + o.toks.length + jcntV v = base + 1 + (1 + o.toks.length + jcntV v) by omega]
  | .arrS _ _ s0 rest gc, base, after, h => by
      simp only [PlainV] at h
      have hr := tapeVs_agree rest (base + 1 + 1) (gc ++ 125 :: after) h
      have hc := cntVs_agree rest h
      have e1 : base + 1 + TextDe.nodesTsize (Node.leaf ⟨s0.bytes, s0.quoted⟩ :: toNodes rest) = base + 1 + 1 + jcntVs rest := by
        simp only [TextDe.nodesTsize, TextDe.tsize, hc]; omega
      simp only [jtapeV, toNode, tapeNode_arr, tapeNodes_leaf, e1,
        List.map_append, List.map_cons, List.map_nil, toTTok_array, toTTok_end, scalTok_agree, hr,
        List.cons_append, List.nil_append, List.append_assoc]
  | .arrC _ first rest gc, base, after, h => by
      simp only [PlainV] at h
      have hf := tapeV_agree first (base + 1) (jrenderVs rest ++ (gc ++ 125 :: after)) h.1
      have hr := tapeVs_agree rest (base + 1 + jcntV first) (gc ++ 125 :: after) h.2
      have hcv := cntV_agree first h.1
      have hc := cntVs_agree rest h.2
      have e1 : base + 1 + TextDe.nodesTsize (toNode first :: toNodes rest) = base + 1 + jcntV first + jcntVs rest := by
        simp only [TextDe.nodesTsize, hcv, hc]; omega
      simp only [jtapeV, toNode, tapeNode_arr, tapeNodes_cons', e1, hcv,
        List.map_append, List.map_cons, List.map_nil, toTTok_array, toTTok_end, hf, hr,
        List.cons_append, List.nil_append, List.append_assoc]
  | .ghostIn _ _ _ v, base, after, h => by
      simp only [PlainV] at h
      simp only [jtapeV, toNode]
      exact tapeV_agree v base after h
  | .mixed .., _, _, h => by simp [PlainV] at h
/-- … on field lists -/
theorem tapeF_agree : ∀ (fs : JFields) (base : Nat) (after : Bytes), PlainF fs →
    (jtapeF fs base after).map toTTok = tapeFields base (toFields fs)
  | .nil, base, after, _ => by simp [jtapeF, toFields, tapeFields]
  | .cons _ k g1 o v rest, base, after, h => by
      simp only [PlainF] at h
      have hv := tapeV_agree v (base + 1 + o.toks.length) (jrenderF rest ++ after) h.2.1
      have hr := tapeF_agree rest (base + (1 + o.toks.length + jcntV v)) after h.2.2
      have hcv := cntV_agree v h.2.1
      have hol := opToks_len o
      have e2 : base + 1 + (TextDe.opToks (tOp o)).length + TextDe.tsize (toNode v)
          = base + (1 + o.toks.length + jcntV v) := by rw [hcv, hol]; omega
      simp only [jtapeF, toFields, TextDe.tapeFields_cons, e2, hol, List.map_append, List.map_cons, List.map_nil,
        keyTok_agree _ _ h.1, opToks_agree, hv, hr, List.cons_append, List.nil_append, List.append_assoc]
      rw [hcv, show base + 1 + o.toks.length + jcntV v = base + (1 + o.toks.length + jcntV v) by omega]
  | .consImp _ k v rest, base, after, h => by
      simp only [PlainF] at h
      have hv := tapeV_agree v (base + 1) (jrenderF rest ++ after) h.2.1
      have hr := tapeF_agree rest (base + (1 + jcntV v)) after h.2.2
      have hcv := cntV_agree v h.2.1
      have e2 : base + 1 + (TextDe.opToks TextDe.Op.eq).length + TextDe.tsize (toNode v) = base + (1 + jcntV v) := by
        rw [hcv]; simp [TextDe.opToks]; omega
      have e3 : base + 1 + (TextDe.opToks TextDe.Op.eq).length = base + 1 := by simp [TextDe.opToks]
      simp only [jtapeF, toFields, TextDe.tapeFields_cons, e2, e3, List.map_append, List.map_cons, List.map_nil,
        keyTok_agree _ _ h.1, hv, hr, List.cons_append, List.nil_append, List.append_assoc]
      simp only [TextDe.opToks, List.nil_append, List.length_nil, Nat.add_zero, List.cons.injEq, List.append_cancel_left_eq, true_and]
      rw [hcv, show base + 1 + jcntV v = base + (1 + jcntV v) by omega]
  | .ghost _ _ rest, base, after, h => by
      simp only [PlainF] at h
      simp only [jtapeF, toFields]
      exact tapeF_agree rest base after h
  | .consHdr _ k g1 o gh hd body rest, base, after, h => by
      simp only [PlainF] at h
      have hv := tapeV_agree body (base + 1 + o.toks.length + 1) (jrenderF rest ++ after) h.2.2.1
      have hr := tapeF_agree rest (base + (1 + o.toks.length + (1 + jcntV body))) after h.2.2.2
      have hcv := cntV_agree body h.2.2.1
      have hol := opToks_len o
      have e2 : base + 1 + (TextDe.opToks (tOp o)).length + TextDe.tsize (Node.hdr hd.bytes (toNode body))
          = base + (1 + o.toks.length + (1 + jcntV body)) := by
        simp only [TextDe.tsize, hcv, hol]; omega
      simp only [jtapeF, toFields, TextDe.tapeFields_cons, tapeNode, e2, hol, List.map_append, List.map_cons,
        List.map_nil, toTTok_header, keyTok_agree _ _ h.1, opToks_agree, hv, hr, List.cons_append,
        List.nil_append, List.append_assoc]
      simp only [TextDe.tsize, hcv]
      rw [show base + 1 + o.toks.length + (jcntV body + 1) = base + (1 + o.toks.length + (1 + jcntV body)) by omega]
  | .paramVal .., _, _, h => by simp [PlainF] at h
  | .paramObj .., _, _, h => by simp [PlainF] at h
/-- … on value lists -/
theorem tapeVs_agree : ∀ (vs : JVals) (base : Nat) (after : Bytes), PlainVs vs →
    (jtapeVs vs base after).map toTTok = tapeNodes base (toNodes vs)
  | .nil, base, after, _ => by simp [jtapeVs, toNodes, tapeNodes]
  | .cons v rest, base, after, h => by
      simp only [PlainVs] at h
      have hv := tapeV_agree v base (jrenderVs rest ++ after) h.1
      have hr := tapeVs_agree rest (base + jcntV v) after h.2
      have hcv := cntV_agree v h.1
      simp only [jtapeVs, toNodes, tapeNodes_cons', List.map_append, hv, hr, hcv]
end

/-- (1) the two specs agree: the C01 tape of a document under any layout, positions dropped, is
`tapeOf` of the layout-free C02 document -/
theorem tape_agree (fs : JFields) (gt : Bytes) (h : PlainF fs) :
    toTextDeTape (jtapeF fs 0 gt) = tapeOf (toDoc fs) :=
  tapeF_agree fs 0 gt h

/-! ### well-formedness of the translated document -/

/-- an object or an array -/
def IsCont : Node → Prop
  | .obj _ | .arr _ => True
  | _ => False

theorem hdr_wf (h : Bytes) (n : Node) (hc : IsCont n) : (Node.hdr h n).wf = n.wf := by
  cases n <;> simp_all [IsCont, Node.wf]

/-- a braced value of the sub-fragment translates to a container -/
theorem braced_cont : ∀ (v : JVal) (after : Bytes), PlainV v → JValidV v after → v.isBraced → IsCont (toNode v)
  | .scal _ _, _, _, _, hb => by simp [JVal.isBraced] at hb
  | .empty _ _, _, _, _, _ => by simp [toNode, IsCont]
  | .obj .., _, _, _, _ => by simp [toNode, IsCont]
  | .arrS .., _, _, _, _ => by simp [toNode, IsCont]
  | .arrC .., _, _, _, _ => by simp [toNode, IsCont]
  | .ghostIn _ _ _ v, after, hp, hv, _ => by
      simp only [PlainV] at hp
      simp only [JValidV] at hv
      simp only [toNode]
      exact braced_cont v after hp hv.2.2.2.2.2 hv.2.2.2.1
  | .mixed .., _, hp, _, _ => by simp [PlainV] at hp

theorem cont_braced (v : JVal) (h : v.isContainer) : v.isBraced := by
  cases v <;> simp_all [JVal.isContainer, JVal.isBraced]

mutual
theorem wfV : ∀ (v : JVal) (after : Bytes), PlainV v → JValidV v after → (toNode v).wf = true
  | .scal _ _, _, _, _ => by simp [toNode, Node.wf]
  | .empty _ _, _, _, _ => by simp [toNode, Node.wf, wfNodes]
  | .obj _ _ k _ o v rest gc, after, hp, hv => by
      simp only [PlainV] at hp
      simp only [JValidV] at hv
      simp only [toNode, Node.wf, wfFields, Bool.and_eq_true]
      exact ⟨wfV v _ hp.2.1 hv.2.2.2.2.2.2.1, wfF rest _ hp.2.2 hv.2.2.2.2.2.2.2⟩
  | .arrS _ _ s0 rest gc, after, hp, hv => by
      simp only [PlainV] at hp
      simp only [JValidV] at hv
      simp only [toNode, Node.wf, wfNodes, Bool.and_eq_true]
      exact ⟨trivial, wfVs rest _ hp hv.2.2.2.2.2.2⟩
  | .arrC _ first rest gc, after, hp, hv => by
      simp only [PlainV] at hp
      simp only [JValidV] at hv
      simp only [toNode, Node.wf, wfNodes, Bool.and_eq_true]
      exact ⟨wfV first _ hp.1 hv.2.2.2.1, wfVs rest _ hp.2 hv.2.2.2.2⟩
  | .ghostIn _ _ _ v, after, hp, hv => by
      simp only [PlainV] at hp
      simp only [JValidV] at hv
      simp only [toNode]
      exact wfV v after hp hv.2.2.2.2.2
  | .mixed .., _, hp, _ => by simp [PlainV] at hp
theorem wfF : ∀ (fs : JFields) (after : Bytes), PlainF fs → JValidF fs after → wfFields (toFields fs) = true
  | .nil, _, _, _ => by simp [toFields, wfFields]
  | .cons _ k _ o v rest, after, hp, hv => by
      simp only [PlainF] at hp
      simp only [JValidF] at hv
      simp only [toFields, wfFields, Bool.and_eq_true]
      exact ⟨wfV v _ hp.2.1 hv.2.2.2.2.1, wfF rest _ hp.2.2 hv.2.2.2.2.2⟩
  | .consImp _ k v rest, after, hp, hv => by
      simp only [PlainF] at hp
      simp only [JValidF] at hv
      simp only [toFields, wfFields, Bool.and_eq_true]
      exact ⟨wfV v _ hp.2.1 hv.2.2.2.2.1, wfF rest _ hp.2.2 hv.2.2.2.2.2⟩
  | .ghost _ _ rest, after, hp, hv => by
      simp only [PlainF] at hp
      simp only [JValidF] at hv
      simp only [toFields]
      exact wfF rest after hp hv.2.2
  | .consHdr _ k _ o _ hd body rest, after, hp, hv => by
      simp only [PlainF] at hp
      simp only [JValidF] at hv
      have hb := hv.2.2.2.2.2.2.2.2
      have hc := braced_cont body _ hp.2.2.1 hb.2.1 (cont_braced body hb.1)
      simp only [toFields, wfFields, Bool.and_eq_true, hdr_wf _ _ hc]
      exact ⟨wfV body _ hp.2.2.1 hb.2.1, wfF rest _ hp.2.2.2 hb.2.2⟩
  | .paramVal .., _, hp, _ => by simp [PlainF] at hp
  | .paramObj .., _, hp, _ => by simp [PlainF] at hp
theorem wfVs : ∀ (vs : JVals) (after : Bytes), PlainVs vs → JValidVs vs after → wfNodes (toNodes vs) = true
  | .nil, _, _, _ => by simp [toNodes, wfNodes]
  | .cons v rest, after, hp, hv => by
      simp only [PlainVs] at hp
      simp only [JValidVs] at hv
      simp only [toNodes, wfNodes, Bool.and_eq_true]
      exact ⟨wfV v _ hp.1 hv.1, wfVs rest _ hp.2 hv.2⟩
end

/-! ### (2) from bytes to value on the tape path -/

/-- C02 end to end, tape path: for every document of the sub-fragment, every valid layout of it
(`fs` carries the layout, `gt` the trailing blanks), both encodings and every root target type that
requests the document's shape, the tape the parser model produces from the BYTES deserializes to the
value of the layout-free document: the value does not depend on the layout and is the document's. -/
theorem C02_tape_end_to_end (enc : TextDe.Enc) (ty : TextDe.Ty) (fs : JFields) (gt : Bytes)
    (hgt : Blank gt) (hv : JValidF fs gt) (hb : hasBom (jrenderF fs ++ gt) = false) (hp : PlainF fs)
    (hroot : Ty.isRoot ty = true) (hfit : FitsT enc false ty (.obj (toDoc fs))) :
    ∃ T b, TextTape.parse (jrenderF fs ++ gt) = .ok T b ∧
      TextDe.deTape enc ty (toTextDeTape T) = valueOf enc ty (toDoc fs) := by
  refine ⟨jtapeF fs 0 gt, false, parse_tree fs gt hgt hv hb, ?_⟩
  rw [tape_agree fs gt hp]
  exact TextDe.deTape_eq_valueOf enc ty (toDoc fs) hroot (wfF fs gt hp hv) hfit

/-- the same with a UTF-8 byte order mark in front -/
theorem C02_tape_end_to_end_bom (enc : TextDe.Enc) (ty : TextDe.Ty) (fs : JFields) (gt : Bytes)
    (hgt : Blank gt) (hv : JValidF fs gt) (hb : hasBom (jrenderF fs ++ gt) = false) (hp : PlainF fs)
    (hroot : Ty.isRoot ty = true) (hfit : FitsT enc false ty (.obj (toDoc fs))) :
    ∃ T b, TextTape.parse (0xef :: 0xbb :: 0xbf :: (jrenderF fs ++ gt)) = .ok T b ∧
      TextDe.deTape enc ty (toTextDeTape T) = valueOf enc ty (toDoc fs) := by
  refine ⟨jtapeF fs 0 gt, true, parse_tree_bom fs gt hgt hv hb, ?_⟩
  rw [tape_agree fs gt hp]
  exact TextDe.deTape_eq_valueOf enc ty (toDoc fs) hroot (wfF fs gt hp hv) hfit

/-- the hypotheses are satisfiable: the bytes `a={1 {b=c} {}} d={{x}}` + newline (C01's `exampleTree`)
into `st(a:seq(ign); d:seq(seq(str)); z:opt(i64))` -/
example :
    let ty : TextDe.Ty := .st [([97], .seq .ign), ([100], .seq (.seq .str)), ([122], .opt .i64)]
    ∃ T b, TextTape.parse (jrenderF exampleTree ++ [10]) = .ok T b ∧
      TextDe.deTape .utf8 ty (toTextDeTape T) = valueOf .utf8 ty (toDoc exampleTree) ∧
      valueOf .utf8 ty (toDoc exampleTree) =
        .ok (.st [([97], .seq [.ign, .ign, .ign]), ([100], .seq [.seq [.str [120]]]), ([122], .none)]) := by
  intro ty
  obtain ⟨hv, hgt, hb⟩ := exampleTree_valid
  have hp : PlainF exampleTree := by simp [exampleTree, PlainF, PlainV, PlainVs]
  have hfit : FitsT .utf8 false ty (.obj (toDoc exampleTree)) := by
    apply FitsT.st
    intro k o v hm i t hl
    simp only [toDoc, exampleTree, toFields, toNode, toNodes, List.mem_cons, Prod.mk.injEq, List.not_mem_nil, or_false] at hm
    rcases hm with ⟨rfl, rfl, rfl⟩ | ⟨rfl, rfl, rfl⟩
    · have h : TextDe.lookupIdx (TextDe.decode .utf8 [97]) [([97], TextDe.Ty.seq .ign), ([100], .seq (.seq .str)), ([122], .opt .i64)] 0
          = some (0, .seq .ign) := by rfl
      rw [h] at hl; simp at hl; obtain ⟨_, rfl⟩ := hl
      exact FitsT.seq (fun v _ => FitsT.ign)
    · have h : TextDe.lookupIdx (TextDe.decode .utf8 [100]) [([97], TextDe.Ty.seq .ign), ([100], .seq (.seq .str)), ([122], .opt .i64)] 0
          = some (1, .seq (.seq .str)) := by rfl
      rw [h] at hl; simp at hl; obtain ⟨_, rfl⟩ := hl
      apply FitsT.seq
      intro v hv'
      simp only [expandNodes, List.mem_cons, List.not_mem_nil, or_false] at hv'
      subst hv'
      apply FitsT.seq
      intro v hv'
      simp only [expandNodes, List.mem_cons, List.not_mem_nil, or_false] at hv'
      subst hv'
      exact FitsT.scalar rfl
  obtain ⟨T, b, h1, h2⟩ := C02_tape_end_to_end .utf8 ty exampleTree [10] hgt hv hb hp rfl hfit
  exact ⟨T, b, h1, h2, by rfl⟩

/-! ### (3) from bytes to value on the stream path -/

def rOp : TextReader.Op → TextDe.Op
  | .lt => .lt | .le => .le | .gt => .gt | .ge => .ge | .ne => .ne | .exact => .exact | .eq => .eq | .exists_ => .exst

/-- a reader token of the reader model as the deserializer model sees it -/
def toRTok : TextReader.Token → TextDe.RTok
  | .open_ => .open_
  | .close => .close
  | .op o => .op (rOp o)
  | .unquoted b => .unq b
  | .quoted b => .quo b

/-- THE MISSING LEMMA (slice C07 has no faithfulness theorem for its lexer on rendered documents yet):
the zero-copy slice reader, run on the rendering of a document, ends cleanly and yields exactly the
document's reader tokens.  (It can only hold for documents without ghost `{}` and without the implicit
`=`, whose reader tokens `lexemes` does not describe.) -/
def SliceLexFaithful (fs : JFields) (gt : Bytes) : Prop :=
  (TextReader.sliceTokens (jrenderF fs ++ gt)).out = .end_ ∧
  (TextReader.sliceTokens (jrenderF fs ++ gt)).toks.map toRTok = lexemes (toDoc fs)

/-- C02 end to end, stream path, relative to the missing lexer lemma: if the slice reader model is
faithful on the rendering (`SliceLexFaithful`), then deserializing the reader's tokens yields the value of
the layout-free document, for every valid layout, both encodings and every fitting root type. -/
theorem C02_stream_end_to_end_partial (enc : TextDe.Enc) (ty : TextDe.Ty) (fs : JFields) (gt : Bytes)
    (hv : JValidF fs gt) (hp : PlainF fs) (hlex : SliceLexFaithful fs gt)
    (hroot : Ty.isRoot ty = true) (hfit : Fits enc ty (.obj (toDoc fs))) :
    TextDe.deStream enc ty ((TextReader.sliceTokens (jrenderF fs ++ gt)).toks.map toRTok) = valueOf enc ty (toDoc fs) := by
  rw [hlex.2]
  exact TextDe.deStream_eq_valueOf enc ty (toDoc fs) hroot (wfF fs gt hp hv) hfit

/-- both paths, from the same bytes, relative to the missing lexer lemma -/
theorem C02_paths_end_to_end_partial (enc : TextDe.Enc) (ty : TextDe.Ty) (fs : JFields) (gt : Bytes)
    (hgt : Blank gt) (hv : JValidF fs gt) (hb : hasBom (jrenderF fs ++ gt) = false) (hp : PlainF fs)
    (hlex : SliceLexFaithful fs gt)
    (hroot : Ty.isRoot ty = true) (hfit : FitsT enc false ty (.obj (toDoc fs))) :
    ∃ T b, TextTape.parse (jrenderF fs ++ gt) = .ok T b ∧
      TextDe.deTape enc ty (toTextDeTape T) =
        TextDe.deStream enc ty ((TextReader.sliceTokens (jrenderF fs ++ gt)).toks.map toRTok) := by
  obtain ⟨T, b, h1, h2⟩ := C02_tape_end_to_end enc ty fs gt hgt hv hb hp hroot hfit
  exact ⟨T, b, h1, by
    rw [h2, C02_stream_end_to_end_partial enc ty fs gt hv hp hlex hroot (TextDe.fitsT_fits enc hfit)]⟩

/-- the missing lemma holds on C01's example document `a={1 {b=c} {}} d={{x}}` + newline -/
example : SliceLexFaithful exampleTree [10] := by
  constructor <;> decide +kernel

end Jomini.TextE2E
