import JominiModel.Proofs.WriterGen
import JominiModel.Proofs.TextTapeFaithful3
/-
The general container fragment, parser side: the writer's layout of objects, arrays (of scalars and
of containers), empty containers and headers is a valid layout of the text-tape slice's fragment 3,
hence (`faithful_tree`) parses to exactly the document's content.
-/
namespace Jomini.WriterParse
open Jomini Jomini.Writer.Spec Jomini.TextTape

/-- new line + indentation at depth `d` -/
def nlInd (c : UInt8) (f d : Nat) : Bytes := [10] ++ ind c f d

mutual
/-- the writer's layout of a value at depth `d`, `g` = what stands in front of it -/
def glayV (c : UInt8) (f : Nat) : Nat → Bytes → GVal → JVal
  | _, g, .scal s => .scal g s.scal
  | _, g, .empty _ => .empty g [32]
  | d, g, .obj _ (.cons k o v r) =>
    .obj g (nlInd c f (d + 1)) k.scal (gapOf (opOf o)) (opOf o) (glayV c f (d + 1) (gapOf (opOf o)) v)
      (glayF c f (d + 1) r) (nlInd c f d)
  | _, g, .obj _ _ => .empty g [32]
  | d, g, .arrS _ first rest => .arrS g (nlInd c f (d + 1)) first.scal (glayVs c f (d + 1) false rest) (nlInd c f d)
  | d, g, .arrC _ first rest =>
    .arrC g (glayV c f (d + 1) (nlInd c f (d + 1)) first) (glayVs c f (d + 1) true rest) (nlInd c f d)
def glayF (c : UInt8) (f : Nat) : Nat → GFields → JFields
  | _, .nil => .nil
  | d, .cons k o v r =>
    .cons (nlInd c f d) k.scal (gapOf (opOf o)) (opOf o) (glayV c f d (gapOf (opOf o)) v) (glayF c f d r)
  | d, .hdr k o h body r =>
    .consHdr (nlInd c f d) k.scal (gapOf (opOf o)) (opOf o) (gapOf (opOf o)) ⟨false, h⟩ (glayV c f d [32] body)
      (glayF c f d r)
def glayVs (c : UInt8) (f : Nat) : Nat → Bool → GVals → JVals
  | _, _, .nil => .nil
  | d, after, .cons v r =>
    .cons (glayV c f d (if after then nlInd c f d else [32]) v) (glayVs c f d v.isBraced r)
end

mutual
theorem render_glayV (c : UInt8) (f : Nat) : ∀ (v : GVal) (d : Nat) (g : Bytes), v.Good →
    jrenderV (glayV c f d g v) = g ++ gtextV c f d v
  | .scal s, d, g, _ => by simp [glayV, jrenderV, gtextV]
  | .empty fl, d, g, _ => by simp [glayV, jrenderV, gtextV]
  | .obj fl (.cons k o v r), d, g, h => by
    simp only [GVal.Good] at h
    simp only [glayV, jrenderV, gtextV, gtextF, render_glayV c f v (d + 1) _ h.2.1, render_glayF c f r (d + 1) h.2.2,
      sepText_split, nlInd]
    simp [List.append_assoc]
  | .obj fl .nil, d, g, h => by simp [GVal.Good] at h
  | .obj fl (.hdr ..), d, g, h => by simp [GVal.Good] at h
  | .arrS u first rest, d, g, h => by
    simp only [GVal.Good] at h
    simp only [glayV, jrenderV, gtextV, render_glayVs c f rest (d + 1) false h.2, nlInd]
  | .arrC u first rest, d, g, h => by
    simp only [GVal.Good] at h
    simp only [glayV, jrenderV, gtextV, render_glayV c f first (d + 1) _ h.2.1,
      render_glayVs c f rest (d + 1) true h.2.2, nlInd]
    simp [List.append_assoc]
theorem render_glayF (c : UInt8) (f : Nat) : ∀ (fs : GFields) (d : Nat), fs.Good →
    jrenderF (glayF c f d fs) = gtextF c f d fs
  | .nil, _, _ => rfl
  | .cons k o v r, d, h => by
    simp only [GFields.Good] at h
    simp only [glayF, jrenderF, gtextF, render_glayV c f v d _ h.2.1, render_glayF c f r d h.2.2, sepText_split, nlInd]
    simp [List.append_assoc]
  | .hdr k o hh body r, d, h => by
    simp only [GFields.Good] at h
    simp only [glayF, jrenderF, gtextF, render_glayV c f body d _ h.2.2.2.1, render_glayF c f r d h.2.2.2.2,
      sepText_split, nlInd, Scal.text]
    simp [List.append_assoc]
theorem render_glayVs (c : UInt8) (f : Nat) : ∀ (vs : GVals) (d : Nat) (a : Bool), vs.Good →
    jrenderVs (glayVs c f d a vs) = gtextVs c f d a vs
  | .nil, _, _, _ => rfl
  | .cons v r, d, a, h => by
    simp only [GVals.Good] at h
    simp only [glayVs, jrenderVs, gtextVs, render_glayV c f v d _ h.1, render_glayVs c f r d _ h.2, nlInd]
    simp [List.append_assoc]
end

mutual
theorem content_glayV (c : UInt8) (f : Nat) : ∀ (v : GVal) (d : Nat) (g : Bytes), v.Good →
    kcontentV (glayV c f d g v) = gcontentV v
  | .scal s, d, g, _ => by simp [glayV, kcontentV, gcontentV]
  | .empty fl, d, g, _ => by simp [glayV, kcontentV, gcontentV]
  | .obj fl (.cons k o v r), d, g, h => by
    simp only [GVal.Good] at h
    simp [glayV, kcontentV, gcontentV, gcontentF, content_glayV c f v (d + 1) _ h.2.1, content_glayF c f r (d + 1) h.2.2]
  | .obj fl .nil, d, g, h => by simp [GVal.Good] at h
  | .obj fl (.hdr ..), d, g, h => by simp [GVal.Good] at h
  | .arrS u first rest, d, g, h => by
    simp only [GVal.Good] at h
    simp [glayV, kcontentV, gcontentV, content_glayVs c f rest (d + 1) false h.2]
  | .arrC u first rest, d, g, h => by
    simp only [GVal.Good] at h
    simp [glayV, kcontentV, gcontentV, content_glayV c f first (d + 1) _ h.2.1, content_glayVs c f rest (d + 1) true h.2.2]
theorem content_glayF (c : UInt8) (f : Nat) : ∀ (fs : GFields) (d : Nat), fs.Good →
    kcontentF (glayF c f d fs) = gcontentF fs
  | .nil, _, _ => rfl
  | .cons k o v r, d, h => by
    simp only [GFields.Good] at h
    simp [glayF, kcontentF, gcontentF, content_glayV c f v d _ h.2.1, content_glayF c f r d h.2.2]
  | .hdr k o hh body r, d, h => by
    simp only [GFields.Good] at h
    simp [glayF, kcontentF, gcontentF, content_glayV c f body d _ h.2.2.2.1, content_glayF c f r d h.2.2.2.2]
theorem content_glayVs (c : UInt8) (f : Nat) : ∀ (vs : GVals) (d : Nat) (a : Bool), vs.Good →
    kcontentVs (glayVs c f d a vs) = gcontentVs vs
  | .nil, _, _, _ => rfl
  | .cons v r, d, a, h => by
    simp only [GVals.Good] at h
    simp [glayVs, kcontentVs, gcontentVs, content_glayV c f v d _ h.1, content_glayVs c f r d _ h.2]
end

/-! ### the layout is valid -/

/-- `peek_scal` for variables too: they start with `@` -/
theorem peek_scalX {s : Scal} (hs : s.ValidX) (X : Bytes) (hX : X.head? ≠ some 61) :
    firstFieldPeek (s.text ++ X) = false := by
  rcases hs with h | ⟨hq, r, hb, _⟩ | ⟨hq, body, hb, _⟩
  · exact peek_scal h X hX
  · simp [Scal.text, hq, hb, firstFieldPeek]
  · simp [Scal.text, hq, hb, firstFieldPeek]

theorem blank_nlInd (c : UInt8) (hc : isBlank c = true) (f d : Nat) : Blank (nlInd c f d) :=
  blank_nl_ind c hc f d

theorem sb_nlInd (c : UInt8) (f d : Nat) (Z : Bytes) : StartsBoundary (nlInd c f d ++ Z) :=
  sb_of_head (c := 10) (by simp [nlInd]) Writer.bnd_nl

theorem sb_gtextF (c : UInt8) (f d : Nat) (fs : GFields) (X : Bytes) (hX : StartsBoundary X) :
    StartsBoundary (gtextF c f d fs ++ X) := by
  cases fs with
  | nil => simpa [gtextF] using hX
  | cons k o v r => exact sb_of_head (c := 10) (by simp [gtextF]) Writer.bnd_nl
  | hdr k o h b r => exact sb_of_head (c := 10) (by simp [gtextF]) Writer.bnd_nl

theorem sb_gtextVs (c : UInt8) (f d : Nat) (a : Bool) (vs : GVals) (X : Bytes) (hX : StartsBoundary X) :
    StartsBoundary (gtextVs c f d a vs ++ X) := by
  cases vs with
  | nil => simpa [gtextVs] using hX
  | cons v r =>
    cases a
    · exact sb_of_head (c := 32) (by simp [gtextVs]) Writer.bnd_sp
    · exact sb_of_head (c := 10) (by simp [gtextVs]) Writer.bnd_nl

theorem head_gtextVs (c : UInt8) (f d : Nat) (a : Bool) (vs : GVals) (X : Bytes) (hX : X.head? ≠ some 61) :
    (gtextVs c f d a vs ++ X).head? ≠ some 61 := by
  cases vs with
  | nil => simpa [gtextVs] using hX
  | cons v r => cases a <;> simp [gtextVs]

theorem gtextV_braced (c : UInt8) (f d : Nat) (v : GVal) (h : v.isBraced = true) :
    ∃ t, gtextV c f d v = 123 :: t := by
  cases v with
  | scal s => simp [GVal.isBraced] at h
  | empty fl => exact ⟨_, rfl⟩
  | obj fl fs => exact ⟨_, by rw [gtextV]⟩
  | arrS u a r => exact ⟨_, by rw [gtextV]⟩
  | arrC u a r => exact ⟨_, by rw [gtextV]⟩

theorem skipWs_open (Z : Bytes) : skipWs (123 :: Z) = some (123 :: Z) := by
  simp [skipWs, skipWsAux, blank_open]

/-- what follows the first scalar of an array is never taken for an operator -/
theorem peek_elems (c : UInt8) (f d : Nat) (hc : isBlank c = true) (rest : GVals) (hr : rest.Good) (after : Bytes) :
    ∀ d2, skipWs (gtextVs c f (d + 1) false rest ++ (nlInd c f d ++ 125 :: after)) = some d2 →
      firstFieldPeek d2 = false := by
  intro d2 hd2
  cases rest with
  | nil =>
    simp only [gtextVs, List.nil_append] at hd2
    rw [skipWs_blank (blank_nlInd c hc f d)] at hd2
    simp [skipWs, skipWsAux, blank_close] at hd2
    rw [← hd2]; simp [firstFieldPeek]
  | cons v r =>
    simp only [GVals.Good] at hr
    have hsk : skipWs (gtextVs c f (d + 1) false (.cons v r) ++ (nlInd c f d ++ 125 :: after)) =
        skipWs (gtextV c f (d + 1) v ++ (gtextVs c f (d + 1) v.isBraced r ++ (nlInd c f d ++ 125 :: after))) := by
      have := skipWs_blank Writer.blank_sp (gtextV c f (d + 1) v ++ (gtextVs c f (d + 1) v.isBraced r ++ (nlInd c f d ++ 125 :: after)))
      simpa [gtextVs, List.append_assoc] using this
    rw [hsk] at hd2
    cases hb : v.isBraced with
    | true =>
      obtain ⟨t, ht⟩ := gtextV_braced c f (d + 1) v hb
      rw [ht, List.cons_append, skipWs_open] at hd2
      cases hd2; simp [firstFieldPeek]
    | false =>
      cases v with
      | scal s =>
        simp only [GVal.Good] at hr
        have hs := Writer.scall_validX s hr.1
        simp only [gtextV] at hd2
        rw [skipWs_scalX hs] at hd2
        cases hd2
        exact peek_scalX hs _ (head_gtextVs c f (d + 1) _ r _ (by simp [nlInd]))
      | empty fl => simp [GVal.isBraced] at hb
      | obj fl fs => simp [GVal.isBraced] at hb
      | arrS u a r' => simp [GVal.isBraced] at hb
      | arrC u a r' => simp [GVal.isBraced] at hb

theorem isContainer_glayV (c : UInt8) (f d : Nat) (g : Bytes) (v : GVal) (hg : v.Good)
    (h : v.isContainer = true) : (glayV c f d g v).isContainer := by
  cases v with
  | scal s => simp [GVal.isContainer] at h
  | empty fl => simp [GVal.isContainer] at h
  | obj fl fs =>
    cases fs with
    | nil => simp [GVal.Good] at hg
    | cons k o w r => simp [glayV, JVal.isContainer]
    | hdr k o hh b r => simp [GVal.Good] at hg
  | arrS u a r => simp [glayV, JVal.isContainer]
  | arrC u a r => simp [glayV, JVal.isContainer]

theorem sb_key_op (o : TextTape.Op) : StartsBoundary (gapOf o ++ o.text) := by
  unfold gapOf
  by_cases ho : o = .eq
  · exact sb_of_head (c := 61) (by simp [ho, Op.text]) bnd_eq
  · exact sb_of_head (c := 32) (by simp [ho]) Writer.bnd_sp

mutual
theorem valid_glayV (c : UInt8) (f : Nat) (hc : isBlank c = true) : ∀ (v : GVal) (d : Nat) (g after : Bytes),
    Blank g → v.Good → StartsBoundary after → JValidV (glayV c f d g v) after
  | .scal s, d, g, after, hg, h, ha => by
    simp only [GVal.Good] at h
    exact ⟨hg, (Writer.scall_validX s h), fun _ => ha⟩
  | .empty fl, d, g, after, hg, _, _ => ⟨hg, Writer.blank_sp⟩
  | .obj fl (.cons k o v r), d, g, after, hg, h, ha => by
    simp only [GVal.Good] at h
    obtain ⟨hk, hv, hr⟩ := h
    refine ⟨hg, blank_nlInd c hc f (d + 1), blank_gapOf _, blank_nlInd c hc f d, (Writer.scall_validX k hk),
      fun _ => sb_key_op _, ?_, ?_⟩
    · apply valid_glayV c f hc v (d + 1) _ _ (blank_gapOf _) hv
      rw [render_glayF c f r (d + 1) hr]
      exact sb_gtextF c f (d + 1) r _ (sb_nlInd c f d _)
    · exact valid_glayF c f hc r (d + 1) _ hr (sb_nlInd c f d _)
  | .obj fl .nil, d, g, after, _, h, _ => by simp [GVal.Good] at h
  | .obj fl (.hdr ..), d, g, after, _, h, _ => by simp [GVal.Good] at h
  | .arrS u first rest, d, g, after, hg, h, ha => by
    simp only [GVal.Good] at h
    obtain ⟨hf, hr⟩ := h
    refine ⟨hg, blank_nlInd c hc f (d + 1), blank_nlInd c hc f d, (Writer.scall_validX first hf), fun _ => ?_, ?_, ?_⟩
    · rw [render_glayVs c f rest (d + 1) false hr]
      exact sb_gtextVs c f (d + 1) false rest _ (sb_nlInd c f d _)
    · rw [render_glayVs c f rest (d + 1) false hr]
      exact peek_elems c f d hc rest hr after
    · exact valid_glayVs c f hc rest (d + 1) false _ hr (sb_nlInd c f d _)
  | .arrC u first rest, d, g, after, hg, h, ha => by
    simp only [GVal.Good] at h
    obtain ⟨hcont, hf, hr⟩ := h
    refine ⟨hg, blank_nlInd c hc f d, isContainer_glayV c f (d + 1) _ first hf hcont, ?_, ?_⟩
    · apply valid_glayV c f hc first (d + 1) _ _ (blank_nlInd c hc f (d + 1)) hf
      rw [render_glayVs c f rest (d + 1) true hr]
      exact sb_gtextVs c f (d + 1) true rest _ (sb_nlInd c f d _)
    · exact valid_glayVs c f hc rest (d + 1) true _ hr (sb_nlInd c f d _)
theorem valid_glayF (c : UInt8) (f : Nat) (hc : isBlank c = true) : ∀ (fs : GFields) (d : Nat) (after : Bytes),
    fs.Good → StartsBoundary after → JValidF (glayF c f d fs) after
  | .nil, _, _, _, _ => trivial
  | .cons k o v r, d, after, h, ha => by
    simp only [GFields.Good] at h
    obtain ⟨hk, hv, hr⟩ := h
    refine ⟨blank_nlInd c hc f d, blank_gapOf _, (Writer.scall_validX k hk), fun _ => sb_key_op _, ?_,
      valid_glayF c f hc r d after hr ha⟩
    apply valid_glayV c f hc v d _ _ (blank_gapOf _) hv
    rw [render_glayF c f r d hr]
    exact sb_gtextF c f d r after ha
  | .hdr k o hh body r, d, after, h, ha => by
    simp only [GFields.Good] at h
    obtain ⟨hk, hhv, hcont, hb, hr⟩ := h
    refine ⟨blank_nlInd c hc f d, blank_gapOf _, blank_gapOf _, (Writer.scall_validX k hk), fun _ => sb_key_op _,
      hhv, rfl, ?_, isContainer_glayV c f d _ body hb hcont, ?_, valid_glayF c f hc r d after hr ha⟩
    · rw [render_glayV c f body d _ hb]
      exact sb_of_head (c := 32) (by simp) Writer.bnd_sp
    · apply valid_glayV c f hc body d _ _ Writer.blank_sp hb
      rw [render_glayF c f r d hr]
      exact sb_gtextF c f d r after ha
theorem valid_glayVs (c : UInt8) (f : Nat) (hc : isBlank c = true) : ∀ (vs : GVals) (d : Nat) (a : Bool) (after : Bytes),
    vs.Good → StartsBoundary after → JValidVs (glayVs c f d a vs) after
  | .nil, _, _, _, _, _ => trivial
  | .cons v r, d, a, after, h, ha => by
    simp only [GVals.Good] at h
    refine ⟨?_, valid_glayVs c f hc r d _ after h.2 ha⟩
    apply valid_glayV c f hc v d _ _ _ h.1
    · rw [render_glayVs c f r d _ h.2]
      exact sb_gtextVs c f d _ r after ha
    · cases a
      · exact Writer.blank_sp
      · exact blank_nlInd c hc f d
end

/-- the whole document: like `glayF` at depth 0, but nothing stands in front of the first field -/
def glayRoot (c : UInt8) (f : Nat) : GFields → JFields
  | .nil => .nil
  | .cons k o v r =>
    .cons [] k.scal (gapOf (opOf o)) (opOf o) (glayV c f 0 (gapOf (opOf o)) v) (glayF c f 0 r)
  | .hdr k o h body r =>
    .consHdr [] k.scal (gapOf (opOf o)) (opOf o) (gapOf (opOf o)) ⟨false, h⟩ (glayV c f 0 [32] body) (glayF c f 0 r)

theorem render_glayRoot (c : UInt8) (f : Nat) (fs : GFields) (h : fs.Good) :
    jrenderF (glayRoot c f fs) = gtextRoot c f fs := by
  cases fs with
  | nil => rfl
  | cons k o v r =>
    simp only [GFields.Good] at h
    simp only [glayRoot, jrenderF, gtextRoot, gtextF, render_glayV c f v 0 _ h.2.1, render_glayF c f r 0 h.2.2,
      sepText_split, ind_zero]
    simp [List.append_assoc]
  | hdr k o hh body r =>
    simp only [GFields.Good] at h
    simp only [glayRoot, jrenderF, gtextRoot, gtextF, render_glayV c f body 0 _ h.2.2.2.1,
      render_glayF c f r 0 h.2.2.2.2, sepText_split, ind_zero, Scal.text]
    simp [List.append_assoc]

theorem content_glayRoot (c : UInt8) (f : Nat) (fs : GFields) (h : fs.Good) :
    kcontentF (glayRoot c f fs) = gcontentF fs := by
  cases fs with
  | nil => rfl
  | cons k o v r =>
    simp only [GFields.Good] at h
    simp [glayRoot, kcontentF, gcontentF, content_glayV c f v 0 _ h.2.1, content_glayF c f r 0 h.2.2]
  | hdr k o hh body r =>
    simp only [GFields.Good] at h
    simp [glayRoot, kcontentF, gcontentF, content_glayV c f body 0 _ h.2.2.2.1, content_glayF c f r 0 h.2.2.2.2]

theorem valid_glayRoot (c : UInt8) (f : Nat) (hc : isBlank c = true) (fs : GFields) (h : fs.Good) :
    JValidF (glayRoot c f fs) [] := by
  have hnil : StartsBoundary ([] : Bytes) := .inl rfl
  cases fs with
  | nil => trivial
  | cons k o v r =>
    simp only [GFields.Good] at h
    obtain ⟨hk, hv, hr⟩ := h
    refine ⟨.nil, blank_gapOf _, (Writer.scall_validX k hk), fun _ => sb_key_op _, ?_,
      valid_glayF c f hc r 0 [] hr hnil⟩
    apply valid_glayV c f hc v 0 _ _ (blank_gapOf _) hv
    rw [render_glayF c f r 0 hr]
    exact sb_gtextF c f 0 r [] hnil
  | hdr k o hh body r =>
    simp only [GFields.Good] at h
    obtain ⟨hk, hhv, hcont, hb, hr⟩ := h
    refine ⟨.nil, blank_gapOf _, blank_gapOf _, (Writer.scall_validX k hk), fun _ => sb_key_op _,
      hhv, rfl, ?_, isContainer_glayV c f 0 _ body hb hcont, ?_, valid_glayF c f hc r 0 [] hr hnil⟩
    · rw [render_glayV c f body 0 _ hb]
      exact sb_of_head (c := 32) (by simp) Writer.bnd_sp
    · apply valid_glayV c f hc body 0 _ _ Writer.blank_sp hb
      rw [render_glayF c f r 0 hr]
      exact sb_gtextF c f 0 r [] hnil

/-- the text of a general container document parses to exactly its content -/
theorem parse_gtextRoot (c : UInt8) (f : Nat) (hc : isBlank c = true) (fs : GFields) (h : fs.Good)
    (hb : hasBom (gtextRoot c f fs) = false) :
    ∃ T, parse (gtextRoot c f fs) = .ok T false ∧ T.map Tok.erase = ktapeF (gcontentF fs) 0 := by
  have hr := render_glayRoot c f fs h
  obtain ⟨T, hp, he⟩ := faithful_tree (glayRoot c f fs) [] .nil (valid_glayRoot c f hc fs h)
    (by rw [List.append_nil, hr]; exact hb)
  simp only [List.append_nil] at hp
  rw [hr] at hp
  rw [content_glayRoot c f fs h] at he
  exact ⟨T, hp, he⟩

end Jomini.WriterParse
