import JominiModel.Proofs.TextTapeFaithful3
import JominiModel.Proofs.TextTapeTotal
/-
C01_step_blank, the two remaining `skip_ws_t` call sites: behind the first scalar of a container
(ParseOpen) and inside parameter definitions.  There the blanks follow a scalar that has just been
pushed, so the two results differ in that scalar's recorded position only: equality is up to
`Tok.erase`.
-/
namespace Jomini.TextTape
open Jomini

def St.erase (st : St) : St := { st with tape := st.tape.map Tok.erase }

def Res.erase : Res → Res
  | .ok t b => .ok (t.map Tok.erase) b
  | r => r

/-- forget the scalar positions in the outcome of one iteration. -/
def Step.erase : Step → Step
  | .cont st d => .cont st.erase d
  | .done r => .done r.erase

theorem erase_idem (t : Tok) : t.erase.erase = t.erase := by cases t <;> rfl

theorem map_erase_set (T : List Tok) (i : Nat) (t : Tok) :
    (T.set i t).map Tok.erase = (T.map Tok.erase).set i t.erase := by
  rw [List.map_set]

theorem setTok_erase {T T' : List Tok} {i : Nat} {t : Tok} (h : setTok T i t = some T') :
    setTok (T.map Tok.erase) i t.erase = some (T'.map Tok.erase) := by
  obtain ⟨rfl, hlt⟩ := setTok_some h
  simp [setTok, hlt, List.map_set]

theorem setTok_erase_none {T : List Tok} {i : Nat} {t : Tok} (h : setTok T i t = none) (t' : Tok) :
    setTok (T.map Tok.erase) i t' = none := by
  have := setTok_none h
  simp [setTok]; omega

/-! ### site 4: behind the first scalar of a container -/

/-- what ParseOpen does after the first scalar has been pushed (a verbatim copy of the tail of
`stepParseOpen`), as a function of the tape and the rest. -/
def flagTape (mixed : Bool) (parent : Nat) (tape : List Tok) : List Tok :=
  if mixed then
    match tape[parent]? with
    | some (.array e _) => tape.set parent (.array e true)
    | some (.object e _) => tape.set parent (.object e true)
    | _ => tape
  else tape

def poAfter (st : St) (tape : List Tok) (rest' : Bytes) : Step :=
  let tape := flagTape st.mixed st.parent tape
  match skipWs rest' with
  | none => .done (.err .eof)
  | some d2 =>
    if tape.length < 2 then .done .panic else
    let ind := tape.length - 2
    if firstFieldPeek d2 then
      match setTok tape ind (.object st.parent false) with
      | none => .done .panic
      | some tape => .cont { state := .kvs, mixed := false, parent := ind, tape := tape } d2
    else
      match setTok tape ind (.array st.parent false) with
      | none => .done .panic
      | some tape => .cont { state := .arrayValue, mixed := false, parent := ind, tape := tape } d2

theorem stepParseOpen_scalar {st : St} {s : Scal} (hs : s.Valid) (X : Bytes)
    (hX : s.quoted = false → StartsBoundary X) :
    stepParseOpen st (s.text ++ X) = poAfter st (st.tape ++ [s.tok X]) X := by
  obtain ⟨c, r, htx, _, _, h125, _, h123, h91, _, _, _⟩ := hs.head
  have hlex := lexValue_scal hs st.tape X hX
  rw [htx] at hlex ⊢
  simp only [List.cons_append] at hlex ⊢
  simp only [stepParseOpen, h125, h91, h123, if_false, hlex, poAfter]
  rfl

/-- the flag edit commutes with erasing positions. -/
theorem flag_erase (T : List Tok) (p : Nat) :
    (match T[p]? with
      | some (.array e _) => T.set p (.array e true)
      | some (.object e _) => T.set p (.object e true)
      | _ => T).map Tok.erase =
    (match (T.map Tok.erase)[p]? with
      | some (.array e _) => (T.map Tok.erase).set p (.array e true)
      | some (.object e _) => (T.map Tok.erase).set p (.object e true)
      | _ => T.map Tok.erase) := by
  rw [List.getElem?_map]
  cases h : T[p]? with
  | none => simp
  | some t => cases t <;> simp [Tok.erase, List.map_set]

/-- `poAfter` only looks at the shapes of the tape, so it commutes with erasing positions. -/
theorem flagTape_erase (m : Bool) (p : Nat) (T : List Tok) :
    (flagTape m p T).map Tok.erase = flagTape m p (T.map Tok.erase) := by
  unfold flagTape
  split
  · exact flag_erase T p
  · rfl

/-- `poAfter` only looks at the shapes of the tape, so it commutes with erasing positions. -/
theorem poAfter_erase (st : St) (tape : List Tok) (rest' : Bytes) :
    (poAfter st tape rest').erase = (poAfter st (tape.map Tok.erase) rest').erase := by
  unfold poAfter
  simp only
  rw [← flagTape_erase]
  generalize flagTape st.mixed st.parent tape = A
  cases skipWs rest' with
  | none => rfl
  | some d2 =>
    simp only [List.length_map]
    split
    · rfl
    · split
      · cases h1 : setTok A (A.length - 2) (.object st.parent false) with
        | none => simp [setTok_erase_none h1, Step.erase, Res.erase]
        | some T1 =>
          have := setTok_erase h1
          simp only [Tok.erase] at this
          simp [this, Step.erase, St.erase, erase_idem]
      · cases h1 : setTok A (A.length - 2) (.array st.parent false) with
        | none => simp [setTok_erase_none h1, Step.erase, Res.erase]
        | some T1 =>
          have := setTok_erase h1
          simp only [Tok.erase] at this
          simp [this, Step.erase, St.erase, erase_idem]

/-- C01_step_blank, site 4: blanks behind the first scalar of a container (where lexically
permitted) change nothing but that scalar's recorded position. -/
theorem stepParseOpen_first_scalar_blank {st : St} {s : Scal} {w r : Bytes} (hs : s.Valid) (hw : Blank w)
    (hr : s.quoted = false → StartsBoundary r) (hwr : s.quoted = false → StartsBoundary (w ++ r)) :
    (stepParseOpen st (s.text ++ (w ++ r))).erase = (stepParseOpen st (s.text ++ r)).erase := by
  rw [stepParseOpen_scalar hs _ hwr, stepParseOpen_scalar hs _ hr]
  rw [poAfter_erase, poAfter_erase st (st.tape ++ [s.tok r])]
  have h1 : (st.tape ++ [s.tok (w ++ r)]).map Tok.erase = (st.tape ++ [s.tok r]).map Tok.erase := by
    simp [Scal.tok_erase s (w ++ r), Scal.tok_erase s r]
  rw [h1]
  unfold poAfter
  simp only [skipWs_blank hw]

/-! ### site 5: inside parameter definitions -/

/-- blanks behind `[[name]`. -/
theorem pdAfter_blank (mixed : Bool) (tape : List Tok) (parent : Nat) (isU : Bool) (t1 t2 : Nat)
    (name : Bytes) {w : Bytes} (hw : Blank w) (Y : Bytes) :
    (pdAfter mixed tape parent isU t1 name (w ++ Y)).erase = (pdAfter mixed tape parent isU t2 name Y).erase := by
  unfold pdAfter
  simp only [skipWs_blank hw]
  cases skipWs Y with
  | none => rfl
  | some d4 =>
    simp only
    cases splitAtScalar d4 with
    | none => rfl
    | some p =>
      obtain ⟨kv, d5⟩ := p
      simp only
      cases skipWs d5 with
      | none => rfl
      | some d6 =>
        cases d6 with
        | nil => rfl
        | cons c rest =>
          simp only
          split <;> simp [Step.erase, St.erase, paramTok_erase, erase_unquoted, erase_object]

/-- C01_step_blank, site 5a: blanks behind the `]` of a parameter name. -/
theorem paramDefBody_name_blank (mixed : Bool) (tape : List Tok) (parent : Nat) (isU : Bool) {name w : Bytes}
    (hn : ParamName name) (hw : Blank w) (Y : Bytes) :
    (paramDefBody mixed tape parent (91 :: 91 :: ((if isU then [33] else []) ++ (name ++ 93 :: (w ++ Y))))).erase =
    (paramDefBody mixed tape parent (91 :: 91 :: ((if isU then [33] else []) ++ (name ++ 93 :: Y)))).erase := by
  rw [paramDefBody_name mixed tape parent isU hn, paramDefBody_name mixed tape parent isU hn]
  exact pdAfter_blank mixed tape parent isU _ _ name hw Y

/-- blanks behind the key / value that follows `[[name]`. -/
theorem pdAfter_kv_blank (mixed : Bool) (tape : List Tok) (parent : Nat) (isU : Bool) (nt1 nt2 : Nat)
    (name : Bytes) {s : Scal} (hs : s.Valid) (hq : s.quoted = false) {w1 w R : Bytes}
    (hw1 : Blank w1) (hw : Blank w) (hR : StartsBoundary R) (hwR : StartsBoundary (w ++ R)) :
    (pdAfter mixed tape parent isU nt1 name (w1 ++ (s.text ++ (w ++ R)))).erase =
    (pdAfter mixed tape parent isU nt2 name (w1 ++ (s.text ++ R))).erase := by
  have htext : s.text = s.bytes := by simp [Scal.text, hq]
  have hv := hs
  unfold Scal.Valid at hv
  simp only [hq, Bool.false_eq_true, if_false] at hv
  have hne : s.bytes ≠ [] := by obtain ⟨_, c', r', hs', _⟩ := hv; simp [hs']
  have hsp1 := splitAtScalar_token hne hv.1 hwR
  have hsp2 := splitAtScalar_token hne hv.1 hR
  unfold pdAfter
  simp only [skipWs_blank hw1, skipWs_scal hs]
  simp only [htext, hsp1, hsp2, skipWs_blank hw]
  cases skipWs R with
  | none => rfl
  | some d6 =>
    cases d6 with
    | nil => rfl
    | cons c rest =>
      simp only
      split <;> simp [Step.erase, St.erase, paramTok_erase, erase_unquoted, erase_object]

/-- C01_step_blank, site 5b: blanks behind the first key / the value of a parameter definition. -/
theorem paramDefBody_kv_blank (mixed : Bool) (tape : List Tok) (parent : Nat) (isU : Bool) {name : Bytes}
    (hn : ParamName name) {s : Scal} (hs : s.Valid) (hq : s.quoted = false) {w1 w R : Bytes}
    (hw1 : Blank w1) (hw : Blank w) (hR : StartsBoundary R) (hwR : StartsBoundary (w ++ R)) :
    (paramDefBody mixed tape parent
      (91 :: 91 :: ((if isU then [33] else []) ++ (name ++ 93 :: (w1 ++ (s.text ++ (w ++ R))))))).erase =
    (paramDefBody mixed tape parent
      (91 :: 91 :: ((if isU then [33] else []) ++ (name ++ 93 :: (w1 ++ (s.text ++ R)))))).erase := by
  rw [paramDefBody_name mixed tape parent isU hn, paramDefBody_name mixed tape parent isU hn]
  exact pdAfter_kv_blank mixed tape parent isU _ _ name hs hq hw1 hw hR hwR

end Jomini.TextTape
