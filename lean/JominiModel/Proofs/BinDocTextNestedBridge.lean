/-
The bridge between the two TEXT references on NESTED documents: this slice's `valueOfText` (over the logical
document) and the text slice's `valueOf` (over the text document `docFieldsN`) have the same outcome for every
document and request of the nested shared fragment (`c10N` …): `valueOfText_bridge_nested`.
-/
import JominiModel.Proofs.BinDocTextNested
import JominiModel.Proofs.BinDocTextBytes
set_option linter.unusedSimpArgs false
namespace Jomini.BinDe
open Jomini

/-! ### the text slice's document of a nested logical document -/

mutual
def docNode (c : Cfg) : BNode → TextDoc.Node
  | .leaf l => .leaf ⟨(leafText c l).getD [], nodeQuoted (.leaf l)⟩
  | .obj .nil => .arr []     -- (`{}` is an empty array for both text parsers; excluded from the fragment as an object)
  | .obj (.cons g k v rest) => .obj (docFieldsN c (.cons g k v rest))
  | .arr vs => .arr (docNodes c vs)
  | .rgb _ => .leaf ⟨[], false⟩
def docFieldsN (c : Cfg) : BFields → List (TextDoc.Key × TextDe.Op × TextDoc.Node)
  | .nil => []
  | .cons _ k v rest => (TextDoc.Key.plain ((leafText c k).getD []), .eq, docNode c v) :: docFieldsN c rest
def docNodes (c : Cfg) : BNodes → List TextDoc.Node
  | .nil => []
  | .cons v rest => docNode c v :: docNodes c rest
end

theorem docNode_notHdr (c : Cfg) (n : BNode) : ∀ name b, docNode c n ≠ .hdr name b := by
  intro name b
  cases n with
  | obj fs => cases fs <;> simp [docNode]
  | _ => simp [docNode]

theorem expand_docNodes (c : Cfg) : ∀ (vs : BNodes), TextDoc.expandNodes (docNodes c vs) = docNodes c vs
  | .nil => rfl
  | .cons v rest => by
    have ih := expand_docNodes c rest
    simp only [docNodes]
    cases hv : docNode c v with
    | hdr n b => exact absurd hv (docNode_notHdr c v n b)
    | _ => simp only [TextDoc.expandNodes, ih]

/-! ### results in this slice's notation, guided by the request -/

mutual
/-- a `Val` of the text slice in the harness notation, read with the request it answers (struct field names
come from the request). -/
def showT : Ty → TextDe.Val → String
  | .opt _, .none => "none"
  | .opt t, .some v => "some(" ++ showT t v ++ ")"
  | .seq et, .seq vs => "[" ++ joinComma (vs.map (fun v => showT et v)) ++ "]"
  | .map vt, .map kvs => "{" ++ joinComma (kvs.map (fun kv => showVal kv.1 ++ "=" ++ showT vt kv.2)) ++ "}"
  | .struct decl, .st kvs => "{" ++ joinComma (showStT decl kvs) ++ "}"
  | _, v => showVal v
def showStT : Fields → List (Bytes × TextDe.Val) → List String
  | .cons n _ t rest, (_, v) :: tl => (n ++ "=" ++ showT t v) :: showStT rest tl
  | _, _ => []
end

/-- same outcome under a request. -/
def SameT (t : Ty) : TextDe.R TextDe.Val → Res String → Prop
  | .ok v, .ok x => x = showT t v
  | .error e, .error e' => ErrRel e e'
  | _, _ => False

/-! ### `Option` layers -/

def someIter : Nat → TextDe.R TextDe.Val → TextDe.R TextDe.Val
  | 0, r => r
  | k + 1, r => (someIter k r).map TextDe.Val.some

theorem valueOfN_peel (f : Nat) (o : TextDe.Op) (v : TextDoc.Node) : ∀ (t : Ty),
    TextDoc.valueOfN .w1252 (f + (stripOpt t).1) (trTy t) o v =
      someIter (stripOpt t).1 (TextDoc.valueOfN .w1252 f (trTy (stripOpt t).2) o v) := by
  intro t
  cases t with
  | opt i =>
    have ih := valueOfN_peel f o v i
    simp only [stripOpt, trTy, someIter]
    rw [show f + ((stripOpt i).1 + 1) = (f + (stripOpt i).1) + 1 by omega]
    simp only [TextDoc.valueOfN, ih]
  | _ => simp [stripOpt, someIter]
termination_by t => tySize t
decreasing_by all_goals (subst_vars; simp [tySize])

theorem height_peel : ∀ (t : Ty), (trTy t).height = (trTy (stripOpt t).2).height + (stripOpt t).1 := by
  intro t
  cases t with
  | opt i => have := height_peel i; simp only [stripOpt, trTy, TextDe.Ty.height]; omega
  | _ => simp [stripOpt]
termination_by t => tySize t
decreasing_by all_goals (subst_vars; simp [tySize])

theorem sameT_peel (r : TextDe.R TextDe.Val) (x : Res String) : ∀ (t : Ty), SameT (stripOpt t).2 r x →
    SameT t (someIter (stripOpt t).1 r) (wrapRes (stripOpt t).1 x) := by
  intro t h
  cases t with
  | opt i =>
    have ih := sameT_peel r x i (by simpa [stripOpt] using h)
    simp only [stripOpt, someIter]
    rw [wrapRes_succ']
    cases hr : someIter (stripOpt i).1 r with
    | error e =>
      rw [hr] at ih
      cases hx : wrapRes (stripOpt i).1 x with
      | error e' => rw [hx] at ih; exact ih
      | ok y => rw [hx] at ih; exact ih.elim
    | ok a =>
      rw [hr] at ih
      cases hx : wrapRes (stripOpt i).1 x with
      | error e' => rw [hx] at ih; exact ih.elim
      | ok y =>
        rw [hx] at ih
        have : y = showT i a := ih
        subst this
        show _ = _
        simp [someRes, showT]
  | _ =>
    simp only [stripOpt] at h ⊢
    simpa [someIter, wrapRes_zero] using h
termination_by t => tySize t
decreasing_by all_goals (subst_vars; simp [tySize])

theorem c10N_core (c : Cfg) (n : BNode) (t : Ty) : c10N c n t = c10N c n (stripOpt t).2 := by
  have h := stripOpt_notOpt _ (stripOpt_core t).1
  cases n <;> simp [c10N, h]

/-- from the statement for requests that are not an `Option` to every request. -/
theorem lift_br (c : Cfg) (n : BNode)
    (hcore : ∀ core, NotOpt core → c10N c n core = true → ∀ f o, (trTy core).height < f →
      SameT core (TextDoc.valueOfN .w1252 f (trTy core) o (docNode c n)) (valCoreG (textSem c) n core))
    (t : Ty) (h : c10N c n t = true) (f : Nat) (o : TextDe.Op) (hf : (trTy t).height < f) :
    SameT t (TextDoc.valueOfN .w1252 f (trTy t) o (docNode c n)) (nodeVia (valCoreG (textSem c) n) t) := by
  have hh := height_peel t
  have hk : f = (f - (stripOpt t).1) + (stripOpt t).1 := by omega
  rw [hk, valueOfN_peel]
  unfold nodeVia
  exact sameT_peel _ _ t (hcore _ (stripOpt_core t).1 (by rw [← c10N_core]; exact h) _ o (by omega))

/-! ### struct bookkeeping, nested values -/

def SlotsInvT (decl : Fields) (seen : List (Nat × TextDe.Val)) (slots : List (Option String)) : Prop :=
  ∀ i n tk t, decl.get? i = some (n, tk, t) → slots[i]? = some ((TextDe.seenGet i seen).map (showT t))

def SameFinishT (suffix : Fields) (acc : List String) : TextDe.R (List (Bytes × TextDe.Val)) → Res String → Prop
  | .ok kvs, .ok x => x = "{" ++ joinComma (acc ++ showStT suffix kvs) ++ "}"
  | .error e, .error e' => ErrRel e e'
  | _, _ => False

theorem sameFinishT_cons {n : String} {tk : Nat} {t : Ty} {rest : Fields} {acc : List String} {v : TextDe.Val}
    {r : TextDe.R (List (Bytes × TextDe.Val))} {x : Res String}
    (h : SameFinishT rest (acc ++ [n ++ "=" ++ showT t v]) r x) :
    SameFinishT (.cons n tk t rest) acc (r.map (fun tl => (strBytes n, v) :: tl)) x := by
  cases r with
  | error e => cases x with
    | error e' => exact h
    | ok y => exact h.elim
  | ok kvs => cases x with
    | error e' => exact h.elim
    | ok y =>
      have : y = "{" ++ joinComma ((acc ++ [n ++ "=" ++ showT t v]) ++ showStT rest kvs) ++ "}" := h
      show y = _
      rw [this]; simp [showStT, Except.map]

theorem finish_agreeT (seen : List (Nat × TextDe.Val)) : ∀ (suffix : Fields) (off : Nat) (sl : List (Option String)) (acc : List String),
    (∀ j n tk t, suffix.get? j = some (n, tk, t) → sl[j]? = some ((TextDe.seenGet (off + j) seen).map (showT t))) →
    SameFinishT suffix acc (TextDe.structFinish (trFields suffix) off seen) (structFinish suffix sl acc)
  | .nil, off, sl, acc, _ => by
    show _ = _
    simp [showStT]
  | .cons n tk t rest, off, sl, acc, h => by
    have h0 := h 0 n tk t (by simp [Fields.get?])
    cases sl with
    | nil => simp at h0
    | cons s0 ss =>
      simp only [List.getElem?_cons_zero, Option.some.injEq, Nat.add_zero] at h0
      have hss : ∀ j n' tk' t', rest.get? j = some (n', tk', t') →
          ss[j]? = some ((TextDe.seenGet (off + 1 + j) seen).map (showT t')) := by
        intro j n' tk' t' hj
        have := h (j + 1) n' tk' t' (by simpa [Fields.get?] using hj)
        simpa [Nat.add_assoc, Nat.add_comm 1 j] using this
      simp only [trFields, TextDe.structFinish, structFinish]
      cases hsg : TextDe.seenGet off seen with
      | some v =>
        rw [hsg] at h0; subst h0
        simp only [Option.map_some]
        exact sameFinishT_cons (finish_agreeT seen rest (off + 1) ss _ hss)
      | none =>
        rw [hsg] at h0; subst h0
        simp only [Option.map_none]
        cases t with
        | opt i =>
          simp only [trTy]
          have := sameFinishT_cons (v := .none) (finish_agreeT seen rest (off + 1) ss (acc ++ [n ++ "=" ++ showT (.opt i) .none]) hss)
            (tk := tk) (t := .opt i)
          have e : n ++ "=" ++ "none" = n ++ "=none" := by rw [String.append_assoc]; rfl
          simp only [showT, e] at this
          exact this
        | _ => exact ErrRel.missing n

theorem sameT_finish (decl : Fields) (r : TextDe.R (List (Bytes × TextDe.Val))) (x : Res String)
    (h : SameFinishT decl [] r x) : SameT (.struct decl) (r.map TextDe.Val.st) x := by
  cases r with
  | error e => cases x with
    | error e' => exact h
    | ok y => exact h.elim
  | ok kvs => cases x with
    | error e' => exact h.elim
    | ok y =>
      have : y = "{" ++ joinComma ([] ++ showStT decl kvs) ++ "}" := h
      show y = _
      simpa [showT] using this

theorem slotsInvT_set (decl : Fields) (seen : List (Nat × TextDe.Val)) (slots : List (Option String)) (i : Nat)
    (n : String) (tk : Nat) (t : Ty) (hg : decl.get? i = some (n, tk, t))
    (x : TextDe.Val) (hn : TextDe.seenGet i seen = none) (h : SlotsInvT decl seen slots) :
    SlotsInvT decl (seen ++ [(i, x)]) (slots.set i (some (showT t x))) := by
  intro j n' tk' t' hj
  rw [seenGet_append]
  by_cases hji : j = i
  · subst hji
    rw [hg] at hj; simp only [Option.some.injEq, Prod.mk.injEq] at hj
    obtain ⟨_, _, rfl⟩ := hj
    have := h j n tk t hg
    have hlen : j < slots.length := by
      rcases Nat.lt_or_ge j slots.length with hl | hl
      · exact hl
      · rw [List.getElem?_eq_none hl] at this; simp at this
    simp [hn, List.getElem?_set_self hlen]
  · have := h j n' tk' t' hj
    rw [List.getElem?_set_ne (Ne.symm hji), this]
    cases TextDe.seenGet j seen <;> simp [hji]

theorem slotsInvT_init (decl : Fields) : SlotsInvT decl [] (slotsInit decl) := by
  intro i n tk t hg
  have := (get?_size decl i n tk t hg).2
  simp [slotsInit, TextDe.seenGet, List.getElem?_replicate, this]

/-- keys of the fragment: their text form, and what both sides make of it. -/
theorem keyOK_text (c : Cfg) (k : BLeaf) (h : keyOK c k = true) :
    ∃ kb, leafText c k = some kb ∧ (textSem c).key k = .ok (.str (decode1252 kb)) ∧
      (textSem c).leaf .str k = .ok ("s" ++ hexBytes (decode1252 kb)) := by
  cases k <;> simp [keyOK] at h <;>
    simp [textSem, textLeaf, leafText, textScalarVal, visitPrim]
  rename_i n
  cases hr : resolve c n with
  | none => simp [hr] at h
  | some name => simp

def MapRel (vt : Ty) : TextDe.R (List (TextDe.Val × TextDe.Val)) → Res (List String) → Prop
  | .ok kvs, .ok items => items = kvs.map (fun kv => showVal kv.1 ++ "=" ++ showT vt kv.2)
  | .error e, .error e' => ErrRel e e'
  | _, _ => False

def SeqRel (et : Ty) (sacc : List String) : TextDe.R (List TextDe.Val) → Res (List String) → Prop
  | .ok xs, .ok items => items = sacc ++ xs.map (fun v => showT et v)
  | .error e, .error e' => ErrRel e e'
  | _, _ => False

theorem c10ok_bridge (core : Ty) (l : BLeaf) (h : c10ok core l = true) : bridgeCore core = true := by
  cases core <;> cases l <;> simp [c10ok, bridgeCore] at *

theorem showT_bridge (core : Ty) (hb : bridgeCore core = true) (a : TextDe.Val) : showT core a = showVal a := by
  cases core <;> simp [bridgeCore] at hb <;> cases a <;> rfl

theorem sameLeaf_T (core : Ty) (hb : bridgeCore core = true) (r : TextDe.R TextDe.Val) (x : Res String)
    (h : SameLeaf r x) : SameT core r x := by
  cases r with
  | error e => cases x with
    | error e' => exact h
    | ok y => exact h.elim
  | ok a => cases x with
    | error e' => exact h.elim
    | ok y =>
      have : y = showVal a := h
      show y = _
      rw [showT_bridge core hb]; exact this

/-! ### the bridge, by mutual recursion over the document -/

mutual
theorem br_core (c : Cfg) (n : BNode) (core : Ty) (hno : NotOpt core) (h : c10N c n core = true) (f : Nat)
    (o : TextDe.Op) (hf : (trTy core).height < f) :
    SameT core (TextDoc.valueOfN .w1252 f (trTy core) o (docNode c n)) (valCoreG (textSem c) n core) := by
  obtain ⟨g, rfl⟩ : ∃ g, f = g + 1 := ⟨f - 1, by omega⟩
  have hso := stripOpt_notOpt core hno
  cases n with
  | leaf l =>
    simp only [c10N, Bool.and_eq_true, hso] at h
    obtain ⟨⟨_, hs⟩, hok⟩ := h
    cases hls : leafText c l with
    | none => simp [hls] at hs
    | some s =>
      have hb := c10ok_bridge core l hok
      have := node_agree c l s hls (nodeQuoted (.leaf l)) o core (g + 1) (by rw [hso]; exact hb) (by rw [hso]; omega)
      unfold nodeVia at this
      rw [hso] at this
      simp only [wrapRes_zero] at this
      simp only [docNode, hls, Option.getD_some]
      exact sameLeaf_T core hb _ _ this
  | rgb col => simp [c10N] at h
  | obj fs0 =>
    simp only [c10N, Bool.and_eq_true, hso] at h
    have hdn : docNode c (.obj fs0) = .obj (docFieldsN c fs0) := by
      cases fs0 with
      | nil => simp [BFields.isNil] at h
      | cons g k v rest => simp [docNode]
    rw [hdn]
    generalize fs0 = fs at h ⊢
    cases core with
    | struct decl =>
      have hF : ∀ i n tk t, decl.get? i = some (n, tk, t) → (trTy t).height < g := by
        intro i n tk t hg
        have := height_get decl i n tk t hg
        simp only [trTy, TextDe.Ty.height] at hf
        omega
      have := br_st c fs decl g hF h.2 [] (slotsInit decl) (slotsInvT_init decl)
      simp only [trTy, TextDoc.valueOfN, valCoreG]
      simp only [finishOf] at this
      exact this
    | map vt =>
      have hv : (trTy vt).height < g := by simp only [trTy, TextDe.Ty.height] at hf; omega
      have := br_mp c fs vt g hv h.2 [] [] rfl
      simp only [trTy, TextDoc.valueOfN, valCoreG]
      cases hm : TextDoc.mapVals .w1252 (TextDoc.valueOfN .w1252 g (trTy vt)) (docFieldsN c fs) [] with
      | error e =>
        rw [hm] at this
        cases hx : valMapG (textSem c) fs vt [] with
        | error e' => rw [hx] at this; exact this
        | ok items => rw [hx] at this; exact this.elim
      | ok kvs =>
        rw [hm] at this
        cases hx : valMapG (textSem c) fs vt [] with
        | error e' => rw [hx] at this; exact this.elim
        | ok items =>
          rw [hx] at this
          have : items = kvs.map (fun kv => showVal kv.1 ++ "=" ++ showT vt kv.2) := this
          show _ = _
          simp [Except.map, showT, this]
    | ign => show _ = _; rfl
    | _ => simp at h
  | arr vs =>
    simp only [c10N, Bool.and_eq_true, hso] at h
    cases core with
    | seq et =>
      have hv : (trTy et).height < g := by simp only [trTy, TextDe.Ty.height] at hf; omega
      have := br_sq c vs et g hv h.2 []
      simp only [docNode, trTy, TextDoc.valueOfN, valCoreG, expand_docNodes]
      cases hm : TextDoc.seqVals (TextDoc.valueOfN .w1252 g (trTy et) .eq) (docNodes c vs) with
      | error e =>
        rw [hm] at this
        cases hx : valNodesG (textSem c) vs et [] with
        | error e' => rw [hx] at this; exact this
        | ok items => rw [hx] at this; exact this.elim
      | ok xs =>
        rw [hm] at this
        cases hx : valNodesG (textSem c) vs et [] with
        | error e' => rw [hx] at this; exact this.elim
        | ok items =>
          rw [hx] at this
          have : items = [] ++ xs.map (fun v => showT et v) := this
          show _ = _
          simp [Except.map, showT, this]
    | ign => show _ = _; rfl
    | _ => simp at h
theorem br_st (c : Cfg) (fs : BFields) (decl : Fields) (F : Nat)
    (hF : ∀ i n tk t, decl.get? i = some (n, tk, t) → (trTy t).height < F) (h : c10St c decl fs = true)
    (seen : List (Nat × TextDe.Val)) (slots : List (Option String)) (hinv : SlotsInvT decl seen slots) :
    SameT (.struct decl)
      (finishOf decl (TextDoc.structVals .w1252 (trFields decl) (TextDoc.valueOfN .w1252 F) (docFieldsN c fs) seen))
      (valStructG (textSem c) fs decl false slots) := by
  cases fs with
  | nil =>
    simp only [docFieldsN, TextDoc.structVals, finishOf, valStructG]
    exact sameT_finish decl _ _ (finish_agreeT seen decl 0 slots [] (by
      intro j n tk t hj; simpa using hinv j n tk t hj))
  | cons gh k v rest =>
    simp only [c10St, Bool.and_eq_true] at h
    obtain ⟨⟨⟨hk, _⟩, hv⟩, hrest⟩ := h
    obtain ⟨kb, hkb, hkey, _⟩ := keyOK_text c k hk
    rw [valStructG_cons_false]
    have hwt : whichOf (textSem c) decl k = .ok (decl.posName (decode1252 kb) 0) := by
      simp [whichOf, hkey, fieldOfPrim]
    have hwb : whichOf (binSem c) decl k = .ok (decl.posName (decode1252 kb) 0) := by
      rw [← hwt]; unfold whichOf; rw [keyOK_agree c k hk]
    rw [hwt]
    rw [hwb] at hv
    simp only [docFieldsN, hkb, Option.getD_some, TextDoc.structVals]
    rw [← decode1252_eq]
    obtain ⟨la1, la2⟩ := lookup_agree decl (decode1252 kb) 0
    cases hp : decl.posName (decode1252 kb) 0 with
    | none =>
      simp only [la1 hp, structStepSpec]
      exact br_st c rest decl F hF hrest seen slots hinv
    | some i =>
      obtain ⟨n, tk, t, g1, _, g3, g4⟩ := la2 i hp
      simp only [Nat.sub_zero] at g1
      simp only [g4, structStepSpec, hinv i n tk t g1, g1]
      have hvt : c10N c v t = true := by simpa [hp, g1] using hv
      cases hsg : TextDe.seenGet i seen with
      | some x =>
        simp only [Option.isSome_some, if_true, Option.map_some, finishOf]
        rw [← g3]; exact ErrRel.duplicate n
      | none =>
        simp only [Option.isSome_none, Bool.false_eq_true, if_false, Option.map_none]
        have hna := lift_br c v (fun core hno hc f o hf => br_core c v core hno hc f o hf) t hvt F .eq (hF i n tk t g1)
        cases hx : TextDoc.valueOfN .w1252 F (trTy t) .eq (docNode c v) with
        | error e =>
          cases hy : nodeVia (valCoreG (textSem c) v) t with
          | error e' => rw [hx, hy] at hna; simp only [finishOf]; exact hna
          | ok y => rw [hx, hy] at hna; exact hna.elim
        | ok x =>
          cases hy : nodeVia (valCoreG (textSem c) v) t with
          | error e' => rw [hx, hy] at hna; exact hna.elim
          | ok y =>
            rw [hx, hy] at hna
            have : y = showT t x := hna
            subst this
            exact br_st c rest decl F hF hrest _ _ (slotsInvT_set decl seen slots i n tk t g1 x hsg hinv)
theorem br_mp (c : Cfg) (fs : BFields) (vt : Ty) (F : Nat) (hF : (trTy vt).height < F) (h : c10Mp c vt fs = true)
    (acc : List (TextDe.Val × TextDe.Val)) (sacc : List String)
    (hacc : sacc = acc.map (fun kv => showVal kv.1 ++ "=" ++ showT vt kv.2)) :
    MapRel vt (TextDoc.mapVals .w1252 (TextDoc.valueOfN .w1252 F (trTy vt)) (docFieldsN c fs) acc)
      (valMapG (textSem c) fs vt sacc) := by
  cases fs with
  | nil => simp only [docFieldsN, TextDoc.mapVals, valMapG]; exact hacc
  | cons gh k v rest =>
    simp only [c10Mp, Bool.and_eq_true] at h
    obtain ⟨⟨⟨hk, _⟩, hv⟩, hrest⟩ := h
    obtain ⟨kb, hkb, _, hleaf⟩ := keyOK_text c k hk
    simp only [docFieldsN, hkb, Option.getD_some, TextDoc.mapVals, valMapG, hleaf]
    have hna := lift_br c v (fun core hno hc f o hf => br_core c v core hno hc f o hf) vt hv F .eq hF
    cases hx : TextDoc.valueOfN .w1252 F (trTy vt) .eq (docNode c v) with
    | error e =>
      cases hy : nodeVia (valCoreG (textSem c) v) vt with
      | error e' => rw [hx, hy] at hna; exact hna
      | ok y => rw [hx, hy] at hna; exact hna.elim
    | ok x =>
      cases hy : nodeVia (valCoreG (textSem c) v) vt with
      | error e' => rw [hx, hy] at hna; exact hna.elim
      | ok y =>
        rw [hx, hy] at hna
        have : y = showT vt x := hna
        subst this
        exact br_mp c rest vt F hF hrest _ _ (by simp [hacc, showVal, decode1252_eq])
theorem br_sq (c : Cfg) (vs : BNodes) (et : Ty) (F : Nat) (hF : (trTy et).height < F) (h : c10Sq c et vs = true)
    (sacc : List String) :
    SeqRel et sacc (TextDoc.seqVals (TextDoc.valueOfN .w1252 F (trTy et) .eq) (docNodes c vs))
      (valNodesG (textSem c) vs et sacc) := by
  cases vs with
  | nil => simp only [docNodes, TextDoc.seqVals, valNodesG]; show _ = _; simp
  | cons v rest =>
    simp only [c10Sq, Bool.and_eq_true] at h
    simp only [docNodes, TextDoc.seqVals, valNodesG]
    have hna := lift_br c v (fun core hno hc f o hf => br_core c v core hno hc f o hf) et h.1 F .eq hF
    cases hx : TextDoc.valueOfN .w1252 F (trTy et) .eq (docNode c v) with
    | error e =>
      cases hy : nodeVia (valCoreG (textSem c) v) et with
      | error e' => rw [hx, hy] at hna; exact hna
      | ok y => rw [hx, hy] at hna; exact hna.elim
    | ok x =>
      cases hy : nodeVia (valCoreG (textSem c) v) et with
      | error e' => rw [hx, hy] at hna; exact hna.elim
      | ok y =>
        rw [hx, hy] at hna
        have : y = showT et x := hna
        subst this
        have ih := br_sq c rest et F hF h.2 (sacc ++ [showT et x])
        dsimp only
        cases hm : TextDoc.seqVals (TextDoc.valueOfN .w1252 F (trTy et) .eq) (docNodes c rest) with
        | error e =>
          rw [hm] at ih
          cases hz : valNodesG (textSem c) rest et (sacc ++ [showT et x]) with
          | error e' => rw [hz] at ih; exact ih
          | ok items => rw [hz] at ih; exact ih.elim
        | ok xs =>
          rw [hm] at ih
          cases hz : valNodesG (textSem c) rest et (sacc ++ [showT et x]) with
          | error e' => rw [hz] at ih; exact ih.elim
          | ok items =>
            rw [hz] at ih
            have : items = (sacc ++ [showT et x]) ++ xs.map (fun v => showT et v) := ih
            show _ = _
            simp [this]
end

theorem valueOfN_map_obj (f : Nat) (t : TextDe.Ty) (o : TextDe.Op) (dfs : List (TextDoc.Key × TextDe.Op × TextDoc.Node)) :
    TextDoc.valueOfN .w1252 (f + 1) (.map t) o (.obj dfs) =
      (TextDoc.mapVals .w1252 (TextDoc.valueOfN .w1252 f t) dfs []).map TextDe.Val.map := by
  simp only [TextDoc.valueOfN]

/-- the root request as a plain type. -/
def rootCore : RootTy → Ty
  | .plain t => t
  | .tok fs => .struct fs

/-- (the two TEXT references agree on NESTED documents) for every document and root request of the nested shared
fragment (`c10Root`): this slice's `valueOfText` over the logical document and the text slice's `valueOf` over the
text document `docFieldsN` have the same outcome - the same value (read with the request: `showT`), or the same
missing / duplicate / type error. -/
theorem valueOfText_bridge_nested (c : Cfg) (ty : RootTy) (d : BDoc) (h : c10Root c ty d = true) :
    SameT (rootCore ty) (TextDoc.valueOf .w1252 (trTy (rootCore ty)) (docFieldsN c d)) (valueOfText c ty d) := by
  cases ty with
  | tok fs => simp [c10Root] at h
  | plain t =>
    cases t with
    | struct decl =>
      simp only [c10Root] at h
      have hF : ∀ i n tk t, decl.get? i = some (n, tk, t) → (trTy t).height < TextDe.Ty.heightFs (trFields decl) + 1 := by
        intro i n tk t hg
        have := height_get decl i n tk t hg
        omega
      have := br_st c d decl _ hF h [] (slotsInit decl) (slotsInvT_init decl)
      simp only [rootCore, trTy, valueOfText, valueOfG, TextDoc.valueOf, TextDe.Ty.height, TextDoc.valueOfN]
      simp only [finishOf] at this
      exact this
    | map vt =>
      simp only [c10Root] at h
      have := br_mp c d vt ((trTy vt).height + 1) (by omega) h [] [] rfl
      simp only [rootCore, trTy, valueOfText, valueOfG, TextDoc.valueOf, TextDe.Ty.height]
      rw [valueOfN_map_obj]
      cases hm : TextDoc.mapVals .w1252 (TextDoc.valueOfN .w1252 ((trTy vt).height + 1) (trTy vt)) (docFieldsN c d) [] with
      | error e =>
        rw [hm] at this
        cases hx : valMapG (textSem c) d vt [] with
        | error e' => rw [hx] at this; exact this
        | ok items => rw [hx] at this; exact this.elim
      | ok kvs =>
        rw [hm] at this
        cases hx : valMapG (textSem c) d vt [] with
        | error e' => rw [hx] at this; exact this.elim
        | ok items =>
          rw [hx] at this
          have : items = kvs.map (fun kv => showVal kv.1 ++ "=" ++ showT vt kv.2) := this
          show _ = _
          simp [Except.map, showT, this]
    | _ => simp [c10Root] at h

end Jomini.BinDe
