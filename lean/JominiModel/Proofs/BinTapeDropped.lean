import JominiModel.Proofs.BinTapeMirror
/-
C03, completeness half of "the tape mirrors the lexeme stream": the lexeme list of every accepted
input is an interleaving of the flattened tape and the dropped lexemes, and every dropped lexeme is
dropped for one of four recorded causes (`DropKind`, Spec/BinTapeLex.lean).
-/
namespace Jomini.BinTape
open Jomini

theorem InterT.keep : ∀ (A : List Lx), InterT A [] A
  | [] => .nil
  | x :: A => .left x (InterT.keep A)

theorem InterT.drop : ∀ (D : List (Lx × DropKind)), InterT [] D (D.map Prod.fst)
  | [] => .nil
  | p :: D => .right p (InterT.drop D)

theorem InterT.append {A A' : List Lx} {D D' : List (Lx × DropKind)} {C C' : List Lx}
    (h : InterT A D C) (h' : InterT A' D' C') : InterT (A ++ A') (D ++ D') (C ++ C') := by
  induction h with
  | nil => simpa using h'
  | left x _ ih => exact .left x ih
  | right p _ ih => exact .right p ih

/-- composition: if `M` is kept/dropped out of `K`, and `N` kept/dropped out of `M`, then `N` is
kept/dropped out of `K`, the dropped lexemes being those of either stage -/
theorem InterT.comp {M K : List Lx} {D : List (Lx × DropKind)} (h2 : InterT M D K) :
    ∀ {N : List Lx} {E : List (Lx × DropKind)}, InterT N E M →
      ∃ D', InterT N D' K ∧ ∀ p ∈ D', p ∈ E ∨ p ∈ D := by
  induction h2 with
  | nil =>
    intro N E h1
    cases h1
    exact ⟨[], .nil, by simp⟩
  | left x _ ih =>
    intro N E h1
    cases h1 with
    | left _ h1' =>
      obtain ⟨D', hd, hm⟩ := ih h1'
      exact ⟨D', .left x hd, hm⟩
    | right p h1' =>
      obtain ⟨D', hd, hm⟩ := ih h1'
      refine ⟨p :: D', .right p hd, ?_⟩
      intro q hq
      simp at hq
      rcases hq with rfl | hq
      · exact Or.inl (by simp)
      · rcases hm q hq with h | h
        · exact Or.inl (by simp [h])
        · exact Or.inr h
  | right p _ ih =>
    intro N E h1
    obtain ⟨D', hd, hm⟩ := ih h1
    refine ⟨p :: D', .right p hd, ?_⟩
    intro q hq
    simp at hq
    rcases hq with rfl | hq
    · exact Or.inr (by simp)
    · rcases hm q hq with h | h
      · exact Or.inl h
      · exact Or.inr (by simp [h])

theorem InterT.perm {A : List Lx} {D : List (Lx × DropKind)} {C : List Lx} (h : InterT A D C) :
    C.Perm (A ++ D.map Prod.fst) := by
  induction h with
  | nil => simp
  | left x _ ih => exact List.Perm.cons x ih
  | @right p A D C _ ih =>
    have : (p.1 :: C).Perm (p.1 :: (A ++ D.map Prod.fst)) := List.Perm.cons _ ih
    exact this.trans (by simpa using (List.perm_middle (a := p.1) (l₁ := A) (l₂ := D.map Prod.fst)).symm)

theorem InterT.sublist {A : List Lx} {D : List (Lx × DropKind)} {C : List Lx} (h : InterT A D C) : A.Sublist C := by
  induction h with
  | nil => exact List.Sublist.refl _
  | left x _ ih => exact ih.cons_cons x
  | right p _ ih => exact ih.cons _

/-- the accounting relation carried through the loop: of `flat old ++ (lexemes read)`, what is kept
is `flat new`, what is dropped is `E`, each with its cause -/
def StepAcc (st st' : St) : Prop :=
  ∀ L, Lexes st.data L → ∃ L1 L2 E, L = L1 ++ L2 ∧ Lexes st'.data L2 ∧
    InterT (flat st'.tape) E (flat st.tape ++ L1) ∧ ∀ p ∈ E, DropOk p

theorem acc_keep {A N L1 : List Lx} (h : N = A ++ L1) : InterT N [] (A ++ L1) := by
  subst h; exact InterT.keep _

theorem acc_drop {A : List Lx} (E : List (Lx × DropKind)) : InterT A E (A ++ E.map Prod.fst) := by
  have := InterT.append (InterT.keep A) (InterT.drop E)
  simpa using this

theorem scalarArm_acc {r : Except Err (Tape × Bytes)} {tape : Tape} {parent : Nat} {state : PState} {st' : St}
    {dp : Bytes}
    (hr : ∀ T' d', r = .ok (T', d') → ∃ x, T' = tape ++ [x] ∧ flatten x = [.tok x] ∧ lexOne dp = some (.tok x, d'))
    (h : scalarArm r parent state = .ok st') : StepAcc ⟨tape, parent, state, dp⟩ st' := by
  unfold scalarArm at h
  cases r with
  | error e => cases h
  | ok p =>
    obtain ⟨T', d'⟩ := p
    obtain ⟨x, rfl, hx, hl⟩ := hr T' d' rfl
    simp only at h
    cases hn : nextState state with
    | none => simp [hn] at h
    | some s' =>
      simp [hn] at h; subst h
      intro L hL
      obtain ⟨L', rfl, hL'⟩ := hL.uncons hl
      exact ⟨[.tok x], L', [], rfl, hL', acc_keep (by simp [hx]), by simp⟩

/-- what the only_empties test accepts: `{}` pairs, then at most one more token -/
theorem allEmptyPairs_tagged : ∀ (l : Tape), allEmptyPairs l = true →
    ∃ E : List (Lx × DropKind), E.map Prod.fst = flat l ∧
      ∀ p ∈ E, (p.2 = .emptyRun ∧ (p.1 = .open_ ∨ p.1 = .close)) ∨ p.2 = .oddToken
  | [], _ => ⟨[], rfl, by simp⟩
  | [y], _ => ⟨(flatten y).map (fun x => (x, .oddToken)), by simp [Function.comp_def], by
      intro p hp; simp at hp; obtain ⟨_, _, rfl⟩ := hp; exact Or.inr rfl⟩
  | a :: b :: rest, h => by
    cases a <;> cases b <;> simp [allEmptyPairs] at h
    obtain ⟨E, hE, hp⟩ := allEmptyPairs_tagged rest h.2
    refine ⟨(.open_, .emptyRun) :: (.close, .emptyRun) :: E, by simp [hE, flatten], ?_⟩
    intro p hpm
    simp at hpm
    rcases hpm with rfl | rfl | hpm
    · exact Or.inl ⟨rfl, Or.inl rfl⟩
    · exact Or.inl ⟨rfl, Or.inr rfl⟩
    · exact hp p hpm

theorem equalArm_acc {tape : Tape} {parent : Nat} {state : PState} {d dp : Bytes} {st' : St}
    (hr : readId dp = some (L.equal, d)) (h : equalArm tape parent state d = .ok st') :
    StepAcc ⟨tape, parent, state, dp⟩ st' := by
  intro L hL
  obtain ⟨L', rfl, hL'⟩ := hL.uncons (lexOne_equal hr)
  have hdropEq : ∀ A : List Lx, InterT A [(.equal, .eqAfterKey)] (A ++ [.equal]) := fun A => acc_drop _
  have hokEq : ∀ p ∈ [((Lx.equal, DropKind.eqAfterKey) : Lx × DropKind)], DropOk p := by
    intro p hp; simp at hp; subst hp; rfl
  unfold equalArm at h
  split at h
  · simp at h; subst h; exact ⟨[.equal], L', _, rfl, hL', hdropEq _, hokEq⟩
  · cases hso : setParentToObject tape parent with
    | error e => simp [hso] at h
    | ok t2 =>
      simp [hso] at h; subst h
      refine ⟨[.equal], L', _, rfl, hL', ?_, hokEq⟩
      simp only; rw [setParentToObject_flat hso]; exact hdropEq _
  · simp at h; subst h; exact ⟨[.equal], L', [], rfl, hL', acc_keep (by simp [flatten]), by simp⟩
  · cases hp : pop? tape with
    | none => simp [hp] at h
    | some p =>
      obtain ⟨t1, last⟩ := p
      have ht := pop?_length hp
      subst ht
      simp only [hp] at h
      split at h
      · cases h
      · cases h
      · split at h
        · rename_i hoe
          cases hso : setParentToObject t1 parent with
          | error e => simp [hso] at h
          | ok t2 =>
            simp [hso] at h; subst h
            -- t1 = take (parent+1) ++ drop (parent+1); the dropped run is `{}` pairs (+ one odd token)
            simp only [onlyEmpties, Bool.and_eq_true] at hoe
            obtain ⟨E, hE, hEp⟩ := allEmptyPairs_tagged _ hoe.2
            refine ⟨[.equal], L', E ++ [(.equal, .eqAfterKey)], rfl, hL', ?_, ?_⟩
            · have hsplit : flat t1 = flat (t2.take (parent + 1)) ++ flat (t1.drop (parent + 1)) := by
                obtain ⟨e, he, rfl⟩ := setParentToObject_ok hso
                have h1 : flat ((t1.set parent (.object e)).take (parent + 1)) = flat (t1.take (parent + 1)) := by
                  have hl := getElem?_lt_length he
                  rw [List.take_set]
                  exact flat_set_same (y := .array e) (by rw [List.getElem?_take_of_lt (by omega)]; exact he) rfl
                rw [h1, ← flat_append, List.take_append_drop]
              simp only [flat_append, flat_cons, flat_nil, List.append_nil]
              rw [hsplit, ← hE]
              have := InterT.append (InterT.append (InterT.append (InterT.keep (flat (t2.take (parent + 1)))) (InterT.drop E))
                (InterT.keep (flatten last))) (InterT.drop [((Lx.equal, DropKind.eqAfterKey) : Lx × DropKind)])
              simpa [List.append_assoc] using this
            · intro p hp
              simp at hp
              rcases hp with hp | rfl
              · rcases hEp p hp with ⟨hk, hx⟩ | hk
                · unfold DropOk; rw [hk]; exact hx
                · unfold DropOk; rw [hk]; trivial
              · rfl
        · simp at h; subst h
          exact ⟨[.equal], L', [], rfl, hL', acc_keep (by simp [flatten]), by simp⟩
  · cases h

theorem tokenArm_acc {tape : Tape} {parent : Nat} {state : PState} {d dp : Bytes} {tok : Nat} {st' : St}
    (hr : readId dp = some (tok, d)) (h : tokenArm false 0 tape parent state d tok = .ok st') :
    StepAcc ⟨tape, parent, state, dp⟩ st' := by
  unfold tokenArm at h
  by_cases c1 : tok = L.u32
  · subst c1; rw [if_pos rfl] at h
    refine scalarArm_acc ?_ h
    intro T' d' hh; obtain ⟨hd, h1, h2⟩ := parseFixed_split hh
    exact ⟨_, h2, rfl, lexOne_fixed_u32 hr h1⟩
  rw [if_neg c1] at h
  by_cases c2 : tok = L.u64
  · subst c2; rw [if_pos rfl] at h
    refine scalarArm_acc ?_ h
    intro T' d' hh; obtain ⟨hd, h1, h2⟩ := parseFixed_split hh
    exact ⟨_, h2, rfl, lexOne_fixed_u64 hr h1⟩
  rw [if_neg c2] at h
  by_cases c3 : tok = L.i32
  · subst c3; rw [if_pos rfl] at h
    cases hsa : scalarArm (parseI32 tape d) parent state with
    | error e => simp [hsa] at h
    | ok st =>
      simp [hsa] at h; subst h
      refine scalarArm_acc ?_ hsa
      intro T' d' hh; obtain ⟨hd, h1, h2⟩ := parseFixed_split hh
      exact ⟨_, h2, rfl, lexOne_fixed_i32 hr h1⟩
  rw [if_neg c3] at h
  by_cases c4 : tok = L.bool
  · subst c4; rw [if_pos rfl] at h
    refine scalarArm_acc ?_ h
    intro T' d' hh
    unfold parseBool at hh
    cases hb : readBool d with
    | none => simp [hb] at hh
    | some p => obtain ⟨b, r⟩ := p; simp [hb] at hh; obtain ⟨rfl, rfl⟩ := hh; exact ⟨_, rfl, rfl, lexOne_bool hr hb⟩
  rw [if_neg c4] at h
  by_cases c5 : tok = L.quoted
  · subst c5; rw [if_pos rfl] at h
    refine scalarArm_acc ?_ h
    intro T' d' hh
    unfold parseQuoted at hh
    cases hb : readString d with
    | none => simp [hb] at hh
    | some p => obtain ⟨b, r⟩ := p; simp [hb] at hh; obtain ⟨rfl, rfl⟩ := hh; exact ⟨_, rfl, rfl, lexOne_quoted hr hb⟩
  rw [if_neg c5] at h
  by_cases c6 : tok = L.unquoted
  · subst c6; rw [if_pos rfl] at h
    refine scalarArm_acc ?_ h
    intro T' d' hh
    unfold parseUnquoted at hh
    cases hb : readString d with
    | none => simp [hb] at hh
    | some p => obtain ⟨b, r⟩ := p; simp [hb] at hh; obtain ⟨rfl, rfl⟩ := hh; exact ⟨_, rfl, rfl, lexOne_unquoted hr hb⟩
  rw [if_neg c6] at h
  by_cases c7 : tok = L.f32
  · subst c7; rw [if_pos rfl] at h
    refine scalarArm_acc ?_ h
    intro T' d' hh; obtain ⟨hd, h1, h2⟩ := parseFixed_split hh
    exact ⟨_, h2, rfl, lexOne_fixed_f32 hr h1⟩
  rw [if_neg c7] at h
  by_cases c8 : tok = L.f64
  · subst c8; rw [if_pos rfl] at h
    refine scalarArm_acc ?_ h
    intro T' d' hh; obtain ⟨hd, h1, h2⟩ := parseFixed_split hh
    exact ⟨_, h2, rfl, lexOne_fixed_f64 hr h1⟩
  rw [if_neg c8] at h
  by_cases c9 : tok = L.open_
  · subst c9; rw [if_pos rfl] at h
    intro L hL
    obtain ⟨L', rfl, hL'⟩ := hL.uncons (lexOne_open hr)
    unfold openArm at h
    split at h
    · simp at h; subst h
      exact ⟨[.open_], L', [], rfl, hL', acc_keep (by simp [flatten]), by simp⟩
    · split at h
      · cases h
      · cases hrd : readId d with
        | none => simp [hrd] at h
        | some p =>
          obtain ⟨x, nd⟩ := p
          simp only [hrd] at h
          split at h
          · rename_i hx; subst hx
            simp at h; subst h
            obtain ⟨L'', rfl, hL''⟩ := hL'.uncons (lexOne_close hrd)
            refine ⟨[.open_, .close], L'', [(.open_, .ghost), (.close, .ghost)], rfl, hL'', acc_drop _, ?_⟩
            intro p hp; simp at hp
            rcases hp with rfl | rfl
            · exact Or.inl rfl
            · exact Or.inr rfl
          · cases h
  rw [if_neg c9] at h
  by_cases c10 : tok = L.close
  · subst c10; rw [if_pos rfl] at h
    intro L hL
    obtain ⟨L', rfl, hL'⟩ := hL.uncons (lexOne_close hr)
    unfold closeArm at h
    simp only at h
    split at h
    · cases h
    · rename_i tape1 hpre
      have h1 : flat tape1 = flat tape := by
        cases state <;> simp at hpre
        all_goals first | (subst hpre; rfl) | exact mixedInsert1_flat hpre
      cases hp : pushEnd tape1 parent with
      | error e => simp [hp] at h
      | ok p =>
        obtain ⟨a, b, c⟩ := p
        simp [hp] at h; subst h
        exact ⟨[.close], L', [], rfl, hL', acc_keep (by simp [pushEnd_flat hp, h1]), by simp⟩
  rw [if_neg c10] at h
  by_cases c11 : tok = L.equal
  · subst c11; rw [if_pos rfl] at h; exact equalArm_acc hr h
  rw [if_neg c11] at h
  by_cases c13 : tok = L.i64
  · subst c13
    have : ¬ (L.i64 = L.rgb ∧ state = .objectValue) := by intro hh; exact absurd hh.1 (by decide)
    rw [if_neg this, if_pos rfl] at h
    refine scalarArm_acc ?_ h
    intro T' d' hh; obtain ⟨hd, h1, h2⟩ := parseFixed_split hh
    exact ⟨_, h2, rfl, lexOne_fixed_i64 hr h1⟩
  have hid : lexOne dp = some (.tok (.token tok), d) :=
    lexOne_id hr ⟨c9, c10, c11, c1, c2, c3, c13, c7, c8, c4, c5, c6⟩
  by_cases c12 : tok = L.rgb ∧ state = .objectValue
  · rw [if_pos c12] at h
    unfold parseRgb at h
    cases hrg : readRgb d with
    | error e => simp [hrg] at h
    | ok p =>
      obtain ⟨t, rest⟩ := p
      simp [hrg] at h; subst h
      obtain ⟨rfl, _⟩ := c12
      intro L hL
      obtain ⟨L', rfl, hL'⟩ := hL.uncons hid
      obtain ⟨L2, rfl, hL2⟩ := readRgb_lexes hrg L' hL'
      obtain ⟨a, b, c, al, rfl⟩ := readRgb_isRgb hrg
      refine ⟨flatten (.rgb a b c al), L2, [], ?_, hL2, acc_keep (by simp), by simp⟩
      cases al <;> simp [flatten]
  rw [if_neg c12, if_neg c13] at h
  refine scalarArm_acc ?_ h
  intro T' d' hh; simp at hh; obtain ⟨rfl, rfl⟩ := hh
  exact ⟨_, rfl, rfl, hid⟩

theorem step_acc {st st' : St} (h : step st = .next st') : StepAcc st st' := by
  cases hr : readId st.data with
  | none => rw [step_done hr] at h; cases h
  | some p =>
    obtain ⟨tok, d⟩ := p
    rw [step_eq hr] at h
    cases hd : dispatch false 0 st.tape st.parent st.state d tok with
    | error x => simp [hd, Iter.ofExcept] at h
    | ok s =>
      simp [hd, Iter.ofExcept] at h; subst h
      unfold dispatch at hd
      split at hd
      · cases hm : mixedInsert2 st.tape with
        | error x => simp [hm] at hd
        | ok t =>
          simp only [hm] at hd
          have := tokenArm_acc (dp := st.data) hr hd
          intro L hL
          obtain ⟨L1, L2, E, h1, h2, h3, h4⟩ := this L hL
          exact ⟨L1, L2, E, h1, h2, by simpa [mixedInsert2_flat hm] using h3, h4⟩
      · exact tokenArm_acc (dp := st.data) hr hd

theorem reach_acc {a b : St} (h : Reach a b) : StepAcc a b := by
  obtain ⟨k, hk⟩ := h
  induction k generalizing a with
  | zero => simp [stepN] at hk; subst hk; intro L hL; exact ⟨[], L, [], rfl, hL, by simpa using InterT.keep _, by simp⟩
  | succ k ih =>
    cases hst : step a with
    | next a' =>
      simp only [stepN, hst] at hk
      intro L hL
      obtain ⟨L1, L2, E1, rfl, h2, h3, h4⟩ := step_acc hst L hL
      obtain ⟨M1, M2, E2, rfl, g2, g3, g4⟩ := ih hk L2 h2
      -- `flat a'` out of `flat a ++ L1` (E1); `flat b` out of `flat a' ++ M1` (E2)
      have h3' : InterT (flat a'.tape ++ M1) E1 (flat a.tape ++ L1 ++ M1) := by
        have := InterT.append h3 (InterT.keep M1); simpa using this
      obtain ⟨D', hd, hm⟩ := InterT.comp h3' g3
      refine ⟨L1 ++ M1, M2, D', by simp, g2, by simpa using hd, ?_⟩
      intro p hp
      rcases hm p hp with h | h
      · exact g4 p h
      · exact h4 p h
    | done => simp [stepN, hst] at hk
    | err e => simp [stepN, hst] at hk

/-- **what the tape leaves out, exactly**: the lexeme list of an accepted input is an interleaving
of the flattened tape and a list of dropped lexemes, each dropped for one of the four recorded causes -/
theorem parse_dropped (opt : Bool) (data : Bytes) (T : Tape) (h : parse opt data = .ok T) (L : List Lx)
    (hL : Lexes data L) : ∃ D : List (Lx × DropKind), InterT (flat T) D L ∧ ∀ p ∈ D, DropOk p := by
  have h' : parse false data = .ok T := by
    cases opt
    · exact h
    · rwa [parse_true_eq_false] at h
  obtain ⟨r, hr, hreach⟩ := run_false_ok_reach _ _ _ _ h'
  obtain ⟨L1, L2, E, rfl, hL2, h3, h4⟩ := reach_acc hreach L hL
  -- nothing is left to read: at most one stray byte
  have : L2 = [] := by
    cases hL2 with
    | done _ => rfl
    | cons hx _ =>
      have : readId r = none := by
        match r, hr with
        | [], _ => rfl
        | [_], _ => rfl
      simp [lexOne, this] at hx
  subst this
  exact ⟨E, by simpa [init] using h3, h4⟩

end Jomini.BinTape
