import JominiModel.Proofs.BinTapePairs
/-
C03, where an `Equal` token can stand: never directly behind an `End` token.  The parser pushes `Equal` only
in `ArrayValueMixed` (the last token is then not an `End`: a close leaves that state) and, together with the
marker, behind the token it has just popped, which is checked not to be an `End` (tape.rs:597).  Used by
`equalArm_move` to show that the token overlooked by the only_empties rewrite (`odd`) is never an `Equal`.
-/
namespace Jomini.BinTape

/-- no `Equal` token directly behind an `End` token -/
def NoEndEq (t : Tape) : Prop := ∀ i j, t[i]? = some (.end_ j) → t[i + 1]? ≠ some .equal

/-- the last token is not an `End` -/
def LastNotEnd (t : Tape) : Prop := ∀ t0 j, t ≠ t0 ++ [.end_ j]

/-- the invariant of the loop -/
def EInv (t : Tape) (s : PState) : Prop := NoEndEq t ∧ (s = .arrayValueMixed → LastNotEnd t)

theorem lastNotEnd_snoc {t : Tape} {x : BTok} (hx : ∀ j, x ≠ .end_ j) : LastNotEnd (t ++ [x]) := by
  intro t0 j h
  have := List.append_inj_right' h rfl
  simp at this; exact hx j this

theorem noEndEq_prefix {t r : Tape} (h : NoEndEq (t ++ r)) : NoEndEq t := by
  intro i j hi he
  have h1 := getElem?_lt_length hi
  have h2 := getElem?_lt_length he
  exact h i j (by rw [List.getElem?_append_left h1]; exact hi) (by rw [List.getElem?_append_left h2]; exact he)

theorem noEndEq_snoc {t : Tape} {x : BTok} (h : NoEndEq t) (hx : x = .equal → LastNotEnd t) : NoEndEq (t ++ [x]) := by
  intro i j hi he
  have h2 := getElem?_lt_length he
  simp at h2
  by_cases hlt : i + 1 < t.length
  · rw [List.getElem?_append_left hlt] at he
    rw [List.getElem?_append_left (by omega)] at hi
    exact h i j hi he
  · have hi1 : i + 1 = t.length := by omega
    rw [List.getElem?_append_left (by omega)] at hi
    rw [List.getElem?_append_right (by omega)] at he
    have hxe : x = .equal := by
      have : i + 1 - t.length = 0 := by omega
      rw [this] at he; simpa using he
    rcases List.eq_nil_or_concat t with ht | ⟨t0, z, ht⟩
    · subst ht; simp at hi1
    · rw [List.concat_eq_append] at ht
      subst ht
      have hl : i = t0.length := by simp at hi1; omega
      subst hl
      simp at hi
      exact hx hxe t0 j (by rw [hi])

theorem noEndEq_set {t : Tape} {p : Nat} {y : BTok} (h : NoEndEq t) (hy : ∀ j, y ≠ .end_ j) (hye : y ≠ .equal) :
    NoEndEq (t.set p y) := by
  intro i j hi he
  rw [List.getElem?_set] at hi he
  by_cases c1 : p = i
  · rw [if_pos c1] at hi
    split at hi
    · simp at hi; exact hy j hi
    · cases hi
  · rw [if_neg c1] at hi
    by_cases c2 : p = i + 1
    · rw [if_pos c2] at he
      split at he
      · simp at he; exact hye he
      · cases he
    · rw [if_neg c2] at he
      exact h i j hi he

theorem noEndEq_take {t : Tape} (k : Nat) (h : NoEndEq t) : NoEndEq (t.take k) := by
  rw [← List.take_append_drop k t] at h
  exact noEndEq_prefix h

/-- two adjacent tokens of a tape without `End Equal` -/
theorem noEndEq_pair {t0 r : Tape} {a b : BTok} (h : NoEndEq (t0 ++ a :: b :: r)) (j : Nat) (ha : a = .end_ j) :
    b ≠ .equal := by
  intro hb
  refine h t0.length j ?_ ?_
  · simp [ha]
  · rw [List.getElem?_append_right (by omega)]
    have : t0.length + 1 - t0.length = 1 := by omega
    rw [this]; simp [hb]

theorem noEndEq_insert1 {t0 : Tape} {a : BTok} (h : NoEndEq (t0 ++ [a])) : NoEndEq (t0 ++ [.mixed, a]) := by
  have h0 : NoEndEq t0 := noEndEq_prefix h
  have h1 : NoEndEq (t0 ++ [.mixed]) := noEndEq_snoc h0 (by intro hh; cases hh)
  have h2 : NoEndEq (t0 ++ [.mixed] ++ [a]) := noEndEq_snoc h1 (fun _ => lastNotEnd_snoc (by intro j hh; cases hh))
  simpa using h2

theorem noEndEq_insert2 {t0 : Tape} {a b : BTok} (h : NoEndEq (t0 ++ [a, b])) : NoEndEq (t0 ++ [.mixed, a, b]) := by
  have h0 : NoEndEq (t0 ++ [a]) := by
    have : t0 ++ [a, b] = t0 ++ [a] ++ [b] := by simp
    rw [this] at h; exact noEndEq_prefix h
  have h2 : NoEndEq (t0 ++ [.mixed, a]) := noEndEq_insert1 h0
  have h3 : NoEndEq (t0 ++ [.mixed, a] ++ [b]) := by
    refine noEndEq_snoc h2 ?_
    intro hb t1 j hh
    have e : t0 ++ [BTok.mixed, a] = t0 ++ [BTok.mixed] ++ [a] := by simp
    rw [e] at hh
    have := List.append_inj_right' hh rfl
    simp at this
    exact noEndEq_pair (r := []) h j this hb
  simpa using h3

theorem einv_push {t : Tape} {s s' : PState} {x : BTok} (h : EInv t s) (hxe : x ≠ .equal) (hx : ∀ j, x ≠ .end_ j) :
    EInv (t ++ [x]) s' :=
  ⟨noEndEq_snoc h.1 (fun hh => absurd hh hxe), fun _ => lastNotEnd_snoc hx⟩

theorem isKey_ne_equal {x : BTok} (h : x.isKey = true) : x ≠ .equal := by
  intro hh; subst hh; simp [BTok.isKey, BTok.isVal] at h
theorem isKey_ne_end {x : BTok} (h : x.isKey = true) : ∀ j, x ≠ .end_ j := by
  intro j hh; subst hh; simp [BTok.isKey, BTok.isVal, BTok.isPlain] at h

theorem scalarArm_einv {r : Except Err (Tape × Bytes)} {tape : Tape} {parent : Nat} {state : PState} {st' : St}
    (hr : AppendsK r tape) (h : scalarArm r parent state = .ok st') (he : EInv tape state) :
    EInv st'.tape st'.state := by
  unfold scalarArm at h
  cases r with
  | error e => cases h
  | ok p =>
    obtain ⟨T', d'⟩ := p
    obtain ⟨x, rfl, hx⟩ := hr T' d' rfl
    simp only at h
    cases hn : nextState state with
    | none => simp [hn] at h
    | some s' =>
      simp [hn] at h; subst h
      exact einv_push he (isKey_ne_equal hx) (isKey_ne_end hx)

theorem openArm_einv {tape : Tape} {parent : Nat} {state : PState} {d : Bytes} {st' : St}
    (h : openArm tape parent state d = .ok st') (he : EInv tape state) : EInv st'.tape st'.state := by
  unfold openArm at h
  split at h
  · simp at h; subst h
    exact einv_push he (by intro hh; cases hh) (by intro j hh; cases hh)
  · split at h
    · cases h
    · cases hrd : readId d with
      | none => simp [hrd] at h
      | some p =>
        obtain ⟨x, nd⟩ := p
        simp only [hrd] at h
        split at h
        · simp at h; subst h; exact he
        · cases h

/-- what `push_end!` does to the tape -/
theorem pushEnd_shape {tape : Tape} {p : Nat} {T' : Tape} {g : Nat} {s : PState} (h : pushEnd tape p = .ok (T', g, s)) :
    ∃ y : BTok, (∀ j, y ≠ .end_ j) ∧ y ≠ .equal ∧ T' = tape.set p y ++ [.end_ p] ∧ (s = .arrayValue ∨ s = .key) := by
  unfold pushEnd at h
  split at h
  · obtain ⟨h1, _, _, h4⟩ := closeTo_eq h
    exact ⟨.array tape.length, (by intro j hh; cases hh), (by intro hh; cases hh), h1, h4⟩
  · obtain ⟨h1, _, _, h4⟩ := closeTo_eq h
    exact ⟨.object tape.length, (by intro j hh; cases hh), (by intro hh; cases hh), h1, h4⟩
  · cases h

theorem mixedInsert1_noEndEq {tape t' : Tape} (h : mixedInsert1 tape = .ok t') (he : NoEndEq tape) : NoEndEq t' := by
  unfold mixedInsert1 at h
  cases hp : pop? tape with
  | none => simp [hp] at h
  | some p =>
    obtain ⟨t1, a⟩ := p
    simp [hp] at h; subst h
    have := pop?_length hp
    subst this
    exact noEndEq_insert1 he

theorem closeArm_einv {tape : Tape} {parent : Nat} {state : PState} {d : Bytes} {st' : St}
    (h : closeArm tape parent state d = .ok st') (he : EInv tape state) : EInv st'.tape st'.state := by
  unfold closeArm at h
  simp only at h
  split at h
  · cases h
  · rename_i tape1 hpre
    have h1 : NoEndEq tape1 := by
      cases state <;> simp at hpre
      all_goals first | (subst hpre; exact he.1) | exact mixedInsert1_noEndEq hpre he.1
    cases hp : pushEnd tape1 parent with
    | error e => simp [hp] at h
    | ok p =>
      obtain ⟨a, b, c⟩ := p
      simp [hp] at h; subst h
      obtain ⟨y, hy1, hy2, rfl, hk⟩ := pushEnd_shape hp
      refine ⟨noEndEq_snoc (noEndEq_set h1 hy1 hy2) (by intro hh; cases hh), ?_⟩
      intro hc
      rcases hk with hk | hk <;> (simp only at hc; rw [hk] at hc; cases hc)

theorem equalArm_einv {tape : Tape} {parent : Nat} {state : PState} {d : Bytes} {st' : St}
    (h : equalArm tape parent state d = .ok st') (he : EInv tape state) : EInv st'.tape st'.state := by
  unfold equalArm at h
  split at h
  · simp at h; subst h; exact ⟨he.1, by intro hh; cases hh⟩
  · cases hso : setParentToObject tape parent with
    | error e => simp [hso] at h
    | ok t2 =>
      simp [hso] at h; subst h
      obtain ⟨e, _, rfl⟩ := setParentToObject_ok hso
      exact ⟨noEndEq_set he.1 (by intro j hh; cases hh) (by intro hh; cases hh), by intro hh; cases hh⟩
  · simp at h; subst h
    exact ⟨noEndEq_snoc he.1 (fun _ => he.2 rfl), fun _ => lastNotEnd_snoc (by intro j hh; cases hh)⟩
  · cases hp : pop? tape with
    | none => simp [hp] at h
    | some p =>
      obtain ⟨t1, last⟩ := p
      have ht := pop?_length hp
      subst ht
      simp only [hp] at h
      have h1 : NoEndEq t1 := noEndEq_prefix he.1
      split at h
      · cases h
      · cases h
      · rename_i hna hne
        split at h
        · cases hso : setParentToObject t1 parent with
          | error e => simp [hso] at h
          | ok t2 =>
            simp [hso] at h; subst h
            obtain ⟨e, hpe, rfl⟩ := setParentToObject_ok hso
            have hl := getElem?_lt_length hpe
            refine ⟨?_, by intro hh; cases hh⟩
            refine noEndEq_snoc (noEndEq_take _ (noEndEq_set h1 (by intro j hh; cases hh) (by intro hh; cases hh))) ?_
            intro _ t0 j hh
            have hlen := congrArg List.length hh
            simp at hlen
            have hidx : ((t1.set parent (BTok.object e)).take (parent + 1))[parent]? = (t0 ++ [BTok.end_ j])[parent]? := by
              rw [hh]
            rw [List.getElem?_take_of_lt (by omega), List.getElem?_set_self hl,
              List.getElem?_append_right (by omega)] at hidx
            have : parent - t0.length = 0 := by omega
            rw [this] at hidx; simp at hidx
        · simp at h; subst h
          have h2 : NoEndEq (t1 ++ [.mixed]) := noEndEq_snoc h1 (by intro hh; cases hh)
          have h3 : NoEndEq (t1 ++ [.mixed] ++ [last]) :=
            noEndEq_snoc h2 (fun _ => lastNotEnd_snoc (by intro j hh; cases hh))
          have h4 : NoEndEq (t1 ++ [.mixed] ++ [last] ++ [.equal]) :=
            noEndEq_snoc h3 (fun _ => lastNotEnd_snoc hne)
          refine ⟨by simpa using h4, fun _ => ?_⟩
          have : t1 ++ [BTok.mixed, last, BTok.equal] = (t1 ++ [BTok.mixed, last]) ++ [BTok.equal] := by simp
          simp only; rw [this]
          exact lastNotEnd_snoc (by intro j hh; cases hh)
  · cases h

theorem tokenArm_einv {tape : Tape} {parent : Nat} {state : PState} {d : Bytes} {tok : Nat} {st' : St}
    (h : tokenArm false 0 tape parent state d tok = .ok st') (he : EInv tape state) : EInv st'.tape st'.state := by
  unfold tokenArm at h
  by_cases c1 : tok = L.u32
  · rw [if_pos c1] at h; exact scalarArm_einv (appendsK_fixed _ _ (by intro _; rfl) _ _) h he
  rw [if_neg c1] at h
  by_cases c2 : tok = L.u64
  · rw [if_pos c2] at h; exact scalarArm_einv (appendsK_fixed _ _ (by intro _; rfl) _ _) h he
  rw [if_neg c2] at h
  by_cases c3 : tok = L.i32
  · rw [if_pos c3] at h
    cases hsa : scalarArm (parseI32 tape d) parent state with
    | error e => simp [hsa] at h
    | ok st => simp [hsa] at h; subst h; exact scalarArm_einv (appendsK_fixed _ _ (by intro _; rfl) _ _) hsa he
  rw [if_neg c3] at h
  by_cases c4 : tok = L.bool
  · rw [if_pos c4] at h
    refine scalarArm_einv ?_ h he
    intro T d' hh; obtain ⟨⟨b, hb⟩, _⟩ := parseBool_ok hh; exact ⟨_, hb, rfl⟩
  rw [if_neg c4] at h
  by_cases c5 : tok = L.quoted
  · rw [if_pos c5] at h
    refine scalarArm_einv ?_ h he
    intro T d' hh; obtain ⟨⟨b, hb⟩, _⟩ := parseQuoted_ok hh; exact ⟨_, hb, rfl⟩
  rw [if_neg c5] at h
  by_cases c6 : tok = L.unquoted
  · rw [if_pos c6] at h
    refine scalarArm_einv ?_ h he
    intro T d' hh; obtain ⟨⟨b, hb⟩, _⟩ := parseUnquoted_ok hh; exact ⟨_, hb, rfl⟩
  rw [if_neg c6] at h
  by_cases c7 : tok = L.f32
  · rw [if_pos c7] at h; exact scalarArm_einv (appendsK_fixed _ _ (by intro _; rfl) _ _) h he
  rw [if_neg c7] at h
  by_cases c8 : tok = L.f64
  · rw [if_pos c8] at h; exact scalarArm_einv (appendsK_fixed _ _ (by intro _; rfl) _ _) h he
  rw [if_neg c8] at h
  by_cases c9 : tok = L.open_
  · rw [if_pos c9] at h; exact openArm_einv h he
  rw [if_neg c9] at h
  by_cases c10 : tok = L.close
  · rw [if_pos c10] at h; exact closeArm_einv h he
  rw [if_neg c10] at h
  by_cases c11 : tok = L.equal
  · rw [if_pos c11] at h; exact equalArm_einv h he
  rw [if_neg c11] at h
  by_cases c12 : tok = L.rgb ∧ state = .objectValue
  · rw [if_pos c12] at h
    unfold parseRgb at h
    cases hr : readRgb d with
    | error e => simp [hr] at h
    | ok p =>
      obtain ⟨t, rest⟩ := p
      simp [hr] at h; subst h
      obtain ⟨a, b, c, al, rfl⟩ := readRgb_isRgb hr
      exact einv_push he (by intro hh; cases hh) (by intro j hh; cases hh)
  rw [if_neg c12] at h
  by_cases c13 : tok = L.i64
  · rw [if_pos c13] at h; exact scalarArm_einv (appendsK_fixed _ _ (by intro _; rfl) _ _) h he
  rw [if_neg c13] at h
  refine scalarArm_einv ?_ h he
  intro T d' hh; simp at hh; obtain ⟨rfl, rfl⟩ := hh; exact ⟨_, rfl, rfl⟩

theorem step_einv {st st' : St} (h : step st = .next st') (ht : TInv st.tape st.parent st.state)
    (he : EInv st.tape st.state) : EInv st'.tape st'.state := by
  cases hr : readId st.data with
  | none => rw [step_done hr] at h; cases h
  | some p =>
    obtain ⟨tok, d⟩ := p
    rw [step_eq hr] at h
    cases hd : dispatch false 0 st.tape st.parent st.state d tok with
    | error e => simp [hd, Iter.ofExcept] at h
    | ok s =>
      simp [hd, Iter.ofExcept] at h; subst h
      unfold dispatch at hd
      split at hd
      · rename_i hs
        rw [hs] at ht
        obtain ⟨⟨t0, x, y, htape, hx, hy, ho⟩, _, _⟩ := ht
        rw [htape, mixedInsert2_snoc2] at hd
        simp only at hd
        refine tokenArm_einv hd ⟨?_, fun _ => ?_⟩
        · have := he.1; rw [htape] at this; exact noEndEq_insert2 this
        · have : t0 ++ [BTok.mixed, x, y] = t0 ++ [BTok.mixed, x] ++ [y] := by simp
          rw [this]
          exact lastNotEnd_snoc (by intro j hh; subst hh; simp [BTok.isPlain] at hy)
      · exact tokenArm_einv hd he

theorem init_einv (data : Bytes) : EInv (init data).tape (init data).state := by
  refine ⟨?_, by intro hh; simp [init] at hh⟩
  intro i j hi he
  simp [init] at hi

end Jomini.BinTape
