import JominiModel.Spec.BinTapeDoc
import JominiModel.Proofs.BinTapeEq
/-
C03 faithfulness: the reference parser on the encoding of a document yields `tapeOfBin doc`.
Proved here for flat documents (every value a scalar); see Props/C03.lean for the full statement.
-/
namespace Jomini.BinTape
open Jomini


theorem readId_le16 (n : Nat) (h : n < 65536) (rest : Bytes) : readId (le16 n ++ rest) = some (n, rest) := by
  simp only [le16, List.cons_append, List.nil_append, readId]
  congr 2
  have h1 : (UInt8.ofNat (n % 256)).toNat = n % 256 := by
    simp [UInt8.toNat_ofNat]
  have h2 : (UInt8.ofNat (n / 256 % 256)).toNat = n / 256 % 256 := by
    simp [UInt8.toNat_ofNat]
  rw [h1, h2]; omega

theorem split?_append (n : Nat) (b rest : Bytes) (h : b.length = n) : split? n (b ++ rest) = some (b, rest) := by
  subst h
  simp [split?]

theorem readString_enc (s rest : Bytes) (h : s.length < 65536) :
    readString (le16 s.length ++ (s ++ rest)) = some (s, rest) := by
  unfold readString
  rw [readId_le16 _ h]
  simp

theorem tokenArm_nonlex (tape : Tape) (parent : Nat) (state : PState) (d : Bytes) (tok : Nat)
    (h : tok ∉ [1, 3, 4, 12, 13, 14, 15, 20, 23, 0x167, 0x243, 0x29c, 0x317]) :
    tokenArm false 0 tape parent state d tok = scalarArm (.ok (tape ++ [.token tok], d)) parent state := by
  simp only [List.mem_cons, List.not_mem_nil, or_false, not_or] at h
  obtain ⟨a1, a2, a3, a4, a5, a6, a7, a8, a9, a10, a11, a12, a13⟩ := h
  simp [tokenArm, L.u32, L.u64, L.i32, L.bool, L.quoted, L.unquoted, L.f32, L.f64, L.open_, L.close, L.equal,
    L.rgb, L.i64, a1, a2, a3, a4, a5, a6, a7, a8, a9, a10, a11, a12, a13]

/-- one plain iteration on an encoded scalar: its token is appended, `next_state` applied -/
theorem step_sc (s : Sc) (hw : s.wf = true) (T : Tape) (p : Nat) (state s' : PState) (rest : Bytes)
    (hs : state ≠ .objectToArray) (hn : nextState state = some s') :
    step ⟨T, p, state, s.encode ++ rest⟩ = .next ⟨T ++ [s.tok], p, s', rest⟩ := by
  cases s with
  | id n =>
    simp only [Sc.wf, Bool.and_eq_true, decide_eq_true_eq] at hw
    exact step_scalar_ok state (readId_le16 n hw.1 rest) hs (tokenArm_nonlex _ _ _ _ n hw.2) rfl hn
  | u32 b =>
    simp only [Sc.wf, beq_iff_eq] at hw
    have hr : readId ((Sc.u32 b).encode ++ rest) = some (L.u32, b ++ rest) := by
      simp only [Sc.encode, List.append_assoc]; exact readId_le16 _ (by decide) _
    refine step_scalar_ok state hr hs (r := parseU32 T (b ++ rest)) (by simp [tokenArm]) ?_ hn
    simp [parseU32, parseFixed, split?_append 4 b rest hw, Sc.tok]
  | u64 b =>
    simp only [Sc.wf, beq_iff_eq] at hw
    have hr : readId ((Sc.u64 b).encode ++ rest) = some (L.u64, b ++ rest) := by
      simp only [Sc.encode, List.append_assoc]; exact readId_le16 _ (by decide) _
    refine step_scalar_ok state hr hs (r := parseU64 T (b ++ rest)) (by simp [tokenArm, L.u64, L.u32]) ?_ hn
    simp [parseU64, parseFixed, split?_append 8 b rest hw, Sc.tok]
  | i32 b =>
    simp only [Sc.wf, beq_iff_eq] at hw
    have hr : readId ((Sc.i32 b).encode ++ rest) = some (L.i32, b ++ rest) := by
      simp only [Sc.encode, List.append_assoc]; exact readId_le16 _ (by decide) _
    refine step_scalar_ok state hr hs (tokenArm_i32 _ _ _ _) ?_ hn
    simp [parseI32, parseFixed, split?_append 4 b rest hw, Sc.tok]
  | i64 b =>
    simp only [Sc.wf, beq_iff_eq] at hw
    have hr : readId ((Sc.i64 b).encode ++ rest) = some (L.i64, b ++ rest) := by
      simp only [Sc.encode, List.append_assoc]; exact readId_le16 _ (by decide) _
    refine step_scalar_ok state hr hs (r := parseI64 T (b ++ rest))
      (by simp [tokenArm, L.u64, L.u32, L.i64, L.i32, L.bool, L.quoted, L.unquoted, L.f32, L.f64, L.open_, L.close, L.equal, L.rgb]) ?_ hn
    simp [parseI64, parseFixed, split?_append 8 b rest hw, Sc.tok]
  | f32 b =>
    simp only [Sc.wf, beq_iff_eq] at hw
    have hr : readId ((Sc.f32 b).encode ++ rest) = some (L.f32, b ++ rest) := by
      simp only [Sc.encode, List.append_assoc]; exact readId_le16 _ (by decide) _
    refine step_scalar_ok state hr hs (tokenArm_f32 _ _ _ _) ?_ hn
    simp [parseF32, parseFixed, split?_append 4 b rest hw, Sc.tok]
  | f64 b =>
    simp only [Sc.wf, beq_iff_eq] at hw
    have hr : readId ((Sc.f64 b).encode ++ rest) = some (L.f64, b ++ rest) := by
      simp only [Sc.encode, List.append_assoc]; exact readId_le16 _ (by decide) _
    refine step_scalar_ok state hr hs (r := parseF64 T (b ++ rest))
      (by simp [tokenArm, L.u64, L.u32, L.i32, L.bool, L.quoted, L.unquoted, L.f32, L.f64]) ?_ hn
    simp [parseF64, parseFixed, split?_append 8 b rest hw, Sc.tok]
  | bool x =>
    have hr : readId ((Sc.bool x).encode ++ rest) = some (L.bool, x :: rest) := by
      simp only [Sc.encode, List.append_assoc]; exact readId_le16 _ (by decide) _
    refine step_scalar_ok state hr hs (tokenArm_bool _ _ _ _) ?_ hn
    simp [parseBool, readBool, Sc.tok]
  | quoted q =>
    simp only [Sc.wf, decide_eq_true_eq] at hw
    have hr : readId ((Sc.quoted q).encode ++ rest) = some (L.quoted, le16 q.length ++ q ++ rest) := by
      simp only [Sc.encode, List.append_assoc]; exact readId_le16 _ (by decide) _
    refine step_scalar_ok state hr hs (tokenArm_quoted _ _ _ _) ?_ hn
    simp [parseQuoted, readString_enc q rest hw, Sc.tok]
  | unquoted q =>
    simp only [Sc.wf, decide_eq_true_eq] at hw
    have hr : readId ((Sc.unquoted q).encode ++ rest) = some (L.unquoted, le16 q.length ++ q ++ rest) := by
      simp only [Sc.encode, List.append_assoc]; exact readId_le16 _ (by decide) _
    refine step_scalar_ok state hr hs (r := parseUnquoted T (le16 q.length ++ q ++ rest))
      (by simp [tokenArm, L.u64, L.u32, L.i32, L.bool, L.quoted, L.unquoted]) ?_ hn
    simp [parseUnquoted, readString_enc q rest hw, Sc.tok]

/-- every value is a scalar -/
def Fields.flat : Fields → Bool
  | .nil => true
  | .cons _ _ (.sc _) rest => rest.flat
  | .cons _ _ _ _ => false

theorem ghost_step (T : Tape) (p : Nat) (rest : Bytes) (hT : T ≠ []) :
    step ⟨T, p, .key, le16 L.open_ ++ le16 L.close ++ rest⟩ = .next ⟨T, p, .key, rest⟩ := by
  have hr : readId (le16 L.open_ ++ le16 L.close ++ rest) = some (L.open_, le16 L.close ++ rest) := by
    rw [List.append_assoc]; exact readId_le16 _ (by decide) _
  rw [step_eq (st := ⟨T, p, .key, _⟩) hr]
  have hne : T.isEmpty = false := by cases T <;> simp_all
  simp [dispatch, tokenArm_open, openArm, hne, readId_le16 L.close (by decide) rest, Iter.ofExcept]

theorem ghosts_reach (T : Tape) (p : Nat) (hT : T ≠ []) : ∀ (g : Nat) (rest : Bytes),
    Reach ⟨T, p, .key, ghostBytes g ++ rest⟩ ⟨T, p, .key, rest⟩
  | 0, rest => by simpa [ghostBytes] using Reach.refl _
  | g + 1, rest => by
    have h := ghost_step T p (ghostBytes g ++ rest) hT
    have : ghostBytes (g + 1) ++ rest = le16 L.open_ ++ le16 L.close ++ (ghostBytes g ++ rest) := by
      simp [ghostBytes]
    rw [this]
    exact Reach.head h (ghosts_reach T p hT g rest)

/-- one `[ghosts] key = scalar` field in key position -/
theorem field_flat_reach (g : Nat) (k s : Sc) (hk : k.wf = true) (hs : s.wf = true) (T : Tape) (p : Nat)
    (rest : Bytes) (hT : T ≠ [] ∨ g = 0) :
    Reach ⟨T, p, .key, ghostBytes g ++ k.encode ++ le16 L.equal ++ s.encode ++ rest⟩
      ⟨T ++ [k.tok, s.tok], p, .key, rest⟩ := by
  have h0 : Reach ⟨T, p, .key, ghostBytes g ++ k.encode ++ le16 L.equal ++ s.encode ++ rest⟩
      ⟨T, p, .key, k.encode ++ (le16 L.equal ++ (s.encode ++ rest))⟩ := by
    rcases hT with hT | rfl
    · have := ghosts_reach T p hT g (k.encode ++ (le16 L.equal ++ (s.encode ++ rest)))
      simpa [List.append_assoc] using this
    · simpa [ghostBytes, List.append_assoc] using Reach.refl _
  have h1 := step_sc k hk T p .key .keyValueSeparator (le16 L.equal ++ (s.encode ++ rest)) (by decide) nextState_key
  have h2 := step_equal_kvs (tape := T ++ [k.tok]) (parent := p) (readId_le16 L.equal (by decide) (s.encode ++ rest))
  have h3 := step_sc s hs (T ++ [k.tok]) p .objectValue .key rest (by decide) nextState_objectValue
  have : T ++ [k.tok] ++ [s.tok] = T ++ [k.tok, s.tok] := by simp
  rw [this] at h3
  exact h0.trans (Reach.head h1 (Reach.head h2 (Reach.head h3 (Reach.refl _))))

theorem fields_flat_reach : ∀ (fs : Fields), fs.flat = true → fs.wf = true → ∀ (T : Tape) (p : Nat) (rest : Bytes),
    T ≠ [] → Reach ⟨T, p, .key, fs.encode ++ rest⟩ ⟨T ++ fs.tape T.length, p, .key, rest⟩
  | .nil, _, _, T, p, rest, _ => by simpa [Fields.encode, Fields.tape] using Reach.refl _
  | .cons g k (.sc s) more, hf, hw, T, p, rest, hT => by
    simp only [Fields.flat] at hf
    simp only [Fields.wf, Val.wf, Bool.and_eq_true] at hw
    have h1 := field_flat_reach g k s hw.1.1 hw.1.2 T p (more.encode ++ rest) (Or.inl hT)
    have h2 := fields_flat_reach more hf hw.2 (T ++ [k.tok, s.tok]) p rest (by simp)
    have e1 : (Fields.cons g k (.sc s) more).encode ++ rest
        = ghostBytes g ++ k.encode ++ le16 L.equal ++ s.encode ++ (more.encode ++ rest) := by
      simp [Fields.encode, Val.encode, List.append_assoc]
    have e2 : T ++ (Fields.cons g k (.sc s) more).tape T.length
        = T ++ [k.tok, s.tok] ++ more.tape (T ++ [k.tok, s.tok]).length := by
      simp [Fields.tape, Val.tape, Nat.add_assoc]
    rw [e1, e2]
    exact h1.trans h2
  | .cons _ _ (.rgb _ _ _ _) _, hf, _, _, _, _, _ => by simp [Fields.flat] at hf
  | .cons _ _ (.obj _) _, hf, _, _, _, _, _ => by simp [Fields.flat] at hf
  | .cons _ _ (.arr _) _, hf, _, _, _, _, _ => by simp [Fields.flat] at hf

/-- faithfulness for flat documents (every value a scalar; ghost objects anywhere but in front of
the very first key) -/
theorem faithful_flat (doc : Fields) (hf : doc.flat = true) (hw : doc.wfDoc = true) : Faithful doc := by
  unfold Faithful tapeOfBin
  have hreach : Reach (init doc.encode) ⟨doc.tape 0, 0, .key, []⟩ := by
    match doc, hf, hw with
    | .nil, _, _ => simpa [init, Fields.encode, Fields.tape] using Reach.refl _
    | .cons g k (.sc s) more, hf, hw =>
      simp only [Fields.flat] at hf
      simp only [Fields.wfDoc, Fields.wf, Val.wf, Bool.and_eq_true, beq_iff_eq] at hw
      obtain ⟨rfl, ⟨hk, hs⟩, hm⟩ := hw
      have h1 := field_flat_reach 0 k s hk hs [] 0 (more.encode ++ []) (Or.inr rfl)
      have h2 := fields_flat_reach more hf hm ([] ++ [k.tok, s.tok]) 0 [] (by simp)
      have e1 : init (Fields.cons 0 k (.sc s) more).encode
          = ⟨[], 0, .key, ghostBytes 0 ++ k.encode ++ le16 L.equal ++ s.encode ++ (more.encode ++ [])⟩ := by
        simp [init, Fields.encode, Val.encode, ghostBytes, List.append_assoc]
      have e2 : (Fields.cons 0 k (.sc s) more).tape 0 = [] ++ [k.tok, s.tok] ++ more.tape ([] ++ [k.tok, s.tok]).length := by
        simp [Fields.tape, Val.tape]
      rw [e1, e2]
      simpa using h1.trans h2
    | .cons _ _ (.rgb _ _ _ _) _, hf, _ => simp [Fields.flat] at hf
    | .cons _ _ (.obj _) _, hf, _ => simp [Fields.flat] at hf
    | .cons _ _ (.arr _) _, hf, _ => simp [Fields.flat] at hf
  have hres : Res (init doc.encode) (.ok (doc.tape 0)) := by
    refine Res.of_reach hreach ?_
    have hd : step ⟨doc.tape 0, 0, .key, []⟩ = .done := step_done (by simp [readId])
    have := Res.done hd
    simpa [finish] using this
  exact Res.det (run_false_res _ _ (init doc.encode) (by simp [init]) (init_good _)) hres

end Jomini.BinTape
