import JominiModel.Proofs.BinDeSeq
import JominiModel.Proofs.BinDeFlat
/-
Deserializer-level statements for C19 (truncation) and C20 (I/O faults) on the two sequential
binary paths (`deTok` / `deElems` / `deMap` / `deStruct` with the `Path` flag).

The reader theorem (`C20_bin_reader`) says that under truncation or an I/O fault the streaming
reader yields a PREFIX of the fault-free lexemes and then fails.  Here: the deserializer run on
`prefix ++ broken end` versus the run on the fault-free list.

  * `C20_bin_de`        an `ok` obtained although the stream broke is the fault-free result
                        (streaming: `trunc` and `stray`; on-demand: `trunc`; `n < ts.length`).
  * `C19_bin_de_frame`  nested values are closed: success on a list that simply ends ⇒ the same
                        success on every continuation (a cut inside a container, or between a key
                        and the end of its value, is always an error).
  * `C19_bin_de_root`   the root loop either did not notice the cut or stopped, input exhausted,
                        where it looks for the next top-level key.
  * `C19_bin_de_flat`   flat documents: the accepted cuts are exactly the top-level field
                        boundaries and the value is that of the first k complete fields.
  * `fuel_mono`         more fuel never changes a finished result.

FULL STATEMENTS kept for the parts that are partial:
  C20_bin_de also for n ≥ ts.length (the fault arrives after the last lexeme): needs a fuel
    SUFFICIENCY lemma (the root fuel is computed from the input length, which the marker makes
    longer by one); `fuel_mono` only goes upward.
  C19_bin_de : WellFormed d → Fits ty d → deSeqRoot p c ty ((tokensOf d).take n) = ok v →
      ∃ k, (tokensOf d).take n = tokensOf (firstK k d) ∧ valueOfBin c ty (firstK k d) = ok v
    proved for flat documents read as maps (`C19_bin_de_flat`); for nested documents
    `C19_bin_de_frame` + `C19_bin_de_root` give the token-level content, the link to the document
    structure is the unproved `C04_eq_spec` induction.
-/
set_option linter.unusedSimpArgs false
namespace Jomini.BinDe
open Jomini

/-- how the input may end where it was cut: cleanly (the lexeme list just stops), with a lexeme whose
payload is short (`trunc`), or — seen by the streaming reader — with a dangling byte (`stray`). -/
def Dead (p : Path) (t1 : List Tok) : Prop :=
  t1 = [] ∨ (∃ j, t1 = .trunc :: j) ∨ (p = .stream ∧ ∃ j, t1 = .stray :: j)

/-- the two inputs share everything before the cut. -/
def Unbroken (l : List Tok) : Prop := ∀ x ∈ l, x ≠ .trunc ∧ x ≠ .stray

def Rel2 (t1 t2 r1 r2 : List Tok) : Prop := ∃ pre, r1 = pre ++ t1 ∧ r2 = pre ++ t2 ∧ Unbroken pre

theorem Unbroken.sub {a b : List Tok} (h : Unbroken b) (hs : ∀ x ∈ a, x ∈ b) : Unbroken a :=
  fun x hx => h x (hs x hx)

theorem Unbroken.tail {x : Tok} {l : List Tok} (h : Unbroken (x :: l)) : Unbroken l :=
  h.sub (fun _ hy => List.mem_cons_of_mem _ hy)

theorem Dead.head_ne {p : Path} {t1 : List Tok} (h : Dead p t1) (a : Tok) (l : List Tok)
    (e : t1 = a :: l) : a = .trunc ∨ a = .stray := by
  rcases h with h | ⟨j, h⟩ | ⟨_, j, h⟩ <;> simp_all

/-- peel one known (unbroken) lexeme off the common prefix. -/
theorem peel {p : Path} {t1 : List Tok} (hd : Dead p t1) (pre : List Tok) (a : Tok) (l : List Tok)
    (e : pre ++ t1 = a :: l) (h1 : a ≠ .trunc) (h2 : a ≠ .stray) :
    ∃ pre', pre = a :: pre' ∧ pre' ++ t1 = l := by
  cases pre with
  | nil =>
    simp at e
    rcases hd.head_ne a l e with h | h <;> contradiction
  | cons x pre' => simp at e; exact ⟨pre', by simp [e.1], e.2⟩

theorem readRgb_cut {p : Path} {t1 : List Tok} (hd : Dead p t1) (t2 pre : List Tok) (col : Rgb) (r1 : List Tok)
    (h : readRgb (pre ++ t1) = some (col, r1)) :
    ∃ pre', r1 = pre' ++ t1 ∧ readRgb (pre ++ t2) = some (col, pre' ++ t2) ∧ (∀ x ∈ pre', x ∈ pre) := by
  unfold readRgb at h
  split at h
  · rename_i r g b rest heq
    simp at h; obtain ⟨rfl, rfl⟩ := h
    obtain ⟨p1, rfl, h1⟩ := peel hd pre _ _ heq (by simp) (by simp)
    obtain ⟨p2, rfl, h2⟩ := peel hd p1 _ _ h1 (by simp) (by simp)
    obtain ⟨p3, rfl, h3⟩ := peel hd p2 _ _ h2 (by simp) (by simp)
    obtain ⟨p4, rfl, h4⟩ := peel hd p3 _ _ h3 (by simp) (by simp)
    obtain ⟨p5, rfl, h5⟩ := peel hd p4 _ _ h4 (by simp) (by simp)
    exact ⟨p5, h5.symm, by simp [readRgb], by intro x hx; simp [hx]⟩
  · rename_i r g b a rest heq
    simp at h; obtain ⟨rfl, rfl⟩ := h
    obtain ⟨p1, rfl, h1⟩ := peel hd pre _ _ heq (by simp) (by simp)
    obtain ⟨p2, rfl, h2⟩ := peel hd p1 _ _ h1 (by simp) (by simp)
    obtain ⟨p3, rfl, h3⟩ := peel hd p2 _ _ h2 (by simp) (by simp)
    obtain ⟨p4, rfl, h4⟩ := peel hd p3 _ _ h3 (by simp) (by simp)
    obtain ⟨p5, rfl, h5⟩ := peel hd p4 _ _ h4 (by simp) (by simp)
    obtain ⟨p6, rfl, h6⟩ := peel hd p5 _ _ h5 (by simp) (by simp)
    exact ⟨p6, h6.symm, by simp [readRgb], by intro x hx; simp [hx]⟩
  · simp at h

theorem skipContainer_cut {p : Path} {t1 : List Tok} (hd : Dead p t1) (t2 : List Tok) :
    ∀ (pre : List Tok) (d : Nat) (r1 : List Tok), skipContainer (pre ++ t1) d = .ok r1 →
      ∃ pre', r1 = pre' ++ t1 ∧ skipContainer (pre ++ t2) d = .ok (pre' ++ t2) ∧ (∀ x ∈ pre', x ∈ pre) := by
  intro pre
  induction pre with
  | nil =>
    intro d r1 h
    rcases hd with h0 | ⟨j, h0⟩ | ⟨_, j, h0⟩ <;> subst h0 <;> simp [skipContainer] at h
  | cons x pre ih =>
    intro d r1 h
    cases x with
    | close =>
      simp only [List.cons_append, skipContainer] at h ⊢
      by_cases hd1 : d ≤ 1
      · simp [hd1] at h ⊢; subst h; exact ⟨pre, rfl, rfl, fun x hx => Or.inr hx⟩
      · simp [hd1] at h ⊢
        obtain ⟨pre', h1, h2, h3⟩ := ih _ _ h
        exact ⟨pre', h1, h2, fun x hx => Or.inr (h3 x hx)⟩
    | trunc => simp [skipContainer] at h
    | stray => simp [skipContainer] at h
    | _ =>
      simp only [List.cons_append, skipContainer] at h ⊢
      obtain ⟨pre', h1, h2, h3⟩ := ih _ _ h
      exact ⟨pre', h1, h2, fun x hx => List.mem_cons_of_mem _ (h3 x hx)⟩

/-- a token fetched from the cut input (other than the broken lexeme itself) is fetched from the
full input too. -/
theorem fetch_cut {p : Path} {t1 : List Tok} (hd : Dead p t1) (t2 r1 r2 : List Tok) (hr : Rel2 t1 t2 r1 r2)
    (t : Tok) (r1' : List Tok) (h : fetch p r1 = .tok t r1') (ht : t ≠ .trunc) :
    ∃ r2', fetch p r2 = .tok t r2' ∧ Rel2 t1 t2 r1' r2' ∧ t ≠ .stray := by
  obtain ⟨pre, rfl, rfl, hu⟩ := hr
  cases pre with
  | nil =>
    rcases hd with h0 | ⟨j, h0⟩ | ⟨hp, j, h0⟩ <;> subst h0
    · simp [fetch] at h
    · cases p <;> simp [fetch] at h; exact absurd h.1.symm ht
    · subst hp; simp [fetch] at h
  | cons x pre =>
    have hx := hu x (List.mem_cons_self ..)
    have hu' : Unbroken pre := hu.tail
    cases p with
    | ondemand =>
      cases x <;> simp [fetch] at h <;> simp at hx <;>
        (obtain ⟨rfl, rfl⟩ := h; exact ⟨pre ++ t2, by simp [fetch], ⟨pre, rfl, rfl, hu'⟩, by simp⟩)
    | stream =>
      cases x with
      | id n =>
        simp only [List.cons_append, fetch] at h ⊢
        by_cases hn : (n == RGB_ID) = true
        · simp only [hn, if_true] at h ⊢
          cases hrgb : readRgb (pre ++ t1) with
          | none => simp [hrgb] at h
          | some x =>
            obtain ⟨col, rr⟩ := x
            simp [hrgb] at h
            obtain ⟨rfl, rfl⟩ := h
            obtain ⟨pre', h1, h2, h3⟩ := readRgb_cut hd t2 pre col rr hrgb
            exact ⟨pre' ++ t2, by simp [h2], ⟨pre', h1, rfl, hu'.sub h3⟩, by simp⟩
        · simp only [hn] at h
          simp at h
          obtain ⟨rfl, rfl⟩ := h
          exact ⟨pre ++ t2, by simp [hn], ⟨pre, rfl, rfl, hu'⟩, by simp⟩
      | stray => simp [fetch] at h
      | trunc => simp [fetch] at h
      | _ => simp [fetch] at h; (obtain ⟨rfl, rfl⟩ := h; exact ⟨pre ++ t2, by simp [fetch], ⟨pre, rfl, rfl, hu'⟩, by simp⟩)

theorem fetch_eof_cut {p : Path} {t1 : List Tok} (hd : Dead p t1) (t2 r1 r2 : List Tok) (hr : Rel2 t1 t2 r1 r2)
    (h : fetch p r1 = .eof) : r1 = [] ∧ r2 = t2 := by
  obtain ⟨pre, rfl, rfl, hu⟩ := hr
  cases pre with
  | nil =>
    rcases hd with h0 | ⟨j, h0⟩ | ⟨hp, j, h0⟩ <;> subst h0
    · simp
    · cases p <;> simp [fetch] at h
    · subst hp; simp [fetch] at h
  | cons x pre =>
    have hx := hu x (List.mem_cons_self ..)
    cases p <;> cases x <;> simp [fetch] at h hx <;> (try (split at h <;> (try split at h) <;> simp at h))

theorem fetch_stream_ok (l : List Tok) (t : Tok) (r : List Tok) (h : fetch .stream l = .tok t r) :
    t ≠ .trunc ∧ t ≠ .stray := by
  cases l with
  | nil => simp [fetch] at h
  | cons x l =>
    cases x <;> simp [fetch] at h <;> try (obtain ⟨rfl, _⟩ := h; simp)
    split at h
    · split at h <;> simp at h; obtain ⟨rfl, _⟩ := h; simp
    · simp at h; obtain ⟨rfl, _⟩ := h; simp

theorem fetchRead_cut {p : Path} {t1 : List Tok} (hd : Dead p t1) (t2 r1 r2 : List Tok) (hr : Rel2 t1 t2 r1 r2)
    (t : Tok) (r1' : List Tok) (h : fetchRead p r1 = .ok (t, r1')) :
    (p = .ondemand ∧ t = .trunc) ∨ ∃ r2', fetchRead p r2 = .ok (t, r2') ∧ Rel2 t1 t2 r1' r2' ∧ t ≠ .stray ∧ t ≠ .trunc := by
  unfold fetchRead at h
  cases hf : fetch p r1 with
  | tok t' rr =>
    simp [hf] at h
    obtain ⟨rfl, rfl⟩ := h
    by_cases ht : t' = .trunc
    · cases p with
      | ondemand => exact Or.inl ⟨rfl, ht⟩
      | stream => exact absurd ht (fetch_stream_ok _ _ _ hf).1
    · obtain ⟨r2', h1, h2, h3⟩ := fetch_cut hd t2 r1 r2 hr t' rr hf ht
      exact Or.inr ⟨r2', by simp [fetchRead, h1], h2, h3, ht⟩
  | eof => simp [hf] at h
  | err => simp [hf] at h

theorem nextValue_cut {p : Path} {t1 : List Tok} (hd : Dead p t1) (t2 r1 r2 : List Tok) (hr : Rel2 t1 t2 r1 r2)
    (t : Tok) (r1' : List Tok) (h : nextValue p r1 = .ok (t, r1')) :
    (p = .ondemand ∧ t = .trunc) ∨ ∃ r2', nextValue p r2 = .ok (t, r2') ∧ Rel2 t1 t2 r1' r2' ∧ t ≠ .stray ∧ t ≠ .trunc := by
  unfold nextValue at h
  cases hf : fetchRead p r1 with
  | error e => simp [hf] at h
  | ok x =>
    obtain ⟨ta, ra⟩ := x
    rcases fetchRead_cut hd t2 r1 r2 hr ta ra hf with hta | ⟨ra2, g1, g2, g3, g4⟩
    · obtain ⟨hp, hta⟩ := hta; subst hta; simp [hf] at h; exact Or.inl ⟨hp, h.1.symm⟩
    · by_cases he : ta = .equal
      · subst he
        simp [hf] at h
        rcases fetchRead_cut hd t2 ra ra2 g2 t r1' h with htt | ⟨rb2, k1, k2, k3, k4⟩
        · exact Or.inl htt
        · exact Or.inr ⟨rb2, by simp [nextValue, g1, k1], k2, k3, k4⟩
      · have : (ta, ra) = (t, r1') := by
          rw [hf] at h
          cases ta <;> simp_all
        obtain ⟨rfl, rfl⟩ := Prod.mk.inj this
        refine Or.inr ⟨ra2, ?_, g2, g3, g4⟩
        unfold nextValue
        rw [g1]
        cases ta <;> simp_all

theorem skipTok_cut {p : Path} {t1 : List Tok} (hd : Dead p t1) (t2 r1 r2 : List Tok) (hr : Rel2 t1 t2 r1 r2)
    (t : Tok) (ht : t ≠ .trunc) (r1' : List Tok) (h : skipTok p t r1 = .ok r1') :
    ∃ r2', skipTok p t r2 = .ok r2' ∧ Rel2 t1 t2 r1' r2' := by
  obtain ⟨pre, rfl, rfl, hu⟩ := hr
  have hskip : ∀ r, skipContainer (pre ++ t1) 1 = .ok r → ∃ r2', skipContainer (pre ++ t2) 1 = .ok r2' ∧ Rel2 t1 t2 r r2' := by
    intro r hr
    obtain ⟨pre', h1, h2, h3⟩ := skipContainer_cut hd t2 pre 1 r hr
    exact ⟨_, h2, pre', h1, rfl, hu.sub h3⟩
  cases p with
  | stream =>
    cases t <;> simp [skipTok] at h ⊢ <;>
      first
      | exact hskip _ h
      | (subst h; exact ⟨pre, rfl, rfl, hu⟩)
  | ondemand =>
    cases t with
    | «open» => simp [skipTok] at h ⊢; exact hskip _ h
    | trunc => exact absurd rfl ht
    | id n =>
      simp only [skipTok] at h ⊢
      by_cases hn : (n == RGB_ID) = true
      · simp only [hn, if_true] at h ⊢
        cases hrgb : readRgb (pre ++ t1) with
        | none => simp [hrgb] at h
        | some x =>
          obtain ⟨col, rr⟩ := x
          simp [hrgb] at h; subst h
          obtain ⟨pre', h1, h2, h3⟩ := readRgb_cut hd t2 pre col rr hrgb
          exact ⟨pre' ++ t2, by simp [h2], pre', h1, rfl, hu.sub h3⟩
      · simp only [hn] at h ⊢
        simp at h ⊢; subst h; exact ⟨pre, rfl, rfl, hu⟩
    | _ => simp [skipTok] at h ⊢; (subst h; exact ⟨pre, rfl, rfl, hu⟩)

theorem normTok_cut {p : Path} {t1 : List Tok} (hd : Dead p t1) (t2 r1 r2 : List Tok) (hr : Rel2 t1 t2 r1 r2)
    (ty : Ty) (t : Tok) (ht : t ≠ .trunc) (hs : t ≠ .stray) (t' : Tok) (r1' : List Tok) (h : normTok p ty t r1 = .ok (t', r1')) :
    ∃ r2', normTok p ty t r2 = .ok (t', r2') ∧ Rel2 t1 t2 r1' r2' ∧ t' ≠ .trunc ∧ t' ≠ .stray := by
  obtain ⟨pre, rfl, rfl, hu⟩ := hr
  have triv : normTok p ty t (pre ++ t1) = .ok (t, pre ++ t1) → normTok p ty t (pre ++ t2) = .ok (t, pre ++ t2) →
      ∃ r2', normTok p ty t (pre ++ t2) = .ok (t', r2') ∧ Rel2 t1 t2 r1' r2' ∧ t' ≠ .trunc ∧ t' ≠ .stray := by
    intro e1 e2
    rw [e1] at h; simp at h; obtain ⟨rfl, rfl⟩ := h
    exact ⟨_, e2, ⟨pre, rfl, rfl, hu⟩, ht, hs⟩
  cases p with
  | stream => exact triv (by simp [normTok]) (by simp [normTok])
  | ondemand =>
    by_cases hopt : ∃ i, ty = .opt i
    · obtain ⟨i, rfl⟩ := hopt; exact triv (by simp [normTok]) (by simp [normTok])
    · by_cases hid : ∃ n, t = .id n ∧ (n == RGB_ID) = true
      · obtain ⟨n, rfl, hn⟩ := hid
        cases ty <;>
        first
        | exact absurd ⟨_, rfl⟩ hopt
        | (simp only [normTok, hn, if_true] at h ⊢
           cases hrgb : readRgb (pre ++ t1) with
           | none => simp [hrgb] at h
           | some x =>
             obtain ⟨col, rr⟩ := x
             simp [hrgb] at h; obtain ⟨rfl, rfl⟩ := h
             obtain ⟨pre', h1, h2, h3⟩ := readRgb_cut hd t2 pre col rr hrgb
             exact ⟨pre' ++ t2, by simp [h2], ⟨pre', h1, rfl, hu.sub h3⟩, by simp, by simp⟩)
      · have e : ∀ l, normTok .ondemand ty t l = .ok (t, l) := by
          intro l
          cases ty <;> first | (exact absurd ⟨_, rfl⟩ hopt) | (cases t <;> simp_all [normTok])
        exact triv (e _) (e _)

theorem nextKey_cut {p : Path} {t1 : List Tok} (hd : Dead p t1) (t2 : List Tok) (root : Bool) (f : Nat) :
    ∀ (r1 r2 : List Tok), Rel2 t1 t2 r1 r2 → ∀ k r1', nextKey p root f r1 = .ok (k, r1') →
      (p = .ondemand ∧ k = some .trunc) ∨
      (∃ r2', nextKey p root f r2 = .ok (k, r2') ∧ Rel2 t1 t2 r1' r2' ∧ ∀ t, k = some t → t ≠ .trunc ∧ t ≠ .stray) ∨
      (t1 = [] ∧ root = true ∧ k = none ∧ r1' = []) := by
  induction f with
  | zero => intro r1 r2 _ k r1' h; simp [nextKey] at h
  | succ f ih =>
    intro r1 r2 hr k r1' h
    simp only [nextKey] at h
    cases hf : fetch p r1 with
    | eof =>
      obtain ⟨e1, e2⟩ := fetch_eof_cut hd t2 r1 r2 hr hf
      simp [hf] at h
      by_cases hroot : root = true
      · simp [hroot] at h
        obtain ⟨rfl, rfl⟩ := h
        obtain ⟨pre, hp1, _, _⟩ := hr
        have : t1 = [] := by
          rw [e1] at hp1
          exact (List.append_eq_nil_iff.mp hp1.symm).2
        exact Or.inr (Or.inr ⟨this, hroot, rfl, rfl⟩)
      · simp [hroot] at h
    | err => simp [hf] at h
    | tok t rr =>
      rw [hf] at h
      by_cases htt : t = .trunc
      · subst htt; simp at h
        cases p with
        | ondemand => exact Or.inl ⟨rfl, h.1.symm⟩
        | stream => exact absurd rfl (fetch_stream_ok _ _ _ hf).1
      · obtain ⟨rr2, g1, g2, g3⟩ := fetch_cut hd t2 r1 r2 hr t rr hf htt
        cases t with
        | close =>
          simp at h; obtain ⟨rfl, rfl⟩ := h
          exact Or.inr (Or.inl ⟨rr2, by simp [nextKey, g1], g2, by simp⟩)
        | «open» =>
          simp only at h
          cases p with
          | stream =>
            simp only at h
            cases hfr : fetchRead .stream rr with
            | error e => simp [hfr] at h
            | ok x =>
              obtain ⟨tt, rest'⟩ := x
              simp [hfr] at h
              rcases fetchRead_cut hd t2 rr rr2 g2 tt rest' hfr with hx | ⟨rest2, k1, k2, _, _⟩
              · exact absurd hx.1 (by simp)
              · rcases ih rest' rest2 k2 k r1' h with a | ⟨r2', b1, b2, b3⟩ | c
                · exact Or.inl a
                · exact Or.inr (Or.inl ⟨r2', by simp [nextKey, g1, k1, b1], b2, b3⟩)
                · exact Or.inr (Or.inr c)
          | ondemand =>
            simp only at h
            obtain ⟨pre', e1, e2, hu'⟩ := g2
            cases pre' with
            | nil =>
              simp at e1 e2; subst e1
              rcases hd with h0 | ⟨j, h0⟩ | ⟨hp, _⟩
              · subst h0; simp at h
              · subst h0; simp [payloadFree] at h
              · cases hp
            | cons x pre'' =>
              have hx := hu' x (List.mem_cons_self ..)
              subst e1; subst e2
              have hrel : Rel2 t1 t2 (pre'' ++ t1) (pre'' ++ t2) := ⟨pre'', rfl, rfl, hu'.tail⟩
              by_cases hpf : payloadFree x = true
              · have hh : nextKey .ondemand root f (pre'' ++ t1) = .ok (k, r1') := by
                  cases x <;> simp_all [payloadFree]
                rcases ih _ _ hrel k r1' hh with a | ⟨r2', b1, b2, b3⟩ | c
                · exact Or.inl a
                · refine Or.inr (Or.inl ⟨r2', ?_, b2, b3⟩)
                  simp only [nextKey, g1]
                  cases x <;> simp_all [payloadFree]
                · exact Or.inr (Or.inr c)
              · cases x <;> simp_all [payloadFree]
        | _ =>
          simp at h; obtain ⟨rfl, rfl⟩ := h
          exact Or.inr (Or.inl ⟨rr2, by simp [nextKey, g1], g2, by intro t ht; cases ht; exact ⟨htt, g3⟩⟩)

/-- the on-demand lexer hands out the id of a lexeme whose payload is short; consuming it is an error
whatever is requested. -/
theorem deTok_trunc_od (c : Cfg) (f : Nat) : ∀ (ty : Ty) (rest : List Tok) (x : String × List Tok),
    deTok .ondemand c f ty .trunc rest ≠ .ok x := by
  induction f with
  | zero => intro ty rest x; simp [deTok]
  | succ f ih =>
    intro ty rest x
    cases ty with
    | opt i =>
      simp only [deTok, normTok]
      have := ih i rest
      cases h : deTok .ondemand c f i .trunc rest with
      | error e => simp
      | ok y => exact absurd h (this y)
    | _ => simp [deTok, normTok, skipTok, deser, hinted, leafOf, Except.map]

section steps
variable {p : Path} {t1 : List Tok} (hd : Dead p t1) (t2 : List Tok) (c : Cfg)

def CutT (p : Path) (t1 t2 : List Tok) (c : Cfg) (f : Nat) : Prop :=
  ∀ ty t r1 r2 v r1', Rel2 t1 t2 r1 r2 → t ≠ .trunc → t ≠ .stray → deTok p c f ty t r1 = .ok (v, r1') →
    ∃ r2', deTok p c f ty t r2 = .ok (v, r2') ∧ Rel2 t1 t2 r1' r2'
def CutE (p : Path) (t1 t2 : List Tok) (c : Cfg) (f : Nat) : Prop :=
  ∀ et r1 r2 acc items r1', Rel2 t1 t2 r1 r2 → deElems p c f et r1 acc = .ok (items, r1') →
    ∃ r2', deElems p c f et r2 acc = .ok (items, r2') ∧ Rel2 t1 t2 r1' r2'
def CutM (p : Path) (t1 t2 : List Tok) (c : Cfg) (f : Nat) : Prop :=
  ∀ vt root r1 r2 acc items r1', Rel2 t1 t2 r1 r2 → deMap p c f vt root r1 acc = .ok (items, r1') →
    (∃ r2', deMap p c f vt root r2 acc = .ok (items, r2') ∧ Rel2 t1 t2 r1' r2') ∨ (t1 = [] ∧ root = true ∧ r1' = [])
def CutS (p : Path) (t1 t2 : List Tok) (c : Cfg) (f : Nat) : Prop :=
  ∀ fs bt root r1 r2 slots v r1', Rel2 t1 t2 r1 r2 → deStruct p c f fs bt root r1 slots = .ok (v, r1') →
    (∃ r2', deStruct p c f fs bt root r2 slots = .ok (v, r2') ∧ Rel2 t1 t2 r1' r2') ∨ (t1 = [] ∧ root = true ∧ r1' = [])

/-- a result that hands the input back untouched. -/
theorem map_rest {X : Res String} {rest1 rest2 : List Tok} {v : String} {r1' : List Tok}
    (h : X.map (fun v => (v, rest1)) = .ok (v, r1')) :
    X.map (fun v => (v, rest2)) = .ok (v, rest2) ∧ r1' = rest1 := by
  cases X <;> simp [Except.map] at h ⊢
  obtain ⟨rfl, rfl⟩ := h; exact ⟨rfl, rfl⟩

include hd in
theorem cutT_step (f : Nat) (hT : CutT p t1 t2 c f) (hE : CutE p t1 t2 c f) (hM : CutM p t1 t2 c f)
    (hS : CutS p t1 t2 c f) : CutT p t1 t2 c (f + 1) := by
  intro ty t0 r10 r20 v r1' hr0 ht0 hs0 h
  simp only [deTok] at h ⊢
  cases hn : normTok p ty t0 r10 with
  | error e => simp [hn] at h
  | ok x =>
    obtain ⟨t, r1⟩ := x
    obtain ⟨r2, hn2, hr, ht, hs⟩ := normTok_cut hd t2 r10 r20 hr0 ty t0 ht0 hs0 t r1 hn
    rw [hn] at h; rw [hn2]
    dsimp only at h ⊢
    have untouched : ∀ (X : Res String), X.map (fun v => (v, r1)) = .ok (v, r1') →
        ∃ r2', X.map (fun v => (v, r2)) = .ok (v, r2') ∧ Rel2 t1 t2 r1' r2' := by
      intro X hX
      obtain ⟨e1, e2⟩ := map_rest (rest2 := r2) hX
      exact ⟨r2, e1, e2 ▸ hr⟩
    cases ty with
    | ign =>
      dsimp only at h ⊢
      cases hsk : skipTok p t r1 with
      | error e => simp [hsk] at h
      | ok rr =>
        simp [hsk] at h; obtain ⟨rfl, rfl⟩ := h
        obtain ⟨r2', g1, g2⟩ := skipTok_cut hd t2 r1 r2 hr t ht rr hsk
        exact ⟨r2', by simp [g1], g2⟩
    | opt inner =>
      dsimp only at h ⊢
      cases hi : deTok p c f inner t r1 with
      | error e => simp [hi] at h
      | ok y =>
        obtain ⟨vi, ri⟩ := y
        simp [hi] at h; obtain ⟨rfl, rfl⟩ := h
        obtain ⟨r2', g1, g2⟩ := hT inner t r1 r2 vi ri hr ht hs hi
        exact ⟨r2', by simp [g1], g2⟩
    | any =>
      dsimp only at h ⊢
      cases hdz : deser c t with
      | prim pr => simp [hdz] at h ⊢; obtain ⟨rfl, rfl⟩ := h; exact ⟨r2, ⟨rfl, rfl⟩, hr⟩
      | err e => simp [hdz] at h
      | color col => rw [hdz] at h; dsimp only at h ⊢; exact untouched _ h
      | seq =>
        rw [hdz] at h; dsimp only at h ⊢
        cases he : deElems p c f .any r1 [] with
        | error e => simp [he] at h
        | ok y =>
          obtain ⟨items, ri⟩ := y
          simp [he] at h; obtain ⟨rfl, rfl⟩ := h
          obtain ⟨r2', g1, g2⟩ := hE .any r1 r2 [] items ri hr he
          exact ⟨r2', by simp [g1], g2⟩
    | seq et =>
      cases t with
      | «open» =>
        dsimp only at h ⊢
        cases he : deElems p c f et r1 [] with
        | error e => simp [he] at h
        | ok y =>
          obtain ⟨items, ri⟩ := y
          simp [he] at h; obtain ⟨rfl, rfl⟩ := h
          obtain ⟨r2', g1, g2⟩ := hE et r1 r2 [] items ri hr he
          exact ⟨r2', by simp [g1], g2⟩
      | _ => dsimp only at h ⊢; exact untouched _ h
    | map vt =>
      cases t with
      | «open» =>
        dsimp only at h ⊢
        cases he : deMap p c f vt false r1 [] with
        | error e => simp [he] at h
        | ok y =>
          obtain ⟨items, ri⟩ := y
          simp [he] at h; obtain ⟨rfl, rfl⟩ := h
          rcases hM vt false r1 r2 [] items ri hr he with ⟨r2', g1, g2⟩ | ⟨_, hc, _⟩
          · exact ⟨r2', by simp [g1], g2⟩
          · cases hc
      | _ => dsimp only at h ⊢; exact untouched _ h
    | struct fs =>
      cases t with
      | «open» =>
        dsimp only at h ⊢
        rcases hS fs false false r1 r2 (slotsInit fs) v r1' hr h with g | ⟨_, hc, _⟩
        · exact g
        · cases hc
      | _ => dsimp only at h ⊢; exact untouched _ h
    | prop _ => simp at h
    | enum vs =>
      dsimp only at h ⊢
      cases hh : hinted c .str t with
      | prim pr => rw [hh] at h; dsimp only at h ⊢; exact untouched _ h
      | err e => simp [hh] at h
      | seq => simp [hh] at h
      | color col => simp [hh] at h
    | _ => dsimp only at h ⊢; exact untouched _ h
include hd in
theorem cutE_step (f : Nat) (hT : CutT p t1 t2 c f) (hE : CutE p t1 t2 c f) : CutE p t1 t2 c (f + 1) := by
  intro et r1 r2 acc items r1' hr h
  simp only [deElems] at h ⊢
  cases hf : fetchRead p r1 with
  | error e => simp [hf] at h
  | ok x =>
    obtain ⟨t, rest⟩ := x
    rw [hf] at h
    rcases fetchRead_cut hd t2 r1 r2 hr t rest hf with ⟨hp, htt⟩ | ⟨rest2, g1, g2, g3, g4⟩
    · subst hp; subst htt
      dsimp only at h
      cases hx : deTok .ondemand c f et .trunc rest with
      | error e => simp [hx] at h
      | ok y => exact absurd hx (deTok_trunc_od c f et rest y)
    · rw [g1]
      have key : ∀ t : Tok, t ≠ .trunc → t ≠ .stray →
          (match deTok p c f et t rest with
            | .ok (v, r) => deElems p c f et r (acc ++ [v])
            | .error e => .error e) = .ok (items, r1') →
          ∃ r2', (match deTok p c f et t rest2 with
            | .ok (v, r) => deElems p c f et r (acc ++ [v])
            | .error e => .error e) = .ok (items, r2') ∧ Rel2 t1 t2 r1' r2' := by
        intro t a4 a3 h
        cases hx : deTok p c f et t rest with
        | error e => simp [hx] at h
        | ok y =>
          obtain ⟨v, r⟩ := y
          obtain ⟨r2', k1, k2⟩ := hT et t rest rest2 v r g2 a4 a3 hx
          rw [hx] at h; rw [k1]
          exact hE et r r2' (acc ++ [v]) items r1' k2 h
      cases t <;>
      first
      | (simp at h ⊢; obtain ⟨rfl, rfl⟩ := h; exact ⟨rest2, ⟨rfl, rfl⟩, g2⟩)
      | (exact absurd rfl g4)
      | (exact absurd rfl g3)
      | (dsimp only at h ⊢; exact key _ g4 g3 h)
include hd in
theorem cutM_step (f : Nat) (hT : CutT p t1 t2 c f) (hM : CutM p t1 t2 c f) : CutM p t1 t2 c (f + 1) := by
  intro vt root r1 r2 acc items r1' hr h
  simp only [deMap] at h ⊢
  cases hk : nextKey p root (f + 1) r1 with
  | error e => simp [hk] at h
  | ok x =>
    obtain ⟨kopt, rest⟩ := x
    rw [hk] at h
    rcases nextKey_cut hd t2 root (f + 1) r1 r2 hr kopt rest hk with ⟨hp, hkt⟩ | ⟨rest2, g1, g2, g3⟩ | ⟨a1, a2, a3, a4⟩
    · subst hp; subst hkt
      dsimp only at h
      cases hx : deTok .ondemand c f .str .trunc rest with
      | error e => simp [hx] at h
      | ok y => exact absurd hx (deTok_trunc_od c f .str rest y)
    · rw [g1]
      cases kopt with
      | none =>
        simp at h ⊢; obtain ⟨rfl, rfl⟩ := h
        exact Or.inl ⟨rest2, ⟨rfl, rfl⟩, g2⟩
      | some kt =>
        obtain ⟨hk1, hk2⟩ := g3 kt rfl
        dsimp only at h ⊢
        cases hs1 : deTok p c f .str kt rest with
        | error e => simp [hs1] at h
        | ok y1 =>
          obtain ⟨k, ra⟩ := y1
          obtain ⟨ra2, b1, b2⟩ := hT .str kt rest rest2 k ra g2 hk1 hk2 hs1
          rw [hs1] at h; rw [b1]
          dsimp only at h ⊢
          cases hs2 : nextValue p ra with
          | error e => simp [hs2] at h
          | ok y2 =>
            obtain ⟨vtok, rb⟩ := y2
            rw [hs2] at h
            rcases nextValue_cut hd t2 ra ra2 b2 vtok rb hs2 with ⟨hp, hvt⟩ | ⟨rb2, d1, d2, d3, d4⟩
            · subst hp; subst hvt
              dsimp only at h
              cases hx : deTok .ondemand c f vt .trunc rb with
              | error e => simp [hx] at h
              | ok y => exact absurd hx (deTok_trunc_od c f vt rb y)
            · rw [d1]
              dsimp only at h ⊢
              cases hs3 : deTok p c f vt vtok rb with
              | error e => simp [hs3] at h
              | ok y3 =>
                obtain ⟨v, rc⟩ := y3
                obtain ⟨rc2, e1, e2⟩ := hT vt vtok rb rb2 v rc d2 d4 d3 hs3
                rw [hs3] at h; rw [e1]
                exact hM vt root rc rc2 _ items r1' e2 h
    · subst a3; subst a4
      simp at h; obtain ⟨rfl, rfl⟩ := h
      exact Or.inr ⟨a1, a2, rfl⟩

include hd in
theorem cut_struct_tail (f : Nat) (hT : CutT p t1 t2 c f) (hS : CutS p t1 t2 c f)
    (fs : Fields) (bt root : Bool) (rest rest2 : List Tok) (hr : Rel2 t1 t2 rest rest2)
    (ty : Ty) (next : String → List (Option String)) (vv : String) (r1' : List Tok)
    (h : (match nextValue p rest with
        | .error e => (Except.error e : Res (String × List Tok))
        | .ok (vtok, r2) =>
          match deTok p c f ty vtok r2 with
          | .error e => .error e
          | .ok (v, r3) => deStruct p c f fs bt root r3 (next v)) = .ok (vv, r1')) :
    (∃ r2', (match nextValue p rest2 with
        | .error e => (Except.error e : Res (String × List Tok))
        | .ok (vtok, r2) =>
          match deTok p c f ty vtok r2 with
          | .error e => .error e
          | .ok (v, r3) => deStruct p c f fs bt root r3 (next v)) = .ok (vv, r2') ∧ Rel2 t1 t2 r1' r2') ∨
    (t1 = [] ∧ root = true ∧ r1' = []) := by
  cases hs2 : nextValue p rest with
  | error e => simp [hs2] at h
  | ok y2 =>
    obtain ⟨vtok, rb⟩ := y2
    rw [hs2] at h
    rcases nextValue_cut hd t2 rest rest2 hr vtok rb hs2 with ⟨hp, hvt⟩ | ⟨rb2, d1, d2, d3, d4⟩
    · subst hp; subst hvt
      dsimp only at h
      cases hx : deTok .ondemand c f ty .trunc rb with
      | error e => simp [hx] at h
      | ok y => exact absurd hx (deTok_trunc_od c f ty rb y)
    · rw [d1]
      dsimp only at h ⊢
      cases hs3 : deTok p c f ty vtok rb with
      | error e => simp [hs3] at h
      | ok y3 =>
        obtain ⟨v, rc⟩ := y3
        obtain ⟨rc2, e1, e2⟩ := hT ty vtok rb rb2 v rc d2 d4 d3 hs3
        rw [hs3] at h; rw [e1]
        exact hS fs bt root rc rc2 _ vv r1' e2 h
include hd in
theorem cutS_step (f : Nat) (hT : CutT p t1 t2 c f) (hS : CutS p t1 t2 c f) : CutS p t1 t2 c (f + 1) := by
  intro fs bt root r1 r2 slots v r1' hr h
  simp only [deStruct] at h ⊢
  cases hk : nextKey p root (f + 1) r1 with
  | error e => simp [hk] at h
  | ok x =>
    obtain ⟨kopt, rest0⟩ := x
    rw [hk] at h
    rcases nextKey_cut hd t2 root (f + 1) r1 r2 hr kopt rest0 hk with ⟨hp, hkt⟩ | ⟨rest02, g1, g2, g3⟩ | ⟨a1, a2, a3, a4⟩
    · subst hp; subst hkt
      simp [normTok, seqFieldKey, deser] at h
    · rw [g1]
      cases kopt with
      | none =>
        dsimp only at h ⊢
        cases hf : structFinish fs slots [] with
        | error e => simp [hf, Except.map] at h
        | ok sv =>
          simp [hf, Except.map] at h ⊢; obtain ⟨rfl, rfl⟩ := h
          exact Or.inl ⟨rest02, ⟨rfl, rfl⟩, g2⟩
      | some kt0 =>
        obtain ⟨hk1, hk2⟩ := g3 kt0 rfl
        dsimp only at h ⊢
        cases hn : normTok p .any kt0 rest0 with
        | error e => simp [hn] at h
        | ok y =>
          obtain ⟨kt, rest⟩ := y
          obtain ⟨rest2, hn2, hrr, _, _⟩ := normTok_cut hd t2 rest0 rest02 g2 .any kt0 hk1 hk2 kt rest hn
          rw [hn] at h; rw [hn2]
          dsimp only at h ⊢
          cases hsk : seqFieldKey c fs bt kt with
          | error e => simp [hsk] at h
          | ok w =>
            rw [hsk] at h
            cases w with
            | none =>
              exact cut_struct_tail hd t2 c f hT hS fs bt root rest rest2 hrr .ign (fun _ => slots) v r1' h
            | some i =>
              dsimp only at h ⊢
              cases hsa : slots[i]? with
              | none => simp [hsa] at h
              | some a =>
                cases hfb : fs.get? i with
                | none => cases a <;> simp [hsa, hfb] at h
                | some y =>
                  obtain ⟨name, tk, fty⟩ := y
                  cases a with
                  | some sv => simp [hsa, hfb] at h
                  | none =>
                    simp only [hsa, hfb] at h ⊢
                    exact cut_struct_tail hd t2 c f hT hS fs bt root rest rest2 hrr fty (fun v => slots.set i (some v)) v r1' h
    · subst a3; subst a4
      dsimp only at h
      cases hf : structFinish fs slots [] with
      | error e => simp [hf, Except.map] at h
      | ok sv =>
        simp [hf, Except.map] at h; obtain ⟨rfl, rfl⟩ := h
        exact Or.inr ⟨a1, a2, rfl⟩

include hd in
/-- all four loops, every fuel. -/
theorem cut_all (f : Nat) : CutT p t1 t2 c f ∧ CutE p t1 t2 c f ∧ CutM p t1 t2 c f ∧ CutS p t1 t2 c f := by
  induction f with
  | zero =>
    refine ⟨?_, ?_, ?_, ?_⟩
    · intro ty t r1 r2 v r1' _ _ _ h; simp [deTok] at h
    · intro et r1 r2 acc items r1' _ h; simp [deElems] at h
    · intro vt root r1 r2 acc items r1' _ h; simp [deMap] at h
    · intro fs bt root r1 r2 slots v r1' _ h; simp [deStruct] at h
  | succ f ih =>
    obtain ⟨hT, hE, hM, hS⟩ := ih
    exact ⟨cutT_step hd t2 c f hT hE hM hS, cutE_step hd t2 c f hT hE, cutM_step hd t2 c f hT hM, cutS_step hd t2 c f hT hS⟩
end steps

/-! ### more fuel never changes a finished result -/

theorem nextKey_mono (p : Path) (root : Bool) (f : Nat) : ∀ (f' : Nat), f ≤ f' → ∀ toks y,
    nextKey p root f toks = .ok y → nextKey p root f' toks = .ok y := by
  induction f with
  | zero => intro f' _ toks y h; simp [nextKey] at h
  | succ f ih =>
    intro f' hle toks y h
    obtain ⟨g, rfl⟩ : ∃ g, f' = g + 1 := ⟨f' - 1, by omega⟩
    have hg : f ≤ g := by omega
    simp only [nextKey] at h ⊢
    cases hf : fetch p toks with
    | eof => simpa [hf] using h
    | err => simp [hf] at h
    | tok t rest =>
      rw [hf] at h
      cases t <;> try (simpa using h)
      -- open
      dsimp only at h ⊢
      cases p with
      | stream =>
        dsimp only at h ⊢
        cases hr : fetchRead .stream rest with
        | error e => simp [hr] at h
        | ok x => obtain ⟨a, b⟩ := x; rw [hr] at h; dsimp only at h ⊢; exact ih g hg _ _ h
      | ondemand =>
        dsimp only at h ⊢
        cases rest with
        | nil => simp at h
        | cons a b =>
          cases a <;> simp [payloadFree] at h ⊢ <;> exact ih g hg _ _ h

def MonoAll (p : Path) (c : Cfg) (f : Nat) : Prop :=
  (∀ f', f ≤ f' → ∀ ty t r y, deTok p c f ty t r = .ok y → deTok p c f' ty t r = .ok y) ∧
  (∀ f', f ≤ f' → ∀ et r acc y, deElems p c f et r acc = .ok y → deElems p c f' et r acc = .ok y) ∧
  (∀ f', f ≤ f' → ∀ vt root r acc y, deMap p c f vt root r acc = .ok y → deMap p c f' vt root r acc = .ok y) ∧
  (∀ f', f ≤ f' → ∀ fs bt root r sl y, deStruct p c f fs bt root r sl = .ok y → deStruct p c f' fs bt root r sl = .ok y)

theorem fuel_mono (p : Path) (c : Cfg) : ∀ f, MonoAll p c f := by
  intro f
  induction f with
  | zero =>
    refine ⟨?_, ?_, ?_, ?_⟩ <;> intros <;> simp_all [deTok, deElems, deMap, deStruct]
  | succ f ih =>
    obtain ⟨mT, mE, mM, mS⟩ := ih
    refine ⟨?_, ?_, ?_, ?_⟩
    · intro f' hle ty t r y h
      obtain ⟨g, rfl⟩ : ∃ g, f' = g + 1 := ⟨f' - 1, by omega⟩
      have hg : f ≤ g := by omega
      simp only [deTok] at h ⊢
      cases hn : normTok p ty t r with
      | error e => simp [hn] at h
      | ok x =>
        obtain ⟨t', r'⟩ := x
        rw [hn] at h
        dsimp only at h ⊢
        cases ty with
        | opt i =>
          dsimp only at h ⊢
          cases hi : deTok p c f i t' r' with
          | error e => simp [hi] at h
          | ok z => rw [hi] at h; rw [mT g hg i t' r' z hi]; exact h
        | any =>
          dsimp only at h ⊢
          cases hdz : deser c t' with
          | seq =>
            rw [hdz] at h; dsimp only at h ⊢
            cases he : deElems p c f .any r' [] with
            | error e => simp [he] at h
            | ok z => rw [he] at h; rw [mE g hg .any r' [] z he]; exact h
          | _ => rw [hdz] at h; exact h
        | seq et =>
          cases t' with
          | «open» =>
            dsimp only at h ⊢
            cases he : deElems p c f et r' [] with
            | error e => simp [he] at h
            | ok z => rw [he] at h; rw [mE g hg et r' [] z he]; exact h
          | _ => exact h
        | map vt =>
          cases t' with
          | «open» =>
            dsimp only at h ⊢
            cases he : deMap p c f vt false r' [] with
            | error e => simp [he] at h
            | ok z => rw [he] at h; rw [mM g hg vt false r' [] z he]; exact h
          | _ => exact h
        | struct fs =>
          cases t' with
          | «open» => dsimp only at h ⊢; exact mS g hg _ _ _ _ _ _ h
          | _ => exact h
        | _ => exact h
    · intro f' hle et r acc y h
      obtain ⟨g, rfl⟩ : ∃ g, f' = g + 1 := ⟨f' - 1, by omega⟩
      have hg : f ≤ g := by omega
      simp only [deElems] at h ⊢
      cases hf : fetchRead p r with
      | error e => simp [hf] at h
      | ok x =>
        obtain ⟨t, rest⟩ := x
        rw [hf] at h
        have key : ∀ t : Tok,
            (match deTok p c f et t rest with
              | .ok (v, r) => deElems p c f et r (acc ++ [v])
              | .error e => .error e) = .ok y →
            (match deTok p c g et t rest with
              | .ok (v, r) => deElems p c g et r (acc ++ [v])
              | .error e => .error e) = .ok y := by
          intro t h
          cases hx : deTok p c f et t rest with
          | error e => simp [hx] at h
          | ok z =>
            obtain ⟨v, rr⟩ := z
            rw [hx] at h; rw [mT g hg et t rest _ hx]
            exact mE g hg _ _ _ _ h
        cases t <;> first | exact h | (dsimp only at h ⊢; exact key _ h)
    · intro f' hle vt root r acc y h
      obtain ⟨g, rfl⟩ : ∃ g, f' = g + 1 := ⟨f' - 1, by omega⟩
      have hg : f ≤ g := by omega
      simp only [deMap] at h ⊢
      cases hk : nextKey p root (f + 1) r with
      | error e => simp [hk] at h
      | ok x =>
        rw [hk] at h; rw [nextKey_mono p root (f + 1) (g + 1) (by omega) r x hk]
        obtain ⟨kopt, rest⟩ := x
        cases kopt with
        | none => exact h
        | some kt =>
          dsimp only at h ⊢
          cases h1 : deTok p c f .str kt rest with
          | error e => simp [h1] at h
          | ok z1 =>
            obtain ⟨k, ra⟩ := z1
            rw [h1] at h; rw [mT g hg .str kt rest _ h1]
            dsimp only at h ⊢
            cases h2 : nextValue p ra with
            | error e => simp [h2] at h
            | ok z2 =>
              obtain ⟨vtok, rb⟩ := z2
              rw [h2] at h
              dsimp only at h ⊢
              cases h3 : deTok p c f vt vtok rb with
              | error e => simp [h3] at h
              | ok z3 =>
                obtain ⟨v, rc⟩ := z3
                rw [h3] at h; rw [mT g hg vt vtok rb _ h3]
                exact mM g hg _ _ _ _ _ h
    · intro f' hle fs bt root r sl y h
      obtain ⟨g, rfl⟩ : ∃ g, f' = g + 1 := ⟨f' - 1, by omega⟩
      have hg : f ≤ g := by omega
      have tail : ∀ (rest : List Tok) (ty : Ty) (next : String → List (Option String)),
          (match nextValue p rest with
            | .error e => (Except.error e : Res (String × List Tok))
            | .ok (vtok, r2) =>
              match deTok p c f ty vtok r2 with
              | .error e => .error e
              | .ok (v, r3) => deStruct p c f fs bt root r3 (next v)) = .ok y →
          (match nextValue p rest with
            | .error e => (Except.error e : Res (String × List Tok))
            | .ok (vtok, r2) =>
              match deTok p c g ty vtok r2 with
              | .error e => .error e
              | .ok (v, r3) => deStruct p c g fs bt root r3 (next v)) = .ok y := by
        intro rest ty next h
        cases h2 : nextValue p rest with
        | error e => simp [h2] at h
        | ok z2 =>
          obtain ⟨vtok, rb⟩ := z2
          rw [h2] at h
          dsimp only at h ⊢
          cases h3 : deTok p c f ty vtok rb with
          | error e => simp [h3] at h
          | ok z3 =>
            obtain ⟨v, rc⟩ := z3
            rw [h3] at h; rw [mT g hg ty vtok rb _ h3]
            exact mS g hg _ _ _ _ _ _ h
      simp only [deStruct] at h ⊢
      cases hk : nextKey p root (f + 1) r with
      | error e => simp [hk] at h
      | ok x =>
        rw [hk] at h; rw [nextKey_mono p root (f + 1) (g + 1) (by omega) r x hk]
        obtain ⟨kopt, rest0⟩ := x
        cases kopt with
        | none => exact h
        | some kt0 =>
          dsimp only at h ⊢
          cases hn : normTok p .any kt0 rest0 with
          | error e => simp [hn] at h
          | ok z =>
            obtain ⟨kt, rest⟩ := z
            rw [hn] at h
            dsimp only at h ⊢
            cases hsk : seqFieldKey c fs bt kt with
            | error e => simp [hsk] at h
            | ok w =>
              rw [hsk] at h
              cases w with
              | none => exact tail rest .ign (fun _ => sl) h
              | some i =>
                dsimp only at h ⊢
                cases hsa : sl[i]? with
                | none => simp [hsa] at h
                | some a =>
                  cases hfb : fs.get? i with
                  | none => cases a <;> simp [hsa, hfb] at h
                  | some yy =>
                    obtain ⟨name, tk, fty⟩ := yy
                    cases a with
                    | some sv => simp [hsa, hfb] at h
                    | none =>
                      simp only [hsa, hfb] at h ⊢
                      exact tail rest fty (fun v => sl.set i (some v)) h

/-! ### root statements -/

theorem Unbroken.take {ts : List Tok} (h : Unbroken ts) (n : Nat) : Unbroken (ts.take n) :=
  h.sub (fun _ hx => List.mem_of_mem_take hx)

/-- (C20, deserializer level) the lexeme stream broke after `n` lexemes — the reader delivered a
prefix of the fault-free lexemes and then failed (`trunc`: a lexeme with a short payload; for the
streaming reader also `stray`: a dangling byte / an I/O error surfacing at a lexeme start).  If the
deserializer nevertheless returns `ok v`, then `v` is exactly what the fault-free input gives. -/
theorem C20_bin_de (p : Path) (c : Cfg) (ty : RootTy) (ts : List Tok) (hu : Unbroken ts) (n : Nat)
    (hn : n < ts.length) (m : Tok) (hm : m = .trunc ∨ (p = .stream ∧ m = .stray)) (v : String)
    (h : deSeqRoot p c ty (ts.take n ++ [m]) = .ok v) : deSeqRoot p c ty ts = .ok v := by
  have hd : Dead p [m] := by
    rcases hm with rfl | ⟨hp, rfl⟩
    · exact Or.inr (Or.inl ⟨[], rfl⟩)
    · exact Or.inr (Or.inr ⟨hp, [], rfl⟩)
  have hr : Rel2 [m] (ts.drop n) (ts.take n ++ [m]) ts := ⟨ts.take n, rfl, (List.take_append_drop n ts).symm, hu.take n⟩
  have hlen : (ts.take n ++ [m]).length ≤ ts.length := by simp; omega
  unfold deSeqRoot at h ⊢
  generalize hF1 : 2 * (ts.take n ++ [m]).length + rootSize ty + 8 = F1 at h
  generalize hF2 : 2 * ts.length + rootSize ty + 8 = F2
  have hfl : F1 ≤ F2 := by subst hF1; subst hF2; omega
  obtain ⟨_, _, hM, hS⟩ := cut_all hd (ts.drop n) c F1
  obtain ⟨_, _, mM, mS⟩ := fuel_mono p c F1
  cases ty with
  | tok fs =>
    dsimp only at h ⊢
    cases hx : deStruct p c F1 fs true true (ts.take n ++ [m]) (slotsInit fs) with
    | error e => simp [hx, Except.map] at h
    | ok y =>
      obtain ⟨vv, r⟩ := y
      simp [hx, Except.map] at h; subst h
      rcases hS fs true true _ _ _ vv r hr hx with ⟨r2', g, _⟩ | ⟨e, _⟩
      · rw [mS _ hfl _ _ _ _ _ _ g]; simp [Except.map]
      · simp at e
  | plain t =>
    cases t with
    | map vt =>
      dsimp only at h ⊢
      cases hx : deMap p c F1 vt true (ts.take n ++ [m]) [] with
      | error e => simp [hx] at h
      | ok y =>
        obtain ⟨items, r⟩ := y
        simp [hx] at h; subst h
        rcases hM vt true _ _ _ items r hr hx with ⟨r2', g, _⟩ | ⟨e, _⟩
        · rw [mM _ hfl _ _ _ _ _ g]
        · simp at e
    | struct fs =>
      dsimp only at h ⊢
      cases hx : deStruct p c F1 fs false true (ts.take n ++ [m]) (slotsInit fs) with
      | error e => simp [hx, Except.map] at h
      | ok y =>
        obtain ⟨vv, r⟩ := y
        simp [hx, Except.map] at h; subst h
        rcases hS fs false true _ _ _ vv r hr hx with ⟨r2', g, _⟩ | ⟨e, _⟩
        · rw [mS _ hfl _ _ _ _ _ _ g]; simp [Except.map]
        · simp at e
    | _ => simp at h

/-- (C19 core) a value, a sequence, a nested map or struct that was deserialized successfully from a
lexeme list that simply ends did not run out of input: the same call on any continuation of that
list returns the same value and leaves exactly the continuation more.  Contrapositive: input cut
inside a container, or between a key and the end of its value, is always an error. -/
theorem C19_bin_de_frame (p : Path) (c : Cfg) (f : Nat) (pre t2 : List Tok) (hu : Unbroken pre) :
    (∀ ty t v r, t ≠ .trunc → t ≠ .stray → deTok p c f ty t pre = .ok (v, r) →
        deTok p c f ty t (pre ++ t2) = .ok (v, r ++ t2)) ∧
    (∀ et acc items r, deElems p c f et pre acc = .ok (items, r) →
        deElems p c f et (pre ++ t2) acc = .ok (items, r ++ t2)) ∧
    (∀ vt acc items r, deMap p c f vt false pre acc = .ok (items, r) →
        deMap p c f vt false (pre ++ t2) acc = .ok (items, r ++ t2)) ∧
    (∀ fs bt slots v r, deStruct p c f fs bt false pre slots = .ok (v, r) →
        deStruct p c f fs bt false (pre ++ t2) slots = .ok (v, r ++ t2)) := by
  have hd : Dead p [] := Or.inl rfl
  obtain ⟨hT, hE, hM, hS⟩ := cut_all hd t2 c f
  have hr : Rel2 [] t2 pre (pre ++ t2) := ⟨pre, by simp, rfl, hu⟩
  have fin : ∀ {r r2' : List Tok}, Rel2 [] t2 r r2' → r2' = r ++ t2 := by
    intro r r2' ⟨q, e1, e2, _⟩; simp at e1; subst e1; exact e2
  refine ⟨?_, ?_, ?_, ?_⟩
  · intro ty t v r ht hs h
    obtain ⟨r2', g1, g2⟩ := hT ty t _ _ v r hr ht hs h
    rw [g1, fin g2]
  · intro et acc items r h
    obtain ⟨r2', g1, g2⟩ := hE et _ _ acc items r hr h
    rw [g1, fin g2]
  · intro vt acc items r h
    rcases hM vt false _ _ acc items r hr h with ⟨r2', g1, g2⟩ | ⟨_, e, _⟩
    · rw [g1, fin g2]
    · cases e
  · intro fs bt slots v r h
    rcases hS fs bt false _ _ slots v r hr h with ⟨r2', g1, g2⟩ | ⟨_, e, _⟩
    · rw [g1, fin g2]
    · cases e

/-- (C19, root) the root loop on a cut input either did not notice the cut (it returns the same on
the full input) or it consumed the whole cut input and stopped where it looks for the next
top-level key. -/
theorem C19_bin_de_root (p : Path) (c : Cfg) (f : Nat) (ts : List Tok) (hu : Unbroken ts) (n : Nat) :
    (∀ vt acc items r, deMap p c f vt true (ts.take n) acc = .ok (items, r) →
        deMap p c f vt true ts acc = .ok (items, r ++ ts.drop n) ∨ r = []) ∧
    (∀ fs bt slots v r, deStruct p c f fs bt true (ts.take n) slots = .ok (v, r) →
        deStruct p c f fs bt true ts slots = .ok (v, r ++ ts.drop n) ∨ r = []) := by
  have hd : Dead p [] := Or.inl rfl
  obtain ⟨_, _, hM, hS⟩ := cut_all hd (ts.drop n) c f
  have hr : Rel2 [] (ts.drop n) (ts.take n) ts := ⟨ts.take n, by simp, (List.take_append_drop n ts).symm, hu.take n⟩
  have fin : ∀ {r r2' : List Tok}, Rel2 [] (ts.drop n) r r2' → r2' = r ++ ts.drop n := by
    intro r r2' ⟨q, e1, e2, _⟩; simp at e1; subst e1; exact e2
  refine ⟨?_, ?_⟩
  · intro vt acc items r h
    rcases hM vt true _ _ acc items r hr h with ⟨r2', g1, g2⟩ | ⟨_, _, e⟩
    · exact Or.inl (by rw [g1, fin g2])
    · exact Or.inr e
  · intro fs bt slots v r h
    rcases hS fs bt true _ _ slots v r hr h with ⟨r2', g1, g2⟩ | ⟨_, _, e⟩
    · exact Or.inl (by rw [g1, fin g2])
    · exact Or.inr e

/-! ### the defect the repaired `reader.read()?` closed (known_findings F7): old discard semantics -/

/-- `next_key_seed` of the streaming path as it was BEFORE the repair: `let _ = reader.read();` after a
ghost `{` — a failed read is dropped and the loop goes on with whatever follows the failure. -/
def nextKeyDiscard (root : Bool) : Nat → List Tok → Res (Option Tok × List Tok)
  | 0, _ => .error .fuel
  | f + 1, toks =>
    match fetch .stream toks with
    | .tok .close rest => .ok (none, rest)
    | .tok .open rest =>
      match fetchRead .stream rest with
      | .ok (_, rest') => nextKeyDiscard root f rest'
      | .error _ => nextKeyDiscard root f (rest.drop 1)   -- the error is discarded
    | .tok t rest => .ok (some t, rest)
    | .eof => if root then .ok (none, []) else .error .other
    | .err => .error .other

/-- with the old semantics a stream that breaks inside a ghost object ends the root map with `Ok`,
although the fault-free input continues with the key `b`: the statement of `nextKey_cut` /
`C20_bin_de` is FALSE for it; the repaired model refuses. -/
example :
    nextKeyDiscard true 5 ([Tok.open] ++ [Tok.stray]) = .ok (none, []) ∧
    nextKeyDiscard true 5 [Tok.open, Tok.close, Tok.id 8199, Tok.equal, Tok.i32 2] = .ok (some (Tok.id 8199), [Tok.equal, Tok.i32 2]) ∧
    nextKey .stream true 5 ([Tok.open] ++ [Tok.stray]) = .error .other := by
  refine ⟨?_, ?_, ?_⟩ <;> simp [nextKeyDiscard, nextKey, fetch, fetchRead, RGB_ID]

/-! ### C19 for flat documents: the accepted cuts are exactly the top-level field boundaries -/

def firstK : Nat → BFields → BFields
  | 0, _ => .nil
  | _ + 1, .nil => .nil
  | k + 1, .cons g key v rest => .cons g key v (firstK k rest)

theorem flat_cut (p : Path) (c : Cfg) (vt : Ty) (hvt : LeafTy vt) :
    ∀ (m : Nat) (d : BFields), d.len = m → Flat d → ∀ (n f : Nat) acc items r,
      deMap p c f vt true ((tokensFields d).take n) acc = .ok (items, r) →
      ∃ k, (tokensFields d).take n = tokensFields (firstK k d) ∧ valMapG (binSem c) (firstK k d) vt acc = .ok items := by
  intro m
  induction m with
  | zero =>
    intro d hm _ n f acc items r h
    cases d with
    | cons g k v rest => simp [BFields.len] at hm
    | nil =>
      cases f with
      | zero => simp [deMap] at h
      | succ f =>
        simp [deMap, tokensFields, nextKey, fetch] at h
        exact ⟨0, by simp [tokensFields, firstK], by simp [firstK, valMapG, h.1]⟩
  | succ m ih =>
    intro d hm hfl n f acc items r h
    cases d with
    | nil => simp [BFields.len] at hm
    | cons g k v rest =>
      have hrm : rest.len = m := by simp [BFields.len] at hm; exact hm
      obtain ⟨hg, hk, ⟨l, hv, hl⟩, hrest⟩ := hfl
      subst hg; subst hv
      have htoks : tokensFields (.cons 0 k (.leaf l) rest) = k.tok :: .equal :: l.tok :: tokensFields rest := by
        simp [tokensFields, ghostToks, tokensNode]
      rw [htoks] at h ⊢
      cases f with
      | zero => simp [deMap] at h
      | succ f =>
      have hkne : k.tok ≠ .close ∧ k.tok ≠ .open := by cases k <;> simp [BLeaf.tok]
      have hnk : ∀ rr, nextKey p true (f + 1) (k.tok :: rr) = .ok (some k.tok, rr) := by
        intro rr
        simp only [nextKey, leafTok_fetch p k _ hk]
        cases k <;> simp_all [BLeaf.tok]
      match n with
      | 0 =>
        simp [deMap, nextKey, fetch] at h
        exact ⟨0, by simp [firstK, tokensFields], by simp [firstK, valMapG, h.1]⟩
      | 1 =>
        exfalso
        simp only [List.take, deMap, hnk] at h
        cases f with
        | zero => simp [deTok] at h
        | succ f =>
          rw [seq_leaf p c f .str (by simp [LeafTy]) k _ hk] at h
          cases hks : valLeaf c .str k <;> simp [hks, Except.map, nextValue, fetchRead, fetch] at h
      | 2 =>
        exfalso
        simp only [List.take, deMap, hnk] at h
        cases f with
        | zero => simp [deTok] at h
        | succ f =>
          rw [seq_leaf p c f .str (by simp [LeafTy]) k _ hk] at h
          have : fetch p [Tok.equal] = .tok .equal [] := by cases p <;> simp [fetch]
          cases hks : valLeaf c .str k <;> simp only [hks, Except.map, nextValue, fetchRead, this] at h <;> simp [fetch] at h
      | n' + 3 =>
        simp only [List.take] at h ⊢
        cases f with
        | zero => simp [deMap, hnk, deTok] at h
        | succ f =>
          have hnv : nextValue p (.equal :: l.tok :: (tokensFields rest).take n') = .ok (l.tok, (tokensFields rest).take n') := by
            have h1 : fetch p (.equal :: l.tok :: (tokensFields rest).take n') = .tok .equal (l.tok :: (tokensFields rest).take n') := by
              cases p <;> simp [fetch]
            simp only [nextValue, fetchRead, h1, leafTok_fetch p l _ hl]
          rw [deMap] at h
          simp only [hnk] at h
          rw [seq_leaf p c f .str (by simp [LeafTy]) k _ hk] at h
          have hS : (binSem c).leaf = valLeaf c := rfl
          cases hks : valLeaf c .str k with
          | error e => simp [hks, Except.map] at h
          | ok ks =>
            simp only [hks, Except.map, hnv] at h
            rw [seq_leaf p c f vt hvt l _ hl] at h
            cases hvs : valLeaf c vt l with
            | error e => simp [hvs, Except.map] at h
            | ok x =>
              simp only [hvs, Except.map] at h
              obtain ⟨k', e1, e2⟩ := ih rest hrm hrest n' (f + 1) _ items r h
              refine ⟨k' + 1, ?_, ?_⟩
              · simp [firstK, tokensFields, ghostToks, tokensNode, e1]
              · simp only [firstK, valMapG, hS, hks, spec_leaf' c vt hvt l, hvs]
                exact e2

/-- (C19 for flat documents, both sequential paths) if the lexeme list of a flat document is cut after
`n` lexemes and the deserializer still answers `ok v`, then the cut is a top-level field boundary and
`v` is the reference value of the document made of the first `k` complete fields: a cut after a key or
after its `=` is always an error. -/
theorem C19_bin_de_flat (p : Path) (c : Cfg) (vt : Ty) (hvt : LeafTy vt) (d : BDoc) (hfl : Flat d) (n : Nat) (v : String)
    (h : deSeqRoot p c (.plain (.map vt)) ((tokensOf d).take n) = .ok v) :
    ∃ k, (tokensOf d).take n = tokensOf (firstK k d) ∧ valueOfBin c (.plain (.map vt)) (firstK k d) = .ok v := by
  unfold deSeqRoot tokensOf at h
  dsimp only at h
  generalize 2 * ((tokensFields d).take n).length + rootSize (.plain (.map vt)) + 8 = F at h
  cases hx : deMap p c F vt true ((tokensFields d).take n) [] with
  | error e => simp [hx] at h
  | ok y =>
    obtain ⟨items, r⟩ := y
    rw [hx] at h
    obtain ⟨k, e1, e2⟩ := flat_cut p c vt hvt d.len d rfl hfl n _ [] items r hx
    refine ⟨k, e1, ?_⟩
    simp only [valueOfBin, valueOfG, e2]
    exact h

/-- the on-demand path (unlike the streaming one) takes a dangling byte at a top-level key position for
the end of the input (`Lexer::read_id` fails with `Eof`, which ends a root map): this is why
`C20_bin_de` admits `stray` for the streaming path only. -/
example : nextKey .ondemand true 3 [Tok.stray] = .ok (none, []) ∧ nextKey .stream true 3 [Tok.stray] = .error .other := by
  simp [nextKey, fetch]

end Jomini.BinDe
