import JominiModel.Proofs.BinReader
/-
C19 (binary lexer): lexing a prefix of the input yields exactly the tokens of the full
input that end at or before the cut, then a clean end iff the cut is a token boundary,
otherwise `Eof` — nothing is fabricated.
-/
namespace Jomini.BinLexer
open Jomini Jomini.BinReader

/-- how the run over `d.take k` ends relative to the full run:
`c` is the byte offset the prefix run stops at (a token boundary of the full input). -/
def CutEnd (d : Bytes) (k c n : Nat) (ts : List Token) (term term' : Terminal) : Prop :=
  (term' = .done ∧ c = k) ∨
  (term' = .err .eof ∧ c < k ∧
    ∀ t r, readToken (d.drop c) = .ok (t, r) → k < c + ((d.drop c).length - r.length)) ∨
  (term' = .err .invalidRgb ∧ term = .err .invalidRgb ∧ n = ts.length)

theorem take_nil_lexes : Lexes ([] : Bytes) [] .done [] := Lexes.done

/-- the cut lemma on the fuel-free run -/
theorem cut_lemma {d left : Bytes} {ts : List Token} {term : Terminal} (hl : Lexes d ts term left)
    (k : Nat) (hk : k ≤ d.length) :
    ∃ n c term', n ≤ ts.length ∧ c ≤ k ∧
      Lexes (d.take k) (ts.take n) term' ((d.take k).drop c) ∧
      Lexes (d.drop c) (ts.drop n) term left ∧
      CutEnd d k c n ts term term' := by
  induction hl generalizing k with
  | @tok d r left t ts term hrt hl' ih =>
    obtain ⟨pre, hpre, hloc⟩ := readToken_local d t r hrt
    have hdl : d.length = pre.length + r.length := by rw [hpre]; simp
    by_cases hm : pre.length ≤ k
    · -- the first token lies inside the prefix
      have htake : d.take k = pre ++ r.take (k - pre.length) := by
        rw [hpre, List.take_append, List.take_of_length_le hm]
      obtain ⟨n, c, term', hn, hc, l1, l2, hend⟩ := ih (k - pre.length) (by omega)
      refine ⟨n + 1, pre.length + c, term', by simp; omega, by omega, ?_, ?_, ?_⟩
      · rw [htake]
        have hd : (pre ++ r.take (k - pre.length)).drop (pre.length + c) = (r.take (k - pre.length)).drop c := by
          rw [← List.drop_drop, List.drop_left]
        rw [hd]
        exact Lexes.tok (hloc _) l1
      · have hd : d.drop (pre.length + c) = r.drop c := by
          rw [hpre, ← List.drop_drop, List.drop_left]
        rw [hd]
        exact l2
      · have hd : d.drop (pre.length + c) = r.drop c := by
          rw [hpre, ← List.drop_drop, List.drop_left]
        unfold CutEnd at *
        rw [hd]
        rcases hend with ⟨a, b⟩ | ⟨a, b, e⟩ | ⟨a, b, e⟩
        · exact Or.inl ⟨a, by omega⟩
        · refine Or.inr (Or.inl ⟨a, by omega, fun t' r' h' => ?_⟩)
          have := e t' r' h'
          omega
        · exact Or.inr (Or.inr ⟨a, b, by simp [e]⟩)
    · -- the cut falls inside the first token
      have hk' : k < pre.length := by omega
      have hsplit : d.take k ++ d.drop k = d := List.take_append_drop k d
      have hcut : readToken (d.take k) = .error .eof := by
        cases hc : readToken (d.take k) with
        | ok v =>
          obtain ⟨t', r'⟩ := v
          have := readToken_stable.ok _ (d.drop k) _ _ hc
          rw [hsplit, hrt] at this
          simp only [Except.ok.injEq, Prod.mk.injEq] at this
          have hlen := congrArg List.length this.2
          simp only [List.length_append, List.length_drop] at hlen
          omega
        | error e =>
          cases e with
          | eof => rfl
          | invalidRgb =>
            have := readToken_stable.rgb _ (d.drop k) hc
            rw [hsplit, hrt] at this
            simp at this
      by_cases hk0 : k = 0
      · subst hk0
        refine ⟨0, 0, .done, Nat.zero_le _, Nat.le_refl _, by simpa using Lexes.done, ?_, Or.inl ⟨rfl, rfl⟩⟩
        simpa using Lexes.tok hrt hl'
      · refine ⟨0, 0, .err .eof, Nat.zero_le _, Nat.zero_le _, ?_, by simpa using Lexes.tok hrt hl', ?_⟩
        · simp only [List.take_zero, List.drop_zero]
          refine Lexes.eof hcut ?_
          intro hnil
          have := congrArg List.length hnil
          simp only [List.length_take, List.length_nil] at this
          omega
        · refine Or.inr (Or.inl ⟨rfl, by omega, fun t' r' h' => ?_⟩)
          simp only [List.drop_zero] at h' ⊢
          rw [hrt] at h'
          simp only [Except.ok.injEq, Prod.mk.injEq] at h'
          rw [← h'.2]
          omega
  | done =>
    simp only [List.length_nil, Nat.le_zero_eq] at hk
    subst hk
    exact ⟨0, 0, .done, Nat.le_refl _, Nat.le_refl _, by simpa using Lexes.done, by simpa using Lexes.done,
      Or.inl ⟨rfl, rfl⟩⟩
  | @eof d hrt hne =>
    have hsplit : d.take k ++ d.drop k = d := List.take_append_drop k d
    have hcut : readToken (d.take k) = .error .eof := readToken_eof_prefix _ (d.drop k) (by rw [hsplit]; exact hrt)
    by_cases hk0 : k = 0
    · subst hk0
      exact ⟨0, 0, .done, Nat.le_refl _, Nat.le_refl _, by simpa using Lexes.done,
        by simpa using Lexes.eof hrt hne, Or.inl ⟨rfl, rfl⟩⟩
    · refine ⟨0, 0, .err .eof, Nat.le_refl _, Nat.zero_le _, ?_, by simpa using Lexes.eof hrt hne, ?_⟩
      · simp only [List.take_zero, List.drop_zero]
        refine Lexes.eof hcut ?_
        intro hnil
        have := congrArg List.length hnil
        simp only [List.length_take, List.length_nil] at this
        have : d.length = 0 := by omega
        exact hne (List.eq_nil_of_length_eq_zero this)
      · refine Or.inr (Or.inl ⟨rfl, by omega, fun t' r' h' => ?_⟩)
        simp only [List.drop_zero] at h'
        rw [hrt] at h'
        simp at h'
  | @rgb d hrt =>
    have hsplit : d.take k ++ d.drop k = d := List.take_append_drop k d
    have hne : d ≠ [] := by
      intro h; rw [h, readToken_nil] at hrt; simp at hrt
    cases hc : readToken (d.take k) with
    | ok v =>
      obtain ⟨t', r'⟩ := v
      have := readToken_stable.ok _ (d.drop k) _ _ hc
      rw [hsplit, hrt] at this
      simp at this
    | error e =>
      cases e with
      | invalidRgb =>
        exact ⟨0, 0, .err .invalidRgb, Nat.le_refl _, Nat.zero_le _, by simpa using Lexes.rgb hc,
          by simpa using Lexes.rgb hrt, Or.inr (Or.inr ⟨rfl, rfl, rfl⟩)⟩
      | eof =>
        by_cases hk0 : k = 0
        · subst hk0
          exact ⟨0, 0, .done, Nat.le_refl _, Nat.le_refl _, by simpa using Lexes.done,
            by simpa using Lexes.rgb hrt, Or.inl ⟨rfl, rfl⟩⟩
        · refine ⟨0, 0, .err .eof, Nat.le_refl _, Nat.zero_le _, ?_, by simpa using Lexes.rgb hrt, ?_⟩
          · simp only [List.take_zero, List.drop_zero]
            refine Lexes.eof hc ?_
            intro hnil
            have := congrArg List.length hnil
            simp only [List.length_take, List.length_nil] at this
            have : d.length = 0 := by omega
            exact hne (List.eq_nil_of_length_eq_zero this)
          · refine Or.inr (Or.inl ⟨rfl, by omega, fun t' r' h' => ?_⟩)
            simp only [List.drop_zero] at h'
            rw [hrt] at h'
            simp at h'

/-- **C19 (binary lexer).**  For every input `d` and every cut `k ≤ |d|` there are a token
count `n` and a byte offset `c ≤ k` such that
* lexing the prefix `d.take k` returns exactly the first `n` tokens of the full input and
  stops at offset `c` (unread: `(d.take k).drop c`);
* the full run passes through the same boundary: lexing `d.drop c` gives the remaining tokens
  `ts.drop n` and the full run's outcome;
* the prefix run ends (a) cleanly, and then `c = k`: the cut is a token boundary; or (b) with
  `Eof`, and then `c < k` and the full input's next token (if it has one at `c`) ends
  strictly after `k` — so the `n` tokens are *all* the tokens ending at or before `k`; or
  (c) with `InvalidRgb`, and then that is also the full run's outcome after the same tokens.
No token, and no error other than `Eof`, is fabricated by truncation. -/
theorem C19_lex_prefix (d : Bytes) (k : Nat) (hk : k ≤ d.length) :
    ∃ n c, n ≤ (lexAll d).1.length ∧ c ≤ k ∧
      (lexAll (d.take k)).1 = (lexAll d).1.take n ∧
      (lexAll (d.take k)).2.2 = (d.take k).drop c ∧
      Lexes (d.drop c) ((lexAll d).1.drop n) (lexAll d).2.1 (lexAll d).2.2 ∧
      CutEnd d k c n (lexAll d).1 (lexAll d).2.1 (lexAll (d.take k)).2.1 := by
  obtain ⟨n, c, term', hn, hc, l1, l2, hend⟩ := cut_lemma (lexAll_lexes d) k hk
  obtain ⟨e1, e2, e3⟩ := Lexes.det (lexAll_lexes (d.take k)) l1
  exact ⟨n, c, hn, hc, e1, e3, l2, by rw [e2]; exact hend⟩

example : (lexAll ([0x0c, 0, 1, 0, 0, 0, 0x0e, 0] : Bytes)).2.1 = .err .eof ∧
    (lexAll (([0x0c, 0, 1, 0, 0, 0, 0x0e, 0] : Bytes).take 6)).2.1 = .done := by
  constructor <;> rfl

end Jomini.BinLexer
