import JominiModel.Proofs.WriterBinary
/-
From the text-tape slice's one document type `JFields` to the writer's documents: the document
`write_tape` sees for a parsed `JFields` (layout forgotten, ghosts dropped, canonical start calls), its
content, canonicity and goodness — the glue for `C14_nested_roundtrip`.
-/
namespace Jomini.WriterParse
open Jomini Jomini.Writer.Spec Jomini.TextTape

/-- the operator call a tape operator gives rise to (`=` has no token: implicit) -/
def opOpt (o : TextTape.Op) : Option Writer.Op := if o = .eq then none else some (opW o)

theorem opOf_opOpt (o : TextTape.Op) : opOf (opOpt o) = o := by
  cases o <;> rfl

theorem opOpt_ne_eq (o : TextTape.Op) : opOpt o ≠ some .eq := by
  cases o <;> simp [opOpt, opW]

mutual
/-- the document `write_tape` sees: layout forgotten, ghosts dropped, canonical start calls -/
def gOfJV : JVal → GVal
  | .scal _ s => .scal (.raw s)
  | .empty _ _ => .empty .arrayStart
  | .obj _ _ k _ o v rest _ => .obj .objectStart (.cons (.raw k) (opOpt o) (gOfJV v) (gOfJF rest))
  | .arrS _ _ s0 rest _ => .arrS false (.raw s0) (gOfJVs rest)
  | .arrC _ first rest _ => .arrC false (gOfJV first) (gOfJVs rest)
  | .ghostIn _ _ _ v => gOfJV v
  | .mixed .. => .empty .arrayStart
def gOfJF : JFields → GFields
  | .nil => .nil
  | .cons _ k _ o v rest => .cons (.raw k) (opOpt o) (gOfJV v) (gOfJF rest)
  | .consImp _ k v rest => .cons (.raw k) none (gOfJV v) (gOfJF rest)
  | .ghost _ _ rest => gOfJF rest
  | .consHdr _ k _ o _ h body rest => .hdr (.raw k) (opOpt o) h.bytes (gOfJV body) (gOfJF rest)
  | .paramVal .. => .nil
  | .paramObj .. => .nil
def gOfJVs : JVals → GVals
  | .nil => .nil
  | .cons v rest => .cons (gOfJV v) (gOfJVs rest)
end

mutual
theorem content_gOfJV : ∀ v : JVal, JPlainV v → gcontentV (gOfJV v) = kcontentV v
  | .scal _ s, _ => by simp [gOfJV, gcontentV, kcontentV, SCall.scal]
  | .empty _ _, _ => by simp [gOfJV, gcontentV, kcontentV]
  | .obj _ _ k _ o v rest _, h => by
    simp only [JPlainV] at h
    simp [gOfJV, gcontentV, gcontentF, kcontentV, SCall.scal, opOf_opOpt, content_gOfJV v h.1, content_gOfJF rest h.2]
  | .arrS _ _ s0 rest _, h => by
    simp only [JPlainV] at h
    simp [gOfJV, gcontentV, kcontentV, SCall.scal, content_gOfJVs rest h]
  | .arrC _ first rest _, h => by
    simp only [JPlainV] at h
    simp [gOfJV, gcontentV, kcontentV, content_gOfJV first h.2.1, content_gOfJVs rest h.2.2]
  | .ghostIn _ _ _ v, h => by
    simp only [JPlainV] at h
    simp [gOfJV, kcontentV, content_gOfJV v h]
  | .mixed .., h => by simp [JPlainV] at h
theorem content_gOfJF : ∀ fs : JFields, JPlainF fs → gcontentF (gOfJF fs) = kcontentF fs
  | .nil, _ => rfl
  | .cons _ k _ o v rest, h => by
    simp only [JPlainF] at h
    simp [gOfJF, gcontentF, kcontentF, SCall.scal, opOf_opOpt, content_gOfJV v h.1, content_gOfJF rest h.2]
  | .consImp _ k v rest, h => by
    simp only [JPlainF] at h
    simp [gOfJF, gcontentF, kcontentF, SCall.scal, opOf, content_gOfJV v h.1, content_gOfJF rest h.2]
  | .ghost _ _ rest, h => by
    simp only [JPlainF] at h
    simp [gOfJF, kcontentF, content_gOfJF rest h]
  | .consHdr _ k _ o _ hh body rest, h => by
    simp only [JPlainF] at h
    simp [gOfJF, gcontentF, kcontentF, SCall.scal, opOf_opOpt, content_gOfJV body h.2.1, content_gOfJF rest h.2.2]
  | .paramVal .., h => by simp [JPlainF] at h
  | .paramObj .., h => by simp [JPlainF] at h
theorem content_gOfJVs : ∀ vs : JVals, JPlainVs vs → gcontentVs (gOfJVs vs) = kcontentVs vs
  | .nil, _ => rfl
  | .cons v rest, h => by
    simp only [JPlainVs] at h
    simp [gOfJVs, gcontentVs, kcontentVs, content_gOfJV v h.1, content_gOfJVs rest h.2]
end

mutual
theorem canon_gOfJV : ∀ v : JVal, (gOfJV v).Canon
  | .scal _ _ => trivial
  | .empty _ _ => rfl
  | .obj _ _ k _ o v rest _ => ⟨rfl, opOpt_ne_eq o, canon_gOfJV v, canon_gOfJF rest⟩
  | .arrS _ _ _ rest _ => ⟨rfl, canon_gOfJVs rest⟩
  | .arrC _ first rest _ => ⟨rfl, canon_gOfJV first, canon_gOfJVs rest⟩
  | .ghostIn _ _ _ v => by simp only [gOfJV]; exact canon_gOfJV v
  | .mixed .. => rfl
theorem canon_gOfJF : ∀ fs : JFields, (gOfJF fs).Canon
  | .nil => trivial
  | .cons _ k _ o v rest => ⟨opOpt_ne_eq o, canon_gOfJV v, canon_gOfJF rest⟩
  | .consImp _ k v rest => ⟨by simp, canon_gOfJV v, canon_gOfJF rest⟩
  | .ghost _ _ rest => by simp only [gOfJF]; exact canon_gOfJF rest
  | .consHdr _ k _ o _ h body rest => ⟨opOpt_ne_eq o, canon_gOfJV body, canon_gOfJF rest⟩
  | .paramVal .. => trivial
  | .paramObj .. => trivial
theorem canon_gOfJVs : ∀ vs : JVals, (gOfJVs vs).Canon
  | .nil => trivial
  | .cons v rest => ⟨canon_gOfJV v, canon_gOfJVs rest⟩
end

theorem braced_of_container (v : JVal) (h : v.isContainer) : v.isBraced := by
  cases v <;> simp [JVal.isContainer, JVal.isBraced] at h ⊢

theorem isContainer_gOfJV : ∀ (v : JVal) (after : Bytes), JValidV v after → JPlainV v → v.isBraced →
    kcontentV v ≠ .empty → (gOfJV v).isContainer = true
  | .scal _ _, _, _, _, hb, _ => by simp [JVal.isBraced] at hb
  | .empty _ _, _, _, _, _, hc => by simp [kcontentV] at hc
  | .obj .., _, _, _, _, _ => rfl
  | .arrS .., _, _, _, _, _ => rfl
  | .arrC .., _, _, _, _, _ => rfl
  | .ghostIn _ _ _ v, after, hv, hp, _, hc => by
    simp only [JValidV] at hv
    simp only [JPlainV] at hp
    simp only [kcontentV] at hc
    simp only [gOfJV]
    exact isContainer_gOfJV v after hv.2.2.2.2.2 hp hv.2.2.2.1 hc
  | .mixed .., _, _, hp, _, _ => by simp [JPlainV] at hp

mutual
theorem good_gOfJV : ∀ (v : JVal) (after : Bytes), JValidV v after → JPlainV v → (gOfJV v).Good
  | .scal _ s, _, hv, _ => by
    simp only [JValidV] at hv
    exact hv.2.1
  | .empty _ _, _, _, _ => trivial
  | .obj _ _ k _ o v rest _, after, hv, hp => by
    simp only [JValidV] at hv
    simp only [JPlainV] at hp
    obtain ⟨_, _, _, _, hk, _, hvv, hvr⟩ := hv
    exact ⟨hk, good_gOfJV v _ hvv hp.1, good_gOfJF rest _ hvr hp.2⟩
  | .arrS _ _ s0 rest _, after, hv, hp => by
    simp only [JValidV] at hv
    simp only [JPlainV] at hp
    obtain ⟨_, _, _, hs, _, _, hvr⟩ := hv
    exact ⟨hs, good_gOfJVs rest _ hvr hp⟩
  | .arrC _ first rest _, after, hv, hp => by
    simp only [JValidV] at hv
    simp only [JPlainV] at hp
    obtain ⟨_, _, hcont, hvf, hvr⟩ := hv
    exact ⟨isContainer_gOfJV first _ hvf hp.2.1 (braced_of_container first hcont) hp.1,
      good_gOfJV first _ hvf hp.2.1, good_gOfJVs rest _ hvr hp.2.2⟩
  | .ghostIn _ _ _ v, after, hv, hp => by
    simp only [JValidV] at hv
    simp only [JPlainV] at hp
    simp only [gOfJV]
    exact good_gOfJV v after hv.2.2.2.2.2 hp
  | .mixed .., _, _, hp => by simp [JPlainV] at hp
theorem good_gOfJF : ∀ (fs : JFields) (after : Bytes), JValidF fs after → JPlainF fs → (gOfJF fs).Good
  | .nil, _, _, _ => trivial
  | .cons _ k _ o v rest, after, hv, hp => by
    simp only [JValidF] at hv
    simp only [JPlainF] at hp
    obtain ⟨_, _, hk, _, hvv, hvr⟩ := hv
    exact ⟨hk, good_gOfJV v _ hvv hp.1, good_gOfJF rest _ hvr hp.2⟩
  | .consImp _ k v rest, after, hv, hp => by
    simp only [JValidF] at hv
    simp only [JPlainF] at hp
    obtain ⟨_, hk, _, _, hvv, hvr⟩ := hv
    exact ⟨hk, good_gOfJV v _ hvv hp.1, good_gOfJF rest _ hvr hp.2⟩
  | .ghost _ _ rest, after, hv, hp => by
    simp only [JValidF] at hv
    simp only [JPlainF] at hp
    simp only [gOfJF]
    exact good_gOfJF rest after hv.2.2 hp
  | .consHdr _ k _ o _ h body rest, after, hv, hp => by
    simp only [JValidF] at hv
    simp only [JPlainF] at hp
    obtain ⟨_, _, _, hk, _, hh, hq, _, hcont, hvb, hvr⟩ := hv
    refine ⟨hk, ?_, isContainer_gOfJV body _ hvb hp.2.1 (braced_of_container body hcont) hp.1,
      good_gOfJV body _ hvb hp.2.1, good_gOfJF rest _ hvr hp.2.2⟩
    have : (⟨false, h.bytes⟩ : Scal) = h := by cases h; simp_all
    rw [this]; exact hh
  | .paramVal .., _, _, hp => by simp [JPlainF] at hp
  | .paramObj .., _, _, hp => by simp [JPlainF] at hp
theorem good_gOfJVs : ∀ (vs : JVals) (after : Bytes), JValidVs vs after → JPlainVs vs → (gOfJVs vs).Good
  | .nil, _, _, _ => trivial
  | .cons v rest, after, hv, hp => by
    simp only [JValidVs] at hv
    simp only [JPlainVs] at hp
    exact ⟨good_gOfJV v _ hv.1 hp.1, good_gOfJVs rest _ hv.2 hp.2⟩
end

end Jomini.WriterParse
