/-
C04 on object→array MIXED containers `{ k = v …  s₁ s₂ … }`: the paths genuinely differ, and how.

The binary tape parser marks the place where an object continues as a bare list with the token
`MixedContainer`; the tape deserializer's `BinaryMap` presents that marker as a KEY (`visit_key`:
`visit_unit`) whose value is the next scalar, and goes on pairing what follows.  The on-demand and the
streaming deserializer have no such marker: `next_value_seed` reads a lexeme and, only if it is `=`,
one more — so on their side the `=` between a key and a scalar value is optional and the trailing
scalars are read as `key value` pairs.

  * `C04_seq_equal_optional_map` / `_struct`: on both sequential paths `k v rest` is read exactly like `k = v rest`.
  * `C04_mixed_tape_key_map` / `_struct`: on the tape path a map or struct request answers `invalid type`
    at the marker, whatever follows.
  * `C04_mixed_paths_differ`: the witness `a = { b = 1  c 2 }` read as `map(map(i32))` — the models of the
    sequential paths answer `{a={b=1,c=2}}`, the model of the tape path answers `invalid type`; the real
    code does the same (corpus/C04.txt, kind mixed-container-paths-disagree).

So `C04_paths_end_to_end` cannot be extended to mixed containers as it stands (`noMixedF` stays): a request
that reads INTO a mixed container sees different things.  A request that ignores it (`ign`) agrees
(`skip_node`-style balancedness on the sequential side, no read at all on the tape).
-/
import JominiModel.Proofs.BinDeNestedSeq
set_option linter.unusedSimpArgs false
namespace Jomini.BinDe
open Jomini

theorem nextValue_leaf (p : Path) (l : BLeaf) (hl : plainTok l.tok = true) (rest : List Tok) :
    nextValue p (l.tok :: rest) = .ok (l.tok, rest) := by
  have := fetchRead_node p (.leaf l) (by simpa [plainN] using hl) rest
  simp only [tokensNode, List.cons_append, List.nil_append, valueTok] at this
  simp only [nextValue, this]
  cases l <;> rfl

/-- the `=` between a key and a scalar value is optional on both sequential paths -/
theorem nextValue_equal_optional (p : Path) (l : BLeaf) (hl : plainTok l.tok = true) (rest : List Tok) :
    nextValue p (l.tok :: rest) = nextValue p (.equal :: l.tok :: rest) := by
  have h2 := nextValue_node p (.leaf l) (by simpa [plainN] using hl) rest
  simp only [tokensNode, List.cons_append, List.nil_append, valueTok] at h2
  rw [nextValue_leaf p l hl rest, h2]

/-- (sequential paths, map loop) `k v rest` is read exactly like `k = v rest`: trailing scalars of a mixed
container are taken as `key value` pairs. -/
theorem C04_seq_equal_optional_map (p : Path) (c : Cfg) (f : Nat) (vt : Ty) (root : Bool) (k l : BLeaf)
    (hk : plainTok k.tok = true) (hl : plainTok l.tok = true) (rest : List Tok) (acc : List String) :
    deMap p c f vt root (k.tok :: l.tok :: rest) acc = deMap p c f vt root (k.tok :: .equal :: l.tok :: rest) acc := by
  cases f with
  | zero => rfl
  | succ g =>
    have h1 := nextKey_field p root k hk (l.tok :: rest) 0 (g + 1) (by omega)
    have h2 := nextKey_field p root k hk (.equal :: l.tok :: rest) 0 (g + 1) (by omega)
    simp only [ghostToks, List.nil_append] at h1 h2
    rw [deMap_some p c g vt root _ _ _ acc h1, deMap_some p c g vt root _ _ _ acc h2]
    cases g with
    | zero => rfl
    | succ g' =>
      rw [seq_leaf p c g' .str (by simp [LeafTy]) k _ hk, seq_leaf p c g' .str (by simp [LeafTy]) k _ hk]
      cases valLeaf c .str k with
      | error e => rfl
      | ok ks => simp only [Except.map, nextValue_equal_optional p l hl rest]

/-- (sequential paths, struct loop) the same. -/
theorem C04_seq_equal_optional_struct (p : Path) (c : Cfg) (f : Nat) (decl : Fields) (bt root : Bool) (k l : BLeaf)
    (hk : plainTok k.tok = true) (hl : plainTok l.tok = true) (rest : List Tok) (slots : List (Option String)) :
    deStruct p c f decl bt root (k.tok :: l.tok :: rest) slots =
      deStruct p c f decl bt root (k.tok :: .equal :: l.tok :: rest) slots := by
  cases f with
  | zero => rfl
  | succ g =>
    have h1 := nextKey_field p root k hk (l.tok :: rest) 0 (g + 1) (by omega)
    have h2 := nextKey_field p root k hk (.equal :: l.tok :: rest) 0 (g + 1) (by omega)
    simp only [ghostToks, List.nil_append] at h1 h2
    have n1 := normTok_plain p .any k.tok (l.tok :: rest) hk
    have n2 := normTok_plain p .any k.tok (.equal :: l.tok :: rest) hk
    rw [deStruct_some p c g decl bt root _ _ _ _ _ slots h1 n1, deStruct_some p c g decl bt root _ _ _ _ _ slots h2 n2]
    unfold seqStructStep
    simp only [nextValue_equal_optional p l hl rest]

/-- (tape path, map loop) the `MixedContainer` marker in key position: `invalid type`, whatever follows. -/
theorem C04_mixed_tape_key_map (c : Cfg) (tape : List TTok) (f : Nat) (vt : Ty) (i e : Nat) (acc : List String)
    (hi : i < e) (hm : tape[i]? = some .mixed) (vtok : TTok) (hv : tape[i + 1]? = some vtok) :
    tMap c tape (f + 1) vt i e acc = .error .type := by
  simp [tMap, hi, hm, hv, visitKey, visitPrim]

/-- (tape path, struct loop, plain or token-attribute) the same. -/
theorem C04_mixed_tape_key_struct (c : Cfg) (tape : List TTok) (f : Nat) (decl : Fields) (bt : Bool) (i e : Nat)
    (slots : List (Option String)) (hi : i < e) (hm : tape[i]? = some .mixed) (vtok : TTok) (hv : tape[i + 1]? = some vtok) :
    tStruct c tape (f + 1) decl bt i e slots = .error .type := by
  cases bt <;> simp [tStruct, hi, hm, hv, tapeFieldKey, visitKey, fieldOfPrim]

/-- the witness `a = { b = 1  c 2 }` (lexemes `a = { b = 1 c 2 }`, tape `a O7 b 1 M c 2 E1`) read as a map of maps
of `i32`: both sequential paths pair `c 2`, the tape path stops at the marker. -/
def exMixedToks : List Tok := [.unquoted [97], .equal, .open, .unquoted [98], .equal, .i32 1, .unquoted [99], .i32 2, .close]
def exMixedTape : List TTok := [.unquoted [97], .object 7, .unquoted [98], .i32 1, .mixed, .unquoted [99], .i32 2, .end_ 1]
def exMixedTy : RootTy := .plain (.map (.map .i32))
def isTypeError : Res String → Bool
  | .error .type => true
  | _ => false

theorem C04_mixed_paths_differ :
    (deOndemand ⟨.error, []⟩ exMixedTy exMixedToks).toOption = some "{s61={s62=i1,s63=i2}}" ∧
    (deStream ⟨.error, []⟩ exMixedTy exMixedToks).toOption = some "{s61={s62=i1,s63=i2}}" ∧
    isTypeError (deTape ⟨.error, []⟩ exMixedTy exMixedTape) = true := by
  decide +kernel

end Jomini.BinDe
