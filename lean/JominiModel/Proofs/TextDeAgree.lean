import JominiModel.Spec.TextDoc
import JominiModel.Proofs.TextDeStream
import JominiModel.Proofs.TextDeTapeNested
/-
C02, every target type: a (type, value) pair either lies in `FitsT` -- where tape path, stream path
and `valueOf` coincide, errors included -- or contains one of the combinations listed in `Bad`.
-/
namespace Jomini.TextDe
open Jomini Jomini.TextDoc

/-- the classification is exhaustive: every (position, type, value) triple is in `FitsT` or in `Bad` -/
theorem fitsT_or_bad (enc : Enc) : ∀ (n : Nat) (ty : Ty) (b : Bool) (v : Node), ty.height < n →
    FitsT enc b ty v ∨ Bad enc b ty v := by
  intro n
  induction n with
  | zero => intro ty b v h; omega
  | succ n ih =>
    intro ty b v hh
    have leafTy : ∀ t : Ty, Ty.isTypedLeaf t = true → FitsT enc b t v ∨ Bad enc b t v := by
      intro t ht
      have hp : Ty.isPlainScalar t = true := by cases t <;> simp_all [Ty.isTypedLeaf, Ty.isPlainScalar]
      have hna : t ≠ .any := by intro h; subst h; simp [Ty.isTypedLeaf] at ht
      cases v with
      | leaf l => exact Or.inl (.scalar hp)
      | hdr h body => exact Or.inl (.hdrScalar hp hna)
      | obj dfs => exact Or.inl (.leafOnObj ht)
      | arr vs => exact Or.inl (.leafOnArr ht)
    cases ty with
    | bool => exact leafTy _ rfl
    | i64 => exact leafTy _ rfl
    | u64 => exact leafTy _ rfl
    | i32 => exact leafTy _ rfl
    | i16 => exact leafTy _ rfl
    | u16 => exact leafTy _ rfl
    | i8 => exact leafTy _ rfl
    | u8 => exact leafTy _ rfl
    | u32 => exact leafTy _ rfl
    | f64 => exact leafTy _ rfl
    | f32 => exact leafTy _ rfl
    | str => exact leafTy _ rfl
    | ign => exact Or.inl .ign
    | any =>
      cases v with
      | leaf l => exact Or.inl (.scalar rfl)
      | hdr h body => exact Or.inr .anyHdr
      | obj dfs => exact Or.inr .anyObj
      | arr vs =>
        cases hok : anyOks vs with
        | true => exact Or.inl (.anyArr hok)
        | false => exact Or.inr (.anyArr hok)
    | en vs =>
      cases v with
      | leaf l => exact Or.inl (.scalar rfl)
      | hdr h body => exact Or.inl (.hdrScalar rfl (by simp))
      | obj dfs => exact Or.inr .enObj
      | arr xs => exact Or.inr .enArr
    | opt t =>
      rcases ih t b v (by simp [Ty.height] at hh; omega) with h | h
      · exact Or.inl (.opt h)
      · exact Or.inr (.opt h)
    | prop t =>
      cases b with
      | false => exact Or.inr .propElem
      | true =>
        rcases ih t false v (by simp [Ty.height] at hh; omega) with h | h
        · exact Or.inl (.prop h)
        · exact Or.inr (.prop h)
    | seq t =>
      cases v with
      | leaf l => exact Or.inr .seqLeaf
      | hdr h body => exact Or.inr .seqHdr
      | obj dfs => exact Or.inr .seqObj
      | arr vs =>
        by_cases hex : ∃ x, x ∈ expandNodes vs ∧ Bad enc false t x
        · obtain ⟨x, hm, hb⟩ := hex
          exact Or.inr (.seqElem hm hb)
        · refine Or.inl (.seq (fun x hm => ?_))
          rcases ih t false x (by simp [Ty.height] at hh; omega) with h | h
          · exact h
          · exact absurd ⟨x, hm, h⟩ hex
    | tup ts =>
      cases v with
      | leaf l => exact Or.inr .tupLeaf
      | hdr h body => exact Or.inr .tupHdr
      | obj dfs => exact Or.inr .tupObj
      | arr vs =>
        rcases Nat.lt_or_ge ts.length (expandNodes vs).length with hlen | hlen
        · exact Or.inr (.tupLong hlen)
        · by_cases hex : ∃ t x, (t, x) ∈ List.zip ts (expandNodes vs) ∧ Bad enc false t x
          · obtain ⟨t, x, hm, hb⟩ := hex
            exact Or.inr (.tupElem hm hb)
          · refine Or.inl (.tup hlen (fun t x hm => ?_))
            rcases ih t false x (by have := mem_heightTs ts t (List.of_mem_zip hm).1; simp [Ty.height] at hh; omega) with h | h
            · exact h
            · exact absurd ⟨t, x, hm, h⟩ hex
    | map t =>
      cases v with
      | leaf l => exact Or.inl .mapOnLeaf
      | hdr h body => exact Or.inr .mapHdr
      | arr vs =>
        cases vs with
        | nil => exact Or.inl .emptyMap
        | cons x xs => exact Or.inr .mapArr
      | obj dfs =>
        by_cases hex : ∃ k o x, (k, o, x) ∈ dfs ∧ Bad enc true t x
        · obtain ⟨k, o, x, hm, hb⟩ := hex
          exact Or.inr (.mapElem hm hb)
        · refine Or.inl (.map (fun k o x hm => ?_))
          rcases ih t true x (by simp [Ty.height] at hh; omega) with h | h
          · exact h
          · exact absurd ⟨k, o, x, hm, h⟩ hex
    | st fs =>
      cases v with
      | leaf l => exact Or.inl .stOnLeaf
      | hdr h body => exact Or.inr .stHdr
      | arr vs =>
        cases vs with
        | nil => exact Or.inl .emptySt
        | cons x xs => exact Or.inr .stArr
      | obj dfs =>
        by_cases hex : ∃ k o x i t, (k, o, x) ∈ dfs ∧ lookupIdx (decode enc k.bytes) fs 0 = some (i, t) ∧ Bad enc true t x
        · obtain ⟨k, o, x, i, t, hm, hl, hb⟩ := hex
          exact Or.inr (.stElem hm hl hb)
        · refine Or.inl (.st (fun k o x hm i t hl => ?_))
          rcases ih t true x (by have := lookupIdx_height _ fs 0 i t hl; simp [Ty.height] at hh; omega) with h | h
          · exact h
          · exact absurd ⟨k, o, x, i, t, hm, hl, h⟩ hex

/-- error agreement, every target type: for every well-formed save-style document and EVERY root
target type, either the two paths return the same result -- the same value, or the same error class
-- and that result is `valueOf`, or the pair contains one of the combinations of `Bad` -/
theorem error_agreement (enc : Enc) (ty : Ty) (d : Doc) (hroot : Ty.isRoot ty = true) (hwf : wfFields d = true) :
    (deTape enc ty (tapeOf d) = deStream enc ty (lexemes d) ∧ deTape enc ty (tapeOf d) = valueOf enc ty d) ∨
    Bad enc false ty (.obj d) := by
  rcases fitsT_or_bad enc (ty.height + 1) ty false (.obj d) (Nat.lt_succ_self _) with h | h
  · exact Or.inl ⟨deTape_eq_deStream enc ty d hroot hwf h, deTape_eq_valueOf enc ty d hroot hwf h⟩
  · exact Or.inr h

/-! ### fixed-length targets on a LONGER array: the exact behaviour of both paths -/

/-- tape path: the tuple's elements are read from the front of the array, whatever follows is never looked at --
for an array of ANY length the result is `valueOfN` (whose `tupVals` takes the prefix) -/
theorem tde_tup_any_length (enc : Enc) (toks : List TTok) (f : Nat) (ts : List Ty) (vs : List Node) (i : Nat) (b : Bool) (o : Op)
    (hall : ∀ t x, (t, x) ∈ List.zip ts (expandNodes vs) → FitsT enc false t x)
    (hwf : (Node.arr vs).wf = true) (hsit : SitsAt toks i (tapeNode i (.arr vs))) (hh : Ty.heightTs ts < f) :
    tde enc toks (f + 1) (.tup ts) (vkOf b o i) = valueOfN enc (f + 1) (.tup ts) o (.arr vs) := by
  obtain ⟨h0, h1⟩ := sits_arr hsit
  have hwn : wfNodes vs = true := by simpa [Node.wf] using hwf
  have hsz := nodesTsize_expand vs hwn
  rw [← tapeNodes_expand vs (i + 1) hwn] at h1
  have := tTupFold_nodesN toks (tde enc toks f) (fun t x => valueOfN enc f t .eq x) (i + 1 + nodesTsize vs) ts (expandNodes vs) (i + 1)
    h1 (by omega) (fun v hm => (expand_mem vs hwn v hm).2)
    (fun t x hm i' hs' => by
      have := tde_node enc toks f t false .eq x i' (hall t x hm) (expand_mem vs hwn x (List.of_mem_zip hm).2).1 hs'
        (by have := mem_heightTs ts t (List.of_mem_zip hm).1; omega) (fun _ => rfl)
      simpa [vkOf] using this)
  rw [tde, valueOfN]
  simp only [tShape_seq_arr enc h0, this]

/-- stream path: after the tuple's elements the closing brace is demanded -- on a longer array the result is the
first element error, if there is one among the elements read, and `invalid syntax` (class `other`) otherwise -/
theorem sde_tup_longer (enc : Enc) (f : Nat) (ts : List Ty) (vs : List Node) (o : Op) (rest : List RTok)
    (hall : ∀ t x, (t, x) ∈ List.zip ts (expandNodes vs) → Fits enc t x)
    (hwf : (Node.arr vs).wf = true) (hlen : ts.length < (expandNodes vs).length) (hh : Ty.heightTs ts < f) :
    sde enc (f + 1) (.tup ts) (nodeHead (.arr vs)) o (nodeTail (.arr vs) ++ rest) =
      (match tupVals (fun t x => valueOfN enc f t .eq x) ts (expandNodes vs) with
       | .error e => .error e
       | .ok _ => .error .other) := by
  have hwn : wfNodes vs = true := by simpa [Node.wf] using hwf
  have hex := lexNodes_expand vs
  have := sTupFold_nodes (fun t tok r => sde enc f t tok .eq r) (fun t x => valueOfN enc f t .eq x) rest ts (expandNodes vs)
    (fun v hm => (expand_mem vs hwn v hm).2)
    (fun t x hm rest' => sde_node enc f t .eq x rest' (hall t x hm) (expand_mem vs hwn x (List.of_mem_zip hm).2).1
      (by have := mem_heightTs ts t (List.of_mem_zip hm).1; omega))
  simp only [nodeHead, nodeTail]
  rw [sde]
  rw [hex] at this
  simp only [List.append_assoc, List.singleton_append] at this ⊢
  rw [this]
  cases tupVals (fun t x => valueOfN enc f t Op.eq x) ts (expandNodes vs) with
  | error e => simp [Except.map]
  | ok xs =>
    simp only [Except.map]
    obtain ⟨y, ys, hd⟩ : ∃ y ys, (expandNodes vs).drop ts.length = y :: ys := by
      cases hdr : (expandNodes vs).drop ts.length with
      | nil => have := List.drop_eq_nil_iff.mp hdr; omega
      | cons y ys => exact ⟨y, ys, rfl⟩
    rw [hd]
    simp only [lexNodes, lexNode_cons, List.cons_append]
    rcases nodeHead_cases y with ⟨s, h⟩ | ⟨s, h⟩ | h <;> simp [h, rRead]

end Jomini.TextDe
