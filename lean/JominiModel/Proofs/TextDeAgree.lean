import JominiModel.Spec.TextDoc
import JominiModel.Proofs.TextDeStream
import JominiModel.Proofs.TextDeTapeNested
/-
C02, every target type: a (type, value) pair either lies in `FitsT` -- where tape path, stream path
and `valueOf` coincide, errors included -- or contains one of the combinations listed in `Bad`.
-/
namespace Jomini.TextDe
open Jomini Jomini.TextDoc

/-- the classification is exhaustive: every (position, type, value) triple is in `FitsT` or in `Bad` -/
theorem fitsT_or_bad (enc : Enc) : ∀ (n : Nat) (ty : Ty) (b : Bool) (v : Node), ty.height < n →
    FitsT enc b ty v ∨ Bad enc b ty v := by
  intro n
  induction n with
  | zero => intro ty b v h; omega
  | succ n ih =>
    intro ty b v hh
    have leafTy : ∀ t : Ty, Ty.isTypedLeaf t = true → FitsT enc b t v ∨ Bad enc b t v := by
      intro t ht
      have hp : Ty.isPlainScalar t = true := by cases t <;> simp_all [Ty.isTypedLeaf, Ty.isPlainScalar]
      have hna : t ≠ .any := by intro h; subst h; simp [Ty.isTypedLeaf] at ht
      cases v with
      | leaf l => exact Or.inl (.scalar hp)
      | hdr h body => exact Or.inl (.hdrScalar hp hna)
      | obj dfs => exact Or.inl (.leafOnObj ht)
      | arr vs => exact Or.inl (.leafOnArr ht)
    cases ty with
    | bool => exact leafTy _ rfl
    | i64 => exact leafTy _ rfl
    | u64 => exact leafTy _ rfl
    | i32 => exact leafTy _ rfl
    | i16 => exact leafTy _ rfl
    | u16 => exact leafTy _ rfl
    | i8 => exact leafTy _ rfl
    | u8 => exact leafTy _ rfl
    | u32 => exact leafTy _ rfl
    | f64 => exact leafTy _ rfl
    | f32 => exact leafTy _ rfl
    | str => exact leafTy _ rfl
    | ign => exact Or.inl .ign
    | any =>
      cases v with
      | leaf l => exact Or.inl (.scalar rfl)
      | hdr h body => exact Or.inr .anyHdr
      | obj dfs => exact Or.inr .anyObj
      | arr vs =>
        cases hok : anyOks vs with
        | true => exact Or.inl (.anyArr hok)
        | false => exact Or.inr (.anyArr hok)
    | en vs =>
      cases v with
      | leaf l => exact Or.inl (.scalar rfl)
      | hdr h body => exact Or.inl (.hdrScalar rfl (by simp))
      | obj dfs => exact Or.inr .enObj
      | arr xs => exact Or.inr .enArr
    | opt t =>
      rcases ih t b v (by simp [Ty.height] at hh; omega) with h | h
      · exact Or.inl (.opt h)
      · exact Or.inr (.opt h)
    | prop t =>
      cases b with
      | false => exact Or.inr .propElem
      | true =>
        rcases ih t false v (by simp [Ty.height] at hh; omega) with h | h
        · exact Or.inl (.prop h)
        · exact Or.inr (.prop h)
    | seq t =>
      cases v with
      | leaf l => exact Or.inr .seqLeaf
      | hdr h body => exact Or.inr .seqHdr
      | obj dfs => exact Or.inr .seqObj
      | arr vs =>
        by_cases hex : ∃ x, x ∈ expandNodes vs ∧ Bad enc false t x
        · obtain ⟨x, hm, hb⟩ := hex
          exact Or.inr (.seqElem hm hb)
        · refine Or.inl (.seq (fun x hm => ?_))
          rcases ih t false x (by simp [Ty.height] at hh; omega) with h | h
          · exact h
          · exact absurd ⟨x, hm, h⟩ hex
    | map t =>
      cases v with
      | leaf l => exact Or.inl .mapOnLeaf
      | hdr h body => exact Or.inr .mapHdr
      | arr vs =>
        cases vs with
        | nil => exact Or.inl .emptyMap
        | cons x xs => exact Or.inr .mapArr
      | obj dfs =>
        by_cases hex : ∃ k o x, (k, o, x) ∈ dfs ∧ Bad enc true t x
        · obtain ⟨k, o, x, hm, hb⟩ := hex
          exact Or.inr (.mapElem hm hb)
        · refine Or.inl (.map (fun k o x hm => ?_))
          rcases ih t true x (by simp [Ty.height] at hh; omega) with h | h
          · exact h
          · exact absurd ⟨k, o, x, hm, h⟩ hex
    | st fs =>
      cases v with
      | leaf l => exact Or.inl .stOnLeaf
      | hdr h body => exact Or.inr .stHdr
      | arr vs =>
        cases vs with
        | nil => exact Or.inl .emptySt
        | cons x xs => exact Or.inr .stArr
      | obj dfs =>
        by_cases hex : ∃ k o x i t, (k, o, x) ∈ dfs ∧ lookupIdx (decode enc k.bytes) fs 0 = some (i, t) ∧ Bad enc true t x
        · obtain ⟨k, o, x, i, t, hm, hl, hb⟩ := hex
          exact Or.inr (.stElem hm hl hb)
        · refine Or.inl (.st (fun k o x hm i t hl => ?_))
          rcases ih t true x (by have := lookupIdx_height _ fs 0 i t hl; simp [Ty.height] at hh; omega) with h | h
          · exact h
          · exact absurd ⟨k, o, x, i, t, hm, hl, h⟩ hex

/-- error agreement, every target type: for every well-formed save-style document and EVERY root
target type, either the two paths return the same result -- the same value, or the same error class
-- and that result is `valueOf`, or the pair contains one of the combinations of `Bad` -/
theorem error_agreement (enc : Enc) (ty : Ty) (d : Doc) (hroot : Ty.isRoot ty = true) (hwf : wfFields d = true) :
    (deTape enc ty (tapeOf d) = deStream enc ty (lexemes d) ∧ deTape enc ty (tapeOf d) = valueOf enc ty d) ∨
    Bad enc false ty (.obj d) := by
  rcases fitsT_or_bad enc (ty.height + 1) ty false (.obj d) (Nat.lt_succ_self _) with h | h
  · exact Or.inl ⟨deTape_eq_deStream enc ty d hroot hwf h, deTape_eq_valueOf enc ty d hroot hwf h⟩
  · exact Or.inr h

end Jomini.TextDe
