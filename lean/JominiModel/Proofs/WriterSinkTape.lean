import JominiModel.Proofs.WriterSink
/-
`write_tape` over the failing sink (`writeTapeF`) against `write_tape` over an unlimited one
(`writeTape`): whenever the unlimited walk succeeds, the fallible one does the same until the sink is
full, then returns `Err(io)` with exactly the first `cap` bytes written.
-/
namespace Jomini.Writer
open Jomini

theorem simE_err {cap : Nat} {mF : FM} {m : State → Except WErr State} (h : ∀ s, ∃ e, m s = .error e) :
    SimE cap mF m := by
  refine ⟨fun s s' hs => ?_, fun s s' _ hs => ?_⟩
  · obtain ⟨e, he⟩ := h s
    rw [he] at hs; cases hs
  · obtain ⟨e, he⟩ := h s
    rw [he] at hs; cases hs

theorem sim_opArmTok (cap : Nat) (op : Op) :
    Sim cap (.seq (.dep fun s => if s.mixedMode = .disabled then putF cap [32] else .mod fun s => { s with mixedMode := .keyed })
      (putF cap op.symbol))
      (fun s => put (if s.mixedMode = .disabled then put s [32] else { s with mixedMode := .keyed }) op.symbol) := by
  refine sim_seq (f := fun s => if s.mixedMode = .disabled then put s [32] else { s with mixedMode := .keyed })
    (g := fun s => put s op.symbol) ?_ (sim_put cap op.symbol)
  refine sim_congr (sim_dep (m := fun s0 s => if s0.mixedMode = .disabled then put s [32] else { s with mixedMode := .keyed })
    (fun s0 => ?_)) (fun _ => rfl)
  by_cases hd : s0.mixedMode = .disabled
  · simp only [hd, if_true]; exact sim_put cap [32]
  · simp only [hd, if_false]; exact sim_mod cap (fun t : State => { t with mixedMode := .keyed }) (fun _ => rfl)

theorem simE_opF (cap : Nat) (op : Option Op) :
    SimE cap (match op with | some o => writeOperatorF cap o | none => .ok)
      (fun s => .ok (match op with | some o => writeOperator s o | none => s)) := by
  cases op with
  | none => exact simE_ok cap
  | some o => exact simE_of_sim (sim_operator cap o)

theorem sim_closeP (cap : Nat) :
    Sim cap (.seq (putF cap [10]) (.seq (writeIndentF cap) (putF cap [93]))) (fun s => put (writeIndent (put s [10])) [93]) :=
  sim_seq (sim_put cap [10]) (sim_seq (sim_indent cap) (sim_put cap [93]))

/-- the four walk functions at one amount of fuel -/
structure WalkSim (cap : Nat) (toks : List Tok) (fuel : Nat) : Prop where
  core : ∀ i e, SimE cap (writeObjectCoreF cap toks fuel i e) (writeObjectCore toks fuel i e)
  param : ∀ op x vi, SimE cap (writeParamF cap toks fuel op x vi) (writeParam toks fuel op x vi)
  value : ∀ i, SimE cap (writeValueF cap toks fuel i) (writeValue toks fuel i)
  values : ∀ i e, SimE cap (writeValuesF cap toks fuel i e) (writeValues toks fuel i e)

theorem walk_zero (cap : Nat) (toks : List Tok) : WalkSim cap toks 0 := by
  refine ⟨fun i e => ?_, fun op x vi => ?_, fun i => ?_, fun i e => ?_⟩
  · rw [writeObjectCoreF]; exact simE_err (fun s => ⟨.fuel, by rw [writeObjectCore]⟩)
  · rw [writeParamF]; exact simE_err (fun s => ⟨.fuel, by rw [writeParam]⟩)
  · rw [writeValueF]; exact simE_err (fun s => ⟨.fuel, by rw [writeValue]⟩)
  · rw [writeValuesF]; exact simE_err (fun s => ⟨.fuel, by rw [writeValues]⟩)

theorem value_succ (cap : Nat) (toks : List Tok) (fuel : Nat) (ih : WalkSim cap toks fuel) (i : Nat) :
    SimE cap (writeValueF cap toks (fuel + 1) i) (writeValue toks (fuel + 1) i) := by
  rw [writeValueF]
  cases h : toks[i]? with
  | none => exact simE_err (fun s => ⟨.panic, by rw [writeValue]; simp only [h]⟩)
  | some tok =>
    cases tok with
    | array e m =>
      refine simE_congr (simE_bind (simE_of_sim (sim_arrayStart cap)) (simE_bind (ih.values (i + 1) e) (simE_end cap)))
        (fun s => ?_)
      rw [writeValue]; simp only [h, bindE]
      cases writeValues toks fuel (i + 1) e (writeArrayStart s) <;> rfl
    | object e m =>
      refine simE_congr (simE_bind (simE_of_sim (sim_objectStart cap)) (simE_bind (ih.core (i + 1) e) (simE_end cap)))
        (fun s => ?_)
      rw [writeValue]; simp only [h, bindE]
      cases writeObjectCore toks fuel (i + 1) e (writeObjectStart s) <;> rfl
    | mixedContainer =>
      exact simE_congr (simE_of_sim (sim_mixedMode cap)) (fun s => by rw [writeValue]; simp only [h])
    | unquoted x => exact simE_congr (simE_raw cap x) (fun s => by rw [writeValue]; simp only [h])
    | quoted x => exact simE_congr (simE_escaped cap x) (fun s => by rw [writeValue]; simp only [h])
    | parameter x => exact simE_err (fun s => ⟨.panic, by rw [writeValue]; simp only [h]⟩)
    | undefinedParameter x => exact simE_err (fun s => ⟨.panic, by rw [writeValue]; simp only [h]⟩)
    | «end» x => exact simE_err (fun s => ⟨.panic, by rw [writeValue]; simp only [h]⟩)
    | operator op =>
      exact simE_congr (simE_of_sim (sim_opArmTok cap op)) (fun s => by rw [writeValue]; simp only [h])
    | header x =>
      simp only []
      cases hn : nextIdx toks (toks.length + 1) (i + 1) with
      | error e => exact simE_err (fun s => ⟨e, by rw [writeValue]; simp only [h, hn]⟩)
      | ok endInd =>
        simp only []
        by_cases h1 : i < endInd
        · by_cases h2 : i + 1 < endInd
          · cases hv : nextIdxValues toks (i + 1) with
            | error e =>
              exact simE_err (fun s => ⟨e, by rw [writeValue]; simp [h, hn, h1, h2, hv]⟩)
            | ok y =>
              simp only [h1, h2, not_true_eq_false, if_false]
              refine simE_congr (simE_bind (simE_of_sim (sim_header cap x)) (ih.value (i + 1))) (fun s => ?_)
              rw [writeValue]; simp [h, hn, h1, h2, hv, bindE]
          · exact simE_err (fun s => ⟨.panic, by rw [writeValue]; simp [h, hn, h1, h2]⟩)
        · exact simE_err (fun s => ⟨.panic, by rw [writeValue]; simp [h, hn, h1]⟩)

theorem values_succ (cap : Nat) (toks : List Tok) (fuel : Nat) (ih : WalkSim cap toks fuel) (i e : Nat) :
    SimE cap (writeValuesF cap toks (fuel + 1) i e) (writeValues toks (fuel + 1) i e) := by
  rw [writeValuesF]
  by_cases hlt : i < e
  · simp only [hlt, if_true]
    cases hn : nextIdxValues toks i with
    | error er => exact simE_err (fun s => ⟨er, by rw [writeValues]; simp [hlt, hn]⟩)
    | ok next =>
      refine simE_congr (simE_bind (ih.value i) (ih.values next e)) (fun s => ?_)
      rw [writeValues]; simp only [hlt, if_true, hn, bindE]
      cases writeValue toks fuel i s <;> rfl
  · simp only [hlt, if_false]
    exact simE_congr (simE_ok cap) (fun s => by rw [writeValues]; simp [hlt])

theorem param_succ (cap : Nat) (toks : List Tok) (fuel : Nat) (ih : WalkSim cap toks fuel) (op x : Bytes) (vi : Nat) :
    SimE cap (writeParamF cap toks (fuel + 1) op x vi) (writeParam toks (fuel + 1) op x vi) := by
  rw [writeParamF]
  have hhead : ∀ (rest : FM) (restP : State → Except WErr State), SimE cap rest restP →
      SimE cap (.seq (writePreambleF cap) (.seq (putF cap (op ++ x ++ [93, 10])) rest))
        (fun s => restP (put (writePreamble s) (op ++ x ++ [93, 10]))) := by
    intro rest restP hr
    exact simE_congr (simE_bind (simE_of_sim (sim_preamble cap)) (simE_bind (simE_of_sim (sim_put cap (op ++ x ++ [93, 10]))) hr))
      (fun s => by simp [bindE])
  cases h : toks[vi]? with
  | none => exact simE_err (fun s => ⟨.panic, by rw [writeParam]; simp only [h]⟩)
  | some tok =>
    have hval : (∀ e m, tok ≠ .object e m) → (∀ e m, tok ≠ .array e m) →
        SimE cap (.seq (writePreambleF cap) (.seq (putF cap (op ++ x ++ [93, 10]))
          (.seq (writeValueF cap toks fuel vi) (putF cap [93])))) (writeParam toks (fuel + 1) op x vi) := by
      intro hno hna
      refine simE_congr (hhead _ _ (simE_bind (ih.value vi) (simE_of_sim (sim_put cap [93])))) (fun s => ?_)
      rw [writeParam]; simp only [h, bindE]
      cases tok <;> first | exact absurd rfl (hno _ _) | exact absurd rfl (hna _ _) |
        (cases writeValue toks fuel vi (put (writePreamble s) (op ++ x ++ [93, 10])) <;> rfl)
    cases tok with
    | object e m =>
      refine simE_congr (hhead _ _ (simE_bind (ih.core (vi + 1) e) (simE_of_sim (sim_closeP cap)))) (fun s => ?_)
      rw [writeParam]; simp only [h, bindE]
      cases writeObjectCore toks fuel (vi + 1) e (put (writePreamble s) (op ++ x ++ [93, 10])) <;> rfl
    | array e m =>
      refine simE_congr (hhead _ _ (simE_bind (ih.core e e) (simE_of_sim (sim_closeP cap)))) (fun s => ?_)
      rw [writeParam]; simp only [h, bindE]
      cases writeObjectCore toks fuel e e (put (writePreamble s) (op ++ x ++ [93, 10])) <;> rfl
    | mixedContainer => exact hval (by simp) (by simp)
    | unquoted b => exact hval (by simp) (by simp)
    | quoted b => exact hval (by simp) (by simp)
    | parameter b => exact hval (by simp) (by simp)
    | undefinedParameter b => exact hval (by simp) (by simp)
    | operator o => exact hval (by simp) (by simp)
    | «end» st => exact hval (by simp) (by simp)
    | header b => exact hval (by simp) (by simp)

/-- the field behind a scalar / parameter key, fallible -/
def afterFieldF (cap : Nat) (toks : List Tok) (fuel : Nat) (key : Tok) (op : Option Op) (vi : Nat) : FM :=
  match key with
  | .parameter x => writeParamF cap toks fuel [91, 91] x vi
  | .undefinedParameter x => writeParamF cap toks fuel [91, 91, 33] x vi
  | .quoted x => .seq (writeEscapedQuotesF cap x)
      (.seq (match op with | some o => writeOperatorF cap o | none => .ok) (writeValueF cap toks fuel vi))
  | .unquoted x => .seq (writeUnquotedF cap x)
      (.seq (match op with | some o => writeOperatorF cap o | none => .ok) (writeValueF cap toks fuel vi))
  | _ => failF .panic

/-- … and over the unlimited sink -/
def afterFieldP (toks : List Tok) (fuel : Nat) (key : Tok) (op : Option Op) (vi : Nat) (s : State) : Except WErr State :=
  match key with
  | .parameter x => writeParam toks fuel [91, 91] x vi s
  | .undefinedParameter x => writeParam toks fuel [91, 91, 33] x vi s
  | .quoted x =>
    (match writeEscapedQuotes s x with
     | .error e => .error e
     | .ok s =>
       let s := match op with | some o => writeOperator s o | none => s
       writeValue toks fuel vi s)
  | .unquoted x =>
    (match writeUnquoted s x with
     | .error e => .error e
     | .ok s =>
       let s := match op with | some o => writeOperator s o | none => s
       writeValue toks fuel vi s)
  | _ => .error .panic

theorem afterField_sim (cap : Nat) (toks : List Tok) (fuel : Nat) (ih : WalkSim cap toks fuel) (key : Tok)
    (op : Option Op) (vi : Nat) : SimE cap (afterFieldF cap toks fuel key op vi) (afterFieldP toks fuel key op vi) := by
  cases key with
  | parameter x => exact ih.param _ x vi
  | undefinedParameter x => exact ih.param _ x vi
  | quoted x =>
    refine simE_congr (simE_bind (simE_escaped cap x) (simE_bind (simE_opF cap op) (ih.value vi))) (fun s => ?_)
    simp only [afterFieldP, bindE]
    cases writeEscapedQuotes s x <;> rfl
  | unquoted x =>
    refine simE_congr (simE_bind (simE_raw cap x) (simE_bind (simE_opF cap op) (ih.value vi))) (fun s => ?_)
    simp only [afterFieldP, bindE]
    cases writeUnquoted s x <;> rfl
  | array e m => exact simE_err (fun s => ⟨.panic, rfl⟩)
  | object e m => exact simE_err (fun s => ⟨.panic, rfl⟩)
  | mixedContainer => exact simE_err (fun s => ⟨.panic, rfl⟩)
  | operator o => exact simE_err (fun s => ⟨.panic, rfl⟩)
  | «end» st => exact simE_err (fun s => ⟨.panic, rfl⟩)
  | header b => exact simE_err (fun s => ⟨.panic, rfl⟩)

def opvOf (t1 : Tok) (i : Nat) : Option Op × Nat :=
  match t1 with
  | .operator x => (some x, i + 2)
  | _ => (none, i + 1)

def isKeyTok : Tok → Bool
  | .quoted _ | .unquoted _ | .parameter _ | .undefinedParameter _ => true
  | _ => false

theorem coreF_unfold (cap : Nat) (toks : List Tok) (fuel i e next : Nat) (key t1 : Tok) (hlt : ¬ i ≥ e)
    (hk : toks[i]? = some key) (hkey : isKeyTok key = true) (h1 : toks[i + 1]? = some t1)
    (hn : nextIdx toks (toks.length + 1) (opvOf t1 i).2 = .ok next) :
    writeObjectCoreF cap toks (fuel + 1) i e =
      .seq (afterFieldF cap toks fuel key (opvOf t1 i).1 (opvOf t1 i).2) (writeObjectCoreF cap toks fuel next e) := by
  rw [writeObjectCoreF]
  simp only [hlt, if_false, hk, h1]
  cases key <;> simp [isKeyTok] at hkey <;> cases t1 <;> simp only [opvOf] at hn ⊢ <;> simp only [hn, afterFieldF]

theorem core_unfold' (toks : List Tok) (fuel i e next : Nat) (key t1 : Tok) (s : State) (hlt : ¬ i ≥ e)
    (hk : toks[i]? = some key) (hkey : isKeyTok key = true) (h1 : toks[i + 1]? = some t1)
    (hn : nextIdx toks (toks.length + 1) (opvOf t1 i).2 = .ok next) :
    writeObjectCore toks (fuel + 1) i e s =
      bindE (afterFieldP toks fuel key (opvOf t1 i).1 (opvOf t1 i).2 s) (writeObjectCore toks fuel next e) := by
  rw [writeObjectCore]
  simp only [hlt, if_false, hk, h1]
  cases key <;> simp [isKeyTok] at hkey <;> cases t1 <;> simp only [opvOf] at hn ⊢ <;>
    simp only [hn, afterFieldP, bindE] <;> rfl

theorem core_succ (cap : Nat) (toks : List Tok) (fuel : Nat) (ih : WalkSim cap toks fuel) (i e : Nat) :
    SimE cap (writeObjectCoreF cap toks (fuel + 1) i e) (writeObjectCore toks (fuel + 1) i e) := by
  by_cases hge : i ≥ e
  · rw [writeObjectCoreF]; simp only [hge, if_true]
    exact simE_congr (simE_ok cap) (fun s => by rw [writeObjectCore]; simp [hge])
  · cases hk : toks[i]? with
    | none =>
      exact simE_err (fun s => ⟨.panic, by rw [writeObjectCore]; simp only [hge, if_false, hk]⟩)
    | some key =>
      by_cases hkey : isKeyTok key = true
      · cases h1 : toks[i + 1]? with
        | none =>
          refine simE_err (fun s => ⟨.panic, ?_⟩)
          rw [writeObjectCore]; simp only [hge, if_false, hk, h1]
          cases key <;> simp [isKeyTok] at hkey <;> rfl
        | some t1 =>
          cases hn : nextIdx toks (toks.length + 1) (opvOf t1 i).2 with
          | error er =>
            refine simE_err (fun s => ⟨er, ?_⟩)
            rw [writeObjectCore]; simp only [hge, if_false, hk, h1]
            cases key <;> simp [isKeyTok] at hkey <;> cases t1 <;> simp only [opvOf] at hn ⊢ <;> simp only [hn]
          | ok next =>
            rw [coreF_unfold cap toks fuel i e next key t1 hge hk hkey h1 hn]
            exact simE_congr (simE_bind (afterField_sim cap toks fuel ih key _ _) (ih.core next e))
              (fun s => (core_unfold' toks fuel i e next key t1 s hge hk hkey h1 hn).symm)
      · cases key with
        | mixedContainer =>
          rw [writeObjectCoreF]; simp only [hge, if_false, hk]
          exact simE_congr (simE_ok cap) (fun s => by rw [writeObjectCore]; simp only [hge, if_false, hk])
        | array e' m => exact simE_err (fun s => ⟨.panic, by rw [writeObjectCore]; simp only [hge, if_false, hk]⟩)
        | object e' m => exact simE_err (fun s => ⟨.panic, by rw [writeObjectCore]; simp only [hge, if_false, hk]⟩)
        | operator o => exact simE_err (fun s => ⟨.panic, by rw [writeObjectCore]; simp only [hge, if_false, hk]⟩)
        | «end» st => exact simE_err (fun s => ⟨.panic, by rw [writeObjectCore]; simp only [hge, if_false, hk]⟩)
        | header b => exact simE_err (fun s => ⟨.panic, by rw [writeObjectCore]; simp only [hge, if_false, hk]⟩)
        | quoted b => simp [isKeyTok] at hkey
        | unquoted b => simp [isKeyTok] at hkey
        | parameter b => simp [isKeyTok] at hkey
        | undefinedParameter b => simp [isKeyTok] at hkey

theorem walk_sim (cap : Nat) (toks : List Tok) : ∀ fuel, WalkSim cap toks fuel
  | 0 => walk_zero cap toks
  | fuel + 1 =>
    have ih := walk_sim cap toks fuel
    ⟨core_succ cap toks fuel ih, param_succ cap toks fuel ih, value_succ cap toks fuel ih, values_succ cap toks fuel ih⟩

/-- `write_tape` into the failing sink: whenever `write_tape` succeeds on an unlimited sink, the
fallible run is `Ok` with the same writer iff the output fits, and otherwise `Err(io)` with exactly the
first `cap` bytes written -/
theorem writeTape_sink (cap : Nat) (toks : List Tok) (s s' : State) (hs : s.out.length ≤ cap)
    (h : writeTape toks s = .ok s') :
    (s'.out.length ≤ cap → writeTapeF cap toks s = (.ok (), s')) ∧
    (cap < s'.out.length → (writeTapeF cap toks s).1 = .error .io ∧ (writeTapeF cap toks s).2.out = s'.out.take cap) :=
  ((walk_sim cap toks _).core 0 toks.length).2 s s' hs h

end Jomini.Writer
