import JominiModel.Model.TextTape
import JominiModel.Spec.TextTape
import JominiModel.Proofs.TextTape
import JominiModel.Proofs.TextTapeWf
/-
C06 (text half), growth: the parser invariant.  The structural clauses of `WfTextTape` only look
at the *shape* of a token (container start with its `end` field / End with its index / anything
else), so the invariant is stated on `tape.map Tok.sh`; every edit the state machine makes to
the tape is one of five edits on shapes (`SInv.push_plain`, `push_hole`, `hole_to_head`,
`hole_to_empty`, `close_head`).
-/
namespace Jomini.TextTape
open Jomini

inductive Sh | start (e : Nat) | stop (j : Nat) | plain
deriving DecidableEq, Repr

def Tok.sh : Tok → Sh
  | .array e _ | .object e _ => .start e
  | .endTok j => .stop j
  | _ => .plain

/-- container at `i` closed at `e`. -/
def ClosedS (L : List Sh) (i e : Nat) : Prop :=
  L[i]? = some (.start e) ∧ i < e ∧ L[e]? = some (.stop i)

/-- the chain of open containers through their `end` slots, innermost (`parent_ind`) first,
down to 0 (= top level). -/
inductive Chain (L : List Sh) : Nat → List Nat → Prop
  | top : Chain L 0 []
  | link {p g : Nat} {C : List Nat} : 0 < p → g < p → L[p]? = some (.start g) → Chain L g C →
      Chain L p (p :: C)

theorem Chain.bound {L : List Sh} {p : Nat} {C : List Nat} (h : Chain L p C) :
    ∀ q ∈ C, q ≤ p ∧ 0 < q ∧ q < L.length := by
  induction h with
  | top => simp
  | link h0 hg hp _ ih =>
    intro q hq
    rcases List.mem_cons.1 hq with rfl | hq
    · refine ⟨Nat.le_refl _, h0, ?_⟩
      rcases Nat.lt_or_ge q L.length with h | h
      · exact h
      · rw [List.getElem?_eq_none h] at hp; simp at hp
    · have := ih q hq; omega

theorem Chain.congr {L L' : List Sh} {p : Nat} {C : List Nat} (h : Chain L p C)
    (heq : ∀ q ∈ C, L'[q]? = L[q]?) : Chain L' p C := by
  induction h with
  | top => exact .top
  | link h0 hg hp _ ih =>
    refine .link h0 hg ?_ (ih (fun q hq => heq q (List.mem_cons_of_mem _ hq)))
    rw [heq _ (List.mem_cons_self ..)]; exact hp

/-- the structural invariant on shapes.  `ph`: the last token is the `Array{end:0}` placeholder
pushed by a `{` whose kind is not decided yet (state ParseOpen). -/
structure SInv (L : List Sh) (parent : Nat) (ph : Bool) (C : List Nat) : Prop where
  chain : Chain L parent C
  zero : ∀ e, L[0]? ≠ some (.start e)
  starts : ∀ i e, L[i]? = some (.start e) → i ∈ C ∨ ClosedS L i e ∨ (ph = true ∧ i + 1 = L.length)
  stops : ∀ x j, L[x]? = some (.stop j) → 0 < j ∧ ClosedS L j x
  nest : ∀ i e i' e', ClosedS L i e → ClosedS L i' e' → i < i' → i' < e → e' < e
  nestC : ∀ i e p, ClosedS L i e → p ∈ C → i < p → e < p
  hole : ph = true → ∃ L0, L = L0 ++ [.start 0] ∧ parent < L0.length ∧ 0 < L0.length

theorem getElem?_snoc_lt {α} (L : List α) (x : α) (i : Nat) (h : i < L.length) : (L ++ [x])[i]? = L[i]? := by
  rw [List.getElem?_append_left h]

theorem getElem?_snoc_eq {α} (L : List α) (x : α) : (L ++ [x])[L.length]? = some x := by simp

theorem getElem?_snoc_cases {α} (L : List α) (x : α) (i : Nat) (y : α) (h : (L ++ [x])[i]? = some y) :
    (i < L.length ∧ L[i]? = some y) ∨ (i = L.length ∧ x = y) := by
  rcases Nat.lt_trichotomy i L.length with hlt | heq | hgt
  · left; rw [List.getElem?_append_left hlt] at h; exact ⟨hlt, h⟩
  · right; subst heq; simp at h; exact ⟨rfl, h⟩
  · rw [List.getElem?_eq_none (by simp; omega)] at h; simp at h

theorem getElem?_lt_of_some {α} {L : List α} {i : Nat} {y : α} (h : L[i]? = some y) : i < L.length := by
  rcases Nat.lt_or_ge i L.length with h' | h'
  · exact h'
  · rw [List.getElem?_eq_none h'] at h; simp at h

/-- closedness is not affected by appending one token that is not a `stop`. -/
theorem closedS_snoc {L : List Sh} {x : Sh} (hx : ∀ j, x ≠ .stop j) (i e : Nat) :
    ClosedS (L ++ [x]) i e ↔ ClosedS L i e := by
  constructor
  · rintro ⟨h1, h2, h3⟩
    rcases getElem?_snoc_cases L x e _ h3 with ⟨he, h3'⟩ | ⟨_, hxe⟩
    · have hi : i < L.length := by omega
      rw [getElem?_snoc_lt L x i hi] at h1
      exact ⟨h1, h2, h3'⟩
    · exact absurd hxe (hx i)
  · rintro ⟨h1, h2, h3⟩
    have he := getElem?_lt_of_some h3
    exact ⟨by rw [getElem?_snoc_lt L x i (by omega)]; exact h1, h2, by rw [getElem?_snoc_lt L x e he]; exact h3⟩

theorem SInv.push_plain {L : List Sh} {p : Nat} {C : List Nat} (h : SInv L p false C) :
    SInv (L ++ [.plain]) p false C := by
  have hc : ∀ i e, ClosedS (L ++ [.plain]) i e ↔ ClosedS L i e := closedS_snoc (by simp)
  refine ⟨h.chain.congr ?_, ?_, ?_, ?_, ?_, ?_, by simp⟩
  · intro q hq; exact getElem?_snoc_lt L _ q (h.chain.bound q hq).2.2
  · intro e he
    rcases getElem?_snoc_cases L _ 0 _ he with ⟨_, h'⟩ | ⟨_, h'⟩
    · exact h.zero e h'
    · simp at h'
  · intro i e hi
    rcases getElem?_snoc_cases L _ i _ hi with ⟨_, h'⟩ | ⟨_, h'⟩
    · rcases h.starts i e h' with h1 | h1 | h1
      · exact .inl h1
      · exact .inr (.inl ((hc i e).2 h1))
      · simp at h1
    · simp at h'
  · intro x j hx
    rcases getElem?_snoc_cases L _ x _ hx with ⟨_, h'⟩ | ⟨_, h'⟩
    · have := h.stops x j h'; exact ⟨this.1, (hc j x).2 this.2⟩
    · simp at h'
  · intro i e i' e' h1 h2; exact h.nest i e i' e' ((hc i e).1 h1) ((hc i' e').1 h2)
  · intro i e q h1; exact h.nestC i e q ((hc i e).1 h1)

/-- `{` in ObjectValue / ArrayValue / header: push the placeholder `Array{end:0}`. -/
theorem SInv.push_hole {L : List Sh} {p : Nat} {C : List Nat} (h : SInv L p false C) (hne : 0 < L.length) :
    SInv (L ++ [.start 0]) p true C := by
  have hc : ∀ i e, ClosedS (L ++ [.start 0]) i e ↔ ClosedS L i e := closedS_snoc (by simp)
  have hp : p < L.length := by
    cases h.chain with
    | top => exact hne
    | link h0 hg hp' hch => exact getElem?_lt_of_some hp'
  refine ⟨h.chain.congr ?_, ?_, ?_, ?_, ?_, ?_, fun _ => ⟨L, rfl, hp, hne⟩⟩
  · intro q hq; exact getElem?_snoc_lt L _ q (h.chain.bound q hq).2.2
  · intro e he
    rcases getElem?_snoc_cases L _ 0 _ he with ⟨_, h'⟩ | ⟨h', _⟩
    · exact h.zero e h'
    · omega
  · intro i e hi
    rcases getElem?_snoc_cases L _ i _ hi with ⟨_, h'⟩ | ⟨h', _⟩
    · rcases h.starts i e h' with h1 | h1 | h1
      · exact .inl h1
      · exact .inr (.inl ((hc i e).2 h1))
      · simp at h1
    · right; right; simp [h']
  · intro x j hx
    rcases getElem?_snoc_cases L _ x _ hx with ⟨_, h'⟩ | ⟨_, h'⟩
    · have := h.stops x j h'; exact ⟨this.1, (hc j x).2 this.2⟩
    · simp at h'
  · intro i e i' e' h1 h2; exact h.nest i e i' e' ((hc i e).1 h1) ((hc i' e').1 h2)
  · intro i e q h1; exact h.nestC i e q ((hc i e).1 h1)

/-- ParseOpen decides the kind: the placeholder becomes the innermost open container and
stores the old `parent_ind` in its `end` slot. -/
theorem SInv.hole_to_head {L0 : List Sh} {p : Nat} {C : List Nat}
    (h : SInv (L0 ++ [.start 0]) p true C) :
    SInv (L0 ++ [.start p]) L0.length false (L0.length :: C) := by
  obtain ⟨L0', hL, hp, hne⟩ := h.hole rfl
  have : L0' = L0 := by
    have := congrArg List.dropLast hL; simpa using this.symm
  subst this
  have hc : ∀ i e, ClosedS (L0' ++ [.start p]) i e ↔ ClosedS (L0' ++ [.start 0]) i e := by
    intro i e; rw [closedS_snoc (by simp), closedS_snoc (by simp)]
  have hlt : ∀ q ∈ C, q < L0'.length := fun q hq => by have := (h.chain.bound q hq).1; omega
  have hch : Chain (L0' ++ [.start p]) p C := h.chain.congr (fun q hq => by
    rw [getElem?_snoc_lt _ _ q (hlt q hq), getElem?_snoc_lt _ _ q (hlt q hq)])
  refine ⟨.link hne hp (by simp) hch, ?_, ?_, ?_, ?_, ?_, by simp⟩
  · intro e he
    rcases getElem?_snoc_cases L0' _ 0 _ he with ⟨h1, h'⟩ | ⟨h', _⟩
    · exact h.zero e (by rw [getElem?_snoc_lt _ _ 0 h1]; exact h')
    · omega
  · intro i e hi
    rcases getElem?_snoc_cases L0' _ i _ hi with ⟨h1, h'⟩ | ⟨h', _⟩
    · rcases h.starts i e (by rw [getElem?_snoc_lt _ _ i h1]; exact h') with h2 | h2 | h2
      · exact .inl (List.mem_cons_of_mem _ h2)
      · exact .inr (.inl ((hc i e).2 h2))
      · simp at h2; omega
    · left; simp [h']
  · intro x j hx
    rcases getElem?_snoc_cases L0' _ x _ hx with ⟨h1, h'⟩ | ⟨_, h'⟩
    · have := h.stops x j (by rw [getElem?_snoc_lt _ _ x h1]; exact h')
      exact ⟨this.1, (hc j x).2 this.2⟩
    · simp at h'
  · intro i e i' e' h1 h2; exact h.nest i e i' e' ((hc i e).1 h1) ((hc i' e').1 h2)
  · intro i e q h1 hq hiq
    rcases List.mem_cons.1 hq with rfl | hq
    · -- the new head is the last index: every closed interval ends before it
      have h1' := (closedS_snoc (L := L0') (x := .start p) (by simp) i e).1 h1
      exact getElem?_lt_of_some h1'.2.2
    · exact h.nestC i e q ((hc i e).1 h1) hq hiq

/-- `{ }` in ParseOpen: the placeholder becomes an empty array `Array{end:k+1}, End(k)`. -/
theorem SInv.hole_to_empty {L0 : List Sh} {p : Nat} {C : List Nat}
    (h : SInv (L0 ++ [.start 0]) p true C) :
    SInv (L0 ++ [.start (L0.length + 1), .stop L0.length]) p false C := by
  obtain ⟨L0', hL, hp, hne⟩ := h.hole rfl
  have : L0' = L0 := by
    have := congrArg List.dropLast hL; simpa using this.symm
  subst this
  have hlt : ∀ q ∈ C, q < L0'.length := fun q hq => by have := (h.chain.bound q hq).1; omega
  -- entries of the new list
  have hget : ∀ i y, (L0' ++ [.start (L0'.length + 1), .stop L0'.length])[i]? = some y →
      (i < L0'.length ∧ L0'[i]? = some y) ∨ (i = L0'.length ∧ y = .start (L0'.length + 1)) ∨
      (i = L0'.length + 1 ∧ y = .stop L0'.length) := by
    intro i y hy
    rcases Nat.lt_or_ge i L0'.length with hlt' | hge
    · left; rw [List.getElem?_append_left hlt'] at hy; exact ⟨hlt', hy⟩
    · right
      rw [List.getElem?_append_right hge] at hy
      rcases Nat.lt_trichotomy (i - L0'.length) 1 with h0 | h1 | h2
      · have : i - L0'.length = 0 := by omega
        rw [this] at hy; simp at hy; left; exact ⟨by omega, hy.symm⟩
      · rw [h1] at hy; simp at hy; right; exact ⟨by omega, hy.symm⟩
      · rw [List.getElem?_eq_none (by simp; omega)] at hy; simp at hy
  have hold : ∀ i, i < L0'.length → (L0' ++ [.start (L0'.length + 1), .stop L0'.length])[i]? = L0'[i]? :=
    fun i hi => List.getElem?_append_left hi
  have hold0 : ∀ i, i < L0'.length → (L0' ++ [Sh.start 0])[i]? = L0'[i]? :=
    fun i hi => List.getElem?_append_left hi
  -- closed intervals of the new list: the old ones and (k, k+1)
  have hc : ∀ i e, ClosedS (L0' ++ [.start (L0'.length + 1), .stop L0'.length]) i e ↔
      ClosedS (L0' ++ [.start 0]) i e ∨ (i = L0'.length ∧ e = L0'.length + 1) := by
    intro i e
    constructor
    · rintro ⟨h1, h2, h3⟩
      rcases hget i _ h1 with ⟨hi, h1'⟩ | ⟨hi, h1'⟩ | ⟨_, h1'⟩
      · rcases hget e _ h3 with ⟨he, h3'⟩ | ⟨_, h3'⟩ | ⟨he, h3'⟩
        · left; exact ⟨by rw [hold0 i hi]; exact h1', h2, by rw [hold0 e he]; exact h3'⟩
        · simp at h3'
        · simp at h3'; omega
      · right; simp at h1'; exact ⟨hi, h1'⟩
      · simp at h1'
    · rintro (⟨h1, h2, h3⟩ | ⟨rfl, rfl⟩)
      · have he : e < L0'.length := by
          rcases getElem?_snoc_cases L0' _ e _ h3 with ⟨he, _⟩ | ⟨_, h'⟩
          · exact he
          · simp at h'
        have hi : i < L0'.length := by omega
        exact ⟨by rw [hold i hi, ← hold0 i hi]; exact h1, h2, by rw [hold e he, ← hold0 e he]; exact h3⟩
      · refine ⟨by simp, by omega, ?_⟩
        rw [List.getElem?_append_right (by omega)]; simp
  refine ⟨h.chain.congr (fun q hq => by rw [hold q (hlt q hq), hold0 q (hlt q hq)]), ?_, ?_, ?_, ?_, ?_, by simp⟩
  · intro e he
    rcases hget 0 _ he with ⟨h1, h'⟩ | ⟨h', _⟩ | ⟨h', _⟩
    · exact h.zero e (by rw [hold0 0 h1]; exact h')
    · omega
    · omega
  · intro i e hi
    rcases hget i _ hi with ⟨h1, h'⟩ | ⟨h1, h'⟩ | ⟨_, h'⟩
    · rcases h.starts i e (by rw [hold0 i h1]; exact h') with h2 | h2 | h2
      · exact .inl h2
      · exact .inr (.inl ((hc i e).2 (.inl h2)))
      · simp at h2; omega
    · simp at h'; exact .inr (.inl ((hc i e).2 (.inr ⟨h1, h'⟩)))
    · simp at h'
  · intro x j hx
    rcases hget x _ hx with ⟨h1, h'⟩ | ⟨_, h'⟩ | ⟨h1, h'⟩
    · have := h.stops x j (by rw [hold0 x h1]; exact h')
      exact ⟨this.1, (hc j x).2 (.inl this.2)⟩
    · simp at h'
    · simp at h'; subst h'; exact ⟨hne, (hc _ _).2 (.inr ⟨rfl, h1⟩)⟩
  · intro i e i' e' h1 h2 hii' hi'e
    rcases (hc i e).1 h1 with h1 | ⟨rfl, rfl⟩ <;> rcases (hc i' e').1 h2 with h2 | ⟨rfl, rfl⟩
    · exact h.nest i e i' e' h1 h2 hii' hi'e
    · -- old interval cannot contain the last two indices
      have he : e < L0'.length := by
        rcases getElem?_snoc_cases L0' _ e _ h1.2.2 with ⟨he, _⟩ | ⟨_, h'⟩
        · exact he
        · simp at h'
      omega
    · omega
    · omega
  · intro i e q h1 hq hiq
    rcases (hc i e).1 h1 with h1 | ⟨rfl, rfl⟩
    · exact h.nestC i e q h1 hq hiq
    · have := hlt q hq; omega

/-- `}` (or the EOF auto-close): the innermost open container `p` gets its real `end`, an
`End(p)` is pushed, and the container stored in its `end` slot becomes the innermost one. -/
theorem SInv.close_head {L : List Sh} {p g : Nat} {C : List Nat}
    (h : SInv L p false (p :: C)) (hp : L[p]? = some (.start g)) :
    SInv ((L ++ [Sh.stop p]).set p (Sh.start L.length)) g false C := by
  have hpl : p < L.length := getElem?_lt_of_some hp
  obtain ⟨hp0, hgp, hchain⟩ : 0 < p ∧ g < p ∧ Chain L g C := by
    cases h.chain with
    | link h0 hg hp' hch =>
      rw [hp] at hp'; simp at hp'; subst hp'; exact ⟨h0, hg, hch⟩
  -- entries of the new list
  have hget : ∀ i, ((L ++ [Sh.stop p]).set p (Sh.start L.length))[i]? =
      if i = p then some (Sh.start L.length) else if i = L.length then some (.stop p) else L[i]? := by
    intro i
    rw [List.getElem?_set]
    by_cases hip : p = i
    · subst hip; simp; omega
    · have hip' : ¬ i = p := fun h => hip h.symm
      simp only [hip, if_false, hip']
      by_cases hil : i = L.length
      · subst hil; simp
      · simp only [hil, if_false]
        rcases Nat.lt_or_ge i L.length with h1 | h1
        · exact List.getElem?_append_left h1
        · rw [List.getElem?_eq_none (by simp; omega), List.getElem?_eq_none h1]
  have hnotclosed : ∀ e, ¬ ClosedS L p e := by
    rintro e ⟨h1, h2, _⟩; rw [hp] at h1; simp at h1; omega
  have hc : ∀ i e, ClosedS ((L ++ [Sh.stop p]).set p (Sh.start L.length)) i e ↔
      ClosedS L i e ∨ (i = p ∧ e = L.length) := by
    intro i e
    constructor
    · rintro ⟨h1, h2, h3⟩
      rw [hget] at h1 h3
      by_cases hip : i = p
      · subst hip; simp at h1; right; exact ⟨rfl, h1.symm⟩
      · left
        simp only [hip, if_false] at h1
        have hil : ¬ i = L.length := by intro hil; simp [hil] at h1
        simp only [hil, if_false] at h1
        have hep : ¬ e = p := by intro hep; simp [hep] at h3
        simp only [hep, if_false] at h3
        by_cases hel : e = L.length
        · simp [hel] at h3; exact absurd h3.symm hip
        · simp only [hel, if_false] at h3; exact ⟨h1, h2, h3⟩
    · rintro (⟨h1, h2, h3⟩ | ⟨rfl, rfl⟩)
      · have hi : i ≠ p := by rintro rfl; exact hnotclosed e ⟨h1, h2, h3⟩
        have he : e ≠ p := by rintro rfl; rw [hp] at h3; simp at h3
        have hel := getElem?_lt_of_some h3
        refine ⟨?_, h2, ?_⟩
        · rw [hget]; simp only [hi, if_false]; rw [if_neg (by omega)]; exact h1
        · rw [hget]; simp only [he, if_false]; rw [if_neg (by omega)]; exact h3
      · refine ⟨by rw [hget]; simp, hpl, ?_⟩
        rw [hget]; rw [if_neg (by omega)]; simp
  have hCb := hchain.bound
  refine ⟨hchain.congr ?_, ?_, ?_, ?_, ?_, ?_, by simp⟩
  · intro q hq
    have := hCb q hq
    rw [hget, if_neg (by omega), if_neg (by omega)]
  · intro e he
    rw [hget, if_neg (by omega), if_neg (by omega)] at he
    exact h.zero e he
  · intro i e hi
    rw [hget] at hi
    by_cases hip : i = p
    · subst hip; simp at hi; exact .inr (.inl ((hc _ _).2 (.inr ⟨rfl, hi.symm⟩)))
    · simp only [hip, if_false] at hi
      by_cases hil : i = L.length
      · simp [hil] at hi
      · simp only [hil, if_false] at hi
        rcases h.starts i e hi with h1 | h1 | h1
        · rcases List.mem_cons.1 h1 with h1 | h1
          · exact absurd h1 hip
          · exact .inl h1
        · exact .inr (.inl ((hc i e).2 (.inl h1)))
        · simp at h1
  · intro x j hx
    rw [hget] at hx
    by_cases hxp : x = p
    · simp [hxp] at hx
    · simp only [hxp, if_false] at hx
      by_cases hxl : x = L.length
      · simp [hxl] at hx; subst hx; subst hxl; exact ⟨hp0, (hc _ _).2 (.inr ⟨rfl, rfl⟩)⟩
      · simp only [hxl, if_false] at hx
        have := h.stops x j hx
        exact ⟨this.1, (hc j x).2 (.inl this.2)⟩
  · intro i e i' e' h1 h2 hii' hi'e
    rcases (hc i e).1 h1 with o1 | ⟨hi1, he1⟩ <;> rcases (hc i' e').1 h2 with o2 | ⟨hi2, he2⟩
    · exact h.nest i e i' e' o1 o2 hii' hi'e
    · -- an old closed interval that starts before the head ends before it
      subst hi2
      have := h.nestC i e i' o1 (List.mem_cons_self ..) hii'
      omega
    · have := getElem?_lt_of_some o2.2.2; omega
    · omega
  · intro i e q h1 hq hiq
    rcases (hc i e).1 h1 with h1 | ⟨rfl, rfl⟩
    · exact h.nestC i e q h1 (List.mem_cons_of_mem _ hq) hiq
    · have := (hCb q hq).1; omega

/-! ### from the invariant to the structural clauses of `WfTextTape` -/

theorem isStart_iff_sh (T : List Tok) (i e : Nat) :
    IsStart T i e ↔ (T.map Tok.sh)[i]? = some (.start e) := by
  simp only [IsStart, List.getElem?_map]
  cases hT : T[i]? with
  | none => simp
  | some t => cases t <;> simp [Tok.sh]

theorem endTok_iff_sh (T : List Tok) (x j : Nat) :
    T[x]? = some (.endTok j) ↔ (T.map Tok.sh)[x]? = some (.stop j) := by
  simp only [List.getElem?_map]
  cases hT : T[x]? with
  | none => simp
  | some t => cases t <;> simp [Tok.sh]

/-- with nothing open and no placeholder, the invariant is the structural half of `WfTextTape`. -/
theorem SInv.wf {T : List Tok} (h : SInv (T.map Tok.sh) 0 false []) :
    StartLink T ∧ EndLink T ∧
      ∀ i e i' e', IsStart T i e → IsStart T i' e' → i < i' → i' < e → e' < e := by
  have hclosed : ∀ i e, IsStart T i e → ClosedS (T.map Tok.sh) i e := by
    intro i e hi
    rcases h.starts i e ((isStart_iff_sh T i e).1 hi) with h1 | h1 | h1
    · simp at h1
    · exact h1
    · simp at h1
  refine ⟨?_, ?_, ?_⟩
  · intro i e hi
    have := hclosed i e hi
    exact ⟨this.2.1, (endTok_iff_sh T e i).2 this.2.2⟩
  · intro x j hx
    have := h.stops x j ((endTok_iff_sh T x j).1 hx)
    exact ⟨this.1, this.2.2.1, (isStart_iff_sh T j x).2 this.2.1⟩
  · intro i e i' e' h1 h2
    exact h.nest i e i' e' (hclosed i e h1) (hclosed i' e' h2)

/-! ### the invariant on tapes: wrappers of the five edits -/

@[simp] theorem sh_endTok (j : Nat) : (Tok.endTok j).sh = .stop j := rfl
@[simp] theorem sh_array (e : Nat) (m : Bool) : (Tok.array e m).sh = .start e := rfl
@[simp] theorem sh_object (e : Nat) (m : Bool) : (Tok.object e m).sh = .start e := rfl

def TInv (T : List Tok) (parent : Nat) (ph : Bool) : Prop :=
  ∃ C, SInv (T.map Tok.sh) parent ph C

theorem setTok_some {T T' : List Tok} {i : Nat} {t : Tok} (h : setTok T i t = some T') :
    T' = T.set i t ∧ i < T.length := by
  unfold setTok at h; split at h <;> simp at h; exact ⟨h.symm, by assumption⟩

theorem TInv.push_plain {T : List Tok} {p : Nat} (h : TInv T p false) {t : Tok} (ht : t.sh = .plain) :
    TInv (T ++ [t]) p false := by
  obtain ⟨C, hC⟩ := h
  exact ⟨C, by simpa [ht] using hC.push_plain⟩

theorem TInv.push_hole {T : List Tok} {p : Nat} (h : TInv T p false) (hne : T ≠ []) :
    TInv (T ++ [.array 0 false]) p true := by
  obtain ⟨C, hC⟩ := h
  have : 0 < (T.map Tok.sh).length := by simp; exact List.length_pos_iff.2 hne
  exact ⟨C, by simpa [Tok.sh] using hC.push_hole this⟩

/-- what the placeholder invariant says about the tape itself. -/
theorem TInv.hole_shape {T : List Tok} {p : Nat} (h : TInv T p true) :
    ∃ T0 t, T = T0 ++ [t] ∧ t.sh = .start 0 ∧ T0 ≠ [] ∧ p < T0.length := by
  obtain ⟨C, hC⟩ := h
  obtain ⟨L0, hL, hp, hne⟩ := hC.hole rfl
  rcases List.eq_nil_or_concat T with rfl | ⟨T0, t, rfl⟩
  · simp at hL
  · simp only [List.concat_eq_append, List.map_append, List.map_cons, List.map_nil] at hL
    have h1 := congrArg List.dropLast hL
    have h2 := congrArg List.getLast? hL
    simp at h1 h2
    refine ⟨T0, t, by simp, h2, ?_, ?_⟩
    · intro h0; subst h0; simp at h1; subst h1; simp at hne
    · rw [← h1] at hp; simpa using hp

theorem TInv.hole_to_head {T T' : List Tok} {p : Nat} (h : TInv T p true) {t : Tok}
    (hset : setTok T (T.length - 1) t = some T') (ht : t.sh = .start p) :
    TInv T' (T.length - 1) false := by
  obtain ⟨T0, t0, rfl, ht0, hne, hp⟩ := h.hole_shape
  obtain ⟨C, hC⟩ := h
  obtain ⟨rfl, _⟩ := setTok_some hset
  simp only [List.map_append, List.map_cons, List.map_nil, ht0] at hC
  have := hC.hole_to_head
  refine ⟨T0.length :: C, ?_⟩
  simp only [List.length_append, List.length_cons, List.length_nil, Nat.zero_add, Nat.add_sub_cancel]
  have hs : (T0 ++ [t0]).set T0.length t = T0 ++ [t] := by
    rw [List.set_append_right _ _ (Nat.le_refl _)]; simp
  rw [hs]
  simpa [ht] using this

theorem TInv.hole_to_empty {T T1 : List Tok} {p : Nat} (h : TInv T p true)
    (hset : setTok T (T.length - 1) (.array (T.length - 1 + 1) false) = some T1) :
    TInv (T1 ++ [.endTok (T.length - 1)]) p false := by
  obtain ⟨T0, t0, rfl, ht0, hne, hp⟩ := h.hole_shape
  obtain ⟨C, hC⟩ := h
  obtain ⟨rfl, _⟩ := setTok_some hset
  simp only [List.map_append, List.map_cons, List.map_nil, ht0] at hC
  have := hC.hole_to_empty
  refine ⟨C, ?_⟩
  simp only [List.length_append, List.length_cons, List.length_nil, Nat.zero_add, Nat.add_sub_cancel]
  have hs : (T0 ++ [t0]).set T0.length (.array (T0.length + 1) false) = T0 ++ [.array (T0.length + 1) false] := by
    rw [List.set_append_right _ _ (Nat.le_refl _)]; simp
  rw [hs]
  simpa [Tok.sh] using this

theorem TInv.push_head {T : List Tok} {p : Nat} (h : TInv T p false) (hne : T ≠ []) {t : Tok}
    (ht : t.sh = .start p) : TInv (T ++ [t]) T.length false := by
  have h1 := h.push_hole hne
  have h2 := h1.hole_to_head (t := t) (T' := T ++ [t]) (by
    unfold setTok; simp) ht
  simpa using h2

/-- with `parent ≠ 0` the parent token is a container; its `end` slot is the grand-parent. -/
theorem TInv.parent_tok {T : List Tok} {p : Nat} {ph : Bool} (h : TInv T p ph) (hp : p ≠ 0) :
    ∃ m, T[p]? = some (.array (endOf T[p]?) m) ∨ T[p]? = some (.object (endOf T[p]?) m) := by
  obtain ⟨C, hC⟩ := h
  cases hC.chain with
  | top => exact absurd rfl hp
  | link h0 hg hp' hch =>
    rw [List.getElem?_map] at hp'
    cases hT : T[p]? with
    | none => simp [hT] at hp'
    | some t =>
      rw [hT] at hp'
      cases t <;> simp [Tok.sh] at hp' <;> subst hp' <;> simp [endOf]

/-- with `parent = 0` there is no container at index 0, so the grand-parent is 0 as well. -/
theorem TInv.parent_zero {T : List Tok} {ph : Bool} (h : TInv T 0 ph) : endOf T[0]? = 0 := by
  obtain ⟨C, hC⟩ := h
  have hz := hC.zero
  rw [List.getElem?_map] at hz
  cases hT : T[0]? with
  | none => rfl
  | some t =>
    rw [hT] at hz
    cases t <;> simp [endOf]
    · exact absurd rfl (hz _)
    · exact absurd rfl (hz _)

theorem TInv.close_head {T T' : List Tok} {p : Nat} (h : TInv T p false) (hp : p ≠ 0) {t : Tok}
    (hset : setTok (T ++ [.endTok p]) p t = some T') (ht : t.sh = .start T.length) :
    TInv T' (endOf T[p]?) false := by
  obtain ⟨m, hm⟩ := h.parent_tok hp
  obtain ⟨C, hC⟩ := h
  have hsh : (T.map Tok.sh)[p]? = some (.start (endOf T[p]?)) := by
    rw [List.getElem?_map]; rcases hm with hm | hm <;> rw [hm] <;> rfl
  obtain ⟨C', rfl⟩ : ∃ C', C = p :: C' := by
    cases hC.chain with
    | top => exact absurd rfl hp
    | link => exact ⟨_, rfl⟩
  have := hC.close_head hsh
  obtain ⟨rfl, _⟩ := setTok_some hset
  refine ⟨C', ?_⟩
  simpa only [List.map_set, List.map_append, List.map_cons, List.map_nil, ht, sh_endTok, List.length_map] using this

/-- the ArrayValue order: first `tape[parent] = …`, then `push(End(parent))`. -/
theorem TInv.close_head' {T T1 : List Tok} {p : Nat} (h : TInv T p false) (hp : p ≠ 0) {t : Tok}
    (hset : setTok T p t = some T1) (ht : t.sh = .start T.length) :
    TInv (T1 ++ [.endTok p]) (endOf T[p]?) false := by
  obtain ⟨rfl, hlt⟩ := setTok_some hset
  apply h.close_head hp (t := t) _ ht
  unfold setTok
  simp only [List.length_append, List.length_cons, List.length_nil]
  rw [if_pos (by omega), List.set_append_left _ _ hlt]

/-- overwriting a token by one of the same shape (the `mixed` flag) changes nothing. -/
theorem TInv.set_same {T : List Tok} {p q : Nat} {ph : Bool} (h : TInv T p ph) {t t' : Tok}
    (hq : T[q]? = some t) (hsh : t'.sh = t.sh) : TInv (T.set q t') p ph := by
  obtain ⟨C, hC⟩ := h
  refine ⟨C, ?_⟩
  have : (T.set q t').map Tok.sh = T.map Tok.sh := by
    rw [List.map_set, hsh]
    apply List.ext_getElem?
    intro i
    rw [List.getElem?_set]
    split
    · next h =>
      subst h
      obtain ⟨hlt, heq⟩ := List.getElem?_eq_some_iff.1 hq
      simp [hlt, heq]
    · rfl
  rw [this]; exact hC

theorem insertBeforeLast_some {T T' : List Tok} {x : Tok} (h : insertBeforeLast T x = some T') :
    ∃ T0 l, T = T0 ++ [l] ∧ T' = T0 ++ [x, l] := by
  unfold insertBeforeLast at h
  rcases List.eq_nil_or_concat T with rfl | ⟨T0, l, rfl⟩
  · simp at h
  · simp at h; exact ⟨T0, l, by simp, h.symm⟩

theorem TInv.insert_plain {T T' : List Tok} {p : Nat} (h : TInv T p false) {x : Tok}
    (hx : x.sh = .plain) (hins : insertBeforeLast T x = some T')
    (hlast : ∀ T0 l, T = T0 ++ [l] → l.sh = .plain) : TInv T' p false := by
  obtain ⟨T0, l, rfl, rfl⟩ := insertBeforeLast_some hins
  have hl := hlast T0 l rfl
  obtain ⟨C, hC⟩ := h
  refine ⟨C, ?_⟩
  have := hC.push_plain
  simpa [hx, hl] using this

/-! ### the invariant of the state machine -/

def StInv (st : St) : Prop :=
  TInv st.tape st.parent (decide (st.state = .parseOpen)) ∧
  (st.state ≠ .key → st.tape ≠ []) ∧
  (st.state = .kvs → ∀ T0 l, st.tape = T0 ++ [l] → l.sh = .plain)

theorem closeState_state (x : Option Tok) : (closeState x).2 = .key ∨ (closeState x).2 = .arrayValue := by
  unfold closeState
  split
  · simp
  · split <;> simp
  · simp

theorem parseScalarTok_push {tape tape' : List Tok} {d rest : Bytes}
    (h : parseScalarTok tape d = .ok (tape', rest)) : ∃ t, tape' = tape ++ [t] ∧ t.sh = .plain := by
  unfold parseScalarTok at h
  split at h <;> simp at h
  exact ⟨_, h.1.symm, rfl⟩

theorem lexValue_push {tape tape' : List Tok} {d rest : Bytes} (h : lexValue tape d = .ok (tape', rest)) :
    ∃ t, tape' = tape ++ [t] ∧ t.sh = .plain := by
  unfold lexValue at h
  split at h
  · simp at h
  · split at h
    · unfold parseQuoteTok at h
      split at h <;> simp at h
      exact ⟨_, h.1.symm, rfl⟩
    · split at h
      · unfold parseVariableTok at h
        split at h
        · split at h
          · split at h <;> simp at h
            exact ⟨_, h.1.symm, rfl⟩
          · simp at h
        · exact parseScalarTok_push h
      · exact parseScalarTok_push h

/-- split `h : … = Step.cont st' d'` along every `if`/`match`, dropping the branches that end in
`Step.done`. -/
macro "split_cont" h:ident : tactic =>
  `(tactic| repeat' (split at $h:ident <;> try contradiction))

theorem last_plain_of_push {T : List Tok} {t : Tok} (ht : t.sh = .plain) :
    ∀ T0 l, T ++ [t] = T0 ++ [l] → l.sh = .plain := by
  intro T0 l h
  have := congrArg List.getLast? h
  simp at this; subst this; exact ht

theorem paramTok_sh (b : Bool) (sl : Slice) : (paramTok b sl).sh = .plain := by
  cases b <;> rfl

theorem paramDefBody_inv {mixed : Bool} {tape : List Tok} {parent : Nat} {st' : St} {data d' : Bytes}
    (hT : TInv tape parent false)
    (h : paramDefBody mixed tape parent data = .cont st' d') : StInv st' := by
  unfold paramDefBody at h
  simp only at h
  split_cont h
  all_goals
    simp only [Step.cont.injEq] at h
    obtain ⟨rfl, _⟩ := h
    have hT2 : ∀ b sl, TInv (tape ++ [paramTok b sl]) parent false :=
      fun b sl => hT.push_plain (paramTok_sh b sl)
    first
    | -- value form: `[[x] v ]`
      refine ⟨?_, by simp, by simp⟩
      simp only [decide_false, reduceCtorEq]
      exact (hT2 _ _).push_plain rfl
    | -- object form: `[[x] key … ]`
      refine ⟨?_, by simp, ?_⟩
      · simp only [decide_false, reduceCtorEq]
        have h4 : ∀ b sl kv, TInv (tape ++ [paramTok b sl] ++ [.object parent false, .unquoted kv])
            (tape ++ [paramTok b sl]).length false := by
          intro b sl kv
          have h3 := (hT2 b sl).push_head (t := .object parent false) (by simp) rfl
          simpa using h3.push_plain (t := .unquoted kv) rfl
        exact h4 _ _ _
      · intro _ T0 l hl
        have := congrArg List.getLast? hl
        simp at this; subst this; rfl

theorem paramDef_inv {st st' : St} {data d' : Bytes} {initial : Bool}
    (hT : TInv st.tape st.parent initial)
    (h : paramDef st data initial = .cont st' d') : StInv st' := by
  unfold paramDef at h
  split at h
  · simp at h
  · split at h
    · simp at h
    · next tape parent hp =>
      refine paramDefBody_inv ?_ h
      unfold paramDefPre at hp
      cases initial with
      | false => simp at hp; obtain ⟨rfl, rfl⟩ := hp; exact hT
      | true =>
        simp only [if_true] at hp
        split at hp
        · simp at hp
        · simp only [Option.map_eq_some_iff, Prod.mk.injEq] at hp
          obtain ⟨t, hset, rfl, rfl⟩ := hp
          exact hT.hole_to_head hset rfl

theorem TInv.closeState_zero {T : List Tok} {p : Nat} {ph : Bool} (h : TInv T p ph) :
    closeState T[0]? = (false, .key) := by
  obtain ⟨C, hC⟩ := h
  have hz := hC.zero
  rw [List.getElem?_map] at hz
  cases hT : T[0]? with
  | none => rfl
  | some t =>
    rw [hT] at hz
    cases t <;> simp [closeState]
    · exact absurd rfl (hz _)
    · exact absurd rfl (hz _)

theorem TInv.parent_ne_zero {T : List Tok} {p : Nat} {ph : Bool} (h : TInv T p ph)
    (hn : ¬ (p = 0 ∧ endOf T[p]? = 0)) : p ≠ 0 := by
  intro hp; subst hp; exact hn ⟨rfl, h.parent_zero⟩

theorem setTok_ne_nil {T T' : List Tok} {i : Nat} {t : Tok} (h : setTok T i t = some T') : T' ≠ [] := by
  obtain ⟨rfl, hlt⟩ := setTok_some h
  intro h0
  have := congrArg List.length h0
  rw [List.length_set, List.length_nil] at this; omega

theorem stepKey_inv {st st' : St} {data d' : Bytes} (hinv : StInv st) (hs : st.state = .key)
    (h : stepKey st data = .cont st' d') : StInv st' := by
  obtain ⟨hT, _, _⟩ := hinv
  simp only [hs, decide_false, reduceCtorEq] at hT
  unfold stepKey at h
  split at h
  · contradiction
  · next c rest =>
    split at h
    · -- `}` / `]`
      simp only at h
      split at h
      · next hz =>
        simp only [Step.cont.injEq] at h
        obtain ⟨rfl, _⟩ := h
        rw [hz.2, hT.closeState_zero]
        exact ⟨by simpa using hT, by simp, by simp⟩
      · next hnz =>
        have hp := hT.parent_ne_zero hnz
        split at h
        · contradiction
        · next tape' hset =>
          simp only [Step.cont.injEq] at h
          obtain ⟨rfl, _⟩ := h
          have hT' := hT.close_head hp hset rfl
          rcases closeState_state st.tape[endOf st.tape[st.parent]?]? with hcs | hcs
          · exact ⟨by simpa [hcs] using hT', by simp [hcs], by simp [hcs]⟩
          · exact ⟨by simpa [hcs] using hT', fun _ => setTok_ne_nil hset, by simp [hcs]⟩
    · split at h
      · -- `{`
        split at h
        · contradiction
        · split at h
          · contradiction
          · split at h
            · -- ghost `{}`
              simp only [Step.cont.injEq] at h
              obtain ⟨rfl, _⟩ := h
              exact ⟨by simpa [hs] using hT, by simp [hs], by simp [hs]⟩
            · split at h
              · next hd hlast =>
                -- header
                simp only [Step.cont.injEq] at h
                obtain ⟨rfl, _⟩ := h
                rcases List.eq_nil_or_concat st.tape with hnil | ⟨T0, l, hTl⟩
                · simp [hnil] at hlast
                · simp only [List.concat_eq_append] at hTl
                  rw [hTl] at hlast hT ⊢
                  simp at hlast; subst hlast
                  refine ⟨?_, by simp, by simp⟩
                  simp only [decide_true, List.dropLast_concat]
                  have := hT.push_hole (by simp)
                  obtain ⟨C, hC⟩ := this
                  exact ⟨C, by simpa [Tok.sh] using hC⟩
              · contradiction
      · split at h
        · -- `[`
          exact paramDef_inv hT h
        · split at h
          · next tape' rest' hlex =>
            simp only [Step.cont.injEq] at h
            obtain ⟨rfl, _⟩ := h
            obtain ⟨t, rfl, ht⟩ := lexValue_push hlex
            exact ⟨by simpa using hT.push_plain ht, by simp, fun _ => last_plain_of_push ht⟩
          · cases ‹Fail› <;> simp [Step.fail] at h

theorem TInv.of_map_eq {T T' : List Tok} {p : Nat} {ph : Bool} (h : TInv T p ph)
    (heq : T'.map Tok.sh = T.map Tok.sh) : TInv T' p ph := by
  obtain ⟨C, hC⟩ := h; exact ⟨C, by rw [heq]; exact hC⟩

theorem stepKvs_inv {st st' : St} {data d' : Bytes} (hinv : StInv st) (hs : st.state = .kvs)
    (h : stepKvs st data = .cont st' d') : StInv st' := by
  obtain ⟨hT, hne, hlast⟩ := hinv
  simp only [hs, decide_false, reduceCtorEq] at hT
  have hne' : st.tape ≠ [] := hne (by simp [hs])
  unfold stepKvs at h
  split at h
  · contradiction
  · split at h
    · -- `=`
      split at h
      all_goals
        simp only [Step.cont.injEq] at h
        obtain ⟨rfl, _⟩ := h
      · exact ⟨by simpa [hs] using hT.push_plain (t := .operator .eq) rfl, by simp,
          fun _ => last_plain_of_push rfl⟩
      · exact ⟨by simpa using hT, fun _ => hne', by simp⟩
    · simp only [Step.cont.injEq] at h
      obtain ⟨rfl, _⟩ := h
      exact ⟨by simpa using hT.push_plain (t := .operator _) rfl, by simp, by simp⟩
    · split at h
      · simp only [Step.cont.injEq] at h
        obtain ⟨rfl, _⟩ := h
        exact ⟨by simpa using hT, fun _ => hne', by simp⟩
      · split at h
        · contradiction
        · next tape' hins =>
          simp only [Step.cont.injEq] at h
          obtain ⟨rfl, _⟩ := h
          refine ⟨by simpa using hT.insert_plain rfl hins (hlast hs), fun _ => ?_, by simp⟩
          obtain ⟨T0, l, _, rfl⟩ := insertBeforeLast_some hins
          simp

theorem stepObjectValue_inv {st st' : St} {data d' : Bytes} (hinv : StInv st) (hs : st.state = .objectValue)
    (h : stepObjectValue st data = .cont st' d') : StInv st' := by
  obtain ⟨hT, hne, _⟩ := hinv
  simp only [hs, decide_false, reduceCtorEq] at hT
  have hne' : st.tape ≠ [] := hne (by simp [hs])
  unfold stepObjectValue at h
  split at h
  · contradiction
  · split at h
    · simp only [Step.cont.injEq] at h
      obtain ⟨rfl, _⟩ := h
      exact ⟨by simpa using hT.push_hole hne', by simp, by simp⟩
    · split at h
      · contradiction
      · split at h
        · next tape' rest' hlex =>
          simp only [Step.cont.injEq] at h
          obtain ⟨rfl, _⟩ := h
          obtain ⟨t, rfl, ht⟩ := lexValue_push hlex
          exact ⟨by simpa using hT.push_plain ht, by simp, by simp⟩
        · cases ‹Fail› <;> simp [Step.fail] at h

theorem asScalar_plain {t : Tok} {s : Slice} (h : t.asScalar = some s) : t.sh = .plain := by
  cases t <;> simp [Tok.asScalar] at h <;> rfl

theorem stepArrayOp_inv {st st' : St} {data d' : Bytes} {onErr : Res}
    (hT : TInv st.tape st.parent false) (hs : st.state = .arrayValue)
    (h : stepArrayOp onErr st data = .cont st' d') : StInv st' := by
  unfold stepArrayOp at h
  split at h
  · contradiction
  · next tape mixed hpre =>
    have hT1 : TInv tape st.parent false ∧ tape ≠ [] ∨ tape = st.tape := by
      unfold arrayOpPre at hpre
      split at hpre
      · simp at hpre; exact .inr hpre.1.symm
      · split at hpre
        · next sl hsc =>
          split at hpre
          · next tape1 hins =>
            simp at hpre
            obtain ⟨rfl, _⟩ := hpre
            left
            refine ⟨hT.insert_plain rfl hins ?_, ?_⟩
            · intro T0 l hTl
              rw [hTl] at hsc
              simp at hsc
              exact asScalar_plain hsc
            · obtain ⟨T0, l, _, rfl⟩ := insertBeforeLast_some hins
              simp
          · simp at hpre
        · simp at hpre
    split at h
    · simp only [Step.cont.injEq] at h
      obtain ⟨rfl, _⟩ := h
      rcases hT1 with ⟨hT1, _⟩ | rfl
      · exact ⟨by simpa [hs] using hT1.push_plain (t := .operator _) rfl, by simp, by simp [hs]⟩
      · exact ⟨by simpa [hs] using hT.push_plain (t := .operator _) rfl, by simp, by simp [hs]⟩
    · contradiction

theorem stepArrayValue_inv {n : Nat} {st st' : St} {data d' : Bytes} (hinv : StInv st) (hs : st.state = .arrayValue)
    (h : stepArrayValue n st data = .cont st' d') : StInv st' := by
  obtain ⟨hT, hne, _⟩ := hinv
  simp only [hs, decide_false, reduceCtorEq] at hT
  have hne' : st.tape ≠ [] := hne (by simp [hs])
  unfold stepArrayValue at h
  split at h
  · contradiction
  · split at h
    · -- `{`
      simp only [Step.cont.injEq] at h
      obtain ⟨rfl, _⟩ := h
      exact ⟨by simpa using hT.push_hole hne', by simp, by simp⟩
    · split at h
      · -- `}`
        simp only at h
        split at h
        · contradiction
        · next hnz =>
          have hp := hT.parent_ne_zero hnz
          split at h
          · contradiction
          · next tape' hset =>
            simp only [Step.cont.injEq] at h
            obtain ⟨rfl, _⟩ := h
            have hT' := hT.close_head' hp hset (by split <;> rfl)
            rcases closeState_state st.tape[endOf st.tape[st.parent]?]? with hcs | hcs
            · exact ⟨by simpa [hcs] using hT', by simp [hcs], by simp [hcs]⟩
            · exact ⟨by simpa [hcs] using hT', by simp, by simp [hcs]⟩
      · split at h
        · -- quoted / variable
          split at h
          · next tape' rest' hlex =>
            simp only [Step.cont.injEq] at h
            obtain ⟨rfl, _⟩ := h
            obtain ⟨t, rfl, ht⟩ := lexValue_push hlex
            exact ⟨by simpa using hT.push_plain ht, by simp, by simp⟩
          · cases ‹Fail› <;> simp [Step.fail] at h
        · split at h
          · exact stepArrayOp_inv hT hs h
          · split at h
            · next tape' rest' hlex =>
              simp only [Step.cont.injEq] at h
              obtain ⟨rfl, _⟩ := h
              obtain ⟨t, rfl, ht⟩ := parseScalarTok_push hlex
              exact ⟨by simpa using hT.push_plain ht, by simp, by simp⟩
            · cases ‹Fail› <;> simp [Step.fail] at h

/-- the `if mixed_mode { tape[parent].mixed = true }` edit does not change any shape. -/
theorem flag_parent_sh (T : List Tok) (p : Nat) :
    (match T[p]? with
      | some (.array e _) => T.set p (.array e true)
      | some (.object e _) => T.set p (.object e true)
      | _ => T).map Tok.sh = T.map Tok.sh := by
  have hset : ∀ t t' : Tok, T[p]? = some t → t'.sh = t.sh → (T.set p t').map Tok.sh = T.map Tok.sh := by
    intro t t' hq hsh
    rw [List.map_set, hsh]
    apply List.ext_getElem?
    intro i
    rw [List.getElem?_set]
    split
    · next h =>
      subst h
      obtain ⟨hlt, heq⟩ := List.getElem?_eq_some_iff.1 hq
      simp [hlt, heq]
    · rfl
  split
  · next e m hq => exact hset _ _ hq rfl
  · next e m hq => exact hset _ _ hq rfl
  · rfl

theorem stepParseOpen_inv {st st' : St} {data d' : Bytes} (hinv : StInv st) (hs : st.state = .parseOpen)
    (h : stepParseOpen st data = .cont st' d') : StInv st' := by
  obtain ⟨hT, hne, _⟩ := hinv
  simp only [hs, decide_true] at hT
  have hne' : st.tape ≠ [] := hne (by simp [hs])
  unfold stepParseOpen at h
  split at h
  · contradiction
  · split at h
    · -- `}`: empty array
      split at h
      · contradiction
      · simp only at h
        split at h
        · contradiction
        · next tape' hset =>
          simp only [Step.cont.injEq] at h
          obtain ⟨rfl, _⟩ := h
          have hT' := hT.hole_to_empty hset
          rcases closeState_state st.tape[st.parent]? with hcs | hcs
          · exact ⟨by simpa [hcs] using hT', by simp [hcs], by simp [hcs]⟩
          · exact ⟨by simpa [hcs] using hT', by simp, by simp [hcs]⟩
    · split at h
      · -- `[`
        split at h
        · contradiction
        · exact paramDef_inv hT h
      · split at h
        · -- `{`
          split at h
          · contradiction
          · split at h
            · contradiction
            · split at h
              · simp only [Step.cont.injEq] at h
                obtain ⟨rfl, _⟩ := h
                exact ⟨by simpa [hs] using hT, fun _ => hne', by simp [hs]⟩
              · split at h
                · contradiction
                · simp only at h
                  split at h
                  · contradiction
                  · next tape' hset =>
                    simp only [Step.cont.injEq] at h
                    obtain ⟨rfl, _⟩ := h
                    exact ⟨by simpa using hT.hole_to_head hset rfl, fun _ => setTok_ne_nil hset, by simp⟩
        · -- first scalar of the container
          split at h
          · cases ‹Fail› <;> simp [Step.fail] at h
          · next tape1 rest' hlex =>
            obtain ⟨t, rfl, ht⟩ := lexValue_push hlex
            obtain ⟨T0, t0, hT0, ht0, hne0, hp0⟩ := hT.hole_shape
            simp only at h
            -- the tape after the optional flag edit has the shapes of `T0 ++ [hole, t]`
            generalize htape2 : (if st.mixed = true then
                match (st.tape ++ [t])[st.parent]? with
                | some (.array e _) => (st.tape ++ [t]).set st.parent (.array e true)
                | some (.object e _) => (st.tape ++ [t]).set st.parent (.object e true)
                | _ => st.tape ++ [t]
              else st.tape ++ [t]) = tape2 at h
            have hsh2 : tape2.map Tok.sh = (st.tape ++ [t]).map Tok.sh := by
              rw [← htape2]; split
              · exact flag_parent_sh _ _
              · rfl
            have hlen2 : tape2.length = T0.length + 2 := by
              have := congrArg List.length hsh2
              simp [hT0] at this; omega
            -- whichever kind is chosen, the placeholder becomes the head
            have key : ∀ (X : Tok) (tape' : List Tok), X.sh = .start st.parent →
                setTok tape2 (tape2.length - 2) X = some tape' →
                TInv tape' (tape2.length - 2) false ∧
                  tape'.map Tok.sh = T0.map Tok.sh ++ [.start st.parent, .plain] := by
              intro X tape' hX hset
              obtain ⟨rfl, _⟩ := setTok_some hset
              have h1 : TInv (T0 ++ [X]) T0.length false := by
                have := hT.hole_to_head (t := X) (T' := T0 ++ [X]) (by
                  unfold setTok; rw [hT0]; simp) hX
                simpa [hT0] using this
              have h2 := h1.push_plain ht
              have hmap : (tape2.set (tape2.length - 2) X).map Tok.sh = T0.map Tok.sh ++ [.start st.parent, .plain] := by
                rw [hlen2]
                simp only [Nat.add_sub_cancel]
                rw [List.map_set, hsh2, hT0, hX]
                simp only [List.map_append, List.map_cons, List.map_nil, ht0, ht]
                rw [List.append_assoc, List.set_append_right _ _ (by simp)]
                simp
              refine ⟨?_, hmap⟩
              rw [hlen2]
              simp only [Nat.add_sub_cancel]
              refine h2.of_map_eq ?_
              rw [hlen2] at hmap
              simp only [Nat.add_sub_cancel] at hmap
              rw [hmap]; simp [hX, ht]
            split at h
            · contradiction
            · split at h
              · contradiction
              · split at h
                · split at h
                  · contradiction
                  · next tape' hset =>
                    simp only [Step.cont.injEq] at h
                    obtain ⟨rfl, _⟩ := h
                    obtain ⟨k1, k2⟩ := key _ _ rfl hset
                    refine ⟨by simpa using k1, fun _ => setTok_ne_nil hset, ?_⟩
                    intro _ Ta l hl
                    simp only at hl
                    rw [hl] at k2
                    have := congrArg List.getLast? k2
                    simpa using this
                · split at h
                  · contradiction
                  · next tape' hset =>
                    simp only [Step.cont.injEq] at h
                    obtain ⟨rfl, _⟩ := h
                    exact ⟨by simpa using (key _ _ rfl hset).1, fun _ => setTok_ne_nil hset, by simp⟩

theorem stepAt_inv {n : Nat} {st st' : St} {data d' : Bytes} (hinv : StInv st)
    (h : stepAt n st data = .cont st' d') : StInv st' := by
  unfold stepAt at h
  cases hs : st.state <;> simp only [hs] at h
  · exact stepKey_inv hinv hs h
  · exact stepKvs_inv hinv hs h
  · exact stepObjectValue_inv hinv hs h
  · exact stepArrayValue_inv hinv hs h
  · exact stepParseOpen_inv hinv hs h

/-- the structural half of `WfTextTape`. -/
def WfStruct (T : List Tok) : Prop :=
  StartLink T ∧ EndLink T ∧
    ∀ i e i' e', IsStart T i e → IsStart T i' e' → i < i' → i' < e → e' < e

theorem TInv.wf {T : List Tok} (h : TInv T 0 false) : WfStruct T := by
  obtain ⟨C, hC⟩ := h
  have : C = [] := by
    cases hC.chain with
    | top => rfl
    | link h0 => omega
  subst this
  exact hC.wf

theorem atEof_inv {st : St} {T : List Tok} {b : Bool} (hinv : StInv st) (h : atEof st = .ok T b) :
    WfStruct T := by
  obtain ⟨hT, _, _⟩ := hinv
  unfold atEof at h
  split at h
  · simp at h
  · next hs =>
    simp only [ne_eq, Decidable.not_not] at hs
    simp only [hs, decide_false, reduceCtorEq] at hT
    split at h
    · next hp =>
      simp only [Res.ok.injEq] at h
      obtain ⟨rfl, _⟩ := h
      rw [hp] at hT; exact hT.wf
    · next hp =>
      simp only at h
      split at h
      · next hg =>
        split at h
        · simp at h
        · next tape' hset =>
          simp only [Res.ok.injEq] at h
          obtain ⟨rfl, _⟩ := h
          have := hT.close_head hp hset rfl
          rw [hg] at this; exact this.wf
      · simp at h

theorem StInv.init : StInv St.init := by
  refine ⟨⟨[], ?_⟩, by simp [St.init], by simp [St.init]⟩
  simp only [St.init, List.map_nil]
  exact ⟨.top, by simp, by simp, by simp, by simp [ClosedS], by simp, by simp⟩

/-- close every branch of `hc : … = Step.done (Res.ok T b)` that ends in `cont`, an error or a panic. -/
macro "no_ok" hc:ident : tactic =>
  `(tactic| (repeat' (split at $hc:ident)) <;>
      first
      | (simp at $hc:ident; done)
      | (cases ‹Fail› <;> simp [Step.fail] at $hc:ident; done)
      | skip)

theorem paramDef_not_ok {st : St} {d : Bytes} {i : Bool} {T : List Tok} {b : Bool} :
    paramDef st d i ≠ .done (.ok T b) := by
  intro hc
  unfold paramDef paramDefBody at hc
  simp only at hc
  no_ok hc

theorem arrayOpPre_not_ok {st : St} {r : Res} {T : List Tok} {b : Bool}
    (hr : r ≠ .ok T b) : arrayOpPre r st ≠ .error (.ok T b) := by
  intro hc
  unfold arrayOpPre at hc
  repeat' (split at hc)
  all_goals simp_all

theorem stepArrayOp_not_ok {st : St} {d : Bytes} {r : Res} {T : List Tok} {b : Bool}
    (hr : r ≠ .ok T b) : stepArrayOp r st d ≠ .done (.ok T b) := by
  intro hc
  unfold stepArrayOp at hc
  split at hc
  · next r' hpre =>
    simp at hc; subst hc
    exact arrayOpPre_not_ok hr hpre
  · split at hc
    · simp at hc
    · simp at hc; exact hr hc

theorem stepAt_not_ok {n : Nat} {st : St} {d : Bytes} {T : List Tok} {b : Bool} :
    stepAt n st d ≠ .done (.ok T b) := by
  intro hc
  unfold stepAt at hc
  split at hc
  · unfold stepKey at hc
    simp only at hc
    no_ok hc
    all_goals exact paramDef_not_ok hc
  · unfold stepKvs at hc
    no_ok hc
  · unfold stepObjectValue at hc
    no_ok hc
  · unfold stepParseOpen at hc
    simp only at hc
    no_ok hc
    all_goals exact paramDef_not_ok hc
  · unfold stepArrayValue at hc
    simp only at hc
    no_ok hc
    all_goals
      first
      | exact stepArrayOp_not_ok (by simp) hc
      | exact stepArrayOp_not_ok (by split <;> simp) hc

theorem run_inv (n : Nat) : ∀ (fuel : Nat) (st : St) (data : Bytes) (T : List Tok) (b : Bool),
    StInv st → run n fuel st data = .ok T b → WfStruct T
  | 0, _, _, _, _, _, h => by simp [run] at h
  | fuel + 1, st, data, T, b, hinv, h => by
    simp only [run, step] at h
    cases hsk : skipWs data with
    | none =>
      simp only [hsk] at h
      exact atEof_inv hinv h
    | some d =>
      simp only [hsk] at h
      cases hstep : stepAt n st d with
      | cont st' data' =>
        simp only [hstep] at h
        exact run_inv n fuel st' data' T b (stepAt_inv hinv hstep) h
      | done r =>
        simp only [hstep] at h
        subst h
        exact absurd hstep stepAt_not_ok

/-- C06 (text half), growth, structural clauses: whenever the parser succeeds — on ANY input —
every container start indexes a later `End` that indexes it back, no container or `End` carries
index 0, and containers are properly nested. -/
theorem parse_wfStruct (input : Bytes) (T : List Tok) (b : Bool) (h : parse input = .ok T b) :
    WfStruct T := by
  unfold parse at h
  simp only at h
  generalize hr : run input.length _ St.init _ = r at h
  cases r <;> simp [Res.withBom] at h
  obtain ⟨rfl, _⟩ := h
  exact run_inv _ _ _ _ _ _ StInv.init hr

end Jomini.TextTape
