import JominiModel.Model.Derive
/-
Helper lemmas for C18 (`Props/C18.lean`): key selection, the `visit_map` loop slot by slot,
one field's arm over its values, field extraction.
-/
namespace Jomini.Derive
open Jomini

variable {ε V R : Type}

/-! ### key selection -/

theorem findIdx_some (l : List FieldSpec) (p : FieldSpec → Bool) (i : Nat) :
    findIdx l p = some i ↔
      ∃ f, l[i]? = some f ∧ p f = true ∧ ∀ j g, j < i → l[j]? = some g → p g = false := by
  induction l generalizing i with
  | nil => simp [findIdx]
  | cons a l ih =>
    rw [findIdx]
    by_cases ha : p a = true
    · simp only [ha, if_true]
      constructor
      · intro h
        have : i = 0 := by simpa using h.symm
        subst this
        exact ⟨a, by simp, ha, by intro j g hj; omega⟩
      · rintro ⟨f, hf, hp, hmin⟩
        cases i with
        | zero => rfl
        | succ i =>
          have := hmin 0 a (by omega) (by simp)
          simp [ha] at this
    · have hb : p a = false := by simpa using ha
      simp only [hb, Bool.false_eq_true, if_false]
      cases i with
      | zero =>
        simp only [Option.map_eq_some_iff]
        constructor
        · rintro ⟨x, _, hx⟩; omega
        · rintro ⟨f, hf, hp, _⟩
          simp at hf; subst hf; exact absurd hp ha
      | succ i =>
        simp only [Option.map_eq_some_iff, Nat.add_right_cancel_iff, exists_eq_right]
        rw [ih]
        constructor
        · rintro ⟨f, hf, hp, hmin⟩
          refine ⟨f, by simpa using hf, hp, ?_⟩
          intro j g hj hg
          cases j with
          | zero => simp at hg; subst hg; exact hb
          | succ j => exact hmin j g (by omega) (by simpa using hg)
        · rintro ⟨f, hf, hp, hmin⟩
          refine ⟨f, by simpa using hf, hp, ?_⟩
          intro j g hj hg
          exact hmin (j + 1) g (by omega) (by simpa using hg)

theorem findIdx_lt (l : List FieldSpec) (p : FieldSpec → Bool) (i : Nat) (h : findIdx l p = some i) :
    i < l.length := by
  obtain ⟨f, hf, _⟩ := (findIdx_some l p i).mp h
  exact (List.getElem?_eq_some_iff.mp hf).1


/-! ### the loop, slot by slot -/

/-- the values offered to field `i`, in document order -/
def occs (schema : Schema) : List (Key × V) → Nat → List V
  | [], _ => []
  | (k, v) :: rest, i =>
    if fieldIdx schema k = some (some i) then v :: occs schema rest i else occs schema rest i

/-- every key reaches the visitor through `visit_str` / `visit_u16` -/
def keysOk (schema : Schema) (pairs : List (Key × V)) : Prop :=
  ∀ p ∈ pairs, fieldIdx schema p.1 ≠ none

/-- the match arm of one field applied to its values in order -/
def foldSlot (de : FieldSpec → V → Except ε R) (f : FieldSpec) : List V → Slot R → Except (Err ε) (Slot R)
  | [], s => .ok s
  | v :: vs, s =>
    match stepSlot de f s v with
    | .ok s' => foldSlot de f vs s'
    | .error e => .error e

theorem stepAt_spec (de : FieldSpec → V → Except ε R) : ∀ (schema : Schema) (st : List (Slot R)) (i : Nat) (v : V)
    (f : FieldSpec) (s : Slot R), schema[i]? = some f → st[i]? = some s →
    stepAt de schema st i v =
      match stepSlot de f s v with
      | .ok s' => .ok (st.set i s')
      | .error e => .error e := by
  intro schema
  induction schema with
  | nil => intro st i v f s h; simp at h
  | cons a schema ih =>
    intro st i v f s hf hs
    cases st with
    | nil => simp at hs
    | cons s0 st =>
      cases i with
      | zero =>
        simp at hf hs; subst hf hs
        simp only [stepAt]
        cases stepSlot de a s0 v <;> simp
      | succ i =>
        simp at hf hs
        simp only [stepAt, ih st i v f s hf hs]
        cases stepSlot de f s v <;> simp

theorem fieldIdx_lt (schema : Schema) (k : Key) (i : Nat) (h : fieldIdx schema k = some (some i)) :
    i < schema.length := by
  cases k <;> simp [fieldIdx] at h
  · exact findIdx_lt _ _ _ h
  · exact findIdx_lt _ _ _ h

/-- the slot-wise relation between the builder state before and after -/
def SlotsRel (de : FieldSpec → V → Except ε R) (schema : Schema) (pairs : List (Key × V))
    (st st' : List (Slot R)) : Prop :=
  st'.length = st.length ∧
  ∀ i f s, schema[i]? = some f → st[i]? = some s →
    ∃ s', st'[i]? = some s' ∧ foldSlot de f (occs schema pairs i) s = .ok s'

/-- the `visit_map` loop succeeds iff every key is deliverable and every field's own arm,
applied to that field's values in document order, succeeds; the final builder state is the
slot-wise result.  (Nothing else about the order of the pairs matters.) -/
theorem loop_ok_iff (de : FieldSpec → V → Except ε R) (schema : Schema) :
    ∀ (pairs : List (Key × V)) (st st' : List (Slot R)), st.length = schema.length →
      (loop schema de pairs st = .ok st' ↔ keysOk schema pairs ∧ SlotsRel de schema pairs st st') := by
  intro pairs
  induction pairs with
  | nil =>
    intro st st' hlen
    simp only [loop, keysOk, SlotsRel, occs, foldSlot]
    constructor
    · intro h
      have : st = st' := by simpa using h
      subst this
      exact ⟨by simp, rfl, by intro i f s _ hs; exact ⟨s, hs, rfl⟩⟩
    · rintro ⟨_, hl, h⟩
      have : st' = st := by
        apply List.ext_getElem? 
        intro i
        by_cases hi : i < st.length
        · have hs : st[i]? = some st[i] := by simp [hi]
          have hf : schema[i]? = some schema[i] := by simp [← hlen, hi]
          obtain ⟨s', h1, h2⟩ := h i _ _ hf hs
          have : st[i] = s' := by simpa using h2
          rw [h1, hs, this]
        · have h1 : st[i]? = none := by simp; omega
          have h2 : st'[i]? = none := by simp; omega
          rw [h1, h2]
      rw [this]
  | cons p rest ih =>
    intro st st' hlen
    obtain ⟨k, v⟩ := p
    rw [loop]
    unfold fieldOf
    cases hk : fieldIdx schema k with
    | none =>
      simp only
      constructor
      · intro h; cases h
      · rintro ⟨hko, _⟩
        exact absurd hk (hko (k, v) List.mem_cons_self)
    | some t =>
      cases t with
      | none =>
        simp only
        rw [ih st st' hlen]
        constructor
        · rintro ⟨h1, h2, h3⟩
          refine ⟨?_, h2, ?_⟩
          · intro p hp
            rcases List.mem_cons.mp hp with rfl | hp
            · simp [hk]
            · exact h1 p hp
          · intro i f s hf hs
            simpa [occs, hk] using h3 i f s hf hs
        · rintro ⟨h1, h2, h3⟩
          refine ⟨fun p hp => h1 p (List.mem_cons_of_mem _ hp), h2, ?_⟩
          intro i f s hf hs
          simpa [occs, hk] using h3 i f s hf hs
      | some i0 =>
        simp only
        have hi0 := fieldIdx_lt schema k i0 hk
        have hf0 : schema[i0]? = some schema[i0] := by simp [hi0]
        have hs0 : st[i0]? = some st[i0] := by simp [hlen, hi0]
        rw [stepAt_spec de schema st i0 v _ _ hf0 hs0]
        have hkeys : keysOk schema ((k, v) :: rest) ↔ keysOk schema rest := by
          constructor
          · intro h p hp; exact h p (List.mem_cons_of_mem _ hp)
          · intro h p hp
            rcases List.mem_cons.mp hp with rfl | hp
            · simp [hk]
            · exact h p hp
        rw [hkeys]
        cases hstep : stepSlot de schema[i0] st[i0] v with
        | error e =>
          simp only
          constructor
          · intro h; cases h
          · rintro ⟨_, _, h3⟩
            obtain ⟨s', _, h5⟩ := h3 i0 _ _ hf0 hs0
            simp [occs, hk, foldSlot, hstep] at h5
        | ok s1 =>
          simp only
          rw [ih (st.set i0 s1) st' (by simpa using hlen)]
          apply and_congr_right
          intro _
          simp only [SlotsRel, List.length_set]
          apply and_congr_right
          intro _
          constructor
          · intro h i f s hf hs
            by_cases hi : i = i0
            · subst hi
              have hs' : s = st[i] := by
                rw [hs0] at hs; exact (Option.some.inj hs).symm
              have hf' : f = schema[i] := by
                rw [hf0] at hf; exact (Option.some.inj hf).symm
              subst hs' hf'
              obtain ⟨s', h1, h2⟩ := h i _ s1 hf (by simp [hlen, hi0])
              exact ⟨s', h1, by simp [occs, hk, foldSlot, hstep, h2]⟩
            · obtain ⟨s', h1, h2⟩ := h i f s hf (by rw [List.getElem?_set_ne (Ne.symm hi)]; exact hs)
              have hne : ¬ (some (some i0) = some (some i)) := by
                intro hc; exact hi (by injection hc with hc; injection hc with hc; exact hc.symm)
              exact ⟨s', h1, by simpa [occs, hk, hne] using h2⟩
          · intro h i f s hf hs
            by_cases hi : i = i0
            · subst hi
              have hs' : s = s1 := by
                have : (st.set i s1)[i]? = some s1 := by simp [hlen, hi0]
                rw [this] at hs; exact (Option.some.inj hs).symm
              subst hs'
              obtain ⟨s', h1, h2⟩ := h i f st[i] hf hs0
              have hf' : f = schema[i] := by
                rw [hf0] at hf; exact (Option.some.inj hf).symm
              subst hf'
              refine ⟨s', h1, ?_⟩
              simpa [occs, hk, foldSlot, hstep] using h2
            · rw [List.getElem?_set_ne (Ne.symm hi)] at hs
              obtain ⟨s', h1, h2⟩ := h i f s hf hs
              have hne : ¬ (some (some i0) = some (some i)) := by
                intro hc; exact hi (by injection hc with hc; injection hc with hc; exact hc.symm)
              exact ⟨s', h1, by simpa [occs, hk, hne] using h2⟩


/-! ### one field's arm over its values -/

/-- all values deserialize: the results in order -/
def deAll (de : FieldSpec → V → Except ε R) (f : FieldSpec) : List V → Option (List R)
  | [] => some []
  | v :: vs =>
    match de f v, deAll de f vs with
    | .ok r, some rs => some (r :: rs)
    | _, _ => none

theorem foldSlot_duplicated (de : FieldSpec → V → Except ε R) (f : FieldSpec) (hk : f.kind = .duplicated) :
    ∀ (vs : List V) (l : List R) (s' : Slot R),
      foldSlot de f vs (.vec l) = .ok s' ↔ ∃ rs, deAll de f vs = some rs ∧ s' = .vec (l ++ rs) := by
  intro vs
  induction vs with
  | nil => intro l s'; simp [foldSlot, deAll]; exact eq_comm
  | cons v vs ih =>
    intro l s'
    simp only [foldSlot, stepSlot, hk, deAll]
    cases hd : de f v with
    | error e => simp
    | ok r =>
      simp only [ih]
      cases deAll de f vs with
      | none => simp
      | some rs => simp

theorem foldSlot_takeLast (de : FieldSpec → V → Except ε R) (f : FieldSpec) (hk : f.kind = .takeLast) :
    ∀ (vs : List V) (o : Option R) (s' : Slot R),
      foldSlot de f vs (.opt o) = .ok s' ↔
        ∃ rs, deAll de f vs = some rs ∧ s' = .opt (match rs.getLast? with | some r => some r | none => o) := by
  intro vs
  induction vs with
  | nil => intro o s'; simp [foldSlot, deAll]; exact eq_comm
  | cons v vs ih =>
    intro o s'
    simp only [foldSlot, stepSlot, hk, deAll]
    cases hd : de f v with
    | error e => simp
    | ok r =>
      simp only [ih]
      cases hda : deAll de f vs with
      | none => simp
      | some rs =>
        simp only [Option.some.injEq, exists_eq_left']
        cases rs with
        | nil => simp
        | cons r' rs' =>
          rw [List.getLast?_cons_cons]
          cases h : (r' :: rs').getLast? with
          | none => simp at h
          | some x => simp

theorem foldSlot_plain (de : FieldSpec → V → Except ε R) (f : FieldSpec) (hk : f.kind = .plain)
    (vs : List V) (s' : Slot R) :
    foldSlot de f vs (.opt none) = .ok s' ↔
      (vs = [] ∧ s' = .opt none) ∨ (∃ v r, vs = [v] ∧ de f v = .ok r ∧ s' = .opt (some r)) := by
  cases vs with
  | nil => simp [foldSlot]; exact eq_comm
  | cons v vs =>
    simp only [foldSlot, stepSlot, hk]
    cases hd : de f v with
    | error e => simp [hd]
    | ok r =>
      cases vs with
      | nil => simp [foldSlot, hd]; exact eq_comm
      | cons v2 vs2 => simp [foldSlot, stepSlot, hk]

theorem deAll_perm_last (de : FieldSpec → V → Except ε R) (f : FieldSpec) :
    ∀ (vs : List V), (∃ rs, deAll de f vs = some rs) ↔ ∀ v ∈ vs, ∃ r, de f v = .ok r := by
  intro vs
  induction vs with
  | nil => simp [deAll]
  | cons v vs ih =>
    simp only [deAll, List.mem_cons, forall_eq_or_imp, ← ih]
    cases de f v with
    | error e => simp
    | ok r =>
      cases deAll de f vs with
      | none => simp
      | some rs => simp

theorem deAll_getLast (de : FieldSpec → V → Except ε R) (f : FieldSpec) :
    ∀ (vs : List V) (rs : List R), deAll de f vs = some rs →
      rs.getLast? = match vs.getLast? with
        | none => none
        | some v => (match de f v with | .ok r => some r | .error _ => none) := by
  intro vs
  induction vs with
  | nil => intro rs h; simp [deAll] at h; subst h; rfl
  | cons v vs ih =>
    intro rs h
    simp only [deAll] at h
    cases hd : de f v with
    | error e => simp [hd] at h
    | ok r =>
      cases hda : deAll de f vs with
      | none => simp [hd, hda] at h
      | some rs' =>
        simp [hd, hda] at h
        subst h
        have := ih rs' hda
        cases vs with
        | nil => simp [deAll] at hda; subst hda; simp [hd]
        | cons v2 vs2 =>
          cases rs' with
          | nil =>
            simp only [deAll] at hda
            cases h1 : de f v2 <;> cases h2 : deAll de f vs2 <;> simp [h1, h2] at hda
          | cons r2 rs2 =>
            simp only [List.getLast?_cons_cons]
            exact this

/-! ### extraction -/

/-- value of an absent field that has a default: `unwrap_or_else(path)` / `unwrap_or_default()` -/
def defaultVal (f : FieldSpec) : FieldVal R :=
  match canDefault f with | .path => .dfltPath | _ => .dflt

def fieldValOf (f : FieldSpec) : Slot R → FieldVal R
  | .vec l => .vec l
  | .opt (some r) => .val r
  | .opt none => defaultVal f

theorem extract_ok (schema : Schema) : ∀ (st : List (Slot R)) (res : List (FieldVal R)),
    st.length = schema.length → extract (ε := ε) schema st = .ok res →
    res.length = schema.length ∧
    ∀ (i : Nat) (f : FieldSpec) (s : Slot R), schema[i]? = some f → st[i]? = some s →
      res[i]? = some (fieldValOf f s) ∧ (s = .opt none → canDefault f ≠ .no) := by
  induction schema with
  | nil => intro st res hl h; simp [extract] at h; subst h; simp
  | cons a schema ih =>
    intro st res hl h
    cases st with
    | nil => simp at hl
    | cons s0 st =>
      have hl' : st.length = schema.length := by simpa using hl
      simp only [extract] at h
      have key : ∀ out, extract (ε := ε) schema st = .ok out → res = fieldValOf a s0 :: out →
          (s0 = .opt none → canDefault a ≠ .no) →
          res.length = (a :: schema).length ∧
          ∀ (i : Nat) (f : FieldSpec) (s : Slot R), (a :: schema)[i]? = some f → (s0 :: st)[i]? = some s →
            res[i]? = some (fieldValOf f s) ∧ (s = .opt none → canDefault f ≠ .no) := by
        intro out hout hres hdef
        obtain ⟨h1, h2⟩ := ih st out hl' hout
        subst hres
        refine ⟨by simp [h1], ?_⟩
        intro i f s hf hs
        cases i with
        | zero => simp at hf hs; subst hf hs; exact ⟨by simp, hdef⟩
        | succ i => simp at hf hs; simpa using h2 i f s hf hs
      cases s0 with
      | vec l =>
        try simp only at h
        cases hout : extract (ε := ε) schema st with
        | error e => simp [hout] at h
        | ok out =>
          simp [hout] at h
          exact key out hout (by simp [fieldValOf, h]) (by simp)
      | opt o =>
        cases o with
        | some r =>
          try simp only at h
          cases hout : extract (ε := ε) schema st with
          | error e => simp [hout] at h
          | ok out =>
            simp [hout] at h
            exact key out hout (by simp [fieldValOf, h]) (by simp)
        | none =>
          try simp only at h
          cases hcd : canDefault a with
          | no => simp [hcd] at h
          | yes =>
            simp only [hcd] at h
            cases hout : extract (ε := ε) schema st with
            | error e => simp [hout] at h
            | ok out =>
              simp [hout] at h
              exact key out hout (by simp [fieldValOf, defaultVal, hcd, h]) (by simp [hcd])
          | path =>
            simp only [hcd] at h
            cases hout : extract (ε := ε) schema st with
            | error e => simp [hout] at h
            | ok out =>
              simp [hout] at h
              exact key out hout (by simp [fieldValOf, defaultVal, hcd, h]) (by simp [hcd])

theorem initState_get (schema : Schema) (i : Nat) (f : FieldSpec) (h : schema[i]? = some f) :
    (initState (R := R) schema)[i]? = some (initSlot f) := by
  simp [initState, h]


/-! ### which error is reported -/

theorem stepSlot_not_missing (de : FieldSpec → V → Except ε R) (f : FieldSpec) (s : Slot R) (v : V)
    (e : Err ε) (h : stepSlot de f s v = .error e) : ∀ n, e ≠ .missing n := by
  intro n hn
  subst hn
  unfold stepSlot at h
  split at h <;> try (split at h <;> simp at h)
  all_goals simp at h

theorem stepAt_not_missing (de : FieldSpec → V → Except ε R) : ∀ (schema : Schema) (st : List (Slot R))
    (i : Nat) (v : V) (e : Err ε), stepAt de schema st i v = .error e → ∀ n, e ≠ .missing n := by
  intro schema
  induction schema with
  | nil => intro st i v e h; simp [stepAt] at h
  | cons a schema ih =>
    intro st i v e h
    cases st with
    | nil => simp [stepAt] at h
    | cons s0 st =>
      cases i with
      | zero =>
        simp only [stepAt] at h
        cases hs : stepSlot de a s0 v with
        | ok s' => simp [hs] at h
        | error e' =>
          simp [hs] at h; subst h
          exact stepSlot_not_missing de a s0 v e' hs
      | succ i =>
        simp only [stepAt] at h
        cases hs : stepAt de schema st i v with
        | ok s' => simp [hs] at h
        | error e' =>
          simp [hs] at h; subst h
          exact ih st i v e' hs

/-- the loop never reports a missing field: its errors are `invalid type` (key), a value error or
`duplicate_field` -/
theorem loop_not_missing (schema : Schema) (de : FieldSpec → V → Except ε R) :
    ∀ (pairs : List (Key × V)) (st : List (Slot R)) (e : Err ε),
      loop schema de pairs st = .error e → ∀ n, e ≠ .missing n := by
  intro pairs
  induction pairs with
  | nil => intro st e h; simp [loop] at h
  | cons p rest ih =>
    intro st e h
    obtain ⟨k, v⟩ := p
    rw [loop] at h
    unfold fieldOf at h
    cases hk : fieldIdx schema k with
    | none => simp [hk] at h; subst h; intro n hn; cases hn
    | some t =>
      cases t with
      | none => simp only [hk] at h; exact ih st e h
      | some i =>
        simp only [hk] at h
        cases hs : stepAt de schema st i v with
        | ok st' => simp only [hs] at h; exact ih st' e h
        | error e' =>
          simp [hs] at h; subst h
          exact stepAt_not_missing de schema st i v e' hs

/-- which field `extract` reports: the first one, in declaration order, whose slot is empty and
that has no default -/
theorem extract_missing (schema : Schema) : ∀ (st : List (Slot R)) (e : Err ε),
    st.length = schema.length → extract (ε := ε) (R := R) schema st = .error e →
    ∃ (i : Nat) (f : FieldSpec), schema[i]? = some f ∧ e = .missing f.name ∧ st[i]? = some (.opt none) ∧
      canDefault f = .no ∧
      ∀ (j : Nat) (g : FieldSpec), j < i → schema[j]? = some g → ¬ (st[j]? = some (.opt none) ∧ canDefault g = .no) := by
  induction schema with
  | nil => intro st e _ h; simp [extract] at h
  | cons a schema ih =>
    intro st e hl h
    cases st with
    | nil => simp at hl
    | cons s0 st =>
      have hl' : st.length = schema.length := by simpa using hl
      simp only [extract] at h
      have key : (¬ (s0 = .opt none ∧ canDefault a = .no)) → extract (ε := ε) schema st = .error e →
          ∃ (i : Nat) (f : FieldSpec), (a :: schema)[i]? = some f ∧ e = .missing f.name ∧ (s0 :: st)[i]? = some (.opt none) ∧
            canDefault f = .no ∧
            ∀ (j : Nat) (g : FieldSpec), j < i → (a :: schema)[j]? = some g →
              ¬ ((s0 :: st)[j]? = some (.opt none) ∧ canDefault g = .no) := by
        intro h0 hrest
        obtain ⟨i, f, h1, h2, h3, h4, h5⟩ := ih st e hl' hrest
        refine ⟨i + 1, f, by simpa using h1, h2, by simpa using h3, h4, ?_⟩
        intro j g hj hg
        cases j with
        | zero =>
          simp at hg; subst hg
          simpa using h0
        | succ j => simpa using h5 j g (by omega) (by simpa using hg)
      cases s0 with
      | vec l =>
        cases hout : extract (ε := ε) schema st with
        | ok out => simp [hout] at h
        | error e' => simp [hout] at h; subst h; exact key (by simp) hout
      | opt o =>
        cases o with
        | some r =>
          cases hout : extract (ε := ε) schema st with
          | ok out => simp [hout] at h
          | error e' => simp [hout] at h; subst h; exact key (by simp) hout
        | none =>
          cases hcd : canDefault a with
          | no =>
            simp [hcd] at h; subst h
            exact ⟨0, a, by simp, rfl, by simp, hcd, by intro j g hj; omega⟩
          | yes =>
            simp only [hcd] at h
            cases hout : extract (ε := ε) schema st with
            | ok out => simp [hout] at h
            | error e' => simp [hout] at h; subst h; exact key (by simp [hcd]) hout
          | path =>
            simp only [hcd] at h
            cases hout : extract (ε := ε) schema st with
            | ok out => simp [hout] at h
            | error e' => simp [hout] at h; subst h; exact key (by simp [hcd]) hout


theorem deAll_length (de : FieldSpec → V → Except ε R) (f : FieldSpec) :
    ∀ (vs : List V) (rs : List R), deAll de f vs = some rs → rs.length = vs.length := by
  intro vs
  induction vs with
  | nil => intro rs h; simp [deAll] at h; subst h; rfl
  | cons v vs ih =>
    intro rs h
    simp only [deAll] at h
    cases hd : de f v with
    | error e => simp [hd] at h
    | ok r =>
      cases hda : deAll de f vs with
      | none => simp [hd, hda] at h
      | some rs' =>
        simp [hd, hda] at h; subst h
        simp [ih rs' hda]

/-- a slot that is still empty after its field's arm ran over the field's values: the field did
not occur -/
theorem foldSlot_empty (de : FieldSpec → V → Except ε R) (f : FieldSpec) (vs : List V)
    (h : foldSlot de f vs (initSlot f) = .ok (.opt none)) : vs = [] := by
  cases hk : f.kind with
  | duplicated =>
    have hinit : initSlot (R := R) f = .vec [] := by simp [initSlot, hk]
    rw [hinit] at h
    obtain ⟨rs, _, hrs⟩ := (foldSlot_duplicated de f hk _ _ _).mp h
    cases hrs
  | plain =>
    have hinit : initSlot (R := R) f = .opt none := by simp [initSlot, hk]
    rw [hinit] at h
    rcases (foldSlot_plain de f hk _ _).mp h with ⟨h0, _⟩ | ⟨v, r, _, _, h3⟩
    · exact h0
    · cases h3
  | takeLast =>
    have hinit : initSlot (R := R) f = .opt none := by simp [initSlot, hk]
    rw [hinit] at h
    obtain ⟨rs, hrs, h3⟩ := (foldSlot_takeLast de f hk _ _ _).mp h
    have hlen := deAll_length de f _ rs hrs
    cases rs with
    | nil => simpa using hlen.symm
    | cons r rs' =>
      exfalso
      cases hl : (r :: rs').getLast? with
      | none => simp at hl
      | some x => rw [hl] at h3; cases h3

theorem loop_append (schema : Schema) (de : FieldSpec → V → Except ε R) :
    ∀ (a b : List (Key × V)) (st : List (Slot R)),
      loop schema de (a ++ b) st =
        match loop schema de a st with
        | .ok st' => loop schema de b st'
        | .error e => .error e := by
  intro a
  induction a with
  | nil => intro b st; simp [loop]
  | cons p a ih =>
    intro b st
    obtain ⟨k, v⟩ := p
    simp only [List.cons_append, loop]
    cases fieldOf (ε := ε) schema k with
    | error e => rfl
    | ok t =>
      cases t with
      | none => exact ih b st
      | some i =>
        simp only
        cases stepAt de schema st i v with
        | error e => rfl
        | ok st' => exact ih b st'

end Jomini.Derive
