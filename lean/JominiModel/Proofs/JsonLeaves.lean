import JominiModel.Spec.JsonLeaves
import JominiModel.Proofs.JsonGroup
/-
C16_scalars_preserved / C16_keys_in_order: the scalar leaves and the keys of `jsonOf n`, read off
the JSON value with `jleaves` / `jvals` / `jkeys`, are those of the document tree, read off the
tree with `dleaves` / `dvals` / `fieldKeys` (Spec/JsonLeaves.lean) — `jsonOf` appears only in these
lemmas, not in the statements of Props/C16.
-/
set_option linter.unusedSimpArgs false
set_option linter.unusedSectionVars false
namespace Jomini.Json
open Jomini Jomini.JsonSpec

/-! ### list lemmas for the leaf functions -/

theorem jleavesL_append (a b : List JVal) : jleavesL (a ++ b) = jleavesL a ++ jleavesL b := by
  induction a with
  | nil => rfl
  | cons x xs ih => simp [jleavesL, ih]

theorem jleavesO_append (a b : List (Bytes × JVal)) : jleavesO (a ++ b) = jleavesO a ++ jleavesO b := by
  induction a with
  | nil => rfl
  | cons x xs ih => obtain ⟨k, v⟩ := x; simp [jleavesO, ih]

theorem jvalsL_append (a b : List JVal) : jvalsL (a ++ b) = jvalsL a ++ jvalsL b := by
  induction a with
  | nil => rfl
  | cons x xs ih => simp [jvalsL, ih]

theorem jvalsO_append (a b : List (Bytes × JVal)) : jvalsO (a ++ b) = jvalsO a ++ jvalsO b := by
  induction a with
  | nil => rfl
  | cons x xs ih => obtain ⟨k, v⟩ := x; simp [jvalsO, ih]

/-- a JSON scalar -/
def isScalarJ : JVal → Bool
  | .arr _ | .obj _ => false
  | _ => true

theorem jleaves_scalar (v : JVal) (h : isScalarJ v = true) : jleaves v = [v] ∧ jvals v = [v] := by
  cases v <;> simp [isScalarJ] at h <;> simp [jleaves, jvals]

theorem narrowScalar_scalar (o : Opts) (enc : Enc) (q : Bool) (s : Bytes) : isScalarJ (narrowScalar o enc q s) = true := by
  have hs : isScalarJ (serializeScalar enc s) = true := by
    unfold serializeScalar
    split
    · rfl
    · split
      · rfl
      · rfl
      · split <;> rfl
      · rfl
  unfold narrowScalar
  split <;> split <;> first | exact hs | rfl

theorem jleaves_wrapOp (op : Option Op) (v : JVal) :
    jleaves (wrapOp op v) = (match op with | some x => [JVal.str x.name] | none => []) ++ jleaves v ∧
    jvals (wrapOp op v) = jvals v := by
  cases op <;> simp [wrapOp, jleaves, jleavesO, jvals, jvalsO]

/-! ### plain value lists are written element by element -/

theorem windowZ_plain (zs : List (ItemTag × JVal)) (h : ∀ p ∈ zs, ∃ k, p.1 = ItemTag.keyT k) :
    windowZ zs 0 = zs.map (·.2) := by
  induction zs with
  | nil => rfl
  | cons p rest ih =>
    obtain ⟨tag, jv⟩ := p
    obtain ⟨k, hk⟩ := h (tag, jv) (by simp)
    simp only at hk
    subst hk
    have hr := ih (fun q hq => h q (by simp [hq]))
    cases rest with
    | nil => simp [windowZ]
    | cons q rest2 =>
      obtain ⟨tag2, jv2⟩ := q
      obtain ⟨k2, hk2⟩ := h (tag2, jv2) (by simp)
      simp only at hk2
      subst hk2
      simp only [windowZ, List.map_cons] at hr ⊢
      rw [hr]

theorem tag_val (enc : Enc) (n : Node) : ∃ k, Item.tag enc (.val n) = ItemTag.keyT k := by
  cases n <;> exact ⟨_, rfl⟩

theorem jsonItems_plain (o : Opts) (enc : Enc) (items : List Item) (h : plainItems items = true) :
    ∀ p ∈ jsonItems o enc items, ∃ k, p.1 = ItemTag.keyT k := by
  induction items with
  | nil => intro p hp; simp [jsonItems] at hp
  | cons x xs ih =>
    simp only [plainItems, Bool.and_eq_true] at h
    intro p hp
    simp only [jsonItems, List.mem_append] at hp
    rcases hp with hp | hp
    · cases x with
      | val n =>
        simp only [jsonItem, List.mem_singleton] at hp
        rw [hp]; exact tag_val enc n
      | hdr s b => simp [plainItem] at h
      | paramTok u s => simp [plainItem] at h
      | opTok op => simp [plainItem] at h
      | mixedTok => simp [plainItem] at h
    · exact ih h.2 p hp

/-! ### the shapes by mode -/

theorem objectShape_nokvp (o : Opts) (h : o.dup ≠ .kvp) (es : List (Bytes × JVal)) (r : Option JVal) :
    objectShape o es r = .obj (match r with | none => es | some x => es ++ [(kRemainder, x)]) := by
  unfold objectShape
  cases hh : o.dup <;> cases r <;> simp_all

theorem objectShape_kvp (o : Opts) (h : o.dup = .kvp) (es : List (Bytes × JVal)) (r : Option JVal) :
    objectShape o es r = .obj [(kType, .str kObj), (kVal, .arr (match r with
      | none => es.map (fun kv => JVal.arr [.str kv.1, kv.2])
      | some x => es.map (fun kv => JVal.arr [.str kv.1, kv.2]) ++ [x]))] := by
  unfold objectShape
  rw [h]
  cases r <;> rfl

theorem entriesByMode_nogroup (o : Opts) (enc : Enc) (h : o.dup ≠ .group) (ents : List (TTok × Option Op × JVal)) :
    entriesByMode o enc ents = ents.map (fun x => (keyJson enc x.1, wrapOp x.2.1 x.2.2)) := by
  unfold entriesByMode
  cases hh : o.dup <;> simp_all

theorem arrayShape_nokvp (o : Opts) (h : o.dup ≠ .kvp) (xs : List JVal) : arrayShape o xs = .arr xs := by
  simp [arrayShape, h]

theorem arrayShape_kvp (o : Opts) (h : o.dup = .kvp) (xs : List JVal) :
    arrayShape o xs = .obj [(kType, .str kArray), (kVal, .arr xs)] := by
  simp [arrayShape, h]

/-! ### Preserve: the leaves of the JSON are the leaves of the document, in order -/

section Preserve
variable (o : Opts) (enc : Enc) (hd : o.dup = .preserve)
include hd

mutual
theorem leaves_preserve : (n : Node) → plainNode n = true → jleaves (jsonOf o enc n) = dleaves true o enc n
  | .scalar q s, _ => by
    simp only [jsonOf, dleaves]
    exact (jleaves_scalar _ (narrowScalar_scalar o enc q s)).1
  | .arr m items, h => by
    simp only [plainNode] at h
    simp only [jsonOf, dleaves]
    rw [arrayShape_nokvp o (by simp [hd]), windowZ_plain _ (jsonItems_plain o enc items h)]
    simpa [jleaves] using leavesItems_preserve items h
  | .obj flag m fields rest, h => by
    simp only [plainNode, Bool.and_eq_true] at h
    have hf := leavesFields_preserve fields h.1
    have hr := leavesItems_preserve rest h.2
    cases rest with
    | nil =>
      simp only [jsonOf, dleaves]
      rw [objectShape_nokvp o (by simp [hd]), entriesByMode_nogroup o enc (by simp [hd])]
      simp [remainderOf, jleaves, hf]
    | cons x xs =>
      simp only [jsonOf, dleaves]
      rw [objectShape_nokvp o (by simp [hd]), entriesByMode_nogroup o enc (by simp [hd]),
        windowZ_plain _ (jsonItems_plain o enc (x :: xs) h.2)]
      simp [remainderOf, jleaves, jleavesO_append, jleavesO, hf, hr]
  | .header s body, h => by
    simp only [plainNode] at h
    simp [jsonOf, dleaves, jleaves, jleavesO, leaves_preserve body h]
theorem leavesItems_preserve : (items : List Item) → plainItems items = true →
    jleavesL ((jsonItems o enc items).map (·.2)) = dleavesItems true o enc items
  | [], _ => by simp [jsonItems, jleavesL, dleavesItems]
  | .val n :: xs, h => by
    simp only [plainItems, plainItem, Bool.and_eq_true] at h
    simp [jsonItems, jsonItem, jleavesL, dleavesItems, dleavesItem, leaves_preserve n h.1, leavesItems_preserve xs h.2]
  | .hdr _ _ :: _, h => by simp [plainItems, plainItem] at h
  | .paramTok _ _ :: _, h => by simp [plainItems, plainItem] at h
  | .opTok _ :: _, h => by simp [plainItems, plainItem] at h
  | .mixedTok :: _, h => by simp [plainItems, plainItem] at h
theorem leavesFields_preserve : (fields : List Field) → plainFields fields = true →
    jleavesO ((jsonFields o enc fields).map (fun x => (keyJson enc x.1, wrapOp x.2.1 x.2.2))) =
      dleavesFields true o enc fields
  | [], _ => by simp [jsonFields, jleavesO, dleavesFields]
  | .mk k op v :: fs, h => by
    simp only [plainFields, plainField, Bool.and_eq_true] at h
    simp [jsonFields, jsonField, jleavesO, dleavesFields, dleavesField, (jleaves_wrapOp op _).1,
      leaves_preserve v h.1, leavesFields_preserve fs h.2]
    cases op <;> rfl
end

end Preserve

/-! ### KeyValuePairs: the same, the words of the typed encoding left out on both sides -/

/-- drop the strings `type`, `obj`, `val`, `array` -/
def ft (l : List JVal) : List JVal := l.filter (fun x => !isTypedWord x)

theorem ft_append (a b : List JVal) : ft (a ++ b) = ft a ++ ft b := by simp [ft]

theorem ft_typed3 (a b c : Bytes) (ha : isTypedWord (.str a) = true) (hb : isTypedWord (.str b) = true)
    (hc : isTypedWord (.str c) = true) (l : List JVal) :
    ft (JVal.str a :: JVal.str b :: JVal.str c :: l) = ft l := by
  simp [ft, ha, hb, hc]

theorem jleavesL_pairs (es : List (Bytes × JVal)) :
    jleavesL (es.map (fun kv => JVal.arr [.str kv.1, kv.2])) = jleavesO es := by
  induction es with
  | nil => rfl
  | cons x xs ih => obtain ⟨k, v⟩ := x; simp [jleavesL, jleavesO, jleaves, ih]

section Kvp
variable (o : Opts) (enc : Enc) (hd : o.dup = .kvp)
include hd

mutual
theorem leaves_kvp : (n : Node) → plainNode n = true →
    ft (jleaves (jsonOf o enc n)) = ft (dleaves false o enc n)
  | .scalar q s, _ => by
    simp only [jsonOf, dleaves]
    rw [(jleaves_scalar _ (narrowScalar_scalar o enc q s)).1]
  | .arr m items, h => by
    simp only [plainNode] at h
    simp only [jsonOf, dleaves]
    rw [arrayShape_kvp o hd, windowZ_plain _ (jsonItems_plain o enc items h)]
    simp only [jleaves, jleavesO, List.append_nil, List.cons_append, List.nil_append]
    rw [ft_typed3 _ _ _ (by decide) (by decide) (by decide)]
    exact leavesItems_kvp items h
  | .obj flag m fields rest, h => by
    simp only [plainNode, Bool.and_eq_true] at h
    have hf := leavesFields_kvp fields h.1
    have hr := leavesItems_kvp rest h.2
    cases rest with
    | nil =>
      simp only [jsonOf, dleaves]
      rw [objectShape_kvp o hd, entriesByMode_nogroup o enc (by simp [hd])]
      simp only [remainderOf, jleaves, jleavesO, List.append_nil, List.cons_append, List.nil_append]
      rw [ft_typed3 _ _ _ (by decide) (by decide) (by decide), jleavesL_pairs]
      exact hf
    | cons x xs =>
      simp only [jsonOf, dleaves]
      rw [objectShape_kvp o hd, entriesByMode_nogroup o enc (by simp [hd]),
        windowZ_plain _ (jsonItems_plain o enc (x :: xs) h.2)]
      simp only [remainderOf, jleaves, jleavesO, List.append_nil, List.cons_append, List.nil_append]
      rw [ft_typed3 _ _ _ (by decide) (by decide) (by decide), jleavesL_append, jleavesL_pairs]
      simp only [jleavesL, jleaves, List.append_nil, Bool.false_eq_true, if_false, List.nil_append]
      rw [ft_append, ft_append, hf, hr]
  | .header s body, h => by
    simp only [plainNode] at h
    have hb := leaves_kvp body h
    simp only [jsonOf, dleaves, jleaves, jleavesO, List.append_nil]
    rw [show (JVal.str (decode enc s) :: jleaves (jsonOf o enc body)) = [JVal.str (decode enc s)] ++ jleaves (jsonOf o enc body) from rfl,
      show (JVal.str (decode enc s) :: dleaves false o enc body) = [JVal.str (decode enc s)] ++ dleaves false o enc body from rfl,
      ft_append, ft_append, hb]
theorem leavesItems_kvp : (items : List Item) → plainItems items = true →
    ft (jleavesL ((jsonItems o enc items).map (·.2))) = ft (dleavesItems false o enc items)
  | [], _ => by simp [jsonItems, jleavesL, dleavesItems]
  | .val n :: xs, h => by
    simp only [plainItems, plainItem, Bool.and_eq_true] at h
    simp only [jsonItems, jsonItem, List.map_append, List.map_cons, List.map_nil, List.cons_append, List.nil_append,
      jleavesL, dleavesItems, dleavesItem]
    rw [ft_append, ft_append, leaves_kvp n h.1, leavesItems_kvp xs h.2]
  | .hdr _ _ :: _, h => by simp [plainItems, plainItem] at h
  | .paramTok _ _ :: _, h => by simp [plainItems, plainItem] at h
  | .opTok _ :: _, h => by simp [plainItems, plainItem] at h
  | .mixedTok :: _, h => by simp [plainItems, plainItem] at h
theorem leavesFields_kvp : (fields : List Field) → plainFields fields = true →
    ft (jleavesO ((jsonFields o enc fields).map (fun x => (keyJson enc x.1, wrapOp x.2.1 x.2.2)))) =
      ft (dleavesFields false o enc fields)
  | [], _ => by simp [jsonFields, jleavesO, dleavesFields]
  | .mk k op v :: fs, h => by
    simp only [plainFields, plainField, Bool.and_eq_true] at h
    have hv := leaves_kvp v h.1
    have hr := leavesFields_kvp fs h.2
    simp only [jsonFields, jsonField, List.map_cons, jleavesO, dleavesFields, dleavesField, (jleaves_wrapOp op _).1]
    have e1 : ∀ (A B C : List JVal) (x : JVal), x :: ((A ++ B) ++ C) = ([x] ++ A) ++ (B ++ C) := by
      intro A B C x; simp
    have e2 : ∀ (A B C : List JVal) (x : JVal), x :: (A ++ B) ++ C = ([x] ++ A) ++ (B ++ C) := by
      intro A B C x; simp
    rw [e1, e2, ft_append, ft_append, ft_append, ft_append, hv, hr]
    simp only [ft_append]
    cases op <;> rfl
end

end Kvp

/-! ### Group: the scalar values are the document's, as a multiset -/

theorem jvalsL_map_snd_wrap (l : List (TTok × Option Op × JVal)) :
    jvalsL (l.map (fun x => wrapOp x.2.1 x.2.2)) = l.flatMap (fun x => jvals x.2.2) := by
  induction l with
  | nil => rfl
  | cons x xs ih => simp [jvalsL, (jleaves_wrapOp _ _).2, ih]

theorem jvalsO_map {γ : Type} (K : γ → Bytes) (V : γ → JVal) (l : List γ) :
    jvalsO (l.map (fun g => (K g, V g))) = l.flatMap (fun g => jvals (V g)) := by
  induction l with
  | nil => rfl
  | cons g rest ih => simp only [List.map_cons, jvalsO, ih, List.flatMap_cons]

theorem flatMap_flat {α β γ : Type} (l : List γ) (mem : γ → List α) (val : α → List β) :
    (l.flatMap mem).flatMap val = l.flatMap (fun g => (mem g).flatMap val) := by
  induction l with
  | nil => rfl
  | cons g rest ih => simp only [List.flatMap_cons, List.flatMap_append, ih]

/-- the value written for one group -/
def groupVal (g : (TTok × Option Op × JVal) × List (TTok × Option Op × JVal)) : JVal :=
  match g.2 with
  | [] => wrapOp g.1.2.1 g.1.2.2
  | _ :: _ => JVal.arr ((g.1 :: g.2).map (fun x => wrapOp x.2.1 x.2.2))

theorem jvals_groupVal (g : (TTok × Option Op × JVal) × List (TTok × Option Op × JVal)) :
    jvals (groupVal g) = (g.1 :: g.2).flatMap (fun x => jvals x.2.2) := by
  obtain ⟨f, more⟩ := g
  cases more with
  | nil => simp [groupVal, (jleaves_wrapOp _ _).2]
  | cons m ms =>
    simp only [groupVal, jvals]
    exact jvalsL_map_snd_wrap (f :: m :: ms)

theorem jvalsO_groups (enc : Enc) (gs : List ((TTok × Option Op × JVal) × List (TTok × Option Op × JVal))) :
    jvalsO (gs.map (fun g => (keyJson enc g.1.1, groupVal g))) =
      (gs.flatMap (fun g => g.1 :: g.2)).flatMap (fun x => jvals x.2.2) := by
  rw [jvalsO_map, flatMap_flat]
  congr 1
  funext g
  exact jvals_groupVal g

theorem entriesByMode_group (o : Opts) (enc : Enc) (h : o.dup = .group) (ents : List (TTok × Option Op × JVal)) :
    entriesByMode o enc ents =
      (stableGroupBy (fun x : TTok × Option Op × JVal => keyBytes x.1) ents).map
        (fun g => (keyJson enc g.1.1, groupVal g)) := by
  unfold entriesByMode
  rw [h]
  rfl

section Group
variable (o : Opts) (enc : Enc) (hd : o.dup = .group)
include hd

mutual
theorem vals_group : (n : Node) → plainNode n = true → (jvals (jsonOf o enc n)).Perm (dvals o enc n)
  | .scalar q s, _ => by
    simp only [jsonOf, dvals]
    rw [(jleaves_scalar _ (narrowScalar_scalar o enc q s)).2]
  | .arr m items, h => by
    simp only [plainNode] at h
    simp only [jsonOf, dvals]
    rw [arrayShape_nokvp o (by simp [hd]), windowZ_plain _ (jsonItems_plain o enc items h)]
    simpa [jvals] using valsItems_group items h
  | .obj flag m fields rest, h => by
    simp only [plainNode, Bool.and_eq_true] at h
    have hf := valsFields_group fields h.1
    have hr := valsItems_group rest h.2
    have hes : (jvalsO (entriesByMode o enc (jsonFields o enc fields))).Perm (dvalsFields o enc fields) := by
      rw [entriesByMode_group o enc hd, jvalsO_groups]
      exact ((stableGroupBy_perm _ _ _ (Nat.le_refl _)).flatMap_right _).trans hf
    cases rest with
    | nil =>
      simp only [jsonOf, dvals]
      rw [objectShape_nokvp o (by simp [hd])]
      simpa [remainderOf, jvals, dvalsItems] using hes
    | cons x xs =>
      simp only [jsonOf, dvals]
      rw [objectShape_nokvp o (by simp [hd]), windowZ_plain _ (jsonItems_plain o enc (x :: xs) h.2)]
      simp only [remainderOf, jvals, jvalsO_append, jvalsO, List.append_nil]
      exact hes.append hr
  | .header s body, h => by
    simp only [plainNode] at h
    simpa [jsonOf, dvals, jvals, jvalsO] using vals_group body h
theorem valsItems_group : (items : List Item) → plainItems items = true →
    (jvalsL ((jsonItems o enc items).map (·.2))).Perm (dvalsItems o enc items)
  | [], _ => by simp [jsonItems, jvalsL, dvalsItems]
  | .val n :: xs, h => by
    simp only [plainItems, plainItem, Bool.and_eq_true] at h
    simp only [jsonItems, jsonItem, List.map_append, List.map_cons, List.map_nil, List.cons_append, List.nil_append,
      jvalsL, dvalsItems, dvalsItem]
    exact (vals_group n h.1).append (valsItems_group xs h.2)
  | .hdr _ _ :: _, h => by simp [plainItems, plainItem] at h
  | .paramTok _ _ :: _, h => by simp [plainItems, plainItem] at h
  | .opTok _ :: _, h => by simp [plainItems, plainItem] at h
  | .mixedTok :: _, h => by simp [plainItems, plainItem] at h
theorem valsFields_group : (fields : List Field) → plainFields fields = true →
    ((jsonFields o enc fields).flatMap (fun x => jvals x.2.2)).Perm (dvalsFields o enc fields)
  | [], _ => by simp [jsonFields, dvalsFields]
  | .mk k op v :: fs, h => by
    simp only [plainFields, plainField, Bool.and_eq_true] at h
    simp only [jsonFields, jsonField, List.flatMap_cons, dvalsFields, dvalsField]
    exact (vals_group v h.1).append (valsFields_group fs h.2)
end

end Group

/-! ### keys in order -/

theorem mem_firstOcc (l : List Bytes) : ∀ x ∈ firstOcc l, x ∈ l := by
  induction l with
  | nil => intro x hx; simp [firstOcc] at hx
  | cons k ks ih =>
    intro x hx
    simp only [firstOcc, List.mem_cons, List.mem_filter] at hx
    rcases hx with hx | hx
    · simp [hx]
    · simp [ih x hx.1]

theorem firstOcc_filter (p : Bytes → Bool) (l : List Bytes) : (firstOcc l).filter p = firstOcc (l.filter p) := by
  induction l with
  | nil => rfl
  | cons k ks ih =>
    simp only [firstOcc, List.filter_cons]
    by_cases hp : p k = true
    · simp only [hp, if_true, firstOcc]
      rw [List.filter_filter, ← ih, List.filter_filter]
      congr 1
      apply List.filter_congr
      intro x _
      exact Bool.and_comm _ _
    · simp only [hp, Bool.false_eq_true, if_false]
      rw [List.filter_filter, ← ih]
      apply List.filter_congr
      intro x hx
      by_cases hxk : x = k
      · subst hxk; simp [hp]
      · simp [hxk]

theorem groups_firstOcc {α : Type} (key key' : α → Bytes) (n : Nat) : ∀ (l : List α), l.length ≤ n →
    (∀ a ∈ l, ∀ b ∈ l, (key a = key b ↔ key' a = key' b)) →
    (stableGroupBy key l).map (fun g => key' g.1) = firstOcc (l.map key') := by
  induction n with
  | zero =>
    intro l h _
    have : l = [] := List.eq_nil_of_length_eq_zero (by omega)
    subst this; rfl
  | succ n ih =>
    intro l h hag
    cases l with
    | nil => rfl
    | cons x xs =>
      have hle : (xs.filter (fun y => !decide (key y = key x))).length ≤ n := by
        have := List.length_filter_le (fun y => !decide (key y = key x)) xs
        simp only [List.length_cons] at h; omega
      have hag' : ∀ a ∈ xs.filter (fun y => !decide (key y = key x)), ∀ b ∈ xs.filter (fun y => !decide (key y = key x)),
          (key a = key b ↔ key' a = key' b) := by
        intro a ha b hb
        exact hag a (by simp [(List.mem_filter.mp ha).1]) b (by simp [(List.mem_filter.mp hb).1])
      rw [stableGroupBy_cons]
      simp only [List.map_cons, firstOcc]
      rw [ih _ hle hag', firstOcc_filter, List.filter_map]
      congr 3
      apply List.filter_congr
      intro y hy
      have := hag y (by simp [hy]) x (by simp)
      simp only [Function.comp_apply]
      by_cases hk : key y = key x
      · simp [hk, this.mp hk]
      · have : ¬ key' y = key' x := fun h' => hk (this.mpr h')
        simp [hk, this]

theorem jsonFields_keys (o : Opts) (enc : Enc) (fields : List Field) :
    (jsonFields o enc fields).map (fun x => keyJson enc x.1) = fieldKeys enc fields := by
  induction fields with
  | nil => rfl
  | cons f fs ih => cases f with | mk k op v => simp [jsonFields, jsonField, fieldKeys, ih]

theorem jsonFields_agree (o : Opts) (enc : Enc) (fields : List Field) (h : KeysAgree enc fields) :
    ∀ a ∈ jsonFields o enc fields, ∀ b ∈ jsonFields o enc fields,
      (keyBytes a.1 = keyBytes b.1 ↔ keyJson enc a.1 = keyJson enc b.1) := by
  have hmem : ∀ a ∈ jsonFields o enc fields, ∃ f ∈ fields, match f with | .mk k _ _ => k = a.1 := by
    induction fields with
    | nil => intro a ha; simp [jsonFields] at ha
    | cons f fs ih =>
      intro a ha
      cases f with
      | mk k op v =>
        simp only [jsonFields, jsonField, List.mem_cons] at ha
        rcases ha with ha | ha
        · exact ⟨.mk k op v, by simp, by rw [ha]⟩
        · obtain ⟨f', hf', hk⟩ := ih (fun f hf g hg => h f (by simp [hf]) g (by simp [hg])) a ha
          exact ⟨f', by simp [hf'], hk⟩
  intro a ha b hb
  obtain ⟨f, hf, hfk⟩ := hmem a ha
  obtain ⟨g, hg, hgk⟩ := hmem b hb
  have := h f hf g hg
  cases f with
  | mk k _ _ =>
    cases g with
    | mk k' _ _ =>
      simp only at hfk hgk this
      rw [← hfk, ← hgk]; exact this

/-- Preserve: the keys of the JSON object of ANY document object are its fields' keys in document
order (duplicates kept), then `"remainder"` if it has a trailing array part -/
theorem keys_preserve (o : Opts) (enc : Enc) (hd : o.dup = .preserve) (flag m : Bool) (fields : List Field) (rest : List Item) :
    jkeys (jsonOf o enc (.obj flag m fields rest)) = fieldKeys enc fields ++ remKey rest := by
  simp only [jsonOf]
  rw [objectShape_nokvp o (by simp [hd]), entriesByMode_nogroup o enc (by simp [hd])]
  cases rest with
  | nil => simp [remainderOf, jkeys, remKey, List.map_map, Function.comp_def, jsonFields_keys]
  | cons x xs => simp [remainderOf, jkeys, remKey, List.map_map, Function.comp_def, jsonFields_keys]

/-- Group: each key once, in order of first occurrence -/
theorem keys_group (o : Opts) (enc : Enc) (hd : o.dup = .group) (flag m : Bool) (fields : List Field) (rest : List Item)
    (hk : KeysAgree enc fields) :
    jkeys (jsonOf o enc (.obj flag m fields rest)) = firstOcc (fieldKeys enc fields) ++ remKey rest := by
  have hg := groups_firstOcc (fun x : TTok × Option Op × JVal => keyBytes x.1) (fun x => keyJson enc x.1) _
    (jsonFields o enc fields) (Nat.le_refl _) (jsonFields_agree o enc fields hk)
  rw [jsonFields_keys] at hg
  simp only [jsonOf]
  rw [objectShape_nokvp o (by simp [hd]), entriesByMode_group o enc hd]
  cases rest with
  | nil => simp [remainderOf, jkeys, remKey, List.map_map, Function.comp_def, hg]
  | cons x xs => simp [remainderOf, jkeys, remKey, List.map_map, Function.comp_def, hg]

end Jomini.Json
