import JominiModel.Spec.JsonLeaves
import JominiModel.Proofs.JsonGroup
/-
C16_scalars_preserved / C16_keys_in_order: the scalar leaves and the keys of `jsonOf n`, read off
the JSON value with `jleaves` / `jvals` / `jkeys`, are those of the document tree, read off the
tree with `dleaves` / `dvals` / `fieldKeys` (Spec/JsonLeaves.lean) — `jsonOf` appears only in these
lemmas, not in the statements of Props/C16.
-/
set_option linter.unusedSimpArgs false
set_option linter.unusedSectionVars false
namespace Jomini.Json
open Jomini Jomini.JsonSpec

/-! ### list lemmas for the leaf functions -/

theorem jleavesL_append (a b : List JVal) : jleavesL (a ++ b) = jleavesL a ++ jleavesL b := by
  induction a with
  | nil => rfl
  | cons x xs ih => simp [jleavesL, ih]

theorem jleavesO_append (a b : List (Bytes × JVal)) : jleavesO (a ++ b) = jleavesO a ++ jleavesO b := by
  induction a with
  | nil => rfl
  | cons x xs ih => obtain ⟨k, v⟩ := x; simp [jleavesO, ih]

theorem jvalsL_append (a b : List JVal) : jvalsL (a ++ b) = jvalsL a ++ jvalsL b := by
  induction a with
  | nil => rfl
  | cons x xs ih => simp [jvalsL, ih]

theorem jvalsO_append (a b : List (Bytes × JVal)) : jvalsO (a ++ b) = jvalsO a ++ jvalsO b := by
  induction a with
  | nil => rfl
  | cons x xs ih => obtain ⟨k, v⟩ := x; simp [jvalsO, ih]

/-- a JSON scalar -/
def isScalarJ : JVal → Bool
  | .arr _ | .obj _ => false
  | _ => true

theorem jleaves_scalar (v : JVal) (h : isScalarJ v = true) : jleaves v = [v] ∧ jvals v = [v] := by
  cases v <;> simp [isScalarJ] at h <;> simp [jleaves, jvals]

theorem narrowScalar_scalar (o : Opts) (enc : Enc) (q : Bool) (s : Bytes) : isScalarJ (narrowScalar o enc q s) = true := by
  have hs : isScalarJ (serializeScalar enc s) = true := by
    unfold serializeScalar
    split
    · rfl
    · split
      · rfl
      · rfl
      · split <;> rfl
      · rfl
  unfold narrowScalar
  split <;> split <;> first | exact hs | rfl

theorem jleaves_wrapOp (op : Option Op) (v : JVal) :
    jleaves (wrapOp op v) = (match op with | some x => [JVal.str x.name] | none => []) ++ jleaves v ∧
    jvals (wrapOp op v) = jvals v := by
  cases op <;> simp [wrapOp, jleaves, jleavesO, jvals, jvalsO]

/-- the JSON of one item that is not a header item -/
def itemJ (o : Opts) (enc : Enc) : Item → JVal
  | .val n => jsonOf o enc n
  | _ => .null

theorem jsonItems_map (o : Opts) (enc : Enc) (items : List Item) (h : runItems items = true) :
    jsonItems o enc items = items.map (fun x => (x.tag enc, itemJ o enc x)) := by
  induction items with
  | nil => rfl
  | cons x xs ih =>
    simp only [runItems, Bool.and_eq_true] at h
    cases x with
    | val n => simp [jsonItems, jsonItem, itemJ, ih h.2]
    | hdr s b => simp [runItem] at h
    | paramTok u s => simp [runItem] at h
    | opTok op => simp [jsonItems, jsonItem, itemJ, Item.tag, ih h.2]
    | mixedTok => simp [jsonItems, jsonItem, itemJ, Item.tag, ih h.2]

theorem tag_op (enc : Enc) (op : Op) : Item.tag enc (.opTok op) = .opT op := rfl
theorem tag_mixed (enc : Enc) : Item.tag enc .mixedTok = .mixedT := rfl
theorem tag_hdr (enc : Enc) (s : Bytes) (b : Node) : Item.tag enc (.hdr s b) = .keyT (some (decode enc s)) := rfl
theorem tag_param (enc : Enc) (u : Bool) (s : Bytes) : Item.tag enc (.paramTok u s) = .keyT (some (decode enc s)) := rfl

section Window
variable (rd : JVal → List JVal) (Rel : List JVal → List JVal → Prop)
  (hrefl : ∀ a, Rel a a) (happ : ∀ a a' b b', Rel a a' → Rel b b' → Rel (a ++ b) (a' ++ b'))
  (kp : Bytes → List JVal) (opp : Op → List JVal) (enc : Enc)
  (hobj : ∀ k op v, rd (.obj [(k, wrapOp (if op = Op.eq then none else some op) v)]) = kp k ++ opp op ++ rd v)
include hrefl happ hobj

theorem scalar_tag_key (x : Item) (h : isScalarItem x = true) : (x.tag enc).key = keyString enc x := by
  cases x with
  | val n => cases n <;> simp [isScalarItem] at h <;> rfl
  | _ => simp [isScalarItem] at h

/-- the array serializer's output, read with `rd`, is the run rule's reading of the items -/
theorem window_run (J : Item → JVal) (Lv : Item → List JVal) (items : List Item) : ∀ (s : Nat),
    (∀ x ∈ items, isValItem x = true → Rel (rd (J x)) (Lv x)) → okRun items s = true →
    Rel ((windowZ (items.map (fun x => (x.tag enc, J x))) s).flatMap rd)
        (runG kp opp enc (items.map (fun x => (x, Lv x))) s) := by
  induction items with
  | nil => intro s _ _; cases s <;> exact hrefl []
  | cons x xs ih =>
    intro s hval hok
    have hval' : ∀ y ∈ xs, isValItem y = true → Rel (rd (J y)) (Lv y) := fun y hy => hval y (by simp [hy])
    cases s with
    | succ s =>
      simp only [List.map_cons, windowZ, runG, okRun] at hok ⊢
      exact ih s hval' hok
    | zero =>
      cases x with
      | mixedTok =>
        simp only [List.map_cons, tag_op, tag_mixed, tag_hdr, tag_param, windowZ, runG, okRun] at hok ⊢
        exact ih 0 hval' hok
      | val n =>
        cases xs with
        | nil =>
          obtain ⟨k, hk⟩ : ∃ k, Item.tag enc (.val n) = ItemTag.keyT k := by cases n <;> exact ⟨_, rfl⟩
          simp only [List.map_cons, List.map_nil, hk, windowZ, runG, List.flatMap_cons, List.flatMap_nil]
          exact happ _ _ _ _ (hval _ (by simp) rfl) (hrefl [])
        | cons y ys =>
          obtain ⟨k, hk⟩ : ∃ k, Item.tag enc (.val n) = ItemTag.keyT k := by cases n <;> exact ⟨_, rfl⟩
          cases y with
          | opTok op =>
            cases ys with
            | nil => simp [okRun, isValItem] at hok
            | cons v vs =>
              simp only [okRun, Bool.and_eq_true] at hok
              have hkey := scalar_tag_key rd Rel hrefl happ kp opp enc hobj (.val n) hok.1.1
              rw [hk] at hkey
              simp only [List.map_cons, hk, tag_op, tag_mixed, tag_hdr, tag_param, windowZ, runG, List.flatMap_cons, hobj]
              rw [hkey]
              have hv := hval v (by simp) hok.1.2
              have hrec := ih 2 hval' hok.2
              simp only [List.map_cons, tag_op] at hrec
              exact happ _ _ _ _ (happ _ _ _ _ (hrefl _) hv) hrec
          | val m =>
            obtain ⟨k2, hk2⟩ : ∃ k, Item.tag enc (.val m) = ItemTag.keyT k := by cases m <;> exact ⟨_, rfl⟩
            simp only [okRun, isValItem, Bool.true_and] at hok
            have hrec := ih 0 hval' hok
            simp only [List.map_cons, hk, hk2] at hrec ⊢
            simp only [windowZ, runG, List.flatMap_cons]
            exact happ _ _ _ _ (hval _ (by simp) rfl) hrec
          | mixedTok =>
            simp only [okRun, isValItem, Bool.true_and] at hok
            have hrec := ih 0 hval' hok
            simp only [List.map_cons, hk, tag_op, tag_mixed, tag_hdr, tag_param] at hrec ⊢
            simp only [windowZ, runG, List.flatMap_cons]
            exact happ _ _ _ _ (hval _ (by simp) rfl) hrec
          | hdr s b =>
            simp only [okRun, isValItem, Bool.true_and] at hok
            have hrec := ih 0 hval' hok
            simp only [List.map_cons, hk, tag_op, tag_mixed, tag_hdr, tag_param] at hrec ⊢
            simp only [windowZ, runG, List.flatMap_cons]
            exact happ _ _ _ _ (hval _ (by simp) rfl) hrec
          | paramTok u s =>
            simp only [okRun, isValItem, Bool.true_and] at hok
            have hrec := ih 0 hval' hok
            simp only [List.map_cons, hk, tag_op, tag_mixed, tag_hdr, tag_param] at hrec ⊢
            simp only [windowZ, runG, List.flatMap_cons]
            exact happ _ _ _ _ (hval _ (by simp) rfl) hrec
      | opTok op =>
        -- a lone operator token: excluded by `okRun`
        cases xs with
        | nil => simp [okRun, isValItem] at hok
        | cons y ys =>
          cases y with
          | opTok op2 => cases ys <;> simp [okRun, isValItem, isScalarItem] at hok
          | _ => simp [okRun, isValItem] at hok
      | hdr s b =>
        cases xs with
        | nil => simp [okRun, isValItem] at hok
        | cons y ys =>
          cases y with
          | opTok op2 => cases ys <;> simp [okRun, isValItem, isScalarItem] at hok
          | _ => simp [okRun, isValItem] at hok
      | paramTok u s =>
        cases xs with
        | nil => simp [okRun, isValItem] at hok
        | cons y ys =>
          cases y with
          | opTok op2 => cases ys <;> simp [okRun, isValItem, isScalarItem] at hok
          | _ => simp [okRun, isValItem] at hok
end Window


theorem jleavesL_flatMap (xs : List JVal) : jleavesL xs = xs.flatMap jleaves := by
  induction xs with
  | nil => rfl
  | cons x r ih => simp [jleavesL, ih]

theorem jvalsL_flatMap (xs : List JVal) : jvalsL xs = xs.flatMap jvals := by
  induction xs with
  | nil => rfl
  | cons x r ih => simp [jvalsL, ih]

theorem dleavesItems_map (rm : Bool) (o : Opts) (enc : Enc) (items : List Item) :
    dleavesItems rm o enc items = items.map (fun x => (x, dleavesItem rm o enc x)) := by
  induction items with
  | nil => rfl
  | cons x xs ih => simp [dleavesItems, ih]

theorem dvalsItems_map (o : Opts) (enc : Enc) (items : List Item) :
    dvalsItems o enc items = items.map (fun x => (x, dvalsItem o enc x)) := by
  induction items with
  | nil => rfl
  | cons x xs ih => simp [dvalsItems, ih]

theorem hobj_leaves (k : Bytes) (op : Op) (v : JVal) :
    jleaves (.obj [(k, wrapOp (if op = Op.eq then none else some op) v)]) = [JVal.str k] ++ opLeaf op ++ jleaves v := by
  by_cases h : op = Op.eq
  · simp [h, wrapOp, jleaves, jleavesO, opLeaf]
  · simp [h, wrapOp, jleaves, jleavesO, opLeaf]

theorem hobj_vals (k : Bytes) (op : Op) (v : JVal) :
    jvals (.obj [(k, wrapOp (if op = Op.eq then none else some op) v)]) = ([] : List JVal) ++ [] ++ jvals v := by
  by_cases h : op = Op.eq
  · simp [h, wrapOp, jvals, jvalsO]
  · simp [h, wrapOp, jvals, jvalsO]

/-- a value list, Preserve / KeyValuePairs reading -/
theorem items_leaves (o : Opts) (enc : Enc) (rm : Bool) (items : List Item) (hr : runItems items = true)
    (hok : okRun items 0 = true)
    (hval : ∀ x ∈ items, isValItem x = true → jleaves (itemJ o enc x) = dleavesItem rm o enc x) :
    jleavesL (windowZ (jsonItems o enc items) 0) = runLeaves enc (dleavesItems rm o enc items) 0 := by
  rw [jleavesL_flatMap, jsonItems_map o enc items hr, dleavesItems_map]
  exact window_run jleaves Eq (fun _ => rfl) (fun a a' b b' h1 h2 => by rw [h1, h2])
    (fun k => [JVal.str k]) opLeaf enc hobj_leaves (itemJ o enc) (dleavesItem rm o enc) items 0 hval hok

/-- a value list, Group reading -/
theorem items_vals (o : Opts) (enc : Enc) (items : List Item) (hr : runItems items = true)
    (hok : okRun items 0 = true)
    (hval : ∀ x ∈ items, isValItem x = true → (jvals (itemJ o enc x)).Perm (dvalsItem o enc x)) :
    (jvalsL (windowZ (jsonItems o enc items) 0)).Perm (runVals enc (dvalsItems o enc items) 0) := by
  rw [jvalsL_flatMap, jsonItems_map o enc items hr, dvalsItems_map]
  exact window_run jvals List.Perm (fun _ => List.Perm.refl _) (fun a a' b b' h1 h2 => h1.append h2)
    (fun _ => []) (fun _ => []) enc hobj_vals (itemJ o enc) (dvalsItem o enc) items 0 hval hok

/-! ### the shapes by mode -/

theorem objectShape_nokvp (o : Opts) (h : o.dup ≠ .kvp) (es : List (Bytes × JVal)) (r : Option JVal) :
    objectShape o es r = .obj (match r with | none => es | some x => es ++ [(kRemainder, x)]) := by
  unfold objectShape
  cases hh : o.dup <;> cases r <;> simp_all

theorem objectShape_kvp (o : Opts) (h : o.dup = .kvp) (es : List (Bytes × JVal)) (r : Option JVal) :
    objectShape o es r = .obj [(kType, .str kObj), (kVal, .arr (match r with
      | none => es.map (fun kv => JVal.arr [.str kv.1, kv.2])
      | some x => es.map (fun kv => JVal.arr [.str kv.1, kv.2]) ++ [x]))] := by
  unfold objectShape
  rw [h]
  cases r <;> rfl

theorem entriesByMode_nogroup (o : Opts) (enc : Enc) (h : o.dup ≠ .group) (ents : List (TTok × Option Op × JVal)) :
    entriesByMode o enc ents = ents.map (fun x => (keyJson enc x.1, wrapOp x.2.1 x.2.2)) := by
  unfold entriesByMode
  cases hh : o.dup <;> simp_all

theorem arrayShape_nokvp (o : Opts) (h : o.dup ≠ .kvp) (xs : List JVal) : arrayShape o xs = .arr xs := by
  simp [arrayShape, h]

theorem arrayShape_kvp (o : Opts) (h : o.dup = .kvp) (xs : List JVal) :
    arrayShape o xs = .obj [(kType, .str kArray), (kVal, .arr xs)] := by
  simp [arrayShape, h]

/-! ### Preserve: the leaves of the JSON are the leaves of the document, in order -/

section Preserve
variable (o : Opts) (enc : Enc) (hd : o.dup = .preserve)
include hd

mutual
theorem leaves_preserve : (n : Node) → runNode n = true → jleaves (jsonOf o enc n) = dleaves true o enc n
  | .scalar q s, _ => by
    simp only [jsonOf, dleaves]
    exact (jleaves_scalar _ (narrowScalar_scalar o enc q s)).1
  | .arr m items, h => by
    simp only [runNode, Bool.and_eq_true] at h
    simp only [jsonOf, dleaves]
    rw [arrayShape_nokvp o (by simp [hd])]
    simp only [jleaves]
    exact items_leaves o enc true items h.1 h.2 (leavesItems_preserve items h.1)
  | .obj flag m fields rest, h => by
    simp only [runNode, Bool.and_eq_true] at h
    have hf := leavesFields_preserve fields h.1.1
    cases rest with
    | nil =>
      simp only [jsonOf, dleaves]
      rw [objectShape_nokvp o (by simp [hd]), entriesByMode_nogroup o enc (by simp [hd])]
      simp [remainderOf, jleaves, hf]
    | cons x xs =>
      have hr := items_leaves o enc true (x :: xs) h.1.2 h.2 (leavesItems_preserve (x :: xs) h.1.2)
      simp only [jsonOf, dleaves]
      rw [objectShape_nokvp o (by simp [hd]), entriesByMode_nogroup o enc (by simp [hd])]
      simp only [remainderOf, jleaves, jleavesO_append, jleavesO, hf, List.append_nil, if_true]
      rw [hr]; simp
  | .header s body, h => by
    simp only [runNode] at h
    simp [jsonOf, dleaves, jleaves, jleavesO, leaves_preserve body h]
theorem leavesItems_preserve : (items : List Item) → runItems items = true →
    ∀ x ∈ items, isValItem x = true → jleaves (itemJ o enc x) = dleavesItem true o enc x
  | [], _ => by intro x hx; simp at hx
  | y :: ys, h => by
    simp only [runItems, Bool.and_eq_true] at h
    intro x hx hv
    simp only [List.mem_cons] at hx
    rcases hx with hx | hx
    · subst hx
      cases x with
      | val n => simp only [runItem] at h; simpa [itemJ, dleavesItem] using leaves_preserve n h.1
      | _ => simp [isValItem] at hv
    · exact leavesItems_preserve ys h.2 x hx hv
theorem leavesFields_preserve : (fields : List Field) → runFields fields = true →
    jleavesO ((jsonFields o enc fields).map (fun x => (keyJson enc x.1, wrapOp x.2.1 x.2.2))) =
      dleavesFields true o enc fields
  | [], _ => by simp [jsonFields, jleavesO, dleavesFields]
  | .mk k op v :: fs, h => by
    simp only [runFields, runField, Bool.and_eq_true] at h
    simp [jsonFields, jsonField, jleavesO, dleavesFields, dleavesField, (jleaves_wrapOp op _).1,
      leaves_preserve v h.1, leavesFields_preserve fs h.2]
    cases op <;> rfl
end

end Preserve

/-! ### KeyValuePairs: the same, the words of the typed encoding left out on both sides -/

/-- drop the strings `type`, `obj`, `val`, `array` -/
def ft (l : List JVal) : List JVal := l.filter (fun x => !isTypedWord x)

theorem ft_append (a b : List JVal) : ft (a ++ b) = ft a ++ ft b := by simp [ft]

theorem ft_typed3 (a b c : Bytes) (ha : isTypedWord (.str a) = true) (hb : isTypedWord (.str b) = true)
    (hc : isTypedWord (.str c) = true) (l : List JVal) :
    ft (JVal.str a :: JVal.str b :: JVal.str c :: l) = ft l := by
  simp [ft, ha, hb, hc]

theorem jleavesL_pairs (es : List (Bytes × JVal)) :
    jleavesL (es.map (fun kv => JVal.arr [.str kv.1, kv.2])) = jleavesO es := by
  induction es with
  | nil => rfl
  | cons x xs ih => obtain ⟨k, v⟩ := x; simp [jleavesL, jleavesO, jleaves, ih]

theorem ft_runG (kp : Bytes → List JVal) (opp : Op → List JVal) (enc : Enc) (ds : List (Item × List JVal)) :
    ∀ (s : Nat), ft (runG kp opp enc ds s) =
      runG (fun k => ft (kp k)) (fun op => ft (opp op)) enc (ds.map (fun p => (p.1, ft p.2))) s := by
  induction ds with
  | nil => intro s; cases s <;> rfl
  | cons p rest ih =>
    intro s
    obtain ⟨x, lv⟩ := p
    cases s with
    | succ s => simp only [List.map_cons, runG]; exact ih s
    | zero =>
      cases x with
      | mixedTok => simp only [List.map_cons, runG]; exact ih 0
      | val n =>
        cases rest with
        | nil => simp [runG, ft_append]
        | cons q r2 =>
          obtain ⟨y, ly⟩ := q
          cases y with
          | opTok op =>
            cases r2 with
            | nil =>
              have := ih 0
              simp only [List.map_cons, List.map_nil, runG, ft_append] at this ⊢
              rw [this]
            | cons q3 r3 =>
              obtain ⟨v, vl⟩ := q3
              have := ih 2
              simp only [List.map_cons, runG, ft_append] at this ⊢
              rw [this]
          | _ =>
            have := ih 0
            simp only [List.map_cons, runG, ft_append] at this ⊢
            rw [this]
      | _ =>
        cases rest with
        | nil => simp [runG, ft_append]
        | cons q r2 =>
          obtain ⟨y, ly⟩ := q
          cases y with
          | opTok op =>
            cases r2 with
            | nil =>
              have := ih 0
              simp only [List.map_cons, List.map_nil, runG, ft_append] at this ⊢
              rw [this]
            | cons q3 r3 =>
              obtain ⟨v, vl⟩ := q3
              have := ih 2
              simp only [List.map_cons, runG, ft_append] at this ⊢
              rw [this]
          | _ =>
            have := ih 0
            simp only [List.map_cons, runG, ft_append] at this ⊢
            rw [this]

theorem hobj_ft (k : Bytes) (op : Op) (v : JVal) :
    ft (jleaves (.obj [(k, wrapOp (if op = Op.eq then none else some op) v)])) =
      ft [JVal.str k] ++ ft (opLeaf op) ++ ft (jleaves v) := by
  rw [hobj_leaves, ft_append, ft_append]

theorem ft_flatMap (xs : List JVal) : ft (xs.flatMap jleaves) = xs.flatMap (fun x => ft (jleaves x)) := by
  induction xs with
  | nil => rfl
  | cons x r ih => simp only [List.flatMap_cons, ft_append, ih]

/-- a value list, KeyValuePairs reading -/
theorem items_leaves_ft (o : Opts) (enc : Enc) (items : List Item) (hr : runItems items = true)
    (hok : okRun items 0 = true)
    (hval : ∀ x ∈ items, isValItem x = true → ft (jleaves (itemJ o enc x)) = ft (dleavesItem false o enc x)) :
    ft (jleavesL (windowZ (jsonItems o enc items) 0)) = ft (runLeaves enc (dleavesItems false o enc items) 0) := by
  rw [jleavesL_flatMap, ft_flatMap, jsonItems_map o enc items hr, dleavesItems_map]
  unfold runLeaves
  rw [ft_runG, List.map_map]
  exact window_run (fun x => ft (jleaves x)) Eq (fun _ => rfl) (fun a a' b b' h1 h2 => by rw [h1, h2])
    (fun k => ft [JVal.str k]) (fun op => ft (opLeaf op)) enc hobj_ft (itemJ o enc)
    (fun x => ft (dleavesItem false o enc x)) items 0 hval hok

section Kvp
variable (o : Opts) (enc : Enc) (hd : o.dup = .kvp)
include hd

mutual
theorem leaves_kvp : (n : Node) → runNode n = true →
    ft (jleaves (jsonOf o enc n)) = ft (dleaves false o enc n)
  | .scalar q s, _ => by
    simp only [jsonOf, dleaves]
    rw [(jleaves_scalar _ (narrowScalar_scalar o enc q s)).1]
  | .arr m items, h => by
    simp only [runNode, Bool.and_eq_true] at h
    simp only [jsonOf, dleaves]
    rw [arrayShape_kvp o hd]
    simp only [jleaves, jleavesO, List.append_nil, List.cons_append, List.nil_append]
    rw [ft_typed3 _ _ _ (by decide) (by decide) (by decide)]
    exact items_leaves_ft o enc items h.1 h.2 (leavesItems_kvp items h.1)
  | .obj flag m fields rest, h => by
    simp only [runNode, Bool.and_eq_true] at h
    have hf := leavesFields_kvp fields h.1.1
    cases rest with
    | nil =>
      simp only [jsonOf, dleaves]
      rw [objectShape_kvp o hd, entriesByMode_nogroup o enc (by simp [hd])]
      simp only [remainderOf, jleaves, jleavesO, List.append_nil, List.cons_append, List.nil_append]
      rw [ft_typed3 _ _ _ (by decide) (by decide) (by decide), jleavesL_pairs]
      exact hf
    | cons x xs =>
      have hr := items_leaves_ft o enc (x :: xs) h.1.2 h.2 (leavesItems_kvp (x :: xs) h.1.2)
      simp only [jsonOf, dleaves]
      rw [objectShape_kvp o hd, entriesByMode_nogroup o enc (by simp [hd])]
      simp only [remainderOf, jleaves, jleavesO, List.append_nil, List.cons_append, List.nil_append]
      rw [ft_typed3 _ _ _ (by decide) (by decide) (by decide), jleavesL_append, jleavesL_pairs]
      simp only [jleavesL, jleaves, List.append_nil, Bool.false_eq_true, if_false, List.nil_append]
      rw [ft_append, ft_append, hf, hr]
  | .header s body, h => by
    simp only [runNode] at h
    have hb := leaves_kvp body h
    simp only [jsonOf, dleaves, jleaves, jleavesO, List.append_nil]
    rw [show (JVal.str (decode enc s) :: jleaves (jsonOf o enc body)) = [JVal.str (decode enc s)] ++ jleaves (jsonOf o enc body) from rfl,
      show (JVal.str (decode enc s) :: dleaves false o enc body) = [JVal.str (decode enc s)] ++ dleaves false o enc body from rfl,
      ft_append, ft_append, hb]
theorem leavesItems_kvp : (items : List Item) → runItems items = true →
    ∀ x ∈ items, isValItem x = true → ft (jleaves (itemJ o enc x)) = ft (dleavesItem false o enc x)
  | [], _ => by intro x hx; simp at hx
  | y :: ys, h => by
    simp only [runItems, Bool.and_eq_true] at h
    intro x hx hv
    simp only [List.mem_cons] at hx
    rcases hx with hx | hx
    · subst hx
      cases x with
      | val n => simp only [runItem] at h; simpa [itemJ, dleavesItem] using leaves_kvp n h.1
      | _ => simp [isValItem] at hv
    · exact leavesItems_kvp ys h.2 x hx hv
theorem leavesFields_kvp : (fields : List Field) → runFields fields = true →
    ft (jleavesO ((jsonFields o enc fields).map (fun x => (keyJson enc x.1, wrapOp x.2.1 x.2.2)))) =
      ft (dleavesFields false o enc fields)
  | [], _ => by simp [jsonFields, jleavesO, dleavesFields]
  | .mk k op v :: fs, h => by
    simp only [runFields, runField, Bool.and_eq_true] at h
    have hv := leaves_kvp v h.1
    have hr := leavesFields_kvp fs h.2
    simp only [jsonFields, jsonField, List.map_cons, jleavesO, dleavesFields, dleavesField, (jleaves_wrapOp op _).1]
    have e1 : ∀ (A B C : List JVal) (x : JVal), x :: ((A ++ B) ++ C) = ([x] ++ A) ++ (B ++ C) := by
      intro A B C x; simp
    have e2 : ∀ (A B C : List JVal) (x : JVal), x :: (A ++ B) ++ C = ([x] ++ A) ++ (B ++ C) := by
      intro A B C x; simp
    rw [e1, e2, ft_append, ft_append, ft_append, ft_append, hv, hr]
    simp only [ft_append]
    cases op <;> rfl
end

end Kvp

/-! ### Group: the scalar values are the document's, as a multiset -/

theorem jvalsL_map_snd_wrap (l : List (TTok × Option Op × JVal)) :
    jvalsL (l.map (fun x => wrapOp x.2.1 x.2.2)) = l.flatMap (fun x => jvals x.2.2) := by
  induction l with
  | nil => rfl
  | cons x xs ih => simp [jvalsL, (jleaves_wrapOp _ _).2, ih]

theorem jvalsO_map {γ : Type} (K : γ → Bytes) (V : γ → JVal) (l : List γ) :
    jvalsO (l.map (fun g => (K g, V g))) = l.flatMap (fun g => jvals (V g)) := by
  induction l with
  | nil => rfl
  | cons g rest ih => simp only [List.map_cons, jvalsO, ih, List.flatMap_cons]

theorem flatMap_flat {α β γ : Type} (l : List γ) (mem : γ → List α) (val : α → List β) :
    (l.flatMap mem).flatMap val = l.flatMap (fun g => (mem g).flatMap val) := by
  induction l with
  | nil => rfl
  | cons g rest ih => simp only [List.flatMap_cons, List.flatMap_append, ih]

/-- the value written for one group -/
def groupVal (g : (TTok × Option Op × JVal) × List (TTok × Option Op × JVal)) : JVal :=
  match g.2 with
  | [] => wrapOp g.1.2.1 g.1.2.2
  | _ :: _ => JVal.arr ((g.1 :: g.2).map (fun x => wrapOp x.2.1 x.2.2))

theorem jvals_groupVal (g : (TTok × Option Op × JVal) × List (TTok × Option Op × JVal)) :
    jvals (groupVal g) = (g.1 :: g.2).flatMap (fun x => jvals x.2.2) := by
  obtain ⟨f, more⟩ := g
  cases more with
  | nil => simp [groupVal, (jleaves_wrapOp _ _).2]
  | cons m ms =>
    simp only [groupVal, jvals]
    exact jvalsL_map_snd_wrap (f :: m :: ms)

theorem jvalsO_groups (enc : Enc) (gs : List ((TTok × Option Op × JVal) × List (TTok × Option Op × JVal))) :
    jvalsO (gs.map (fun g => (keyJson enc g.1.1, groupVal g))) =
      (gs.flatMap (fun g => g.1 :: g.2)).flatMap (fun x => jvals x.2.2) := by
  rw [jvalsO_map, flatMap_flat]
  congr 1
  funext g
  exact jvals_groupVal g

theorem entriesByMode_group (o : Opts) (enc : Enc) (h : o.dup = .group) (ents : List (TTok × Option Op × JVal)) :
    entriesByMode o enc ents =
      (stableGroupBy (fun x : TTok × Option Op × JVal => keyBytes x.1) ents).map
        (fun g => (keyJson enc g.1.1, groupVal g)) := by
  unfold entriesByMode
  rw [h]
  rfl

section Group
variable (o : Opts) (enc : Enc) (hd : o.dup = .group)
include hd

mutual
theorem vals_group : (n : Node) → runNode n = true → (jvals (jsonOf o enc n)).Perm (dvals o enc n)
  | .scalar q s, _ => by
    simp only [jsonOf, dvals]
    rw [(jleaves_scalar _ (narrowScalar_scalar o enc q s)).2]
  | .arr m items, h => by
    simp only [runNode, Bool.and_eq_true] at h
    simp only [jsonOf, dvals]
    rw [arrayShape_nokvp o (by simp [hd])]
    simp only [jvals]
    exact items_vals o enc items h.1 h.2 (valsItems_group items h.1)
  | .obj flag m fields rest, h => by
    simp only [runNode, Bool.and_eq_true] at h
    have hf := valsFields_group fields h.1.1
    have hes : (jvalsO (entriesByMode o enc (jsonFields o enc fields))).Perm (dvalsFields o enc fields) := by
      rw [entriesByMode_group o enc hd, jvalsO_groups]
      exact ((stableGroupBy_perm _ _ _ (Nat.le_refl _)).flatMap_right _).trans hf
    cases rest with
    | nil =>
      simp only [jsonOf, dvals]
      rw [objectShape_nokvp o (by simp [hd])]
      simpa [remainderOf, jvals, dvalsItems, runVals, runG] using hes
    | cons x xs =>
      have hr := items_vals o enc (x :: xs) h.1.2 h.2 (valsItems_group (x :: xs) h.1.2)
      simp only [jsonOf, dvals]
      rw [objectShape_nokvp o (by simp [hd])]
      simp only [remainderOf, jvals, jvalsO_append, jvalsO, List.append_nil]
      exact hes.append hr
  | .header s body, h => by
    simp only [runNode] at h
    simpa [jsonOf, dvals, jvals, jvalsO] using vals_group body h
theorem valsItems_group : (items : List Item) → runItems items = true →
    ∀ x ∈ items, isValItem x = true → (jvals (itemJ o enc x)).Perm (dvalsItem o enc x)
  | [], _ => by intro x hx; simp at hx
  | y :: ys, h => by
    simp only [runItems, Bool.and_eq_true] at h
    intro x hx hv
    simp only [List.mem_cons] at hx
    rcases hx with hx | hx
    · subst hx
      cases x with
      | val n => simp only [runItem] at h; simpa [itemJ, dvalsItem] using vals_group n h.1
      | _ => simp [isValItem] at hv
    · exact valsItems_group ys h.2 x hx hv
theorem valsFields_group : (fields : List Field) → runFields fields = true →
    ((jsonFields o enc fields).flatMap (fun x => jvals x.2.2)).Perm (dvalsFields o enc fields)
  | [], _ => by simp [jsonFields, dvalsFields]
  | .mk k op v :: fs, h => by
    simp only [runFields, runField, Bool.and_eq_true] at h
    simp only [jsonFields, jsonField, List.flatMap_cons, dvalsFields, dvalsField]
    exact (vals_group v h.1).append (valsFields_group fs h.2)
end

end Group

/-! ### keys in order -/

theorem mem_firstOcc (l : List Bytes) : ∀ x ∈ firstOcc l, x ∈ l := by
  induction l with
  | nil => intro x hx; simp [firstOcc] at hx
  | cons k ks ih =>
    intro x hx
    simp only [firstOcc, List.mem_cons, List.mem_filter] at hx
    rcases hx with hx | hx
    · simp [hx]
    · simp [ih x hx.1]

theorem firstOcc_filter (p : Bytes → Bool) (l : List Bytes) : (firstOcc l).filter p = firstOcc (l.filter p) := by
  induction l with
  | nil => rfl
  | cons k ks ih =>
    simp only [firstOcc, List.filter_cons]
    by_cases hp : p k = true
    · simp only [hp, if_true, firstOcc]
      rw [List.filter_filter, ← ih, List.filter_filter]
      congr 1
      apply List.filter_congr
      intro x _
      exact Bool.and_comm _ _
    · simp only [hp, Bool.false_eq_true, if_false]
      rw [List.filter_filter, ← ih]
      apply List.filter_congr
      intro x hx
      by_cases hxk : x = k
      · subst hxk; simp [hp]
      · simp [hxk]

theorem groups_firstOcc {α : Type} (key key' : α → Bytes) (n : Nat) : ∀ (l : List α), l.length ≤ n →
    (∀ a ∈ l, ∀ b ∈ l, (key a = key b ↔ key' a = key' b)) →
    (stableGroupBy key l).map (fun g => key' g.1) = firstOcc (l.map key') := by
  induction n with
  | zero =>
    intro l h _
    have : l = [] := List.eq_nil_of_length_eq_zero (by omega)
    subst this; rfl
  | succ n ih =>
    intro l h hag
    cases l with
    | nil => rfl
    | cons x xs =>
      have hle : (xs.filter (fun y => !decide (key y = key x))).length ≤ n := by
        have := List.length_filter_le (fun y => !decide (key y = key x)) xs
        simp only [List.length_cons] at h; omega
      have hag' : ∀ a ∈ xs.filter (fun y => !decide (key y = key x)), ∀ b ∈ xs.filter (fun y => !decide (key y = key x)),
          (key a = key b ↔ key' a = key' b) := by
        intro a ha b hb
        exact hag a (by simp [(List.mem_filter.mp ha).1]) b (by simp [(List.mem_filter.mp hb).1])
      rw [stableGroupBy_cons]
      simp only [List.map_cons, firstOcc]
      rw [ih _ hle hag', firstOcc_filter, List.filter_map]
      congr 3
      apply List.filter_congr
      intro y hy
      have := hag y (by simp [hy]) x (by simp)
      simp only [Function.comp_apply]
      by_cases hk : key y = key x
      · simp [hk, this.mp hk]
      · have : ¬ key' y = key' x := fun h' => hk (this.mpr h')
        simp [hk, this]

theorem jsonFields_keys (o : Opts) (enc : Enc) (fields : List Field) :
    (jsonFields o enc fields).map (fun x => keyJson enc x.1) = fieldKeys enc fields := by
  induction fields with
  | nil => rfl
  | cons f fs ih => cases f with | mk k op v => simp [jsonFields, jsonField, fieldKeys, ih]

theorem jsonFields_agree (o : Opts) (enc : Enc) (fields : List Field) (h : KeysAgree enc fields) :
    ∀ a ∈ jsonFields o enc fields, ∀ b ∈ jsonFields o enc fields,
      (keyBytes a.1 = keyBytes b.1 ↔ keyJson enc a.1 = keyJson enc b.1) := by
  have hmem : ∀ a ∈ jsonFields o enc fields, ∃ f ∈ fields, match f with | .mk k _ _ => k = a.1 := by
    induction fields with
    | nil => intro a ha; simp [jsonFields] at ha
    | cons f fs ih =>
      intro a ha
      cases f with
      | mk k op v =>
        simp only [jsonFields, jsonField, List.mem_cons] at ha
        rcases ha with ha | ha
        · exact ⟨.mk k op v, by simp, by rw [ha]⟩
        · obtain ⟨f', hf', hk⟩ := ih (fun f hf g hg => h f (by simp [hf]) g (by simp [hg])) a ha
          exact ⟨f', by simp [hf'], hk⟩
  intro a ha b hb
  obtain ⟨f, hf, hfk⟩ := hmem a ha
  obtain ⟨g, hg, hgk⟩ := hmem b hb
  have := h f hf g hg
  cases f with
  | mk k _ _ =>
    cases g with
    | mk k' _ _ =>
      simp only at hfk hgk this
      rw [← hfk, ← hgk]; exact this

/-- Preserve: the keys of the JSON object of ANY document object are its fields' keys in document
order (duplicates kept), then `"remainder"` if it has a trailing array part -/
theorem keys_preserve (o : Opts) (enc : Enc) (hd : o.dup = .preserve) (flag m : Bool) (fields : List Field) (rest : List Item) :
    jkeys (jsonOf o enc (.obj flag m fields rest)) = fieldKeys enc fields ++ remKey rest := by
  simp only [jsonOf]
  rw [objectShape_nokvp o (by simp [hd]), entriesByMode_nogroup o enc (by simp [hd])]
  cases rest with
  | nil => simp [remainderOf, jkeys, remKey, List.map_map, Function.comp_def, jsonFields_keys]
  | cons x xs => simp [remainderOf, jkeys, remKey, List.map_map, Function.comp_def, jsonFields_keys]

/-- Group: each key once, in order of first occurrence -/
theorem keys_group (o : Opts) (enc : Enc) (hd : o.dup = .group) (flag m : Bool) (fields : List Field) (rest : List Item)
    (hk : KeysAgree enc fields) :
    jkeys (jsonOf o enc (.obj flag m fields rest)) = firstOcc (fieldKeys enc fields) ++ remKey rest := by
  have hg := groups_firstOcc (fun x : TTok × Option Op × JVal => keyBytes x.1) (fun x => keyJson enc x.1) _
    (jsonFields o enc fields) (Nat.le_refl _) (jsonFields_agree o enc fields hk)
  rw [jsonFields_keys] at hg
  simp only [jsonOf]
  rw [objectShape_nokvp o (by simp [hd]), entriesByMode_group o enc hd]
  cases rest with
  | nil => simp [remainderOf, jkeys, remKey, List.map_map, Function.comp_def, hg]
  | cons x xs => simp [remainderOf, jkeys, remKey, List.map_map, Function.comp_def, hg]

/-! ### a rich instance (used by the `example`s of Props/C16) -/

/-- `name = "Jåhk" core = a core = b color = rgb { 1 2 } levels = { 10 0 = 2 x > y }
nested = { k = { yes } k = v }`: a non-ASCII string, a duplicate key at two levels, a header as a
field value, an array that turns into a key-value list (with its `MixedContainer` marker), nested
objects and arrays -/
def richNode : Node :=
  .obj false false
    [.mk (.unquoted [110, 97, 109, 101]) none (.scalar true [74, 195, 165, 104, 107]),
     .mk (.unquoted [99, 111, 114, 101]) none (.scalar false [97]),
     .mk (.unquoted [99, 111, 114, 101]) none (.scalar false [98]),
     .mk (.unquoted [99, 111, 108, 111, 114]) none
       (.header [114, 103, 98] (.arr false [.val (.scalar false [49]), .val (.scalar false [50])])),
     .mk (.unquoted [108, 101, 118, 101, 108, 115]) none
       (.arr true [.val (.scalar false [49, 48]), .mixedTok, .val (.scalar false [48]), .opTok .eq,
         .val (.scalar false [50]), .val (.scalar false [120]), .opTok .gt, .val (.scalar false [121])]),
     .mk (.unquoted [110, 101, 115, 116, 101, 100]) none
       (.obj false false
         [.mk (.unquoted [107]) none (.arr false [.val (.scalar false [121, 101, 115])]),
          .mk (.unquoted [107]) none (.scalar false [118])] [])] []

def richDoc : Doc :=
  ⟨match richNode with | .obj _ _ fields _ => fields | _ => [], false, []⟩

end Jomini.Json
