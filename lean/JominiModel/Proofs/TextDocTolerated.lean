import JominiModel.Proofs.TextDocFullContent
/-
C01, the tolerated malformations outside the document type `FFields`: what exactly the parser
does with
* a stray `}` / `]` at top level (skipped without trace: `tolerated_stray_close`),
* a missing last `}` (the one open top-level object is closed by the end of the input:
  `tolerated_missing_close`; two missing closers are an error),
* `]` where `}` is expected and vice versa (the same token in Key state: `tolerated_closer`),
* `[` / `]` inside an array (one-byte unquoted scalars: `tolerated_bracket_in_array`, so a parameter
  block written as an array element is a run of scalars).
-/
namespace Jomini.TextTape
open Jomini

/-- the first token of a field list is never a container -/
theorem ftapeF_zero : ∀ (fs : FFields) (b : Nat) (a : Bytes) (e : Nat) (m : Bool),
    (ftapeF fs b a)[0]? ≠ some (.array e m) ∧ (ftapeF fs b a)[0]? ≠ some (.object e m)
  | .nil, _, _, _, _ => by simp [ftapeF]
  | .cons _ k _ _ _ _, _, _, e, m => by
    simp only [ftapeF, List.append_assoc, List.singleton_append, List.getElem?_cons_zero]
    exact k.tok_plain _ e m
  | .consImp _ k _ _, _, _, e, m => by
    simp only [ftapeF, List.append_assoc, List.singleton_append, List.getElem?_cons_zero]
    exact k.tok_plain _ e m
  | .ghost _ _ rest, b, a, e, m => by simp only [ftapeF]; exact ftapeF_zero rest b a e m
  | .consHdr _ k _ _ _ _ _ _, _, _, e, m => by
    simp only [ftapeF, List.append_assoc, List.singleton_append, List.getElem?_cons_zero]
    exact k.tok_plain _ e m
  | .paramVal _ isU _ _ _ _ _, _, _, e, m => by
    simp only [ftapeF, List.cons_append, List.getElem?_cons_zero]
    exact paramTok_plain _ _ e m
  | .paramObj _ isU _ _ _ _ _ _ _ _ _, _, _, e, m => by
    simp only [ftapeF, List.cons_append, List.getElem?_cons_zero]
    exact paramTok_plain _ _ e m
  | .paramHdr _ isU _ _ _ _ _ _, _, _, e, m => by
    simp only [ftapeF, List.cons_append, List.getElem?_cons_zero]
    exact paramTok_plain _ _ e m

/-- the context of the top level after a field list has been read from the initial state -/
theorem ctx_top (T : List Tok)
    (hz : ∀ e m, T[0]? ≠ some (.array e m) ∧ T[0]? ≠ some (.object e m)) :
    Ctx3 ⟨.key, false, 0, T⟩ :=
  ⟨rfl, hz, .inr rfl, by simpa using closeState_plain hz⟩

/-- Key state at top level sees `}` or `]`: an extraneous closer, skipped -/
theorem step_key_stray {n : Nat} {T : List Tok} {g X : Bytes} {c : UInt8}
    (hz : ∀ e m, T[0]? ≠ some (.array e m) ∧ T[0]? ≠ some (.object e m))
    (hg : Blank g) (hc : c = 125 ∨ c = 93) :
    step n ⟨.key, false, 0, T⟩ (g ++ c :: X) = .cont ⟨.key, false, 0, T⟩ X := by
  have hcs : closeState T[0]? = (false, .key) := closeState_plain hz
  have he : endOf T[0]? = 0 := by
    cases h : T[0]? with
    | none => rfl
    | some t =>
      cases t <;> simp [endOf]
      · exact absurd h (hz _ _).1
      · exact absurd h (hz _ _).2
  rcases hc with rfl | rfl
  · simp only [step, skipWs_blank hg, skipWs_cons X blank_close (by decide), stepAt]
    simp [stepKey, he, hcs]
  · simp only [step, skipWs_blank hg, skipWs_cons X blank_rbr (by decide), stepAt]
    simp [stepKey, he, hcs]

/-- **a stray `}` (or `]`) at top level** between two field lists leaves no trace: the tape is
the tape of the first list followed by the tape of the second -/
theorem tolerated_stray_close (fs1 fs2 : FFields) (g gt : Bytes) (c : UInt8) (hc : c = 125 ∨ c = 93)
    (hg : Blank g) (hgt : Blank gt)
    (hv1 : FValidF fs1 (g ++ c :: (frenderF fs2 ++ gt))) (hv2 : FValidF fs2 gt)
    (hb : hasBom (frenderF fs1 ++ (g ++ c :: (frenderF fs2 ++ gt))) = false) :
    parse (frenderF fs1 ++ (g ++ c :: (frenderF fs2 ++ gt))) =
      .ok (ftapeF fs1 0 (g ++ c :: (frenderF fs2 ++ gt)) ++ ftapeF fs2 (fcntF fs1) gt) false := by
  have h1 := fstepsF_le fs1 _ hv1
  have h2 := fstepsF_le fs2 _ hv2
  unfold parse
  simp only [hb, Bool.false_eq_true, if_false]
  have hf : fuelFor (frenderF fs1 ++ (g ++ c :: (frenderF fs2 ++ gt))) =
      ((((2 * (frenderF fs1 ++ (g ++ c :: (frenderF fs2 ++ gt))).length + 2 - fstepsF fs1 - fstepsF fs2) + 1) +
        fstepsF fs2) + 1) + fstepsF fs1 := by
    simp only [fuelFor, List.length_append, List.length_cons]; omega
  rw [hf, frun_F _ fs1 _ _ St.init hv1 rfl ⟨rfl, by simp [St.init], .inr rfl, by simp [St.init, closeState]⟩]
  have hs1 : ({ St.init with tape := St.init.tape ++ ftapeF fs1 St.init.tape.length (g ++ c :: (frenderF fs2 ++ gt)) } : St) =
      ⟨.key, false, 0, ftapeF fs1 0 (g ++ c :: (frenderF fs2 ++ gt))⟩ := by simp [St.init]
  rw [hs1, run_cont (step_key_stray (ftapeF_zero fs1 0 _) hg hc)]
  rw [frun_F _ fs2 gt _ _ hv2 rfl (ctx_top _ (ftapeF_zero fs1 0 _))]
  have hsk : skipWs gt = none := by
    have := skipWs_blank hgt []
    simpa [skipWs, skipWsAux] using this
  simp [run, step, hsk, atEof, Res.withBom, len_ftapeF]

/-- **`]` for `}` and `}` for `]`**: in Key state (where objects and parameter blocks are closed)
the two bytes are one and the same token -/
theorem tolerated_closer (st : St) (rest : Bytes) : stepKey st (93 :: rest) = stepKey st (125 :: rest) := by
  simp [stepKey]

theorem splitAtScalar_boundary {c : UInt8} (hc : isBoundary c = true) (rest : Bytes) :
    splitAtScalar (c :: rest) = some ([c], rest) := by
  rw [splitAtScalar_eq_fallback sse_eq_tab]
  simp [splitAtScalarFallback, splitAtChecked, findFirst, hc]

/-- **`[` / `]` inside an array** are one-byte unquoted scalars (a parameter block written as an
array element, `{ 1 [[p] v] }`, is the run of scalars `[`, `[`, `p`, `]`, `v`, `]`) -/
theorem tolerated_bracket_in_array {n : Nat} {st : St} {g X : Bytes} {c : UInt8}
    (hst : st.state = .arrayValue) (hg : Blank g) (hc : c = 91 ∨ c = 93) :
    step n st (g ++ c :: X) =
      .cont { st with tape := st.tape ++ [.unquoted ⟨(c :: X).length, [c]⟩] } X := by
  rcases hc with rfl | rfl
  · have hs := splitAtScalar_boundary (c := 91) (by decide +kernel) X
    simp only [step, skipWs_blank hg, skipWs_cons X blank_open_br (by decide), stepAt, hst]
    simp [stepArrayValue, parseScalarTok, hs, hst]
  · have hs := splitAtScalar_boundary (c := 93) (by decide +kernel) X
    simp only [step, skipWs_blank hg, skipWs_cons X blank_rbr (by decide), stepAt, hst]
    simp [stepArrayValue, parseScalarTok, hs, hst]

theorem zero_append_plain (P R : List Tok) (t : Tok)
    (hP : ∀ e m, P[0]? ≠ some (.array e m) ∧ P[0]? ≠ some (.object e m))
    (ht : ∀ e m, some t ≠ some (Tok.array e m) ∧ some t ≠ some (Tok.object e m)) :
    ∀ e m, (P ++ t :: R)[0]? ≠ some (.array e m) ∧ (P ++ t :: R)[0]? ≠ some (.object e m) := by
  intro e m
  cases P with
  | nil => simpa using ht e m
  | cons x P' => simpa using hP e m

/-- **a missing last `}`**: fields `pre`, then `key op { first rest` and the end of the input —
the one open top-level object is closed by the end of the input: its `Object` token gets the
`end` of the tape, flag `false`, and the `End` token is appended.  (The tape is the one of the
document with the `}` written, up to the scalar positions.) -/
theorem tolerated_missing_close (pre : FFields) (g0 : Bytes) (k : Scal) (g1 : Bytes) (o : Op) (gv g0' : Bytes)
    (first : FFirst) (rest : FFields) (gt : Bytes)
    (h0 : Blank g0) (h1 : Blank g1) (hgv : Blank gv) (h0' : Blank g0') (hgt : Blank gt)
    (hk : k.ValidX) (hkb : k.quoted = false → StartsBoundary (g1 ++ o.text))
    (hvp : FValidF pre (g0 ++ (k.text ++ (g1 ++ (o.text ++ (gv ++ 123 :: (g0' ++ (frenderFirst first ++
      (frenderF rest ++ gt)))))))))
    (hvf : FValidFirst first (frenderF rest ++ gt)) (hvr : FValidF rest gt)
    (hb : hasBom (frenderF pre ++ (g0 ++ (k.text ++ (g1 ++ (o.text ++ (gv ++ 123 :: (g0' ++ (frenderFirst first ++
      (frenderF rest ++ gt))))))))) = false) :
    parse (frenderF pre ++ (g0 ++ (k.text ++ (g1 ++ (o.text ++ (gv ++ 123 :: (g0' ++ (frenderFirst first ++
      (frenderF rest ++ gt))))))))) =
      .ok (ftapeF pre 0 (g0 ++ (k.text ++ (g1 ++ (o.text ++ (gv ++ 123 :: (g0' ++ (frenderFirst first ++
            (frenderF rest ++ gt)))))))) ++
          (k.tok (g1 ++ (o.text ++ (gv ++ 123 :: (g0' ++ (frenderFirst first ++ (frenderF rest ++ gt)))))) :: o.toks) ++
          Tok.object (fcntF pre + 1 + o.toks.length + 1 + fcntFirst first + fcntF rest) false ::
            (ftapeFirst first (fcntF pre + 1 + o.toks.length + 1) (frenderF rest ++ gt) ++
              ftapeF rest (fcntF pre + 1 + o.toks.length + 1 + fcntFirst first) gt) ++
          [Tok.endTok (fcntF pre + 1 + o.toks.length)]) false := by
  have hs1 := fstepsF_le pre _ hvp
  have hs2 := fstepsFirst_le first _ hvf
  have hs3 := fstepsF_le rest _ hvr
  have hkp := hk.text_pos
  have hop := o.text_pos
  unfold parse
  simp only [hb, Bool.false_eq_true, if_false]
  generalize hA : g0 ++ (k.text ++ (g1 ++ (o.text ++ (gv ++ 123 :: (g0' ++ (frenderFirst first ++
      (frenderF rest ++ gt))))))) = A at hvp ⊢
  have hAlen : A.length = g0.length + (k.text.length + (g1.length + (o.text.length + (gv.length +
      (1 + (g0'.length + ((frenderFirst first).length + ((frenderF rest).length + gt.length)))))))) := by
    rw [← hA]; simp only [List.length_append, List.length_cons]; omega
  have hf : fuelFor (frenderF pre ++ A) =
      (((((((2 * (frenderF pre ++ A).length + 3 - fstepsF pre - fstepsFirst first - fstepsF rest - 3) + 1) +
        fstepsF rest) + fstepsFirst first) + 1) + 1) + 1) + fstepsF pre := by
    simp only [fuelFor, List.length_append, hAlen]; omega
  rw [hf, frun_F _ pre A _ St.init hvp rfl ⟨rfl, by simp [St.init], .inr rfl, by simp [St.init, closeState]⟩]
  have hs : ({ St.init with tape := St.init.tape ++ ftapeF pre St.init.tape.length A } : St) =
      ⟨.key, false, 0, ftapeF pre 0 A⟩ := by simp [St.init]
  rw [hs, ← hA]
  have hkX : k.quoted = false → StartsBoundary (g1 ++ (o.text ++ (gv ++ 123 :: (g0' ++ (frenderFirst first ++
      (frenderF rest ++ gt)))))) := by
    intro hq
    rcases hkb hq with h | ⟨c, r, h, hc'⟩
    · have : o.text ≠ [] := by cases o <;> simp [Op.text]
      simp at h; exact absurd h.2 this
    · refine .inr ⟨c, r ++ (gv ++ 123 :: (g0' ++ (frenderFirst first ++ (frenderF rest ++ gt)))), ?_, hc'⟩
      rw [← List.append_assoc g1, h]; simp
  rw [run_cont (step_key_scalX rfl h0 hk hkX)]
  rw [run_cont (step_kvs_op (by simp) (by simp) h1 (head_open _ hgv))]
  rw [run_cont (step_open (.inl rfl) hgv)]
  rw [hA]
  generalize hT : ftapeF pre 0 A ++ [k.tok (g1 ++ (o.text ++ (gv ++ 123 :: (g0' ++ (frenderFirst first ++
      (frenderF rest ++ gt))))))] ++ o.toks = T
  have hTne : T ≠ [] := by rw [← hT]; simp
  have hTz : ∀ e m, T[0]? ≠ some (.array e m) ∧ T[0]? ≠ some (.object e m) := by
    rw [← hT, List.append_assoc, List.singleton_append]
    exact zero_append_plain _ _ _ (ftapeF_zero pre 0 A) (k.tok_plain _)
  have hTlen : T.length = fcntF pre + 1 + o.toks.length := by
    rw [← hT]; simp only [List.length_append, List.length_cons, List.length_nil, len_ftapeF]
  simp only
  rw [frun_First _ first (frenderF rest ++ gt) _ T 0 g0' hvf h0' hTne hTz]
  rw [frun_F _ rest gt _ _ hvr rfl (ctx_inner hTne hTz (.object 0 false) _ .key rfl)]
  have hsk : skipWs gt = none := by
    have := skipWs_blank hgt []
    simpa [skipWs, skipWsAux] using this
  have hTpos : T.length ≠ 0 := by
    intro h0; exact hTne (List.length_eq_zero_iff.1 h0)
  have hget : (T ++ Tok.object 0 false :: ftapeFirst first (T.length + 1) (frenderF rest ++ gt) ++
      ftapeF rest (T ++ Tok.object 0 false :: ftapeFirst first (T.length + 1) (frenderF rest ++ gt)).length gt)[T.length]? =
      some (Tok.object 0 false) := by
    rw [List.append_assoc, List.getElem?_append_right (Nat.le_refl _)]; simp
  simp only [run, step, hsk, atEof, reduceCtorEq, not_false_eq_true, ne_eq, not_true_eq_false, if_false, hTpos, hget,
    endOf, if_true, setTok]
  have hlt : T.length < (T ++ Tok.object 0 false :: ftapeFirst first (T.length + 1) (frenderF rest ++ gt) ++
      ftapeF rest (T ++ Tok.object 0 false :: ftapeFirst first (T.length + 1) (frenderF rest ++ gt)).length gt ++
      [Tok.endTok T.length]).length := by simp <;> omega
  simp only [hlt, if_true, Res.withBom, Res.ok.injEq, and_true]
  rw [List.append_assoc, List.append_assoc, List.set_append_right _ _ (Nat.le_refl _)]
  simp only [Nat.sub_self, List.cons_append, List.set_cons_zero, List.length_append, List.length_cons, len_ftapeFirst,
    len_ftapeF, hTlen, ← hT, List.append_assoc, List.singleton_append, List.nil_append]
  simp only [Nat.add_assoc, Nat.add_comm, Nat.add_left_comm]

end Jomini.TextTape
