import JominiModel.Spec.Dom
/-
Helper lemmas for C17_groups: `FieldGroupsIter` (association-list model) is the stable
group-by-key of the field list.  Pure list reasoning.
-/
namespace Jomini.Dom
open Jomini

theorem lookup_enter (m : KeyMap) (k' k : Bytes) (ov : OpValue) :
    (m.enter k' ov).lookup k =
      if k' = k then (match m.lookup k with | none => some [] | some vs => some (vs ++ [ov]))
      else m.lookup k := by
  induction m with
  | nil => simp [KeyMap.enter, KeyMap.lookup]
  | cons p rest ih =>
    obtain ⟨k0, vs0⟩ := p
    by_cases h0 : k0 = k' <;> by_cases h1 : k' = k <;> simp_all [KeyMap.enter, KeyMap.lookup]

theorem lookup_erase (m : KeyMap) (k' k : Bytes) :
    (m.erase k').lookup k = if k' = k then none else m.lookup k := by
  induction m with
  | nil => simp [KeyMap.erase, KeyMap.lookup]
  | cons p rest ih =>
    obtain ⟨k0, vs0⟩ := p
    simp only [KeyMap.erase] at ih
    by_cases h0 : k0 = k' <;> by_cases h1 : k' = k <;> simp_all [KeyMap.erase, KeyMap.lookup]

def tailOpt : List OpValue → Option (List OpValue)
  | [] => none
  | _ :: os => some os

theorem occ_cons (k : Bytes) (f : Field) (fs : List Field) :
    occ k (f :: fs) = if f.keyBytes = k then f.ov :: occ k fs else occ k fs := by
  simp only [occ, List.filter_cons]
  by_cases h : f.keyBytes = k <;> simp [h]

theorem lookup_buildMap (fs : List Field) : ∀ (m : KeyMap) (k : Bytes),
    (buildMap fs m).lookup k =
      match m.lookup k with
      | none => tailOpt (occ k fs)
      | some vs => some (vs ++ occ k fs) := by
  induction fs with
  | nil => intro m k; cases h : m.lookup k <;> simp [buildMap, occ, tailOpt, h]
  | cons f fs ih =>
    intro m k
    rw [buildMap, ih, lookup_enter, occ_cons]
    by_cases hk : f.keyBytes = k
    · cases h : m.lookup k <;> simp [hk, tailOpt]
    · cases h : m.lookup k <;> simp [hk]


theorem firsts_not_seen : ∀ (fs : List Field) (seen : List Bytes) (g : Field),
    g ∈ firsts fs seen → g.keyBytes ∉ seen ∧ g ∈ fs := by
  intro fs
  induction fs with
  | nil => intro seen g h; simp [firsts] at h
  | cons f fs ih =>
    intro seen g h
    rw [firsts] at h
    by_cases hs : f.keyBytes ∈ seen
    · simp only [hs, if_true] at h
      have := ih seen g h
      exact ⟨this.1, List.mem_cons_of_mem _ this.2⟩
    · simp only [hs, if_false] at h
      rcases List.mem_cons.mp h with rfl | h
      · exact ⟨hs, List.mem_cons_self⟩
      · have := ih _ g h
        exact ⟨fun hc => this.1 (List.mem_cons_of_mem _ hc), List.mem_cons_of_mem _ this.2⟩


theorem groupsIter_spec : ∀ (fs : List Field) (m : KeyMap) (seen : List Bytes),
    (∀ k, m.lookup k = if k ∈ seen then none else tailOpt (occ k fs)) →
    (groupsIter fs m).map groupOut = (firsts fs seen).map (fun f => (f, occ f.keyBytes fs)) := by
  intro fs
  induction fs with
  | nil => intro m seen _; simp [groupsIter, firsts]
  | cons f fs ih =>
    intro m seen hm
    rw [groupsIter, firsts]
    by_cases hs : f.keyBytes ∈ seen
    · have hl : m.lookup f.keyBytes = none := by rw [hm]; simp [hs]
      simp only [hl, hs, if_true]
      rw [ih m seen]
      · apply List.map_congr_left
        intro g hg
        have hg' := (firsts_not_seen fs seen g hg).1
        have : f.keyBytes ≠ g.keyBytes := fun hc => hg' (hc ▸ hs)
        simp [occ_cons, this]
      · intro k
        rw [hm k]
        by_cases hk : k ∈ seen
        · simp [hk]
        · have : f.keyBytes ≠ k := fun hc => hk (hc ▸ hs)
          simp [hk, occ_cons, this]
    · have hl : m.lookup f.keyBytes = some (occ f.keyBytes fs) := by
        rw [hm]; simp [hs, occ_cons, tailOpt]
      simp only [hl, hs, if_false, List.map_cons]
      congr 1
      · cases hocc : occ f.keyBytes fs <;> simp [groupOut, GroupEntry.toList, occ_cons, hocc]
      · rw [ih (m.erase f.keyBytes) (f.keyBytes :: seen)]
        · apply List.map_congr_left
          intro g hg
          have hg' := (firsts_not_seen fs _ g hg).1
          have : f.keyBytes ≠ g.keyBytes := fun hc => hg' (by simp [hc])
          simp [occ_cons, this]
        · intro k
          rw [lookup_erase, hm k]
          by_cases hk : f.keyBytes = k
          · simp [hk]
          · have hk' : ¬ k = f.keyBytes := fun hc => hk hc.symm
            simp [hk, hk', occ_cons]

theorem fieldGroups_eq_groupBy (fs : List Field) :
    (groupsIter fs (buildMap fs [])).map groupOut = groupBy fs := by
  unfold groupBy
  apply groupsIter_spec
  intro k
  rw [lookup_buildMap]
  simp [KeyMap.lookup]


def keysOf (m : KeyMap) : List Bytes := m.map (·.1)

theorem enter_keys (m : KeyMap) (k : Bytes) (ov : OpValue) :
    (∀ k', k' ∈ keysOf (m.enter k ov) ↔ (k' = k ∨ k' ∈ keysOf m)) ∧
    (m.enter k ov).length = if k ∈ keysOf m then m.length else m.length + 1 := by
  induction m with
  | nil => simp [KeyMap.enter, keysOf]
  | cons p rest ih =>
    obtain ⟨k0, vs0⟩ := p
    by_cases h0 : k0 = k
    · subst h0
      simp [KeyMap.enter, keysOf]
    · have hne : ¬ k = k0 := fun hc => h0 hc.symm
      simp only [KeyMap.enter, h0, if_false]
      constructor
      · intro k'
        have := ih.1 k'
        simp only [keysOf, List.map_cons, List.mem_cons] at this ⊢
        rw [this]
        constructor
        · rintro (h | h | h) <;> simp [h]
        · rintro (h | h | h) <;> simp [h]
      · have := ih.2
        simp only [keysOf, List.map_cons, List.mem_cons, List.length_cons, hne, false_or] at this ⊢
        rw [this]
        split <;> simp_all

theorem firsts_congr : ∀ (fs : List Field) (s1 s2 : List Bytes), (∀ k, k ∈ s1 ↔ k ∈ s2) →
    firsts fs s1 = firsts fs s2 := by
  intro fs
  induction fs with
  | nil => intros; rfl
  | cons f fs ih =>
    intro s1 s2 h
    rw [firsts, firsts]
    by_cases h1 : f.keyBytes ∈ s1
    · have h2 := (h _).mp h1
      simp only [h1, h2, if_true]
      exact ih s1 s2 h
    · have h2 : f.keyBytes ∉ s2 := fun hc => h1 ((h _).mpr hc)
      simp only [h1, h2, if_false]
      congr 1
      apply ih
      intro k
      simp [h k]

theorem buildMap_length : ∀ (fs : List Field) (m : KeyMap),
    (buildMap fs m).length = m.length + (firsts fs (keysOf m)).length := by
  intro fs
  induction fs with
  | nil => intro m; simp [buildMap, firsts]
  | cons f fs ih =>
    intro m
    rw [buildMap, ih, firsts]
    have he := enter_keys m f.keyBytes f.ov
    by_cases hk : f.keyBytes ∈ keysOf m
    · simp only [hk, if_true, he.2]
      congr 2
      apply firsts_congr
      intro k'
      rw [he.1 k']
      constructor
      · rintro (h | h)
        · exact h ▸ hk
        · exact h
      · exact Or.inr
    · simp only [hk, if_false, he.2, List.length_cons]
      have : firsts fs (keysOf (m.enter f.keyBytes f.ov)) = firsts fs (f.keyBytes :: keysOf m) := by
        apply firsts_congr
        intro k'
        rw [he.1 k']
        simp
      rw [this]
      omega

theorem fieldGroups_len (fs : List Field) :
    (buildMap fs []).len = (groupBy fs).length := by
  simp [KeyMap.len, buildMap_length, groupBy, keysOf]

theorem flatMap_congr' {α β : Type} {f g : α → List β} : ∀ {l : List α},
    (∀ x ∈ l, f x = g x) → l.flatMap f = l.flatMap g := by
  intro l
  induction l with
  | nil => intro _; rfl
  | cons a l ih =>
    intro h
    simp only [List.flatMap_cons]
    rw [h a List.mem_cons_self, ih (fun x hx => h x (List.mem_cons_of_mem _ hx))]

/-- nothing lost, nothing invented: the groups flattened are a permutation of the fields -/
theorem firsts_flatten_perm : ∀ (fs : List Field) (seen : List Bytes),
    ((firsts fs seen).flatMap (fun f => occ f.keyBytes fs)).Perm
      ((fs.filter (fun f => decide (f.keyBytes ∉ seen))).map Field.ov) := by
  intro fs
  induction fs with
  | nil => intro seen; simp [firsts]
  | cons f fs ih =>
    intro seen
    rw [firsts]
    by_cases hs : f.keyBytes ∈ seen
    · simp only [hs, if_true, List.filter_cons, not_true_eq_false, decide_false, Bool.false_eq_true, if_false]
      have : (firsts fs seen).flatMap (fun g => occ g.keyBytes (f :: fs)) =
          (firsts fs seen).flatMap (fun g => occ g.keyBytes fs) := by
        apply flatMap_congr'
        intro g hg
        have hg' := (firsts_not_seen fs seen g hg).1
        have : f.keyBytes ≠ g.keyBytes := fun hc => hg' (hc ▸ hs)
        simp [occ_cons, this]
      rw [this]
      exact ih seen
    · simp only [hs, if_false, List.filter_cons, not_false_eq_true, decide_true, if_true,
        List.flatMap_cons, List.map_cons]
      have h1 : (firsts fs (f.keyBytes :: seen)).flatMap (fun g => occ g.keyBytes (f :: fs)) =
          (firsts fs (f.keyBytes :: seen)).flatMap (fun g => occ g.keyBytes fs) := by
        apply flatMap_congr'
        intro g hg
        have hg' := (firsts_not_seen fs _ g hg).1
        have : f.keyBytes ≠ g.keyBytes := fun hc => hg' (by simp [hc])
        simp [occ_cons, this]
      rw [h1]
      simp only [occ_cons, if_true, List.cons_append]
      apply List.Perm.cons
      have h2 := ih (f.keyBytes :: seen)
      -- split the unseen fields into those with f's key and the others
      let l := fs.filter (fun g => decide (g.keyBytes ∉ seen))
      have hocc : occ f.keyBytes fs = (l.filter (fun g => decide (g.keyBytes = f.keyBytes))).map Field.ov := by
        simp only [occ, l, List.filter_filter]
        congr 1
        apply List.filter_congr
        intro g _
        by_cases hg : g.keyBytes = f.keyBytes <;> simp [hg, hs]
      have hrest : fs.filter (fun g => decide (g.keyBytes ∉ f.keyBytes :: seen)) =
          l.filter (fun g => !decide (g.keyBytes = f.keyBytes)) := by
        simp only [l, List.filter_filter]
        apply List.filter_congr
        intro g _
        by_cases hg : g.keyBytes = f.keyBytes <;> simp [hg]
      rw [hrest] at h2
      rw [hocc]
      refine (List.Perm.append_left _ h2).trans ?_
      rw [← List.map_append]
      exact (List.filter_append_perm _ l).map _

theorem groupBy_flatten_perm (fs : List Field) :
    ((groupBy fs).flatMap (·.2)).Perm (fs.map Field.ov) := by
  have := firsts_flatten_perm fs []
  have hf : fs.filter (fun f => decide (f.keyBytes ∉ ([] : List Bytes))) = fs := by
    apply List.filter_eq_self.mpr
    intro a _; simp
  rw [hf] at this
  simpa [groupBy, List.flatMap_map] using this

end Jomini.Dom
