import JominiModel.Proofs.JsonDoc
/-
`tapeOf` round trip for C16_content: the token list of a well-formed tree is that tree
(`docAt (tapeOf d) d`), by induction over the tree with explicit prefix / suffix lists.
-/
set_option linter.unusedSimpArgs false
namespace Jomini.Json
open Jomini Jomini.JsonSpec

/-! ### the token list of a tree is that tree (`tapeOf` round trip) -/

mutual
/-- side conditions under which a tree is the tree of a token list -/
def nodeOk : Node → Bool
  | .scalar _ _ => true
  | .arr _ items => itemsOk items
  | .obj flag m fields rest => fieldsOk fields && itemsOk rest && (m || (rest.isEmpty && !flag))
  | .header _ body => body.isContainer && nodeOk body
def itemsOk : List Item → Bool
  | [] => true
  | x :: xs => itemOk x && itemsOk xs
def itemOk : Item → Bool
  | .val n => !n.isHeader && nodeOk n
  | .hdr _ body => body.isContainer && nodeOk body
  | _ => true
def fieldsOk : List Field → Bool
  | [] => true
  | f :: fs => fieldOk f && fieldsOk fs
def fieldOk : Field → Bool
  | .mk k _ v => isKeyTok k && nodeOk v
end

def docOk (d : Doc) : Bool :=
  fieldsOk d.fields && itemsOk d.rest && (d.mixed || d.rest.isEmpty)

mutual
theorem Node.toks_length : (n : Node) → (i : Nat) → (n.toks i).length = n.size
  | .scalar _ _, _ => by simp [Node.toks, Node.size]
  | .arr _ items, i => by simp [Node.toks, Node.size, itemsToks_length items (i + 1)]; omega
  | .obj _ m fields rest, i => by
    cases m <;> simp [Node.toks, Node.size, fieldsToks_length fields (i + 1), itemsToks_length rest] <;> omega
  | .header _ body, i => by simp [Node.toks, Node.size, Node.toks_length body (i + 1)]; omega
theorem itemsToks_length : (items : List Item) → (i : Nat) → (itemsToks items i).length = itemsSize items
  | [], _ => by simp [itemsToks, itemsSize]
  | x :: xs, i => by simp [itemsToks, itemsSize, Item.toks_length x i, itemsToks_length xs]
theorem Item.toks_length : (x : Item) → (i : Nat) → (x.toks i).length = x.size
  | .val n, i => by simp [Item.toks, Item.size, Node.toks_length n i]
  | .hdr _ body, i => by simp [Item.toks, Item.size, Node.toks_length body (i + 1)]; omega
  | .paramTok _ _, _ => by simp [Item.toks, Item.size]
  | .opTok _, _ => by simp [Item.toks, Item.size]
  | .mixedTok, _ => by simp [Item.toks, Item.size]
theorem fieldsToks_length : (fields : List Field) → (i : Nat) → (fieldsToks fields i).length = fieldsSize fields
  | [], _ => by simp [fieldsToks, fieldsSize]
  | f :: fs, i => by simp [fieldsToks, fieldsSize, Field.toks_length f i, fieldsToks_length fs]
theorem Field.toks_length : (f : Field) → (i : Nat) → (f.toks i).length = f.size
  | .mk k op v, i => by
    cases op <;> simp [Field.toks, Field.size, Node.toks_length v] <;> omega
end

theorem get_mid (L pre : List TTok) (tok : TTok) (post : List TTok) (i : Nat)
    (hL : L = pre ++ tok :: post) (hi : i = pre.length) : L.toArray[i]? = some tok := by
  subst hL; subst hi; simp

section RT
variable (L : List TTok)

mutual
theorem nodeAt_toks : (n : Node) → (pre post : List TTok) → (i : Nat) → i = pre.length →
    L = pre ++ n.toks i ++ post → nodeOk n = true → nodeAt L.toArray n i = true
  | .scalar q s, pre, post, i, hi, hL, _ => by
    simp only [nodeAt, decide_eq_true_eq]
    exact get_mid L pre _ post i (by simp [hL, Node.toks]) hi
  | .arr m items, pre, post, i, hi, hL, hok => by
    simp only [nodeOk] at hok
    simp only [Node.toks] at hL
    simp only [nodeAt, Bool.and_eq_true, decide_eq_true_eq]
    refine ⟨⟨?_, ?_⟩, ?_⟩
    · exact get_mid L pre _ (itemsToks items (i + 1) ++ [TTok.end_ i] ++ post) i (by simp [hL]) hi
    · exact itemsAt_toks items (pre ++ [TTok.array (i + 1 + itemsSize items) m]) ([TTok.end_ i] ++ post) (i + 1)
        (by simp [hi]) (by simp [hL]) hok
    · exact get_mid L (pre ++ [TTok.array (i + 1 + itemsSize items) m] ++ itemsToks items (i + 1)) _ post _
        (by simp [hL]) (by simp [hi, itemsToks_length]; omega)
  | .obj flag m fields rest, pre, post, i, hi, hL, hok => by
    simp only [nodeOk, Bool.and_eq_true, Bool.or_eq_true, List.isEmpty_iff, Bool.not_eq_true'] at hok
    simp only [Node.toks] at hL
    simp only [nodeAt, Bool.and_eq_true, decide_eq_true_eq]
    have hf := fieldsAt_toks fields (pre ++ [TTok.object (i + 1 + fieldsSize fields + (if m then 1 else 0) + itemsSize rest) flag])
        ((if m then [TTok.mixed] else []) ++ itemsToks rest (i + 1 + fieldsSize fields + (if m then 1 else 0)) ++ [TTok.end_ i] ++ post)
        (i + 1) (by simp [hi]) (by simp [hL]) hok.1.1
    have hr := itemsAt_toks rest
        (pre ++ [TTok.object (i + 1 + fieldsSize fields + (if m then 1 else 0) + itemsSize rest) flag] ++ fieldsToks fields (i + 1) ++ (if m then [TTok.mixed] else []))
        ([TTok.end_ i] ++ post) (i + 1 + fieldsSize fields + (if m then 1 else 0))
        (by cases m <;> simp [hi, fieldsToks_length] <;> omega) (by simp [hL]) hok.1.2
    refine ⟨⟨⟨?_, hf⟩, ?_⟩, ?_⟩
    · exact get_mid L pre _ (fieldsToks fields (i + 1) ++ (if m then [TTok.mixed] else []) ++
        itemsToks rest (i + 1 + fieldsSize fields + (if m then 1 else 0)) ++ [TTok.end_ i] ++ post) i (by simp [hL]) hi
    · cases m with
      | true =>
        simp only [if_true, Bool.and_eq_true, decide_eq_true_eq]
        refine ⟨?_, by simpa using hr⟩
        exact get_mid L (pre ++ [TTok.object (i + 1 + fieldsSize fields + (if true then 1 else 0) + itemsSize rest) flag] ++ fieldsToks fields (i + 1)) _
          (itemsToks rest (i + 1 + fieldsSize fields + 1) ++ [TTok.end_ i] ++ post) _
          (by simp [hL]) (by simp [hi, fieldsToks_length]; omega)
      | false =>
        rcases hok.2 with h | h
        · simp at h
        · simp [h.1, h.2]
    · exact get_mid L (pre ++ [TTok.object (i + 1 + fieldsSize fields + (if m then 1 else 0) + itemsSize rest) flag] ++ fieldsToks fields (i + 1) ++ (if m then [TTok.mixed] else []) ++ itemsToks rest (i + 1 + fieldsSize fields + (if m then 1 else 0))) _ post _
        (by simp [hL]) (by cases m <;> simp [hi, fieldsToks_length, itemsToks_length] <;> omega)
  | .header s body, pre, post, i, hi, hL, hok => by
    simp only [nodeOk, Bool.and_eq_true] at hok
    simp only [Node.toks] at hL
    simp only [nodeAt, Bool.and_eq_true, decide_eq_true_eq]
    refine ⟨⟨?_, hok.1⟩, ?_⟩
    · exact get_mid L pre _ (body.toks (i + 1) ++ post) i (by simp [hL]) hi
    · exact nodeAt_toks body (pre ++ [TTok.header s]) post (i + 1) (by simp [hi]) (by simp [hL]) hok.2
theorem itemsAt_toks : (items : List Item) → (pre post : List TTok) → (i : Nat) → i = pre.length →
    L = pre ++ itemsToks items i ++ post → itemsOk items = true → itemsAt L.toArray items i = true
  | [], _, _, _, _, _, _ => by simp [itemsAt]
  | x :: xs, pre, post, i, hi, hL, hok => by
    simp only [itemsOk, Bool.and_eq_true] at hok
    simp only [itemsToks] at hL
    simp only [itemsAt, Bool.and_eq_true]
    refine ⟨?_, ?_⟩
    · exact itemAt_toks x pre (itemsToks xs (i + x.size) ++ post) i hi (by simp [hL]) hok.1
    · exact itemsAt_toks xs (pre ++ x.toks i) post (i + x.size) (by simp [hi, Item.toks_length]) (by simp [hL]) hok.2
theorem itemAt_toks : (x : Item) → (pre post : List TTok) → (i : Nat) → i = pre.length →
    L = pre ++ x.toks i ++ post → itemOk x = true → itemAt L.toArray x i = true
  | .val n, pre, post, i, hi, hL, hok => by
    simp only [itemOk, Bool.and_eq_true] at hok
    simp only [Item.toks] at hL
    simp only [itemAt, Bool.and_eq_true]
    exact ⟨hok.1, nodeAt_toks n pre post i hi hL hok.2⟩
  | .hdr s body, pre, post, i, hi, hL, hok => by
    simp only [itemOk, Bool.and_eq_true] at hok
    simp only [Item.toks] at hL
    simp only [itemAt, Bool.and_eq_true, decide_eq_true_eq]
    refine ⟨⟨?_, hok.1⟩, ?_⟩
    · exact get_mid L pre _ (body.toks (i + 1) ++ post) i (by simp [hL]) hi
    · exact nodeAt_toks body (pre ++ [TTok.header s]) post (i + 1) (by simp [hi]) (by simp [hL]) hok.2
  | .paramTok u s, pre, post, i, hi, hL, _ => by
    simp only [Item.toks] at hL
    simp only [itemAt, decide_eq_true_eq]
    exact get_mid L pre _ post i (by simp [hL]) hi
  | .opTok o, pre, post, i, hi, hL, _ => by
    simp only [Item.toks] at hL
    simp only [itemAt, decide_eq_true_eq]
    exact get_mid L pre _ post i (by simp [hL]) hi
  | .mixedTok, pre, post, i, hi, hL, _ => by
    simp only [Item.toks] at hL
    simp only [itemAt, decide_eq_true_eq]
    exact get_mid L pre _ post i (by simp [hL]) hi
theorem fieldsAt_toks : (fields : List Field) → (pre post : List TTok) → (i : Nat) → i = pre.length →
    L = pre ++ fieldsToks fields i ++ post → fieldsOk fields = true → fieldsAt L.toArray fields i = true
  | [], _, _, _, _, _, _ => by simp [fieldsAt]
  | f :: fs, pre, post, i, hi, hL, hok => by
    simp only [fieldsOk, Bool.and_eq_true] at hok
    simp only [fieldsToks] at hL
    simp only [fieldsAt, Bool.and_eq_true]
    refine ⟨?_, ?_⟩
    · exact fieldAt_toks f pre (fieldsToks fs (i + f.size) ++ post) i hi (by simp [hL]) hok.1
    · exact fieldsAt_toks fs (pre ++ f.toks i) post (i + f.size) (by simp [hi, Field.toks_length]) (by simp [hL]) hok.2
theorem fieldAt_toks : (f : Field) → (pre post : List TTok) → (i : Nat) → i = pre.length →
    L = pre ++ f.toks i ++ post → fieldOk f = true → fieldAt L.toArray f i = true
  | .mk k (some o) v, pre, post, i, hi, hL, hok => by
    simp only [fieldOk, Bool.and_eq_true] at hok
    simp only [Field.toks] at hL
    simp only [fieldAt, Bool.and_eq_true, decide_eq_true_eq]
    refine ⟨⟨hok.1, ?_⟩, ?_, ?_⟩
    · exact get_mid L pre _ ([TTok.op o] ++ v.toks (i + 2) ++ post) i (by simp [hL]) hi
    · exact get_mid L (pre ++ [k]) _ (v.toks (i + 2) ++ post) (i + 1) (by simp [hL]) (by simp [hi])
    · exact nodeAt_toks v (pre ++ [k, TTok.op o]) post (i + 2) (by simp [hi]) (by simp [hL]) hok.2
  | .mk k none v, pre, post, i, hi, hL, hok => by
    simp only [fieldOk, Bool.and_eq_true] at hok
    simp only [Field.toks] at hL
    simp only [fieldAt, Bool.and_eq_true, decide_eq_true_eq]
    refine ⟨⟨hok.1, ?_⟩, ?_⟩
    · exact get_mid L pre _ (v.toks (i + 1) ++ post) i (by simp [hL]) hi
    · exact nodeAt_toks v (pre ++ [k]) post (i + 1) (by simp [hi]) (by simp [hL]) hok.2
end

end RT

/-- the token list of a well-formed tree is that tree -/
theorem docAt_tapeOf (d : Doc) (h : docOk d = true) : docAt (tapeOf d) d = true := by
  obtain ⟨fields, m, rest⟩ := d
  simp only [docOk, Bool.and_eq_true, Bool.or_eq_true, List.isEmpty_iff] at h
  have hf := fieldsAt_toks
    (fieldsToks fields 0 ++ (if m then [TTok.mixed] else []) ++ itemsToks rest (fieldsSize fields + (if m then 1 else 0)))
    fields [] ((if m then [TTok.mixed] else []) ++ itemsToks rest (fieldsSize fields + (if m then 1 else 0)))
    0 rfl (by simp) h.1.1
  have hr := itemsAt_toks
    (fieldsToks fields 0 ++ (if m then [TTok.mixed] else []) ++ itemsToks rest (fieldsSize fields + (if m then 1 else 0)))
    rest (fieldsToks fields 0 ++ (if m then [TTok.mixed] else [])) [] (fieldsSize fields + (if m then 1 else 0))
    (by cases m <;> simp [fieldsToks_length]) (by simp) h.1.2
  simp only [docAt, tapeOf, Bool.and_eq_true, decide_eq_true_eq]
  refine ⟨⟨hf, ?_⟩, ?_⟩
  · cases m with
    | true =>
      simp only [if_true, Bool.and_eq_true, decide_eq_true_eq]
      refine ⟨?_, by simpa using hr⟩
      exact get_mid _ (fieldsToks fields 0) _ (itemsToks rest (fieldsSize fields + 1)) _ (by simp) (by simp [fieldsToks_length])
    | false =>
      rcases h.2 with h2 | h2
      · simp at h2
      · simp [h2]
  · cases m <;> simp [fieldsToks_length, itemsToks_length] <;> omega

end Jomini.Json
