import JominiModel.Proofs.BinSkip
/-
C05 corollaries for the binary byte→token layer:
* `C05_binlexer_total` — the lexer loops end within their fuel for every byte string, and the
  only way bytes are split off (`get_split::<N>` / `take::<N>` / `split_at`) is under
  `data.len() ≥ N`;
* `C05_buffer_ptr_in_range` — along every reader run (any input, any well-formed schedule with
  faults, any buffer of at least one byte, *fitting or not*) `start ≤ end ≤ cap` holds and
  `advance` / `advance_to` is only ever called with an amount inside the window.
-/
namespace Jomini.BinLexer
open Jomini Jomini.BinReader

/-- more fuel never changes a lexer run -/
theorem lexLoop_fuel_enough (fuel : Nat) (d : Bytes) (hf : d.length / 2 < fuel) : lexLoop fuel d = lexAll d := by
  obtain ⟨a, b, c⟩ := Lexes.det (lexLoop_lexes fuel d hf) (lexAll_lexes d)
  exact Prod.ext a (Prod.ext b c)

theorem lexes_bounds {d left : Bytes} {ts : List Token} {tm : Terminal} (h : Lexes d ts tm left) :
    2 * ts.length + left.length ≤ d.length ∧ ∃ pre, d = pre ++ left := by
  induction h with
  | tok hrt _ ih =>
    obtain ⟨pre, hpre, hlen⟩ := readToken_consumes _ _ _ hrt
    obtain ⟨i1, pre2, i2⟩ := ih
    refine ⟨?_, pre ++ pre2, by rw [hpre, i2, List.append_assoc]⟩
    rw [hpre]; simp only [List.length_append, List.length_cons]; omega
  | done => exact ⟨by simp, [], rfl⟩
  | eof _ _ => exact ⟨by simp, [], rfl⟩
  | rgb _ => exact ⟨by simp, [], rfl⟩

theorem lexer_step_none_isSome (f : Nat) (d : Bytes) (L depth : Nat) (h : lexeme d = none) :
    (Lexer.skipLoop (f + 1) ⟨d, L⟩ depth).isSome = true := by
  rw [lexeme_eq] at h
  cases hid : readId d with
  | error e => simp [Lexer.skipLoop, Lexer.readId, Lexer.lift, hid]
  | ok v =>
    obtain ⟨id, d1⟩ := v
    rw [hid] at h
    simp only [Option.map_eq_none_iff] at h
    unfold payloadRest at h
    by_cases h1 : id = CLOSE
    · rw [if_pos h1] at h; simp at h
    rw [if_neg h1] at h
    by_cases h2 : id = OPEN
    · rw [if_pos h2] at h; simp at h
    rw [if_neg h2] at h
    by_cases h3 : id = BOOL
    · rw [if_pos h3] at h
      by_cases hl : 1 ≤ d1.length
      · rw [if_pos hl] at h; simp at h
      · have : d1 = [] := List.eq_nil_of_length_eq_zero (by omega)
        subst this; subst h3
        simp [Lexer.skipLoop, Lexer.readId, Lexer.readBool, Lexer.lift, hid, readBool, BOOL, QUOTED, UNQUOTED, U32, I32, U64, I64]
    rw [if_neg h3] at h
    by_cases h4 : id = F32 ∨ id = U32 ∨ id = I32
    · rw [if_pos h4] at h
      by_cases hl : 4 ≤ d1.length
      · rw [if_pos hl] at h; simp at h
      · have hg : getSplit 4 d1 = none := getSplit_none.mpr (by omega)
        rcases h4 with rfl | rfl | rfl
        · simp [Lexer.skipLoop, Lexer.readId, Lexer.readF32, Lexer.lift, hid, readF32, hg, BOOL, QUOTED, UNQUOTED, U32, I32, U64, I64, F32]
        · simp [Lexer.skipLoop, Lexer.readId, Lexer.readU32, Lexer.lift, hid, readU32, hg, BOOL, QUOTED, UNQUOTED, U32, I32, U64, I64, F32]
        · simp [Lexer.skipLoop, Lexer.readId, Lexer.readI32, Lexer.lift, hid, readI32, hg, BOOL, QUOTED, UNQUOTED, U32, I32, U64, I64, F32]
    rw [if_neg h4] at h
    by_cases h5 : id = F64 ∨ id = I64 ∨ id = U64
    · rw [if_pos h5] at h
      by_cases hl : 8 ≤ d1.length
      · rw [if_pos hl] at h; simp at h
      · have hg : getSplit 8 d1 = none := getSplit_none.mpr (by omega)
        rcases h5 with rfl | rfl | rfl
        · simp [Lexer.skipLoop, Lexer.readId, Lexer.readF64, Lexer.lift, hid, readF64, hg, BOOL, QUOTED, UNQUOTED, U32, I32, U64, I64, F32, F64]
        · simp [Lexer.skipLoop, Lexer.readId, Lexer.readI64, Lexer.lift, hid, readI64, hg, BOOL, QUOTED, UNQUOTED, U32, I32, U64, I64, F32, F64]
        · simp [Lexer.skipLoop, Lexer.readId, Lexer.readU64, Lexer.lift, hid, readU64, hg, BOOL, QUOTED, UNQUOTED, U32, I32, U64, I64, F32, F64]
    rw [if_neg h5] at h
    by_cases h6 : id = QUOTED ∨ id = UNQUOTED
    · rw [if_pos h6] at h
      cases hs : readString d1 with
      | ok v => obtain ⟨x, dd⟩ := v; rw [hs] at h; simp at h
      | error e => simp [Lexer.skipLoop, Lexer.readId, Lexer.readString, Lexer.lift, hid, hs, h6]
    rw [if_neg h6] at h
    simp at h

/-- `skip_container`'s loop ends within its fuel -/
theorem skipLoop_total (f : Nat) (d : Bytes) (L depth : Nat) (hf : d.length / 2 < f) :
    (Lexer.skipLoop f ⟨d, L⟩ depth).isSome = true := by
  induction f generalizing d depth with
  | zero => omega
  | succ f ih =>
    cases hlx : lexeme d with
    | none => exact lexer_step_none_isSome f d L depth hlx
    | some v =>
      obtain ⟨id, d'⟩ := v
      obtain ⟨d1, hid, hp⟩ := lexeme_some hlx
      rw [lexer_step_some f d d1 d' L depth id hid hp]
      split
      · rfl
      · obtain ⟨pre, hpre, hlen⟩ := lexeme_consumes hlx
        apply ih
        have : d.length = pre.length + d'.length := by rw [hpre]; simp
        omega

/-- **C05 (binary lexer).**  For every byte string:
* bytes are only split off under the length guard: `get_split::<N>` (model `getSplit`) answers
  `some (h, r)` only with `N ≤ len`, `|h| = N`, `data = h ++ r`, and `none` exactly when
  `len < N` — the model's readers have no other way to index, and their only failure values
  are `Eof` / `InvalidRgb` (no panic / ub outcome exists or is needed);
* the `next_token` loop ends within its fuel (more fuel never changes the run), returns at most
  `len / 2` tokens and leaves a suffix of the input unread;
* `skip_container`'s loop ends within its fuel, whatever the depth. -/
theorem C05_binlexer_total (d : Bytes) :
    (∀ n h r, getSplit n d = some (h, r) → n ≤ d.length ∧ h.length = n ∧ d = h ++ r) ∧
    (∀ n, getSplit n d = none ↔ d.length < n) ∧
    (∀ fuel, d.length / 2 < fuel → lexLoop fuel d = lexAll d) ∧
    (2 * (lexAll d).1.length + (lexAll d).2.2.length ≤ d.length ∧ ∃ pre, d = pre ++ (lexAll d).2.2) ∧
    (∀ depth L, ((Lexer.mk d L).skipContainer).isSome = true ∧
      (Lexer.skipLoop (d.length / 2 + 1) ⟨d, L⟩ depth).isSome = true) := by
  refine ⟨fun n h r hs => ?_, fun n => getSplit_none, fun fuel hf => lexLoop_fuel_enough fuel d hf,
    lexes_bounds (lexAll_lexes d), fun depth L => ⟨by unfold Lexer.skipContainer; exact skipLoop_total _ d L 1 (by simp), skipLoop_total _ d L depth (by omega)⟩⟩
  obtain ⟨h1, h2⟩ := getSplit_some hs
  refine ⟨?_, h2, h1⟩
  rw [h1]; simp; omega

end Jomini.BinLexer

namespace Jomini.BinReader
open Jomini Jomini.BinLexer

/-- a fill that delivered bytes keeps the reader invariant -/
theorem rinv_fill {rd : Reader} {data : Bytes} {b' : Buf} {src' : Src} {n : Nat} (h : RInv rd data)
    (hcpos : 0 < rd.buf.cap) (hinv' : Buf.Inv b' src' data) (hpos' : b'.position = rd.buf.position)
    (hcap' : b'.cap = rd.buf.cap) (hwl' : b'.windowLen = rd.buf.windowLen + n)
    (hdel' : src'.delivered = rd.src.delivered + n) (hwf' : Src.WfSched src'.sched) :
    RInv { src := src', buf := b' } data := by
  refine ⟨hinv', hwf', fun hc => ?_, fun _ => ?_, ?_⟩
  · simp only at hc; omega
  · have := h.deliv hcpos
    simp only [Reader.position] at *
    rw [hdel', this, hpos', hwl']; omega
  · have := h.ple
    simp only [Reader.position] at *
    rw [hpos']; exact this

/-- one call keeps the invariant and never leaves the window or runs out of fuel — with or
without a buffer that fits, with or without faults -/
theorem next_safe (data : Bytes) (fuel : Nat) (rd : Reader) (h : RInv rd data)
    (hfuel : rd.src.rest.length < fuel) :
    RInv (Reader.next fuel rd).2 data ∧ (Reader.next fuel rd).2.buf.cap = rd.buf.cap ∧
    (∀ p, (Reader.next fuel rd).1 ≠ .error ⟨p, .ub⟩) ∧ (∀ p, (Reader.next fuel rd).1 ≠ .error ⟨p, .fuel⟩) := by
  induction fuel generalizing rd with
  | zero => omega
  | succ fuel ih =>
    unfold Reader.next
    cases hrt : readToken rd.buf.window with
    | ok v =>
      obtain ⟨tok, newData⟩ := v
      simp only
      obtain ⟨pre, hpre, _⟩ := readToken_consumes _ _ _ hrt
      obtain ⟨rd', hadv, hinv', _, _, _, hcap', _⟩ := rinv_advance h hpre
      simp only [hadv]
      exact ⟨hinv', hcap', by simp, by simp⟩
    | error e =>
      cases e with
      | invalidRgb => exact ⟨h, rfl, by simp [Reader.lexError], by simp [Reader.lexError]⟩
      | eof =>
        simp only
        rcases Buf.fillBuf_cases rd.buf rd.src data h.buf h.wf with
          ⟨hc0, hfb⟩ | ⟨hcpos, hfull, hfb⟩ | ⟨hcpos, hlt, n, b', src', hfb, hinv', hpos', hcap', hwin', hwl', hrest', hn, hdel', hwf', hz⟩ |
          ⟨hcpos, hlt, b', src', hfb, hinv', hpos', hcap', hwin', hwl', hrest', hdel', hwf'⟩
        · rw [hfb]
          simp only [if_true]
          split
          · exact ⟨h, rfl, by simp, by simp⟩
          · exact ⟨h, rfl, by simp [Reader.lexError], by simp [Reader.lexError]⟩
        · rw [hfb]
          exact ⟨h, rfl, by simp [Reader.bufferError], by simp [Reader.bufferError]⟩
        · rw [hfb]
          simp only
          have hrd' := rinv_fill h hcpos hinv' hpos' hcap' hwl' hdel' hwf'
          by_cases hn0 : n = 0
          · rw [if_pos hn0]
            split
            · exact ⟨hrd', hcap', by simp, by simp⟩
            · exact ⟨hrd', hcap', by simp [Reader.lexError], by simp [Reader.lexError]⟩
          · rw [if_neg hn0]
            obtain ⟨i1, i2, i3, i4⟩ := ih { src := src', buf := b' } hrd'
              (by simp only; rw [hrest', List.length_drop]; omega)
            exact ⟨i1, by rw [i2]; exact hcap', i3, i4⟩
        · rw [hfb]
          simp only
          have hrd' := rinv_fill (n := 0) h hcpos hinv' hpos' hcap' (by rw [hwl']; rfl) (by rw [hdel']; rfl) hwf'
          exact ⟨hrd', hcap', by simp [Reader.bufferError], by simp [Reader.bufferError]⟩

theorem calls_safe (data : Bytes) (n : Nat) (rd : Reader) (h : RInv rd data) :
    RInv (Reader.calls n rd).2 data ∧ (Reader.calls n rd).2.buf.cap = rd.buf.cap ∧
    Call.err .ub ∉ (Reader.calls n rd).1 ∧ Call.err .fuel ∉ (Reader.calls n rd).1 := by
  induction n generalizing rd with
  | zero => exact ⟨h, rfl, by simp [Reader.calls], by simp [Reader.calls]⟩
  | succ n ih =>
    obtain ⟨i1, i2, i3, i4⟩ := next_safe data rd.fuelFor rd h (by simp [Reader.fuelFor])
    unfold Reader.calls
    revert i1 i2 i3 i4
    generalize Reader.next rd.fuelFor rd = out
    obtain ⟨res, rd'⟩ := out
    intro i1 i2 i3 i4
    simp only at i1 i2 i3 i4
    obtain ⟨j1, j2, j3, j4⟩ := ih rd' i1
    cases res with
    | ok o =>
      cases o <;> simp only <;> exact ⟨j1, by rw [j2, i2], by simp [j3], by simp [j4]⟩
    | error e =>
      obtain ⟨p, k⟩ := e
      simp only
      refine ⟨j1, by rw [j2, i2], ?_, ?_⟩
      · simp only [List.mem_cons, Call.err.injEq, not_or]
        exact ⟨fun hk => i3 p (by rw [hk]), j3⟩
      · simp only [List.mem_cons, Call.err.injEq, not_or]
        exact ⟨fun hk => i4 p (by rw [hk]), j4⟩

/-- **C05 (buffer window).**  For every input, every well-formed schedule (short reads, transient
and persistent faults) and every builder buffer of at least one byte — whether or not the
tokens fit — after any number of `next` calls the window offsets satisfy
`start ≤ end ≤ cap` (`cap` unchanged), and no call moved `start` past `end`: the model's
`advance` answers `none` (the Rust `debug_assert!` / pointer UB) exactly when asked for more
than `window_len` (`C08_Buffer_refines`), and that outcome (`ub`) never occurs; nor does the
refill recursion run out of fuel.  The position never exceeds the bytes delivered. -/
theorem C05_buffer_ptr_in_range (buffer data : Bytes) (sched : List Step) (hcap : 0 < buffer.length)
    (hwf : Src.WfSched sched) (n : Nat) :
    ((Reader.calls n (Reader.build buffer (Src.new data sched))).2.buf.start ≤
        (Reader.calls n (Reader.build buffer (Src.new data sched))).2.buf.end_ ∧
     (Reader.calls n (Reader.build buffer (Src.new data sched))).2.buf.end_ ≤
        (Reader.calls n (Reader.build buffer (Src.new data sched))).2.buf.cap ∧
     (Reader.calls n (Reader.build buffer (Src.new data sched))).2.buf.cap = buffer.length) ∧
    (Call.err .ub ∉ (Reader.calls n (Reader.build buffer (Src.new data sched))).1 ∧
     Call.err .fuel ∉ (Reader.calls n (Reader.build buffer (Src.new data sched))).1) ∧
    (Reader.calls n (Reader.build buffer (Src.new data sched))).2.position ≤
      (Reader.calls n (Reader.build buffer (Src.new data sched))).2.src.delivered := by
  have h0 := rinv_build buffer data sched hcap hwf
  obtain ⟨a1, a2, a3, a4⟩ := calls_safe data n _ h0
  have hc : (Reader.calls n (Reader.build buffer (Src.new data sched))).2.buf.cap = buffer.length := a2
  refine ⟨⟨a1.buf.se, ?_, hc⟩, ⟨a3, a4⟩, (rinv_delivered a1 (by rw [hc]; exact hcap)).1⟩
  rcases a1.buf.mode with hm | hm
  · rw [hm]; exact a1.buf.em
  · omega

/-- what the inner scan of `skip_container` always guarantees -/
def ScanSafe (data : Bytes) (rd : Reader) : Reader.ScanRes → Prop
  | .returned rd' => RInv rd' data ∧ rd'.src = rd.src ∧ rd'.buf.cap = rd.buf.cap
  | .refill rd' _ => RInv rd' data ∧ rd'.src = rd.src ∧ rd'.buf.cap = rd.buf.cap
  | .ub _ => False

theorem scan_safe (data : Bytes) (sf : Nat) (rd : Reader) (depth : Nat) (h : RInv rd data) :
    ScanSafe data rd (Reader.skipScan sf rd depth) := by
  induction sf generalizing rd depth with
  | zero => exact ⟨h, rfl, rfl⟩
  | succ sf ih =>
    rw [scan_step]
    cases hlx : lexeme rd.buf.window with
    | none => exact ⟨h, rfl, rfl⟩
    | some v =>
      obtain ⟨id, rest⟩ := v
      obtain ⟨pre, hpre, _⟩ := lexeme_consumes hlx
      obtain ⟨rd', hadv, hinv', _, _, hsrc', hcap', _⟩ := rinv_advance h hpre
      simp only [hadv]
      split
      · exact ⟨hinv', hsrc', hcap'⟩
      · have := ih rd' (depthAfter id depth) hinv'
        revert this
        generalize Reader.skipScan sf rd' (depthAfter id depth) = res
        intro this
        cases res with
        | returned r2 => exact ⟨this.1, by rw [this.2.1, hsrc'], by rw [this.2.2, hcap']⟩
        | refill r2 d2 => exact ⟨this.1, by rw [this.2.1, hsrc'], by rw [this.2.2, hcap']⟩
        | ub r2 => exact this

/-- the streamed `skip_container` never leaves the window or runs out of fuel, whatever the
input, the depth, the schedule and the buffer -/
theorem skip_safe (data : Bytes) (fuel : Nat) (rd : Reader) (depth : Nat) (h : RInv rd data)
    (hfuel : rd.src.rest.length < fuel) :
    RInv (Reader.skipLoop fuel rd depth).2 data ∧
    (∀ p, (Reader.skipLoop fuel rd depth).1 ≠ .error ⟨p, .ub⟩) ∧
    (∀ p, (Reader.skipLoop fuel rd depth).1 ≠ .error ⟨p, .fuel⟩) := by
  induction fuel generalizing rd depth with
  | zero => omega
  | succ fuel ih =>
    unfold Reader.skipLoop
    have hsc := scan_safe data (rd.buf.windowLen / 2 + 1) rd depth h
    revert hsc
    generalize Reader.skipScan (rd.buf.windowLen / 2 + 1) rd depth = res
    intro hsc
    cases res with
    | returned rd' => exact ⟨hsc.1, by simp, by simp⟩
    | ub rd' => exact absurd hsc (by simp [ScanSafe])
    | refill rd1 depth1 =>
      obtain ⟨h1, hsrc1, _⟩ := hsc
      simp only
      rcases Buf.fillBuf_cases rd1.buf rd1.src data h1.buf h1.wf with
        ⟨hc0, hfb⟩ | ⟨hcpos, hfull, hfb⟩ | ⟨hcpos, hlt, n, b', src', hfb, hinv', hpos', hcap', hwin', hwl', hrest', hn, hdel', hwf', hz⟩ |
        ⟨hcpos, hlt, b', src', hfb, hinv', hpos', hcap', hwin', hwl', hrest', hdel', hwf'⟩
      · rw [hfb]
        simp only [if_true]
        exact ⟨h1, by simp [Reader.lexError], by simp [Reader.lexError]⟩
      · rw [hfb]
        exact ⟨h1, by simp [Reader.bufferError], by simp [Reader.bufferError]⟩
      · rw [hfb]
        simp only
        have hrd' := rinv_fill h1 hcpos hinv' hpos' hcap' hwl' hdel' hwf'
        by_cases hn0 : n = 0
        · rw [if_pos hn0]
          exact ⟨hrd', by simp [Reader.lexError], by simp [Reader.lexError]⟩
        · rw [if_neg hn0]
          exact ih { src := src', buf := b' } depth1 hrd' (by
            have e1 : rd1.src.rest.length = rd.src.rest.length := by rw [hsrc1]
            simp only
            rw [hrest', List.length_drop]
            omega)
      · rw [hfb]
        simp only
        have hrd' := rinv_fill (n := 0) h1 hcpos hinv' hpos' hcap' (by rw [hwl']; rfl) (by rw [hdel']; rfl) hwf'
        exact ⟨hrd', by simp [Reader.bufferError], by simp [Reader.bufferError]⟩

/-- **C05 (buffer window, skip).**  The same for `skip_container` started after any number of
`next` calls: it keeps `start ≤ end ≤ |mem|` and never asks `advance_to` for a pointer outside
the window, for every input (balanced or not), schedule and buffer. -/
theorem C05_buffer_ptr_in_range_skip (buffer data : Bytes) (sched : List Step) (hcap : 0 < buffer.length)
    (hwf : Src.WfSched sched) (n : Nat) :
    let rd := (Reader.calls n (Reader.build buffer (Src.new data sched))).2
    rd.skipContainer.2.buf.start ≤ rd.skipContainer.2.buf.end_ ∧
    rd.skipContainer.2.buf.end_ ≤ rd.skipContainer.2.buf.mem.length ∧
    (∀ p, rd.skipContainer.1 ≠ .error ⟨p, .ub⟩) ∧ (∀ p, rd.skipContainer.1 ≠ .error ⟨p, .fuel⟩) := by
  intro rd
  have h0 := rinv_build buffer data sched hcap hwf
  obtain ⟨a1, _, _, _⟩ := calls_safe data n _ h0
  obtain ⟨b1, b2, b3⟩ := skip_safe data rd.fuelFor rd 1 a1 (by simp [Reader.fuelFor])
  exact ⟨b1.buf.se, b1.buf.em, b2, b3⟩

example : (Reader.calls 3 (Reader.build [0, 0] (Src.new [0x0c, 0, 1, 0, 0, 0] [.give 1, .fail]))).1
    = [.err .read, .err .bufferFull, .err .bufferFull] := by rfl

end Jomini.BinReader
