import JominiModel.Proofs.BinTapeItems
import JominiModel.Proofs.BinTapeEq
/-
C06 (binary half): the structural invariant of the binary tape parser.  `OpenAt parent tape`
(the open containers form a chain through their payload slots down to 0, everything else is a
sequence of complete items) holds initially, is preserved by every iteration of the plain loop,
and at the accepting exit (`parent = 0`, `state = Key`) is `WfBinTape`.
-/
namespace Jomini.BinTape
open Jomini


theorem Items.append {s : Nat} {a : Tape} (h : Items s a) : ∀ {b : Tape}, Items (s + a.length) b → Items s (a ++ b) := by
  induction h with
  | nil s => intro b hb; simpa using hb
  | plain s t rest ht _ ih =>
    intro b hb
    refine Items.plain s t (rest ++ b) ht (ih ?_)
    simp only [List.length_cons] at hb
    have : s + 1 + rest.length = s + (rest.length + 1) := by omega
    rw [this]; exact hb
  | cont s e t inner rest hs ht he hi _ _ ihr =>
    intro b hb
    have : t :: (inner ++ BTok.end_ s :: rest) ++ b = t :: (inner ++ BTok.end_ s :: (rest ++ b)) := by simp
    rw [this]
    refine Items.cont s e t inner (rest ++ b) hs ht he hi (ihr ?_)
    simp only [List.length_cons, List.length_append] at hb
    have : e + 1 + rest.length = s + (inner.length + (rest.length + 1) + 1) := by omega
    rw [this]; exact hb

theorem Items.snoc_plain {s : Nat} {a : Tape} {x : BTok} (h : Items s a) (hx : x.isPlain = true) : Items s (a ++ [x]) :=
  h.append (Items.plain _ x [] hx (Items.nil _))

/-- removing the last token of a sequence of complete items: it was a plain token (and the rest
is still complete), or an `End`. -/
theorem Items.unsnoc {s : Nat} {l : Tape} (h : Items s l) : ∀ {seg : Tape} {x : BTok}, l = seg ++ [x] →
    (x.isPlain = true ∧ Items s seg) ∨ (∃ i, x = .end_ i) := by
  induction h with
  | nil s => intro seg x h; simp at h
  | plain s t rest ht hr ih =>
    intro seg x h
    cases seg with
    | nil => simp at h; obtain ⟨rfl, rfl⟩ := h; exact Or.inl ⟨ht, Items.nil _⟩
    | cons y seg' =>
      simp at h; obtain ⟨rfl, h⟩ := h
      rcases ih h with ⟨hx, hs⟩ | hx
      · exact Or.inl ⟨hx, Items.plain s t seg' ht hs⟩
      · exact Or.inr hx
  | cont s e t inner rest hs ht he hi hr _ ihr =>
    intro seg x h
    rcases List.eq_nil_or_concat rest with hrest | ⟨rest', y, hrest⟩
    · subst hrest
      have : t :: (inner ++ [BTok.end_ s]) = (t :: inner) ++ [BTok.end_ s] := by simp
      rw [this] at h
      have := List.append_inj_right' h (by simp)
      simp at this; exact Or.inr ⟨s, this.symm⟩
    · rw [List.concat_eq_append] at hrest
      subst hrest
      have : t :: (inner ++ BTok.end_ s :: (rest' ++ [y])) = (t :: (inner ++ BTok.end_ s :: rest')) ++ [y] := by simp
      rw [this] at h
      have h1 := List.append_inj_left' h (by simp)
      have h2 := List.append_inj_right' h (by simp)
      simp at h2; subst h2; subst h1
      rcases ihr rfl with ⟨hx, hs'⟩ | hx
      · exact Or.inl ⟨hx, Items.cont s e t inner rest' hs ht he hi hs'⟩
      · exact Or.inr hx

/-- the tape while containers are open: `OpenAt p tape` — the innermost open container starts at
index `p` (`p = 0`: none is open) and stores the index of the enclosing open container; everything
else consists of complete items. -/
inductive OpenAt : Nat → Tape → Prop
  | top {tape : Tape} : Items 0 tape → OpenAt 0 tape
  | open_ {g p : Nat} {pre : Tape} {t : BTok} {seg : Tape} :
      OpenAt g pre → pre.length = p → p ≠ 0 → (t = .array g ∨ t = .object g) → Items (p + 1) seg →
      OpenAt p (pre ++ t :: seg)

theorem OpenAt.append_items {p : Nat} {tape b : Tape} (h : OpenAt p tape) (hb : Items tape.length b) :
    OpenAt p (tape ++ b) := by
  cases h with
  | top h0 => exact OpenAt.top (h0.append (by simpa using hb))
  | open_ hg hl hp ht hseg =>
    rename_i g pre t seg
    have : pre ++ t :: seg ++ b = pre ++ t :: (seg ++ b) := by simp
    rw [this]
    refine OpenAt.open_ hg hl hp ht (hseg.append ?_)
    simp only [List.length_append, List.length_cons] at hb
    have : p + 1 + seg.length = pre.length + (seg.length + 1) := by omega
    rw [this]; exact hb

theorem OpenAt.snoc_plain {p : Nat} {tape : Tape} {x : BTok} (h : OpenAt p tape) (hx : x.isPlain = true) :
    OpenAt p (tape ++ [x]) :=
  h.append_items (Items.plain _ x [] hx (Items.nil _))

theorem Items.head0 {t : BTok} {l : Tape} (h : Items 0 (t :: l)) : t.isPlain = true := by
  cases h with
  | plain _ _ _ ht _ => exact ht
  | cont _ _ _ _ _ hs => exact absurd rfl hs

theorem OpenAt.zero {tape : Tape} (h : OpenAt 0 tape) : Items 0 tape := by
  cases h with
  | top h0 => exact h0
  | open_ _ _ hp _ _ => exact absurd rfl hp

theorem OpenAt.pos {p : Nat} {tape : Tape} (h : OpenAt p tape) (hp : p ≠ 0) :
    ∃ g pre t seg, tape = pre ++ t :: seg ∧ pre.length = p ∧ (t = .array g ∨ t = .object g) ∧
      OpenAt g pre ∧ Items (p + 1) seg := by
  cases h with
  | top _ => exact absurd rfl hp
  | open_ hg hl _ ht hseg => exact ⟨_, _, _, _, rfl, hl, ht, hg, hseg⟩

/-- at top level the slot 0 never holds a container start -/
theorem OpenAt.zero_slot {tape : Tape} (h : OpenAt 0 tape) (x : BTok) (hx : tape[0]? = some x) : x.isPlain = true := by
  have h0 := h.zero
  cases tape with
  | nil => simp at hx
  | cons t l => simp at hx; subst hx; exact h0.head0

theorem closeTo_eq {t' : Tape} {grand : Nat} {r : Tape × Nat × PState} (h : closeTo t' grand = .ok r) :
    r.1 = t' ∧ r.2.1 = grand ∧ (r.2.2 = .arrayValue → ∃ g, t'[grand]? = some (.array g)) ∧
    (r.2.2 = .arrayValue ∨ r.2.2 = .key) := by
  unfold closeTo at h
  split at h
  · rename_i e he; simp at h; subst h; exact ⟨rfl, rfl, fun _ => ⟨e, he⟩, Or.inl rfl⟩
  · simp at h; subst h; exact ⟨rfl, rfl, (by intro h; cases h), Or.inr rfl⟩
  · cases h

theorem pushEnd_open {tape : Tape} {p : Nat} {t' : Tape} {g' : Nat} {s' : PState}
    (h : pushEnd tape p = .ok (t', g', s')) (ho : OpenAt p tape) :
    OpenAt g' t' ∧ (s' = .arrayValue → ∃ g, t'[g']? = some (.array g)) ∧ (s' = .arrayValue ∨ s' = .key) := by
  by_cases hp : p = 0
  · subst hp
    unfold pushEnd at h
    split at h
    · rename_i g hg; have := ho.zero_slot _ hg; simp [BTok.isPlain] at this
    · rename_i g hg; have := ho.zero_slot _ hg; simp [BTok.isPlain] at this
    · cases h
  · obtain ⟨g, pre, t, seg, rfl, hl, ht, hg, hseg⟩ := ho.pos hp
    have hidx : (pre ++ t :: seg)[p]? = some t := by
      rw [← hl]; simp
    have hset : ∀ y, (pre ++ t :: seg).set p y = pre ++ y :: seg := by
      intro y; rw [← hl]; simp
    have hlen : (pre ++ t :: seg).length = p + 1 + seg.length := by simp; omega
    unfold pushEnd at h
    rw [hidx] at h
    rcases ht with rfl | rfl
    · simp only [hset] at h
      obtain ⟨h1, h2, h3, h4⟩ := closeTo_eq h
      simp only at h1 h2 h3 h4
      subst h1; have h2' := h2.symm; subst h2'
      refine ⟨?_, h3, h4⟩
      have : pre ++ BTok.array (pre ++ BTok.array g :: seg).length :: seg ++ [BTok.end_ p]
          = pre ++ (BTok.array (pre ++ BTok.array g :: seg).length :: (seg ++ BTok.end_ p :: [])) := by simp
      rw [this]
      refine hg.append_items ?_
      rw [hl]
      exact Items.cont p _ _ seg [] hp (Or.inl rfl) hlen hseg (Items.nil _)
    · simp only [hset] at h
      obtain ⟨h1, h2, h3, h4⟩ := closeTo_eq h
      simp only at h1 h2 h3 h4
      subst h1; have h2' := h2.symm; subst h2'
      refine ⟨?_, h3, h4⟩
      have : pre ++ BTok.object (pre ++ BTok.object g :: seg).length :: seg ++ [BTok.end_ p]
          = pre ++ (BTok.object (pre ++ BTok.object g :: seg).length :: (seg ++ BTok.end_ p :: [])) := by simp
      rw [this]
      refine hg.append_items ?_
      rw [hl]
      exact Items.cont p _ _ seg [] hp (Or.inr rfl) hlen hseg (Items.nil _)

/-- the structural invariant of the plain loop (`C06_bin_inv`): the tape is `OpenAt parent`; after
a key (and after a second scalar) the last one (two) plain tokens are set aside, because
`mixed_insert1/2` may still move them; while the container kind is undecided or `Array`, the parent
slot holds an `Array`; an empty tape only occurs in the initial `Key` state. -/
def TInv (tape : Tape) (parent : Nat) (state : PState) : Prop :=
  (match state with
    | .keyValueSeparator => ∃ t' x, tape = t' ++ [x] ∧ x.isPlain = true ∧ OpenAt parent t'
    | .objectToArray => ∃ t' x y, tape = t' ++ [x, y] ∧ x.isPlain = true ∧ y.isPlain = true ∧ OpenAt parent t'
    | _ => OpenAt parent tape) ∧
  ((state = .arrayValue ∨ state = .openFirst ∨ state = .openSecond) → ∃ g, tape[parent]? = some (.array g)) ∧
  (tape = [] → state = .key)

theorem TInv.openAt {tape : Tape} {parent : Nat} {state : PState} (h : TInv tape parent state) : OpenAt parent tape := by
  obtain ⟨h1, _, _⟩ := h
  cases state <;> simp only at h1
  all_goals first | exact h1 | skip
  · obtain ⟨t', x, rfl, hx, ho⟩ := h1; exact ho.snoc_plain hx
  · obtain ⟨t', x, y, rfl, hx, hy, ho⟩ := h1
    have : t' ++ [x, y] = t' ++ [x] ++ [y] := by simp
    rw [this]; exact (ho.snoc_plain hx).snoc_plain hy

/-- `r` appends one plain token -/
def AppendsP (r : Except Err (Tape × Bytes)) (tape : Tape) : Prop :=
  ∀ t' d', r = .ok (t', d') → ∃ x, t' = tape ++ [x] ∧ x.isPlain = true

theorem appendsP_fixed (n : Nat) (mk : Bytes → BTok) (hmk : ∀ b, (mk b).isPlain = true) (tape : Tape) (d : Bytes) :
    AppendsP (parseFixed n mk tape d) tape := by
  intro t' d' h
  exact ⟨_, (parseFixed_ok h).1, hmk _⟩

theorem getElem?_snoc_of_some {α} {l : List α} {i : Nat} {x y : α} (h : l[i]? = some x) : (l ++ [y])[i]? = some x := by
  rw [List.getElem?_append_left (getElem?_lt_length h)]; exact h

theorem scalarArm_inv {r : Except Err (Tape × Bytes)} {tape : Tape} {parent : Nat} {state : PState} {st' : St}
    (hr : AppendsP r tape) (h : scalarArm r parent state = .ok st') (hs : state ≠ .objectToArray)
    (hi : TInv tape parent state) : TInv st'.tape st'.parent st'.state := by
  unfold scalarArm at h
  cases r with
  | error e => cases h
  | ok p =>
    obtain ⟨t', d'⟩ := p
    obtain ⟨x, rfl, hx⟩ := hr t' d' rfl
    simp only at h
    have ho := hi.openAt
    obtain ⟨h1, h2, h3⟩ := hi
    cases state <;> simp at h <;> subst h <;> simp only at h1 ⊢
    · exact ⟨ho.snoc_plain hx, fun _ => by obtain ⟨g, hg⟩ := h2 (Or.inl rfl); exact ⟨g, getElem?_snoc_of_some hg⟩, by simp⟩
    · exact ⟨ho.snoc_plain hx, by simp, by simp⟩
    · exact ⟨ho.snoc_plain hx, by simp, by simp⟩
    · exact ⟨⟨tape, x, rfl, hx, ho⟩, by simp, by simp⟩
    · obtain ⟨t0, y, rfl, hy, ho0⟩ := h1
      exact ⟨⟨t0, y, x, by simp, hy, hx, ho0⟩, by simp, by simp⟩
    · exact absurd rfl hs
    · exact ⟨ho.snoc_plain hx, fun _ => by obtain ⟨g, hg⟩ := h2 (Or.inr (Or.inl rfl)); exact ⟨g, getElem?_snoc_of_some hg⟩, by simp⟩
    · exact ⟨ho.snoc_plain hx, fun _ => by obtain ⟨g, hg⟩ := h2 (Or.inr (Or.inr rfl)); exact ⟨g, getElem?_snoc_of_some hg⟩, by simp⟩

theorem openArm_inv {tape : Tape} {parent : Nat} {state : PState} {d : Bytes} {st' : St}
    (h : openArm tape parent state d = .ok st') (hi : TInv tape parent state) :
    TInv st'.tape st'.parent st'.state := by
  unfold openArm at h
  split at h
  · rename_i hk
    simp at h; subst h
    have hne : tape ≠ [] := fun he => hk (hi.2.2 he)
    have hlen : tape.length ≠ 0 := by cases tape <;> simp_all
    refine ⟨?_, fun _ => ⟨parent, by simp⟩, by simp⟩
    exact OpenAt.open_ hi.openAt rfl hlen (Or.inl rfl) (Items.nil _)
  · split at h
    · cases h
    · cases hr : readId d with
      | none => simp [hr] at h
      | some p =>
        obtain ⟨x, nd⟩ := p
        simp only [hr] at h
        split at h
        · simp at h; subst h; exact hi
        · cases h

theorem pushEnd_inv {tape : Tape} {p : Nat} {t' : Tape} {g' : Nat} {s' : PState}
    (h : pushEnd tape p = .ok (t', g', s')) (ho : OpenAt p tape) : TInv t' g' s' := by
  obtain ⟨h1, h2, h3⟩ := pushEnd_open h ho
  have hne : t' ≠ [] := by
    unfold pushEnd at h
    split at h
    · have := (closeTo_eq h).1; simp only at this; rw [this]; simp
    · have := (closeTo_eq h).1; simp only at this; rw [this]; simp
    · cases h
  rcases h3 with rfl | rfl
  · exact ⟨h1, fun _ => h2 rfl, fun he => absurd he hne⟩
  · exact ⟨h1, by simp, fun _ => rfl⟩

theorem closeArm_inv {tape : Tape} {parent : Nat} {state : PState} {d : Bytes} {st' : St}
    (h : closeArm tape parent state d = .ok st') (hs : state ≠ .objectToArray) (hi : TInv tape parent state) :
    TInv st'.tape st'.parent st'.state := by
  unfold closeArm at h
  simp only at h
  have key : ∀ tape1, OpenAt parent tape1 →
      (match pushEnd tape1 parent with
        | .error e => (Except.error e : Except Err St)
        | .ok (tape', parent', state') => Except.ok ⟨tape', parent', state', d⟩) = Except.ok st' →
      TInv st'.tape st'.parent st'.state := by
    intro tape1 ho hh
    cases hp : pushEnd tape1 parent with
    | error e => simp [hp] at hh
    | ok p =>
      obtain ⟨a, b, c⟩ := p
      simp [hp] at hh; subst hh
      exact pushEnd_inv hp ho
  cases state
  case keyValueSeparator =>
    obtain ⟨⟨t0, x, rfl, hx, ho⟩, _, _⟩ := hi
    have hm : mixedInsert1 (t0 ++ [x]) = .ok (t0 ++ [.mixed, x]) := by
      simp [mixedInsert1, pop?]
    simp only [hm] at h
    refine key _ ?_ h
    have : t0 ++ [BTok.mixed, x] = t0 ++ [BTok.mixed] ++ [x] := by simp
    rw [this]; exact (ho.snoc_plain rfl).snoc_plain hx
  case objectValue => simp at h
  case objectToArray => exact absurd rfl hs
  all_goals exact key _ hi.openAt h

theorem setParent_open {tape : Tape} {parent g : Nat} (ho : OpenAt parent tape) (hg : tape[parent]? = some (.array g)) :
    parent ≠ 0 ∧ ∃ pre seg, tape = pre ++ .array g :: seg ∧ pre.length = parent ∧ OpenAt g pre ∧ Items (parent + 1) seg := by
  have hp : parent ≠ 0 := by
    intro h0; subst h0
    have := ho.zero_slot _ hg; simp [BTok.isPlain] at this
  refine ⟨hp, ?_⟩
  obtain ⟨g', pre, t, seg, rfl, hl, ht, hgo, hseg⟩ := ho.pos hp
  have hidx : (pre ++ t :: seg)[parent]? = some t := by rw [← hl]; simp
  rw [hidx] at hg; simp at hg; subst hg
  rcases ht with h | h
  · simp at h; subst h; exact ⟨pre, seg, rfl, hl, hgo, hseg⟩
  · simp at h

theorem equalArm_inv {tape : Tape} {parent : Nat} {state : PState} {d : Bytes} {st' : St}
    (h : equalArm tape parent state d = .ok st') (hi : TInv tape parent state) :
    TInv st'.tape st'.parent st'.state := by
  have ho := hi.openAt
  obtain ⟨h1, h2, h3⟩ := hi
  unfold equalArm at h
  split at h
  · simp at h; subst h
    refine ⟨ho, by simp, ?_⟩
    intro he; obtain ⟨t0, x, rfl, _⟩ := h1; simp at he
  · cases hs : setParentToObject tape parent with
    | error e => simp [hs] at h
    | ok t' =>
      simp [hs] at h; subst h
      obtain ⟨e, he, rfl⟩ := setParentToObject_ok hs
      obtain ⟨hp, pre, seg, rfl, hl, hgo, hseg⟩ := setParent_open ho he
      have hset : (pre ++ BTok.array e :: seg).set parent (.object e) = pre ++ .object e :: seg := by
        rw [← hl]; simp
      refine ⟨?_, by simp, by simp [hset]⟩
      simp only [hset]
      exact OpenAt.open_ hgo hl hp (Or.inr rfl) hseg
  · simp at h; subst h
    exact ⟨ho.snoc_plain rfl, by simp, by simp⟩
  · cases hp : pop? tape with
    | none => simp [hp] at h
    | some p =>
      obtain ⟨t1, last⟩ := p
      have ht := pop?_length hp
      subst ht
      simp only [hp] at h
      obtain ⟨g, hg⟩ := h2 (Or.inl rfl)
      obtain ⟨hpne, pre, seg, hdec, hl, hgo, hseg⟩ := setParent_open ho hg
      -- the popped token is the last token of `seg`
      have hlast : (∃ i, last = .end_ i) ∨ last = .array g ∨
          (last.isPlain = true ∧ ∃ seg1, t1 = pre ++ .array g :: seg1 ∧ Items (parent + 1) seg1) := by
        rcases List.eq_nil_or_concat seg with hs | ⟨seg1, y, hs⟩
        · subst hs
          have := List.append_inj_right' (show t1 ++ [last] = pre ++ [BTok.array g] from hdec) (by simp)
          simp at this; exact Or.inr (Or.inl this)
        · rw [List.concat_eq_append] at hs; subst hs
          have e1 : t1 ++ [last] = (pre ++ BTok.array g :: seg1) ++ [y] := by simpa using hdec
          have e2 := List.append_inj_left' e1 (by simp)
          have e3 := List.append_inj_right' e1 (by simp)
          simp at e3; subst e3
          rcases hseg.unsnoc rfl with ⟨hpl, hs1⟩ | hend
          · exact Or.inr (Or.inr ⟨hpl, seg1, e2, hs1⟩)
          · exact Or.inl hend
      split at h
      · cases h
      · cases h
      · rename_i hna hne
        rcases hlast with ⟨i, rfl⟩ | rfl | ⟨hpl, seg1, rfl, hs1⟩
        · exact absurd rfl (hne i)
        · exact absurd rfl (hna g)
        · split at h
          · cases hs : setParentToObject (pre ++ BTok.array g :: seg1) parent with
            | error e => simp [hs] at h
            | ok t2 =>
              simp [hs] at h; subst h
              obtain ⟨e, he, rfl⟩ := setParentToObject_ok hs
              have hidx : (pre ++ BTok.array g :: seg1)[parent]? = some (.array g) := by rw [← hl]; simp
              rw [hidx] at he; simp at he; subst he
              have hset : (pre ++ BTok.array g :: seg1).set parent (.object g) = pre ++ .object g :: seg1 := by
                rw [← hl]; simp
              have htake : (pre ++ BTok.object g :: seg1).take (parent + 1) = pre ++ [.object g] := by
                rw [← hl]; simp [List.take_append, List.take_of_length_le]
              simp only [hset, htake]
              refine ⟨?_, by simp, by simp⟩
              have : pre ++ [BTok.object g] ++ [last] = pre ++ BTok.object g :: [last] := by simp
              rw [this]
              exact OpenAt.open_ hgo hl hpne (Or.inr rfl) (Items.plain _ last [] hpl (Items.nil _))
          · simp only [Except.ok.injEq] at h; subst h
            refine ⟨?_, by simp, by simp⟩
            simp only
            have ho1 : OpenAt parent (pre ++ BTok.array g :: seg1) := OpenAt.open_ hgo hl hpne (Or.inl rfl) hs1
            have : pre ++ BTok.array g :: seg1 ++ [BTok.mixed, last, BTok.equal]
                = pre ++ BTok.array g :: seg1 ++ [BTok.mixed] ++ [last] ++ [BTok.equal] := by simp
            rw [this]
            exact ((ho1.snoc_plain rfl).snoc_plain hpl).snoc_plain rfl
  · cases h

theorem tokenArm_inv {tape : Tape} {parent : Nat} {state : PState} {d : Bytes} {tok : Nat} {st' : St}
    (h : tokenArm false 0 tape parent state d tok = .ok st') (hs : state ≠ .objectToArray)
    (hi : TInv tape parent state) : TInv st'.tape st'.parent st'.state := by
  unfold tokenArm at h
  by_cases c1 : tok = L.u32
  · rw [if_pos c1] at h
    exact scalarArm_inv (appendsP_fixed _ _ (by intro _; rfl) _ _) h hs hi
  rw [if_neg c1] at h
  by_cases c2 : tok = L.u64
  · rw [if_pos c2] at h
    exact scalarArm_inv (appendsP_fixed _ _ (by intro _; rfl) _ _) h hs hi
  rw [if_neg c2] at h
  by_cases c3 : tok = L.i32
  · rw [if_pos c3] at h
    cases hsa : scalarArm (parseI32 tape d) parent state with
    | error e => simp [hsa] at h
    | ok st =>
      simp [hsa] at h; subst h
      exact scalarArm_inv (appendsP_fixed _ _ (by intro _; rfl) _ _) hsa hs hi
  rw [if_neg c3] at h
  by_cases c4 : tok = L.bool
  · rw [if_pos c4] at h
    refine scalarArm_inv ?_ h hs hi
    intro t' d' hh; obtain ⟨⟨b, hb⟩, _⟩ := parseBool_ok hh; exact ⟨_, hb, rfl⟩
  rw [if_neg c4] at h
  by_cases c5 : tok = L.quoted
  · rw [if_pos c5] at h
    refine scalarArm_inv ?_ h hs hi
    intro t' d' hh; obtain ⟨⟨b, hb⟩, _⟩ := parseQuoted_ok hh; exact ⟨_, hb, rfl⟩
  rw [if_neg c5] at h
  by_cases c6 : tok = L.unquoted
  · rw [if_pos c6] at h
    refine scalarArm_inv ?_ h hs hi
    intro t' d' hh; obtain ⟨⟨b, hb⟩, _⟩ := parseUnquoted_ok hh; exact ⟨_, hb, rfl⟩
  rw [if_neg c6] at h
  by_cases c7 : tok = L.f32
  · rw [if_pos c7] at h
    exact scalarArm_inv (appendsP_fixed _ _ (by intro _; rfl) _ _) h hs hi
  rw [if_neg c7] at h
  by_cases c8 : tok = L.f64
  · rw [if_pos c8] at h
    exact scalarArm_inv (appendsP_fixed _ _ (by intro _; rfl) _ _) h hs hi
  rw [if_neg c8] at h
  by_cases c9 : tok = L.open_
  · rw [if_pos c9] at h
    exact openArm_inv h hi
  rw [if_neg c9] at h
  by_cases c10 : tok = L.close
  · rw [if_pos c10] at h
    exact closeArm_inv h hs hi
  rw [if_neg c10] at h
  by_cases c11 : tok = L.equal
  · rw [if_pos c11] at h
    exact equalArm_inv h hi
  rw [if_neg c11] at h
  by_cases c12 : tok = L.rgb ∧ state = .objectValue
  · rw [if_pos c12] at h
    unfold parseRgb at h
    cases hr : readRgb d with
    | error e => simp [hr] at h
    | ok p =>
      obtain ⟨t, rest⟩ := p
      simp [hr] at h; subst h
      have hpl : t.isPlain = true := by
        unfold readRgb at hr
        repeat' split at hr
        all_goals first | (cases hr; done) | (simp at hr; obtain ⟨rfl, _⟩ := hr; rfl)
      obtain ⟨_, rfl⟩ := c12
      exact ⟨hi.openAt.snoc_plain hpl, by simp, by simp⟩
  rw [if_neg c12] at h
  by_cases c13 : tok = L.i64
  · rw [if_pos c13] at h
    exact scalarArm_inv (appendsP_fixed _ _ (by intro _; rfl) _ _) h hs hi
  rw [if_neg c13] at h
  refine scalarArm_inv ?_ h hs hi
  intro t' d' hh; simp at hh; obtain ⟨rfl, rfl⟩ := hh; exact ⟨_, rfl, rfl⟩

theorem dispatch_inv {tape : Tape} {parent : Nat} {state : PState} {d : Bytes} {tok : Nat} {st' : St}
    (h : dispatch false 0 tape parent state d tok = .ok st') (hi : TInv tape parent state) :
    TInv st'.tape st'.parent st'.state := by
  unfold dispatch at h
  split at h
  · rename_i hs; subst hs
    obtain ⟨⟨t0, x, y, rfl, hx, hy, ho⟩, _, _⟩ := hi
    have hm : mixedInsert2 (t0 ++ [x, y]) = .ok (t0 ++ [.mixed, x, y]) := by
      have e1 : pop? (t0 ++ [x, y]) = some (t0 ++ [x], y) := by
        have : t0 ++ [x, y] = (t0 ++ [x]) ++ [y] := by simp
        rw [this]; simp [pop?]
      have e2 : pop? (t0 ++ [x]) = some (t0, x) := by simp [pop?]
      simp [mixedInsert2, e1, e2]
    simp only [hm] at h
    refine tokenArm_inv h (by decide) ⟨?_, by simp, by simp⟩
    have : t0 ++ [BTok.mixed, x, y] = t0 ++ [BTok.mixed] ++ [x] ++ [y] := by simp
    simp only; rw [this]
    exact ((ho.snoc_plain rfl).snoc_plain hx).snoc_plain hy
  · rename_i hs
    exact tokenArm_inv h hs hi

theorem step_inv {st st' : St} (h : step st = .next st') (hi : TInv st.tape st.parent st.state) :
    TInv st'.tape st'.parent st'.state := by
  cases hr : readId st.data with
  | none => rw [step_done hr] at h; cases h
  | some p =>
    obtain ⟨tok, d⟩ := p
    rw [step_eq hr] at h
    cases hd : dispatch false 0 st.tape st.parent st.state d tok with
    | error e => simp [hd, Iter.ofExcept] at h
    | ok s => simp [hd, Iter.ofExcept] at h; subst h; exact dispatch_inv hd hi

theorem init_inv (data : Bytes) : TInv (init data).tape (init data).parent (init data).state :=
  ⟨OpenAt.top (Items.nil 0), by simp [init], fun _ => rfl⟩

theorem run_false_wf (f : Nat) : ∀ (n : Nat) (st : St) (toks : Tape), TInv st.tape st.parent st.state →
    run false f n st = .ok toks → WfBinTape toks := by
  intro n
  induction n with
  | zero => intro st toks _ h; simp [run] at h
  | succ n ih =>
    intro st toks hi h
    unfold run at h
    rw [iter_false] at h
    cases hs : step st with
    | done =>
      simp only [hs] at h
      unfold finish at h
      split at h
      · rename_i hc
        simp at h; subst h
        have ho := hi.openAt
        rw [hc.1] at ho
        exact ho.zero
      · cases h
    | err e => simp [hs] at h
    | next st' => simp only [hs] at h; exact ih st' toks (step_inv hs hi) h

/-- every tape the reference parser accepts is structurally sound -/
theorem parse_false_wf (data : Bytes) (toks : Tape) (h : parse false data = .ok toks) : WfBinTape toks :=
  run_false_wf _ _ (init data) toks (init_inv data) h

/-- every tape the optimised parser accepts is structurally sound -/
theorem parse_wf (opt : Bool) (data : Bytes) (toks : Tape) (h : parse opt data = .ok toks) : WfBinTape toks := by
  cases opt
  · exact parse_false_wf data toks h
  · rw [parse_true_eq_false] at h; exact parse_false_wf data toks h

end Jomini.BinTape
