import JominiModel.Model.TextDe
import JominiModel.Spec.TextDoc
import JominiModel.Proofs.TextDe
import JominiModel.Proofs.TextDeStream
import JominiModel.Proofs.TextDeTapeNested
/-
The streaming text deserializer under a broken stream (C19 truncation, C20 I/O faults).

The reader hands the deserializer a PREFIX of the fault-free tokens, then either an error
(`RTok.err`, lexer failure / I/O fault) or a clean-looking end.  Core lemma family ("DEP"): a
successful run depends only on the tokens it consumed -- if `run x = ok (a, q)` then `x = c ++ q`,
no `err` token is among the consumed `c`, and `run (c ++ y) = ok (a, y)` for every continuation `y`.
-/
namespace Jomini.TextDe
open Jomini Jomini.TextDoc

/-! ### consumed-prefix dependence of the reader primitives -/

theorem rSkip_dep : ∀ (x : List RTok) (d : Nat) (q : List RTok), rSkip x d = .ok q →
    ∃ c, x = c ++ q ∧ RTok.err ∉ c ∧ c ≠ [] ∧ ∀ y, rSkip (c ++ y) d = .ok y
  | [], d, q, h => by simp [rSkip] at h
  | t :: r, d, q, h => by
      cases t with
      | err => simp [rSkip] at h
      | open_ =>
        simp only [rSkip] at h
        obtain ⟨c, hx, he, _, hy⟩ := rSkip_dep r (d + 1) q h
        exact ⟨.open_ :: c, by simp [hx], by simp [he], by simp, fun y => by simp [rSkip, hy]⟩
      | close =>
        cases d with
        | zero =>
          simp only [rSkip, Except.ok.injEq] at h
          exact ⟨[.close], by simp [h], by simp, by simp, fun y => by simp [rSkip]⟩
        | succ d =>
          simp only [rSkip] at h
          obtain ⟨c, hx, he, _, hy⟩ := rSkip_dep r d q h
          exact ⟨.close :: c, by simp [hx], by simp [he], by simp, fun y => by simp [rSkip, hy]⟩
      | op o =>
        simp only [rSkip] at h
        obtain ⟨c, hx, he, _, hy⟩ := rSkip_dep r d q h
        exact ⟨.op o :: c, by simp [hx], by simp [he], by simp, fun y => by simp [rSkip, hy]⟩
      | unq s =>
        simp only [rSkip] at h
        obtain ⟨c, hx, he, _, hy⟩ := rSkip_dep r d q h
        exact ⟨.unq s :: c, by simp [hx], by simp [he], by simp, fun y => by simp [rSkip, hy]⟩
      | quo s =>
        simp only [rSkip] at h
        obtain ⟨c, hx, he, _, hy⟩ := rSkip_dep r d q h
        exact ⟨.quo s :: c, by simp [hx], by simp [he], by simp, fun y => by simp [rSkip, hy]⟩

theorem rRead_ok {x : List RTok} {t : RTok} {r : List RTok} (h : rRead x = .ok (t, r)) :
    x = t :: r ∧ t ≠ .err := by
  cases x with
  | nil => simp [rRead] at h
  | cons t' r' =>
    cases t' <;> simp only [rRead, Except.ok.injEq, Prod.mk.injEq, reduceCtorEq] at h <;>
      (obtain ⟨rfl, rfl⟩ := h; simp)

theorem rRead_cons {t : RTok} (ht : t ≠ .err) (r : List RTok) : rRead (t :: r) = .ok (t, r) := by
  cases t <;> simp_all [rRead]

theorem sSeqFold_step (F : RTok → List RTok → R (Val × List RTok)) (n : Nat) (t : RTok) (r : List RTok)
    (ht : t ≠ .err) (htc : t ≠ .close) :
    sSeqFold F (n + 1) (t :: r) =
      (match F t r with
       | .error e => .error e
       | .ok (v, r') =>
         match sSeqFold F n r' with
         | .error e => .error e
         | .ok (tl, r'') => .ok (v :: tl, r'')) := by
  cases t <;> simp_all [sSeqFold, rRead] <;> rfl

/-- element functions: what the A-run (`F`) yields, the B-run (`G`) yields on every continuation,
as long as fewer than `B` tokens were consumed -/
def DepElem {α : Type} (F G : RTok → List RTok → R (α × List RTok)) (B : Nat) : Prop :=
  ∀ t x a q, F t x = .ok (a, q) →
    ∃ c, x = c ++ q ∧ RTok.err ∉ c ∧ ∀ y, c.length < B → G t (c ++ y) = .ok (a, y)

/-- de.rs:597 `TextReaderSeq`: consumed-prefix dependence -/
theorem sSeqFold_dep (F G : RTok → List RTok → R (Val × List RTok)) (B : Nat) (H : DepElem F G B) :
    ∀ (n : Nat) (x : List RTok) (vs : List Val) (q : List RTok), sSeqFold F n x = .ok (vs, q) →
    ∃ c, x = c ++ q ∧ RTok.err ∉ c ∧ c ≠ [] ∧
      ∀ y m, c.length ≤ B → c.length < m → sSeqFold G m (c ++ y) = .ok (vs, y)
  | 0, x, vs, q, h => by simp [sSeqFold] at h
  | n + 1, x, vs, q, h => by
      simp only [sSeqFold] at h
      cases hr : rRead x with
      | error e => simp [hr] at h
      | ok tr =>
        obtain ⟨t, r⟩ := tr
        obtain ⟨rfl, hte⟩ := rRead_ok hr
        by_cases htc : t = .close
        · subst htc
          simp only [hr, Except.ok.injEq, Prod.mk.injEq] at h
          obtain ⟨rfl, rfl⟩ := h
          refine ⟨[.close], by simp, by simp, by simp, ?_⟩
          intro y m _ hm
          obtain ⟨m', rfl⟩ : ∃ m', m = m' + 1 := ⟨m - 1, by simp at hm; omega⟩
          simp [sSeqFold, rRead]
        · have h' : sSeqFold F (n + 1) (t :: r) = .ok (vs, q) := by
            simp only [sSeqFold]; exact h
          rw [sSeqFold_step F n t r hte htc] at h'
          cases hF : F t r with
          | error e => simp [hF] at h'
          | ok ar =>
            obtain ⟨a, r'⟩ := ar
            simp only [hF] at h'
            cases hS : sSeqFold F n r' with
            | error e => simp [hS] at h'
            | ok tlr =>
              obtain ⟨tl, r''⟩ := tlr
              simp only [hS, Except.ok.injEq, Prod.mk.injEq] at h'
              obtain ⟨rfl, rfl⟩ := h'
              obtain ⟨c1, hx1, he1, hy1⟩ := H t r a r' hF
              obtain ⟨c2, hx2, he2, _, hy2⟩ := sSeqFold_dep F G B H n r' tl r'' hS
              refine ⟨t :: (c1 ++ c2), by simp [hx1, hx2], ?_, by simp, ?_⟩
              · simp only [List.mem_cons, List.mem_append, not_or]
                exact ⟨fun h => hte h.symm, he1, he2⟩
              · intro y m hB hm
                simp only [List.length_cons, List.length_append] at hB hm
                obtain ⟨m', rfl⟩ : ∃ m', m = m' + 1 := ⟨m - 1, by omega⟩
                simp only [List.cons_append]
                rw [sSeqFold_step G m' t _ hte htc, List.append_assoc, hy1 (c2 ++ y) (by omega)]
                simp only [hy2 y m' (by omega) (by omega)]

/-- tyseed.rs `AnyVisitor` on the stream path: consumed-prefix dependence; the recursion fuel only has
to exceed the number of consumed tokens -/
theorem sAny_dep (enc : Enc) : ∀ (n : Nat) (tok : RTok) (x : List RTok) (v : Val) (q : List RTok),
    sAny enc n tok x = .ok (v, q) →
    ∃ c, x = c ++ q ∧ RTok.err ∉ c ∧ ∀ y m, c.length < m → sAny enc m tok (c ++ y) = .ok (v, y)
  | 0, tok, x, v, q, h => by simp [sAny] at h
  | n + 1, tok, x, v, q, h => by
      cases tok with
      | close => simp [sAny] at h
      | err => simp [sAny] at h
      | op o =>
        simp only [sAny, Except.ok.injEq, Prod.mk.injEq] at h
        obtain ⟨rfl, rfl⟩ := h
        exact ⟨[], by simp, by simp, fun y m hm => by
          obtain ⟨m', rfl⟩ : ∃ m', m = m' + 1 := ⟨m - 1, by simp at hm; omega⟩
          simp [sAny]⟩
      | unq s =>
        simp only [sAny, Except.ok.injEq, Prod.mk.injEq] at h
        obtain ⟨rfl, rfl⟩ := h
        exact ⟨[], by simp, by simp, fun y m hm => by
          obtain ⟨m', rfl⟩ : ∃ m', m = m' + 1 := ⟨m - 1, by simp at hm; omega⟩
          simp [sAny]⟩
      | quo s =>
        simp only [sAny, Except.ok.injEq, Prod.mk.injEq] at h
        obtain ⟨rfl, rfl⟩ := h
        exact ⟨[], by simp, by simp, fun y m hm => by
          obtain ⟨m', rfl⟩ : ∃ m', m = m' + 1 := ⟨m - 1, by simp at hm; omega⟩
          simp [sAny]⟩
      | open_ =>
        simp only [sAny] at h
        cases hS : sSeqFold (sAny enc n) (x.length + 1) x with
        | error e => simp [hS] at h
        | ok vr =>
          obtain ⟨vs, r⟩ := vr
          simp only [hS, Except.ok.injEq, Prod.mk.injEq] at h
          obtain ⟨rfl, rfl⟩ := h
          have hdep : ∀ m', DepElem (sAny enc n) (sAny enc m') m' := by
            intro m' t x' a q' hF
            obtain ⟨c, hx, he, hy⟩ := sAny_dep enc n t x' a q' hF
            exact ⟨c, hx, he, fun y hlt => hy y m' hlt⟩
          obtain ⟨c, hx, he, _, _⟩ := sSeqFold_dep _ _ 0 (hdep 0) _ x vs r hS
          refine ⟨c, hx, he, ?_⟩
          intro y m hm
          obtain ⟨m', rfl⟩ : ∃ m', m = m' + 1 := ⟨m - 1, by omega⟩
          obtain ⟨c', hx', _, _, hy'⟩ := sSeqFold_dep _ _ m' (hdep m') _ x vs r hS
          have hcc : c' = c := List.append_cancel_right (hx'.symm.trans hx)
          subst hcc
          simp only [sAny]
          rw [hy' y ((c' ++ y).length + 1) (by omega) (by simp; omega)]

/-! ### the map loop -/

/-- `next_value_seed`: `read_expect_equals`, the value token after an operator, the value -/
def sField {σ κ : Type} (V : σ → κ → RTok → Op → List RTok → R (σ × List RTok)) (st : σ) (kk : κ)
    (r : List RTok) : R (σ × List RTok) :=
  match rRead r with
  | .error x => .error x
  | .ok (.op o, r1) =>
    (match rRead r1 with
     | .error x => .error x
     | .ok (t, r2) => V st kk t o r2)
  | .ok (t, r1) => V st kk t .eq r1

def RTok.isKey : RTok → Bool
  | .op _ | .unq _ | .quo _ => true
  | _ => false

theorem sMapFold_key {σ κ : Type} (root : Bool) (K : σ → RTok → R κ)
    (V : σ → κ → RTok → Op → List RTok → R (σ × List RTok)) (n : Nat) (k : RTok) (hk : k.isKey = true)
    (r : List RTok) (st : σ) :
    sMapFold root K V (n + 1) (k :: r) st =
      match K st k with
      | .error x => .error x
      | .ok kk =>
        match sField V st kk r with
        | .error x => .error x
        | .ok (st', r3) => sMapFold root K V n r3 st' := by
  cases k <;> simp [RTok.isKey] at hk <;>
  · simp only [sMapFold, rNext, sField]
    cases K st _ with
    | error e => rfl
    | ok kk =>
      simp only []
      cases hr : rRead r with
      | error e => rfl
      | ok tr =>
        obtain ⟨t, r1⟩ := tr
        cases t <;> simp only [] <;> try rfl
        cases rRead r1 with
        | error e => rfl
        | ok tr2 => rfl

def DepVal {σ κ : Type} (V V' : σ → κ → RTok → Op → List RTok → R (σ × List RTok)) (B : Nat) : Prop :=
  ∀ st kk t o x st' q, V st kk t o x = .ok (st', q) →
    ∃ c, x = c ++ q ∧ RTok.err ∉ c ∧ ∀ y, c.length < B → V' st kk t o (c ++ y) = .ok (st', y)

theorem sField_dep {σ κ : Type} (V V' : σ → κ → RTok → Op → List RTok → R (σ × List RTok)) (B : Nat)
    (H : DepVal V V' B) (st : σ) (kk : κ) (r : List RTok) (st' : σ) (q : List RTok)
    (h : sField V st kk r = .ok (st', q)) :
    ∃ c, r = c ++ q ∧ RTok.err ∉ c ∧ c ≠ [] ∧ ∀ y, c.length ≤ B → sField V' st kk (c ++ y) = .ok (st', y) := by
  unfold sField at h
  cases hr : rRead r with
  | error e => simp [hr] at h
  | ok tr =>
    obtain ⟨t, r1⟩ := tr
    obtain ⟨rfl, hte⟩ := rRead_ok hr
    by_cases hop : ∃ o, t = .op o
    · obtain ⟨o, rfl⟩ := hop
      simp only [hr] at h
      cases hr2 : rRead r1 with
      | error e => simp [hr2] at h
      | ok tr2 =>
        obtain ⟨t2, r2⟩ := tr2
        obtain ⟨rfl, hte2⟩ := rRead_ok hr2
        simp only [hr2] at h
        obtain ⟨c, hx, he, hy⟩ := H st kk t2 o r2 st' q h
        refine ⟨.op o :: t2 :: c, by simp [hx], ?_, by simp, ?_⟩
        · simp only [List.mem_cons, not_or]; exact ⟨by simp, fun h => hte2 h.symm, he⟩
        · intro y hB
          simp only [List.length_cons] at hB
          simp only [sField, List.cons_append, rRead, rRead_cons hte2]
          exact hy y (by omega)
    · have h' : V st kk t .eq r1 = .ok (st', q) := by
        cases t <;> simp_all
      obtain ⟨c, hx, he, hy⟩ := H st kk t .eq r1 st' q h'
      refine ⟨t :: c, by simp [hx], ?_, by simp, ?_⟩
      · simp only [List.mem_cons, not_or]; exact ⟨fun h => hte h.symm, he⟩
      · intro y hB
        simp only [List.length_cons] at hB
        have : sField V' st kk (t :: (c ++ y)) = V' st kk t .eq (c ++ y) := by
          cases t <;> simp_all [sField, rRead]
        simp only [List.cons_append, this]
        exact hy y (by omega)

/-- how a successful map loop ended: with a `Close` (then it depends only on the consumed tokens), or --
root only -- with the end of the stream (then a longer stream continues from the state reached) -/
def MapDep {σ κ : Type} (root : Bool) (K : σ → RTok → R κ)
    (V' : σ → κ → RTok → Op → List RTok → R (σ × List RTok)) (B : Nat)
    (x : List RTok) (st st' : σ) (q : List RTok) : Prop :=
  (∃ c, x = c ++ q ∧ RTok.err ∉ c ∧ c ≠ [] ∧
      ∀ y m, c.length ≤ B → c.length < m → sMapFold root K V' m (c ++ y) st = .ok (st', y))
  ∨ (root = true ∧ q = [] ∧ RTok.err ∉ x ∧ ∃ j, j ≤ x.length ∧
      ∀ s m, x.length ≤ B → j ≤ m → sMapFold root K V' m (x ++ s) st = sMapFold root K V' (m - j) s st')

theorem sMapFold_dep {σ κ : Type} (root : Bool) (K : σ → RTok → R κ)
    (V V' : σ → κ → RTok → Op → List RTok → R (σ × List RTok)) (B : Nat) (H : DepVal V V' B) :
    ∀ (n : Nat) (x : List RTok) (st st' : σ) (q : List RTok),
    sMapFold root K V n x st = .ok (st', q) → MapDep root K V' B x st st' q
  | 0, x, st, st', q, h => by simp [sMapFold] at h
  | n + 1, [], st, st', q, h => by
      cases root with
      | false => simp [sMapFold, rNext] at h
      | true =>
        simp only [sMapFold, rNext, ↓reduceIte, Except.ok.injEq, Prod.mk.injEq] at h
        obtain ⟨rfl, rfl⟩ := h
        exact Or.inr ⟨rfl, rfl, by simp, 0, by simp, fun s m _ _ => by simp⟩
  | n + 1, t :: r, st, st', q, h => by
      cases ht : t with
      | err => subst ht; simp [sMapFold, rNext] at h
      | close =>
        subst ht
        simp only [sMapFold, rNext, Except.ok.injEq, Prod.mk.injEq] at h
        obtain ⟨rfl, rfl⟩ := h
        refine Or.inl ⟨[.close], by simp, by simp, by simp, ?_⟩
        intro y m _ hm
        obtain ⟨m', rfl⟩ : ∃ m', m = m' + 1 := ⟨m - 1, by simp at hm; omega⟩
        simp [sMapFold, rNext]
      | open_ =>
        subst ht
        simp only [sMapFold, rNext] at h
        cases hs : rSkip r 0 with
        | error e => simp [hs] at h
        | ok r' =>
          simp only [hs] at h
          obtain ⟨c1, hx1, he1, _, hy1⟩ := rSkip_dep r 0 r' hs
          rcases sMapFold_dep root K V V' B H n r' st st' q h with ⟨c2, hx2, he2, _, hy2⟩ | ⟨hroot, hq, he2, j, hj, hcont⟩
          · refine Or.inl ⟨.open_ :: (c1 ++ c2), by simp [hx1, hx2], by simp [he1, he2], by simp, ?_⟩
            intro y m hB hm
            simp only [List.length_cons, List.length_append] at hB hm
            obtain ⟨m', rfl⟩ : ∃ m', m = m' + 1 := ⟨m - 1, by omega⟩
            simp only [List.cons_append, List.append_assoc, sMapFold, rNext, hy1]
            exact hy2 y m' (by omega) (by omega)
          · subst hq
            refine Or.inr ⟨hroot, rfl, by simp [hx1, he1, he2], j + 1, by simp [hx1]; omega, ?_⟩
            intro s m hB hm
            simp only [hx1, List.length_cons, List.length_append] at hB
            obtain ⟨m', rfl⟩ : ∃ m', m = m' + 1 := ⟨m - 1, by omega⟩
            simp only [hx1, List.cons_append, List.append_assoc, sMapFold, rNext, hy1]
            rw [hcont s m' (by omega) (by omega)]
            congr 1; omega
      | _ =>
        have hk : t.isKey = true := by rw [ht]; rfl
        rw [← ht]
        rw [sMapFold_key root K V n t hk r st] at h
        cases hK : K st t with
        | error e => simp [hK] at h
        | ok kk =>
          simp only [hK] at h
          cases hF : sField V st kk r with
          | error e => simp [hF] at h
          | ok sr =>
            obtain ⟨st1, r3⟩ := sr
            simp only [hF] at h
            have hte : t ≠ .err := by rw [ht]; simp
            obtain ⟨c1, hx1, he1, _, hy1⟩ := sField_dep V V' B H st kk r st1 r3 hF
            rcases sMapFold_dep root K V V' B H n r3 st1 st' q h with ⟨c2, hx2, he2, _, hy2⟩ | ⟨hroot, hq, he2, j, hj, hcont⟩
            · refine Or.inl ⟨t :: (c1 ++ c2), by simp [hx1, hx2], ?_, by simp, ?_⟩
              · simp only [List.mem_cons, List.mem_append, not_or]
                exact ⟨fun h => hte h.symm, he1, he2⟩
              · intro y m hB hm
                simp only [List.length_cons, List.length_append] at hB hm
                obtain ⟨m', rfl⟩ : ∃ m', m = m' + 1 := ⟨m - 1, by omega⟩
                simp only [List.cons_append, List.append_assoc]
                rw [sMapFold_key root K V' m' t hk, hK]
                simp only [hy1 (c2 ++ y) (by omega)]
                exact hy2 y m' (by omega) (by omega)
            · subst hq
              refine Or.inr ⟨hroot, rfl, ?_, j + 1, by simp [hx1]; omega, ?_⟩
              · simp only [hx1, List.mem_cons, List.mem_append, not_or]
                exact ⟨fun h => hte h.symm, he1, he2⟩
              · intro s m hB hm
                simp only [hx1, List.length_cons, List.length_append] at hB
                obtain ⟨m', rfl⟩ : ∃ m', m = m' + 1 := ⟨m - 1, by omega⟩
                simp only [hx1, List.cons_append, List.append_assoc]
                rw [sMapFold_key root K V' m' t hk, hK]
                simp only [hy1 (r3 ++ s) (by omega)]
                rw [hcont s m' (by omega) (by omega)]
                congr 1; omega

/-! ### the value deserializer -/

theorem map_pair_ok {α β : Type} {r : R α} {g : α → β} {x q : List RTok} {b : β}
    (h : r.map (fun v => (g v, x)) = .ok (b, q)) : q = x ∧ ∃ a, r = .ok a ∧ b = g a := by
  cases r with
  | error e => simp [Except.map] at h
  | ok a =>
    simp only [Except.map, Except.ok.injEq, Prod.mk.injEq] at h
    exact ⟨h.2.symm, a, rfl, h.1.symm⟩

/-- tuple loop on the stream path: consumed-prefix dependence -/
theorem sTupFold_dep (F : Ty → RTok → List RTok → R (Val × List RTok))
    (H : ∀ t tok x a q, F t tok x = .ok (a, q) → ∃ c, x = c ++ q ∧ RTok.err ∉ c ∧ ∀ y, F t tok (c ++ y) = .ok (a, y)) :
    ∀ (ts : List Ty) (x : List RTok) (vs : List Val) (q : List RTok), sTupFold F ts x = .ok (vs, q) →
    ∃ c, x = c ++ q ∧ RTok.err ∉ c ∧ ∀ y, sTupFold F ts (c ++ y) = .ok (vs, y)
  | [], x, vs, q, h => by
      simp only [sTupFold, Except.ok.injEq, Prod.mk.injEq] at h
      obtain ⟨rfl, rfl⟩ := h
      exact ⟨[], by simp, by simp, fun y => by simp [sTupFold]⟩
  | t :: rest, x, vs, q, h => by
      simp only [sTupFold] at h
      cases hr : rRead x with
      | error e => simp [hr] at h
      | ok tr =>
        obtain ⟨tok, r⟩ := tr
        obtain ⟨rfl, hte⟩ := rRead_ok hr
        by_cases htc : tok = .close
        · subst htc; simp [hr] at h
        · have hrr : ∀ z, rRead (tok :: z) = .ok (tok, z) := fun z => rRead_cons hte z
          have hstep : ∀ z, sTupFold F (t :: rest) (tok :: z) =
              (match F t tok z with
               | .error e => .error e
               | .ok (v, r') =>
                 match sTupFold F rest r' with
                 | .error e => .error e
                 | .ok (tl, r'') => .ok (v :: tl, r'')) := by
            intro z; cases tok <;> simp_all [sTupFold, rRead] <;> rfl
          have h' : sTupFold F (t :: rest) (tok :: r) = .ok (vs, q) := by simp only [sTupFold]; exact h
          rw [hstep] at h'
          cases hF : F t tok r with
          | error e => simp [hF] at h'
          | ok ar =>
            obtain ⟨a, r'⟩ := ar
            simp only [hF] at h'
            cases hS : sTupFold F rest r' with
            | error e => simp [hS] at h'
            | ok tlr =>
              obtain ⟨tl, r''⟩ := tlr
              simp only [hS, Except.ok.injEq, Prod.mk.injEq] at h'
              obtain ⟨rfl, rfl⟩ := h'
              obtain ⟨c1, hx1, he1, hy1⟩ := H t tok r a r' hF
              obtain ⟨c2, hx2, he2, hy2⟩ := sTupFold_dep F H rest r' tl r'' hS
              refine ⟨tok :: (c1 ++ c2), by simp [hx1, hx2], ?_, ?_⟩
              · simp only [List.mem_cons, List.mem_append, not_or]
                exact ⟨fun h => hte h.symm, he1, he2⟩
              · intro y
                simp only [List.cons_append]
                rw [hstep, List.append_assoc, hy1 (c2 ++ y)]
                simp only [hy2 y]

/-- the dependence statement for one value deserializer call -/
def SdeDep (enc : Enc) (f : Nat) : Prop :=
  ∀ ty tok op x v q, sde enc f ty tok op x = .ok (v, q) →
    ∃ c, x = c ++ q ∧ RTok.err ∉ c ∧ ∀ y, sde enc f ty tok op (c ++ y) = .ok (v, y)

theorem depVal_struct (enc : Enc) (f : Nat) (ih : SdeDep enc f) (B : Nat) :
    DepVal (sStructVal (sde enc f)) (sStructVal (sde enc f)) B := by
  intro st kk t o x st' q h
  cases kk with
  | none =>
    simp only [sStructVal] at h
    cases hs : sde enc f .ign t o x with
    | error e => simp [hs, Except.map] at h
    | ok vr =>
      obtain ⟨v, r⟩ := vr
      simp only [hs, Except.map, Except.ok.injEq, Prod.mk.injEq] at h
      obtain ⟨rfl, rfl⟩ := h
      obtain ⟨c, hx, he, hy⟩ := ih .ign t o x v r hs
      exact ⟨c, hx, he, fun y _ => by simp [sStructVal, hy y, Except.map]⟩
  | some it =>
    obtain ⟨i, ty⟩ := it
    simp only [sStructVal] at h
    cases hs : sde enc f ty t o x with
    | error e => simp [hs, Except.map] at h
    | ok vr =>
      obtain ⟨v, r⟩ := vr
      simp only [hs, Except.map, Except.ok.injEq, Prod.mk.injEq] at h
      obtain ⟨rfl, rfl⟩ := h
      obtain ⟨c, hx, he, hy⟩ := ih ty t o x v r hs
      exact ⟨c, hx, he, fun y _ => by simp [sStructVal, hy y, Except.map]⟩

theorem depVal_map (enc : Enc) (f : Nat) (ih : SdeDep enc f) (t : Ty) (B : Nat) :
    DepVal (sMapVal (sde enc f) t) (sMapVal (sde enc f) t) B := by
  intro st name tk o x st' q h
  simp only [sMapVal] at h
  cases hs : sde enc f t tk o x with
  | error e => simp [hs, Except.map] at h
  | ok vr =>
    obtain ⟨v, r⟩ := vr
    simp only [hs, Except.map, Except.ok.injEq, Prod.mk.injEq] at h
    obtain ⟨rfl, rfl⟩ := h
    obtain ⟨c, hx, he, hy⟩ := ih t tk o x v r hs
    exact ⟨c, hx, he, fun y _ => by simp [sMapVal, hy y, Except.map]⟩

theorem mapDep_nonroot {σ κ : Type} {K : σ → RTok → R κ}
    {V' : σ → κ → RTok → Op → List RTok → R (σ × List RTok)} {B : Nat} {x : List RTok} {st st' : σ} {q : List RTok}
    (h : MapDep false K V' B x st st' q) :
    ∃ c, x = c ++ q ∧ RTok.err ∉ c ∧ c ≠ [] ∧
      ∀ y m, c.length ≤ B → c.length < m → sMapFold false K V' m (c ++ y) st = .ok (st', y) := by
  rcases h with h | ⟨hr, _⟩
  · exact h
  · simp at hr

theorem sde_dep (enc : Enc) : ∀ (f : Nat), SdeDep enc f := by
  intro f
  induction f with
  | zero => intro ty tok op x v q h; simp [sde] at h
  | succ f ih =>
    intro ty tok op x v q h
    cases ty with
    | bool | i64 | u64 | i32 | u32 | i16 | u16 | i8 | u8 | f64 | f32 =>
      simp only [sde] at h
      obtain ⟨rfl, a, ha, rfl⟩ := map_pair_ok (g := id) h
      exact ⟨[], by simp, by simp, fun y => by simp [sde, ha, Except.map]⟩
    | str =>
      simp only [sde] at h
      obtain ⟨rfl, a, ha, rfl⟩ := map_pair_ok (g := Val.str) h
      exact ⟨[], by simp, by simp, fun y => by simp [sde, ha, Except.map]⟩
    | any =>
      simp only [sde] at h
      obtain ⟨c, hx, he, hy⟩ := sAny_dep enc _ tok x v q h
      exact ⟨c, hx, he, fun y => by simp only [sde]; exact hy y _ (by simp; omega)⟩
    | ign =>
      simp only [sde] at h
      by_cases hto : tok = .open_
      · subst hto
        simp only [] at h
        cases hs : rSkip x 0 with
        | error e => simp [hs, Except.map] at h
        | ok r =>
          simp only [hs, Except.map, Except.ok.injEq, Prod.mk.injEq] at h
          obtain ⟨rfl, rfl⟩ := h
          obtain ⟨c, hx, he, _, hy⟩ := rSkip_dep x 0 r hs
          exact ⟨c, hx, he, fun y => by simp [sde, hy y, Except.map]⟩
      · have h' : (Except.ok (Val.ign, x) : R (Val × List RTok)) = .ok (v, q) := by
          cases tok <;> simp_all
        simp only [Except.ok.injEq, Prod.mk.injEq] at h'
        obtain ⟨rfl, rfl⟩ := h'
        exact ⟨[], by simp, by simp, fun y => by cases tok <;> simp_all [sde]⟩
    | opt t =>
      simp only [sde] at h
      cases hs : sde enc f t tok op x with
      | error e => simp [hs, Except.map] at h
      | ok vr =>
        obtain ⟨v1, r⟩ := vr
        simp only [hs, Except.map, Except.ok.injEq, Prod.mk.injEq] at h
        obtain ⟨rfl, rfl⟩ := h
        obtain ⟨c, hx, he, hy⟩ := ih t tok op x v1 r hs
        exact ⟨c, hx, he, fun y => by simp [sde, hy y, Except.map]⟩
    | prop t =>
      simp only [sde] at h
      cases hs : sde enc f t tok .eq x with
      | error e => simp [hs, Except.map] at h
      | ok vr =>
        obtain ⟨v1, r⟩ := vr
        simp only [hs, Except.map, Except.ok.injEq, Prod.mk.injEq] at h
        obtain ⟨rfl, rfl⟩ := h
        obtain ⟨c, hx, he, hy⟩ := ih t tok .eq x v1 r hs
        exact ⟨c, hx, he, fun y => by simp [sde, hy y, Except.map]⟩
    | en vs =>
      simp only [sde] at h
      cases hs : sStr enc tok with
      | error e => simp [hs] at h
      | ok name =>
        simp only [hs] at h
        split at h
        · simp only [Except.ok.injEq, Prod.mk.injEq] at h
          obtain ⟨rfl, rfl⟩ := h
          exact ⟨[], by simp, by simp, fun y => by simp_all [sde]⟩
        · simp at h
    | tup ts =>
      simp only [sde] at h
      cases hS : sTupFold (fun t tok r => sde enc f t tok .eq r) ts x with
      | error e => simp [hS] at h
      | ok vr =>
        obtain ⟨vs, r⟩ := vr
        simp only [hS] at h
        cases hr : rRead r with
        | error e => simp [hr] at h
        | ok tr =>
          obtain ⟨tok', r'⟩ := tr
          obtain ⟨rfl, hte⟩ := rRead_ok hr
          by_cases htc : tok' = .close
          · subst htc
            simp only [hr, Except.ok.injEq, Prod.mk.injEq] at h
            obtain ⟨rfl, rfl⟩ := h
            obtain ⟨c, hx, he, hy⟩ := sTupFold_dep _ (fun t tok x a q hF => ih t tok .eq x a q hF) ts x vs _ hS
            refine ⟨c ++ [.close], by simp [hx], by simp [he], fun y => ?_⟩
            simp only [sde, List.append_assoc, List.singleton_append, hy (RTok.close :: y), rRead]
          · cases tok' <;> simp_all [rRead]
    | seq t =>
      simp only [sde] at h
      cases hS : sSeqFold (fun t' r => sde enc f t t' .eq r) (x.length + 1) x with
      | error e => simp [hS] at h
      | ok vr =>
        obtain ⟨vs, r⟩ := vr
        simp only [hS, Except.ok.injEq, Prod.mk.injEq] at h
        obtain ⟨rfl, rfl⟩ := h
        have hdep : DepElem (fun t' r => sde enc f t t' .eq r) (fun t' r => sde enc f t t' .eq r) x.length := by
          intro t' x' a q' hF
          obtain ⟨c, hx, he, hy⟩ := ih t t' .eq x' a q' hF
          exact ⟨c, hx, he, fun y _ => hy y⟩
        obtain ⟨c, hx, he, _, hy⟩ := sSeqFold_dep _ _ _ hdep _ x vs r hS
        refine ⟨c, hx, he, fun y => ?_⟩
        have hcl : c.length ≤ x.length := by rw [hx]; simp
        simp only [sde]
        rw [hy y ((c ++ y).length + 1) hcl (by simp; omega)]
    | map t =>
      simp only [sde] at h
      cases tok with
      | open_ =>
        simp only [] at h
        cases hM : sMapFold false (fun _ k => sKeyName enc k) (sMapVal (sde enc f) t) (x.length + 1) x [] with
        | error e => simp [hM] at h
        | ok sr =>
          obtain ⟨kvs, r⟩ := sr
          simp only [hM, Except.ok.injEq, Prod.mk.injEq] at h
          obtain ⟨rfl, rfl⟩ := h
          obtain ⟨c, hx, he, _, hy⟩ := mapDep_nonroot (sMapFold_dep false _ _ _ x.length (depVal_map enc f ih t _) _ x [] kvs r hM)
          refine ⟨c, hx, he, fun y => ?_⟩
          have hcl : c.length ≤ x.length := by rw [hx]; simp
          simp only [sde]
          rw [hy y ((c ++ y).length + 1) hcl (by simp; omega)]
      | close => simp at h
      | op o => simp at h
      | unq s => simp at h
      | quo s => simp at h
      | err => simp at h
    | st fs =>
      simp only [sde] at h
      cases tok with
      | open_ =>
        simp only [] at h
        cases hM : sMapFold false (sStructKey enc fs) (sStructVal (sde enc f)) (x.length + 1) x [] with
        | error e => simp [hM] at h
        | ok sr =>
          obtain ⟨seen, r⟩ := sr
          simp only [hM] at h
          cases hfin : structFinish fs 0 seen with
          | error e => simp [hfin, Except.map] at h
          | ok out =>
            simp only [hfin, Except.map, Except.ok.injEq, Prod.mk.injEq] at h
            obtain ⟨rfl, rfl⟩ := h
            obtain ⟨c, hx, he, _, hy⟩ := mapDep_nonroot (sMapFold_dep false _ _ _ x.length (depVal_struct enc f ih _) _ x [] seen r hM)
            refine ⟨c, hx, he, fun y => ?_⟩
            have hcl : c.length ≤ x.length := by rw [hx]; simp
            simp only [sde]
            rw [hy y ((c ++ y).length + 1) hcl (by simp; omega)]
            simp [hfin, Except.map]
      | close => simp at h
      | op o => simp at h
      | unq s => simp at h
      | quo s => simp at h
      | err => simp at h

/-! ### (a) a stream that breaks with an error -/

theorem cut_err_suffix : ∀ (c p q : List RTok), p ++ [RTok.err] = c ++ q → RTok.err ∉ c →
    ∃ q', q = q' ++ [RTok.err] ∧ p = c ++ q'
  | [], p, q, h, _ => ⟨p, by simpa using h.symm, by simp⟩
  | a :: c', [], q, h, he => by
      simp only [List.nil_append, List.cons_append, List.cons.injEq] at h
      exact absurd (by simp [h.1]) he
  | a :: c', b :: p', q, h, he => by
      simp only [List.cons_append, List.cons.injEq] at h
      obtain ⟨q', hq, hp⟩ := cut_err_suffix c' p' q h.2 (fun hm => he (List.mem_cons_of_mem _ hm))
      exact ⟨q', hq, by simp [h.1, hp]⟩

/-- the root map loop: replacing the trailing error marker by any continuation does not change a
successful result (the loop stopped before the marker) -/
theorem rootFold_replace {σ κ : Type} (K : σ → RTok → R κ)
    (V : σ → κ → RTok → Op → List RTok → R (σ × List RTok)) (H : ∀ B, DepVal V V B)
    (p s : List RTok) (st st' : σ) (q : List RTok)
    (h : sMapFold true K V ((p ++ [RTok.err]).length + 1) (p ++ [RTok.err]) st = .ok (st', q)) :
    ∃ q2, sMapFold true K V ((p ++ s).length + 1) (p ++ s) st = .ok (st', q2) := by
  rcases sMapFold_dep true K V V (p ++ [RTok.err]).length (H _) _ _ st st' q h with
    ⟨c, hx, he, _, hy⟩ | ⟨_, _, he, _⟩
  · obtain ⟨q', rfl, rfl⟩ := cut_err_suffix c p q hx he
    refine ⟨q' ++ s, ?_⟩
    rw [List.append_assoc]
    exact hy (q' ++ s) _ (by simp) (by simp; omega)
  · exact absurd (by simp) he

theorem depVal_propRoot (enc : Enc) (f : Nat) (t : Ty) (B : Nat) :
    DepVal (fun (st : Option Op × Option Val) (name : Bytes) (t' : RTok) (o : Op) (r : List RTok) =>
        if name = operatorKey then
          (match t' with
           | .close => (.error .other : R ((Option Op × Option Val) × List RTok))
           | _ => .error .type)
        else if name = valueKey then (sde enc f t t' o r).map (fun (v, r') => ((st.1, some v), r'))
        else (sde enc f .ign t' o r).map (fun (_, r') => (st, r')))
      (fun (st : Option Op × Option Val) (name : Bytes) (t' : RTok) (o : Op) (r : List RTok) =>
        if name = operatorKey then
          (match t' with
           | .close => (.error .other : R ((Option Op × Option Val) × List RTok))
           | _ => .error .type)
        else if name = valueKey then (sde enc f t t' o r).map (fun (v, r') => ((st.1, some v), r'))
        else (sde enc f .ign t' o r).map (fun (_, r') => (st, r'))) B := by
  intro st name t' o x st' q h
  by_cases h1 : name = operatorKey
  · simp only [h1, ↓reduceIte] at h
    split at h <;> cases h
  · by_cases h2 : name = valueKey
    · subst h2
      have hvo : ¬ valueKey = operatorKey := by decide
      simp only [hvo, ↓reduceIte] at h
      cases hs : sde enc f t t' o x with
      | error e => simp [hs, Except.map] at h
      | ok vr =>
        obtain ⟨v, r⟩ := vr
        simp only [hs, Except.map, Except.ok.injEq, Prod.mk.injEq] at h
        obtain ⟨rfl, rfl⟩ := h
        obtain ⟨c, hx, he, hy⟩ := sde_dep enc f t t' o x v r hs
        exact ⟨c, hx, he, fun y _ => by simp [hvo, hy y, Except.map]⟩
    · simp only [h1, h2, ↓reduceIte] at h
      cases hs : sde enc f .ign t' o x with
      | error e => simp [hs, Except.map] at h
      | ok vr =>
        obtain ⟨v, r⟩ := vr
        simp only [hs, Except.map, Except.ok.injEq, Prod.mk.injEq] at h
        obtain ⟨rfl, rfl⟩ := h
        obtain ⟨c, hx, he, hy⟩ := sde_dep enc f .ign t' o x v r hs
        exact ⟨c, hx, he, fun y _ => by simp [h1, h2, hy y, Except.map]⟩

/-- replacing the trailing error marker of the token stream by any continuation does not change an
`Ok` result of the streaming deserializer -/
theorem deStream_replace_err (enc : Enc) (ty : Ty) (p s : List RTok) (v : Val)
    (h : deStream enc ty (p ++ [RTok.err]) = .ok v) : deStream enc ty (p ++ s) = .ok v := by
  cases ty with
  | st fs =>
    simp only [deStream] at h ⊢
    cases hM : sMapFold true (sStructKey enc fs) (sStructVal (sde enc (Ty.st fs).height))
        ((p ++ [RTok.err]).length + 1) (p ++ [RTok.err]) [] with
    | error e => simp only [hM] at h; cases h
    | ok sr =>
      obtain ⟨seen, r⟩ := sr
      simp only [hM] at h
      obtain ⟨q2, h2⟩ := rootFold_replace _ _ (fun B => depVal_struct enc _ (sde_dep enc _) B) p s [] seen r hM
      simp only [h2]; exact h
  | map t =>
    simp only [deStream] at h ⊢
    cases hM : sMapFold true (fun _ k => sKeyName enc k) (sMapVal (sde enc (Ty.map t).height) t)
        ((p ++ [RTok.err]).length + 1) (p ++ [RTok.err]) [] with
    | error e => simp only [hM] at h; cases h
    | ok sr =>
      obtain ⟨kvs, r⟩ := sr
      simp only [hM] at h
      obtain ⟨q2, h2⟩ := rootFold_replace _ _ (fun B => depVal_map enc _ (sde_dep enc _) t B) p s [] kvs r hM
      simp only [h2]; exact h
  | prop t =>
    simp only [deStream] at h ⊢
    generalize hV : (fun (st : Option Op × Option Val) (name : Bytes) (t' : RTok) (o : Op) (r : List RTok) =>
        if name = operatorKey then
          (match t' with
           | .close => (.error .other : R ((Option Op × Option Val) × List RTok))
           | _ => .error .type)
        else if name = valueKey then (sde enc (Ty.prop t).height t t' o r).map (fun (v, r') => ((st.1, some v), r'))
        else (sde enc (Ty.prop t).height .ign t' o r).map (fun (_, r') => (st, r'))) = V at h ⊢
    cases hM : sMapFold true (fun _ k => sKeyName enc k) V ((p ++ [RTok.err]).length + 1) (p ++ [RTok.err]) (none, none) with
    | error e => simp only [hM] at h; cases h
    | ok sr =>
      obtain ⟨st', r⟩ := sr
      simp only [hM] at h
      have hdep : ∀ B, DepVal V V B := by intro B; rw [← hV]; exact depVal_propRoot enc _ t B
      obtain ⟨q2, h2⟩ := rootFold_replace _ V hdep p s (none, none) st' r hM
      simp only [h2]; exact h
  | bool | i64 | u64 | i32 | u32 | i16 | u16 | i8 | u8 | f64 | f32 | str | any | ign => simp [deStream] at h
  | opt t => simp [deStream] at h
  | seq t => simp [deStream] at h
  | en vs => simp [deStream] at h
  | tup ts => simp [deStream] at h

/-- C20 at the deserializer: an `Ok` result obtained although the stream broke after `n` tokens is
the fault-free result -/
theorem deStream_err_cut (enc : Enc) (ty : Ty) (ts : List RTok) (n : Nat) (v : Val)
    (h : deStream enc ty (ts.take n ++ [RTok.err]) = .ok v) : deStream enc ty ts = .ok v := by
  have := deStream_replace_err enc ty (ts.take n) (ts.drop n) v h
  rwa [List.take_append_drop] at this

/-- C20 (deserializer level): for every encoding, target type, token list `ts` and `n`: if the stream
broke after `n` tokens (reader error, `RTok.err`) and the streaming deserializer nevertheless returned
`Ok v`, then `v` is the result on the fault-free stream.  The deserializer never turns a broken stream
into a different value; it can only have finished before reaching the break. -/
theorem C20_text_de (enc : Enc) (ty : Ty) (ts : List RTok) (n : Nat) (v : Val)
    (h : deStream enc ty (ts.take n ++ [RTok.err]) = .ok v) : deStream enc ty ts = .ok v :=
  deStream_err_cut enc ty ts n v h

/-! ### (b) a stream that simply ends after `n` tokens -/

theorem sField_inv {σ κ : Type} (V : σ → κ → RTok → Op → List RTok → R (σ × List RTok)) (st : σ) (kk : κ)
    (r : List RTok) (st' : σ) (q : List RTok) (h : sField V st kk r = .ok (st', q)) :
    ∃ t o r', V st kk t o r' = .ok (st', q) := by
  unfold sField at h
  cases hr : rRead r with
  | error e => simp [hr] at h
  | ok tr =>
    obtain ⟨t, r1⟩ := tr
    by_cases hop : ∃ o, t = .op o
    · obtain ⟨o, rfl⟩ := hop
      simp only [hr] at h
      cases hr2 : rRead r1 with
      | error e => simp [hr2] at h
      | ok tr2 =>
        obtain ⟨t2, r2⟩ := tr2
        simp only [hr2] at h
        exact ⟨t2, o, r2, h⟩
    · exact ⟨t, .eq, r1, by cases t <;> simp_all⟩

/-- a property of the loop state that every value step preserves holds at the end -/
theorem sMapFold_inv {σ κ : Type} (root : Bool) (K : σ → RTok → R κ)
    (V : σ → κ → RTok → Op → List RTok → R (σ × List RTok)) (P : σ → Prop)
    (hV : ∀ st kk t o r st' r', P st → V st kk t o r = .ok (st', r') → P st') :
    ∀ (n : Nat) (x : List RTok) (st st' : σ) (q : List RTok), P st → sMapFold root K V n x st = .ok (st', q) → P st'
  | 0, x, st, st', q, _, h => by simp [sMapFold] at h
  | n + 1, [], st, st', q, hP, h => by
      cases root <;> simp [sMapFold, rNext] at h
      obtain ⟨rfl, _⟩ := h; exact hP
  | n + 1, t :: r, st, st', q, hP, h => by
      cases ht : t with
      | err => subst ht; simp [sMapFold, rNext] at h
      | close =>
        subst ht
        simp only [sMapFold, rNext, Except.ok.injEq, Prod.mk.injEq] at h
        obtain ⟨rfl, _⟩ := h; exact hP
      | open_ =>
        subst ht
        simp only [sMapFold, rNext] at h
        cases hs : rSkip r 0 with
        | error e => simp [hs] at h
        | ok r' =>
          simp only [hs] at h
          exact sMapFold_inv root K V P hV n r' st st' q hP h
      | _ =>
        have hk : t.isKey = true := by rw [ht]; rfl
        rw [sMapFold_key root K V n t hk r st] at h
        cases hK : K st t with
        | error e => simp [hK] at h
        | ok kk =>
          simp only [hK] at h
          cases hF : sField V st kk r with
          | error e => simp [hF] at h
          | ok sr =>
            obtain ⟨st1, r3⟩ := sr
            simp only [hF] at h
            obtain ⟨t2, o, r', hv⟩ := sField_inv V st kk r st1 r3 hF
            exact sMapFold_inv root K V P hV n r3 st1 st' q (hV st kk t2 o r' st1 r3 hP hv) h

/-- the root loop on a stream cut after a prefix `p`: either it had stopped at a `Close` inside `p` (then
the longer stream gives the same state), or it ran to the end of `p` and the longer stream continues
from the state reached, with enough fuel for the rest -/
theorem rootFold_cut {σ κ : Type} (K : σ → RTok → R κ)
    (V : σ → κ → RTok → Op → List RTok → R (σ × List RTok)) (H : ∀ B, DepVal V V B)
    (p s : List RTok) (st st' : σ) (q : List RTok)
    (h : sMapFold true K V (p.length + 1) p st = .ok (st', q)) :
    (∃ q2, sMapFold true K V ((p ++ s).length + 1) (p ++ s) st = .ok (st', q2)) ∨
    (∃ m, sMapFold true K V ((p ++ s).length + 1) (p ++ s) st = sMapFold true K V m s st') := by
  rcases sMapFold_dep true K V V p.length (H _) _ _ st st' q h with ⟨c, hx, _, _, hy⟩ | ⟨_, _, _, j, hj, hcont⟩
  · left
    refine ⟨q ++ s, ?_⟩
    rw [hx, List.append_assoc]
    exact hy (q ++ s) _ (by rw [hx]; simp) (by simp; omega)
  · right
    exact ⟨_, hcont s _ (Nat.le_refl _) (by simp; omega)⟩

theorem seenGet_append_some (k : Nat) (x : Val) : ∀ (a b : List (Nat × Val)), seenGet k a = some x → seenGet k (a ++ b) = some x
  | [], b, h => by simp [seenGet] at h
  | (j, v) :: a, b, h => by
      simp only [seenGet, List.cons_append] at h ⊢
      split
      · simp_all
      · rename_i hne; simp only [hne, ↓reduceIte] at h; exact seenGet_append_some k x a b h

/-- what a cut may change in a result: a struct keeps every field it has, only fields not yet seen
(`none`) may be filled by the full document; a map's entries are a prefix of the full document's -/
def CutConsistent : Ty → Val → Val → Prop
  | .st fs, v, v' => ∃ out1 out2, v = .st out1 ∧ v' = .st out2 ∧ out1.length = fs.length ∧ out2.length = fs.length ∧
      ∀ (k : Nat) (hk : k < fs.length), out1[k]? = out2[k]? ∨ out1[k]? = some (fs[k].1, Val.none)
  | .map _, v, v' => ∃ kvs more, v = .map kvs ∧ v' = .map (kvs ++ more)
  | _, v, v' => v = v'

theorem finish_consistent (fs : List (Bytes × Ty)) (seen1 more : List (Nat × Val)) (out1 out2 : List (Bytes × Val))
    (h1 : structFinish fs 0 seen1 = .ok out1) (h2 : structFinish fs 0 (seen1 ++ more) = .ok out2) :
    CutConsistent (.st fs) (.st out1) (.st out2) := by
  obtain ⟨hl1, he1⟩ := structFinish_ok fs 0 seen1 out1 h1
  obtain ⟨hl2, he2⟩ := structFinish_ok fs 0 (seen1 ++ more) out2 h2
  refine ⟨out1, out2, rfl, rfl, hl1, hl2, ?_⟩
  intro k hk
  have e1 := he1 k hk
  have e2 := he2 k hk
  simp only [Nat.zero_add] at e1 e2
  cases hs : seenGet k seen1 with
  | some x =>
    left
    rw [e1, e2, hs, seenGet_append_some k x seen1 more hs]
  | none =>
    right
    rw [hs] at e1
    have hsome : out1[k]? ≠ none := by simp; omega
    rw [e1]
    cases ht : fs[k].2 <;> simp_all [finishEntry]

/-- C19 (deserializer level): the stream simply ends after `n` tokens (truncation at a token boundary:
the root map accepts a clean end, nested containers do not).  If the streaming deserializer returns
`Ok v` on the cut stream and `Ok v'` on the full one, `v'` only extends `v`. -/
theorem C19_text_de (enc : Enc) (ty : Ty) (ts : List RTok) (n : Nat) (v v' : Val)
    (h : deStream enc ty (ts.take n) = .ok v) (h' : deStream enc ty ts = .ok v') : CutConsistent ty v v' := by
  have hts : ts.take n ++ ts.drop n = ts := List.take_append_drop n ts
  generalize ts.take n = p at h hts
  generalize ts.drop n = s at hts
  subst hts
  cases ty with
  | st fs =>
    simp only [deStream] at h h'
    cases hM : sMapFold true (sStructKey enc fs) (sStructVal (sde enc (Ty.st fs).height)) (p.length + 1) p [] with
    | error e => simp only [hM] at h; cases h
    | ok sr =>
      obtain ⟨seen1, r⟩ := sr
      simp only [hM] at h
      cases hf1 : structFinish fs 0 seen1 with
      | error e => simp [hf1, Except.map] at h
      | ok out1 =>
        simp only [hf1, Except.map, Except.ok.injEq] at h
        subst h
        rcases rootFold_cut _ _ (fun B => depVal_struct enc _ (sde_dep enc _) B) p s [] seen1 r hM with ⟨q2, h2⟩ | ⟨m, h2⟩
        · simp only [h2, hf1, Except.map, Except.ok.injEq] at h'
          subst h'
          have := finish_consistent fs seen1 [] out1 out1 hf1 (by simpa using hf1)
          exact this
        · rw [h2] at h'
          cases hM2 : sMapFold true (sStructKey enc fs) (sStructVal (sde enc (Ty.st fs).height)) m s seen1 with
          | error e => simp only [hM2] at h'; cases h'
          | ok sr2 =>
            obtain ⟨seen2, r2⟩ := sr2
            simp only [hM2] at h'
            have hext : ∃ more, seen2 = seen1 ++ more :=
              sMapFold_inv true _ _ (fun sn => ∃ more, sn = seen1 ++ more)
                (fun st kk t o r st' r' hP hv => by
                  obtain ⟨more, rfl⟩ := hP
                  cases kk with
                  | none =>
                    simp only [sStructVal] at hv
                    cases hs : sde enc (Ty.st fs).height .ign t o r with
                    | error e => simp [hs, Except.map] at hv
                    | ok vr => simp only [hs, Except.map, Except.ok.injEq, Prod.mk.injEq] at hv; exact ⟨more, hv.1.symm⟩
                  | some it =>
                    obtain ⟨i, ty⟩ := it
                    simp only [sStructVal] at hv
                    cases hs : sde enc (Ty.st fs).height ty t o r with
                    | error e => simp [hs, Except.map] at hv
                    | ok vr =>
                      simp only [hs, Except.map, Except.ok.injEq, Prod.mk.injEq] at hv
                      exact ⟨more ++ [(i, vr.1)], by rw [← hv.1]; simp⟩)
                m s seen1 seen2 r2 ⟨[], by simp⟩ hM2
            obtain ⟨more, rfl⟩ := hext
            cases hf2 : structFinish fs 0 (seen1 ++ more) with
            | error e => simp [hf2, Except.map] at h'
            | ok out2 =>
              simp only [hf2, Except.map, Except.ok.injEq] at h'
              subst h'
              exact finish_consistent fs seen1 more out1 out2 hf1 hf2
  | map t =>
    simp only [deStream] at h h'
    cases hM : sMapFold true (fun _ k => sKeyName enc k) (sMapVal (sde enc (Ty.map t).height) t) (p.length + 1) p [] with
    | error e => simp only [hM] at h; cases h
    | ok sr =>
      obtain ⟨kvs1, r⟩ := sr
      simp only [hM, Except.ok.injEq] at h
      subst h
      rcases rootFold_cut _ _ (fun B => depVal_map enc _ (sde_dep enc _) t B) p s [] kvs1 r hM with ⟨q2, h2⟩ | ⟨m, h2⟩
      · simp only [h2, Except.ok.injEq] at h'
        subst h'
        exact ⟨kvs1, [], rfl, by simp⟩
      · rw [h2] at h'
        cases hM2 : sMapFold true (fun _ k => sKeyName enc k) (sMapVal (sde enc (Ty.map t).height) t) m s kvs1 with
        | error e => simp only [hM2] at h'; cases h'
        | ok sr2 =>
          obtain ⟨kvs2, r2⟩ := sr2
          simp only [hM2, Except.ok.injEq] at h'
          subst h'
          have hext : ∃ more, kvs2 = kvs1 ++ more :=
            sMapFold_inv true _ _ (fun a => ∃ more, a = kvs1 ++ more)
              (fun st kk tk o r st' r' hP hv => by
                obtain ⟨more, rfl⟩ := hP
                simp only [sMapVal] at hv
                cases hs : sde enc (Ty.map t).height t tk o r with
                | error e => simp [hs, Except.map] at hv
                | ok vr =>
                  simp only [hs, Except.map, Except.ok.injEq, Prod.mk.injEq] at hv
                  exact ⟨more ++ [(Val.str kk, vr.1)], by rw [← hv.1]; simp⟩)
              m s kvs1 kvs2 r2 ⟨[], by simp⟩ hM2
          obtain ⟨more, rfl⟩ := hext
          exact ⟨kvs1, more, rfl, rfl⟩
  | prop t =>
    -- the root `Property` visitor never succeeds on the stream path (an "operator" key is refused)
    exfalso
    simp only [deStream] at h
    generalize hV : (fun (st : Option Op × Option Val) (name : Bytes) (t' : RTok) (o : Op) (r : List RTok) =>
        if name = operatorKey then
          (match t' with
           | .close => (.error .other : R ((Option Op × Option Val) × List RTok))
           | _ => .error .type)
        else if name = valueKey then (sde enc (Ty.prop t).height t t' o r).map (fun (v, r') => ((st.1, some v), r'))
        else (sde enc (Ty.prop t).height .ign t' o r).map (fun (_, r') => (st, r'))) = V at h
    cases hM : sMapFold true (fun _ k => sKeyName enc k) V (p.length + 1) p (none, none) with
    | error e => simp only [hM] at h; cases h
    | ok sr =>
      obtain ⟨st', r⟩ := sr
      simp only [hM] at h
      have hnone : st'.1 = none :=
        sMapFold_inv true _ V (fun st => st.1 = none)
          (fun st name t' o r st2 r2 hP hv => by
            rw [← hV] at hv
            by_cases h1 : name = operatorKey
            · simp only [h1, ↓reduceIte] at hv; split at hv <;> cases hv
            · by_cases h2 : name = valueKey
              · subst h2
                have hvo : ¬ valueKey = operatorKey := by decide
                simp only [hvo, ↓reduceIte] at hv
                cases hs : sde enc (Ty.prop t).height t t' o r with
                | error e => simp [hs, Except.map] at hv
                | ok vr =>
                  simp only [hs, Except.map, Except.ok.injEq, Prod.mk.injEq] at hv
                  rw [← hv.1]; exact hP
              · simp only [h1, h2, ↓reduceIte] at hv
                cases hs : sde enc (Ty.prop t).height .ign t' o r with
                | error e => simp [hs, Except.map] at hv
                | ok vr =>
                  simp only [hs, Except.map, Except.ok.injEq, Prod.mk.injEq] at hv
                  rw [← hv.1]; exact hP)
          _ p (none, none) st' r rfl hM
      obtain ⟨a, b⟩ := st'
      simp only at hnone
      subst hnone
      simp [propFinish] at h
  | bool | i64 | u64 | i32 | u32 | i16 | u16 | i8 | u8 | f64 | f32 | str | any | ign => simp [deStream] at h
  | opt t => simp [deStream] at h
  | seq t => simp [deStream] at h
  | en vs => simp [deStream] at h
  | tup ts => simp [deStream] at h

/-! ### the same at the level of documents: the last top-level fields dropped -/

theorem lexFields_append : ∀ (a b : List (Key × Op × Node)), lexFields (a ++ b) = lexFields a ++ lexFields b
  | [], b => by simp [lexFields]
  | (k, o, v) :: r, b => by simp [lexFields, lexFields_append r b]

/-- the reader tokens of a document cut after its first `k` fields are a prefix of the document's -/
theorem lexemes_take (d : Doc) (k : Nat) :
    (lexemes d).take (lexemes (d.take k)).length = lexemes (d.take k) := by
  have h : lexemes d = lexemes (d.take k) ++ lexemes (d.drop k) := by
    simp only [lexemes]; rw [← lexFields_append, List.take_append_drop]
  rw [h]; simp

theorem wfFields_take : ∀ (d : List (Key × Op × Node)) (k : Nat), wfFields d = true → wfFields (d.take k) = true
  | [], k, _ => by simp [wfFields]
  | f :: r, 0, _ => by simp [wfFields]
  | (k0, o, v) :: r, k + 1, h => by
      simp only [wfFields, Bool.and_eq_true, List.take_succ_cons] at h ⊢
      exact ⟨h.1, wfFields_take r k h.2⟩

theorem fits_take (enc : Enc) (ty : Ty) (d : Doc) (k : Nat) (h : Fits enc ty (.obj d)) : Fits enc ty (.obj (d.take k)) := by
  cases h with
  | ign => exact .ign
  | opt h => exact fits_take_aux enc _ d k (.opt h)
  | prop h => exact fits_take_aux enc _ d k (.prop h)
  | map h => exact .map (fun k' o v hm => h k' o v (List.mem_of_mem_take hm))
  | st h => exact .st (fun k' o v hm i t hl => h k' o v (List.mem_of_mem_take hm) i t hl)
  | leafOnObj h => exact .leafOnObj h
where
  fits_take_aux (enc : Enc) : ∀ (ty : Ty) (d : Doc) (k : Nat), Fits enc ty (.obj d) → Fits enc ty (.obj (d.take k))
    | _, d, k, .ign => .ign
    | _, d, k, .opt h => .opt (fits_take_aux enc _ d k h)
    | _, d, k, .prop h => .prop (fits_take_aux enc _ d k h)
    | _, d, k, .map h => .map (fun k' o v hm => h k' o v (List.mem_of_mem_take hm))
    | _, d, k, .st h => .st (fun k' o v hm i t hl => h k' o v (List.mem_of_mem_take hm) i t hl)
    | _, d, k, .leafOnObj h => .leafOnObj h

theorem fitsT_take (enc : Enc) : ∀ (b : Bool) (ty : Ty) (d : Doc) (k : Nat), FitsT enc b ty (.obj d) → FitsT enc b ty (.obj (d.take k))
  | _, _, d, k, .ign => .ign
  | _, _, d, k, .opt h => .opt (fitsT_take enc _ _ d k h)
  | _, _, d, k, .prop h => .prop (fitsT_take enc _ _ d k h)
  | _, _, d, k, .map h => .map (fun k' o v hm => h k' o v (List.mem_of_mem_take hm))
  | _, _, d, k, .st h => .st (fun k' o v hm i t hl => h k' o v (List.mem_of_mem_take hm) i t hl)
  | _, _, d, k, .leafOnObj h => .leafOnObj h

/-- C19, stream path, document form: the reader tokens cut after the first `k` complete top-level
fields deserialize to the value of the document made of those `k` fields -/
theorem C19_text_de_spec (enc : Enc) (ty : Ty) (d : Doc) (k : Nat)
    (hroot : Ty.isRoot ty = true) (hwf : wfFields d = true) (hfit : Fits enc ty (.obj d)) :
    deStream enc ty ((lexemes d).take (lexemes (d.take k)).length) = valueOf enc ty (d.take k) := by
  rw [lexemes_take]
  exact deStream_eq_valueOf enc ty (d.take k) hroot (wfFields_take d k hwf) (fits_take enc ty d k hfit)

/-- C19, tape path, document form: the tape of the document with its last top-level fields dropped
deserializes to the value of the remaining fields -/
theorem C19_tape_de_spec (enc : Enc) (ty : Ty) (d : Doc) (k : Nat)
    (hroot : Ty.isRoot ty = true) (hwf : wfFields d = true) (hfit : FitsT enc false ty (.obj d)) :
    deTape enc ty (tapeOf (d.take k)) = valueOf enc ty (d.take k) :=
  deTape_eq_valueOf enc ty (d.take k) hroot (wfFields_take d k hwf) (fitsT_take enc _ ty d k hfit)

/-- the value of a document cut after `k` fields against the value of the whole document: completed
fields agree, only fields after the cut may be missing (`none`) / the map's entries are a prefix -/
theorem C19_valueOf_take (enc : Enc) (ty : Ty) (d : Doc) (k : Nat) (v v' : Val)
    (hroot : Ty.isRoot ty = true) (hwf : wfFields d = true) (hfit : Fits enc ty (.obj d))
    (h : valueOf enc ty (d.take k) = .ok v) (h' : valueOf enc ty d = .ok v') : CutConsistent ty v v' := by
  have e1 := C19_text_de_spec enc ty d k hroot hwf hfit
  have e2 := deStream_eq_valueOf enc ty d hroot hwf hfit
  rw [h] at e1; rw [h'] at e2
  exact C19_text_de enc ty (lexemes d) _ v v' e1 e2

/-- `C20_text_de` is not vacuous: `a=1 } b` broken after 4 tokens still yields `{a=1}` (the root loop
stopped at the stray `}`), and so does the unbroken stream -/
example : deStream .w1252 (.st [([97], .i64)]) (([RTok.unq [97], .op .eq, .unq [49], .close, .unq [98]] : List RTok).take 4 ++ [RTok.err])
      = .ok (.st [([97], .int 1)]) ∧
    deStream .w1252 (.st [([97], .i64)]) [RTok.unq [97], .op .eq, .unq [49], .close, .unq [98]] = .ok (.st [([97], .int 1)]) := by
  constructor <;> rfl

/-- `C19_text_de` is not vacuous: `a=1 b=2` cut after 3 tokens yields `{a=1,b=none}`, the whole stream
`{a=1,b=some(2)}`; a cut inside the field (`a=1 b`) is an error -/
example : deStream .w1252 (.st [([97], .i64), ([98], .opt .i64)]) (([RTok.unq [97], .op .eq, .unq [49], .unq [98], .op .eq, .unq [50]] : List RTok).take 3)
      = .ok (.st [([97], .int 1), ([98], .none)]) ∧
    deStream .w1252 (.st [([97], .i64), ([98], .opt .i64)]) [RTok.unq [97], .op .eq, .unq [49], .unq [98], .op .eq, .unq [50]]
      = .ok (.st [([97], .int 1), ([98], .some (.int 2))]) ∧
    deStream .w1252 (.st [([97], .i64), ([98], .opt .i64)]) (([RTok.unq [97], .op .eq, .unq [49], .unq [98], .op .eq, .unq [50]] : List RTok).take 4)
      = .error .other := by
  refine ⟨by rfl, by rfl, by rfl⟩

end Jomini.TextDe
