import JominiModel.Proofs.BinDeNested
import JominiModel.Proofs.BinDeCut
/-
C04_eq_spec for both SEQUENTIAL paths (on-demand, streaming) on NESTED documents, and with
`C04_eq_spec_tape` the unconditional `C04_tape_eq_ondemand`:
  deTape c ty (tapeOf D) = deOndemand c ty (tokensOf D) = deStream c ty (tokensOf D) = valueOfBin c ty D.

Mutual structural induction over `BNode` / `BNodes` / `BFields` (`sv_node`, `sv_elems`, `sv_map`,
`sv_struct`) with the lexeme list split as node ++ continuation; `valueTok` is the value token each path
holds in front of a node (the streaming reader parses an rgb block into one token, the on-demand path
keeps the marker and reads the block when the token is consumed); `opt` layers by `deTok_opt`; skipping by
balancedness (`skip_node`); ghost objects by `nextKey_field`; fuel bound `lexemes(node) + size(type) ≤ fuel`.
Side condition beyond `fitsRoot`: no leaf is the lexeme 0x0243 written as a token id (`plainF`).  (A `u16` target
on a token id: all three paths hand over the raw id since /repo 4ab9b0c; the former `noU16Root` hypothesis is gone.)
-/
set_option linter.unusedSimpArgs false
namespace Jomini.BinDe
open Jomini

/-! ### `opt` layers on the sequential paths -/

def wrapRes2 (k : Nat) : Res (String × List Tok) → Res (String × List Tok)
  | .ok (v, r) => .ok (wrapSome k v, r)
  | .error e => .error e

theorem wrapRes2_succ (k : Nat) (r : Res (String × List Tok)) :
    wrapRes2 (k + 1) r = (match wrapRes2 k r with | .ok (v, r) => .ok ("some(" ++ v ++ ")", r) | .error e => .error e) := by
  cases r with
  | error e => rfl
  | ok x => obtain ⟨v, r⟩ := x; simp [wrapRes2, wrapSome]

theorem normTok_opt (p : Path) (i : Ty) (t : Tok) (rest : List Tok) : normTok p (.opt i) t rest = .ok (t, rest) := by
  cases p <;> simp [normTok]

theorem deTok_opt (p : Path) (c : Cfg) (t : Tok) (rest : List Tok) : ∀ (ty : Ty) (f : Nat),
    deTok p c (f + (stripOpt ty).1) ty t rest = wrapRes2 (stripOpt ty).1 (deTok p c f (stripOpt ty).2 t rest) := by
  intro ty
  cases ty with
  | opt i =>
    intro f
    have ih := deTok_opt p c t rest i
    have e : stripOpt (.opt i) = ((stripOpt i).1 + 1, (stripOpt i).2) := by simp [stripOpt]
    rw [e]
    simp only
    rw [show f + ((stripOpt i).1 + 1) = (f + (stripOpt i).1) + 1 by omega]
    simp only [deTok, normTok_opt]
    rw [ih f, wrapRes2_succ]
    cases wrapRes2 (stripOpt i).1 (deTok p c f (stripOpt i).2 t rest) with
    | error e => rfl
    | ok x => rfl
  | _ =>
    intro f; simp [stripOpt, wrapRes2, wrapSome]
    cases deTok p c f _ t rest with
    | error e => rfl
    | ok x => obtain ⟨v, r⟩ := x; simp [wrapRes2, wrapSome]
termination_by ty => tySize ty
decreasing_by simp [tySize]

/-- relating the pair-valued wrapper with the reference's. -/
theorem wrapRes2_map (k : Nat) (X : Res String) (rest : List Tok) :
    wrapRes2 k (X.map (fun v => (v, rest))) = (wrapRes k X).map (fun v => (v, rest)) := by
  cases X <;> simp [wrapRes2, wrapRes, Except.map]

/-! ### side conditions -/

mutual
/-- no leaf is the reserved lexeme 0x0243 written as a token id (`is_id` is false for it). -/
def plainN : BNode → Bool
  | .leaf l => plainTok l.tok
  | .rgb _ => true
  | .obj fs => plainF fs
  | .arr vs => plainS vs
def plainF : BFields → Bool
  | .nil => true
  | .cons _ k v rest => plainTok k.tok && plainN v && plainF rest
def plainS : BNodes → Bool
  | .nil => true
  | .cons v rest => plainN v && plainS rest
end

/-! ### the value token each path sees in front of a node's lexemes -/

def valueTok (p : Path) (n : BNode) (rest : List Tok) : Tok × List Tok :=
  match n with
  | .leaf l => (l.tok, rest)
  | .rgb col => (match p with
      | .ondemand => (.id RGB_ID, rgbBody col ++ rest)
      | .stream => (.rgb col, rest))
  | .obj fs => (.open, tokensFields fs ++ .close :: rest)
  | .arr vs => (.open, tokensNodes vs ++ .close :: rest)

theorem leafTok_ne (l : BLeaf) : l.tok ≠ .open ∧ l.tok ≠ .close ∧ l.tok ≠ .equal ∧ l.tok ≠ .trunc ∧ l.tok ≠ .stray := by
  cases l <;> simp [BLeaf.tok]

theorem fetchRead_node (p : Path) (n : BNode) (hp : plainN n = true) (rest : List Tok) :
    fetchRead p (tokensNode n ++ rest) = .ok (valueTok p n rest) := by
  cases n with
  | leaf l =>
    simp only [plainN] at hp
    simp [tokensNode, fetchRead, leafTok_fetch p l rest hp, valueTok]
  | rgb col =>
    cases p with
    | ondemand => simp [tokensNode, rgbToks, fetchRead, fetch, valueTok, rgbBody]
    | stream =>
      have := stream_fetch_rgb col rest
      simp only [rgbBody] at this
      have e : tokensNode (.rgb col) ++ rest = Tok.id RGB_ID :: (Tok.open :: (List.map Tok.u32 col.comps ++ [Tok.close]) ++ rest) := by
        simp [tokensNode, rgbToks]
      rw [e]
      simp only [fetchRead, this, valueTok]
  | obj fs => cases p <;> simp [tokensNode, fetchRead, fetch, valueTok]
  | arr vs => cases p <;> simp [tokensNode, fetchRead, fetch, valueTok]

theorem nextValue_node (p : Path) (n : BNode) (hp : plainN n = true) (rest : List Tok) :
    nextValue p (.equal :: (tokensNode n ++ rest)) = .ok (valueTok p n rest) := by
  have h1 : fetchRead p (.equal :: (tokensNode n ++ rest)) = .ok (.equal, tokensNode n ++ rest) := by
    cases p <;> simp [fetchRead, fetch]
  simp only [nextValue, h1, fetchRead_node p n hp rest]

/-! ### skipping: a node's lexemes are balanced -/

theorem skip_u32s (cs : List Nat) (tl : List Tok) (d : Nat) :
    skipContainer (cs.map Tok.u32 ++ tl) d = skipContainer tl d := by
  induction cs with
  | nil => rfl
  | cons x xs ih => simp [skipContainer, ih]

theorem skip_ghosts (g : Nat) (tl : List Tok) (d : Nat) (hd : 1 ≤ d) :
    skipContainer (ghostToks g ++ tl) d = skipContainer tl d := by
  induction g with
  | zero => rfl
  | succ g ih =>
    simp only [ghostToks, List.cons_append, skipContainer]
    rw [if_neg (by omega)]
    simpa using ih

mutual
theorem skip_node (n : BNode) (tl : List Tok) (d : Nat) (hd : 1 ≤ d) :
    skipContainer (tokensNode n ++ tl) d = skipContainer tl d := by
  cases n with
  | leaf l => cases l <;> simp [tokensNode, BLeaf.tok, skipContainer]
  | rgb col =>
    simp only [tokensNode, rgbToks, List.cons_append, List.append_assoc, skipContainer, List.nil_append]
    rw [skip_u32s]
    simp only [List.cons_append, List.nil_append, skipContainer]
    rw [if_neg (by omega)]; simp
  | obj fs =>
    have := skip_fields fs (.close :: tl) (d + 1) (by omega)
    simp only [tokensNode, List.cons_append, List.append_assoc, skipContainer, List.nil_append]
    rw [this]
    simp only [skipContainer]
    rw [if_neg (by omega)]; simp
  | arr vs =>
    have := skip_nodes vs (.close :: tl) (d + 1) (by omega)
    simp only [tokensNode, List.cons_append, List.append_assoc, skipContainer, List.nil_append]
    rw [this]
    simp only [skipContainer]
    rw [if_neg (by omega)]; simp
theorem skip_fields (fs : BFields) (tl : List Tok) (d : Nat) (hd : 1 ≤ d) :
    skipContainer (tokensFields fs ++ tl) d = skipContainer tl d := by
  cases fs with
  | nil => rfl
  | cons g k v rest =>
    have h1 := skip_node v (tokensFields rest ++ tl) d hd
    have h2 := skip_fields rest tl d hd
    simp only [tokensFields, List.append_assoc, List.cons_append]
    rw [skip_ghosts g _ d hd]
    have hk : ∀ x, skipContainer (k.tok :: x) d = skipContainer x d := by
      intro x; cases k <;> simp [BLeaf.tok, skipContainer]
    rw [hk]
    simp only [skipContainer]
    rw [h1, h2]
theorem skip_nodes (vs : BNodes) (tl : List Tok) (d : Nat) (hd : 1 ≤ d) :
    skipContainer (tokensNodes vs ++ tl) d = skipContainer tl d := by
  cases vs with
  | nil => rfl
  | cons v rest =>
    have h1 := skip_node v (tokensNodes rest ++ tl) d hd
    have h2 := skip_nodes rest tl d hd
    simp only [tokensNodes, List.append_assoc]
    rw [h1, h2]
end

/-- `deserialize_ignored_any` on the value token of a node skips exactly the node. -/
theorem skip_value (p : Path) (n : BNode) (hp : plainN n = true) (rest : List Tok) :
    skipTok p (valueTok p n rest).1 (valueTok p n rest).2 = .ok rest := by
  cases n with
  | leaf l =>
    simp only [plainN] at hp
    cases p <;> cases l <;> simp_all [valueTok, BLeaf.tok, skipTok, plainTok]
  | rgb col =>
    cases p with
    | ondemand => simp [valueTok, skipTok, readRgb_body]
    | stream => simp [valueTok, skipTok]
  | obj fs =>
    have := skip_fields fs (.close :: rest) 1 (by omega)
    cases p <;> simp [valueTok, skipTok, this, skipContainer]
  | arr vs =>
    have := skip_nodes vs (.close :: rest) 1 (by omega)
    cases p <;> simp [valueTok, skipTok, this, skipContainer]

/-- `next_key_seed` walks over the ghost objects in front of a key. -/
theorem nextKey_field (p : Path) (root : Bool) (k : BLeaf) (hk : plainTok k.tok = true) (tl : List Tok) :
    ∀ (g f : Nat), g < f → nextKey p root f (ghostToks g ++ k.tok :: tl) = .ok (some k.tok, tl) := by
  intro g
  induction g with
  | zero =>
    intro f hf
    obtain ⟨f', rfl⟩ : ∃ f', f = f' + 1 := ⟨f - 1, by omega⟩
    simp only [ghostToks, List.nil_append, nextKey, leafTok_fetch p k tl hk]
    cases k <;> simp [BLeaf.tok]
  | succ g ih =>
    intro f hf
    obtain ⟨f', rfl⟩ : ∃ f', f = f' + 1 := ⟨f - 1, by omega⟩
    have hfo : fetch p (.open :: .close :: (ghostToks g ++ k.tok :: tl)) = .tok .open (.close :: (ghostToks g ++ k.tok :: tl)) := by
      cases p <;> simp [fetch]
    simp only [ghostToks, List.cons_append, nextKey, hfo]
    cases p with
    | stream =>
      have : fetchRead .stream (.close :: (ghostToks g ++ k.tok :: tl)) = .ok (.close, ghostToks g ++ k.tok :: tl) := by
        simp [fetchRead, fetch]
      simp only [this]
      exact ih f' (by omega)
    | ondemand =>
      simp only [payloadFree, if_true]
      exact ih f' (by omega)

theorem nextKey_end (p : Path) (root : Bool) (f : Nat) (rest : List Tok) :
    nextKey p root (f + 1) (.close :: rest) = .ok (none, rest) := by
  have : fetch p (.close :: rest) = .tok .close rest := by cases p <;> simp [fetch]
  simp [nextKey, this]

theorem nextKey_eof (p : Path) (f : Nat) : nextKey p true (f + 1) [] = .ok (none, []) := by
  simp [nextKey, fetch]

/-! ### leaves and colours, every request that is not an `opt` -/

theorem seq_leaf_all (p : Path) (c : Cfg) (f : Nat) (core : Ty) (hno : NotOpt core)
    (l : BLeaf) (hl : plainTok l.tok = true) (rest : List Tok) :
    deTok p c (f + 1) core l.tok rest = (valCoreG (binSem c) (.leaf l) core).map (fun v => (v, rest)) := by
  have hn := fun ty => normTok_plain p ty l.tok rest hl
  have hskip : skipTok p l.tok rest = .ok rest := by
    have := skip_value p (.leaf l) (by simpa [plainN] using hl) rest
    simpa [valueTok] using this
  cases core <;> simp [NotOpt] at hno <;>
    (cases l with
     | id n =>
       simp only [BLeaf.tok] at hn hskip
       simp only [deTok, hn, hskip, hinted, deser, leafOf, valCoreG, binSem, valLeaf, u16Leaf, leafPrim, BLeaf.tok, Event.ofRes, Except.map, enumVal]
       try (cases idPrim c n <;> simp [Except.map, leafOf] <;> (try (split <;> simp_all [Except.map])))
     | _ =>
       simp only [BLeaf.tok] at hn hskip
       simp [deTok, hn, hskip, hinted, deser, leafOf, valCoreG, binSem, valLeaf, u16Leaf, leafPrim, BLeaf.tok, Event.ofRes, Except.map, enumVal] <;>
       (try (split <;> simp_all [Except.map])))

theorem stream_rgb_all (c : Cfg) (f : Nat) (core : Ty) (hno : NotOpt core) (col : Rgb) (rest : List Tok) :
    deTok .stream c (f + 1) core (.rgb col) rest = (valCoreG (binSem c) (.rgb col) core).map (fun v => (v, rest)) := by
  cases core <;> simp [NotOpt] at hno <;>
    simp [deTok, normTok, skipTok, deser, hinted, leafOf, valCoreG, binSem, colorVisit, Except.map]

theorem ondemand_rgb_all (c : Cfg) (f : Nat) (core : Ty) (hno : NotOpt core) (col : Rgb) (rest : List Tok) :
    deTok .ondemand c (f + 1) core (.id RGB_ID) (rgbBody col ++ rest) =
      (valCoreG (binSem c) (.rgb col) core).map (fun v => (v, rest)) := by
  cases core <;> simp [NotOpt] at hno <;>
    simp [deTok, normTok, readRgb_body, RGB_ID, skipTok, deser, hinted, leafOf, valCoreG, binSem, colorVisit, Except.map]

theorem deElems_cons (p : Path) (c : Cfg) (g : Nat) (et : Ty) (t : Tok) (tl toks : List Tok) (acc : List String)
    (ht : t ≠ .close) (hf : fetchRead p toks = .ok (t, tl)) :
    deElems p c (g + 1) et toks acc =
      (match deTok p c g et t tl with
        | .ok (v, r) => deElems p c g et r (acc ++ [v])
        | .error e => .error e) := by
  simp only [deElems, hf]
  cases t <;> first | (exact absurd rfl ht) | rfl

theorem deElems_end (p : Path) (c : Cfg) (g : Nat) (et : Ty) (rest : List Tok) (acc : List String) :
    deElems p c (g + 1) et (.close :: rest) acc = .ok (acc, rest) := by
  have : fetchRead p (.close :: rest) = .ok (.close, rest) := by cases p <;> simp [fetchRead, fetch]
  simp [deElems, this]

theorem valueTok_ne_close (p : Path) (n : BNode) (rest : List Tok) : (valueTok p n rest).1 ≠ .close := by
  cases n with
  | leaf l => exact (leafTok_ne l).2.1
  | rgb col => cases p <;> simp [valueTok]
  | obj fs => simp [valueTok]
  | arr vs => simp [valueTok]

theorem lift_ty_seq (p : Path) (c : Cfg) (n : BNode) (rest : List Tok)
    (hcore : ∀ core f, NotOpt core → fitsN c n core = true → (tokensNode n).length + tySize core ≤ f →
      deTok p c f core (valueTok p n rest).1 (valueTok p n rest).2 = (valCoreG (binSem c) n core).map (fun v => (v, rest)))
    (ty : Ty) (f : Nat) (hf : fitsN c n ty = true) (hb : (tokensNode n).length + tySize ty ≤ f) :
    deTok p c f ty (valueTok p n rest).1 (valueTok p n rest).2 = (nodeVia (valCoreG (binSem c) n) ty).map (fun v => (v, rest)) := by
  obtain ⟨hno, hsz⟩ := stripOpt_core ty
  have hk : f = (f - (stripOpt ty).1) + (stripOpt ty).1 := by omega
  rw [hk, deTok_opt]
  unfold nodeVia
  rw [hcore _ _ hno (by rw [← fitsN_core]; exact hf) (by omega), wrapRes2_map]

theorem deMap_none (p : Path) (c : Cfg) (g : Nat) (vt : Ty) (root : Bool) (toks r : List Tok) (acc : List String)
    (hk : nextKey p root (g + 1) toks = .ok (none, r)) : deMap p c (g + 1) vt root toks acc = .ok (acc, r) := by
  simp only [deMap, hk]

theorem deMap_some (p : Path) (c : Cfg) (g : Nat) (vt : Ty) (root : Bool) (toks r0 : List Tok) (kt : Tok) (acc : List String)
    (hk : nextKey p root (g + 1) toks = .ok (some kt, r0)) :
    deMap p c (g + 1) vt root toks acc =
      (match deTok p c g .str kt r0 with
        | .error e => .error e
        | .ok (k, r1) =>
          match nextValue p r1 with
          | .error e => .error e
          | .ok (vtok, r2) =>
            match deTok p c g vt vtok r2 with
            | .error e => .error e
            | .ok (v, r3) => deMap p c g vt root r3 (acc ++ [k ++ "=" ++ v])) := by
  simp only [deMap, hk]
  cases deTok p c g .str kt r0 with
  | error e => rfl
  | ok x =>
    obtain ⟨k, r1⟩ := x
    dsimp only
    cases nextValue p r1 with
    | error e => rfl
    | ok y =>
      obtain ⟨vtok, r2⟩ := y
      dsimp only
      cases deTok p c g vt vtok r2 with
      | error e => rfl
      | ok z => rfl

/-- one step of the sequential struct loop, given the field the key names. -/
def seqStructStep (p : Path) (c : Cfg) (g : Nat) (fs : Fields) (bt root : Bool) (slots : List (Option String))
    (rest : List Tok) (w : Res (Option Nat)) : Res (String × List Tok) :=
  match w with
  | .error e => .error e
  | .ok none =>
    match nextValue p rest with
    | .error e => .error e
    | .ok (vtok, r2) =>
      match deTok p c g .ign vtok r2 with
      | .error e => .error e
      | .ok (_, r3) => deStruct p c g fs bt root r3 slots
  | .ok (some i) =>
    match slots[i]?, fs.get? i with
    | some (some _), some (name, _, _) => .error (.duplicate name)
    | some none, some (_, _, fty) =>
      match nextValue p rest with
      | .error e => .error e
      | .ok (vtok, r2) =>
        match deTok p c g fty vtok r2 with
        | .error e => .error e
        | .ok (v, r3) => deStruct p c g fs bt root r3 (slots.set i (some v))
    | _, _ => .error .panic

theorem deStruct_none (p : Path) (c : Cfg) (g : Nat) (fs : Fields) (bt root : Bool) (toks r : List Tok) (slots : List (Option String))
    (hk : nextKey p root (g + 1) toks = .ok (none, r)) :
    deStruct p c (g + 1) fs bt root toks slots = (structFinish fs slots []).map (fun v => (v, r)) := by
  simp only [deStruct, hk]

theorem deStruct_some (p : Path) (c : Cfg) (g : Nat) (fs : Fields) (bt root : Bool) (toks r0 rest : List Tok) (kt0 kt : Tok)
    (slots : List (Option String))
    (hk : nextKey p root (g + 1) toks = .ok (some kt0, r0)) (hn : normTok p .any kt0 r0 = .ok (kt, rest)) :
    deStruct p c (g + 1) fs bt root toks slots = seqStructStep p c g fs bt root slots rest (seqFieldKey c fs bt kt) := by
  simp only [deStruct, hk, hn, seqStructStep]
  cases seqFieldKey c fs bt kt with
  | error e => rfl
  | ok w => cases w <;> rfl

theorem seqFieldKey_which (c : Cfg) (decl : Fields) (k : BLeaf) (hk : plainTok k.tok = true) :
    seqFieldKey c decl false k.tok = whichOf (binSem c) decl k := by
  cases k <;> simp [seqFieldKey, BLeaf.tok, deser, whichOf, binSem, leafPrim, Event.ofRes]
  rename_i n
  cases idPrim c n <;> simp

def Ends (root : Bool) (tail rest : List Tok) : Prop :=
  tail = .close :: rest ∨ (root = true ∧ tail = [] ∧ rest = [])

theorem nextKey_ends (p : Path) (root : Bool) (tail rest : List Tok) (h : Ends root tail rest) (f : Nat) :
    nextKey p root (f + 1) tail = .ok (none, rest) := by
  rcases h with rfl | ⟨rfl, rfl, rfl⟩
  · exact nextKey_end p root f rest
  · exact nextKey_eof p f

theorem tokensNode_pos (n : BNode) : 1 ≤ (tokensNode n).length := by
  cases n <;> simp [tokensNode, rgbToks]

theorem ghost_len (g : Nat) : (ghostToks g).length = 2 * g := by
  induction g with
  | zero => rfl
  | succ g ih => simp [ghostToks, ih]; omega

mutual
theorem sv_node (c : Cfg) (n : BNode) : ∀ (p : Path) (rest : List Tok) (core : Ty) (f : Nat),
    NotOpt core → plainN n = true → fitsN c n core = true →
    (tokensNode n).length + tySize core ≤ f →
    deTok p c f core (valueTok p n rest).1 (valueTok p n rest).2 = (valCoreG (binSem c) n core).map (fun v => (v, rest)) := by
  intro p rest core f hno hpl hfit hb
  have hs := tySize_pos core
  obtain ⟨g, rfl⟩ : ∃ g, f = g + 1 := ⟨f - 1, by omega⟩
  have hign : core = .ign → deTok p c (g + 1) .ign (valueTok p n rest).1 (valueTok p n rest).2 = .ok ("ign", rest) := by
    intro _
    have hv := skip_value p n hpl rest
    have hn : normTok p .ign (valueTok p n rest).1 (valueTok p n rest).2 = .ok ((valueTok p n rest).1, (valueTok p n rest).2) ∨
        (p = .ondemand ∧ ∃ col, n = .rgb col) := by
      cases n with
      | leaf l => left; exact normTok_plain p .ign _ _ (by simpa [plainN, valueTok] using hpl)
      | rgb col => cases p with
        | ondemand => right; exact ⟨rfl, col, rfl⟩
        | stream => left; simp [valueTok, normTok]
      | obj fs => left; cases p <;> simp [valueTok, normTok]
      | arr vs => left; cases p <;> simp [valueTok, normTok]
    rcases hn with hn | ⟨rfl, col, rfl⟩
    · simp only [deTok, hn, hv]
    · exact (ondemand_rgb_all c g .ign (by simp [NotOpt]) col rest).trans (by simp [valCoreG, Except.map])
  cases n with
  | leaf l =>
    simp only [plainN] at hpl
    exact seq_leaf_all p c g core hno l hpl rest
  | rgb col =>
    cases p with
    | ondemand => exact ondemand_rgb_all c g core hno col rest
    | stream => exact stream_rgb_all c g core hno col rest
  | arr vs =>
    simp only [plainN] at hpl
    have hlen : (tokensNode (.arr vs)).length = (tokensNodes vs).length + 2 := by simp [tokensNode]
    have hnt : ∀ ty l, normTok p ty .open l = .ok (.open, l) :=
      fun ty l => normTok_plain p ty .open l (by simp [plainTok])
    have hel := fun et acc hf hb' => sv_elems c vs p rest et g acc hpl hf hb'
    cases core with
    | opt i => simp [NotOpt] at hno
    | ign => simpa [valCoreG, Except.map] using hign rfl
    | seq et =>
      simp only [fitsN, stripOpt] at hfit
      simp only [valueTok, deTok, hnt, valCoreG]
      rw [hel et [] hfit (by simp [tySize] at hb; omega)]
      cases valNodesG (binSem c) vs et [] <;> rfl
    | any =>
      simp only [fitsN, stripOpt] at hfit
      simp only [valueTok, deTok, hnt, valCoreG, deser]
      rw [hel .any [] hfit (by simp [tySize] at hb ⊢; omega)]
      cases valNodesG (binSem c) vs .any [] <;> rfl
    | map vt =>
      simp only [fitsN, stripOpt] at hfit
      cases vs with
      | cons v r => simp [BNodes.isNil] at hfit
      | nil =>
        simp only [valueTok, deTok, hnt, valCoreG, BNodes.isNil, if_true, tokensNodes, List.nil_append]
        cases g with
        | zero => simp [tokensNode, tokensNodes, tySize] at hb; omega
        | succ g' =>
          rw [deMap_none _ _ _ _ _ _ _ _ (nextKey_end p false g' rest)]
          simp only [Except.map]
          congr 1
    | struct decl =>
      simp only [fitsN, stripOpt] at hfit
      cases vs with
      | cons v r => simp [BNodes.isNil] at hfit
      | nil =>
        simp only [valueTok, deTok, hnt, valCoreG, BNodes.isNil, if_true, tokensNodes, List.nil_append]
        cases g with
        | zero => simp [tokensNode, tokensNodes, tySize] at hb; omega
        | succ g' => rw [deStruct_none _ _ _ _ _ _ _ _ _ (nextKey_end p false g' rest)]
    | prop t => simp [valueTok, deTok, hnt, valCoreG, Except.map]
    | _ => simp [valueTok, deTok, hnt, valCoreG, Except.map, hinted, deser, leafOf]
  | obj fs =>
    simp only [plainN] at hpl
    have hlen : (tokensNode (.obj fs)).length = (tokensFields fs).length + 2 := by simp [tokensNode]
    have hnt : ∀ ty l, normTok p ty .open l = .ok (.open, l) :=
      fun ty l => normTok_plain p ty .open l (by simp [plainTok])
    have hends : Ends false (.close :: rest) rest := Or.inl rfl
    have hmap := fun vt acc hf hb' => sv_map c fs p false (.close :: rest) rest vt g acc hends hpl hf hb'
    have hst := fun decl slots hf hb' => sv_struct c fs p false (.close :: rest) rest decl g slots hends hpl hf hb'
    cases core with
    | opt i => simp [NotOpt] at hno
    | ign => simpa [valCoreG, Except.map] using hign rfl
    | seq et => simp [fitsN, stripOpt] at hfit
    | any => simp [fitsN, stripOpt] at hfit
    | map vt =>
      simp only [fitsN, stripOpt] at hfit
      simp only [valueTok, deTok, hnt, valCoreG]
      rw [hmap vt [] hfit (by simp [tySize] at hb; omega)]
      cases valMapG (binSem c) fs vt [] <;> rfl
    | struct decl =>
      simp only [fitsN, stripOpt] at hfit
      simp only [valueTok, deTok, hnt, valCoreG]
      exact hst decl (slotsInit decl) hfit (by simp [tySize] at hb; omega)
    | prop t => simp [valueTok, deTok, hnt, valCoreG, Except.map]
    | _ => simp [valueTok, deTok, hnt, valCoreG, Except.map, hinted, deser, leafOf]
theorem sv_elems (c : Cfg) (vs : BNodes) : ∀ (p : Path) (rest : List Tok) (et : Ty) (f : Nat) (acc : List String),
    plainS vs = true → fitsNs c vs et = true → (tokensNodes vs).length + 1 + tySize et ≤ f →
    deElems p c f et (tokensNodes vs ++ .close :: rest) acc = (valNodesG (binSem c) vs et acc).map (fun v => (v, rest)) := by
  intro p rest et f acc hpl hfit hb
  obtain ⟨g, rfl⟩ : ∃ g, f = g + 1 := ⟨f - 1, by omega⟩
  cases vs with
  | nil => simp [tokensNodes, deElems_end, valNodesG, Except.map]
  | cons v rs =>
    simp only [plainS, Bool.and_eq_true] at hpl
    have hfv : fitsN c v et = true ∧ fitsNs c rs et = true := by
      cases v <;> simp_all [fitsNs]
    have hpos := tokensNode_pos v
    have htl : tokensNodes (.cons v rs) ++ .close :: rest = tokensNode v ++ (tokensNodes rs ++ .close :: rest) := by
      simp [tokensNodes]
    have hlen : (tokensNodes (.cons v rs)).length = (tokensNode v).length + (tokensNodes rs).length := by
      simp [tokensNodes]
    have hfr := fetchRead_node p v hpl.1 (tokensNodes rs ++ .close :: rest)
    have hne := valueTok_ne_close p v (tokensNodes rs ++ .close :: rest)
    have hv := lift_ty_seq p c v (tokensNodes rs ++ .close :: rest)
      (fun core f' hno hfc hbc => sv_node c v p _ core f' hno hpl.1 hfc hbc) et g hfv.1 (by omega)
    generalize valueTok p v (tokensNodes rs ++ .close :: rest) = vtk at hfr hne hv
    obtain ⟨t, tl⟩ := vtk
    simp only at hne hv
    rw [htl, deElems_cons p c g et t tl _ acc hne hfr, hv]
    simp only [valNodesG]
    cases hx : nodeVia (valCoreG (binSem c) v) et with
    | error e => rfl
    | ok x =>
      simp only [Except.map]
      exact sv_elems c rs p rest et g (acc ++ [x]) hpl.2 hfv.2 (by omega)
theorem sv_map (c : Cfg) (fs : BFields) : ∀ (p : Path) (root : Bool) (tail rest : List Tok) (vt : Ty) (f : Nat) (acc : List String),
    Ends root tail rest → plainF fs = true → fitsMapF c fs vt = true →
    (tokensFields fs).length + 1 + tySize vt ≤ f →
    deMap p c f vt root (tokensFields fs ++ tail) acc = (valMapG (binSem c) fs vt acc).map (fun v => (v, rest)) := by
  intro p root tail rest vt f acc hends hpl hfit hb
  obtain ⟨g, rfl⟩ : ∃ g, f = g + 1 := ⟨f - 1, by omega⟩
  cases fs with
  | nil => simp [tokensFields, deMap_none _ _ _ _ _ _ _ _ (nextKey_ends p root tail rest hends g), valMapG, Except.map]
  | cons gh k v rs =>
    simp only [plainF, Bool.and_eq_true] at hpl
    simp only [fitsMapF, Bool.and_eq_true] at hfit
    have hpos := tokensNode_pos v
    have hlen : (tokensFields (.cons gh k v rs)).length = 2 * gh + 2 + (tokensNode v).length + (tokensFields rs).length := by
      simp [tokensFields, ghost_len]; omega
    have htl : tokensFields (.cons gh k v rs) ++ tail =
        ghostToks gh ++ k.tok :: (.equal :: (tokensNode v ++ (tokensFields rs ++ tail))) := by
      simp [tokensFields]
    have hk := nextKey_field p root k hpl.1.1 (.equal :: (tokensNode v ++ (tokensFields rs ++ tail))) gh (g + 1) (by omega)
    rw [htl, deMap_some p c g vt root _ _ _ acc hk]
    obtain ⟨g', rfl⟩ : ∃ g', g = g' + 1 := ⟨g - 1, by omega⟩
    rw [seq_leaf p c g' .str (by simp [LeafTy]) k _ hpl.1.1]
    have hS : (binSem c).leaf = valLeaf c := rfl
    simp only [valMapG, hS]
    cases hks : valLeaf c .str k with
    | error e => rfl
    | ok ks =>
      have hnv := nextValue_node p v hpl.1.2 (tokensFields rs ++ tail)
      have hv := lift_ty_seq p c v (tokensFields rs ++ tail)
        (fun core f' hno hfc hbc => sv_node c v p _ core f' hno hpl.1.2 hfc hbc) vt (g' + 1) hfit.1 (by omega)
      generalize valueTok p v (tokensFields rs ++ tail) = vtk at hnv hv
      obtain ⟨t, tl⟩ := vtk
      simp only at hv
      simp only [Except.map, hnv, hv]
      cases hx : nodeVia (valCoreG (binSem c) v) vt with
      | error e => rfl
      | ok x =>
        simp only [Except.map]
        exact sv_map c rs p root tail rest vt (g' + 1) _ hends hpl.2 hfit.2 (by omega)
theorem sv_struct (c : Cfg) (fs : BFields) : ∀ (p : Path) (root : Bool) (tail rest : List Tok) (decl : Fields) (f : Nat)
    (slots : List (Option String)),
    Ends root tail rest → plainF fs = true → fitsStructF c fs decl = true →
    (tokensFields fs).length + 1 + tySize.fieldsSize decl ≤ f →
    deStruct p c f decl false root (tokensFields fs ++ tail) slots =
      (valStructG (binSem c) fs decl false slots).map (fun v => (v, rest)) := by
  intro p root tail rest decl f slots hends hpl hfit hb
  obtain ⟨g, rfl⟩ : ∃ g, f = g + 1 := ⟨f - 1, by omega⟩
  cases fs with
  | nil =>
    simp only [tokensFields, List.nil_append, valStructG]
    rw [deStruct_none _ _ _ _ _ _ _ _ _ (nextKey_ends p root tail rest hends g)]
  | cons gh k v rs =>
    simp only [plainF, Bool.and_eq_true] at hpl
    simp only [fitsStructF, Bool.and_eq_true] at hfit
    have hpos := tokensNode_pos v
    have hlen : (tokensFields (.cons gh k v rs)).length = 2 * gh + 2 + (tokensNode v).length + (tokensFields rs).length := by
      simp [tokensFields, ghost_len]; omega
    have htl : tokensFields (.cons gh k v rs) ++ tail =
        ghostToks gh ++ k.tok :: (.equal :: (tokensNode v ++ (tokensFields rs ++ tail))) := by
      simp [tokensFields]
    have hk := nextKey_field p root k hpl.1.1 (.equal :: (tokensNode v ++ (tokensFields rs ++ tail))) gh (g + 1) (by omega)
    have hn := normTok_plain p .any k.tok (.equal :: (tokensNode v ++ (tokensFields rs ++ tail))) hpl.1.1
    rw [htl, deStruct_some p c g decl false root _ _ _ _ _ slots hk hn, seqFieldKey_which c decl k hpl.1.1,
      valStructG_cons_false]
    have hnv := nextValue_node p v hpl.1.2 (tokensFields rs ++ tail)
    have hvv := fun ty (hf : fitsN c v ty = true) (hb' : (tokensNode v).length + tySize ty ≤ g) =>
      lift_ty_seq p c v (tokensFields rs ++ tail)
        (fun core f' hno hfc hbc => sv_node c v p _ core f' hno hpl.1.2 hfc hbc) ty g hf hb'
    have hrest := fun sl => sv_struct c rs p root tail rest decl g sl hends hpl.2 hfit.2 (by omega)
    have hfit1 : ∀ i name tk fty, whichOf (binSem c) decl k = .ok (some i) → decl.get? i = some (name, tk, fty) →
        fitsN c v fty = true := by
      intro i name tk fty h1 h2
      have := hfit.1
      unfold whichOf at h1
      simp only [binSem] at h1
      rw [h1] at this
      simpa [h2] using this
    generalize valueTok p v (tokensFields rs ++ tail) = vtk at hnv hvv
    obtain ⟨t, tl⟩ := vtk
    simp only at hvv
    cases hw : whichOf (binSem c) decl k with
    | error e => simp [seqStructStep, structStepSpec, Except.map]
    | ok w =>
      cases w with
      | none =>
        simp only [seqStructStep, structStepSpec, hnv]
        rw [hvv .ign (by cases v <;> simp [fitsN, stripOpt]) (by simp [tySize]; omega)]
        have : nodeVia (valCoreG (binSem c) v) .ign = .ok "ign" := by
          cases v <;> simp [nodeVia, stripOpt, valCoreG, wrapRes, wrapSome]
        simp only [this, Except.map]
        exact hrest slots
      | some i =>
        simp only [seqStructStep, structStepSpec]
        cases hsa : slots[i]? with
        | none => rfl
        | some a =>
          cases hfb : decl.get? i with
          | none => cases a <;> rfl
          | some y =>
            obtain ⟨name, tk, fty⟩ := y
            cases a with
            | some sv => rfl
            | none =>
              dsimp only
              have hsz := (get?_size decl i name tk fty hfb).1
              have hfv := hfit1 i name tk fty hw hfb
              simp only [hnv]
              rw [hvv fty hfv (by omega)]
              cases hx : nodeVia (valCoreG (binSem c) v) fty with
              | error e => rfl
              | ok x =>
                simp only [Except.map]
                exact hrest _
end

theorem seqFieldKey_whichT (c : Cfg) (decl : Fields) (k : BLeaf) (hk : plainTok k.tok = true) :
    seqFieldKey c decl true k.tok = whichTok (binSem c) decl k := by
  cases k <;> simp [seqFieldKey, BLeaf.tok, deser, whichTok, binSem, leafPrim, Event.ofRes]

/-- the sequential struct loop of a token-attribute struct over a run of fields (values by `sv_node`). -/
theorem sv_struct_tok (c : Cfg) : ∀ (m : Nat) (fs : BFields), fs.len = m →
    ∀ (p : Path) (root : Bool) (tail rest : List Tok) (decl : Fields) (f : Nat) (slots : List (Option String)),
    Ends root tail rest → plainF fs = true → fitsTokF c fs decl = true →
    (tokensFields fs).length + 1 + tySize.fieldsSize decl ≤ f →
    deStruct p c f decl true root (tokensFields fs ++ tail) slots =
      (valStructG (binSem c) fs decl true slots).map (fun v => (v, rest)) := by
  intro m
  induction m with
  | zero =>
    intro fs hm p root tail rest decl f slots hends hpl hfit hb
    obtain ⟨g, rfl⟩ : ∃ g, f = g + 1 := ⟨f - 1, by omega⟩
    cases fs with
    | cons gh k v rs => simp [BFields.len] at hm
    | nil =>
      simp only [tokensFields, List.nil_append, valStructG]
      rw [deStruct_none _ _ _ _ _ _ _ _ _ (nextKey_ends p root tail rest hends g)]
  | succ m ih =>
    intro fs hm p root tail rest decl f slots hends hpl hfit hb
    obtain ⟨g, rfl⟩ : ∃ g, f = g + 1 := ⟨f - 1, by omega⟩
    cases fs with
    | nil => simp [BFields.len] at hm
    | cons gh k v rs =>
      have hrm : rs.len = m := by simp [BFields.len] at hm; exact hm
      simp only [plainF, Bool.and_eq_true] at hpl
      simp only [fitsTokF, Bool.and_eq_true] at hfit
      have hpos := tokensNode_pos v
      have hlen : (tokensFields (.cons gh k v rs)).length = 2 * gh + 2 + (tokensNode v).length + (tokensFields rs).length := by
        simp [tokensFields, ghost_len]; omega
      have htl : tokensFields (.cons gh k v rs) ++ tail =
          ghostToks gh ++ k.tok :: (.equal :: (tokensNode v ++ (tokensFields rs ++ tail))) := by
        simp [tokensFields]
      have hk := nextKey_field p root k hpl.1.1 (.equal :: (tokensNode v ++ (tokensFields rs ++ tail))) gh (g + 1) (by omega)
      have hn := normTok_plain p .any k.tok (.equal :: (tokensNode v ++ (tokensFields rs ++ tail))) hpl.1.1
      rw [htl, deStruct_some p c g decl true root _ _ _ _ _ slots hk hn, seqFieldKey_whichT c decl k hpl.1.1,
        valStructG_cons_true]
      have hnv := nextValue_node p v hpl.1.2 (tokensFields rs ++ tail)
      have hvv := fun ty (hf : fitsN c v ty = true) (hb' : (tokensNode v).length + tySize ty ≤ g) =>
        lift_ty_seq p c v (tokensFields rs ++ tail)
          (fun core f' hno hfc hbc => sv_node c v p _ core f' hno hpl.1.2 hfc hbc) ty g hf hb'
      have hrest := fun sl => ih rs hrm p root tail rest decl g sl hends hpl.2 hfit.2 (by omega)
      have hfit1 : ∀ i name tk fty, whichTok (binSem c) decl k = .ok (some i) → decl.get? i = some (name, tk, fty) →
          fitsN c v fty = true := by
        intro i name tk fty h1 h2
        have := hfit.1
        rw [h1] at this
        simpa [h2] using this
      generalize valueTok p v (tokensFields rs ++ tail) = vtk at hnv hvv
      obtain ⟨t, tl⟩ := vtk
      simp only at hvv
      cases hw : whichTok (binSem c) decl k with
      | error e => simp [seqStructStep, structStepSpecT, Except.map]
      | ok w =>
        cases w with
        | none =>
          simp only [seqStructStep, structStepSpecT, hnv]
          rw [hvv .ign (by cases v <;> simp [fitsN, stripOpt]) (by simp [tySize]; omega)]
          have : nodeVia (valCoreG (binSem c) v) .ign = .ok "ign" := by
            cases v <;> simp [nodeVia, stripOpt, valCoreG, wrapRes, wrapSome]
          simp only [this, Except.map]
          exact hrest slots
        | some i =>
          simp only [seqStructStep, structStepSpecT]
          cases hsa : slots[i]? with
          | none => rfl
          | some a =>
            cases hfb : decl.get? i with
            | none => cases a <;> rfl
            | some y =>
              obtain ⟨name, tk, fty⟩ := y
              cases a with
              | some sv => rfl
              | none =>
                dsimp only
                have hsz := (get?_size decl i name tk fty hfb).1
                have hfv := hfit1 i name tk fty hw hfb
                simp only [hnv]
                rw [hvv fty hfv (by omega)]
                cases hx : nodeVia (valCoreG (binSem c) v) fty with
                | error e => rfl
                | ok x =>
                  simp only [Except.map]
                  exact hrest _


/-- (C04_eq_spec, both SEQUENTIAL paths, NESTED documents) for every binary document whose leaves are
not the reserved lexeme 0x0243 (`plainF`; the byte-level `wf` gives it), every root request that fits it
(`fitsRoot`), every resolver and strategy: the on-demand and
the streaming deserializer model on the document's raw lexemes return the reference value. -/
theorem C04_eq_spec_seq (p : Path) (c : Cfg) (ty : RootTy) (d : BDoc) (hpl : plainF d = true)
    (hfit : fitsRoot c ty d = true) :
    deSeqRoot p c ty (tokensOf d) = valueOfBin c ty d := by
  have hends : Ends true [] [] := Or.inr ⟨rfl, rfl, rfl⟩
  have hto : tokensOf d = tokensFields d ++ [] := by simp [tokensOf]
  unfold deSeqRoot valueOfBin valueOfG
  cases ty with
  | tok decl =>
    simp only [fitsRoot] at hfit
    dsimp only
    have := sv_struct_tok c d.len d rfl p true [] [] decl (2 * (tokensOf d).length + rootSize (.tok decl) + 8) (slotsInit decl)
      hends hpl hfit (by simp [tokensOf, rootSize, tySize]; omega)
    rw [← hto] at this
    rw [this]
    cases valStructG (binSem c) d decl true (slotsInit decl) <;> rfl
  | plain t =>
    cases t with
    | map vt =>
      simp only [fitsRoot] at hfit
      dsimp only
      have := sv_map c d p true [] [] vt (2 * (tokensOf d).length + rootSize (.plain (.map vt)) + 8) [] hends hpl hfit
        (by simp [tokensOf, rootSize, tySize]; omega)
      rw [← hto] at this
      rw [this]
      cases valMapG (binSem c) d vt [] <;> rfl
    | struct decl =>
      simp only [fitsRoot] at hfit
      dsimp only
      have := sv_struct c d p true [] [] decl (2 * (tokensOf d).length + rootSize (.plain (.struct decl)) + 8) (slotsInit decl)
        hends hpl hfit (by simp [tokensOf, rootSize, tySize]; omega)
      rw [← hto] at this
      rw [this]
      cases valStructG (binSem c) d decl false (slotsInit decl) <;> rfl
    | _ => rfl

/-- (C04, all three paths = reference, NESTED documents) -/
theorem C04_tape_eq_ondemand (c : Cfg) (ty : RootTy) (d : BDoc) (hpl : plainF d = true)
    (hfit : fitsRoot c ty d = true) :
    deTape c ty (tapeFields d 0) = deOndemand c ty (tokensOf d) ∧
    deTape c ty (tapeFields d 0) = deStream c ty (tokensOf d) ∧
    deTape c ty (tapeFields d 0) = valueOfBin c ty d := by
  have h1 := C04_eq_spec_tape c ty d hfit
  have h2 := C04_eq_spec_seq .ondemand c ty d hpl hfit
  have h3 := C04_eq_spec_seq .stream c ty d hpl hfit
  exact ⟨by rw [h1]; exact h2.symm, by rw [h1]; exact h3.symm, h1⟩

/-- the hypotheses are satisfiable for a token-attribute root struct: `0x2000 = -5  name = "x"  0x2023 = { "a" }` read as
`struct { #[jomini(token = 0x2000)] a: i64, #[jomini(token = 0x200e)] name: String, #[jomini(token = 0x2023)] flags: Option<Vec<String>> }`
(the first and third key are matched by token, the second by name; the resolver knows nothing). -/
example :
    let d : BDoc := .cons 0 (.id 8192) (.leaf (.i32 (-5))) (.cons 0 (.unquoted [110, 97, 109, 101]) (.leaf (.quoted [120]))
      (.cons 1 (.id 8227) (.arr (.cons (.leaf (.quoted [97])) .nil)) .nil))
    let ty : RootTy := .tok (.cons "a" 8192 .i64 (.cons "name" 8206 .str (.cons "flags" 8227 (.opt (.seq .str)) .nil)))
    plainF d = true ∧ fitsRoot ⟨.error, []⟩ ty d = true ∧
      (valueOfBin ⟨.error, []⟩ ty d).toOption = some "{a=i-5,name=s78,flags=some([s61])}" := by
  decide +kernel

end Jomini.BinDe
